(* Lemmas_E2Ec.v — whole command lines, end to end, third part (after Lemmas_E2E.v, Lemmas_E2Eb.v):
   0.  flush tails for either newline (CR LF after a carriage return was seen on the line);
   1-6 (top level) transparency of the line reader (C02.P4): lower-case `at`, carriage returns anywhere,
       CR LF line ending; the lookup reaches the state of the canonical line up to the newline flag;
       READ / unknown / RUN-handler lines with the terminal's line ending  -> Properties_C02t.v
   7   (top level, after P2) the WRITE line with the terminal's line ending -> Properties_C02t.v
   P2  an overlong argument text (C06.P3): ERROR, the line is drained      -> Properties_C06e.v
   P3  a READ line served by a read handler, the bytes (C10.P1)            -> Properties_C10e.v
   P4  the token table and the =? line (C19)                               -> Properties_C19t.v
   P5  the round trip through two whole lines; read-only variables (C07)  -> Properties_C07r.v
   The parts are independent of each other (each only uses part 0 and the earlier files). *)
From Coq Require Import List NArith ZArith Bool Arith Lia.
From CatV Require Import Bytes Defs Codec Spec Fsm Script ResolveDefs SchedDefs GlueDefs TextDefs CollectDefs RespDefs.
From CatV Require Lemmas_C02 Lemmas_C02e Lemmas_C06 Lemmas_C07 Lemmas_C07e Lemmas_C08 Lemmas_C10 Lemmas_C10b Lemmas_C11
  Lemmas_C19 Lemmas_E2E Lemmas_E2Eb.
Import ListNotations.
Local Open Scope nat_scope.

Local Notation wst := (Fsm.st sio smu shs).
Local Notation wio := (Fsm.io sio smu shs).
Local Notation whs := (Fsm.hs sio smu shs).
Local Notation wtr := (Fsm.tr sio smu shs).
Local Notation idle := Lemmas_C02e.idle.

(* ================= 0. the newline of a line, and the flush tails for either newline ================= *)
(* the newline the machine uses for a line: CR LF if a carriage return was seen, LF otherwise *)
Definition nl_of (cr : bool) : list N := if cr then [ch_CR; ch_LF] else [ch_LF].

Lemma nl_of_text : forall cr, Lemmas_C11.nl_text cr = nl_of cr.
Proof. reflexivity. Qed.

Lemma nl_of_chars : forall s, nl_chars s = nl_of (k_cr (k s)).
Proof. reflexivity. Qed.

Section Base.
Variable D : desc.
Hypothesis Hmx : d_mutex D = false.
Local Notation n := (ncmds D).
Local Notation cmdsvc := (cmd_service D sio smu shs s_read s_write s_lock s_unlock s_call).
Local Notation steps := (Lemmas_C02e.steps D).
Local Notation osteps := (Lemmas_E2E.osteps D).
Local Notation keep := Lemmas_E2E.keep.
Local Notation fresh := Lemmas_E2E.fresh.

(* Lemmas_E2E.unit_osteps without the restriction to LF *)
Lemma unit_osteps_g : forall s q txt, idle s -> k_state (k s) = CS_FLUSH ->
  k_position (k s) = 0 -> k_wstate (k s) = WS_BEFORE -> k_wbuf (k s) = WB_NL (k_cr (k s)) ->
  In 0%N (cbuf s) -> text_of (cbuf s) = txt ->
  let nl := nl_of (k_cr (k s)) in
  exists s3, osteps (3 + 2 * length nl + length txt) s q s3 q (nl ++ txt ++ nl) /\ keep s s3 /\
    k_state (k s3) = k_wafter (k s) /\
    gR s3 = (if cstate_beq (k_wafter (k s)) CS_AFTER_RESET then S (gR s) else gR s).
Proof.
  intros s q txt Hi Hs Hp Hw Hb H0 HT nl.
  destruct (Lemmas_E2E.unit_run D s txt Hp Hw Hb H0 HT) as (s3 & R & K & A & G & Hall).
  cbv zeta in *. rewrite nl_of_text in *. fold nl in R, Hall.
  exists s3. split; [|auto].
  pose proof (Lemmas_E2E.flush_osteps D Hmx (3 + 2 * length nl + length txt) s q Hi) as F.
  rewrite R in F. cbn [fst snd] in F.
  apply F. intros j Hj. rewrite (Hall j Hj). exact Hs.
Qed.

Lemma emit_unit_g : forall s q txt, idle s -> fresh s ->
  In 0%N (cbuf s) -> text_of (cbuf s) = txt ->
  let nl := nl_of (k_cr (k s)) in
  exists s3, osteps (4 + 2 * length nl + length txt) s q s3 q (nl ++ txt ++ nl) /\ keep s s3 /\
    k_state (k s3) = k_wafter (k s) /\
    gR s3 = (if cstate_beq (k_wafter (k s)) CS_AFTER_RESET then S (gR s) else gR s).
Proof.
  intros s q txt Hi (Hs & Hp & Hw & Hb) H0 HT nl.
  assert (H1 : osteps 1 s q (setk_state CS_FLUSH s) q []).
  { apply (Lemmas_E2E.ostep_pure D Hmx s q (setk_state CS_FLUSH) Hi). intros h t. unfold cmd_service.
    cbn [Fsm.st mkw]. rewrite Hs. unfold busy, upd_st, process_io_write_wait. cbn [Fsm.st mkw].
    destruct Hi as [U _]. rewrite U. reflexivity. }
  destruct (unit_osteps_g (setk_state CS_FLUSH s) q txt Hi eq_refl Hp Hw Hb H0 HT) as (s3 & O & K & A & G).
  exists s3. split; [|split; [|split; assumption]].
  - change (4 + 2 * length nl + length txt) with (1 + (3 + 2 * length nl + length txt)).
    exact (Lemmas_E2E.osteps_trans D _ _ _ _ _ _ _ _ _ _ H1 O).
  - exact K.
Qed.

(* a result code: the unit, then the reset; the line's newline flag is cleared by the reset *)
Lemma result_tail_g : forall s q txt, idle s -> fresh s -> k_wafter (k s) = CS_AFTER_RESET ->
  k_hold (k s) = false -> In 0%N (cbuf s) -> text_of (cbuf s) = txt ->
  let nl := nl_of (k_cr (k s)) in
  exists s4, osteps (5 + 2 * length nl + length txt) s q s4 q (nl ++ txt ++ nl) /\
    k_state (k s4) = CS_IDLE /\ mem s4 = mem s /\ fault s4 = fault s /\ u s4 = u s /\
    gL s4 = gL s /\ gS s4 = gS s /\ gR s4 = S (gR s) /\
    k_cr (k s4) = false /\ k_hold (k s4) = false /\ k_cmd (k s4) = None /\ cbuf s4 = cbuf s.
Proof.
  intros s q txt Hi Hfr Haf Hh H0 HT nl.
  destruct (emit_unit_g s q txt Hi Hfr H0 HT) as (s3 & O & K & A & G).
  rewrite Haf in A, G. cbn [cstate_beq] in G.
  pose proof K as (K1 & K2 & K3 & K4 & K5 & K6 & K7 & K8).
  assert (H2 : osteps 1 s3 q (reset_state s3) q []).
  { apply (Lemmas_E2E.ostep_pure D Hmx s3 q reset_state (Lemmas_E2E.idle_keep s s3 K Hi)). intros h t.
    unfold cmd_service. cbn [Fsm.st mkw]. rewrite A. reflexivity. }
  exists (reset_state s3). split.
  - replace (5 + 2 * length nl + length txt) with ((4 + 2 * length nl + length txt) + 1) by lia.
    eapply Lemmas_E2E.osteps_cast;
      [exact (Lemmas_E2E.osteps_trans D _ _ _ _ _ _ _ _ _ _ O H2) | reflexivity | apply app_nil_r].
  - unfold reset_state. rewrite K7, Hh. Lemmas_C11.scbn. repeat split; congruence.
Qed.

(* what a completed result code leaves behind *)
Definition tail_done (s s4 : state) : Prop :=
  k_state (k s4) = CS_IDLE /\ mem s4 = mem s /\ fault s4 = fault s /\ u s4 = u s /\
  gL s4 = gL s /\ gS s4 = S (gS s) /\ gR s4 = S (gR s) /\
  k_cr (k s4) = false /\ k_hold (k s4) = false /\ k_cmd (k s4) = None.

(* the state ack_ok s / ack_error s, for either newline *)
Lemma ack_ok_tail_g : forall s q, idle s -> k_hold (k s) = false -> 6 <= length (cbuf s) ->
  let nl := nl_of (k_cr (k s)) in
  exists s4, osteps (7 + 2 * length nl) (ack_ok s) q s4 q (nl ++ txt_OK ++ nl) /\ tail_done s s4.
Proof.
  intros s q Hi Hh H6 nl.
  destruct (Lemmas_C19.ack_ok_props s H6) as (_ & _ & _ & HT).
  assert (Hfr : fresh (ack_ok s)) by (repeat split; reflexivity).
  assert (H0 : In 0%N (cbuf (ack_ok s))).
  { change (In 0%N (strncpy_buf (asz s) txt_OK)). apply (Lemmas_E2E.In0_strncpy D). unfold asz. cbn [length txt_OK]. lia. }
  destruct (result_tail_g (ack_ok s) q txt_OK Hi Hfr eq_refl Hh H0 HT) as (s4 & O & R).
  exists s4. split.
  { eapply Lemmas_E2E.osteps_cast; [exact O | | reflexivity].
    change (k_cr (k (ack_ok s))) with (k_cr (k s)). change (k_cr (k (ack_error s))) with (k_cr (k s)).
    fold nl. cbn [length txt_OK txt_ERROR]. lia. }
  destruct R as (R1 & R2 & R3 & R4 & R5 & R6 & R7 & R8 & R9 & R10 & _).
  unfold tail_done. repeat split; assumption.
Qed.

Lemma ack_error_tail_g : forall s q, idle s -> k_hold (k s) = false -> 6 <= length (cbuf s) ->
  let nl := nl_of (k_cr (k s)) in
  exists s4, osteps (10 + 2 * length nl) (ack_error s) q s4 q (nl ++ txt_ERROR ++ nl) /\ tail_done s s4.
Proof.
  intros s q Hi Hh H6 nl.
  destruct (Lemmas_C19.ack_error_props s H6) as (_ & _ & _ & HT).
  assert (Hfr : fresh (ack_error s)) by (repeat split; reflexivity).
  assert (H0 : In 0%N (cbuf (ack_error s))).
  { change (In 0%N (strncpy_buf (asz s) txt_ERROR)). apply (Lemmas_E2E.In0_strncpy D). unfold asz. cbn [length txt_ERROR]. lia. }
  destruct (result_tail_g (ack_error s) q txt_ERROR Hi Hfr eq_refl Hh H0 HT) as (s4 & O & R).
  exists s4. split.
  { eapply Lemmas_E2E.osteps_cast; [exact O | | reflexivity].
    change (k_cr (k (ack_ok s))) with (k_cr (k s)). change (k_cr (k (ack_error s))) with (k_cr (k s)).
    fold nl. cbn [length txt_OK txt_ERROR]. lia. }
  destruct R as (R1 & R2 & R3 & R4 & R5 & R6 & R7 & R8 & R9 & R10 & _).
  unfold tail_done. repeat split; assumption.
Qed.

(* from CS_AFTER_OK (after a data unit) and from CS_COMMAND_NOT_FOUND *)
Lemma ok_tail_g : forall s q, idle s -> k_state (k s) = CS_AFTER_OK ->
  k_hold (k s) = false -> 6 <= length (cbuf s) ->
  let nl := nl_of (k_cr (k s)) in
  exists s4, osteps (8 + 2 * length nl) s q s4 q (nl ++ txt_OK ++ nl) /\ tail_done s s4.
Proof.
  intros s q Hi Hs Hh H6 nl.
  assert (H1 : osteps 1 s q (ack_ok s) q []).
  { apply (Lemmas_E2E.ostep_pure D Hmx s q ack_ok Hi). intros h t. unfold cmd_service. cbn [Fsm.st mkw].
    rewrite Hs. reflexivity. }
  destruct (ack_ok_tail_g s q Hi Hh H6) as (s4 & O & R).
  exists s4. split; [exact (Lemmas_E2E.osteps_trans D _ _ _ _ _ _ _ _ _ _ H1 O) | exact R].
Qed.

Lemma err_tail_g : forall s q, idle s -> k_state (k s) = CS_COMMAND_NOT_FOUND ->
  k_hold (k s) = false -> 6 <= length (cbuf s) ->
  let nl := nl_of (k_cr (k s)) in
  exists s4, osteps (11 + 2 * length nl) s q s4 q (nl ++ txt_ERROR ++ nl) /\ tail_done s s4.
Proof.
  intros s q Hi Hs Hh H6 nl.
  assert (H1 : osteps 1 s q (ack_error s) q []).
  { apply (Lemmas_E2E.ostep_pure D Hmx s q ack_error Hi). intros h t. unfold cmd_service. cbn [Fsm.st mkw].
    rewrite Hs. reflexivity. }
  destruct (ack_error_tail_g s q Hi Hh H6) as (s4 & O & R).
  exists s4. split; [exact (Lemmas_E2E.osteps_trans D _ _ _ _ _ _ _ _ _ _ H1 O) | exact R].
Qed.

End Base.


Ltac destr_all := repeat match goal with
  | |- context [if ?b then _ else _] => destruct b
  | |- context [match ?x with _ => _ end] => destruct x
  end.

(* ================= 1. the name lookup does not look at the newline flag ================= *)
Lemma setk_cr_id : forall s, setk_cr (k_cr (k s)) s = s.
Proof. intros [[] ? ? ? ? ? ? ? ? ? ?]. reflexivity. Qed.

Lemma setk_char_id : forall s, setk_char (k_char (k s)) s = s.
Proof. intros [[] ? ? ? ? ? ? ? ? ? ?]. reflexivity. Qed.

Section Reader.
Variable D : desc.
Hypothesis Hmx : d_mutex D = false.
Local Notation n := (ncmds D).
Local Notation steps := (Lemmas_C02e.steps D).
Local Notation osteps := (Lemmas_E2E.osteps D).

Lemma upd_s1_cr : forall b s c cs,
  Lemmas_C02.upd_s1 (setk_cr b s) c cs = setk_cr b (Lemmas_C02.upd_s1 s c cs).
Proof.
  intros b s c cs. unfold Lemmas_C02.upd_s1, set_cmd_state.
  change (k_index (k (setk_cr b s))) with (k_index (k s)).
  change (k_length (k (setk_cr b s))) with (k_length (k s)).
  change (k_char (k (setk_cr b s))) with (k_char (k s)).
  change (cbuf (setk_cr b s)) with (cbuf s).
  destr_all; reflexivity.
Qed.

Lemma upd_fin_cr : forall b s1 idx,
  Lemmas_C02.upd_fin D (setk_cr b s1) idx = setk_cr b (Lemmas_C02.upd_fin D s1 idx).
Proof.
  intros b s1 idx. unfold Lemmas_C02.upd_fin.
  change (k_implicit (k (setk_index 0 (setk_cr b s1)))) with (k_implicit (k (setk_index 0 s1))).
  destr_all; reflexivity.
Qed.

Lemma update_command_cr : forall b s, update_command D (setk_cr b s) = setk_cr b (update_command D s).
Proof.
  intros b s. rewrite !Lemmas_C02.update_command_unf.
  change (k_index (k (setk_cr b s))) with (k_index (k s)).
  change (get_cmd_state D (setk_cr b s) (k_index (k s))) with (get_cmd_state D s (k_index (k s))).
  destruct (cmd_by_index (d_groups D) (k_index (k s))) as [c|]; [|reflexivity].
  destruct (get_cmd_state D s (k_index (k s))) as [cs|]; [|reflexivity].
  rewrite upd_s1_cr. apply upd_fin_cr.
Qed.

Lemma iter_update_cr : forall b m s,
  iter m (update_command D) (setk_cr b s) = setk_cr b (iter m (update_command D) s).
Proof.
  intros b. induction m as [|m IH]; intros s; [reflexivity|]. simpl iter.
  rewrite update_command_cr. apply IH.
Qed.

Lemma ncs_cr : forall b s ch, name_char_step D (setk_cr b s) ch = setk_cr b (name_char_step D s ch).
Proof. intros b s ch. unfold name_char_step. rewrite <- iter_update_cr. reflexivity. Qed.


(* ================= 2. one command line, typed the way a terminal sends it ================= *)
Definition has_cr (l : list N) : bool := existsb (fun c => (c =? ch_CR)%N) l.

Section Line.
Variable s : state.
Hypothesis Hn : 0 < n.
Hypothesis HL : n <= 4 * length (cbuf s).
Hypothesis Hf : fault s = false.
Hypothesis Hst : k_state (k s) = CS_IDLE.
Hypothesis Himp : k_implicit (k s) = false.
Hypothesis Hidle : idle s.

Local Notation run := (Lemmas_C02e.run D s).
Local Notation tweak := Lemmas_C02e.tweak.
Local Notation looked_up := (Lemmas_C02e.looked_up D s).
Local Notation WR := (Lemmas_C02e.WR D s).
Local Notation run_good := (Lemmas_C02e.run_good D s Hn HL Hf Himp Hidle).

(* the state while the name is being typed: the canonical state after the upper-case text t, except
   for the newline flag and the last byte read *)
Definition Zf (cr : bool) (ch : N) (t : list N) : state := setk_char ch (setk_cr cr (run t)).

Lemma Zf_good : forall cr ch t, implicit_hit D s t = false ->
  k_length (k (Zf cr ch t)) = length t /\ k_index (k (Zf cr ch t)) = 0 /\
  k_state (k (Zf cr ch t)) = CS_PARSE_COMMAND_CHAR /\ idle (Zf cr ch t).
Proof.
  intros cr ch t Hh. destruct (run_good t Hh) as (_ & A & B & C & E & _).
  repeat split; try assumption; apply E.
Qed.

Lemma hit_prefix : forall l t, implicit_hit D s (t ++ l) = false -> implicit_hit D s t = false.
Proof.
  induction l as [|x l IH] using rev_ind; intros t H; [rewrite app_nil_r in H; exact H|].
  rewrite app_assoc in H. apply (Lemmas_C02e.hit_snoc D s Hn HL) in H. exact (IH t H).
Qed.

(* a name character (any letter case) *)
Lemma z_name_char : forall cr ch t c q, implicit_hit D s (t ++ [to_upper c]) = false ->
  is_name_char (to_upper c) = true ->
  exists ch', steps (S n) (Zf cr ch t) (c :: q) (Zf cr ch' (t ++ [to_upper c])) q.
Proof.
  intros cr ch t c q Hh Hc.
  destruct (Zf_good cr ch t (hit_prefix _ _ Hh)) as (_ & Hx & Hs & Hi).
  pose proof (Lemmas_C02e.char_steps D Hmx (Zf cr ch t) c q Hi Hs Hx Hc) as H1.
  exists (k_char (k (run (t ++ [to_upper c])))).
  assert (E : name_char_step D (Zf cr ch t) (to_upper c) =
              Zf cr (k_char (k (run (t ++ [to_upper c])))) (t ++ [to_upper c])).
  { change (name_char_step D (Zf cr ch t) (to_upper c)) with (name_char_step D (setk_cr cr (run t)) (to_upper c)).
    rewrite ncs_cr, <- (Lemmas_C02e.run_snoc D s). unfold Zf.
    change (k_char (k (run (t ++ [to_upper c])))) with (k_char (k (setk_cr cr (run (t ++ [to_upper c]))))).
    rewrite setk_char_id. reflexivity. }
  rewrite E in H1. exact H1.
Qed.

(* a carriage return inside the name: dropped, the flag is raised *)
Lemma z_cr : forall cr ch t q, implicit_hit D s t = false ->
  steps 1 (Zf cr ch t) (ch_CR :: q) (Zf true ch_CR t) q.
Proof.
  intros cr ch t q Hh. destruct (Zf_good cr ch t Hh) as (_ & _ & Hs & Hi).
  pose proof (Lemmas_C02e.step_pc D Hmx (Zf cr ch t) ch_CR q Hi Hs) as H1.
  assert (E : Lemmas_C02e.pc_body (k_char (k (Lemmas_C02e.rd_state (Zf cr ch t) ch_CR)))
                (Lemmas_C02e.rd_state (Zf cr ch t) ch_CR) = Zf true ch_CR t).
  { assert (Hrd : Lemmas_C02e.rd_state (Zf cr ch t) ch_CR = setk_char ch_CR (Zf cr ch t))
      by (unfold Lemmas_C02e.rd_state; rewrite Hs; reflexivity).
    rewrite Hrd. reflexivity. }
  rewrite E in H1. exact H1.
Qed.

Definition body_ok (l : list N) : bool := Lemmas_C02e.chars_ok (no_cr l).

Lemma no_cr_cons : forall c l, no_cr (c :: l) = if (c =? ch_CR)%N then no_cr l else c :: no_cr l.
Proof. intros c l. unfold no_cr. cbn [filter]. destruct (c =? ch_CR)%N; reflexivity. Qed.

(* the bytes of the name, with carriage returns anywhere *)
Lemma body_steps : forall name' cr ch t q, body_ok name' = true ->
  implicit_hit D s (t ++ upper (no_cr name')) = false ->
  exists m ch', m <= length name' * S n /\
    steps m (Zf cr ch t) (name' ++ q) (Zf (cr || has_cr name') ch' (t ++ upper (no_cr name'))) q.
Proof.
  induction name' as [|c l IH]; intros cr ch t q Hok Hh.
  - exists 0, ch. split; [cbn; lia|]. cbn [has_cr existsb no_cr filter upper map app].
    rewrite orb_false_r, app_nil_r. apply Lemmas_C02e.steps_0.
  - unfold body_ok in Hok. rewrite no_cr_cons in Hok, Hh. rewrite no_cr_cons.
    cbn [has_cr existsb]. fold (has_cr l). cbn [app length].
    destruct (c =? ch_CR)%N eqn:Ec.
    + apply N.eqb_eq in Ec. subst c.
      destruct (IH true ch_CR t q Hok Hh) as (m & ch' & Hm & H2).
      exists (1 + m), ch'. split; [lia|]. rewrite orb_true_r. cbn [orb] in H2.
      eapply Lemmas_C02e.steps_trans; [apply z_cr; exact (hit_prefix _ _ Hh) | exact H2].
    + unfold Lemmas_C02e.chars_ok in Hok. cbn [forallb] in Hok. apply andb_true_iff in Hok.
      destruct Hok as [Hc Hok]. cbn [upper map] in Hh. fold (upper (no_cr l)) in Hh.
      change (t ++ to_upper c :: upper (no_cr l)) with (t ++ [to_upper c] ++ upper (no_cr l)) in Hh.
      rewrite app_assoc in Hh.
      destruct (z_name_char cr ch t c (l ++ q) (hit_prefix _ _ Hh) Hc) as (ch1 & H1).
      destruct (IH cr ch1 (t ++ [to_upper c]) q Hok Hh) as (m & ch' & Hm & H2).
      exists (S n + m), ch'. split; [lia|]. cbn [orb upper map].
      change (t ++ to_upper c :: map to_upper (no_cr l)) with (t ++ [to_upper c] ++ upper (no_cr l)).
      rewrite app_assoc.
      eapply Lemmas_C02e.steps_trans; [exact H1 | exact H2].
Qed.

(* ---- the prefix: A or a, carriage returns, T or t ---- *)
Definition PP (cr : bool) (ch : N) : state :=
  s |> setk_char ch_A |> setk_state CS_PARSE_PREFIX |> setk_cr cr |> setk_char ch.

Lemma pp_idle : forall cr ch, idle (PP cr ch).
Proof. intros. exact Hidle. Qed.

Lemma a_step : forall a q, to_upper a = ch_A -> steps 1 s (a :: q) (PP (k_cr (k s)) ch_A) q.
Proof.
  intros a q Ha.
  pose proof (Lemmas_C02e.step_idle D Hmx s a q Hidle Hst) as H1.
  assert (E : Lemmas_C02e.idle_body (k_char (k (Lemmas_C02e.rd_state s a))) (Lemmas_C02e.rd_state s a) =
              PP (k_cr (k s)) ch_A).
  { unfold Lemmas_C02e.rd_state. rewrite Hst. cbn [cstate_beq negb andb]. rewrite Ha.
    unfold PP.
    change (setk_cr (k_cr (k s)) (setk_state CS_PARSE_PREFIX (setk_char ch_A s)))
      with (setk_cr (k_cr (k (setk_state CS_PARSE_PREFIX (setk_char ch_A s))))
              (setk_state CS_PARSE_PREFIX (setk_char ch_A s))).
    rewrite setk_cr_id. reflexivity. }
  rewrite E in H1. exact H1.
Qed.

Lemma pp_crs : forall m cr ch q, exists ch',
  steps m (PP cr ch) (repeat ch_CR m ++ q) (PP (cr || (0 <? m)) ch') q.
Proof.
  induction m as [|m IH]; intros cr ch q.
  - exists ch. cbn [Nat.ltb Nat.leb repeat app]. rewrite orb_false_r. apply Lemmas_C02e.steps_0.
  - destruct (IH true ch_CR q) as (ch' & H2). exists ch'.
    change (S m) with (1 + m). cbn [repeat app].
    replace (cr || (0 <? 1 + m)) with (true || (0 <? m)) by (rewrite orb_true_r; reflexivity).
    eapply Lemmas_C02e.steps_trans; [|exact H2].
    exact (Lemmas_C02e.step_prefix D Hmx (PP cr ch) ch_CR (repeat ch_CR m ++ q) (pp_idle cr ch) eq_refl).
Qed.

Lemma t_step : forall cr ch t q, to_upper t = ch_T -> steps 1 (PP cr ch) (t :: q) (Zf cr ch_T []) q.
Proof.
  intros cr ch t q Ht.
  pose proof (Lemmas_C02e.step_prefix D Hmx (PP cr ch) t q (pp_idle cr ch) eq_refl) as H1.
  assert (E : Lemmas_C02e.prefix_body (k_char (k (Lemmas_C02e.rd_state (PP cr ch) t)))
                (Lemmas_C02e.rd_state (PP cr ch) t) = Zf cr ch_T []).
  { unfold Lemmas_C02e.rd_state. change (k_state (k (PP cr ch))) with CS_PARSE_PREFIX.
    cbn [cstate_beq negb andb]. rewrite Ht. reflexivity. }
  rewrite E in H1. exact H1.
Qed.

Lemma prefix_steps : forall a m0 t q, to_upper a = ch_A -> to_upper t = ch_T ->
  steps (2 + m0) s (a :: repeat ch_CR m0 ++ t :: q) (Zf (k_cr (k s) || (0 <? m0)) ch_T []) q.
Proof.
  intros a m0 t q Ha Ht.
  destruct (pp_crs m0 (k_cr (k s)) ch_A (t :: q)) as (ch' & H2).
  replace (2 + m0) with (1 + (m0 + 1)) by lia.
  eapply Lemmas_C02e.steps_trans; [apply a_step; exact Ha|].
  eapply Lemmas_C02e.steps_trans; [exact H2 | apply t_step; exact Ht].
Qed.

(* ---- the end of the name: the lookup, with the final state explicit ---- *)
Local Notation six := Lemmas_E2E.six.

Definition found_state (typed : list N) (term : N) (ty : ctype) (cr : bool) (g : nat) : state :=
  tweak ty cr g (search_run D n (start_search (run typed) term)).

Lemma finish_search_x : forall typed term ty cr g q,
  typed <> [] -> implicit_hit D s typed = false ->
  exists j, j <= n /\
    steps j (tweak ty cr g (start_search (run typed) term)) q (found_state typed term ty cr g) q /\
    looked_up typed term ty (found_state typed term ty cr g) /\
    six (found_state typed term ty cr g) = (g, gS s, gR s, cr, k_hold (k s), length (cbuf s)).
Proof.
  intros typed term ty cr g q Hne Hh. unfold found_state.
  set (r := run typed). set (X := start_search r term).
  set (s2 := search_run D n X).
  destruct (run_good typed Hh) as [_ [_ [_ [_ [Hi [Hu Hm]]]]]].
  fold r in Hi, Hu, Hm.
  pose proof (Lemmas_C02.C02_resolve D (Lemmas_C02e.sT s) typed term Hn HL Hf Himp Hne Hh) as R.
  cbv zeta in R. rewrite <- (Lemmas_C02e.run_eq D s typed Hne) in R. fold r X s2 in R. destruct R as [F R].
  change (enabled D (Lemmas_C02e.sT s)) with (enabled D s) in R.
  destruct (Lemmas_C02e.search_run_frame D n X) as [A [B [C E]]]. fold s2 in A, B, C, E.
  assert (Hend : k_state (k (search_run D n (tweak ty cr g X))) <> CS_SEARCH_COMMAND).
  { rewrite Lemmas_C02e.search_run_tweak. fold s2.
    change (k_state (k (tweak ty cr g s2))) with (k_state (k s2)).
    destruct (resolve typed (enabled D s) (cmds D)) as [i|].
    - destruct R as [R _]. rewrite R. discriminate.
    - rewrite R. destruct (term =? ch_LF)%N; discriminate. }
  destruct (Lemmas_C02e.search_steps D Hmx n (tweak ty cr g X) q) as [j [Hj Hst']];
    [exact Hi | reflexivity | exact Hend |].
  exists j. split; [exact Hj|]. split.
  { rewrite Lemmas_C02e.search_run_tweak in Hst'. exact Hst'. }
  split.
  - unfold Lemmas_C02e.looked_up. split; [change (mem s2 = mem s); rewrite B; exact Hm|]. split; [exact F|].
    split; [change (u s2 = u s); rewrite A; exact Hu|].
    destruct (resolve typed (enabled D s) (cmds D)) as [i|].
    + destruct R as [R1 R2]. split; [exact R1|]. split; [exact R2|]. split; [reflexivity|].
      change (k_char (k (tweak ty cr g s2))) with (k_char (k s2)). rewrite C. reflexivity.
    + exact R.
  - rewrite Lemmas_E2E.six_tweak.
    assert (E6 : six s2 = six s).
    { unfold s2. rewrite (Lemmas_E2E.six_search_run D). change (six X) with (six r). apply Lemmas_E2E.six_run. }
    unfold Lemmas_E2E.six in E6. congruence.
Qed.

Lemma z_len0 : forall cr ch typed, typed <> [] -> implicit_hit D s typed = false ->
  (k_length (k (Zf cr ch typed)) =? 0) = false.
Proof.
  intros cr ch typed Hne Hh. destruct (Zf_good cr ch typed Hh) as (Hl & _).
  apply Nat.eqb_neq. rewrite Hl. destruct typed; [congruence | simpl; lia].
Qed.

(* the terminators, read in the state Zf *)
Lemma z_lf : forall cr ch typed q, typed <> [] -> implicit_hit D s typed = false ->
  steps 1 (Zf cr ch typed) (ch_LF :: q)
    (tweak T_RUN cr (S (gL (run typed))) (start_search (run typed) ch_LF)) q.
Proof.
  intros cr ch typed q Hne Hh. set (Z := Zf cr ch typed).
  destruct (Zf_good cr ch typed Hh) as (_ & _ & Hs & Hi). fold Z in Hs, Hi.
  pose proof (Lemmas_C02e.run_type D s Hn HL Hf Himp Hidle typed Hh) as Hty.
  pose proof (z_len0 cr ch typed Hne Hh) as E0. fold Z in E0.
  pose proof (Lemmas_C02e.step_pc D Hmx Z ch_LF q Hi Hs) as H1.
  assert (E : Lemmas_C02e.pc_body (k_char (k (Lemmas_C02e.rd_state Z ch_LF))) (Lemmas_C02e.rd_state Z ch_LF) =
              tweak T_RUN cr (S (gL (run typed))) (start_search (run typed) ch_LF)).
  { assert (Hrd : Lemmas_C02e.rd_state Z ch_LF = set_gL (S (gL Z)) (setk_char ch_LF Z))
      by (unfold Lemmas_C02e.rd_state; rewrite Hs; reflexivity).
    rewrite Hrd. change (k_char (k (set_gL (S (gL Z)) (setk_char ch_LF Z)))) with ch_LF.
    unfold Lemmas_C02e.pc_body. change (ch_LF =? ch_LF)%N with true. cbv iota.
    change (k_length (k (set_gL (S (gL Z)) (setk_char ch_LF Z)))) with (k_length (k Z)).
    rewrite E0. cbn [negb]. rewrite <- Hty. reflexivity. }
  rewrite E in H1. exact H1.
Qed.

Lemma z_eq : forall cr ch typed q, typed <> [] -> implicit_hit D s typed = false ->
  steps 1 (Zf cr ch typed) (ch_EQ :: q)
    (tweak T_WRITE cr (gL (run typed)) (start_search (run typed) ch_EQ)) q.
Proof.
  intros cr ch typed q Hne Hh. set (Z := Zf cr ch typed).
  destruct (Zf_good cr ch typed Hh) as (_ & _ & Hs & Hi). fold Z in Hs, Hi.
  pose proof (z_len0 cr ch typed Hne Hh) as E0. fold Z in E0.
  pose proof (Lemmas_C02e.step_pc D Hmx Z ch_EQ q Hi Hs) as H1.
  assert (E : Lemmas_C02e.pc_body (k_char (k (Lemmas_C02e.rd_state Z ch_EQ))) (Lemmas_C02e.rd_state Z ch_EQ) =
              tweak T_WRITE cr (gL (run typed)) (start_search (run typed) ch_EQ)).
  { assert (Hrd : Lemmas_C02e.rd_state Z ch_EQ = setk_char ch_EQ Z)
      by (unfold Lemmas_C02e.rd_state; rewrite Hs; reflexivity).
    rewrite Hrd. change (k_char (k (setk_char ch_EQ Z))) with ch_EQ.
    unfold Lemmas_C02e.pc_body. change (ch_EQ =? ch_LF)%N with false. change (ch_EQ =? ch_CR)%N with false.
    change (ch_EQ =? ch_QM)%N with false. change (ch_EQ =? ch_EQ)%N with true. cbv iota.
    change (k_length (k (setk_char ch_EQ Z))) with (k_length (k Z)).
    rewrite E0. reflexivity. }
  rewrite E in H1. exact H1.
Qed.

Lemma z_qm : forall cr ch typed q, typed <> [] -> implicit_hit D s typed = false ->
  steps 1 (Zf cr ch typed) (ch_QM :: q) (WR typed cr ch_QM) q.
Proof.
  intros cr ch typed q Hne Hh. set (Z := Zf cr ch typed).
  destruct (Zf_good cr ch typed Hh) as (_ & _ & Hs & Hi). fold Z in Hs, Hi.
  pose proof (z_len0 cr ch typed Hne Hh) as E0. fold Z in E0.
  pose proof (Lemmas_C02e.step_pc D Hmx Z ch_QM q Hi Hs) as H1.
  assert (E : Lemmas_C02e.pc_body (k_char (k (Lemmas_C02e.rd_state Z ch_QM))) (Lemmas_C02e.rd_state Z ch_QM) =
              WR typed cr ch_QM).
  { assert (Hrd : Lemmas_C02e.rd_state Z ch_QM = setk_char ch_QM Z)
      by (unfold Lemmas_C02e.rd_state; rewrite Hs; reflexivity).
    rewrite Hrd. change (k_char (k (setk_char ch_QM Z))) with ch_QM.
    unfold Lemmas_C02e.pc_body. change (ch_QM =? ch_LF)%N with false. change (ch_QM =? ch_CR)%N with false.
    change (ch_QM =? ch_QM)%N with true. cbv iota.
    change (k_length (k (setk_char ch_QM Z))) with (k_length (k Z)).
    rewrite E0. reflexivity. }
  rewrite E in H1. exact H1.
Qed.

(* carriage returns between '?' and the line feed, with the flag explicit *)
Lemma wr_crs : forall typed, implicit_hit D s typed = false ->
  forall m cr ch q, exists ch', steps m (WR typed cr ch) (repeat ch_CR m ++ q) (WR typed (cr || (0 <? m)) ch') q.
Proof.
  intros typed Hh. destruct (run_good typed Hh) as [_ [_ [_ [_ [Hi _]]]]].
  induction m as [|m IH]; intros cr ch q.
  - exists ch. cbn [Nat.ltb Nat.leb repeat app]. rewrite orb_false_r. apply Lemmas_C02e.steps_0.
  - destruct (IH true ch_CR q) as (ch' & H2). exists ch'.
    change (S m) with (1 + m). cbn [repeat app].
    replace (cr || (0 <? 1 + m)) with (true || (0 <? m)) by (rewrite orb_true_r; reflexivity).
    eapply Lemmas_C02e.steps_trans; [|exact H2].
    exact (Lemmas_C02e.step_wra D Hmx (WR typed cr ch) ch_CR (repeat ch_CR m ++ q) Hi eq_refl).
Qed.


(* ---- whole lines up to the lookup ---- *)
(* A/a, carriage returns, T/t, the name in any letter case with carriage returns anywhere *)
Definition tline (a : N) (m0 : nat) (t : N) (name' : list N) : list N :=
  [a] ++ repeat ch_CR m0 ++ [t] ++ name'.
(* was a carriage return consumed after the first byte of the line *)
Definition crflag (m0 : nat) (name' : list N) : bool := (0 <? m0) || has_cr name'.

Lemma name_ok_body : forall name', name_ok (no_cr name') = true ->
  upper (no_cr name') <> [] /\ body_ok name' = true.
Proof.
  intros name' H. destruct (Lemmas_C02e.name_ok_split (no_cr name') H) as [A B].
  split; [apply Lemmas_E2E.upper_ne; exact A | exact B].
Qed.

Lemma line_to_Z : forall a m0 t name' q, to_upper a = ch_A -> to_upper t = ch_T ->
  name_ok (no_cr name') = true -> implicit_hit D s (upper (no_cr name')) = false ->
  exists m ch', m <= 2 + m0 + length name' * S n /\
    steps m s (tline a m0 t name' ++ q)
      (Zf (k_cr (k s) || crflag m0 name') ch' (upper (no_cr name'))) q.
Proof.
  intros a m0 t name' q Ha Ht Hok Hh. destruct (name_ok_body name' Hok) as [_ Hb].
  destruct (body_steps name' (k_cr (k s) || (0 <? m0)) ch_T [] q Hb Hh) as (m & ch' & Hm & H2).
  exists ((2 + m0) + m), ch'. split; [lia|].
  unfold tline, crflag. rewrite orb_assoc. cbn [app]. rewrite <- !app_assoc. cbn [app].
  eapply Lemmas_C02e.steps_trans; [apply prefix_steps; assumption | exact H2].
Qed.

Lemma dispatch_lf_g : forall a m0 t name' rest, to_upper a = ch_A -> to_upper t = ch_T ->
  name_ok (no_cr name') = true -> implicit_hit D s (upper (no_cr name')) = false ->
  let typed := upper (no_cr name') in
  let s2 := found_state typed ch_LF T_RUN (k_cr (k s) || crflag m0 name') (S (gL s)) in
  exists calls, calls <= 3 + m0 + length name' * S n + n /\
    steps calls s (tline a m0 t name' ++ [ch_LF] ++ rest) s2 rest /\
    looked_up typed ch_LF T_RUN s2 /\
    six s2 = (S (gL s), gS s, gR s, k_cr (k s) || crflag m0 name', k_hold (k s), length (cbuf s)).
Proof.
  intros a m0 t name' rest Ha Ht Hok Hh typed s2.
  destruct (name_ok_body name' Hok) as [Hne _].
  destruct (line_to_Z a m0 t name' ([ch_LF] ++ rest) Ha Ht Hok Hh) as (m & ch' & Hm & H1).
  destruct (Lemmas_E2E.six_run_parts D s typed) as [G _].
  destruct (finish_search_x typed ch_LF T_RUN (k_cr (k s) || crflag m0 name') (S (gL (run typed))) rest Hne Hh)
    as (j & Hj & H3 & HR & H6).
  rewrite G in H3, HR, H6.
  exists (m + (1 + j)). split; [lia|]. split; [|split; assumption].
  eapply Lemmas_C02e.steps_trans; [exact H1|].
  eapply Lemmas_C02e.steps_trans; [|exact H3].
  rewrite <- G. apply z_lf; assumption.
Qed.

Lemma dispatch_eq_g : forall a m0 t name' rest, to_upper a = ch_A -> to_upper t = ch_T ->
  name_ok (no_cr name') = true -> implicit_hit D s (upper (no_cr name')) = false ->
  let typed := upper (no_cr name') in
  let s2 := found_state typed ch_EQ T_WRITE (k_cr (k s) || crflag m0 name') (gL s) in
  exists calls, calls <= 3 + m0 + length name' * S n + n /\
    steps calls s (tline a m0 t name' ++ [ch_EQ] ++ rest) s2 rest /\
    looked_up typed ch_EQ T_WRITE s2 /\
    six s2 = (gL s, gS s, gR s, k_cr (k s) || crflag m0 name', k_hold (k s), length (cbuf s)).
Proof.
  intros a m0 t name' rest Ha Ht Hok Hh typed s2.
  destruct (name_ok_body name' Hok) as [Hne _].
  destruct (line_to_Z a m0 t name' ([ch_EQ] ++ rest) Ha Ht Hok Hh) as (m & ch' & Hm & H1).
  destruct (Lemmas_E2E.six_run_parts D s typed) as [G _].
  destruct (finish_search_x typed ch_EQ T_WRITE (k_cr (k s) || crflag m0 name') (gL (run typed)) rest Hne Hh)
    as (j & Hj & H3 & HR & H6).
  rewrite G in H3, HR, H6.
  exists (m + (1 + j)). split; [lia|]. split; [|split; assumption].
  eapply Lemmas_C02e.steps_trans; [exact H1|].
  eapply Lemmas_C02e.steps_trans; [|exact H3].
  rewrite <- G. apply z_eq; assumption.
Qed.

Lemma dispatch_read_g : forall a m0 t name' m rest, to_upper a = ch_A -> to_upper t = ch_T ->
  name_ok (no_cr name') = true -> implicit_hit D s (upper (no_cr name')) = false ->
  let typed := upper (no_cr name') in
  let crf := k_cr (k s) || (crflag m0 name' || (0 <? m)) in
  let s2 := found_state typed ch_LF T_READ crf (S (gL s)) in
  exists calls, calls <= 4 + m0 + m + length name' * S n + n /\
    steps calls s (tline a m0 t name' ++ [ch_QM] ++ repeat ch_CR m ++ [ch_LF] ++ rest) s2 rest /\
    looked_up typed ch_LF T_READ s2 /\
    six s2 = (S (gL s), gS s, gR s, crf, k_hold (k s), length (cbuf s)).
Proof.
  intros a m0 t name' m rest Ha Ht Hok Hh typed crf s2.
  destruct (name_ok_body name' Hok) as [Hne _].
  destruct (line_to_Z a m0 t name' ([ch_QM] ++ repeat ch_CR m ++ [ch_LF] ++ rest) Ha Ht Hok Hh)
    as (m1 & ch' & Hm & H1).
  destruct (Lemmas_E2E.six_run_parts D s typed) as [G _].
  destruct (wr_crs typed Hh m (k_cr (k s) || crflag m0 name') ch_QM ([ch_LF] ++ rest)) as (ch2 & H3).
  replace (k_cr (k s) || crflag m0 name' || (0 <? m)) with crf in H3 by (unfold crf; rewrite orb_assoc; reflexivity).
  destruct (finish_search_x typed ch_LF T_READ crf (S (gL (run typed))) rest Hne Hh)
    as (j & Hj & H5 & HR & H6).
  rewrite G in H5, HR, H6.
  exists (m1 + (1 + (m + (1 + j)))). split; [lia|]. split; [|split; assumption].
  eapply Lemmas_C02e.steps_trans; [exact H1|].
  eapply Lemmas_C02e.steps_trans; [apply z_qm; assumption|].
  eapply Lemmas_C02e.steps_trans; [exact H3|].
  eapply Lemmas_C02e.steps_trans; [|exact H5].
  rewrite <- G. exact (Lemmas_C02e.lf_step D Hmx s Hn HL Hf Himp Hidle typed Hh crf ch2 rest).
Qed.


(* ---- the implicit-write form: the lookup starts with the last name character, no terminator ---- *)
Lemma tweak_id : forall cr x, tweak (k_type (k x)) cr (gL x) x = setk_cr cr x.
Proof. intros cr [[] ? ? ? ? ? ? ? ? ? ?]. reflexivity. Qed.

Lemma dispatch_implicit_g : forall a m0 t pre c rest, to_upper a = ch_A -> to_upper t = ch_T ->
  body_ok pre = true -> is_name_char (to_upper c) = true ->
  let typed := upper (no_cr pre) ++ [to_upper c] in
  implicit_hit D s (upper (no_cr pre)) = false -> implicit_hit D s typed = true ->
  let crf := k_cr (k s) || crflag m0 pre in
  let s2 := setk_cr crf (search_run D n (run typed)) in
  exists calls, calls <= 2 + m0 + length (pre ++ [c]) * S n + n /\
    steps calls s (tline a m0 t (pre ++ [c]) ++ rest) s2 rest /\
    mem s2 = mem s /\ fault s2 = false /\ u s2 = u s /\
    k_state (k s2) = CS_COMMAND_FOUND /\ k_cmd (k s2) = find_full typed (enabled D s) (cmds D) 0 /\
    k_cmd (k s2) <> None /\ k_type (k s2) = T_WRITE /\ k_cr (k s2) = crf.
Proof.
  intros a m0 t pre c rest Ha Ht Hb Hc typed H1 H2 crf s2.
  assert (Hne' : typed <> []) by (unfold typed; destruct (upper (no_cr pre)); discriminate).
  pose proof (Lemmas_C02.C02_implicit D (Lemmas_C02e.sT s) typed Hn HL Hf Himp Hne') as R.
  cbv zeta in R. unfold typed in R at 1. rewrite removelast_last in R. fold typed in R.
  specialize (R H1 H2). rewrite <- (Lemmas_C02e.run_eq D s _ Hne') in R.
  destruct R as [Rs [Rt [_ [F [Rf [Rc Rn]]]]]].
  change (enabled D (Lemmas_C02e.sT s)) with (enabled D s) in Rc.
  set (s1 := run typed) in *.
  (* the bytes before the last name character *)
  assert (Hh0 : implicit_hit D s ([] ++ upper (no_cr pre)) = false) by exact H1.
  destruct (body_steps pre (k_cr (k s) || (0 <? m0)) ch_T [] (c :: rest) Hb Hh0) as (m & ch' & Hm & B2).
  cbn [app] in B2.
  replace (k_cr (k s) || (0 <? m0) || has_cr pre) with crf in B2 by (unfold crf, crflag; rewrite orb_assoc; reflexivity).
  (* the last name character *)
  destruct (Zf_good crf ch' (upper (no_cr pre)) H1) as (_ & Hx & Hs & Hi).
  pose proof (Lemmas_C02e.char_steps D Hmx (Zf crf ch' (upper (no_cr pre))) c rest Hi Hs Hx Hc) as C3.
  assert (E : name_char_step D (Zf crf ch' (upper (no_cr pre))) (to_upper c) = setk_cr crf s1).
  { change (name_char_step D (Zf crf ch' (upper (no_cr pre))) (to_upper c))
      with (name_char_step D (setk_cr crf (run (upper (no_cr pre)))) (to_upper c)).
    rewrite ncs_cr, <- (Lemmas_C02e.run_snoc D s). reflexivity. }
  rewrite E in C3.
  (* the search sweep *)
  destruct (Lemmas_C02e.fold_ncs_frame D typed (Lemmas_C02e.P0 s)) as [A B].
  change (fold_left (name_char_step D) typed (Lemmas_C02e.P0 s)) with s1 in A, B.
  change (u (Lemmas_C02e.P0 s)) with (u s) in A. change (mem (Lemmas_C02e.P0 s)) with (mem s) in B.
  assert (Hi1 : idle (setk_cr crf s1)) by (apply (Lemmas_C02e.idle_of_u s); [exact A | exact Hidle]).
  destruct (Lemmas_C02e.search_run_frame D n s1) as (A' & B' & _ & Ety).
  pose proof (Lemmas_E2E.six_search_run D n s1) as E6. unfold Lemmas_E2E.six in E6.
  assert (Eg : gL (search_run D n s1) = gL s1) by congruence.
  assert (T : search_run D n (setk_cr crf s1) = setk_cr crf (search_run D n s1)).
  { rewrite <- (tweak_id crf s1), Lemmas_C02e.search_run_tweak, <- Ety, <- Eg. apply tweak_id. }
  destruct (Lemmas_C02e.search_steps D Hmx n (setk_cr crf s1) rest Hi1 Rs) as (j & Hj & S4).
  { rewrite T. change (k_state (k (setk_cr crf (search_run D n s1)))) with (k_state (k (search_run D n s1))).
    rewrite Rf. discriminate. }
  rewrite T in S4.
  exists ((2 + m0) + (m + (S n + j))). split.
  { rewrite app_length. cbn [length]. lia. }
  split.
  { unfold tline. cbn [app]. rewrite <- !app_assoc. cbn [app]. rewrite <- !app_assoc. cbn [app].
    eapply Lemmas_C02e.steps_trans; [apply prefix_steps; assumption|].
    eapply Lemmas_C02e.steps_trans; [exact B2|].
    eapply Lemmas_C02e.steps_trans; [exact C3 | exact S4]. }
  unfold s2.
  split; [change (mem (search_run D n s1) = mem s); rewrite B', B; reflexivity|].
  split; [exact F|].
  split; [change (u (search_run D n s1) = u s); rewrite A', A; reflexivity|].
  split; [exact Rf|]. split; [exact Rc|]. split; [exact Rn|].
  split; [change (k_type (k (search_run D n s1)) = T_WRITE); rewrite Ety; exact Rt | reflexivity].
Qed.
End Line.


(* ================= 3. whole lines with the terminal's line ending ================= *)
Lemma tline_app : forall a m0 t name' q,
  tline a m0 t name' ++ q = [a] ++ repeat ch_CR m0 ++ [t] ++ name' ++ q.
Proof. intros. unfold tline. cbn [app]. rewrite <- app_assoc. reflexivity. Qed.

(* what a RUN handler's return code makes the machine answer (None: no result code yet / another path) *)
Definition run_answer (code : Z) : option (list N) :=
  if (code =? RC_OK)%Z || (code =? RC_DATA_OK)%Z then Some txt_OK
  else if (code =? RC_DATA_NEXT)%Z || (code =? RC_NEXT)%Z || (code =? RC_HOLD)%Z
          || (code =? RC_PRINT_CMD_LIST_OK)%Z then None
  else Some txt_ERROR.

Definition run_next (code : Z) (s : state) : state :=
  if (code =? RC_OK)%Z || (code =? RC_DATA_OK)%Z then ack_ok s
  else if (code =? RC_DATA_NEXT)%Z || (code =? RC_NEXT)%Z then s
  else if (code =? RC_HOLD)%Z then enable_hold_state s
  else if (code =? RC_PRINT_CMD_LIST_OK)%Z then start_print_cmd_list D s
  else ack_error s.

Lemma run_next_answer : forall code s ans, run_answer code = Some ans ->
  (ans = txt_OK /\ run_next code s = ack_ok s) \/ (ans = txt_ERROR /\ run_next code s = ack_error s).
Proof.
  intros code s ans H. unfold run_answer in H. unfold run_next.
  destruct ((code =? RC_OK)%Z || (code =? RC_DATA_OK)%Z); [injection H as <-; left; split; reflexivity|].
  destruct (code =? RC_DATA_NEXT)%Z; [discriminate|]. destruct (code =? RC_NEXT)%Z; [discriminate|].
  destruct (code =? RC_HOLD)%Z; [discriminate|]. destruct (code =? RC_PRINT_CMD_LIST_OK)%Z; [discriminate|].
  injection H as <-. right. split; reflexivity.
Qed.

Lemma found_run_step : forall s q i c, idle s -> k_state (k s) = CS_COMMAND_FOUND ->
  k_cmd (k s) = Some i -> cmd_at D i = Some c -> k_type (k s) = T_RUN -> c_only_test c = false ->
  c_hrun c = true -> osteps 1 s q (setk_state CS_RUN_LOOP s) q [].
Proof.
  intros s q i c Hi Hs Hk Hc Hty Hot Hrun.
  assert (E : command_found D s = setk_state CS_RUN_LOOP s).
  { unfold command_found, cmd_of, g_cmd. rewrite Hk, Hc, Hty, Hot, Hrun. reflexivity. }
  rewrite <- E. apply (Lemmas_E2E.ostep_pure D Hmx s q (command_found D) Hi).
  intros h t. unfold cmd_service. cbn [Fsm.st mkw]. rewrite Hs. reflexivity.
Qed.

(* the service call that runs the RUN handler (which stores nothing and calls nothing back) *)
Lemma run_call : forall s q h h' t i r0, idle s -> k_state (k s) = CS_RUN_LOOP -> k_cmd (k s) = Some i ->
  s_call h (HRun i) = (h', r0) -> r_pokes r0 = [] -> r_calls r0 = [] ->
  svc D (mkw s q h t) =
  mkw (run_next (r_code r0) s) q h' (ERet OService ST_BUSY :: ECall (HRun i) (r_code r0) :: t).
Proof.
  intros s q h h' t i r0 Hi Hs Hk Hcall Hp Hc.
  assert (E : cmd_service D sio smu shs s_read s_write s_lock s_unlock s_call (mkw s q h t) =
              (mkw (run_next (r_code r0) s) q h' (ECall (HRun i) (r_code r0) :: t), ST_BUSY)).
  { unfold cmd_service. cbn [Fsm.st mkw]. rewrite Hs. unfold process_run_loop. cbn [Fsm.st mkw g_cmd].
    rewrite Hk. unfold call_h. cbn [Fsm.hs mkw]. rewrite Hcall, Hp, Hc. reflexivity. }
  rewrite (Lemmas_C02e.svc_busy D Hmx (mkw s q h t) _ Hi E). reflexivity.
Qed.

(* calls before a handler call, the call, calls after it: the whole world *)
Lemma compose_call : forall c1 c2 s q s3 q3 s4 s5 h h' rq code o1 out,
  osteps c1 s q s3 q3 o1 ->
  (forall t, svc D (mkw s3 q3 h t) = mkw s4 q3 h' (ERet OService ST_BUSY :: ECall rq code :: t)) ->
  osteps c2 s4 q3 s5 q3 out ->
  let w := nsvc D (c1 + (1 + c2)) (mkw s q h []) in
  wst w = s5 /\ inq (wio w) = q3 /\ whs w = h' /\
  calls_of (wtr w) = [(rq, code)] /\ output_of (wtr w) = o1 ++ out.
Proof.
  intros c1 c2 s q s3 q3 s4 s5 h h' rq code o1 out O1 Hc O2 w.
  destruct (O1 h []) as (t1 & C1 & U1 & E1).
  destruct (O2 h' (ERet OService ST_BUSY :: ECall rq code :: t1 ++ [])) as (t2 & C2 & U2 & E2).
  assert (Ew : w = mkw s5 q3 h' (t2 ++ [ERet OService ST_BUSY; ECall rq code] ++ t1 ++ [])).
  { unfold w, nsvc in *. rewrite Lemmas_C02e.iter_add, E1, Lemmas_C02e.iter_add.
    change (iter 1 (svc D) (mkw s3 q3 h (t1 ++ []))) with (svc D (mkw s3 q3 h (t1 ++ []))).
    rewrite Hc, E2. reflexivity. }
  rewrite Ew. cbn [Fsm.st Fsm.io Fsm.hs Fsm.tr mkw inq].
  split; [reflexivity|]. split; [reflexivity|]. split; [reflexivity|].
  rewrite app_nil_r. rewrite !Lemmas_E2E.calls_of_app, !Lemmas_E2E.output_of_app, C1, C2, U1, U2.
  split; [reflexivity|].
  change (output_of [ERet OService ST_BUSY; ECall rq code]) with (@nil N). rewrite app_nil_r. reflexivity.
Qed.

Section Lines.
Variable s : state.
Hypothesis Hn : 0 < n.
Hypothesis HL : n <= 4 * length (cbuf s).
Hypothesis H6 : 6 <= length (cbuf s).
Hypothesis Hf : fault s = false.
Hypothesis Hst : k_state (k s) = CS_IDLE.
Hypothesis Hcr : k_cr (k s) = false.
Hypothesis Himp : k_implicit (k s) = false.
Hypothesis Hhold : k_hold (k s) = false.
Hypothesis Hidle : idle s.

Local Notation line_done := (Lemmas_E2E.line_done s).
Local Notation six := Lemmas_E2E.six.

(* AT name ? CR* LF, typed as a terminal sends it: the answer uses the line's newline *)
Lemma read_line_osteps_g : forall a m0 t name' m rest i c args,
  to_upper a = ch_A -> to_upper t = ch_T ->
  name_ok (no_cr name') = true -> implicit_hit D s (upper (no_cr name')) = false ->
  resolve (upper (no_cr name')) (enabled D s) (cmds D) = Some i -> nth_error (cmds D) i = Some c ->
  Lemmas_C07e.rt_cmd_ok (mem s) c -> Lemmas_C07e.read_args_text (mem s) c = Some args ->
  length (c_name c ++ [ch_EQ] ++ args) < length (cbuf s) ->
  let nl := nl_of (crflag m0 name' || (0 <? m)) in
  exists calls s4,
    osteps calls s (tline a m0 t name' ++ [ch_QM] ++ repeat ch_CR m ++ [ch_LF] ++ rest) s4 rest
      (nl ++ c_name c ++ [ch_EQ] ++ args ++ nl ++ nl ++ txt_OK ++ nl) /\
    line_done s4.
Proof.
  intros a m0 t name' m rest i c args Ha Ht Hok Hh Hres Hc Hrt Harg Hfit nl.
  destruct (dispatch_read_g s Hn HL Hf Hst Himp Hidle a m0 t name' m rest Ha Ht Hok Hh)
    as (c1 & _ & H1 & (M2 & F2 & U2 & R2) & S2).
  cbv zeta in H1, M2, F2, U2, R2, S2. rewrite Hcr in H1, M2, F2, U2, R2, S2. cbn [orb] in H1, M2, F2, U2, R2, S2.
  set (s2 := found_state s (upper (no_cr name')) ch_LF T_READ (crflag m0 name' || (0 <? m)) (S (gL s))) in *.
  rewrite Hres in R2. destruct R2 as (A1 & A2 & A3 & A4).
  unfold Lemmas_E2E.six in S2.
  assert (G2 : gL s2 = S (gL s) /\ gS s2 = gS s /\ gR s2 = gR s /\
               k_cr (k s2) = (crflag m0 name' || (0 <? m)) /\
               k_hold (k s2) = false /\ length (cbuf s2) = length (cbuf s)).
  { repeat split; congruence. }
  destruct G2 as (gl2 & gs2 & gr2 & cr2 & ho2 & len2).
  pose proof (Lemmas_E2E.cmd_at_of_cmds D i c Hc) as Hc'.
  assert (Hi2 : idle s2) by (apply (Lemmas_C02e.idle_of_u s); assumption).
  rewrite <- M2 in Hrt, Harg. rewrite <- len2 in Hfit.
  destruct (Lemmas_E2E.read_steps D Hmx s2 rest i c args Hi2 A1 A2 Hc' A3 Hrt F2 Harg Hfit)
    as (s3 & H2 & (D1 & (r & D2) & D3 & D4 & D5 & D6) & (KF & FL & _)).
  destruct (FL D4) as (P1 & P2 & P3 & P4 & _). specialize (P4 D5).
  destruct KF as (u3 & gl3 & gr3 & cr3 & ho3).
  assert (Hi3 : idle s3) by (apply (Lemmas_C02e.idle_of_u s2); assumption).
  set (txt := c_name c ++ [ch_EQ] ++ args) in *.
  assert (HT3 : text_of (cbuf s3) = txt).
  { rewrite D2. apply Lemmas_C19.text_of_app0. exact (Lemmas_E2E.txt_no_nul _ c args Hrt Harg). }
  assert (H03 : In 0%N (cbuf s3)) by (rewrite D2; apply in_or_app; right; left; reflexivity).
  destruct (emit_unit_g D Hmx s3 rest txt Hi3 (conj D4 (conj P1 (conj P2 P3))) H03 HT3)
    as (s5 & O3 & K3 & A5 & G5).
  cbv zeta in O3. rewrite cr3, cr2 in O3. fold nl in O3.
  rewrite D5 in A5, G5. cbn [cstate_beq] in G5.
  destruct K3 as (K1 & K2 & K3 & K4 & K5 & K6 & K7 & K8).
  assert (Hi5 : idle s5) by (apply (Lemmas_C02e.idle_of_u s3); assumption).
  destruct (ok_tail_g D Hmx s5 rest Hi5 A5) as (s6 & O4 & R1 & R2 & R3 & R4 & R5 & R6 & R7 & R8 & R9 & R10);
    [congruence | rewrite K8; lia |].
  cbv zeta in O4. rewrite K6, cr3, cr2 in O4. fold nl in O4.
  exists (c1 + ((1 + length (c_vars c)) + ((4 + 2 * length nl + length txt) + (8 + 2 * length nl)))), s6. split.
  - eapply Lemmas_E2E.osteps_cast;
      [exact (Lemmas_E2E.osteps_trans D _ _ _ _ _ _ _ _ _ _ (Lemmas_E2E.osteps_of_steps D _ _ _ _ _ H1)
               (Lemmas_E2E.osteps_trans D _ _ _ _ _ _ _ _ _ _ (Lemmas_E2E.osteps_of_steps D _ _ _ _ _ H2)
                  (Lemmas_E2E.osteps_trans D _ _ _ _ _ _ _ _ _ _ O3 O4))) | reflexivity |].
    unfold txt. cbn [app]. rewrite <- !app_assoc. reflexivity.
  - unfold Lemmas_E2E.line_done. repeat split; congruence.
Qed.

(* an unknown or ambiguous name in the RUN form *)
Lemma unknown_line_osteps_g : forall a m0 t name' rest,
  to_upper a = ch_A -> to_upper t = ch_T ->
  name_ok (no_cr name') = true -> implicit_hit D s (upper (no_cr name')) = false ->
  resolve (upper (no_cr name')) (enabled D s) (cmds D) = None ->
  let nl := nl_of (crflag m0 name') in
  exists calls s4,
    osteps calls s (tline a m0 t name' ++ [ch_LF] ++ rest) s4 rest (nl ++ txt_ERROR ++ nl) /\
    line_done s4.
Proof.
  intros a m0 t name' rest Ha Ht Hok Hh Hres nl.
  destruct (dispatch_lf_g s Hn HL Hf Hst Himp Hidle a m0 t name' rest Ha Ht Hok Hh)
    as (c1 & _ & H1 & (M2 & F2 & U2 & R2) & S2).
  cbv zeta in H1, M2, F2, U2, R2, S2. rewrite Hcr in H1, M2, F2, U2, R2, S2. cbn [orb] in H1, M2, F2, U2, R2, S2.
  set (s2 := found_state s (upper (no_cr name')) ch_LF T_RUN (crflag m0 name') (S (gL s))) in *.
  rewrite Hres in R2. unfold Lemmas_C02e.NF in R2. change (ch_LF =? ch_LF)%N with true in R2. cbv iota in R2.
  unfold Lemmas_E2E.six in S2.
  assert (G2 : gL s2 = S (gL s) /\ gS s2 = gS s /\ gR s2 = gR s /\ k_cr (k s2) = crflag m0 name' /\
               k_hold (k s2) = false /\ length (cbuf s2) = length (cbuf s)).
  { repeat split; congruence. }
  destruct G2 as (gl2 & gs2 & gr2 & cr2 & ho2 & len2).
  assert (Hi2 : idle s2) by (apply (Lemmas_C02e.idle_of_u s); assumption).
  destruct (err_tail_g D Hmx s2 rest Hi2 R2 ho2) as (s6 & O4 & R1 & R3 & R4 & R5 & R6 & R7 & R8 & R9 & R10 & R11);
    [lia|].
  cbv zeta in O4. rewrite cr2 in O4. fold nl in O4.
  exists (c1 + (11 + 2 * length nl)), s6. split.
  - exact (Lemmas_E2E.osteps_trans D _ _ _ _ _ _ _ _ _ _ (Lemmas_E2E.osteps_of_steps D _ _ _ _ _ H1) O4).
  - unfold Lemmas_E2E.line_done. repeat split; congruence.
Qed.

(* a RUN line served by the command's run handler: one call, then OK or ERROR *)
Lemma run_line_world_g : forall a m0 t name' rest h h' i c r0 ans,
  to_upper a = ch_A -> to_upper t = ch_T ->
  name_ok (no_cr name') = true -> implicit_hit D s (upper (no_cr name')) = false ->
  resolve (upper (no_cr name')) (enabled D s) (cmds D) = Some i -> nth_error (cmds D) i = Some c ->
  c_hrun c = true -> c_only_test c = false ->
  s_call h (HRun i) = (h', r0) -> r_pokes r0 = [] -> r_calls r0 = [] ->
  run_answer (r_code r0) = Some ans ->
  let nl := nl_of (crflag m0 name') in
  exists calls, let w := nsvc D calls (mkw s (tline a m0 t name' ++ [ch_LF] ++ rest) h []) in
    inq (wio w) = rest /\ whs w = h' /\ calls_of (wtr w) = [(HRun i, r_code r0)] /\
    output_of (wtr w) = nl ++ ans ++ nl /\ line_done (wst w).
Proof.
  intros a m0 t name' rest h h' i c r0 ans Ha Ht Hok Hh Hres Hc Hrun Hot Hcall Hp Hcs Hans nl.
  destruct (dispatch_lf_g s Hn HL Hf Hst Himp Hidle a m0 t name' rest Ha Ht Hok Hh)
    as (c1 & _ & H1 & (M2 & F2 & U2 & R2) & S2).
  cbv zeta in H1, M2, F2, U2, R2, S2. rewrite Hcr in H1, M2, F2, U2, R2, S2. cbn [orb] in H1, M2, F2, U2, R2, S2.
  set (s2 := found_state s (upper (no_cr name')) ch_LF T_RUN (crflag m0 name') (S (gL s))) in *.
  rewrite Hres in R2. destruct R2 as (A1 & A2 & A3 & A4).
  unfold Lemmas_E2E.six in S2.
  assert (G2 : gL s2 = S (gL s) /\ gS s2 = gS s /\ gR s2 = gR s /\ k_cr (k s2) = crflag m0 name' /\
               k_hold (k s2) = false /\ length (cbuf s2) = length (cbuf s)).
  { repeat split; congruence. }
  destruct G2 as (gl2 & gs2 & gr2 & cr2 & ho2 & len2).
  pose proof (Lemmas_E2E.cmd_at_of_cmds D i c Hc) as Hc'.
  assert (Hi2 : idle s2) by (apply (Lemmas_C02e.idle_of_u s); assumption).
  pose proof (found_run_step s2 rest i c Hi2 A1 A2 Hc' A3 Hot Hrun) as H2.
  set (s3 := setk_state CS_RUN_LOOP s2) in *.
  assert (Hi3 : idle s3) by exact Hi2.
  pose proof (fun t0 => run_call s3 rest h h' t0 i r0 Hi3 eq_refl A2 Hcall Hp Hcs) as H3.
  assert (O12 : osteps (c1 + 1) s (tline a m0 t name' ++ [ch_LF] ++ rest) s3 rest []).
  { eapply Lemmas_E2E.osteps_cast;
      [exact (Lemmas_E2E.osteps_trans D _ _ _ _ _ _ _ _ _ _ (Lemmas_E2E.osteps_of_steps D _ _ _ _ _ H1) H2)
      | reflexivity | reflexivity]. }
  assert (T : exists c2 s6, osteps c2 (run_next (r_code r0) s3) rest s6 rest (nl ++ ans ++ nl) /\ tail_done s3 s6).
  { destruct (run_next_answer (r_code r0) s3 ans Hans) as [[-> ->]|[-> ->]].
    - destruct (ack_ok_tail_g D Hmx s3 rest Hi3 ho2 ltac:(change (cbuf s3) with (cbuf s2); lia)) as (s6 & O & R).
      cbv zeta in O. change (k_cr (k s3)) with (k_cr (k s2)) in O. rewrite cr2 in O. fold nl in O.
      eexists _, s6. split; [exact O | exact R].
    - destruct (ack_error_tail_g D Hmx s3 rest Hi3 ho2 ltac:(change (cbuf s3) with (cbuf s2); lia)) as (s6 & O & R).
      cbv zeta in O. change (k_cr (k s3)) with (k_cr (k s2)) in O. rewrite cr2 in O. fold nl in O.
      eexists _, s6. split; [exact O | exact R]. }
  destruct T as (c2 & s6 & O3 & R1 & R3 & R4 & R5 & R6 & R7 & R8 & R9 & R10 & R11).
  exists ((c1 + 1) + (1 + c2)). intros w.
  destruct (compose_call _ _ _ _ _ _ _ _ h h' _ _ _ _ O12 H3 O3) as (E1 & E2 & E3 & E4 & E5).
  fold w in E1, E2, E3, E4, E5. rewrite E1.
  split; [exact E2|]. split; [exact E3|]. split; [exact E4|]. split; [exact E5|].
  change (mem s3) with (mem s2) in R3. change (fault s3) with (fault s2) in R4.
  change (u s3) with (u s2) in R5. change (gL s3) with (gL s2) in R6.
  change (gS s3) with (gS s2) in R7. change (gR s3) with (gR s2) in R8.
  unfold Lemmas_E2E.line_done. repeat split; congruence.
Qed.

End Lines.

End Reader.

(* ================= 4. the canonical spelling of a line ================= *)
Lemma to_upper_idem : forall c, to_upper (to_upper c) = to_upper c.
Proof.
  intros c. unfold to_upper. destruct ((97 <=? c) && (c <=? 122))%N eqn:E; [|rewrite E; reflexivity].
  apply andb_true_iff in E. destruct E as [E1 E2]. apply N.leb_le in E1. apply N.leb_le in E2.
  replace ((97 <=? c - 32) && (c - 32 <=? 122))%N with false; [reflexivity|].
  symmetry. apply andb_false_iff. left. apply N.leb_gt. lia.
Qed.

Lemma name_char_not_cr : forall x, is_name_char x = true -> (x =? ch_CR)%N = false.
Proof.
  intros x H. destruct (x =? ch_CR)%N eqn:E; [|reflexivity].
  apply N.eqb_eq in E. subst x. vm_compute in H. discriminate H.
Qed.

Lemma canon_facts : forall l, Lemmas_C02e.chars_ok l = true ->
  no_cr (upper l) = upper l /\ upper (upper l) = upper l /\ has_cr (upper l) = false /\
  Lemmas_C02e.chars_ok (upper l) = true.
Proof.
  induction l as [|c l IH]; intros H; [repeat split; reflexivity|].
  unfold Lemmas_C02e.chars_ok in H. cbn [forallb] in H. apply andb_true_iff in H. destruct H as [Hc Hl].
  destruct (IH Hl) as (A & B & C & E).
  pose proof (name_char_not_cr _ Hc) as E2.
  cbn [upper map]. fold (upper l). rewrite no_cr_cons, E2, A.
  split; [reflexivity|]. split; [cbn [upper map]; fold (upper (upper l)); rewrite B, to_upper_idem; reflexivity|].
  split; [cbn [has_cr existsb]; fold (has_cr (upper l)); rewrite E2, C; reflexivity|].
  unfold Lemmas_C02e.chars_ok. cbn [forallb]. rewrite to_upper_idem, Hc. exact E.
Qed.

Lemma canon_name_ok : forall l, name_ok l = true ->
  name_ok (no_cr (upper l)) = true /\ upper (no_cr (upper l)) = upper l /\ has_cr (upper l) = false.
Proof.
  intros l H. destruct (Lemmas_C02e.name_ok_split l H) as [Hne Hc].
  destruct (canon_facts l Hc) as (A & B & C & E). rewrite A, B.
  split; [|split; [reflexivity | exact C]].
  unfold name_ok. apply andb_true_iff. split; [destruct l; [congruence | reflexivity] | exact E].
Qed.

(* ================= 5. the final statements ================= *)
Section Final.
Variable D : desc.
Hypothesis Hmx : d_mutex D = false.
Local Notation n := (ncmds D).

Theorem C02_dispatch_t_proof : forall s a m0 t name' term rest h,
  0 < n -> n <= 4 * length (cbuf s) -> fault s = false ->
  k_state (k s) = CS_IDLE -> k_implicit (k s) = false ->
  u_state (u s) = US_IDLE -> u_count (u s) = 0 ->
  to_upper a = ch_A -> to_upper t = ch_T ->
  name_ok (no_cr name') = true -> (term = ch_LF \/ term = ch_EQ) ->
  let typed := upper (no_cr name') in
  implicit_hit D s typed = false ->
  let w0 := mkw s ([a] ++ repeat ch_CR m0 ++ [t] ++ name' ++ [term] ++ rest) h [] in
  exists calls, calls <= 3 + m0 + length name' * (S n) + n /\
    let w := nsvc D calls w0 in
    inq (wio w) = rest /\ whs w = h /\ calls_of (wtr w) = [] /\ output_of (wtr w) = [] /\
    mem (wst w) = mem s /\ fault (wst w) = false /\ u (wst w) = u s /\
    k_cr (k (wst w)) = (k_cr (k s) || (0 <? m0) || existsb (fun c => (c =? ch_CR)%N) name') /\
    match resolve typed (enabled D s) (cmds D) with
    | Some i => k_state (k (wst w)) = CS_COMMAND_FOUND /\ k_cmd (k (wst w)) = Some i /\
                k_type (k (wst w)) = (if (term =? ch_EQ)%N then T_WRITE else T_RUN) /\
                k_char (k (wst w)) = term
    | None => k_state (k (wst w)) = (if (term =? ch_LF)%N then CS_COMMAND_NOT_FOUND else CS_ERROR)
    end.
Proof.
  intros s a m0 t name' term rest h Hn HL Hf Hst Himp Hu1 Hu2 Ha Ht Hok Hterm typed Hh w0.
  assert (X : exists calls s2, calls <= 3 + m0 + length name' * S n + n /\
            Lemmas_C02e.steps D calls s (tline a m0 t name' ++ [term] ++ rest) s2 rest /\
            Lemmas_C02e.looked_up D s typed term (if (term =? ch_EQ)%N then T_WRITE else T_RUN) s2 /\
            k_cr (k s2) = (k_cr (k s) || crflag m0 name')).
  { destruct Hterm as [-> | ->].
    - destruct (dispatch_lf_g D Hmx s Hn HL Hf Hst Himp (conj Hu1 Hu2) a m0 t name' rest Ha Ht Hok Hh)
        as (calls & Hc & H1 & HR & H6).
      eexists calls, _. split; [exact Hc|]. split; [exact H1|]. split; [exact HR|].
      unfold Lemmas_E2E.six in H6. congruence.
    - destruct (dispatch_eq_g D Hmx s Hn HL Hf Hst Himp (conj Hu1 Hu2) a m0 t name' rest Ha Ht Hok Hh)
        as (calls & Hc & H1 & HR & H6).
      eexists calls, _. split; [exact Hc|]. split; [exact H1|]. split; [exact HR|].
      unfold Lemmas_E2E.six in H6. congruence. }
  destruct X as (calls & s2 & Hc & Hsteps & (M & F & U & R) & CR).
  exists calls. split; [exact Hc|]. intros w.
  rewrite tline_app in Hsteps.
  destruct (Lemmas_C02e.steps_world D calls s _ s2 rest h Hsteps) as [E1 [E2 [E3 [E4 E5]]]].
  fold w0 in E1, E2, E3, E4, E5. fold w in E1, E2, E3, E4, E5. rewrite E1.
  repeat (split; [assumption|]).
  split; [rewrite CR; unfold crflag, has_cr; apply orb_assoc|]. exact R.
Qed.

Theorem C02_dispatch_read_t_proof : forall s a m0 t name' m rest h,
  0 < n -> n <= 4 * length (cbuf s) -> fault s = false ->
  k_state (k s) = CS_IDLE -> k_implicit (k s) = false ->
  u_state (u s) = US_IDLE -> u_count (u s) = 0 ->
  to_upper a = ch_A -> to_upper t = ch_T ->
  name_ok (no_cr name') = true ->
  let typed := upper (no_cr name') in
  implicit_hit D s typed = false ->
  let w0 := mkw s ([a] ++ repeat ch_CR m0 ++ [t] ++ name' ++ [ch_QM] ++ repeat ch_CR m ++ [ch_LF] ++ rest) h [] in
  exists calls, calls <= 4 + m0 + m + length name' * (S n) + n /\
    let w := nsvc D calls w0 in
    inq (wio w) = rest /\ whs w = h /\ calls_of (wtr w) = [] /\ output_of (wtr w) = [] /\
    mem (wst w) = mem s /\ fault (wst w) = false /\ u (wst w) = u s /\
    k_cr (k (wst w)) = (k_cr (k s) || (0 <? m0) || existsb (fun c => (c =? ch_CR)%N) name' || (0 <? m)) /\
    match resolve typed (enabled D s) (cmds D) with
    | Some i => k_state (k (wst w)) = CS_COMMAND_FOUND /\ k_cmd (k (wst w)) = Some i /\
                k_type (k (wst w)) = T_READ /\ k_char (k (wst w)) = ch_LF
    | None => k_state (k (wst w)) = CS_COMMAND_NOT_FOUND
    end.
Proof.
  intros s a m0 t name' m rest h Hn HL Hf Hst Himp Hu1 Hu2 Ha Ht Hok typed Hh w0.
  destruct (dispatch_read_g D Hmx s Hn HL Hf Hst Himp (conj Hu1 Hu2) a m0 t name' m rest Ha Ht Hok Hh)
    as (calls & Hc & Hsteps & (M & F & U & R) & H6).
  exists calls. split; [exact Hc|]. intros w.
  rewrite tline_app in Hsteps.
  destruct (Lemmas_C02e.steps_world D calls s _ _ rest h Hsteps) as [E1 [E2 [E3 [E4 E5]]]].
  fold w0 in E1, E2, E3, E4, E5. fold w in E1, E2, E3, E4, E5. rewrite E1.
  repeat (split; [assumption|]).
  split; [|exact R].
  unfold Lemmas_E2E.six in H6. cbv zeta in H6.
  match type of H6 with (_, _, _, k_cr (k ?X), _, _) = _ =>
    assert (CR : k_cr (k X) = (k_cr (k s) || (crflag m0 name' || (0 <? m)))) by congruence end.
  rewrite CR. unfold crflag, has_cr. rewrite !orb_assoc. reflexivity.
Qed.

Theorem C02_dispatch_implicit_t_proof : forall s a m0 t pre c rest h,
  0 < n -> n <= 4 * length (cbuf s) -> fault s = false ->
  k_state (k s) = CS_IDLE -> k_implicit (k s) = false ->
  u_state (u s) = US_IDLE -> u_count (u s) = 0 ->
  to_upper a = ch_A -> to_upper t = ch_T ->
  name_ok (no_cr (pre ++ [c])) = true -> (c =? ch_CR)%N = false ->
  let typed := upper (no_cr (pre ++ [c])) in
  implicit_hit D s (removelast typed) = false -> implicit_hit D s typed = true ->
  let w0 := mkw s ([a] ++ repeat ch_CR m0 ++ [t] ++ pre ++ [c] ++ rest) h [] in
  exists calls, calls <= 2 + m0 + length (pre ++ [c]) * (S n) + n /\
    let w := nsvc D calls w0 in
    inq (wio w) = rest /\ whs w = h /\ calls_of (wtr w) = [] /\ output_of (wtr w) = [] /\
    mem (wst w) = mem s /\ fault (wst w) = false /\ u (wst w) = u s /\
    k_cr (k (wst w)) = (k_cr (k s) || (0 <? m0) || existsb (fun c => (c =? ch_CR)%N) pre) /\
    k_state (k (wst w)) = CS_COMMAND_FOUND /\
    k_cmd (k (wst w)) = find_full typed (enabled D s) (cmds D) 0 /\ k_cmd (k (wst w)) <> None /\
    k_type (k (wst w)) = T_WRITE.
Proof.
  intros s a m0 t pre c rest h Hn HL Hf Hst Himp Hu1 Hu2 Ha Ht Hok Hc typed H1 H2 w0.
  assert (Ety : typed = upper (no_cr pre) ++ [to_upper c]).
  { unfold typed. rewrite Lemmas_C06.no_cr_app, no_cr_cons, Hc. unfold upper. rewrite map_app. reflexivity. }
  destruct (Lemmas_C02e.name_ok_split _ Hok) as [_ Hch].
  rewrite Lemmas_C06.no_cr_app, no_cr_cons, Hc in Hch. unfold Lemmas_C02e.chars_ok in Hch.
  rewrite forallb_app in Hch. apply andb_true_iff in Hch. destruct Hch as [Hb Hc'].
  cbn [no_cr filter forallb] in Hc'. rewrite andb_true_r in Hc'.
  rewrite Ety in H1, H2. rewrite removelast_last in H1.
  destruct (dispatch_implicit_g D Hmx s Hn HL Hf Hst Himp (conj Hu1 Hu2) a m0 t pre c rest Ha Ht Hb Hc' H1 H2)
    as (calls & Hcalls & Hsteps & M & F & U & R1 & R2 & R3 & R4 & R5).
  exists calls. split; [exact Hcalls|]. intros w.
  rewrite tline_app, <- app_assoc in Hsteps.
  destruct (Lemmas_C02e.steps_world D calls s _ _ rest h Hsteps) as [E1 [E2 [E3 [E4 E5]]]].
  fold w0 in E1, E2, E3, E4, E5. fold w in E1, E2, E3, E4, E5. rewrite E1.
  repeat (split; [assumption|]).
  split; [rewrite R5; unfold crflag, has_cr; apply orb_assoc|].
  rewrite Ety. repeat (split; [assumption|]). assumption.
Qed.

(* transparency: the state reached is that of the canonical upper-case line, up to the newline flag *)
Theorem C02_reader_transparent_proof : forall s a m0 t name' term rest h,
  0 < n -> n <= 4 * length (cbuf s) -> fault s = false ->
  k_state (k s) = CS_IDLE -> k_implicit (k s) = false ->
  u_state (u s) = US_IDLE -> u_count (u s) = 0 ->
  to_upper a = ch_A -> to_upper t = ch_T ->
  name_ok (no_cr name') = true -> (term = ch_LF \/ term = ch_EQ) ->
  let typed := upper (no_cr name') in
  implicit_hit D s typed = false ->
  exists c1 c2,
    let w := nsvc D c1 (mkw s ([a] ++ repeat ch_CR m0 ++ [t] ++ name' ++ [term] ++ rest) h []) in
    let wc := nsvc D c2 (mkw s ([ch_A; ch_T] ++ typed ++ [term] ++ rest) h []) in
    wst w = setk_cr (k_cr (k s) || (0 <? m0) || existsb (fun c => (c =? ch_CR)%N) name') (wst wc) /\
    inq (wio w) = rest /\ inq (wio wc) = rest /\ whs w = h /\ whs wc = h /\
    calls_of (wtr w) = [] /\ calls_of (wtr wc) = [] /\ output_of (wtr w) = [] /\ output_of (wtr wc) = [].
Proof.
  intros s a m0 t name' term rest h Hn HL Hf Hst Himp Hu1 Hu2 Ha Ht Hok Hterm typed Hh.
  destruct (canon_name_ok (no_cr name') Hok) as (Hok' & Ety & Hcr'). fold typed in Hok', Ety, Hcr'.
  assert (Hh' : implicit_hit D s (upper (no_cr typed)) = false) by (rewrite Ety; exact Hh).
  assert (X : exists c1 c2 ty g,
            Lemmas_C02e.steps D c1 s (tline a m0 t name' ++ [term] ++ rest)
              (found_state D s typed term ty (k_cr (k s) || crflag m0 name') g) rest /\
            Lemmas_C02e.steps D c2 s (tline ch_A 0 ch_T typed ++ [term] ++ rest)
              (found_state D s typed term ty (k_cr (k s) || crflag 0 typed) g) rest).
  { destruct Hterm as [-> | ->].
    - destruct (dispatch_lf_g D Hmx s Hn HL Hf Hst Himp (conj Hu1 Hu2) a m0 t name' rest Ha Ht Hok Hh)
        as (c1 & _ & H1 & _).
      destruct (dispatch_lf_g D Hmx s Hn HL Hf Hst Himp (conj Hu1 Hu2) ch_A 0 ch_T typed rest eq_refl eq_refl Hok' Hh')
        as (c2 & _ & H2 & _).
      cbv zeta in H2. rewrite Ety in H2. eexists c1, c2, _, _. split; [exact H1 | exact H2].
    - destruct (dispatch_eq_g D Hmx s Hn HL Hf Hst Himp (conj Hu1 Hu2) a m0 t name' rest Ha Ht Hok Hh)
        as (c1 & _ & H1 & _).
      destruct (dispatch_eq_g D Hmx s Hn HL Hf Hst Himp (conj Hu1 Hu2) ch_A 0 ch_T typed rest eq_refl eq_refl Hok' Hh')
        as (c2 & _ & H2 & _).
      cbv zeta in H2. rewrite Ety in H2. eexists c1, c2, _, _. split; [exact H1 | exact H2]. }
  destruct X as (c1 & c2 & ty & g & H1 & H2).
  exists c1, c2. intros w wc.
  rewrite tline_app in H1, H2.
  change ([ch_A] ++ repeat ch_CR 0 ++ [ch_T] ++ typed ++ [term] ++ rest)
    with ([ch_A; ch_T] ++ typed ++ [term] ++ rest) in H2.
  destruct (Lemmas_C02e.steps_world D c1 s _ _ rest h H1) as [E1 [E2 [E3 [E4 E5]]]].
  destruct (Lemmas_C02e.steps_world D c2 s _ _ rest h H2) as [F1 [F2 [F3 [F4 F5]]]].
  fold w in E1, E2, E3, E4, E5. fold wc in F1, F2, F3, F4, F5.
  rewrite E1, F1. split; [|repeat split; assumption].
  unfold crflag. rewrite <- orb_assoc. reflexivity.
Qed.

Theorem C02_reader_transparent_read_proof : forall s a m0 t name' m rest h,
  0 < n -> n <= 4 * length (cbuf s) -> fault s = false ->
  k_state (k s) = CS_IDLE -> k_implicit (k s) = false ->
  u_state (u s) = US_IDLE -> u_count (u s) = 0 ->
  to_upper a = ch_A -> to_upper t = ch_T ->
  name_ok (no_cr name') = true ->
  let typed := upper (no_cr name') in
  implicit_hit D s typed = false ->
  exists c1 c2,
    let w := nsvc D c1 (mkw s ([a] ++ repeat ch_CR m0 ++ [t] ++ name' ++ [ch_QM] ++ repeat ch_CR m ++ [ch_LF] ++ rest) h []) in
    let wc := nsvc D c2 (mkw s ([ch_A; ch_T] ++ typed ++ [ch_QM; ch_LF] ++ rest) h []) in
    wst w = setk_cr (k_cr (k s) || (0 <? m0) || existsb (fun c => (c =? ch_CR)%N) name' || (0 <? m)) (wst wc) /\
    inq (wio w) = rest /\ inq (wio wc) = rest /\ whs w = h /\ whs wc = h /\
    calls_of (wtr w) = [] /\ calls_of (wtr wc) = [] /\ output_of (wtr w) = [] /\ output_of (wtr wc) = [].
Proof.
  intros s a m0 t name' m rest h Hn HL Hf Hst Himp Hu1 Hu2 Ha Ht Hok typed Hh.
  destruct (canon_name_ok (no_cr name') Hok) as (Hok' & Ety & Hcr'). fold typed in Hok', Ety, Hcr'.
  assert (Hh' : implicit_hit D s (upper (no_cr typed)) = false) by (rewrite Ety; exact Hh).
  destruct (dispatch_read_g D Hmx s Hn HL Hf Hst Himp (conj Hu1 Hu2) a m0 t name' m rest Ha Ht Hok Hh)
    as (c1 & _ & H1 & _).
  destruct (dispatch_read_g D Hmx s Hn HL Hf Hst Himp (conj Hu1 Hu2) ch_A 0 ch_T typed 0 rest eq_refl eq_refl Hok' Hh')
    as (c2 & _ & H2 & _).
  cbv zeta in H1, H2. rewrite Ety in H2.
  exists c1, c2. intros w wc.
  rewrite tline_app in H1, H2.
  change ([ch_A] ++ repeat ch_CR 0 ++ [ch_T] ++ typed ++ [ch_QM] ++ repeat ch_CR 0 ++ [ch_LF] ++ rest)
    with ([ch_A; ch_T] ++ typed ++ [ch_QM; ch_LF] ++ rest) in H2.
  destruct (Lemmas_C02e.steps_world D c1 s _ _ rest h H1) as [E1 [E2 [E3 [E4 E5]]]].
  destruct (Lemmas_C02e.steps_world D c2 s _ _ rest h H2) as [F1 [F2 [F3 [F4 F5]]]].
  fold w in E1, E2, E3, E4, E5. fold wc in F1, F2, F3, F4, F5.
  rewrite E1, F1. split; [|repeat split; assumption].
  unfold crflag. rewrite !orb_assoc. reflexivity.
Qed.


(* ---- whole lines as a terminal sends them ---- *)
Theorem E2E_read_line_t_proof : forall s a m0 t name' m rest h i c args,
  0 < n -> n <= 4 * length (cbuf s) -> 6 <= length (cbuf s) -> fault s = false ->
  k_state (k s) = CS_IDLE -> k_cr (k s) = false -> k_implicit (k s) = false -> k_hold (k s) = false ->
  u_state (u s) = US_IDLE -> u_count (u s) = 0 ->
  to_upper a = ch_A -> to_upper t = ch_T ->
  name_ok (no_cr name') = true -> implicit_hit D s (upper (no_cr name')) = false ->
  resolve (upper (no_cr name')) (enabled D s) (cmds D) = Some i -> nth_error (cmds D) i = Some c ->
  Lemmas_C07e.rt_cmd_ok (mem s) c -> Lemmas_C07e.read_args_text (mem s) c = Some args ->
  length (c_name c ++ [ch_EQ] ++ args) < length (cbuf s) ->
  let nl := nl_of ((0 <? m0) || existsb (fun c => (c =? ch_CR)%N) name' || (0 <? m)) in
  let w0 := mkw s ([a] ++ repeat ch_CR m0 ++ [t] ++ name' ++ [ch_QM] ++ repeat ch_CR m ++ [ch_LF] ++ rest) h [] in
  exists calls, let w := nsvc D calls w0 in
    k_state (k (wst w)) = CS_IDLE /\ inq (wio w) = rest /\ whs w = h /\ calls_of (wtr w) = [] /\
    mem (wst w) = mem s /\ fault (wst w) = false /\
    output_of (wtr w) = nl ++ c_name c ++ [ch_EQ] ++ args ++ nl ++ nl ++ txt_OK ++ nl /\
    gL (wst w) = S (gL s) /\ gS (wst w) = S (gS s) /\ gR (wst w) = S (gR s) /\ k_cr (k (wst w)) = false.
Proof.
  intros s a m0 t name' m rest h i c args Hn HL H6 Hf Hst Hcr Himp Hhold Hu1 Hu2 Ha Ht Hok Hh Hres Hc Hrt
         Harg Hfit nl w0.
  destruct (read_line_osteps_g D Hmx s Hn HL H6 Hf Hst Hcr Himp Hhold (conj Hu1 Hu2)
              a m0 t name' m rest i c args Ha Ht Hok Hh Hres Hc Hrt Harg Hfit)
    as (calls & s4 & O & (L1 & L2 & L3 & L4 & L5 & L6 & L7 & L8 & _)).
  exists calls. intros w. rewrite tline_app in O.
  destruct (Lemmas_E2E.osteps_world D calls s _ s4 rest _ h O) as (E1 & E2 & E3 & E4 & E5).
  fold w0 in E1, E2, E3, E4, E5. fold w in E1, E2, E3, E4, E5. rewrite E1.
  repeat (split; [assumption|]). assumption.
Qed.

Theorem E2E_unknown_line_t_proof : forall s a m0 t name' rest h,
  0 < n -> n <= 4 * length (cbuf s) -> 6 <= length (cbuf s) -> fault s = false ->
  k_state (k s) = CS_IDLE -> k_cr (k s) = false -> k_implicit (k s) = false -> k_hold (k s) = false ->
  u_state (u s) = US_IDLE -> u_count (u s) = 0 ->
  to_upper a = ch_A -> to_upper t = ch_T ->
  name_ok (no_cr name') = true -> implicit_hit D s (upper (no_cr name')) = false ->
  resolve (upper (no_cr name')) (enabled D s) (cmds D) = None ->
  let nl := nl_of ((0 <? m0) || existsb (fun c => (c =? ch_CR)%N) name') in
  let w0 := mkw s ([a] ++ repeat ch_CR m0 ++ [t] ++ name' ++ [ch_LF] ++ rest) h [] in
  exists calls, let w := nsvc D calls w0 in
    k_state (k (wst w)) = CS_IDLE /\ inq (wio w) = rest /\ whs w = h /\ calls_of (wtr w) = [] /\
    mem (wst w) = mem s /\ fault (wst w) = false /\
    output_of (wtr w) = nl ++ txt_ERROR ++ nl /\
    gL (wst w) = S (gL s) /\ gS (wst w) = S (gS s) /\ gR (wst w) = S (gR s) /\ k_cr (k (wst w)) = false.
Proof.
  intros s a m0 t name' rest h Hn HL H6 Hf Hst Hcr Himp Hhold Hu1 Hu2 Ha Ht Hok Hh Hres nl w0.
  destruct (unknown_line_osteps_g D Hmx s Hn HL H6 Hf Hst Hcr Himp Hhold (conj Hu1 Hu2)
              a m0 t name' rest Ha Ht Hok Hh Hres)
    as (calls & s4 & O & (L1 & L2 & L3 & L4 & L5 & L6 & L7 & L8 & _)).
  exists calls. intros w. rewrite tline_app in O.
  destruct (Lemmas_E2E.osteps_world D calls s _ s4 rest _ h O) as (E1 & E2 & E3 & E4 & E5).
  fold w0 in E1, E2, E3, E4, E5. fold w in E1, E2, E3, E4, E5. rewrite E1.
  repeat (split; [assumption|]). assumption.
Qed.

Theorem E2E_run_line_t_proof : forall s a m0 t name' rest h h' i c r0 ans,
  0 < n -> n <= 4 * length (cbuf s) -> 6 <= length (cbuf s) -> fault s = false ->
  k_state (k s) = CS_IDLE -> k_cr (k s) = false -> k_implicit (k s) = false -> k_hold (k s) = false ->
  u_state (u s) = US_IDLE -> u_count (u s) = 0 ->
  to_upper a = ch_A -> to_upper t = ch_T ->
  name_ok (no_cr name') = true -> implicit_hit D s (upper (no_cr name')) = false ->
  resolve (upper (no_cr name')) (enabled D s) (cmds D) = Some i -> nth_error (cmds D) i = Some c ->
  c_hrun c = true -> c_only_test c = false ->
  s_call h (HRun i) = (h', r0) -> r_pokes r0 = [] -> r_calls r0 = [] ->
  run_answer (r_code r0) = Some ans ->
  let nl := nl_of ((0 <? m0) || existsb (fun c => (c =? ch_CR)%N) name') in
  let w0 := mkw s ([a] ++ repeat ch_CR m0 ++ [t] ++ name' ++ [ch_LF] ++ rest) h [] in
  exists calls, let w := nsvc D calls w0 in
    k_state (k (wst w)) = CS_IDLE /\ inq (wio w) = rest /\ whs w = h' /\
    calls_of (wtr w) = [(HRun i, r_code r0)] /\
    mem (wst w) = mem s /\ fault (wst w) = false /\
    output_of (wtr w) = nl ++ ans ++ nl /\
    gL (wst w) = S (gL s) /\ gS (wst w) = S (gS s) /\ gR (wst w) = S (gR s) /\ k_cr (k (wst w)) = false.
Proof.
  intros s a m0 t name' rest h h' i c r0 ans Hn HL H6 Hf Hst Hcr Himp Hhold Hu1 Hu2 Ha Ht Hok Hh Hres Hc
         Hrun Hot Hcall Hp Hcs Hans nl w0.
  destruct (run_line_world_g D Hmx s Hn HL H6 Hf Hst Hcr Himp Hhold (conj Hu1 Hu2)
              a m0 t name' rest h h' i c r0 ans Ha Ht Hok Hh Hres Hc Hrun Hot Hcall Hp Hcs Hans)
    as (calls & X).
  exists calls. intros w. rewrite tline_app in X. fold w0 in X. fold w in X.
  destruct X as (E2 & E3 & E4 & E5 & (L1 & L2 & L3 & L4 & L5 & L6 & L7 & L8 & _)).
  repeat (split; [assumption|]). assumption.
Qed.

End Final.

(* ================= 6. concrete instances (table of Lemmas_E2E.E2E_examples: +X variables, +XY run handler) ================= *)
Module T_examples.
Import Lemmas_E2E.E2E_examples.
Definition obs_t (w : sworld) :=
  (k_state (k (wst w)), inq (wio w), whs w, calls_of (wtr w), output_of (wtr w), mem (wst w), fault (wst w),
   (gL (wst w), gS (wst w), gR (wst w)), k_cr (k (wst w))).
Definition go_t (line : list N) (calls : nat) := obs_t (nsvc D0 calls (mkw s0 line [] [])).
Definition obs_d (w : sworld) :=
  (k_state (k (wst w)), k_cmd (k (wst w)), k_type (k (wst w)), k_char (k (wst w)), k_cr (k (wst w)),
   inq (wio w), calls_of (wtr w), output_of (wtr w)).
Definition go_d (line : list N) (calls : nat) := obs_d (nsvc D0 calls (mkw s0 line [] [])).
(* at+x? CR LF 1 2 3 *)
Definition l_read : list N := [97; 116; 43; 120; 63; 13; 10; 1; 2; 3]%N.
(* at+xy CR LF 7 *)
Definition l_run : list N := [97; 116; 43; 120; 121; 13; 10; 7]%N.
(* A CR t + CR X CR y LF 7 *)
Definition l_run_cr : list N := [65; 13; 116; 43; 13; 88; 13; 121; 10; 7]%N.
(* aT+q CR LF 7 *)
Definition l_unknown : list N := [97; 84; 43; 113; 13; 10; 7]%N.
(* A CR CR t + CR x ? CR CR LF 7 *)
Definition l_read_cr : list N := [65; 13; 13; 116; 43; 13; 120; 63; 13; 13; 10; 7]%N.
(* a CR T + CR x CR = 1 2 3 *)
Definition l_write_cr : list N := [97; 13; 84; 43; 13; 120; 13; 61; 1; 2; 3]%N.
Definition crlf : list N := [13; 10]%N.
End T_examples.

(* ====================================================================================== *)
Module P2.
(* Part P2 — property C06.P3, whole lines: a WRITE line whose argument text does not fit the working
   buffer (length >= capacity) is rejected as a whole: the rest of the line is drained up to its line
   feed, the answer is  nl ERROR nl  (nl = CR LF if a carriage return occurred anywhere between '=' and
   the line feed, LF otherwise), no handler or variable callback is called, no variable is touched, and
   nothing after the line feed is consumed.  The same drain answers a WRITE line with an unknown name.
   Structure: (1) frames; (2) the argument bytes with CRs tolerated (after Lemmas_E2E.args_steps);
   (3) the byte that overflows; (4) the '=?' shortcut followed by more text (CS_WAIT_TEST_ACK);
   (5) draining in CS_ERROR, the line feed, the ERROR tail; (6) the composed lines. *)

Local Notation wst := (Fsm.st sio smu shs).
Local Notation wio := (Fsm.io sio smu shs).
Local Notation whs := (Fsm.hs sio smu shs).
Local Notation wtr := (Fsm.tr sio smu shs).
Local Notation idle := Lemmas_C02e.idle.
Local Notation has_cr := (existsb (fun b : N => (b =? ch_CR)%N)).

Ltac brk2 := repeat (cbv beta iota zeta; match goal with
  | |- context [match ?x with _ => _ end] =>
      lazymatch x with
      | context [match _ with _ => _ end] => fail
      | _ => destruct x
      end
  end).

(* ================= 1. frames ================= *)
(* what neither collecting nor draining changes *)
Definition fr (s s' : state) : Prop :=
  u s' = u s /\ gL s' = gL s /\ gS s' = gS s /\ gR s' = gR s /\ k_hold (k s') = k_hold (k s) /\
  length (cbuf s') = length (cbuf s).

Lemma fr_refl : forall s, fr s s.
Proof. intros s. unfold fr. repeat split; reflexivity. Qed.

Lemma fr_trans : forall a b c, fr a b -> fr b c -> fr a c.
Proof.
  intros a b c (A1 & A2 & A3 & A4 & A5 & A6) (B1 & B2 & B3 & B4 & B5 & B6).
  unfold fr. rewrite B1, B2, B3, B4, B5, B6. repeat split; assumption.
Qed.

Lemma idle_fr : forall s s', fr s s' -> idle s -> idle s'.
Proof. intros s s' F Hi. apply (Lemmas_C02e.idle_of_u s); [apply F | exact Hi]. Qed.

Lemma pca_fr : forall D ch s, ch <> ch_LF -> fr s (pca_body D ch s).
Proof.
  intros D ch s H. apply N.eqb_neq in H. unfold pca_body. rewrite H.
  brk2; unfold fr; Lemmas_C11.scbn; rewrite ?Lemmas_C19.upd_length; repeat split; reflexivity.
Qed.

(* character facts *)
Lemma upper_lf : forall ch, (to_upper ch =? ch_LF)%N = (ch =? ch_LF)%N.
Proof.
  intros ch. unfold to_upper, ch_LF.
  destruct ((97 <=? ch)%N && (ch <=? 122)%N) eqn:E; [|reflexivity].
  apply andb_true_iff in E. destruct E as [A B]. apply N.leb_le in A. apply N.leb_le in B.
  transitivity false; [apply N.eqb_neq | symmetry; apply N.eqb_neq]; lia.
Qed.

Lemma upper_cr : forall ch, (to_upper ch =? ch_CR)%N = (ch =? ch_CR)%N.
Proof.
  intros ch. unfold to_upper, ch_CR.
  destruct ((97 <=? ch)%N && (ch <=? 122)%N) eqn:E; [|reflexivity].
  apply andb_true_iff in E. destruct E as [A B]. apply N.leb_le in A. apply N.leb_le in B.
  transitivity false; [apply N.eqb_neq | symmetry; apply N.eqb_neq]; lia.
Qed.

Lemma no_cr_cons_cr : forall bs, no_cr (ch_CR :: bs) = no_cr bs.
Proof. reflexivity. Qed.

Lemma no_cr_cons_other : forall b bs, (b =? ch_CR)%N = false -> no_cr (b :: bs) = b :: no_cr bs.
Proof. intros b bs H. unfold no_cr. cbn [filter]. rewrite H. reflexivity. Qed.

(* the shortest prefix of bs with m+1 text bytes *)
Lemma split_text : forall bs m, S m <= length (no_cr bs) ->
  exists p b d, bs = p ++ b :: d /\ (b =? ch_CR)%N = false /\ length (no_cr p) = m.
Proof.
  induction bs as [|x r IH]; intros m H; [cbn in H; lia|].
  destruct (x =? ch_CR)%N eqn:E.
  - apply N.eqb_eq in E. subst x. rewrite no_cr_cons_cr in H.
    destruct (IH m H) as (p & b & d & -> & Hb & Hl).
    exists (ch_CR :: p), b, d. split; [reflexivity|]. split; [exact Hb|].
    rewrite no_cr_cons_cr. exact Hl.
  - rewrite (no_cr_cons_other x r E) in H. cbn [length] in H.
    destruct m as [|m].
    + exists [], x, r. split; [reflexivity|]. split; [exact E | reflexivity].
    + destruct (IH m ltac:(lia)) as (p & b & d & -> & Hb & Hl).
      exists (x :: p), b, d. split; [reflexivity|]. split; [exact Hb|].
      rewrite (no_cr_cons_other x p E). cbn [length]. rewrite Hl. reflexivity.
Qed.

Lemma has_cr_no_cr_nil : forall bs, no_cr bs = [] -> Forall (fun ch => ch = ch_CR) bs.
Proof.
  induction bs as [|x r IH]; intros H; [constructor|].
  destruct (x =? ch_CR)%N eqn:E.
  - apply N.eqb_eq in E. subst x. constructor; [reflexivity | apply IH; exact H].
  - rewrite (no_cr_cons_other x r E) in H. discriminate H.
Qed.

(* a decidable form of "x does not occur", for concrete instances *)
Lemma notin_b : forall (x : N) bs, existsb (fun b => (b =? x)%N) bs = false -> ~ In x bs.
Proof.
  intros x bs H Hin. assert (E : existsb (fun b => (b =? x)%N) bs = true).
  { apply existsb_exists. exists x. split; [exact Hin | apply N.eqb_refl]. }
  rewrite H in E. discriminate E.
Qed.

Section Overlong.
Variable D : desc.
Hypothesis Hmx : d_mutex D = false.
Local Notation n := (ncmds D).
Local Notation cmdsvc := (cmd_service D sio smu shs s_read s_write s_lock s_unlock s_call).
Local Notation steps := (Lemmas_C02e.steps D).
Local Notation osteps := (Lemmas_E2E.osteps D).
Local Notation rd_state := Lemmas_C02e.rd_state.

(* ================= 2. the argument bytes, CRs tolerated ================= *)
(* one byte other than LF in CS_PARSE_COMMAND_ARGS *)
Lemma pca_byte : forall s b q, idle s -> k_state (k s) = CS_PARSE_COMMAND_ARGS -> b <> ch_LF ->
  steps 1 s (b :: q) (args_byte D s b) q /\ fr s (args_byte D s b).
Proof.
  intros s b q Hi Hs Hb.
  assert (Hrd : rd_state s b = setk_char b s).
  { unfold Lemmas_C02e.rd_state. rewrite Hs. cbn [cstate_beq].
    apply N.eqb_neq in Hb. rewrite Hb. reflexivity. }
  rewrite (Lemmas_C06.args_byte_in D s b Hs). split.
  - pose proof (Lemmas_E2E.pca_step D Hmx s b q Hi Hs) as S1. rewrite Hrd in S1. exact S1.
  - apply (fr_trans s (setk_char b s)); [unfold fr; repeat split; reflexivity | apply pca_fr; exact Hb].
Qed.

Lemma shortcut_prefix : forall (c : cmd) (a b : list N),
  (test_shortcut c = true -> match a ++ b with q :: _ => q <> ch_QM | [] => True end) ->
  (test_shortcut c = true -> match a with q :: _ => q <> ch_QM | [] => True end).
Proof. intros c a b H T. specialize (H T). destruct a; [exact I | exact H]. Qed.

(* the bytes of an argument text that fits (no LF; CRs anywhere): exactly the iteration args_feed *)
Lemma feed_steps : forall c bs s q, idle s -> k_state (k s) = CS_PARSE_COMMAND_ARGS ->
  cmd_of D ATCMD s = Some c -> k_length (k s) = 0 -> 0 < asz s -> fault s = false ->
  nth_error (cbuf s) 0 = Some 0%N -> ~ In ch_LF bs ->
  (test_shortcut c = true -> match no_cr bs with q :: _ => q <> ch_QM | [] => True end) ->
  length (no_cr bs) < asz s ->
  steps (length bs) s (bs ++ q) (args_feed D s bs) q /\ fr s (args_feed D s bs).
Proof.
  intros c. induction bs as [|b bs IH] using rev_ind; intros s q Hi Hs Hc Hl Ha Hf H0 Hlf Hq Hfit.
  - split; [apply Lemmas_C02e.steps_0 | apply fr_refl].
  - assert (Hlf' : ~ In ch_LF bs) by (intro X; apply Hlf; apply in_or_app; left; exact X).
    assert (Hb1 : b <> ch_LF) by (intro X; apply Hlf; apply in_or_app; right; left; exact X).
    rewrite Lemmas_C06.no_cr_app in Hq, Hfit. rewrite app_length in Hfit.
    pose proof (shortcut_prefix c _ _ Hq) as Hq'.
    destruct (IH s (b :: q) Hi Hs Hc Hl Ha Hf H0 Hlf' Hq' ltac:(lia)) as (S1 & F1).
    pose proof (Lemmas_C06.C06_collect D s c bs Hs Hc Hl Ha Hf H0 Hlf' Hq') as HC. cbv zeta in HC.
    destruct HC as (_ & _ & _ & HC).
    replace (length (no_cr bs) <? asz s) with true in HC by (symmetry; apply Nat.ltb_lt; lia).
    destruct HC as (Hs' & _).
    rewrite Lemmas_C06.args_feed_app. set (s' := args_feed D s bs) in *.
    change (args_feed D s' [b]) with (args_byte D s' b).
    destruct (pca_byte s' b q (idle_fr s s' F1 Hi) Hs' Hb1) as (S2 & F2).
    split.
    + rewrite app_length, <- app_assoc. cbn [length app].
      exact (Lemmas_C02e.steps_trans D _ _ _ _ _ _ _ _ S1 S2).
    + exact (fr_trans _ _ _ F1 F2).
Qed.

(* ================= 3. the text byte that no longer fits ================= *)
Lemma overflow_steps : forall c p b s q, idle s -> k_state (k s) = CS_PARSE_COMMAND_ARGS ->
  cmd_of D ATCMD s = Some c -> k_length (k s) = 0 -> 0 < asz s -> fault s = false ->
  nth_error (cbuf s) 0 = Some 0%N -> ~ In ch_LF (p ++ [b]) ->
  (test_shortcut c = true -> match no_cr (p ++ [b]) with q :: _ => q <> ch_QM | [] => True end) ->
  (b =? ch_CR)%N = false -> S (length (no_cr p)) = asz s ->
  exists s', steps (S (length p)) s (p ++ b :: q) s' q /\ fr s s' /\
    k_state (k s') = CS_ERROR /\ fault s' = false /\ mem s' = mem s /\
    k_cr (k s') = k_cr (k s) || has_cr p.
Proof.
  intros c p b s q Hi Hs Hc Hl Ha Hf H0 Hlf Hq Hb Hlen.
  assert (Hlf' : ~ In ch_LF p) by (intro X; apply Hlf; apply in_or_app; left; exact X).
  assert (Hb1 : b <> ch_LF) by (intro X; apply Hlf; apply in_or_app; right; left; exact X).
  assert (Hb2 : b <> ch_CR) by (apply N.eqb_neq; exact Hb).
  pose proof Hq as Hq0. rewrite Lemmas_C06.no_cr_app in Hq0.
  pose proof (shortcut_prefix c _ _ Hq0) as Hq'.
  destruct (feed_steps c p s (b :: q) Hi Hs Hc Hl Ha Hf H0 Hlf' Hq' ltac:(lia)) as (S1 & F1).
  pose proof (Lemmas_C06.C06_collect D s c p Hs Hc Hl Ha Hf H0 Hlf' Hq') as HC. cbv zeta in HC.
  destruct HC as (_ & _ & _ & HC).
  replace (length (no_cr p) <? asz s) with true in HC by (symmetry; apply Nat.ltb_lt; lia).
  destruct HC as (Hs' & _ & _ & _ & Hcr').
  pose proof (Lemmas_C06.C06_collect D s c (p ++ [b]) Hs Hc Hl Ha Hf H0 Hlf Hq) as HE. cbv zeta in HE.
  destruct HE as (Fe & Me & _ & HE).
  replace (length (no_cr (p ++ [b])) <? asz s) with false in HE.
  2:{ symmetry. apply Nat.ltb_ge. rewrite Lemmas_C06.no_cr_app, app_length, (no_cr_cons_other b [] Hb).
      cbn [length no_cr filter]. lia. }
  rewrite Lemmas_C06.args_feed_app in Fe, Me, HE. set (s1 := args_feed D s p) in *.
  change (args_feed D s1 [b]) with (args_byte D s1 b) in Fe, Me, HE.
  destruct (pca_byte s1 b q (idle_fr s s1 F1 Hi) Hs' Hb1) as (S2 & F2).
  exists (args_byte D s1 b).
  split; [replace (S (length p)) with (length p + 1) by lia;
          exact (Lemmas_C02e.steps_trans D _ _ _ _ _ _ _ _ S1 S2)|].
  split; [exact (fr_trans _ _ _ F1 F2)|]. split; [exact HE|]. split; [exact Fe|]. split; [exact Me|].
  rewrite (Lemmas_C06.args_byte_in D s1 b Hs').
  destruct (Lemmas_E2E.pca_body_keep D b (setk_char b s1) Hb1 Hb2) as ((_ & _ & _ & K & _) & _).
  rewrite K. exact Hcr'.
Qed.

(* ================= 4. '?' first (the =? shortcut), then more text ================= *)
Definition wta_body (ch : N) (s : state) : state :=
  if (ch =? ch_LF)%N then start_processing_format_test_args D ATCMD s
  else if (ch =? ch_CR)%N then setk_cr true s
  else setk_state CS_ERROR s.

Lemma step_wta : forall s c q, idle s -> k_state (k s) = CS_WAIT_TEST_ACK ->
  steps 1 s (c :: q) (wta_body (k_char (k (rd_state s c))) (rd_state s c)) q.
Proof.
  intros s c q Hi Hs. apply (Lemmas_C02e.step_read D Hmx s c q wta_body Hi).
  intros h t. unfold cmd_service. cbn [Fsm.st mkw]. rewrite Hs. reflexivity.
Qed.

(* what the states after the collection leave alone, and the newline flag they accumulate *)
Definition drained (st : cstate) (s s' : state) (cr : bool) : Prop :=
  k_state (k s') = st /\ fr s s' /\ mem s' = mem s /\ fault s' = fault s /\
  k_cr (k s') = k_cr (k s) || cr.

(* carriage returns in CS_WAIT_TEST_ACK, then any byte other than CR and LF: CS_ERROR *)
Lemma wta_steps : forall crs b s q, idle s -> k_state (k s) = CS_WAIT_TEST_ACK ->
  Forall (fun ch => ch = ch_CR) crs -> (b =? ch_CR)%N = false -> b <> ch_LF ->
  exists s', steps (S (length crs)) s (crs ++ b :: q) s' q /\ drained CS_ERROR s s' (has_cr crs).
Proof.
  induction crs as [|x r IH]; intros b s q Hi Hs Hall Hb Hb1.
  - pose proof (step_wta s b q Hi Hs) as S1.
    assert (Hrd : rd_state s b = setk_char (to_upper b) s).
    { unfold Lemmas_C02e.rd_state. rewrite Hs. cbn [cstate_beq]. rewrite upper_lf.
      apply N.eqb_neq in Hb1. rewrite Hb1. reflexivity. }
    rewrite Hrd in S1. change (k_char (k (setk_char (to_upper b) s))) with (to_upper b) in S1.
    unfold wta_body in S1. rewrite upper_lf, upper_cr, Hb in S1.
    apply N.eqb_neq in Hb1. rewrite Hb1 in S1.
    eexists. split; [exact S1|]. unfold drained, fr. cbn [existsb]. rewrite orb_false_r.
    repeat split; reflexivity.
  - inversion Hall as [|? ? Hx Hr]; subst.
    pose proof (step_wta s ch_CR (r ++ b :: q) Hi Hs) as S1.
    assert (Hrd : rd_state s ch_CR = setk_char ch_CR s).
    { unfold Lemmas_C02e.rd_state. rewrite Hs. reflexivity. }
    rewrite Hrd in S1.
    change (wta_body (k_char (k (setk_char ch_CR s))) (setk_char ch_CR s))
      with (setk_cr true (setk_char ch_CR s)) in S1.
    destruct (IH b (setk_cr true (setk_char ch_CR s)) q Hi Hs Hr Hb Hb1) as (s' & S2 & A & F & M & Fl & C).
    exists s'. split.
    + change (S (length (ch_CR :: r))) with (1 + S (length r)).
      exact (Lemmas_C02e.steps_trans D _ _ _ _ _ _ _ _ S1 S2).
    + unfold drained. split; [exact A|]. split; [exact F|]. split; [exact M|]. split; [exact Fl|].
      rewrite C. cbn [existsb]. change (ch_CR =? ch_CR)%N with true.
      Lemmas_C11.scbn. rewrite orb_true_r. reflexivity.
Qed.

(* CRs, then '?' as the first text byte of a command with the =? form, then CRs, then a text byte *)
Lemma qm_steps : forall c crs1 crs2 b s q, idle s -> k_state (k s) = CS_PARSE_COMMAND_ARGS ->
  cmd_of D ATCMD s = Some c -> k_length (k s) = 0 -> 0 < asz s -> fault s = false ->
  nth_error (cbuf s) 0 = Some 0%N -> test_shortcut c = true ->
  Forall (fun ch => ch = ch_CR) crs1 -> Forall (fun ch => ch = ch_CR) crs2 ->
  (b =? ch_CR)%N = false -> b <> ch_LF ->
  exists s', steps (length crs1 + (1 + S (length crs2))) s (crs1 ++ ch_QM :: crs2 ++ b :: q) s' q /\
    fr s s' /\ k_state (k s') = CS_ERROR /\ fault s' = false /\ mem s' = mem s /\
    k_cr (k s') = k_cr (k s) || has_cr crs1 || has_cr crs2.
Proof.
  intros c crs1 crs2 b s q Hi Hs Hc Hl Ha Hf H0 HT Hall1 Hall2 Hb Hb1.
  assert (Hlf1 : ~ In ch_LF crs1).
  { intro X. rewrite Forall_forall in Hall1. specialize (Hall1 _ X). discriminate Hall1. }
  assert (Hn1 : no_cr crs1 = []).
  { clear -Hall1. induction Hall1 as [|x r Hx _ IH]; [reflexivity|]. subst x. exact IH. }
  assert (Hq1 : test_shortcut c = true -> match no_cr crs1 with q0 :: _ => q0 <> ch_QM | [] => True end).
  { rewrite Hn1. intros _. exact I. }
  destruct (feed_steps c crs1 s (ch_QM :: crs2 ++ b :: q) Hi Hs Hc Hl Ha Hf H0 Hlf1 Hq1
              ltac:(rewrite Hn1; exact Ha)) as (S1 & F1).
  pose proof (Lemmas_C06.C06_collect D s c crs1 Hs Hc Hl Ha Hf H0 Hlf1 Hq1) as HC. cbv zeta in HC.
  destruct HC as (Fc & Mc & Cc & HC). rewrite Hn1 in HC.
  replace (length (@nil N) <? asz s) with true in HC by (symmetry; apply Nat.ltb_lt; exact Ha).
  destruct HC as (Hs1 & Hl1 & _ & _ & Hcr1).
  set (s1 := args_feed D s crs1) in *.
  assert (Hi1 : idle s1) by exact (idle_fr s s1 F1 Hi).
  (* the '?' *)
  destruct (pca_byte s1 ch_QM (crs2 ++ b :: q) Hi1 Hs1 ltac:(discriminate)) as (S2 & F2).
  assert (E2 : args_byte D s1 ch_QM = (setk_char ch_QM s1 |> setk_type T_TEST |> setk_state CS_WAIT_TEST_ACK)).
  { rewrite (Lemmas_C06.args_byte_in D s1 ch_QM Hs1).
    exact (Lemmas_C06.pca_qm D (setk_char ch_QM s1) c Cc Hl1 HT). }
  rewrite E2 in S2, F2.
  set (s2 := setk_char ch_QM s1 |> setk_type T_TEST |> setk_state CS_WAIT_TEST_ACK) in *.
  destruct (wta_steps crs2 b s2 q (idle_fr s1 s2 F2 Hi1) eq_refl Hall2 Hb Hb1)
    as (s3 & S3 & A3 & F3 & M3 & Fl3 & C3).
  exists s3. split.
  - exact (Lemmas_C02e.steps_trans D _ _ _ _ _ _ _ _ S1 (Lemmas_C02e.steps_trans D _ _ _ _ _ _ _ _ S2 S3)).
  - split; [exact (fr_trans _ _ _ F1 (fr_trans _ _ _ F2 F3))|]. split; [exact A3|].
    split; [rewrite Fl3; exact Fc|]. split; [rewrite M3; exact Mc|].
    rewrite C3. change (k_cr (k s2)) with (k_cr (k s1)). rewrite Hcr1. reflexivity.
Qed.

(* ================= 5. draining in CS_ERROR; the line feed; the answer ================= *)
Definition err_body (ch : N) (s : state) : state :=
  if (ch =? ch_LF)%N then ack_error s else if (ch =? ch_CR)%N then setk_cr true s else s.

Lemma step_err : forall s c q, idle s -> k_state (k s) = CS_ERROR ->
  steps 1 s (c :: q) (err_body (k_char (k (rd_state s c))) (rd_state s c)) q.
Proof.
  intros s c q Hi Hs. apply (Lemmas_C02e.step_read D Hmx s c q err_body Hi).
  intros h t. unfold cmd_service. cbn [Fsm.st mkw]. rewrite Hs. reflexivity.
Qed.

(* every byte but LF is ignored; a CR is remembered *)
Lemma drain_steps : forall d s q, idle s -> k_state (k s) = CS_ERROR -> ~ In ch_LF d ->
  exists s', steps (length d) s (d ++ q) s' q /\ drained CS_ERROR s s' (has_cr d).
Proof.
  induction d as [|x r IH]; intros s q Hi Hs Hlf.
  - exists s. split; [apply Lemmas_C02e.steps_0|]. unfold drained. cbn [existsb]. rewrite orb_false_r.
    split; [exact Hs|]. split; [apply fr_refl|]. repeat split; reflexivity.
  - assert (Hx : (x =? ch_LF)%N = false) by (apply N.eqb_neq; intro X; apply Hlf; left; exact X).
    assert (Hlf' : ~ In ch_LF r) by (intro X; apply Hlf; right; exact X).
    pose proof (step_err s x (r ++ q) Hi Hs) as S1.
    assert (Hrd : rd_state s x = setk_char (to_upper x) s).
    { unfold Lemmas_C02e.rd_state. rewrite Hs. cbn [cstate_beq]. rewrite upper_lf, Hx. reflexivity. }
    rewrite Hrd in S1. change (k_char (k (setk_char (to_upper x) s))) with (to_upper x) in S1.
    unfold err_body in S1. rewrite upper_lf, upper_cr, Hx in S1.
    set (s1 := if (x =? ch_CR)%N then setk_cr true (setk_char (to_upper x) s) else setk_char (to_upper x) s) in *.
    assert (P1 : drained CS_ERROR s s1 (x =? ch_CR)%N).
    { unfold s1, drained, fr. destruct (x =? ch_CR)%N; Lemmas_C11.scbn;
        rewrite ?orb_true_r, ?orb_false_r; repeat split; try reflexivity; exact Hs. }
    destruct P1 as (A1 & F1 & M1 & Fl1 & C1).
    destruct (IH s1 q (idle_fr s s1 F1 Hi) A1 Hlf') as (s' & S2 & A2 & F2 & M2 & Fl2 & C2).
    exists s'. split.
    + change (length (x :: r)) with (1 + length r).
      exact (Lemmas_C02e.steps_trans D _ _ _ _ _ _ _ _ S1 S2).
    + unfold drained. split; [exact A2|]. split; [exact (fr_trans _ _ _ F1 F2)|].
      split; [congruence|]. split; [congruence|].
      rewrite C2, C1. cbn [existsb]. rewrite orb_assoc. reflexivity.
Qed.

Lemma err_lf_step : forall s q, idle s -> k_state (k s) = CS_ERROR ->
  steps 1 s (ch_LF :: q) (ack_error (set_gL (S (gL s)) (setk_char ch_LF s))) q.
Proof.
  intros s q Hi Hs. pose proof (step_err s ch_LF q Hi Hs) as S1.
  assert (Hrd : rd_state s ch_LF = set_gL (S (gL s)) (setk_char ch_LF s)).
  { unfold Lemmas_C02e.rd_state. rewrite Hs. reflexivity. }
  rewrite Hrd in S1. exact S1.
Qed.

(* what a drained line leaves behind *)
Definition drain_done (s s4 : state) : Prop :=
  k_state (k s4) = CS_IDLE /\ mem s4 = mem s /\ fault s4 = fault s /\ u s4 = u s /\
  gL s4 = S (gL s) /\ gS s4 = S (gS s) /\ gR s4 = S (gR s) /\
  k_cr (k s4) = false /\ k_hold (k s4) = false /\ k_cmd (k s4) = None.

(* from CS_ERROR: the rest of the line, its line feed, nl ERROR nl, idle again *)
Lemma err_line : forall d s rest, idle s -> k_state (k s) = CS_ERROR -> ~ In ch_LF d ->
  k_hold (k s) = false -> 6 <= length (cbuf s) ->
  let nl := nl_of (k_cr (k s) || has_cr d) in
  exists s4, osteps (length d + (1 + (10 + 2 * length nl))) s (d ++ [ch_LF] ++ rest) s4 rest
                    (nl ++ txt_ERROR ++ nl) /\ drain_done s s4.
Proof.
  intros d s rest Hi Hs Hlf Hh H6 nl.
  destruct (drain_steps d s ([ch_LF] ++ rest) Hi Hs Hlf) as (s1 & S1 & A1 & F1 & M1 & Fl1 & C1).
  pose proof F1 as (U1 & GL1 & GS1 & GR1 & HO1 & LEN1).
  assert (Hi1 : idle s1) by exact (idle_fr s s1 F1 Hi).
  pose proof (err_lf_step s1 rest Hi1 A1) as S2.
  set (s2 := set_gL (S (gL s1)) (setk_char ch_LF s1)) in *.
  destruct (ack_error_tail_g D Hmx s2 rest Hi1 ltac:(exact (eq_trans HO1 Hh))
              ltac:(change (6 <= length (cbuf s1)); lia)) as (s4 & O3 & T1 & T2 & T3 & T4 & T5 & T6 & T7 & T8 & T9 & T10).
  change (k_cr (k s2)) with (k_cr (k s1)) in O3. rewrite C1 in O3. fold nl in O3.
  exists s4. split.
  - eapply Lemmas_E2E.osteps_cast;
      [exact (Lemmas_E2E.osteps_trans D _ _ _ _ _ _ _ _ _ _ (Lemmas_E2E.osteps_of_steps D _ _ _ _ _ S1)
               (Lemmas_E2E.osteps_trans D _ _ _ _ _ _ _ _ _ _ (Lemmas_E2E.osteps_of_steps D _ _ _ _ _ S2) O3))
      | reflexivity | reflexivity].
  - unfold drain_done.
    change (mem s2) with (mem s1) in T2. change (fault s2) with (fault s1) in T3.
    change (u s2) with (u s1) in T4. change (gL s2) with (S (gL s1)) in T5.
    change (gS s2) with (gS s1) in T6. change (gR s2) with (gR s1) in T7.
    repeat split; congruence.
Qed.

(* ================= 6. whole lines ================= *)
Section Lines.
Variable s : state.
Hypothesis Hn : 0 < n.
Hypothesis HL : n <= 4 * length (cbuf s).
Hypothesis H6 : 6 <= length (cbuf s).
Hypothesis Hf : fault s = false.
Hypothesis Hst : k_state (k s) = CS_IDLE.
Hypothesis Hcr : k_cr (k s) = false.
Hypothesis Himp : k_implicit (k s) = false.
Hypothesis Hhold : k_hold (k s) = false.
Hypothesis Hidle : idle s.

Definition rejected (s4 : state) : Prop :=
  k_state (k s4) = CS_IDLE /\ mem s4 = mem s /\ fault s4 = false /\ u s4 = u s /\
  gL s4 = S (gL s) /\ gS s4 = S (gS s) /\ gR s4 = S (gR s) /\
  k_cr (k s4) = false /\ k_hold (k s4) = false /\ k_cmd (k s4) = None.

(* the collecting state reaches CS_ERROR inside an argument text that does not fit, whatever the command *)
Lemma overlong_to_error : forall c bs s3 q, idle s3 -> k_state (k s3) = CS_PARSE_COMMAND_ARGS ->
  cmd_of D ATCMD s3 = Some c -> k_length (k s3) = 0 -> 2 <= asz s3 -> fault s3 = false ->
  nth_error (cbuf s3) 0 = Some 0%N -> ~ In ch_LF bs -> asz s3 <= length (no_cr bs) ->
  exists p d s5, bs = p ++ d /\ steps (length p) s3 (bs ++ q) s5 (d ++ q) /\ fr s3 s5 /\
    k_state (k s5) = CS_ERROR /\ fault s5 = false /\ mem s5 = mem s3 /\
    k_cr (k s5) = k_cr (k s3) || has_cr p.
Proof.
  intros c bs s3 q Hi Hs Hc Hl Ha Hfl H0 Hlf Hlong.
  destruct (test_shortcut c && match no_cr bs with q0 :: _ => (q0 =? ch_QM)%N | [] => false end) eqn:ET.
  - (* '?' is the first text byte of a command with the =? form: CS_WAIT_TEST_ACK, then CS_ERROR *)
    apply andb_true_iff in ET. destruct ET as [HT HQ].
    destruct (split_text bs 0 ltac:(lia)) as (crs1 & b1 & r1 & -> & Hb1 & Hl1).
    assert (Hn1 : no_cr crs1 = []) by (destruct (no_cr crs1); [reflexivity | discriminate Hl1]).
    rewrite Lemmas_C06.no_cr_app, Hn1, (no_cr_cons_other b1 r1 Hb1) in HQ, Hlong. cbn [app length] in HQ, Hlong.
    apply N.eqb_eq in HQ. subst b1.
    destruct (split_text r1 0 ltac:(lia)) as (crs2 & b & d & -> & Hb & Hl2).
    assert (Hn2 : no_cr crs2 = []) by (destruct (no_cr crs2); [reflexivity | discriminate Hl2]).
    assert (Hbl : b <> ch_LF).
    { intro X. apply Hlf. apply in_or_app. right. right. apply in_or_app. right. left. exact X. }
    destruct (qm_steps c crs1 crs2 b s3 (d ++ q) Hi Hs Hc Hl ltac:(lia) Hfl H0 HT
                (has_cr_no_cr_nil _ Hn1) (has_cr_no_cr_nil _ Hn2) Hb Hbl)
      as (s5 & S5 & F5 & A5 & Fl5 & M5 & C5).
    exists (crs1 ++ ch_QM :: crs2 ++ [b]), d, s5.
    split; [rewrite <- !app_assoc; cbn [app]; rewrite <- !app_assoc; reflexivity|].
    split.
    { replace (length (crs1 ++ ch_QM :: crs2 ++ [b])) with (length crs1 + (1 + S (length crs2)))
        by (rewrite app_length; cbn [length]; rewrite app_length; cbn [length]; lia).
      replace ((crs1 ++ ch_QM :: crs2 ++ b :: d) ++ q) with (crs1 ++ ch_QM :: crs2 ++ b :: d ++ q)
        by (rewrite <- !app_assoc; cbn [app]; rewrite <- !app_assoc; reflexivity).
      exact S5. }
    split; [exact F5|]. split; [exact A5|]. split; [exact Fl5|]. split; [exact M5|].
    rewrite C5, existsb_app. cbn [existsb]. change (ch_QM =? ch_CR)%N with false.
    rewrite existsb_app. cbn [existsb]. rewrite Hb, !orb_false_r, !orb_false_l, orb_assoc. reflexivity.
  - (* the text is stored until byte number asz, which has no room for its NUL *)
    assert (Hq : test_shortcut c = true -> match no_cr bs with q0 :: _ => q0 <> ch_QM | [] => True end).
    { intros T. rewrite T in ET. cbn [andb] in ET. destruct (no_cr bs) as [|q0 ?]; [exact I|].
      apply N.eqb_neq. exact ET. }
    destruct (split_text bs (asz s3 - 1) ltac:(lia)) as (p & b & d & -> & Hb & Hlp).
    assert (Hlf' : ~ In ch_LF (p ++ [b])).
    { intro X. apply Hlf. apply in_app_or in X. apply in_or_app. destruct X as [X|[X|[]]];
        [left; exact X | right; left; exact X]. }
    assert (Hq' : test_shortcut c = true -> match no_cr (p ++ [b]) with q0 :: _ => q0 <> ch_QM | [] => True end).
    { replace (p ++ b :: d) with ((p ++ [b]) ++ d) in Hq by (rewrite <- app_assoc; reflexivity).
      rewrite Lemmas_C06.no_cr_app in Hq. exact (shortcut_prefix c _ _ Hq). }
    destruct (overflow_steps c p b s3 (d ++ q) Hi Hs Hc Hl ltac:(lia) Hfl H0 Hlf' Hq' Hb ltac:(lia))
      as (s5 & S5 & F5 & A5 & Fl5 & M5 & C5).
    exists (p ++ [b]), d, s5.
    split; [rewrite <- app_assoc; reflexivity|].
    split.
    { replace (length (p ++ [b])) with (S (length p)) by (rewrite app_length; cbn [length]; lia).
      replace ((p ++ b :: d) ++ q) with (p ++ b :: d ++ q) by (rewrite <- app_assoc; reflexivity).
      exact S5. }
    split; [exact F5|]. split; [exact A5|]. split; [exact Fl5|]. split; [exact M5|].
    rewrite C5, existsb_app. cbn [existsb]. rewrite Hb, !orb_false_r. reflexivity.
Qed.

(* "AT" name "=" bs LF with |bs without CRs| >= capacity, any command *)
Lemma overlong_line_osteps : forall name bs rest i c,
  name_ok name = true -> implicit_hit D s (upper name) = false ->
  resolve (upper name) (enabled D s) (cmds D) = Some i -> nth_error (cmds D) i = Some c ->
  ~ In ch_LF bs -> length (cbuf s) <= length (no_cr bs) ->
  let nl := nl_of (has_cr bs) in
  exists calls s4,
    osteps calls s ([ch_A; ch_T] ++ name ++ [ch_EQ] ++ bs ++ [ch_LF] ++ rest) s4 rest
      (nl ++ txt_ERROR ++ nl) /\ rejected s4.
Proof.
  intros name bs rest i c Hok Hh Hres Hc Hlf Hlong nl.
  (* 1. dispatch *)
  destruct (Lemmas_E2E.dispatch_eq_ex D Hmx s Hn HL Hf Hst Himp Hidle name (bs ++ [ch_LF] ++ rest) Hok Hh)
    as (c1 & s2 & H1 & (M2 & F2 & U2 & R2) & S2).
  rewrite Hres in R2. destruct R2 as (A1 & A2 & A3 & A4).
  unfold Lemmas_E2E.six in S2.
  assert (G2 : gL s2 = gL s /\ gS s2 = gS s /\ gR s2 = gR s /\ k_cr (k s2) = false /\
               k_hold (k s2) = false /\ length (cbuf s2) = length (cbuf s)).
  { repeat split; congruence. }
  destruct G2 as (gl2 & gs2 & gr2 & cr2 & ho2 & len2).
  pose proof (Lemmas_E2E.cmd_at_of_cmds D i c Hc) as Hc'.
  assert (Hi2 : idle s2) by (apply (Lemmas_C02e.idle_of_u s); assumption).
  assert (Hcmd2 : cmd_of D ATCMD s2 = Some c) by (unfold cmd_of, g_cmd; rewrite A2; exact Hc').
  (* 2. the call in CS_COMMAND_FOUND *)
  pose proof (Lemmas_E2E.found_write_step D Hmx s2 (bs ++ [ch_LF] ++ rest) Hi2 A1) as H2.
  destruct (Lemmas_C06.C06_entry D s2 c Hcmd2 A3 ltac:(unfold asz; lia))
    as (E1 & E2 & E3 & E4 & E5 & E6 & E7 & E8).
  destruct (Lemmas_E2E.found_write_pre D s2 c Hcmd2 A3) as ((u3 & gl3 & gr3 & cr3 & ho3) & gs3 & _).
  set (s3 := command_found D s2) in *.
  assert (Hi3 : idle s3) by (apply (Lemmas_C02e.idle_of_u s2); assumption).
  unfold asz in E5.
  (* 3. the bytes up to the one that decides the rejection *)
  destruct (overlong_to_error c bs s3 ([ch_LF] ++ rest) Hi3 E1 E2 E3 ltac:(unfold asz; lia)
              ltac:(congruence) E4 Hlf ltac:(unfold asz; lia))
    as (p & d & s5 & -> & H3 & (u5 & gl5 & gs5 & gr5 & ho5 & len5) & A5 & Fl5 & M5 & C5).
  assert (Hi5 : idle s5) by (apply (Lemmas_C02e.idle_of_u s3); assumption).
  assert (Hlfd : ~ In ch_LF d) by (intro X; apply Hlf; apply in_or_app; right; exact X).
  (* 4. the rest of the line, the line feed, the answer *)
  destruct (err_line d s5 rest Hi5 A5 Hlfd ltac:(congruence) ltac:(lia))
    as (s6 & O4 & T1 & T2 & T3 & T4 & T5 & T6 & T7 & T8 & T9 & T10).
  assert (Enl : nl_of (k_cr (k s5) || has_cr d) = nl).
  { unfold nl. rewrite C5, existsb_app. replace (k_cr (k s3)) with false by congruence. reflexivity. }
  rewrite Enl in O4.
  exists (c1 + (1 + (length p + (length d + (1 + (10 + 2 * length nl)))))), s6. split.
  - eapply Lemmas_E2E.osteps_cast;
      [exact (Lemmas_E2E.osteps_trans D _ _ _ _ _ _ _ _ _ _ (Lemmas_E2E.osteps_of_steps D _ _ _ _ _ H1)
               (Lemmas_E2E.osteps_trans D _ _ _ _ _ _ _ _ _ _ (Lemmas_E2E.osteps_of_steps D _ _ _ _ _ H2)
                 (Lemmas_E2E.osteps_trans D _ _ _ _ _ _ _ _ _ _ (Lemmas_E2E.osteps_of_steps D _ _ _ _ _ H3) O4)))
      | reflexivity | reflexivity].
  - unfold rejected. repeat split; congruence.
Qed.

(* "AT" name "=" bs LF with a name that selects no command: the same drain *)
Lemma unknown_write_line_osteps : forall name bs rest,
  name_ok name = true -> implicit_hit D s (upper name) = false ->
  resolve (upper name) (enabled D s) (cmds D) = None -> ~ In ch_LF bs ->
  let nl := nl_of (has_cr bs) in
  exists calls s4,
    osteps calls s ([ch_A; ch_T] ++ name ++ [ch_EQ] ++ bs ++ [ch_LF] ++ rest) s4 rest
      (nl ++ txt_ERROR ++ nl) /\ rejected s4.
Proof.
  intros name bs rest Hok Hh Hres Hlf nl.
  destruct (Lemmas_E2E.dispatch_eq_ex D Hmx s Hn HL Hf Hst Himp Hidle name (bs ++ [ch_LF] ++ rest) Hok Hh)
    as (c1 & s2 & H1 & (M2 & F2 & U2 & R2) & S2).
  rewrite Hres in R2. unfold Lemmas_C02e.NF in R2. change (ch_EQ =? ch_LF)%N with false in R2. cbv iota in R2.
  unfold Lemmas_E2E.six in S2.
  assert (G2 : gL s2 = gL s /\ gS s2 = gS s /\ gR s2 = gR s /\ k_cr (k s2) = false /\
               k_hold (k s2) = false /\ length (cbuf s2) = length (cbuf s)).
  { repeat split; congruence. }
  destruct G2 as (gl2 & gs2 & gr2 & cr2 & ho2 & len2).
  assert (Hi2 : idle s2) by (apply (Lemmas_C02e.idle_of_u s); assumption).
  destruct (err_line bs s2 rest Hi2 R2 Hlf ho2 ltac:(lia))
    as (s6 & O4 & T1 & T2 & T3 & T4 & T5 & T6 & T7 & T8 & T9 & T10).
  rewrite cr2 in O4. cbn [orb] in O4. fold nl in O4.
  exists (c1 + (length bs + (1 + (10 + 2 * length nl)))), s6. split.
  - exact (Lemmas_E2E.osteps_trans D _ _ _ _ _ _ _ _ _ _ (Lemmas_E2E.osteps_of_steps D _ _ _ _ _ H1) O4).
  - unfold rejected. repeat split; congruence.
Qed.

End Lines.
End Overlong.

(* ================= the final statements ================= *)
Theorem E2E_overlong_line_proof : forall D s name bs rest h i c,
  d_mutex D = false -> 0 < ncmds D -> ncmds D <= 4 * length (cbuf s) -> 6 <= length (cbuf s) ->
  fault s = false ->
  k_state (k s) = CS_IDLE -> k_cr (k s) = false -> k_implicit (k s) = false -> k_hold (k s) = false ->
  u_state (u s) = US_IDLE -> u_count (u s) = 0 ->
  name_ok name = true -> implicit_hit D s (upper name) = false ->
  resolve (upper name) (enabled D s) (cmds D) = Some i -> nth_error (cmds D) i = Some c ->
  ~ In ch_LF bs -> length (cbuf s) <= length (no_cr bs) ->
  let nl := nl_of (existsb (fun b => (b =? ch_CR)%N) bs) in
  let w0 := mkw s ([ch_A; ch_T] ++ name ++ [ch_EQ] ++ bs ++ [ch_LF] ++ rest) h [] in
  exists calls, let w := nsvc D calls w0 in
    k_state (k (wst w)) = CS_IDLE /\ inq (wio w) = rest /\ whs w = h /\ calls_of (wtr w) = [] /\
    mem (wst w) = mem s /\ fault (wst w) = false /\
    output_of (wtr w) = nl ++ txt_ERROR ++ nl /\
    gL (wst w) = S (gL s) /\ gS (wst w) = S (gS s) /\ gR (wst w) = S (gR s) /\
    k_cr (k (wst w)) = false.
Proof.
  intros D s name bs rest h i c Hmx Hn HL H6 Hf Hst Hcr Himp Hhold Hu1 Hu2 Hok Hh Hres Hc Hlf Hlong nl w0.
  destruct (overlong_line_osteps D Hmx s Hn HL H6 Hf Hst Hcr Himp Hhold (conj Hu1 Hu2)
              name bs rest i c Hok Hh Hres Hc Hlf Hlong)
    as (calls & s4 & O & (L1 & L2 & L3 & L4 & L5 & L6 & L7 & L8 & _)).
  exists calls. intros w.
  destruct (Lemmas_E2E.osteps_world D calls s _ s4 rest _ h O) as (E1 & E2 & E3 & E4 & E5).
  fold w0 in E1, E2, E3, E4, E5. fold w in E1, E2, E3, E4, E5. rewrite E1.
  repeat (split; [assumption|]). assumption.
Qed.

Theorem E2E_unknown_write_line_proof : forall D s name bs rest h,
  d_mutex D = false -> 0 < ncmds D -> ncmds D <= 4 * length (cbuf s) -> 6 <= length (cbuf s) ->
  fault s = false ->
  k_state (k s) = CS_IDLE -> k_cr (k s) = false -> k_implicit (k s) = false -> k_hold (k s) = false ->
  u_state (u s) = US_IDLE -> u_count (u s) = 0 ->
  name_ok name = true -> implicit_hit D s (upper name) = false ->
  resolve (upper name) (enabled D s) (cmds D) = None ->
  ~ In ch_LF bs ->
  let nl := nl_of (existsb (fun b => (b =? ch_CR)%N) bs) in
  let w0 := mkw s ([ch_A; ch_T] ++ name ++ [ch_EQ] ++ bs ++ [ch_LF] ++ rest) h [] in
  exists calls, let w := nsvc D calls w0 in
    k_state (k (wst w)) = CS_IDLE /\ inq (wio w) = rest /\ whs w = h /\ calls_of (wtr w) = [] /\
    mem (wst w) = mem s /\ fault (wst w) = false /\
    output_of (wtr w) = nl ++ txt_ERROR ++ nl /\
    gL (wst w) = S (gL s) /\ gS (wst w) = S (gS s) /\ gR (wst w) = S (gR s) /\
    k_cr (k (wst w)) = false.
Proof.
  intros D s name bs rest h Hmx Hn HL H6 Hf Hst Hcr Himp Hhold Hu1 Hu2 Hok Hh Hres Hlf nl w0.
  destruct (unknown_write_line_osteps D Hmx s Hn HL H6 Hf Hst Hcr Himp Hhold (conj Hu1 Hu2)
              name bs rest Hok Hh Hres Hlf)
    as (calls & s4 & O & (L1 & L2 & L3 & L4 & L5 & L6 & L7 & L8 & _)).
  exists calls. intros w.
  destruct (Lemmas_E2E.osteps_world D calls s _ s4 rest _ h O) as (E1 & E2 & E3 & E4 & E5).
  fold w0 in E1, E2, E3, E4, E5. fold w in E1, E2, E3, E4, E5. rewrite E1.
  repeat (split; [assumption|]). assumption.
Qed.
End P2.

(* ====================================================================================== *)
(* ================= 7. the WRITE line as a terminal sends it (uses P2.feed_steps) ================= *)
Section WriteT.
Variable D : desc.
Hypothesis Hmx : d_mutex D = false.
Local Notation n := (ncmds D).
Local Notation wst := (Fsm.st sio smu shs).
Local Notation wio := (Fsm.io sio smu shs).
Local Notation whs := (Fsm.hs sio smu shs).
Local Notation wtr := (Fsm.tr sio smu shs).
Local Notation idle := Lemmas_C02e.idle.
Local Notation osteps := (Lemmas_E2E.osteps D).

Lemma in_no_cr : forall x bs, x <> ch_CR -> In x bs -> In x (no_cr bs).
Proof.
  intros x bs Hx Hin. unfold no_cr. apply filter_In. split; [exact Hin|].
  apply negb_true_iff. apply N.eqb_neq. exact Hx.
Qed.

Variable s : state.
Hypothesis Hn : 0 < n.
Hypothesis HL : n <= 4 * length (cbuf s).
Hypothesis H6 : 6 <= length (cbuf s).
Hypothesis Hf : fault s = false.
Hypothesis Hst : k_state (k s) = CS_IDLE.
Hypothesis Hcr : k_cr (k s) = false.
Hypothesis Himp : k_implicit (k s) = false.
Hypothesis Hhold : k_hold (k s) = false.
Hypothesis Hidle : idle s.

(* AT name = bs LF, typed as a terminal sends it; the argument text is bs without its carriage returns *)
Lemma write_line_osteps_g : forall a m0 t name' bs rest i c m,
  to_upper a = ch_A -> to_upper t = ch_T ->
  name_ok (no_cr name') = true -> implicit_hit D s (upper (no_cr name')) = false ->
  resolve (upper (no_cr name')) (enabled D s) (cmds D) = Some i -> nth_error (cmds D) i = Some c ->
  Lemmas_C07e.rt_cmd_ok m c -> Lemmas_C07e.read_args_text m c = Some (no_cr bs) ->
  Lemmas_C07e.same_shape m (mem s) -> length (no_cr bs) < length (cbuf s) ->
  let nl := nl_of (crflag m0 name' || has_cr bs) in
  exists calls s4,
    osteps calls s (tline a m0 t name' ++ [ch_EQ] ++ bs ++ [ch_LF] ++ rest) s4 rest (nl ++ txt_OK ++ nl) /\
    k_state (k s4) = CS_IDLE /\ fault s4 = false /\ u s4 = u s /\
    gL s4 = S (gL s) /\ gS s4 = S (gS s) /\ gR s4 = S (gR s) /\
    k_cr (k s4) = false /\ k_hold (k s4) = false /\
    (forall v d0, In v (c_vars c) -> nth_error m (v_slot v) = Some d0 ->
       exists d1, nth_error (mem s4) (v_slot v) = Some d1 /\ Lemmas_C07.same_value v d1 d0) /\
    (forall sl, ~ In sl (map v_slot (c_vars c)) -> nth_error (mem s4) sl = nth_error (mem s) sl).
Proof.
  intros a m0 t name' bs rest i c m Ha Ht Hok Hh Hres Hc Hrt Harg Hsh Hfit nl.
  set (args := no_cr bs) in *.
  (* 1. dispatch *)
  destruct (dispatch_eq_g D Hmx s Hn HL Hf Hst Himp Hidle a m0 t name' (bs ++ [ch_LF] ++ rest) Ha Ht Hok Hh)
    as (c1 & _ & H1 & (M2 & F2 & U2 & R2) & S2).
  cbv zeta in H1, M2, F2, U2, R2, S2. rewrite Hcr in H1, M2, F2, U2, R2, S2. cbn [orb] in H1, M2, F2, U2, R2, S2.
  set (s2 := found_state D s (upper (no_cr name')) ch_EQ T_WRITE (crflag m0 name') (gL s)) in *.
  rewrite Hres in R2. destruct R2 as (A1 & A2 & A3 & A4).
  unfold Lemmas_E2E.six in S2.
  assert (G2 : gL s2 = gL s /\ gS s2 = gS s /\ gR s2 = gR s /\ k_cr (k s2) = crflag m0 name' /\
               k_hold (k s2) = false /\ length (cbuf s2) = length (cbuf s)).
  { repeat split; congruence. }
  destruct G2 as (gl2 & gs2 & gr2 & cr2 & ho2 & len2).
  pose proof (Lemmas_E2E.cmd_at_of_cmds D i c Hc) as Hc'.
  assert (Hi2 : idle s2) by (apply (Lemmas_C02e.idle_of_u s); assumption).
  assert (Hcmd2 : cmd_of D ATCMD s2 = Some c) by (unfold cmd_of, g_cmd; rewrite A2; exact Hc').
  pose proof Hrt as (Hne & Hokv & Hnd & _ & Hw & Hot & _).
  destruct (Lemmas_E2E.args_no_lf D m c args Hrt Harg) as (Hnlf & Hq).
  assert (Hnlf' : ~ In ch_LF bs).
  { intro X. apply Hnlf. apply in_no_cr; [discriminate | exact X]. }
  (* 2. the call in CS_COMMAND_FOUND *)
  pose proof (Lemmas_E2E.found_write_step D Hmx s2 (bs ++ [ch_LF] ++ rest) Hi2 A1) as H2.
  destruct (Lemmas_C06.C06_entry D s2 c Hcmd2 A3 ltac:(unfold asz; lia)) as (E1 & E2 & E3 & E4 & E5 & E6 & E7 & E8).
  destruct (Lemmas_E2E.found_write_pre D s2 c Hcmd2 A3) as (K3 & gs3 & _).
  set (s3 := command_found D s2) in *.
  assert (Hi3 : idle s3) by (apply (Lemmas_C02e.idle_of_u s2); [apply K3 | exact Hi2]).
  unfold asz in E5.
  (* 3. the argument bytes, carriage returns included *)
  destruct (P2.feed_steps D Hmx c bs s3 ([ch_LF] ++ rest) Hi3 E1 E2 E3 ltac:(unfold asz; lia) ltac:(congruence)
              E4 Hnlf' (fun _ => Hq) ltac:(unfold asz; fold args; lia)) as (H3 & K5).
  pose proof (Lemmas_C06.C06_collect D s3 c bs E1 E2 E3 ltac:(unfold asz; lia) ltac:(congruence) E4 Hnlf'
                (fun _ => Hq)) as HC.
  cbv zeta in HC. fold args in HC.
  destruct HC as (F5 & M5 & C5 & HC).
  replace (length args <? asz s3) with true in HC by (symmetry; apply Nat.ltb_lt; unfold asz; lia).
  destruct HC as (S5 & _ & B5 & L5 & CR5).
  set (s5 := args_feed D s3 bs) in *.
  destruct K5 as (u5 & gl5 & gs5 & gr5 & ho5 & _).
  assert (Hi5 : idle s5) by (apply (Lemmas_C02e.idle_of_u s3); [exact u5 | exact Hi3]).
  (* 4. the line feed *)
  destruct (c_vars c) as [|v vs] eqn:Hvs; [congruence|].
  assert (Hrw : v_access v = RW).
  { inversion Hokv as [|? ? (A & _) _]. exact A. }
  pose proof (Lemmas_E2E.pca_lf_step D Hmx s5 rest c v vs Hi5 S5 C5 Hot Hvs Hrw) as H4.
  set (s6 := Lemmas_E2E.pwa_entry s5) in *.
  (* 5. the variable parser *)
  unfold Lemmas_C07e.read_args_text in Harg.
  change (fun v : var => match nth_error m (v_slot v) with
                         | Some d => var_text v d | None => None end)
    with (Lemmas_C07e.slot_text m) in Harg.
  rewrite Hvs in Harg.
  destruct (all_some (map (Lemmas_C07e.slot_text m) (v :: vs))) as [txts|] eqn:Hall; [|discriminate].
  assert (Eargs : args = join_comma txts) by (injection Harg as <-; reflexivity).
  clearbody args. subst args. clear Harg.
  apply Lemmas_C07e.firstn_app_nul in B5.
  set (tl := skipn (S (length (join_comma txts))) (cbuf s5)) in B5.
  assert (HW : Lemmas_C07e.WInv D c m (mem s6) (cbuf s6) s6 [] (length (@nil N))).
  { unfold Lemmas_C07e.WInv, Lemmas_C07e.vals_ok, Lemmas_C07e.frame_ok.
    split; [exact F5|]. split; [reflexivity|]. split; [exact C5|].
    split; [reflexivity|]. split; [reflexivity|]. split; [reflexivity|]. split; [reflexivity|].
    split; [change (mem s6) with (mem s5); rewrite M5, E7, M2; exact Hsh|].
    split; [intros v' d0 [] | intros sl _; reflexivity]. }
  assert (Hi6 : idle s6) by exact Hi5.
  destruct (Lemmas_E2E.wloop_steps D Hmx c m (mem s6) (cbuf s6) rest Hw ltac:(rewrite Hvs; exact Hnd)
              ltac:(change (cbuf s6) with (cbuf s5); lia)
              vs v [] s6 [] txts tl Hvs Hokv HW Hi6 Hall B5)
    as (s7 & H5 & (D1 & D2 & D3 & D4 & D5 & D6) & (K7 & FL7 & _) & I7).
  destruct (FL7 D2) as (P1 & P2' & P3 & _ & P5). specialize (P5 D3).
  rewrite Hvs in D5, D6.
  destruct K3 as (u3 & gl3 & gr3 & cr3 & ho3).
  destruct K7 as (u7 & gl7 & gr7 & cr7 & ho7).
  change (u s6) with (u s5) in u7. change (gL s6) with (S (gL s5)) in gl7. change (gR s6) with (gR s5) in gr7.
  change (k_cr (k s6)) with (k_cr (k s5)) in cr7. change (k_hold (k s6)) with (k_hold (k s5)) in ho7.
  change (gS s6) with (gS s5) in P5.
  assert (Hi7 : idle s7) by (apply (Lemmas_C02e.idle_of_u s5); assumption).
  assert (cr7' : k_cr (k s7) = (crflag m0 name' || has_cr bs)).
  { rewrite cr7, CR5, E8, cr2. reflexivity. }
  (* 6. OK, reset *)
  destruct (result_tail_g D Hmx s7 rest txt_OK Hi7 (conj D2 (conj P1 (conj P2' P3))) D3
              ltac:(congruence) I7 D4)
    as (s8 & O6 & R1 & R2 & R3 & R4 & R5 & R6 & R7 & R8 & R9 & _).
  cbv zeta in O6. rewrite cr7' in O6. fold nl in O6.
  exists (c1 + (1 + (length bs + (1 + (length (v :: vs) + (5 + 2 * length nl + length txt_OK)))))), s8.
  split.
  - rewrite tline_app. rewrite tline_app in H1.
    eapply Lemmas_E2E.osteps_cast;
      [exact (Lemmas_E2E.osteps_trans D _ _ _ _ _ _ _ _ _ _ (Lemmas_E2E.osteps_of_steps D _ _ _ _ _ H1)
               (Lemmas_E2E.osteps_trans D _ _ _ _ _ _ _ _ _ _ (Lemmas_E2E.osteps_of_steps D _ _ _ _ _ H2)
                 (Lemmas_E2E.osteps_trans D _ _ _ _ _ _ _ _ _ _ (Lemmas_E2E.osteps_of_steps D _ _ _ _ _ H3)
                   (Lemmas_E2E.osteps_trans D _ _ _ _ _ _ _ _ _ _ (Lemmas_E2E.osteps_of_steps D _ _ _ _ _ H4)
                     (Lemmas_E2E.osteps_trans D _ _ _ _ _ _ _ _ _ _ (Lemmas_E2E.osteps_of_steps D _ _ _ _ _ H5) O6)))))
      | reflexivity | reflexivity].
  - split; [exact R1|]. split; [congruence|]. split; [congruence|].
    split; [congruence|]. split; [congruence|]. split; [congruence|].
    split; [exact R8|]. split; [exact R9|]. split.
    + intros v' d0 Hin Hn0. rewrite R2. exact (D5 v' d0 Hin Hn0).
    + intros sl Hsl. rewrite R2, (D6 sl Hsl). change (mem s6) with (mem s5).
      rewrite M5, E7, M2. reflexivity.
Qed.
End WriteT.

Theorem E2E_write_line_t_proof : forall D s a m0 t name' bs rest h i c m,
  d_mutex D = false -> 0 < ncmds D -> ncmds D <= 4 * length (cbuf s) -> 6 <= length (cbuf s) ->
  fault s = false ->
  k_state (k s) = CS_IDLE -> k_cr (k s) = false -> k_implicit (k s) = false -> k_hold (k s) = false ->
  u_state (u s) = US_IDLE -> u_count (u s) = 0 ->
  to_upper a = ch_A -> to_upper t = ch_T ->
  name_ok (no_cr name') = true -> implicit_hit D s (upper (no_cr name')) = false ->
  resolve (upper (no_cr name')) (enabled D s) (cmds D) = Some i -> nth_error (cmds D) i = Some c ->
  Lemmas_C07e.rt_cmd_ok m c -> Lemmas_C07e.read_args_text m c = Some (no_cr bs) ->
  Lemmas_C07e.same_shape m (mem s) -> length (no_cr bs) < length (cbuf s) ->
  let nl := nl_of ((0 <? m0) || existsb (fun c => (c =? ch_CR)%N) name' || existsb (fun c => (c =? ch_CR)%N) bs) in
  let w0 := mkw s ([a] ++ repeat ch_CR m0 ++ [t] ++ name' ++ [ch_EQ] ++ bs ++ [ch_LF] ++ rest) h [] in
  exists calls, let w := nsvc D calls w0 in
    k_state (k (Fsm.st sio smu shs w)) = CS_IDLE /\ inq (Fsm.io sio smu shs w) = rest /\
    Fsm.hs sio smu shs w = h /\ calls_of (Fsm.tr sio smu shs w) = [] /\
    fault (Fsm.st sio smu shs w) = false /\
    output_of (Fsm.tr sio smu shs w) = nl ++ txt_OK ++ nl /\
    (forall v d0, In v (c_vars c) -> nth_error m (v_slot v) = Some d0 ->
       exists d1, nth_error (mem (Fsm.st sio smu shs w)) (v_slot v) = Some d1 /\ Lemmas_C07.same_value v d1 d0) /\
    (forall sl, ~ In sl (map v_slot (c_vars c)) ->
       nth_error (mem (Fsm.st sio smu shs w)) sl = nth_error (mem s) sl) /\
    gL (Fsm.st sio smu shs w) = S (gL s) /\ gS (Fsm.st sio smu shs w) = S (gS s) /\
    gR (Fsm.st sio smu shs w) = S (gR s) /\ k_cr (k (Fsm.st sio smu shs w)) = false.
Proof.
  intros D s a m0 t name' bs rest h i c m Hmx Hn HL H6 Hf Hst Hcr Himp Hhold Hu1 Hu2 Ha Ht Hok Hh Hres Hc Hrt
         Harg Hsh Hfit nl w0.
  destruct (write_line_osteps_g D Hmx s Hn HL H6 Hf Hst Hcr Himp Hhold (conj Hu1 Hu2)
              a m0 t name' bs rest i c m Ha Ht Hok Hh Hres Hc Hrt Harg Hsh Hfit)
    as (calls & s4 & O & L1 & L2 & _ & L4 & L5 & L6 & L7 & _ & L9 & L10).
  exists calls. intros w. rewrite tline_app in O.
  destruct (Lemmas_E2E.osteps_world D calls s _ s4 rest _ h O) as (E1 & E2 & E3 & E4 & E5).
  fold w0 in E1, E2, E3, E4, E5. fold w in E1, E2, E3, E4, E5. rewrite E1.
  repeat (split; [assumption|]). assumption.
Qed.

(* ====================================================================================== *)
Module P3.
(* Part P3 — property C10.P1, end to end: the BYTES of a whole READ line  AT<name>? LF  served by a read
   handler, on the scripted always-ready environment of Script.v (event machine idle with an empty queue,
   no mutex).  The handler's script answers rs ++ [rn]: every result of rs continues (DATA_NEXT emits the
   buffer as one unit and re-formats, NEXT only re-formats), rn ends (any code but HOLD); no result makes
   inner API calls; stores into variables (r_pokes) and edits of the response buffer (r_edit) are allowed.
   Structure: (1) the handler state advanced (drop_script) and the variable stores as a function of the
   memory (pokes_mem); (2) the relation hsteps = osteps of Lemmas_E2E with handler calls and handler-state
   change; (3) the service call in CS_READ_LOOP; (4) one unit with k_cmd kept; (5) re-formatting `name=`;
   (6) one continuing call, the ending call, the induction over rs; (7) the whole line. *)
Import ListNotations.
Local Open Scope nat_scope.

Local Notation wst := (Fsm.st sio smu shs).
Local Notation wio := (Fsm.io sio smu shs).
Local Notation whs := (Fsm.hs sio smu shs).
Local Notation wtr := (Fsm.tr sio smu shs).
Local Notation idle := Lemmas_C02e.idle.
Local Notation script_of := Lemmas_C10.script_of.
Local Notation units_of := Lemmas_C10.units_of.
Local Notation unit_of := Lemmas_C10.unit_of.
Local Notation edit_text := Lemmas_C10.edit_text.
Local Notation run_flush_c := Lemmas_C11.run_flush_c.
Local Notation flush_step_c := Lemmas_C11.flush_step_c.

(* ================= 1. handler scripts advanced; variable stores ================= *)
(* the scripts h after n results of `key` have been delivered *)
Fixpoint drop_script (h : shs) (key : hkey) (n : nat) : shs :=
  match h with
  | [] => []
  | (k0, sc) :: r =>
    if key_eqb k0 key then (k0, skipn n sc) :: r else (k0, sc) :: drop_script r key n
  end.

Lemma key_eqb_eq : forall a b, key_eqb a b = true <-> a = b.
Proof.
  intros [[a1 a2] a3] [[b1 b2] b3]. unfold key_eqb. rewrite !andb_true_iff, !Nat.eqb_eq.
  split; [intros [[-> ->] ->]; reflexivity | intros E; injection E as -> -> ->; auto].
Qed.

Lemma skipn_skipn_gen : forall (A : Type) (a b : nat) (l : list A), skipn b (skipn a l) = skipn (a + b) l.
Proof.
  intros A. induction a as [|a IH]; intros b l; [reflexivity|].
  destruct l as [|x l]; [rewrite !skipn_nil; reflexivity | cbn [skipn Nat.add]; apply IH].
Qed.

Lemma s_call_drop : forall h q x sc, script_of h (key_of q) = x :: sc ->
  s_call h q = (drop_script h (key_of q) 1, x).
Proof.
  induction h as [|[k0 s0] r IH]; intros q x sc H; cbn [Lemmas_C10.script_of] in H; [discriminate|].
  cbn [s_call drop_script]. destruct (key_eqb k0 (key_of q)) eqn:E.
  - subst s0. reflexivity.
  - rewrite (IH q x sc H). reflexivity.
Qed.

Lemma drop_script_0 : forall h key, drop_script h key 0 = h.
Proof.
  induction h as [|[k0 s0] r IH]; intros key; [reflexivity|]. cbn [drop_script].
  destruct (key_eqb k0 key); [reflexivity | rewrite IH; reflexivity].
Qed.

Lemma drop_script_add : forall h key a b,
  drop_script (drop_script h key a) key b = drop_script h key (a + b).
Proof.
  induction h as [|[k0 s0] r IH]; intros key a b; [reflexivity|]. cbn [drop_script].
  destruct (key_eqb k0 key) eqn:E; cbn [drop_script]; rewrite E.
  - rewrite skipn_skipn_gen. reflexivity.
  - rewrite IH. reflexivity.
Qed.

Lemma script_of_drop : forall h key key' n,
  script_of (drop_script h key n) key' =
  if key_eqb key key' then skipn n (script_of h key') else script_of h key'.
Proof.
  induction h as [|[k0 s0] r IH]; intros key key' n.
  - cbn [drop_script Lemmas_C10.script_of]. rewrite skipn_nil. destruct (key_eqb key key'); reflexivity.
  - cbn [drop_script]. destruct (key_eqb k0 key) eqn:E.
    + apply key_eqb_eq in E. subst k0. cbn [Lemmas_C10.script_of].
      destruct (key_eqb key key'); reflexivity.
    + cbn [Lemmas_C10.script_of]. destruct (key_eqb k0 key') eqn:E'.
      * apply key_eqb_eq in E'. subst k0.
        destruct (key_eqb key key') eqn:E2; [|reflexivity].
        apply key_eqb_eq in E2. subst key.
        assert (X : key_eqb key' key' = true) by (apply key_eqb_eq; reflexivity). congruence.
      * apply IH.
Qed.

(* one store of a handler into variable storage, on the memory alone (Fsm.apply_poke) *)
Definition poke_mem (m : list (list N)) (p : nat * list N) : list (list N) :=
  match nth_error m (fst p) with
  | None => m
  | Some data => match store_prefix data (snd p) with None => m | Some d => upd m (fst p) d end
  end.
Definition pokes_mem (ps : list (nat * list N)) (m : list (list N)) : list (list N) :=
  fold_left poke_mem ps m.

Lemma set_mem_id : forall s, set_mem (mem s) s = s.
Proof. intros s. destruct s; reflexivity. Qed.

Lemma apply_poke_mem : forall s p, apply_poke s p = set_mem (poke_mem (mem s) p) s.
Proof.
  intros s p. unfold apply_poke, poke_mem. destruct (nth_error (mem s) (fst p)) as [data|].
  - destruct (store_prefix data (snd p)); [reflexivity | symmetry; apply set_mem_id].
  - symmetry. apply set_mem_id.
Qed.

Lemma pokes_state : forall ps s, fold_left apply_poke ps s = set_mem (pokes_mem ps (mem s)) s.
Proof.
  induction ps as [|p ps IH]; intros s; cbn [fold_left pokes_mem].
  - symmetry. apply set_mem_id.
  - rewrite IH, apply_poke_mem. reflexivity.
Qed.

Lemma pokes_mem_app : forall a b m, pokes_mem (a ++ b) m = pokes_mem b (pokes_mem a m).
Proof. intros a b m. unfold pokes_mem. apply fold_left_app. Qed.

(* ================= small list facts ================= *)
Lemma text_of_len : forall l : list N, length (text_of l) <= length l.
Proof.
  induction l as [|x l IH]; [apply le_n|]. cbn [text_of]. destruct (x =? 0)%N; cbn [length]; lia.
Qed.

Lemma edit_text_len : forall bsz old e, length old < bsz -> length (edit_text bsz old e) < bsz.
Proof.
  intros bsz old e H. unfold Lemmas_C10.edit_text. destruct e as [t|]; [|exact H].
  destruct (length t <? bsz) eqn:E; [|exact H]. apply Nat.ltb_lt in E.
  pose proof (text_of_len t). lia.
Qed.

Definition wrap (u : list N) : list N := [ch_LF] ++ u ++ [ch_LF].

Lemma wrap_app : forall a b, concat (map wrap (a ++ b)) = concat (map wrap a) ++ concat (map wrap b).
Proof. intros a b. rewrite map_app, concat_app. reflexivity. Qed.

Lemma units_of_app : forall bsz hdr a b,
  units_of bsz hdr hdr (a ++ b) = units_of bsz hdr hdr a ++ units_of bsz hdr hdr b.
Proof.
  intros bsz hdr. induction a as [|r a IH]; intros b; [reflexivity|].
  cbn [app Lemmas_C10.units_of]. rewrite IH, app_assoc. reflexivity.
Qed.

Lemma combine_repeat_map : forall (A B C : Type) (q : A) (f : B -> C) (l : list B),
  combine (repeat q (length l)) (map f l) = map (fun r => (q, f r)) l.
Proof. intros A B C q f. induction l as [|x l IH]; [reflexivity|]. cbn [length repeat map combine]. rewrite IH. reflexivity. Qed.

(* ================= the table of a READ handler's return code on the command machine ================= *)
Definition rdisp (D : desc) (code : Z) (s : state) : state :=
  if (code =? RC_OK)%Z then end_with_ok ATCMD s
  else if (code =? RC_DATA_OK)%Z then start_flush_after ATCMD CS_AFTER_OK US_AFTER_OK s
  else if (code =? RC_DATA_NEXT)%Z then start_flush_after ATCMD CS_AFTER_FMT_READ US_AFTER_FMT_READ s
  else if (code =? RC_NEXT)%Z then start_processing_format_read_args D ATCMD s
  else if (code =? RC_HOLD)%Z then enable_hold_state s
  else if (code =? RC_HOLD_EXIT_OK)%Z then end_with_ok ATCMD (fst (hold_exit s ST_OK))
  else if (code =? RC_HOLD_EXIT_ERROR)%Z then end_with_error ATCMD (fst (hold_exit s ST_ERROR))
  else if (code =? RC_PRINT_CMD_LIST_OK)%Z && negb true then start_print_cmd_list D s
  else end_with_error ATCMD s.

Lemma rdisp_table : forall D code s,
  rdisp D code s =
  match spec_action K_READ ATCMD code with
  | A_OK => ack_ok s
  | A_EMIT_OK => start_flush_c CS_AFTER_OK s
  | A_EMIT_AGAIN => start_flush_c CS_AFTER_FMT_READ s
  | A_REFORMAT_AGAIN => start_processing_format_read_args D ATCMD s
  | A_HOLD => enable_hold_state s
  | A_RELEASE_OK => ack_ok (fst (hold_exit s ST_OK))
  | A_RELEASE_ERROR => ack_error (fst (hold_exit s ST_ERROR))
  | _ => ack_error s
  end.
Proof.
  intros D code s. unfold rdisp, spec_action.
  destruct (code =? RC_OK)%Z; [reflexivity|].
  destruct (code =? RC_DATA_OK)%Z; [reflexivity|].
  destruct (code =? RC_DATA_NEXT)%Z; [reflexivity|].
  destruct (code =? RC_NEXT)%Z; [reflexivity|].
  destruct (code =? RC_HOLD)%Z; [reflexivity|].
  destruct (code =? RC_HOLD_EXIT_OK)%Z; [reflexivity|].
  destruct (code =? RC_HOLD_EXIT_ERROR)%Z; [reflexivity|].
  rewrite andb_false_r. destruct (code =? RC_PRINT_CMD_LIST_OK)%Z; reflexivity.
Qed.

(* the result text after the units *)
Definition result_text (code : Z) : list N :=
  match spec_action K_READ ATCMD code with
  | A_OK | A_EMIT_OK | A_RELEASE_OK => txt_OK
  | _ => txt_ERROR
  end.

(* the request of the read loop in state s *)
Definition rq (i : nat) (s : state) : hreq :=
  HRead ATCMD i (firstn (S (k_position (k s))) (cbuf s)) (k_position (k s)) (length (cbuf s)).

Section HandlerLine.
Variable D : desc.
Hypothesis Hmx : d_mutex D = false.
Local Notation n := (ncmds D).
Local Notation cmdsvc := (cmd_service D sio smu shs s_read s_write s_lock s_unlock s_call).
Local Notation steps := (Lemmas_C02e.steps D).
Local Notation osteps := (Lemmas_E2E.osteps D).
Local Notation keep := Lemmas_E2E.keep.
Local Notation fresh := Lemmas_E2E.fresh.

(* ================= 2. service calls with handler calls ================= *)
Definition hsteps (m : nat) (s : state) (q : list N) (h : shs) (s' : state) (q' : list N) (h' : shs)
    (calls : list (hreq * Z)) (out : list N) : Prop :=
  forall t, exists t', GlueDefs.calls_of t' = calls /\ GlueDefs.output_of t' = out /\
    nsvc D m (mkw s q h t) = mkw s' q' h' (t' ++ t).

Lemma hsteps_trans : forall a b s q h s1 q1 h1 s2 q2 h2 c1 c2 o1 o2,
  hsteps a s q h s1 q1 h1 c1 o1 -> hsteps b s1 q1 h1 s2 q2 h2 c2 o2 ->
  hsteps (a + b) s q h s2 q2 h2 (c1 ++ c2) (o1 ++ o2).
Proof.
  intros a b s q h s1 q1 h1 s2 q2 h2 c1 c2 o1 o2 H1 H2 t.
  destruct (H1 t) as (t1 & C1 & O1 & E1). destruct (H2 (t1 ++ t)) as (t2 & C2 & O2 & E2).
  exists (t2 ++ t1). split; [rewrite Lemmas_E2E.calls_of_app, C1, C2; reflexivity|].
  split; [rewrite Lemmas_E2E.output_of_app, O1, O2; reflexivity|].
  unfold nsvc in *. rewrite Lemmas_C02e.iter_add, E1, E2, app_assoc. reflexivity.
Qed.

Lemma hsteps_of_osteps : forall m s q s' q' out h, osteps m s q s' q' out ->
  hsteps m s q h s' q' h [] out.
Proof. intros m s q s' q' out h H t. exact (H h t). Qed.

Lemma hsteps_cast : forall m m' s q h s' q' h' c c' o o', hsteps m s q h s' q' h' c o ->
  m = m' -> c = c' -> o = o' -> hsteps m' s q h s' q' h' c' o'.
Proof. intros; subst; assumption. Qed.

Lemma hsteps_world : forall m s q h s' q' h' c o, hsteps m s q h s' q' h' c o ->
  let w := nsvc D m (mkw s q h []) in
  wst w = s' /\ inq (wio w) = q' /\ whs w = h' /\ GlueDefs.calls_of (wtr w) = c /\ GlueDefs.output_of (wtr w) = o.
Proof.
  intros m s q h s' q' h' c o H w. destruct (H []) as (t' & A & B & E). unfold w. rewrite E.
  rewrite app_nil_r. repeat split; assumption.
Qed.

(* ================= 3. the service call in CS_READ_LOOP ================= *)
Lemma read_call : forall s q h t i r h', idle s -> k_state (k s) = CS_READ_LOOP -> k_cmd (k s) = Some i ->
  s_call h (rq i s) = (h', r) -> r_calls r = [] ->
  svc D (mkw s q h t) =
  mkw (rdisp D (r_code r) (apply_edit ATCMD (r_edit r) (fold_left apply_poke (r_pokes r) s))) q h'
      (ERet OService ST_BUSY :: ECall (rq i s) (r_code r) :: t).
Proof.
  intros s q h t i r h' Hi Hs Hk Hcall Hc.
  assert (E : cmdsvc (mkw s q h t) =
              (mkw (rdisp D (r_code r) (apply_edit ATCMD (r_edit r) (fold_left apply_poke (r_pokes r) s))) q h'
                   (ECall (rq i s) (r_code r) :: t), ST_BUSY)).
  { unfold cmd_service. cbn [Fsm.st mkw]. rewrite Hs. unfold process_rt_loop. cbn [Fsm.st mkw g_cmd].
    rewrite Hk. cbv zeta. unfold call_h. cbn [Fsm.hs mkw].
    match goal with |- context [s_call h ?x] => change x with (rq i s) end.
    rewrite Hcall, Hc. reflexivity. }
  rewrite (Lemmas_C02e.svc_busy D Hmx (mkw s q h t) _ Hi E). reflexivity.
Qed.

Lemma hstep_call : forall s q h i r h', idle s -> k_state (k s) = CS_READ_LOOP -> k_cmd (k s) = Some i ->
  s_call h (rq i s) = (h', r) -> r_calls r = [] ->
  hsteps 1 s q h (rdisp D (r_code r) (apply_edit ATCMD (r_edit r) (fold_left apply_poke (r_pokes r) s))) q h'
         [(rq i s, r_code r)] [].
Proof.
  intros s q h i r h' Hi Hs Hk Hcall Hc t.
  exists [ERet OService ST_BUSY; ECall (rq i s) (r_code r)].
  split; [reflexivity|]. split; [reflexivity|].
  unfold nsvc. simpl iter. rewrite (read_call s q h t i r h' Hi Hs Hk Hcall Hc). reflexivity.
Qed.

(* ================= 4. one unit, with the command register kept ================= *)
Lemma flush_step_cmd : forall s, k_cmd (k (fst (flush_step_c s))) = k_cmd (k s).
Proof.
  intros s. unfold Lemmas_C11.flush_step_c, Lemmas_C11.phase_switch_c. Lemmas_E2E.destr_all; reflexivity.
Qed.

Lemma run_flush_cmd : forall m s, k_cmd (k (fst (run_flush_c m s))) = k_cmd (k s).
Proof.
  induction m as [|m IH]; intros s; [reflexivity|].
  rewrite Lemmas_E2E.run_flush_S. cbn [fst]. rewrite IH. apply flush_step_cmd.
Qed.

Lemma emit_unit_cmd : forall s q txt, idle s -> fresh s -> k_cr (k s) = false ->
  In 0%N (cbuf s) -> text_of (cbuf s) = txt ->
  exists s3, osteps (6 + length txt) s q s3 q ([ch_LF] ++ txt ++ [ch_LF]) /\ keep s s3 /\
    k_state (k s3) = k_wafter (k s) /\
    gR s3 = (if cstate_beq (k_wafter (k s)) CS_AFTER_RESET then S (gR s) else gR s) /\
    k_cmd (k s3) = k_cmd (k s).
Proof.
  intros s q txt Hi (Hs & Hp & Hw & Hb) Hcr H0 HT.
  assert (H1 : osteps 1 s q (setk_state CS_FLUSH s) q []).
  { apply (Lemmas_E2E.ostep_pure D Hmx s q (setk_state CS_FLUSH) Hi). intros h t. unfold cmd_service.
    cbn [Fsm.st mkw]. rewrite Hs. unfold busy, upd_st, process_io_write_wait. cbn [Fsm.st mkw].
    destruct Hi as [U _]. rewrite U. reflexivity. }
  set (s0 := setk_state CS_FLUSH s) in *.
  assert (Hi0 : idle s0) by exact Hi.
  assert (Hcr0 : k_cr (k s0) = false) by exact Hcr.
  destruct (Lemmas_E2E.unit_run D s0 txt Hp Hw Hb H0 HT) as (s3 & R & K & A & G & Hall).
  cbv zeta in *. rewrite Hcr0 in R, Hall.
  change (3 + 2 * length (Lemmas_C11.nl_text false) + length txt) with (5 + length txt) in *.
  exists s3.
  pose proof (Lemmas_E2E.flush_osteps D Hmx (5 + length txt) s0 q Hi0) as F.
  pose proof (run_flush_cmd (5 + length txt) s0) as Kc.
  rewrite R in F, Kc. cbn [fst snd] in F, Kc.
  split; [|split; [exact K | split; [exact A | split; [exact G | exact Kc]]]].
  change (6 + length txt) with (1 + (5 + length txt)).
  eapply Lemmas_E2E.osteps_cast; [eapply Lemmas_E2E.osteps_trans; [exact H1|] | reflexivity | reflexivity].
  apply F. intros j Hj. rewrite (Hall j Hj). reflexivity.
Qed.

(* ================= 5. the loop state on a freshly formatted `name=` ================= *)
Section Loop.
Variable i : nat.
Variable c : cmd.
Hypothesis Hat : cmd_at D i = Some c.
Hypothesis Hhr : c_hread c = true.
Hypothesis Hnv : vars_access_possible c RO = false.
Hypothesis Hnz : ~ In 0%N (c_name c).
Variable bsz : nat.
Hypothesis Hfit : length (c_name c) + 1 < bsz.
Hypothesis H6 : 6 <= bsz.
Local Notation hdr := (c_name c ++ [ch_EQ]).
Local Notation Q := (HRead ATCMD i (hdr ++ [0%N]) (length hdr) bsz).
Local Notation key := (1, i, 0).

Definition inloop (s : state) : Prop :=
  k_state (k s) = CS_READ_LOOP /\ k_cmd (k s) = Some i /\ k_position (k s) = length hdr /\
  firstn (S (length hdr)) (cbuf s) = hdr ++ [0%N] /\ text_of (cbuf s) = hdr /\ length (cbuf s) = bsz.

(* what neither a handler call nor the emission of a unit nor re-formatting changes *)
Definition fr (s s' : state) : Prop :=
  u s' = u s /\ fault s' = fault s /\ gL s' = gL s /\ gS s' = gS s /\ gR s' = gR s /\
  k_cr (k s') = k_cr (k s) /\ k_hold (k s') = k_hold (k s) /\ length (cbuf s') = length (cbuf s).

Lemma fr_refl : forall s, fr s s.
Proof. intros s. unfold fr. repeat split; reflexivity. Qed.

Lemma fr_trans : forall a b d, fr a b -> fr b d -> fr a d.
Proof.
  intros a b d (A1 & A2 & A3 & A4 & A5 & A6 & A7 & A8) (B1 & B2 & B3 & B4 & B5 & B6 & B7 & B8).
  unfold fr. rewrite B1, B2, B3, B4, B5, B6, B7, B8. repeat split; assumption.
Qed.

Lemma idle_fr : forall s s', fr s s' -> idle s -> idle s'.
Proof. intros s s' F Hi. apply (Lemmas_C02e.idle_of_u s); [apply F | exact Hi]. Qed.

Lemma hdr_len : length hdr = length (c_name c) + 1.
Proof. rewrite app_length. reflexivity. Qed.

Lemma hdr_nz : forall x, In x (c_name c) -> x <> 0%N.
Proof. intros x Hx E. subst x. exact (Hnz Hx). Qed.

Lemma inloop_rq : forall s, inloop s -> rq i s = Q.
Proof. intros s (_ & _ & P & B & _ & L). unfold rq. rewrite P, B, L. reflexivity. Qed.

Lemma reformat_loop : forall s, k_cmd (k s) = Some i -> length (cbuf s) = bsz ->
  let s' := start_processing_format_read_args D ATCMD s in
  inloop s' /\ fr s s' /\ mem s' = mem s.
Proof.
  intros s Hc Hl. cbv zeta.
  destruct (Lemmas_C10.C10_reformat_read_fresh D ATCMD s i c Hc Hat) as (B & B1 & B2 & B3 & B4 & E).
  { unfold g_bsz. cbn [g_buf]. lia. }
  cbv zeta in E. rewrite Hnv, Hhr in E. cbn [negb] in E. rewrite E.
  unfold g_bsz in B1. cbn [g_buf] in B1.
  cbn [set_loop_state setg_pos setg_buf]. split; [|split].
  - unfold inloop. rewrite hdr_len. Lemmas_C11.scbn. repeat split.
    + exact Hc.
    + rewrite (Lemmas_C10.firstn_S_nth B _ 0%N B3), B2. reflexivity.
    + apply B4. exact hdr_nz.
    + lia.
  - unfold fr. Lemmas_C11.scbn. repeat split. lia.
  - reflexivity.
Qed.

(* the state after the handler's stores and its edit *)
Lemma after_call_shape : forall s (r : hres), inloop s ->
  let se := apply_edit ATCMD (r_edit r) (fold_left apply_poke (r_pokes r) s) in
  exists B p, se = setk_position p (set_cbuf B (set_mem (pokes_mem (r_pokes r) (mem s)) s)) /\
    length B = bsz /\ text_of B = edit_text bsz hdr (r_edit r) /\ In 0%N B.
Proof.
  intros s r (_ & _ & _ & _ & T & L). cbv zeta. rewrite pokes_state.
  set (s1 := set_mem (pokes_mem (r_pokes r) (mem s)) s).
  destruct (Lemmas_C10b.apply_edit_shape ATCMD (r_edit r) s1) as (B & p & E & E1 & E2).
  unfold g_bsz in E1, E2. cbn [g_buf] in E1, E2. change (cbuf s1) with (cbuf s) in E1, E2.
  rewrite L in E1, E2. rewrite T in E2.
  exists B, p. split; [exact E|]. split; [exact E1|]. split; [exact E2|].
  apply Lemmas_E2Eb.L_text_in0. rewrite E2, E1. apply edit_text_len. rewrite hdr_len. exact Hfit.
Qed.

(* ================= 6. one continuing call ================= *)
Lemma call_next : forall s q h r sc, idle s -> inloop s -> k_cr (k s) = false ->
  script_of h key = r :: sc -> r_calls r = [] ->
  terminal (spec_action K_READ ATCMD (r_code r)) = false ->
  exists m s', hsteps m s q h s' q (drop_script h key 1) [(Q, r_code r)]
                 (concat (map wrap (unit_of bsz hdr r))) /\
    inloop s' /\ fr s s' /\ mem s' = pokes_mem (r_pokes r) (mem s).
Proof.
  intros s q h r sc Hi HL Hcr Hsc Hcl Hterm.
  pose proof HL as (Ls & Lc & Lp & Lb & Lt & Ll).
  pose proof (inloop_rq s HL) as Hq.
  assert (Hcall : s_call h (rq i s) = (drop_script h key 1, r)).
  { rewrite Hq. exact (s_call_drop h Q r sc Hsc). }
  pose proof (hstep_call s q h i r _ Hi Ls Lc Hcall Hcl) as H1. rewrite Hq in H1.
  destruct (after_call_shape s r HL) as (B & p & Ese & BL & BT & B0). cbv zeta in Ese.
  set (se := apply_edit ATCMD (r_edit r) (fold_left apply_poke (r_pokes r) s)) in *.
  set (m1 := pokes_mem (r_pokes r) (mem s)) in *.
  assert (Fse : fr s se) by (rewrite Ese; unfold fr; Lemmas_C11.scbn; repeat split; lia).
  assert (Cse : k_cmd (k se) = Some i) by (rewrite Ese; exact Lc).
  assert (Mse : mem se = m1) by (rewrite Ese; reflexivity).
  assert (Lse : length (cbuf se) = bsz) by (rewrite Ese; exact BL).
  assert (Tse : text_of (cbuf se) = edit_text bsz hdr (r_edit r)) by (rewrite Ese; exact BT).
  assert (Zse : In 0%N (cbuf se)) by (rewrite Ese; exact B0).
  rewrite rdisp_table in H1. unfold Lemmas_C10.unit_of.
  destruct (Lemmas_C10.spec_read_range (r_code r)) as [E|[E|[E|[E|[E|[E|[E|E]]]]]]];
    cbv zeta in E; rewrite E in Hterm, H1 |- *; try discriminate Hterm.
  - (* DATA_NEXT: the unit, then re-format *)
    set (sf := start_flush_c CS_AFTER_FMT_READ se) in *.
    assert (Hif : idle sf) by (apply (idle_fr s se Fse Hi)).
    assert (Hcrf : k_cr (k sf) = false).
    { change (k_cr (k sf)) with (k_cr (k se)). destruct Fse as (_ & _ & _ & _ & _ & X & _). congruence. }
    destruct (emit_unit_cmd sf q (edit_text bsz hdr (r_edit r)) Hif
                (conj eq_refl (conj eq_refl (conj eq_refl eq_refl))) Hcrf Zse Tse)
      as (s3 & O2 & K3 & A3 & G3 & C3).
    change (k_wafter (k sf)) with CS_AFTER_FMT_READ in A3, G3. cbn [cstate_beq] in G3.
    change (k_cmd (k sf)) with (k_cmd (k se)) in C3.
    pose proof K3 as (K31 & K32 & K33 & K34 & K35 & K36 & K37 & K38).
    assert (Hi3 : idle s3) by (apply (Lemmas_E2E.idle_keep sf s3 K3 Hif)).
    assert (O3 : osteps 1 s3 q (start_processing_format_read_args D ATCMD s3) q []).
    { apply (Lemmas_E2E.ostep_pure D Hmx s3 q (start_processing_format_read_args D ATCMD) Hi3).
      intros h0 t. unfold cmd_service. cbn [Fsm.st mkw]. rewrite A3. reflexivity. }
    destruct (reformat_loop s3) as (IL & F4 & M4).
    { rewrite C3. exact Cse. }
    { rewrite K38. exact Lse. }
    eexists. eexists. split; [|split; [exact IL | split]].
    + eapply hsteps_cast;
        [exact (hsteps_trans _ _ _ _ _ _ _ _ _ _ _ _ _ _ _ H1
                 (hsteps_of_osteps _ _ _ _ _ _ _
                    (Lemmas_E2E.osteps_trans D _ _ _ _ _ _ _ _ _ _ O2 O3)))
        | reflexivity | reflexivity |].
      cbn [map concat]. unfold wrap. rewrite !app_nil_r. reflexivity.
    + eapply fr_trans; [exact Fse|]. eapply fr_trans; [|exact F4].
      unfold fr. rewrite K33, K32, K34, K35, G3, K36, K37, K38. repeat split; reflexivity.
    + rewrite M4, K31. exact Mse.
  - (* NEXT: re-format only *)
    destruct (reformat_loop se Cse Lse) as (IL & F4 & M4).
    eexists. eexists. split; [|split; [exact IL | split]].
    + eapply hsteps_cast; [exact H1 | reflexivity | reflexivity | reflexivity].
    + exact (fr_trans _ _ _ Fse F4).
    + rewrite M4. exact Mse.
Qed.

(* ================= the tails after the last call ================= *)
Lemma ack_ok_tail : forall s q, idle s -> k_cr (k s) = false -> k_hold (k s) = false ->
  6 <= length (cbuf s) ->
  exists s4, osteps 9 (ack_ok s) q s4 q ([ch_LF] ++ txt_OK ++ [ch_LF]) /\
    k_state (k s4) = CS_IDLE /\ mem s4 = mem s /\ fault s4 = fault s /\ u s4 = u s /\
    gL s4 = gL s /\ gS s4 = S (gS s) /\ gR s4 = S (gR s).
Proof.
  intros s q Hi Hcr Hh H.
  destruct (Lemmas_C19.ack_ok_props s H) as (_ & _ & _ & HT).
  assert (Hfr : fresh (ack_ok s)) by (repeat split; reflexivity).
  assert (H0 : In 0%N (cbuf (ack_ok s))).
  { change (In 0%N (strncpy_buf (asz s) txt_OK)). apply (Lemmas_E2E.In0_strncpy D).
    unfold asz. cbn [length txt_OK]. lia. }
  destruct (Lemmas_E2E.result_tail D Hmx (ack_ok s) q txt_OK Hi Hfr eq_refl Hcr Hh H0 HT)
    as (s4 & O & R1 & R2 & R3 & R4 & R5 & R6 & R7 & _).
  exists s4. split; [exact O|]. repeat split; assumption.
Qed.

Lemma ack_error_tail : forall s q, idle s -> k_cr (k s) = false -> k_hold (k s) = false ->
  6 <= length (cbuf s) ->
  exists s4, osteps 12 (ack_error s) q s4 q ([ch_LF] ++ txt_ERROR ++ [ch_LF]) /\
    k_state (k s4) = CS_IDLE /\ mem s4 = mem s /\ fault s4 = fault s /\ u s4 = u s /\
    gL s4 = gL s /\ gS s4 = S (gS s) /\ gR s4 = S (gR s).
Proof.
  intros s q Hi Hcr Hh H.
  destruct (Lemmas_C19.ack_error_props s H) as (_ & _ & _ & HT).
  assert (Hfr : fresh (ack_error s)) by (repeat split; reflexivity).
  assert (H0 : In 0%N (cbuf (ack_error s))).
  { change (In 0%N (strncpy_buf (asz s) txt_ERROR)). apply (Lemmas_E2E.In0_strncpy D).
    unfold asz. cbn [length txt_ERROR]. lia. }
  destruct (Lemmas_E2E.result_tail D Hmx (ack_error s) q txt_ERROR Hi Hfr eq_refl Hcr Hh H0 HT)
    as (s4 & O & R1 & R2 & R3 & R4 & R5 & R6 & R7 & _).
  exists s4. split; [exact O|]. repeat split; assumption.
Qed.

(* what a finished line leaves behind, relative to the loop state s and the memory m *)
Definition done (s : state) (m : list (list N)) (s' : state) : Prop :=
  k_state (k s') = CS_IDLE /\ mem s' = m /\ fault s' = fault s /\ u s' = u s /\
  gL s' = gL s /\ gS s' = S (gS s) /\ gR s' = S (gR s).

(* the ending call *)
Lemma call_last : forall s q h r sc, idle s -> inloop s -> k_cr (k s) = false -> k_hold (k s) = false ->
  script_of h key = r :: sc -> r_calls r = [] ->
  terminal (spec_action K_READ ATCMD (r_code r)) = true -> r_code r <> RC_HOLD ->
  exists m s', hsteps m s q h s' q (drop_script h key 1) [(Q, r_code r)]
                 (concat (map wrap (unit_of bsz hdr r)) ++ [ch_LF] ++ result_text (r_code r) ++ [ch_LF]) /\
    done s (pokes_mem (r_pokes r) (mem s)) s'.
Proof.
  intros s q h r sc Hi HL Hcr Hho Hsc Hcl Hterm Hnh.
  pose proof HL as (Ls & Lc & Lp & Lb & Lt & Ll).
  pose proof (inloop_rq s HL) as Hq.
  assert (Hcall : s_call h (rq i s) = (drop_script h key 1, r)).
  { rewrite Hq. exact (s_call_drop h Q r sc Hsc). }
  pose proof (hstep_call s q h i r _ Hi Ls Lc Hcall Hcl) as H1. rewrite Hq in H1.
  destruct (after_call_shape s r HL) as (B & p & Ese & BL & BT & B0). cbv zeta in Ese.
  set (se := apply_edit ATCMD (r_edit r) (fold_left apply_poke (r_pokes r) s)) in *.
  set (m1 := pokes_mem (r_pokes r) (mem s)) in *.
  assert (Fse : fr s se) by (rewrite Ese; unfold fr; Lemmas_C11.scbn; repeat split; lia).
  assert (Mse : mem se = m1) by (rewrite Ese; reflexivity).
  assert (Lse : length (cbuf se) = bsz) by (rewrite Ese; exact BL).
  assert (Tse : text_of (cbuf se) = edit_text bsz hdr (r_edit r)) by (rewrite Ese; exact BT).
  assert (Zse : In 0%N (cbuf se)) by (rewrite Ese; exact B0).
  pose proof Fse as (F1 & F2 & F3 & F4 & F5 & F6 & F7 & F8).
  assert (Hie : idle se) by (apply (idle_fr s se Fse Hi)).
  assert (Hcre : k_cr (k se) = false) by congruence.
  assert (Hhoe : k_hold (k se) = false) by congruence.
  assert (H6e : 6 <= length (cbuf se)) by lia.
  assert (HX1 : fst (hold_exit se ST_OK) = se) by (unfold hold_exit; rewrite Hhoe; reflexivity).
  assert (HX2 : fst (hold_exit se ST_ERROR) = se) by (unfold hold_exit; rewrite Hhoe; reflexivity).
  rewrite rdisp_table in H1. unfold Lemmas_C10.unit_of, result_text.
  destruct (Lemmas_C10.spec_read_range (r_code r)) as [E|[E|[E|[E|[E|[E|[E|E]]]]]]];
    cbv zeta in E; rewrite E in Hterm, H1 |- *; try discriminate Hterm;
    try rewrite HX1 in H1; try rewrite HX2 in H1.
  - (* OK *)
    destruct (ack_ok_tail se q Hie Hcre Hhoe H6e) as (s4 & O & R1 & R2 & R3 & R4 & R5 & R6 & R7).
    eexists. exists s4. split.
    + eapply hsteps_cast;
        [exact (hsteps_trans _ _ _ _ _ _ _ _ _ _ _ _ _ _ _ H1 (hsteps_of_osteps _ _ _ _ _ _ _ O))
        | reflexivity | reflexivity | reflexivity].
    + unfold done. repeat split; congruence.
  - (* DATA_OK: the unit, then OK *)
    set (sf := start_flush_c CS_AFTER_OK se) in *.
    destruct (Lemmas_E2E.emit_unit D Hmx sf q (edit_text bsz hdr (r_edit r)) Hie
                (conj eq_refl (conj eq_refl (conj eq_refl eq_refl))) Hcre Zse Tse)
      as (s3 & O2 & K3 & A3 & G3).
    change (k_wafter (k sf)) with CS_AFTER_OK in A3, G3. cbn [cstate_beq] in G3.
    pose proof K3 as (K31 & K32 & K33 & K34 & K35 & K36 & K37 & K38).
    assert (Hi3 : idle s3) by (apply (Lemmas_E2E.idle_keep sf s3 K3 Hie)).
    destruct (Lemmas_E2E.ok_tail D Hmx s3 q Hi3 A3) as (s4 & O3 & R1 & R2 & R3 & R4 & R5 & R6 & R7 & _).
    { rewrite K36. exact Hcre. }
    { rewrite K37. exact Hhoe. }
    { rewrite K38. exact H6e. }
    eexists. exists s4. split.
    + eapply hsteps_cast;
        [exact (hsteps_trans _ _ _ _ _ _ _ _ _ _ _ _ _ _ _ H1
                 (hsteps_of_osteps _ _ _ _ _ _ _
                    (Lemmas_E2E.osteps_trans D _ _ _ _ _ _ _ _ _ _ O2 O3)))
        | reflexivity | reflexivity |].
      cbn [map concat]. unfold wrap. rewrite !app_nil_r, <- !app_assoc. reflexivity.
    + unfold done.
      change (mem sf) with (mem se) in K31. change (fault sf) with (fault se) in K32.
      change (u sf) with (u se) in K33. change (gL sf) with (gL se) in K34.
      change (gS sf) with (gS se) in K35. change (gR sf) with (gR se) in G3.
      repeat split; congruence.
  - (* HOLD: excluded *)
    exfalso. apply Hnh. exact (Lemmas_C10b.spec_rt_hold true ATCMD (r_code r) E).
  - (* HOLD_EXIT_OK, nothing held: OK *)
    destruct (ack_ok_tail se q Hie Hcre Hhoe H6e) as (s4 & O & R1 & R2 & R3 & R4 & R5 & R6 & R7).
    eexists. exists s4. split.
    + eapply hsteps_cast;
        [exact (hsteps_trans _ _ _ _ _ _ _ _ _ _ _ _ _ _ _ H1 (hsteps_of_osteps _ _ _ _ _ _ _ O))
        | reflexivity | reflexivity | reflexivity].
    + unfold done. repeat split; congruence.
  - (* HOLD_EXIT_ERROR, nothing held: ERROR *)
    destruct (ack_error_tail se q Hie Hcre Hhoe H6e) as (s4 & O & R1 & R2 & R3 & R4 & R5 & R6 & R7).
    eexists. exists s4. split.
    + eapply hsteps_cast;
        [exact (hsteps_trans _ _ _ _ _ _ _ _ _ _ _ _ _ _ _ H1 (hsteps_of_osteps _ _ _ _ _ _ _ O))
        | reflexivity | reflexivity | reflexivity].
    + unfold done. repeat split; congruence.
  - (* ERROR and every other integer *)
    destruct (ack_error_tail se q Hie Hcre Hhoe H6e) as (s4 & O & R1 & R2 & R3 & R4 & R5 & R6 & R7).
    eexists. exists s4. split.
    + eapply hsteps_cast;
        [exact (hsteps_trans _ _ _ _ _ _ _ _ _ _ _ _ _ _ _ H1 (hsteps_of_osteps _ _ _ _ _ _ _ O))
        | reflexivity | reflexivity | reflexivity].
    + unfold done. repeat split; congruence.
Qed.

(* ================= the induction over the continuing results ================= *)
Lemma hsteps_0 : forall s q h, hsteps 0 s q h s q h [] [].
Proof. intros s q h t. exists []. repeat split; reflexivity. Qed.

Lemma loop_hsteps : forall rs s q h rest, idle s -> inloop s -> k_cr (k s) = false ->
  script_of h key = rs ++ rest ->
  (forall r, In r rs -> r_calls r = [] /\ terminal (spec_action K_READ ATCMD (r_code r)) = false) ->
  exists m s', hsteps m s q h s' q (drop_script h key (length rs))
                 (map (fun r => (Q, r_code r)) rs) (concat (map wrap (units_of bsz hdr hdr rs))) /\
    inloop s' /\ fr s s' /\ mem s' = pokes_mem (flat_map r_pokes rs) (mem s).
Proof.
  induction rs as [|r rs IH]; intros s q h rest Hi HL Hcr Hsc Hall.
  - exists 0, s. split; [|split; [exact HL | split; [apply fr_refl | reflexivity]]].
    cbn [length map Lemmas_C10.units_of concat]. rewrite drop_script_0. apply hsteps_0.
  - cbn [app] in Hsc. destruct (Hall r (or_introl eq_refl)) as [Hc Ht].
    destruct (call_next s q h r (rs ++ rest) Hi HL Hcr Hsc Hc Ht) as (m1 & s1 & H1 & IL1 & F1 & M1).
    assert (Hsc1 : script_of (drop_script h key 1) key = rs ++ rest).
    { rewrite script_of_drop, Hsc.
      assert (X : key_eqb key key = true) by (apply key_eqb_eq; reflexivity). rewrite X. reflexivity. }
    destruct (IH s1 q (drop_script h key 1) rest) as (m2 & s2 & H2 & IL2 & F2 & M2).
    + exact (idle_fr s s1 F1 Hi).
    + exact IL1.
    + destruct F1 as (_ & _ & _ & _ & _ & X & _). congruence.
    + exact Hsc1.
    + intros r' Hr'. apply Hall. right. exact Hr'.
    + exists (m1 + m2), s2. split; [|split; [exact IL2 | split]].
      * rewrite drop_script_add in H2.
        eapply hsteps_cast; [exact (hsteps_trans _ _ _ _ _ _ _ _ _ _ _ _ _ _ _ H1 H2) | reflexivity | reflexivity |].
        cbn [Lemmas_C10.units_of]. rewrite wrap_app. reflexivity.
      * exact (fr_trans _ _ _ F1 F2).
      * rewrite M2, M1. cbn [flat_map]. rewrite pokes_mem_app. reflexivity.
Qed.

(* the whole handler phase, from the first loop state *)
Lemma handler_phase : forall rs rn s q h rest, idle s -> inloop s -> k_cr (k s) = false -> k_hold (k s) = false ->
  script_of h key = rs ++ rn :: rest ->
  (forall r, In r rs -> terminal (spec_action K_READ ATCMD (r_code r)) = false) ->
  terminal (spec_action K_READ ATCMD (r_code rn)) = true -> r_code rn <> RC_HOLD ->
  (forall r, In r (rs ++ [rn]) -> r_calls r = []) ->
  exists m s', hsteps m s q h s' q (drop_script h key (S (length rs)))
                 (map (fun r => (Q, r_code r)) (rs ++ [rn]))
                 (concat (map wrap (units_of bsz hdr hdr (rs ++ [rn]))) ++
                  [ch_LF] ++ result_text (r_code rn) ++ [ch_LF]) /\
    done s (pokes_mem (flat_map r_pokes (rs ++ [rn])) (mem s)) s'.
Proof.
  intros rs rn s q h rest Hi HL Hcr Hho Hsc Hcont Hterm Hnh Hcl.
  destruct (loop_hsteps rs s q h (rn :: rest) Hi HL Hcr Hsc) as (m1 & s1 & H1 & IL1 & F1 & M1).
  { intros r Hr. split; [apply Hcl; apply in_or_app; left; exact Hr | apply Hcont; exact Hr]. }
  pose proof F1 as (A1 & A2 & A3 & A4 & A5 & A6 & A7 & A8).
  assert (Hsc1 : script_of (drop_script h key (length rs)) key = rn :: rest).
  { rewrite script_of_drop, Hsc.
    assert (X : key_eqb key key = true) by (apply key_eqb_eq; reflexivity). rewrite X.
    rewrite skipn_app, Nat.sub_diag, skipn_all. reflexivity. }
  destruct (call_last s1 q (drop_script h key (length rs)) rn rest) as (m2 & s2 & H2 & R1 & R2 & R3 & R4 & R5 & R6 & R7).
  - exact (idle_fr s s1 F1 Hi).
  - exact IL1.
  - congruence.
  - congruence.
  - exact Hsc1.
  - apply Hcl. apply in_or_app. right. left. reflexivity.
  - exact Hterm.
  - exact Hnh.
  - exists (m1 + m2), s2. split.
    + rewrite drop_script_add in H2. replace (length rs + 1) with (S (length rs)) in H2 by lia.
      eapply hsteps_cast; [exact (hsteps_trans _ _ _ _ _ _ _ _ _ _ _ _ _ _ _ H1 H2) | reflexivity | |].
      * rewrite map_app. reflexivity.
      * rewrite units_of_app, wrap_app. cbn [Lemmas_C10.units_of]. rewrite app_nil_r, <- !app_assoc. reflexivity.
    + unfold done. rewrite flat_map_app, pokes_mem_app. cbn [flat_map]. rewrite app_nil_r.
      repeat split; congruence.
Qed.

End Loop.

(* ================= 7. the whole line ================= *)
Section Lines.
Variable s : state.
Hypothesis Hn : 0 < n.
Hypothesis HL : n <= 4 * length (cbuf s).
Hypothesis H6 : 6 <= length (cbuf s).
Hypothesis Hf : fault s = false.
Hypothesis Hst : k_state (k s) = CS_IDLE.
Hypothesis Hcr : k_cr (k s) = false.
Hypothesis Himp : k_implicit (k s) = false.
Hypothesis Hhold : k_hold (k s) = false.
Hypothesis Hidle : idle s.

Lemma read_handler_line_hsteps : forall name rest h i c rs rn more,
  name_ok name = true -> implicit_hit D s (upper name) = false ->
  resolve (upper name) (enabled D s) (cmds D) = Some i -> nth_error (cmds D) i = Some c ->
  c_hread c = true -> vars_access_possible c RO = false -> c_only_test c = false ->
  ~ In 0%N (c_name c) -> length (c_name c) + 1 < length (cbuf s) ->
  script_of h (1, i, 0) = rs ++ rn :: more ->
  (forall r, In r rs -> terminal (spec_action K_READ ATCMD (r_code r)) = false) ->
  terminal (spec_action K_READ ATCMD (r_code rn)) = true -> r_code rn <> RC_HOLD ->
  (forall r, In r (rs ++ [rn]) -> r_calls r = []) ->
  let hdr := c_name c ++ [ch_EQ] in
  let bsz := length (cbuf s) in
  exists calls s4,
    hsteps calls s ([ch_A; ch_T] ++ name ++ [ch_QM; ch_LF] ++ rest) h s4 rest
      (drop_script h (1, i, 0) (S (length rs)))
      (map (fun r => (HRead ATCMD i (hdr ++ [0%N]) (length hdr) bsz, r_code r)) (rs ++ [rn]))
      (concat (map wrap (units_of bsz hdr hdr (rs ++ [rn]))) ++
       [ch_LF] ++ result_text (r_code rn) ++ [ch_LF]) /\
    k_state (k s4) = CS_IDLE /\ mem s4 = pokes_mem (flat_map r_pokes (rs ++ [rn])) (mem s) /\
    fault s4 = false /\ u s4 = u s /\
    gL s4 = S (gL s) /\ gS s4 = S (gS s) /\ gR s4 = S (gR s).
Proof.
  intros name rest h i c rs rn more Hok Hh Hres Hc Hhr Hnv Hot Hnz Hfit Hsc Hcont Hterm Hnh Hcl hdr bsz.
  (* 1. dispatch *)
  destruct (Lemmas_E2E.dispatch_read_ex D Hmx s Hn HL Hf Hst Himp Hidle name rest Hok Hh)
    as (c1 & s2 & H1 & (M2 & F2 & U2 & R2) & S2).
  rewrite Hres in R2. destruct R2 as (A1 & A2 & A3 & A4).
  unfold Lemmas_E2E.six in S2.
  assert (G2 : gL s2 = S (gL s) /\ gS s2 = gS s /\ gR s2 = gR s /\ k_cr (k s2) = false /\
               k_hold (k s2) = false /\ length (cbuf s2) = length (cbuf s)).
  { repeat split; congruence. }
  destruct G2 as (gl2 & gs2 & gr2 & cr2 & ho2 & len2).
  pose proof (Lemmas_E2E.cmd_at_of_cmds D i c Hc) as Hc'.
  assert (Hi2 : idle s2) by (apply (Lemmas_C02e.idle_of_u s); assumption).
  (* 2. CS_COMMAND_FOUND: the text `name=` is formatted, the machine enters the read loop *)
  pose proof (Lemmas_E2E.found_read_step D Hmx s2 rest i c Hi2 A1 A2 Hc' A3 Hot) as H2.
  destruct (reformat_loop i c Hc' Hhr Hnv Hnz bsz Hfit H6 s2 A2 len2) as (IL3 & F3 & M3).
  set (s3 := start_processing_format_read_args D ATCMD s2) in *.
  pose proof F3 as (B1 & B2 & B3 & B4 & B5 & B6 & B7 & B8).
  (* 3. the handler calls, the units, the result code *)
  destruct (handler_phase i c Hc' Hhr Hnv Hnz bsz Hfit H6 rs rn s3 rest h more)
    as (m3 & s4 & H3 & R1 & R2 & R3 & R4 & R5 & R6 & R7).
  { exact (idle_fr s2 s3 F3 Hi2). }
  { exact IL3. }
  { congruence. }
  { congruence. }
  { exact Hsc. }
  { exact Hcont. }
  { exact Hterm. }
  { exact Hnh. }
  { exact Hcl. }
  exists ((c1 + 1) + m3), s4. split.
  - eapply hsteps_cast;
      [exact (hsteps_trans _ _ _ _ _ _ _ _ _ _ _ _ _ _ _
               (hsteps_of_osteps _ _ _ _ _ _ h
                  (Lemmas_E2E.osteps_of_steps D _ _ _ _ _ (Lemmas_C02e.steps_trans D _ _ _ _ _ _ _ _ H1 H2)))
               H3)
      | reflexivity | reflexivity | reflexivity].
  - split; [exact R1|]. split; [rewrite R2, M3, M2; reflexivity|].
    split; [congruence|]. split; [congruence|]. split; [congruence|]. split; congruence.
Qed.

End Lines.
End HandlerLine.

(* ================= the final statements ================= *)
Theorem E2E_read_handler_line_proof : forall D s name rest h i c rs rn more,
  d_mutex D = false -> 0 < ncmds D -> ncmds D <= 4 * length (cbuf s) -> 6 <= length (cbuf s) ->
  fault s = false ->
  k_state (k s) = CS_IDLE -> k_cr (k s) = false -> k_implicit (k s) = false -> k_hold (k s) = false ->
  u_state (u s) = US_IDLE -> u_count (u s) = 0 ->
  name_ok name = true -> implicit_hit D s (upper name) = false ->
  resolve (upper name) (enabled D s) (cmds D) = Some i -> nth_error (cmds D) i = Some c ->
  c_hread c = true -> vars_access_possible c RO = false -> c_only_test c = false ->
  ~ In 0%N (c_name c) -> length (c_name c) + 1 < length (cbuf s) ->
  script_of h (1, i, 0) = rs ++ rn :: more ->
  (forall r, In r rs -> terminal (spec_action K_READ ATCMD (r_code r)) = false) ->
  terminal (spec_action K_READ ATCMD (r_code rn)) = true -> r_code rn <> RC_HOLD ->
  (forall r, In r (rs ++ [rn]) -> r_calls r = []) ->
  let hdr := c_name c ++ [ch_EQ] in
  let bsz := length (cbuf s) in
  let units := units_of bsz hdr hdr (rs ++ [rn]) in
  let w0 := mkw s ([ch_A; ch_T] ++ name ++ [ch_QM; ch_LF] ++ rest) h [] in
  exists calls, let w := nsvc D calls w0 in
    k_state (k (wst w)) = CS_IDLE /\ inq (wio w) = rest /\
    whs w = drop_script h (1, i, 0) (S (length rs)) /\
    GlueDefs.calls_of (wtr w) =
      combine (repeat (HRead ATCMD i (hdr ++ [0%N]) (length hdr) bsz) (S (length rs)))
              (map r_code (rs ++ [rn])) /\
    mem (wst w) = pokes_mem (flat_map r_pokes (rs ++ [rn])) (mem s) /\ fault (wst w) = false /\
    GlueDefs.output_of (wtr w) =
      concat (map (fun u => [ch_LF] ++ u ++ [ch_LF]) units) ++
      [ch_LF] ++ match spec_action K_READ ATCMD (r_code rn) with
                 | A_OK | A_EMIT_OK | A_RELEASE_OK => txt_OK
                 | _ => txt_ERROR
                 end ++ [ch_LF] /\
    gL (wst w) = S (gL s) /\ gS (wst w) = S (gS s) /\ gR (wst w) = S (gR s).
Proof.
  intros D s name rest h i c rs rn more Hmx Hn HL H6 Hf Hst Hcr Himp Hhold Hu1 Hu2 Hok Hh Hres Hc
         Hhr Hnv Hot Hnz Hfit Hsc Hcont Hterm Hnh Hcl hdr bsz units w0.
  destruct (read_handler_line_hsteps D Hmx s Hn HL H6 Hf Hst Hcr Himp Hhold (conj Hu1 Hu2)
              name rest h i c rs rn more Hok Hh Hres Hc Hhr Hnv Hot Hnz Hfit Hsc Hcont Hterm Hnh Hcl)
    as (calls & s4 & H & L1 & L2 & L3 & L4 & L5 & L6 & L7).
  exists calls. intros w.
  destruct (hsteps_world D _ _ _ _ _ _ _ _ _ H) as (E1 & E2 & E3 & E4 & E5).
  fold w0 in E1, E2, E3, E4, E5. fold w in E1, E2, E3, E4, E5. rewrite E1.
  split; [exact L1|]. split; [exact E2|]. split; [exact E3|]. split.
  { rewrite E4. replace (S (length rs)) with (length (rs ++ [rn])) by (rewrite app_length; cbn [length]; lia).
    symmetry. apply combine_repeat_map. }
  split; [exact L2|]. split; [exact L3|]. split; [exact E5|].
  split; [exact L5|]. split; [exact L6 | exact L7].
Qed.

(* the handler state of the conclusion, read through script_of: the script of the read handler of
   command i has lost exactly the delivered results, every other script is unchanged *)
Theorem drop_script_spec : forall h key key' n,
  script_of (drop_script h key n) key' =
  if key_eqb key key' then skipn n (script_of h key') else script_of h key'.
Proof. exact script_of_drop. Qed.

Theorem E2E_read_handler_line_script_proof : forall h i (rs : list hres) rn more,
  script_of h (1, i, 0) = rs ++ rn :: more ->
  script_of (drop_script h (1, i, 0) (S (length rs))) (1, i, 0) = more /\
  forall key', key' <> (1, i, 0) ->
    script_of (drop_script h (1, i, 0) (S (length rs))) key' = script_of h key'.
Proof.
  intros h i rs rn more H. split.
  - rewrite script_of_drop, H.
    assert (X : key_eqb (1, i, 0) (1, i, 0) = true) by (apply key_eqb_eq; reflexivity). rewrite X.
    replace (S (length rs)) with (length (rs ++ [rn])) by (rewrite app_length; cbn [length]; lia).
    replace (rs ++ rn :: more) with ((rs ++ [rn]) ++ more) by (rewrite <- app_assoc; reflexivity).
    rewrite skipn_app, Nat.sub_diag, skipn_all. reflexivity.
  - intros key' Hk. rewrite script_of_drop.
    destruct (key_eqb (1, i, 0) key') eqn:E; [|reflexivity].
    apply key_eqb_eq in E. congruence.
Qed.

(* without stores into variables the memory is unchanged *)
Lemma pokes_mem_none : forall (rs : list hres) m, (forall r, In r rs -> r_pokes r = []) ->
  pokes_mem (flat_map r_pokes rs) m = m.
Proof.
  induction rs as [|r rs IH]; intros m H; [reflexivity|]. cbn [flat_map].
  rewrite (H r (or_introl eq_refl)). cbn [app]. apply IH. intros r' Hr'. apply H. right. exact Hr'.
Qed.
(* the line without stores into variables: memory unchanged, the handler state read through script_of *)
Theorem E2E_read_handler_line_nopokes_proof : forall D s name rest h i c rs rn more,
  d_mutex D = false -> 0 < ncmds D -> ncmds D <= 4 * length (cbuf s) -> 6 <= length (cbuf s) ->
  fault s = false ->
  k_state (k s) = CS_IDLE -> k_cr (k s) = false -> k_implicit (k s) = false -> k_hold (k s) = false ->
  u_state (u s) = US_IDLE -> u_count (u s) = 0 ->
  name_ok name = true -> implicit_hit D s (upper name) = false ->
  resolve (upper name) (enabled D s) (cmds D) = Some i -> nth_error (cmds D) i = Some c ->
  c_hread c = true -> vars_access_possible c RO = false -> c_only_test c = false ->
  ~ In 0%N (c_name c) -> length (c_name c) + 1 < length (cbuf s) ->
  script_of h (1, i, 0) = rs ++ rn :: more ->
  (forall r, In r rs -> terminal (spec_action K_READ ATCMD (r_code r)) = false) ->
  terminal (spec_action K_READ ATCMD (r_code rn)) = true -> r_code rn <> RC_HOLD ->
  (forall r, In r (rs ++ [rn]) -> r_calls r = [] /\ r_pokes r = []) ->
  let hdr := c_name c ++ [ch_EQ] in
  let bsz := length (cbuf s) in
  let units := units_of bsz hdr hdr (rs ++ [rn]) in
  let w0 := mkw s ([ch_A; ch_T] ++ name ++ [ch_QM; ch_LF] ++ rest) h [] in
  exists calls, let w := nsvc D calls w0 in
    k_state (k (wst w)) = CS_IDLE /\ inq (wio w) = rest /\
    script_of (whs w) (1, i, 0) = more /\
    (forall key', key' <> (1, i, 0) -> script_of (whs w) key' = script_of h key') /\
    GlueDefs.calls_of (wtr w) =
      combine (repeat (HRead ATCMD i (hdr ++ [0%N]) (length hdr) bsz) (S (length rs)))
              (map r_code (rs ++ [rn])) /\
    mem (wst w) = mem s /\ fault (wst w) = false /\
    GlueDefs.output_of (wtr w) =
      concat (map (fun u => [ch_LF] ++ u ++ [ch_LF]) units) ++
      [ch_LF] ++ match spec_action K_READ ATCMD (r_code rn) with
                 | A_OK | A_EMIT_OK | A_RELEASE_OK => txt_OK
                 | _ => txt_ERROR
                 end ++ [ch_LF] /\
    gL (wst w) = S (gL s) /\ gS (wst w) = S (gS s) /\ gR (wst w) = S (gR s).
Proof.
  intros D s name rest h i c rs rn more Hmx Hn HL H6 Hf Hst Hcr Himp Hhold Hu1 Hu2 Hok Hh Hres Hc
         Hhr Hnv Hot Hnz Hfit Hsc Hcont Hterm Hnh Hcl hdr bsz units w0.
  destruct (E2E_read_handler_line_proof D s name rest h i c rs rn more Hmx Hn HL H6 Hf Hst Hcr Himp Hhold
              Hu1 Hu2 Hok Hh Hres Hc Hhr Hnv Hot Hnz Hfit Hsc Hcont Hterm Hnh
              (fun r Hr => proj1 (Hcl r Hr)))
    as (calls & W).
  exists calls. cbv zeta in W |- *. fold hdr bsz units w0 in W |- *.
  destruct W as (W1 & W2 & W3 & W4 & W5 & W6 & W7 & W8 & W9 & W10).
  destruct (E2E_read_handler_line_script_proof h i rs rn more Hsc) as (S1 & S2).
  split; [exact W1|]. split; [exact W2|]. split; [rewrite W3; exact S1|].
  split; [intros key' Hk; rewrite W3; exact (S2 key' Hk)|]. split; [exact W4|].
  split; [rewrite W5; apply pokes_mem_none; intros r Hr; exact (proj2 (Hcl r Hr))|].
  split; [exact W6|]. split; [exact W7|]. split; [exact W8|]. split; [exact W9 | exact W10].
Qed.
End P3.

(* ====================================================================================== *)
Module P4.
(* Part P4 — (A) the token of the '=?' response for one variable, as a table of literal strings, with
   the general facts about Spec.var_info_text; (B) a whole TEST line  AT<name>=? LF  answered from the
   descriptor (property C19 end to end), composed like Lemmas_E2E.read_line_osteps. *)
Import ListNotations.
Local Open Scope nat_scope.

(* ================= A. the token table ================= *)
(* a private copy of the table of Properties_C19t.v (convertible with it); size 0 in a buffer row
   stands for any size *)
Definition token_table : list (vtype * nat * vaccess * list N) := [
  (VInt, 1, RW, [60; 73; 78; 84; 56; 91; 82; 87; 93; 62]%N);                             (* <INT8[RW]> *)
  (VInt, 1, RO, [60; 73; 78; 84; 56; 91; 82; 79; 93; 62]%N);                             (* <INT8[RO]> *)
  (VInt, 1, WO, [60; 73; 78; 84; 56; 91; 87; 79; 93; 62]%N);                             (* <INT8[WO]> *)
  (VInt, 2, RW, [60; 73; 78; 84; 49; 54; 91; 82; 87; 93; 62]%N);                         (* <INT16[RW]> *)
  (VInt, 2, RO, [60; 73; 78; 84; 49; 54; 91; 82; 79; 93; 62]%N);                         (* <INT16[RO]> *)
  (VInt, 2, WO, [60; 73; 78; 84; 49; 54; 91; 87; 79; 93; 62]%N);                         (* <INT16[WO]> *)
  (VInt, 4, RW, [60; 73; 78; 84; 51; 50; 91; 82; 87; 93; 62]%N);                         (* <INT32[RW]> *)
  (VInt, 4, RO, [60; 73; 78; 84; 51; 50; 91; 82; 79; 93; 62]%N);                         (* <INT32[RO]> *)
  (VInt, 4, WO, [60; 73; 78; 84; 51; 50; 91; 87; 79; 93; 62]%N);                         (* <INT32[WO]> *)
  (VUint, 1, RW, [60; 85; 73; 78; 84; 56; 91; 82; 87; 93; 62]%N);                        (* <UINT8[RW]> *)
  (VUint, 1, RO, [60; 85; 73; 78; 84; 56; 91; 82; 79; 93; 62]%N);                        (* <UINT8[RO]> *)
  (VUint, 1, WO, [60; 85; 73; 78; 84; 56; 91; 87; 79; 93; 62]%N);                        (* <UINT8[WO]> *)
  (VUint, 2, RW, [60; 85; 73; 78; 84; 49; 54; 91; 82; 87; 93; 62]%N);                    (* <UINT16[RW]> *)
  (VUint, 2, RO, [60; 85; 73; 78; 84; 49; 54; 91; 82; 79; 93; 62]%N);                    (* <UINT16[RO]> *)
  (VUint, 2, WO, [60; 85; 73; 78; 84; 49; 54; 91; 87; 79; 93; 62]%N);                    (* <UINT16[WO]> *)
  (VUint, 4, RW, [60; 85; 73; 78; 84; 51; 50; 91; 82; 87; 93; 62]%N);                    (* <UINT32[RW]> *)
  (VUint, 4, RO, [60; 85; 73; 78; 84; 51; 50; 91; 82; 79; 93; 62]%N);                    (* <UINT32[RO]> *)
  (VUint, 4, WO, [60; 85; 73; 78; 84; 51; 50; 91; 87; 79; 93; 62]%N);                    (* <UINT32[WO]> *)
  (VHex, 1, RW, [60; 72; 69; 88; 56; 91; 82; 87; 93; 62]%N);                             (* <HEX8[RW]> *)
  (VHex, 1, RO, [60; 72; 69; 88; 56; 91; 82; 79; 93; 62]%N);                             (* <HEX8[RO]> *)
  (VHex, 1, WO, [60; 72; 69; 88; 56; 91; 87; 79; 93; 62]%N);                             (* <HEX8[WO]> *)
  (VHex, 2, RW, [60; 72; 69; 88; 49; 54; 91; 82; 87; 93; 62]%N);                         (* <HEX16[RW]> *)
  (VHex, 2, RO, [60; 72; 69; 88; 49; 54; 91; 82; 79; 93; 62]%N);                         (* <HEX16[RO]> *)
  (VHex, 2, WO, [60; 72; 69; 88; 49; 54; 91; 87; 79; 93; 62]%N);                         (* <HEX16[WO]> *)
  (VHex, 4, RW, [60; 72; 69; 88; 51; 50; 91; 82; 87; 93; 62]%N);                         (* <HEX32[RW]> *)
  (VHex, 4, RO, [60; 72; 69; 88; 51; 50; 91; 82; 79; 93; 62]%N);                         (* <HEX32[RO]> *)
  (VHex, 4, WO, [60; 72; 69; 88; 51; 50; 91; 87; 79; 93; 62]%N);                         (* <HEX32[WO]> *)
  (VBufHex, 0, RW, [60; 72; 69; 88; 66; 85; 70; 91; 82; 87; 93; 62]%N);                  (* <HEXBUF[RW]> *)
  (VBufHex, 0, RO, [60; 72; 69; 88; 66; 85; 70; 91; 82; 79; 93; 62]%N);                  (* <HEXBUF[RO]> *)
  (VBufHex, 0, WO, [60; 72; 69; 88; 66; 85; 70; 91; 87; 79; 93; 62]%N);                  (* <HEXBUF[WO]> *)
  (VBufStr, 0, RW, [60; 83; 84; 82; 73; 78; 71; 91; 82; 87; 93; 62]%N);                  (* <STRING[RW]> *)
  (VBufStr, 0, RO, [60; 83; 84; 82; 73; 78; 71; 91; 82; 79; 93; 62]%N);                  (* <STRING[RO]> *)
  (VBufStr, 0, WO, [60; 83; 84; 82; 73; 78; 71; 91; 87; 79; 93; 62]%N)                   (* <STRING[WO]> *)
].

Definition is_buf (t : vtype) : bool := match t with VBufHex | VBufStr => true | _ => false end.

(* the row of a table for (type, size, access): buffers match any size *)
Definition token_lookup (tab : list (vtype * nat * vaccess * list N)) (t : vtype) (sz : nat) (a : vaccess)
  : option (list N) :=
  match find (fun '(t', sz', a', _) => vtype_beq t t' && vaccess_beq a a' && (is_buf t || (sz =? sz'))) tab with
  | Some (_, _, _, txt) => Some txt
  | None => None
  end.

(* the token of a named variable from the token of the unnamed one: the name and a colon after the
   opening bracket *)
Definition with_name (nm : option (list N)) (txt : list N) : list N :=
  match nm with Some n => [ch_LT] ++ n ++ [ch_COLON] ++ tl txt | None => txt end.

Lemma token_complete_proof : forall v,
  var_info_text v =
  match token_lookup token_table (v_type v) (v_size v) (v_access v) with
  | Some txt => Some (with_name (v_name v) txt)
  | None => None
  end.
Proof.
  intros [nm t sz a r w sl]. cbn [v_type v_size v_access v_name].
  destruct t, a, nm as [nm|];
    try reflexivity;
    destruct sz as [|[|[|[|[|sz]]]]]; reflexivity.
Qed.

Lemma token_handlers_proof : forall nm t sz a r w sl r' w' sl',
  var_info_text (mkVar nm t sz a r w sl) = var_info_text (mkVar nm t sz a r' w' sl').
Proof. reflexivity. Qed.

Lemma token_buf_size_proof : forall nm t sz sz' a r w sl, is_buf t = true ->
  var_info_text (mkVar nm t sz a r w sl) = var_info_text (mkVar nm t sz' a r w sl).
Proof. intros nm t sz sz' a r w sl H. destruct t; try discriminate H; reflexivity. Qed.

Lemma token_defined_proof : forall v,
  (exists txt, var_info_text v = Some txt) <-> (is_buf (v_type v) = true \/ supported_width (v_size v) = true).
Proof.
  intros [nm t sz a r w sl]. unfold var_info_text, type_name. cbn [v_type v_size].
  destruct t; cbn [is_buf]; try (split; [intros _; left; reflexivity | intros _; eexists; reflexivity]);
    destruct (supported_width sz); split;
      try (intros _; right; reflexivity); try (intros _; eexists; reflexivity);
      try (intros [x H]; discriminate H); intros [H|H]; discriminate H.
Qed.

Lemma token_named_proof : forall nm t sz a r w sl,
  var_info_text (mkVar (Some nm) t sz a r w sl) =
  match var_info_text (mkVar None t sz a r w sl) with
  | Some txt => Some ([ch_LT] ++ nm ++ [ch_COLON] ++ tl txt)
  | None => None
  end.
Proof.
  intros nm t sz a r w sl. unfold var_info_text. cbn [v_type v_size].
  destruct (type_name t sz) as [tn|]; reflexivity.
Qed.

(* ================= B. the TEST line ================= *)
Local Notation wst := (Fsm.st sio smu shs).
Local Notation wio := (Fsm.io sio smu shs).
Local Notation whs := (Fsm.hs sio smu shs).
Local Notation wtr := (Fsm.tr sio smu shs).
Local Notation idle := Lemmas_C02e.idle.
Local Notation keepf := Lemmas_E2E.keepf.
Local Notation pre := Lemmas_E2E.pre.
Local Notation post := Lemmas_E2E.post.

(* ---------- B1. frames of the two formatting functions ---------- *)
(* memory and buffer size *)
Definition ml (s s' : state) : Prop := mem s' = mem s /\ length (cbuf s') = length (cbuf s).
Definition pre2 (s s1 : state) : Prop := pre s s1 /\ ml s s1.
Definition post2 (s s' : state) : Prop := post s s' /\ ml s s'.

Ltac fin_keepf := unfold Lemmas_E2E.keepf; repeat split; reflexivity.

Ltac brk := repeat (cbv beta iota zeta; match goal with
  | |- context [match ?x with _ => _ end] =>
      lazymatch x with
      | context [match _ with _ => _ end] => fail
      | _ => destruct x
      end
  end).

Ltac post_tac K1 G1 S1 Hs :=
  unfold Lemmas_E2E.post; split; [eapply Lemmas_E2E.keepf_trans; [exact K1 | fin_keepf]|];
  unfold end_with_error, ack_error, ack_ok, start_flush_after_ok, start_flush_c, set_loop_state, set_fault_flag;
  split; intros H; Lemmas_C11.scbn_in H; Lemmas_C11.scbn;
  try discriminate H; try (exfalso; apply H; reflexivity); try (exfalso; first [exact (Hs H) | rewrite S1 in H; exact (Hs H)]);
  try exact G1;
  repeat split; try reflexivity; try (intros; discriminate); try (intros; exact G1);
  try (intros _; rewrite G1; reflexivity).

Ltac ml_tac M1 L1 :=
  unfold ml, end_with_error, ack_error, ack_ok, start_flush_after_ok, start_flush_c, set_loop_state, set_fault_flag;
  Lemmas_C11.scbn; unfold asz; rewrite ?Lemmas_C19.strncpy_length, ?Lemmas_C19.upd_length;
  split; [exact M1 | exact L1].

(* a final state built from s1, where pre2 s s1 *)
Ltac leaf P Hs :=
  let K1 := fresh "K" in let G1 := fresh "G" in let S1 := fresh "S" in
  let M1 := fresh "M" in let L1 := fresh "L" in
  destruct P as ((K1 & G1 & S1) & (M1 & L1));
  split; [post_tac K1 G1 S1 Hs | ml_tac M1 L1].

Lemma pre2_refl : forall s, pre2 s s.
Proof. intros s. split; [apply Lemmas_E2E.pre_refl | split; reflexivity]. Qed.

Lemma print_pieces_len : forall ps c, length (cu_buf (fst (print_pieces c ps))) = length (cu_buf c).
Proof.
  induction ps as [|p r IH]; intros c; [reflexivity|]. cbn [print_pieces].
  pose proof (Lemmas_C08.print_nstring_len c p) as H.
  destruct (print_nstring c p) as [c1 ok]. cbn [fst] in H.
  destruct ok; [rewrite IH; exact H | exact H].
Qed.

Lemma fmt_info_len : forall v c, length (cu_buf (fst (fmt_info v c))) = length (cu_buf c).
Proof.
  intros v c. unfold fmt_info. destruct (type_name (v_type v) (v_size v)); [apply print_pieces_len | reflexivity].
Qed.

Lemma pre2_put_cur : forall s s1 c1, pre2 s s1 -> length (cu_buf c1) = length (cbuf s1) ->
  pre2 s (put_cur ATCMD c1 s1).
Proof.
  intros s s1 c1 (P & M & L) Hl. split; [apply Lemmas_E2E.pre_put_cur; exact P|].
  unfold put_cur, ml. destruct (cu_fault c1); Lemmas_C11.scbn; cbn [setg_pos setg_buf]; Lemmas_C11.scbn;
    (split; [exact M | rewrite Hl; exact L]).
Qed.

Lemma pre2_print_string : forall s s1 t, pre2 s s1 -> pre2 s (fst (print_string ATCMD s1 t)).
Proof.
  intros s s1 t H. unfold print_string.
  pose proof (Lemmas_C08.print_nstring_len (get_cur ATCMD s1) t) as Hl.
  destruct (print_nstring (get_cur ATCMD s1) t) as [c1 ok]. cbn [fst] in *.
  apply pre2_put_cur; [exact H | exact Hl].
Qed.

Lemma pre2_print_strings : forall s s1 ts, pre2 s s1 -> pre2 s (fst (print_strings ATCMD s1 ts)).
Proof.
  intros s s1 ts H. unfold print_strings.
  pose proof (print_pieces_len ts (get_cur ATCMD s1)) as Hl.
  destruct (print_pieces (get_cur ATCMD s1) ts) as [c1 ok]. cbn [fst] in *.
  apply pre2_put_cur; [exact H | exact Hl].
Qed.

Section Frames.
Variable D : desc.

Lemma prt_post : forall s0 s, pre2 s0 s -> k_state (k s0) <> CS_FLUSH_WAIT ->
  post2 s0 (let (s3, ok3) := print_response_test D ATCMD s in if ok3 then s3 else end_with_error ATCMD s3).
Proof.
  intros s0 s P Hs. unfold print_response_test.
  destruct (cmd_of D ATCMD s) as [c|]; [|leaf P Hs].
  destruct (c_descr c) as [d|].
  - pose proof (pre2_print_strings s0 s [nl_chars s; d] P) as P1.
    destruct (print_strings ATCMD s [nl_chars s; d]) as [s1 ok]. cbn [fst] in P1.
    destruct ok; cbn [negb]; brk; leaf P1 Hs.
  - cbn [negb]. brk; leaf P Hs.
Qed.

Lemma nfv_post : forall s0 s, pre2 s0 s -> k_state (k s0) <> CS_FLUSH_WAIT ->
  let (s2, handled) := next_format_var D ATCMD s in if handled then post2 s0 s2 else pre2 s0 s2.
Proof.
  intros s0 s P Hs. unfold next_format_var.
  destruct (cmd_of D ATCMD s) as [c|]; [|leaf P Hs].
  cbv zeta. destruct (S (g_index ATCMD s) <? length (c_vars c)).
  - destruct (g_bsz ATCMD (setg_index ATCMD (S (g_index ATCMD s)) s) <=?
              g_pos ATCMD (setg_index ATCMD (S (g_index ATCMD s)) s)).
    + cbn [g_index setg_index]. leaf P Hs.
    + cbn [g_index setg_index g_pos g_buf setg_buf setg_pos setg_var]. leaf P Hs.
  - destruct P as ((K1 & G1 & S1) & (M1 & L1)). cbn [g_index setg_index].
    split; [split; [eapply Lemmas_E2E.keepf_trans; [exact K1 | fin_keepf] | split; [exact G1 | exact S1]]|].
    split; [exact M1 | exact L1].
Qed.

Lemma fta_post : forall s, k_state (k s) <> CS_FLUSH_WAIT -> post2 s (format_test_args D ATCMD s).
Proof.
  intros s Hs. unfold format_test_args.
  pose proof (pre2_refl s) as P0.
  destruct (cmd_of D ATCMD s) as [c|]; [|leaf P0 Hs].
  destruct (nth_error (c_vars c) (g_var ATCMD s)) as [v|]; [|leaf P0 Hs].
  pose proof (fmt_info_len v (get_cur ATCMD s)) as Hl.
  destruct (fmt_info v (get_cur ATCMD s)) as [c1 ok]. cbn [fst] in Hl.
  pose proof (pre2_put_cur s s c1 P0 Hl) as P1. cbv zeta.
  set (s1 := put_cur ATCMD c1 s) in *. clearbody s1.
  destruct ok; cbn [negb]; [|leaf P1 Hs].
  pose proof (nfv_post s s1 P1 Hs) as P2.
  destruct (next_format_var D ATCMD s1) as [s2 handled].
  destruct handled; [exact P2|].
  exact (prt_post s s2 P2 Hs).
Qed.

Lemma spfta_post : forall s, k_state (k s) <> CS_FLUSH_WAIT ->
  post2 s (start_processing_format_test_args D ATCMD s).
Proof.
  intros s Hs. unfold start_processing_format_test_args. cbv zeta.
  assert (P0 : pre2 s (setg_pos ATCMD 0 s)).
  { split; [split; [fin_keepf | split; reflexivity] | split; reflexivity]. }
  set (s0 := setg_pos ATCMD 0 s) in *. clearbody s0.
  destruct (cmd_of D ATCMD s0) as [c|]; [|leaf P0 Hs].
  pose proof (pre2_print_string s s0 (c_name c) P0) as P1.
  destruct (print_string ATCMD s0 (c_name c)) as [s1 ok1]. cbn [fst] in P1.
  destruct ok1; cbn [negb]; [|leaf P1 Hs].
  pose proof (pre2_print_string s s1 [ch_EQ] P1) as P2.
  destruct (print_string ATCMD s1 [ch_EQ]) as [s2 ok2]. cbn [fst] in P2.
  destruct ok2; cbn [negb]; [|leaf P2 Hs].
  destruct (c_vars c) as [|v vs].
  - exact (prt_post s s2 P2 Hs).
  - leaf P2 Hs.
Qed.
End Frames.

(* ---------- B2. small facts about texts ---------- *)
(* the text of a buffer that holds t, a NUL and anything: t up to its own first NUL *)
Lemma text_of_app0_gen : forall t r, text_of (t ++ 0%N :: r) = text_of t.
Proof.
  induction t as [|c t IH]; intros r; [reflexivity|]. cbn [app text_of].
  destruct (c =? 0)%N; [reflexivity | rewrite IH; reflexivity].
Qed.

Lemma text_of_no_nul : forall t, ~ In 0%N t -> text_of t = t.
Proof.
  induction t as [|c t IH]; intros H; [reflexivity|]. cbn [text_of].
  destruct (c =? 0)%N eqn:E.
  - apply N.eqb_eq in E. exfalso. apply H. left. exact E.
  - rewrite IH; [reflexivity|]. intro X. apply H. right. exact X.
Qed.

Lemma in0_of_text : forall l, length (text_of l) < length l -> In 0%N l.
Proof.
  induction l as [|c l IH]; intros H; [cbn in H; lia|]. cbn [text_of] in H.
  destruct (c =? 0)%N eqn:E.
  - apply N.eqb_eq in E. left. exact E.
  - right. apply IH. cbn [length] in H. lia.
Qed.

(* ---------- B3. the service calls of the TEST path ---------- *)
Section TestLine.
Variable D : desc.
Hypothesis Hmx : d_mutex D = false.
Local Notation n := (ncmds D).
Local Notation steps := (Lemmas_C02e.steps D).
Local Notation osteps := (Lemmas_E2E.osteps D).
Local Notation cmdsvc := (cmd_service D sio smu shs s_read s_write s_lock s_unlock s_call).

Lemma post2_chain : forall a b c, post2 a b -> k_state (k b) <> CS_FLUSH_WAIT -> post2 b c -> post2 a c.
Proof.
  intros a b c (P1 & M1 & L1) Hb (P2 & M2 & L2).
  split; [exact (Lemmas_E2E.post_chain a b c P1 Hb P2)|]. split; congruence.
Qed.

(* one call in CS_FORMAT_TEST_ARGS is Fsm.format_test_args *)
Lemma fta_step : forall s q, idle s -> k_state (k s) = CS_FORMAT_TEST_ARGS ->
  steps 1 s q (format_test_args D ATCMD s) q.
Proof.
  intros s q Hi Hs. apply (Lemmas_C02e.step_pure D Hmx s q (format_test_args D ATCMD) Hi).
  intros h t. unfold cmd_service. cbn [Fsm.st mkw]. rewrite Hs. reflexivity.
Qed.

(* the calls spent in CS_FORMAT_TEST_ARGS are TextDefs.fmt_test_run *)
Lemma fmt_run_steps : forall fuel s0 s q, idle s -> post2 s0 s ->
  exists j, j <= fuel /\ steps j s q (fmt_test_run D fuel ATCMD s) q /\
            post2 s0 (fmt_test_run D fuel ATCMD s).
Proof.
  induction fuel as [|fuel IH]; intros s0 s q Hi P.
  - exists 0. split; [lia|]. split; [apply Lemmas_C02e.steps_0 | exact P].
  - rewrite Lemmas_C19.fmt_test_run_S. unfold in_fmt_test.
    destruct (cstate_beq (k_state (k s)) CS_FORMAT_TEST_ARGS) eqn:E.
    + apply internal_cstate_dec_bl in E.
      assert (Hs : k_state (k s) <> CS_FLUSH_WAIT) by (rewrite E; discriminate).
      pose proof (fta_post D s Hs) as P1.
      pose proof (fta_step s q Hi E) as S1.
      set (s1 := format_test_args D ATCMD s) in *.
      assert (Hi1 : idle s1) by (apply (Lemmas_C02e.idle_of_u s); [apply P1 | exact Hi]).
      destruct (IH s0 s1 q Hi1 (post2_chain s0 s s1 P Hs P1)) as (j & Hj & S2 & P2).
      exists (1 + j). split; [lia|]. split; [exact (Lemmas_C02e.steps_trans D _ _ _ _ _ _ _ _ S1 S2) | exact P2].
    + exists 0. split; [lia|]. split; [apply Lemmas_C02e.steps_0 | exact P].
Qed.

(* the byte received in CS_WAIT_TEST_ACK *)
Definition wta_body (ch : N) (s : state) : state :=
  if (ch =? ch_LF)%N then start_processing_format_test_args D ATCMD s
  else if (ch =? ch_CR)%N then setk_cr true s
  else setk_state CS_ERROR s.

Lemma step_wta : forall s c q, idle s -> k_state (k s) = CS_WAIT_TEST_ACK ->
  steps 1 s (c :: q) (wta_body (k_char (k (Lemmas_C02e.rd_state s c))) (Lemmas_C02e.rd_state s c)) q.
Proof.
  intros s c q Hi Hs. apply (Lemmas_C02e.step_read D Hmx s c q wta_body Hi).
  intros h t. unfold cmd_service. cbn [Fsm.st mkw]. rewrite Hs. reflexivity.
Qed.

(* the state in which the question mark of "=?" has been taken as the TEST shortcut *)
Definition qm_state (s : state) : state :=
  s |> setk_char ch_QM |> setk_type T_TEST |> setk_state CS_WAIT_TEST_ACK.

Lemma qm_step : forall s q c, idle s -> k_state (k s) = CS_PARSE_COMMAND_ARGS ->
  cmd_of D ATCMD s = Some c -> k_length (k s) = 0 ->
  c_vars c <> [] -> c_implicit c = false ->
  steps 1 s (ch_QM :: q) (qm_state s) q.
Proof.
  intros s q c Hi Hs Hc Hl Hv Him.
  pose proof (Lemmas_E2E.pca_step D Hmx s ch_QM q Hi Hs) as S1.
  assert (Hrd : Lemmas_C02e.rd_state s ch_QM = setk_char ch_QM s).
  { unfold Lemmas_C02e.rd_state. rewrite Hs. reflexivity. }
  rewrite Hrd in S1. change (k_char (k (setk_char ch_QM s))) with ch_QM in S1.
  assert (E : pca_body D ch_QM (setk_char ch_QM s) = qm_state s).
  { unfold pca_body. change (cmd_of D ATCMD (setk_char ch_QM s)) with (cmd_of D ATCMD s). rewrite Hc.
    change (ch_QM =? ch_LF)%N with false. change (ch_QM =? ch_CR)%N with false.
    change (ch_QM =? ch_QM)%N with true. cbv iota.
    change (k_length (k (setk_char ch_QM s))) with (k_length (k s)). rewrite Hl, Him.
    destruct (c_vars c) as [|v vs]; [congruence|].
    rewrite orb_true_r. reflexivity. }
  rewrite E in S1. exact S1.
Qed.

(* the state in which the line feed after "=?" has been read *)
Definition lf_state (s : state) : state := set_gL (S (gL s)) (setk_char ch_LF s).

Lemma wta_lf_step : forall s q, idle s -> k_state (k s) = CS_WAIT_TEST_ACK ->
  steps 1 s (ch_LF :: q) (start_processing_format_test_args D ATCMD (lf_state s)) q.
Proof.
  intros s q Hi Hs. pose proof (step_wta s ch_LF q Hi Hs) as S1.
  assert (Hrd : Lemmas_C02e.rd_state s ch_LF = lf_state s).
  { unfold Lemmas_C02e.rd_state. rewrite Hs. reflexivity. }
  rewrite Hrd in S1. exact S1.
Qed.

(* ---------- B4. the whole line ---------- *)
Section Lines.
Variable s : state.
Hypothesis Hn : 0 < n.
Hypothesis HL : n <= 4 * length (cbuf s).
Hypothesis H6 : 6 <= length (cbuf s).
Hypothesis Hf : fault s = false.
Hypothesis Hst : k_state (k s) = CS_IDLE.
Hypothesis Hcr : k_cr (k s) = false.
Hypothesis Himp : k_implicit (k s) = false.
Hypothesis Hhold : k_hold (k s) = false.
Hypothesis Hidle : idle s.

(* what the line prints, NUL bytes in the descriptor's strings allowed: a string ends at its NUL *)
Definition test_line_out (c : cmd) : list N :=
  match spec_test_text c [ch_LF] with
  | Some txt =>
    if length txt <? length (cbuf s)
    then [ch_LF] ++ text_of txt ++ [ch_LF] ++ [ch_LF] ++ txt_OK ++ [ch_LF]
    else [ch_LF] ++ txt_ERROR ++ [ch_LF]
  | None => [ch_LF] ++ txt_ERROR ++ [ch_LF]
  end.

Lemma test_line_osteps : forall name rest i c,
  name_ok name = true -> implicit_hit D s (upper name) = false ->
  resolve (upper name) (enabled D s) (cmds D) = Some i -> nth_error (cmds D) i = Some c ->
  c_vars c <> [] -> c_htest c = false -> c_implicit c = false ->
  exists calls s4,
    osteps calls s ([ch_A; ch_T] ++ name ++ [ch_EQ; ch_QM; ch_LF] ++ rest) s4 rest (test_line_out c) /\
    Lemmas_E2E.line_done s s4.
Proof.
  intros name rest i c Hok Hh Hres Hc Hvars Hht Him.
  (* 1. dispatch up to the '=' *)
  destruct (Lemmas_E2E.dispatch_eq_ex D Hmx s Hn HL Hf Hst Himp Hidle name ([ch_QM; ch_LF] ++ rest) Hok Hh)
    as (c1 & s2 & H1 & (M2 & F2 & U2 & R2) & S2).
  rewrite Hres in R2. destruct R2 as (A1 & A2 & A3 & A4).
  unfold Lemmas_E2E.six in S2.
  assert (G2 : gL s2 = gL s /\ gS s2 = gS s /\ gR s2 = gR s /\ k_cr (k s2) = false /\
               k_hold (k s2) = false /\ length (cbuf s2) = length (cbuf s)).
  { repeat split; congruence. }
  destruct G2 as (gl2 & gs2 & gr2 & cr2 & ho2 & len2).
  pose proof (Lemmas_E2E.cmd_at_of_cmds D i c Hc) as Hc'.
  assert (Hi2 : idle s2) by (apply (Lemmas_C02e.idle_of_u s); assumption).
  assert (Hcmd2 : cmd_of D ATCMD s2 = Some c) by (unfold cmd_of, g_cmd; rewrite A2; exact Hc').
  (* 2. the call in CS_COMMAND_FOUND *)
  pose proof (Lemmas_E2E.found_write_step D Hmx s2 ([ch_QM; ch_LF] ++ rest) Hi2 A1) as H2.
  destruct (Lemmas_C06.C06_entry D s2 c Hcmd2 A3 ltac:(unfold asz; lia)) as (E1 & E2 & E3 & E4 & E5 & E6 & E7 & E8).
  destruct (Lemmas_E2E.found_write_pre D s2 c Hcmd2 A3) as (K3 & gs3 & _).
  assert (Hk3 : k_cmd (k (command_found D s2)) = Some i).
  { unfold command_found. rewrite Hcmd2, A3. destruct (cbuf (setk_length 0 s2)); exact A2. }
  set (s3 := command_found D s2) in *.
  assert (Hi3 : idle s3) by (apply (Lemmas_C02e.idle_of_u s2); [apply K3 | exact Hi2]).
  unfold asz in E5.
  destruct K3 as (u3 & gl3 & gr3 & cr3 & ho3).
  (* 3. the question mark: the TEST shortcut *)
  pose proof (qm_step s3 ([ch_LF] ++ rest) c Hi3 E1 E2 E3 Hvars Him) as H3.
  set (s4 := qm_state s3) in *.
  assert (Hi4 : idle s4) by exact Hi3.
  (* 4. the line feed: the response starts *)
  pose proof (wta_lf_step s4 rest Hi4 eq_refl) as H4.
  set (s5 := lf_state s4) in *.
  assert (Hi5 : idle s5) by exact Hi3.
  assert (Hs5 : k_state (k s5) <> CS_FLUSH_WAIT) by discriminate.
  pose proof (spfta_post D s5 Hs5) as P6.
  set (s6 := start_processing_format_test_args D ATCMD s5) in *.
  assert (Hi6 : idle s6) by (apply (Lemmas_C02e.idle_of_u s5); [apply P6 | exact Hi5]).
  (* 5. the calls in CS_FORMAT_TEST_ARGS *)
  destruct (fmt_run_steps (length (c_vars c)) s5 s6 rest Hi6 P6) as (j & _ & H5 & P7).
  change (fmt_test_run D (length (c_vars c)) ATCMD s6) with (test_response D ATCMD c s5) in H5, P7.
  set (s7 := test_response D ATCMD c s5) in *.
  destruct P7 as (((u7 & gl7 & gr7 & cr7 & ho7) & FL7 & _) & M7 & L7).
  assert (Hi7 : idle s7) by (apply (Lemmas_C02e.idle_of_u s5); assumption).
  (* registers of s5 *)
  assert (R5 : g_cmd ATCMD s5 = Some i /\ fault s5 = false /\ nl_chars s5 = [ch_LF] /\
               length (g_buf ATCMD s5) = length (cbuf s) /\ mem s5 = mem s /\ u s5 = u s /\
               gL s5 = S (gL s) /\ gS s5 = gS s /\ gR s5 = gR s /\ k_cr (k s5) = false /\
               k_hold (k s5) = false).
  { split; [exact Hk3|]. split; [change (fault s3 = false); congruence|].
    split; [unfold nl_chars; change (k_cr (k s5)) with (k_cr (k s3)); rewrite E8, cr2; reflexivity|].
    split; [change (length (cbuf s3) = length (cbuf s)); congruence|].
    split; [change (mem s3 = mem s); congruence|].
    split; [change (u s3 = u s); congruence|].
    split; [change (S (gL s3) = S (gL s)); congruence|].
    split; [change (gS s3 = gS s); congruence|].
    split; [change (gR s3 = gR s); congruence|].
    split; [change (k_cr (k s3) = false); congruence|].
    change (k_hold (k s3) = false); congruence. }
  destruct R5 as (Hg5 & Hf5 & Hnl5 & Hlen5 & Hm5 & Hu5 & Hgl5 & Hgs5 & Hgr5 & Hcr5 & Hho5).
  assert (Hlen7 : length (cbuf s7) = length (cbuf s)) by (rewrite L7; exact Hlen5).
  (* the failing outcome, shared by "does not fit" and "no text" *)
  assert (FAIL : Lemmas_C19.TFail ATCMD s7 ->
    exists calls s9,
      osteps calls s ([ch_A; ch_T] ++ name ++ [ch_EQ; ch_QM; ch_LF] ++ rest) s9 rest
             ([ch_LF] ++ txt_ERROR ++ [ch_LF]) /\ Lemmas_E2E.line_done s s9).
  { intros (T1 & (T2 & T3 & T4) & _).
    destruct (FL7 T2) as (Q1 & Q2 & Q3 & _ & Q5). specialize (Q5 T3).
    assert (I7 : In 0%N (cbuf s7)).
    { apply in0_of_text. rewrite T4, Hlen7. cbn [length txt_ERROR]. lia. }
    destruct (Lemmas_E2E.result_tail D Hmx s7 rest txt_ERROR Hi7 (conj T2 (conj Q1 (conj Q2 Q3))) T3
                ltac:(congruence) ltac:(congruence) I7 T4)
      as (s9 & O6 & R1 & R2 & R3 & R4 & R5 & R6 & R7 & R8 & R9 & R10 & _).
    exists (c1 + (1 + (1 + (1 + (j + (7 + length txt_ERROR)))))), s9. split.
    - eapply Lemmas_E2E.osteps_cast;
        [exact (Lemmas_E2E.osteps_trans D _ _ _ _ _ _ _ _ _ _ (Lemmas_E2E.osteps_of_steps D _ _ _ _ _ H1)
                 (Lemmas_E2E.osteps_trans D _ _ _ _ _ _ _ _ _ _ (Lemmas_E2E.osteps_of_steps D _ _ _ _ _ H2)
                   (Lemmas_E2E.osteps_trans D _ _ _ _ _ _ _ _ _ _ (Lemmas_E2E.osteps_of_steps D _ _ _ _ _ H3)
                     (Lemmas_E2E.osteps_trans D _ _ _ _ _ _ _ _ _ _ (Lemmas_E2E.osteps_of_steps D _ _ _ _ _ H4)
                       (Lemmas_E2E.osteps_trans D _ _ _ _ _ _ _ _ _ _ (Lemmas_E2E.osteps_of_steps D _ _ _ _ _ H5) O6)))))
        | reflexivity | reflexivity].
    - unfold Lemmas_E2E.line_done. repeat split; congruence. }
  (* 6. the text *)
  unfold test_line_out, spec_test_text.
  fold (Lemmas_C19.descr_text c [ch_LF]).
  destruct (all_some (map var_info_text (c_vars c))) as [infos|] eqn:Ha.
  - set (txt := c_name c ++ [ch_EQ] ++ join_comma infos ++ Lemmas_C19.descr_text c [ch_LF]).
    destruct (Nat.ltb_spec (length txt) (length (cbuf s))) as [Hlt|Hge].
    + (* it fits: the text, then OK *)
      destruct (Lemmas_C19.test_ok D ATCMD s5 i c infos Hg5 Hc' Hf5 Ha) as (D1 & (r & D2) & D3 & D4 & _).
      { rewrite Hnl5, Hlen5. exact Hlt. }
      rewrite Hnl5 in D2. fold txt in D2. fold s7 in D1, D2, D3, D4. cbn [g_buf] in D2.
      unfold test_done in D4. rewrite Hht in D4. destruct D4 as (T2 & T3 & T4).
      destruct (FL7 T2) as (Q1 & Q2 & Q3 & Q4 & _). specialize (Q4 T3).
      assert (I7 : In 0%N (cbuf s7)) by (rewrite D2; apply in_or_app; right; left; reflexivity).
      assert (HT7 : text_of (cbuf s7) = text_of txt) by (rewrite D2; apply text_of_app0_gen).
      destruct (Lemmas_E2E.emit_unit D Hmx s7 rest (text_of txt) Hi7 (conj T2 (conj Q1 (conj Q2 Q3)))
                  ltac:(congruence) I7 HT7) as (s8 & O6 & K8 & A8 & G8).
      rewrite T3 in A8, G8. cbn [cstate_beq] in G8.
      destruct K8 as (K1 & K2 & K3 & K4 & K5 & K6 & K7 & K8).
      assert (Hi8 : idle s8) by (apply (Lemmas_C02e.idle_of_u s7); assumption).
      destruct (Lemmas_E2E.ok_tail D Hmx s8 rest Hi8 A8) as (s9 & O7 & R1 & R2 & R3 & R4 & R5 & R6 & R7 & R8 & R9 & R10);
        [congruence | congruence | rewrite K8, Hlen7; exact H6 |].
      exists (c1 + (1 + (1 + (1 + (j + ((6 + length (text_of txt)) + 10)))))), s9. split.
      * eapply Lemmas_E2E.osteps_cast;
          [exact (Lemmas_E2E.osteps_trans D _ _ _ _ _ _ _ _ _ _ (Lemmas_E2E.osteps_of_steps D _ _ _ _ _ H1)
                   (Lemmas_E2E.osteps_trans D _ _ _ _ _ _ _ _ _ _ (Lemmas_E2E.osteps_of_steps D _ _ _ _ _ H2)
                     (Lemmas_E2E.osteps_trans D _ _ _ _ _ _ _ _ _ _ (Lemmas_E2E.osteps_of_steps D _ _ _ _ _ H3)
                       (Lemmas_E2E.osteps_trans D _ _ _ _ _ _ _ _ _ _ (Lemmas_E2E.osteps_of_steps D _ _ _ _ _ H4)
                         (Lemmas_E2E.osteps_trans D _ _ _ _ _ _ _ _ _ _ (Lemmas_E2E.osteps_of_steps D _ _ _ _ _ H5)
                           (Lemmas_E2E.osteps_trans D _ _ _ _ _ _ _ _ _ _ O6 O7))))))
          | reflexivity |].
        cbn [app]. rewrite <- !app_assoc. reflexivity.
      * unfold Lemmas_E2E.line_done. repeat split; congruence.
    + (* it does not fit: ERROR *)
      apply FAIL. apply (Lemmas_C19.test_fail D ATCMD s5 i c Hg5 Hc' Hf5).
      * intros _. rewrite Hlen5. exact H6.
      * rewrite Ha, Hnl5, Hlen5. exact Hge.
  - (* a variable of an unsupported width: ERROR *)
    apply FAIL. apply (Lemmas_C19.test_fail D ATCMD s5 i c Hg5 Hc' Hf5).
    + intros _. rewrite Hlen5. exact H6.
    + rewrite Ha. exact I.
Qed.

End Lines.
End TestLine.

(* ---------- B5. no NUL in the text, from the strings of the descriptor ---------- *)
Lemma type_name_no_nul : forall t sz tn, type_name t sz = Some tn -> ~ In 0%N tn.
Proof.
  intros t sz tn H. destruct t; unfold type_name in H;
    try (destruct (supported_width sz); [|discriminate H]); injection H as <-;
    unfold width_digits; try (destruct (sz =? 1); [|destruct (sz =? 2)]);
    cbn [app In]; intuition discriminate.
Qed.

Lemma notin0_concat : forall ps : list (list N), Forall (fun p => ~ In 0%N p) ps -> ~ In 0%N (concat ps).
Proof.
  intros ps H Hin. apply in_concat in Hin. destruct Hin as (p & Hp & H0).
  rewrite Forall_forall in H. exact (H p Hp H0).
Qed.

Lemma info_no_nul : forall v info, (forall nm, v_name v = Some nm -> ~ In 0%N nm) ->
  var_info_text v = Some info -> ~ In 0%N info.
Proof.
  intros v info Hnm H. unfold var_info_text in H.
  destruct (type_name (v_type v) (v_size v)) as [tn|] eqn:Et; [|discriminate H]. injection H as <-.
  pose proof (type_name_no_nul _ _ _ Et) as Htn.
  assert (S1 : forall x : N, x <> 0%N -> ~ In 0%N [x]).
  { intros x Hx [E|[]]. exact (Hx E). }
  assert (Ha : ~ In 0%N (access_name (v_access v))).
  { destruct (v_access v); cbn [access_name In]; intuition discriminate. }
  change (~ In 0%N (concat (info_pieces v tn))). apply notin0_concat. unfold info_pieces.
  destruct (v_name v) as [nm|]; cbn [app];
    repeat (constructor; try (apply S1; discriminate); try assumption).
  exact (Hnm nm eq_refl).
Qed.

Lemma infos_no_nul : forall vs infos,
  (forall v nm, In v vs -> v_name v = Some nm -> ~ In 0%N nm) ->
  all_some (map var_info_text vs) = Some infos -> Forall (fun t => ~ In 0%N t) infos.
Proof.
  induction vs as [|v vs IH]; intros infos Hnm Ha.
  - cbn [map all_some] in Ha. injection Ha as <-. constructor.
  - destruct (Lemmas_C19.all_some_cons _ _ _ Ha) as (info & infos' & -> & Hi & Ha').
    constructor.
    + apply (info_no_nul v info); [|exact Hi]. intros nm E. exact (Hnm v nm (or_introl eq_refl) E).
    + apply IH; [|exact Ha']. intros v' nm Hin E. exact (Hnm v' nm (or_intror Hin) E).
Qed.

Lemma spec_test_text_no_nul_proof : forall c nl txt,
  ~ In 0%N (c_name c) ->
  (forall v nm, In v (c_vars c) -> v_name v = Some nm -> ~ In 0%N nm) ->
  (forall d, c_descr c = Some d -> ~ In 0%N d) ->
  ~ In 0%N nl ->
  spec_test_text c nl = Some txt -> ~ In 0%N txt.
Proof.
  intros c nl txt Hname Hvars Hd Hnl H. unfold spec_test_text in H.
  destruct (all_some (map var_info_text (c_vars c))) as [infos|] eqn:Ha; [|discriminate H].
  injection H as <-.
  pose proof (Lemmas_C07e.notin0_join infos (infos_no_nul _ _ Hvars Ha)) as Hj.
  intro Hin. apply in_app_or in Hin. destruct Hin as [Hin|Hin]; [exact (Hname Hin)|].
  destruct Hin as [E|Hin]; [discriminate E|].
  apply in_app_or in Hin. destruct Hin as [Hin|Hin]; [exact (Hj Hin)|].
  destruct (c_descr c) as [d|]; [|exact Hin].
  apply in_app_or in Hin. destruct Hin as [Hin|Hin]; [exact (Hnl Hin) | exact (Hd d eq_refl Hin)].
Qed.

(* ---------- B6. the final statements ---------- *)
(* NUL bytes in the descriptor's strings allowed: the printed text ends at its first NUL *)
Theorem E2E_test_line_nul_proof : forall D s name rest h i c,
  d_mutex D = false -> 0 < ncmds D -> ncmds D <= 4 * length (cbuf s) -> 6 <= length (cbuf s) ->
  fault s = false ->
  k_state (k s) = CS_IDLE -> k_cr (k s) = false -> k_implicit (k s) = false -> k_hold (k s) = false ->
  u_state (u s) = US_IDLE -> u_count (u s) = 0 ->
  name_ok name = true -> implicit_hit D s (upper name) = false ->
  resolve (upper name) (enabled D s) (cmds D) = Some i -> nth_error (cmds D) i = Some c ->
  c_vars c <> [] -> c_htest c = false -> c_implicit c = false ->
  let w0 := mkw s ([ch_A; ch_T] ++ name ++ [ch_EQ; ch_QM; ch_LF] ++ rest) h [] in
  exists calls, let w := nsvc D calls w0 in
    k_state (k (wst w)) = CS_IDLE /\ inq (wio w) = rest /\ whs w = h /\ calls_of (wtr w) = [] /\
    mem (wst w) = mem s /\ fault (wst w) = false /\
    output_of (wtr w) =
      match spec_test_text c [ch_LF] with
      | Some txt =>
        if length txt <? length (cbuf s)
        then [ch_LF] ++ text_of txt ++ [ch_LF] ++ [ch_LF] ++ txt_OK ++ [ch_LF]
        else [ch_LF] ++ txt_ERROR ++ [ch_LF]
      | None => [ch_LF] ++ txt_ERROR ++ [ch_LF]
      end /\
    gL (wst w) = S (gL s) /\ gS (wst w) = S (gS s) /\ gR (wst w) = S (gR s).
Proof.
  intros D s name rest h i c Hmx Hn HL H6 Hf Hst Hcr Himp Hhold Hu1 Hu2 Hok Hh Hres Hc Hv Hht Him w0.
  destruct (test_line_osteps D Hmx s Hn HL H6 Hf Hst Hcr Himp Hhold (conj Hu1 Hu2)
              name rest i c Hok Hh Hres Hc Hv Hht Him)
    as (calls & s4 & O & (L1 & L2 & L3 & L4 & L5 & L6 & L7 & _)).
  exists calls. intros w.
  destruct (Lemmas_E2E.osteps_world D calls s _ s4 rest _ h O) as (E1 & E2 & E3 & E4 & E5).
  fold w0 in E1, E2, E3, E4, E5. fold w in E1, E2, E3, E4, E5. rewrite E1.
  repeat (split; [assumption|]). assumption.
Qed.

Theorem E2E_test_line_proof : forall D s name rest h i c,
  d_mutex D = false -> 0 < ncmds D -> ncmds D <= 4 * length (cbuf s) -> 6 <= length (cbuf s) ->
  fault s = false ->
  k_state (k s) = CS_IDLE -> k_cr (k s) = false -> k_implicit (k s) = false -> k_hold (k s) = false ->
  u_state (u s) = US_IDLE -> u_count (u s) = 0 ->
  name_ok name = true -> implicit_hit D s (upper name) = false ->
  resolve (upper name) (enabled D s) (cmds D) = Some i -> nth_error (cmds D) i = Some c ->
  c_vars c <> [] -> c_htest c = false -> c_implicit c = false ->
  (forall txt, spec_test_text c [ch_LF] = Some txt -> ~ In 0%N txt) ->
  let w0 := mkw s ([ch_A; ch_T] ++ name ++ [ch_EQ; ch_QM; ch_LF] ++ rest) h [] in
  exists calls, let w := nsvc D calls w0 in
    k_state (k (wst w)) = CS_IDLE /\ inq (wio w) = rest /\ whs w = h /\ calls_of (wtr w) = [] /\
    mem (wst w) = mem s /\ fault (wst w) = false /\
    output_of (wtr w) =
      match spec_test_text c [ch_LF] with
      | Some txt =>
        if length txt <? length (cbuf s)
        then [ch_LF] ++ txt ++ [ch_LF] ++ [ch_LF] ++ txt_OK ++ [ch_LF]
        else [ch_LF] ++ txt_ERROR ++ [ch_LF]
      | None => [ch_LF] ++ txt_ERROR ++ [ch_LF]
      end /\
    gL (wst w) = S (gL s) /\ gS (wst w) = S (gS s) /\ gR (wst w) = S (gR s).
Proof.
  intros D s name rest h i c Hmx Hn HL H6 Hf Hst Hcr Himp Hhold Hu1 Hu2 Hok Hh Hres Hc Hv Hht Him Hnul w0.
  destruct (E2E_test_line_nul_proof D s name rest h i c Hmx Hn HL H6 Hf Hst Hcr Himp Hhold Hu1 Hu2
              Hok Hh Hres Hc Hv Hht Him) as (calls & R).
  exists calls. fold w0 in R. cbv zeta in R |- *.
  destruct (spec_test_text c [ch_LF]) as [txt|]; [|exact R].
  rewrite (text_of_no_nul txt (Hnul txt eq_refl)) in R. exact R.
Qed.
End P4.

(* ====================================================================================== *)
Module P5.
(* P5: property C07 (round trip) through the real line reader.
   A. READ line, then the WRITE line whose argument text is the echoed response: two-world form, the
      re-entrancy facts of a READ line, and both lines in one input queue.
   B. read-only variables: READ prints them, the WRITE of the echoed text parses and validates their
      fields without storing. *)

Local Notation wst := (Fsm.st sio smu shs).
Local Notation wio := (Fsm.io sio smu shs).
Local Notation whs := (Fsm.hs sio smu shs).
Local Notation wtr := (Fsm.tr sio smu shs).
Local Notation idle := Lemmas_C02e.idle.
Local Notation same_shape := Lemmas_C07e.same_shape.
Local Notation same_value := Lemmas_C07.same_value.
Local Notation slot_text := Lemmas_C07e.slot_text.
Local Notation read_args_text := Lemmas_C07e.read_args_text.

(* ================= 0. definitions used in the statements ================= *)

(* Lemmas_C07e.rt_var_ok with read-only variables allowed *)
Definition rt_var_ok' (m : list (list N)) (v : var) : Prop :=
  (v_access v = RW \/ v_access v = RO) /\ v_hread v = false /\ v_hwrite v = false /\
  exists data, nth_error m (v_slot v) = Some data /\ length data = v_size v /\
    Forall (fun b => (b < 256)%N) data /\
    (v_type v = VBufStr -> In 0%N data) /\ (v_type v = VBufHex -> 0 < v_size v) /\
    (is_numeric (v_type v) = true -> supported_width (v_size v) = true).

Definition rt_cmd_ok' (m : list (list N)) (c : cmd) : Prop :=
  c_vars c <> [] /\ Forall (rt_var_ok' m) (c_vars c) /\ NoDup (map v_slot (c_vars c)) /\
  c_hread c = false /\ c_hwrite c = false /\ c_only_test c = false /\ ~ In 0%N (c_name c).

Lemma rt_var_ok_weaken : forall m v, Lemmas_C07e.rt_var_ok m v -> rt_var_ok' m v.
Proof. intros m v (A & B). split; [left; exact A | exact B]. Qed.

Lemma rt_cmd_ok_weaken : forall m c, Lemmas_C07e.rt_cmd_ok m c -> rt_cmd_ok' m c.
Proof.
  intros m c (A & B & C). split; [exact A|]. split; [|exact C].
  eapply Forall_impl; [|exact B]. apply rt_var_ok_weaken.
Qed.

(* what the lookup, the formatting and the flush never change: the implicit-write flag is clear again
   after the sweep, the enable flags are only changed by the application *)
Definition x3 (s : state) : bool * list bool * list bool := (k_implicit (k s), dis_cmd s, dis_grp s).
Definition dis2 (s : state) : list bool * list bool := (dis_cmd s, dis_grp s).

Lemma enabled_dis : forall D s s', dis_cmd s' = dis_cmd s -> dis_grp s' = dis_grp s ->
  enabled D s' = enabled D s.
Proof. intros D s s' H1 H2. unfold enabled, is_command_disable. rewrite H1, H2. reflexivity. Qed.

Lemma implicit_hit_dis : forall D s s' t, dis_cmd s' = dis_cmd s -> dis_grp s' = dis_grp s ->
  implicit_hit D s' t = implicit_hit D s t.
Proof. intros D s s' t H1 H2. unfold implicit_hit. rewrite (enabled_dis D s s' H1 H2). reflexivity. Qed.

Lemma same_shape_refl : forall m, same_shape m m.
Proof. reflexivity. Qed.

Lemma echo_args : forall (nm args : list N), skipn (S (length nm)) (nm ++ [ch_EQ] ++ args) = args.
Proof.
  intros nm args. replace (nm ++ [ch_EQ] ++ args) with ((nm ++ [ch_EQ]) ++ args)
    by (rewrite <- app_assoc; reflexivity).
  replace (S (length nm)) with (length (nm ++ [ch_EQ])) by (rewrite app_length; cbn [length]; lia).
  apply Lemmas_C07e.skipn_app_len.
Qed.

Lemma strncpy_len : forall m t, length (strncpy_buf m t) = m.
Proof.
  intros m t. unfold strncpy_buf. rewrite firstn_length, app_length, repeat_length.
  apply Nat.min_l. lia.
Qed.

Section P5.
Variable D : desc.
Hypothesis Hmx : d_mutex D = false.
Local Notation n := (ncmds D).
Local Notation cmdsvc := (cmd_service D sio smu shs s_read s_write s_lock s_unlock s_call).
Local Notation steps := (Lemmas_C02e.steps D).
Local Notation osteps := (Lemmas_E2E.osteps D).
Local Notation keep := Lemmas_E2E.keep.
Local Notation keepf := Lemmas_E2E.keepf.
Local Notation post := Lemmas_E2E.post.
Local Notation fresh := Lemmas_E2E.fresh.
Local Notation six := Lemmas_E2E.six.

(* ================= 1. frames of the name lookup ================= *)
Lemma dis2_update : forall s, dis2 (update_command D s) = dis2 s.
Proof.
  intros s. rewrite Lemmas_C02.update_command_unf.
  destruct (cmd_by_index (d_groups D) (k_index (k s))) as [c|]; [|reflexivity].
  destruct (get_cmd_state D s (k_index (k s))) as [cs|]; [|reflexivity].
  unfold Lemmas_C02.upd_fin, Lemmas_C02.upd_s1, set_cmd_state, prepare_search_command.
  Lemmas_E2E.destr_all; reflexivity.
Qed.

Lemma dis2_iter_upd : forall m s, dis2 (iter m (update_command D) s) = dis2 s.
Proof. induction m as [|m IH]; intros s; [reflexivity|]. simpl iter. rewrite IH. apply dis2_update. Qed.

Lemma dis2_ncs : forall s ch, dis2 (name_char_step D s ch) = dis2 s.
Proof. intros s ch. unfold name_char_step. rewrite dis2_iter_upd. reflexivity. Qed.

Lemma dis2_fold_ncs : forall t s, dis2 (fold_left (name_char_step D) t s) = dis2 s.
Proof. induction t as [|c t IH]; intros s; [reflexivity|]. simpl fold_left. rewrite IH. apply dis2_ncs. Qed.

Lemma dis2_run : forall s t, dis2 (Lemmas_C02e.run D s t) = dis2 s.
Proof. intros s t. unfold Lemmas_C02e.run. rewrite dis2_fold_ncs. reflexivity. Qed.

Lemma x3_search : forall s, x3 (search_command D s) = x3 s.
Proof.
  intros s. unfold search_command.
  destruct (get_cmd_state D s (k_index (k s))) as [cs|]; [|reflexivity].
  cbv zeta. Lemmas_C11.scbn. Lemmas_E2E.destr_all; reflexivity.
Qed.

Lemma x3_search_run : forall fuel s, x3 (search_run D fuel s) = x3 s.
Proof.
  induction fuel as [|f IH]; intros s; [reflexivity|]. simpl search_run.
  destruct (cstate_beq (k_state (k s)) CS_SEARCH_COMMAND); [|reflexivity].
  rewrite IH. apply x3_search.
Qed.

Section Line.
Variable s : state.
Hypothesis Hn : 0 < n.
Hypothesis HL : n <= 4 * length (cbuf s).
Hypothesis Hf : fault s = false.
Hypothesis Hst : k_state (k s) = CS_IDLE.
Hypothesis Himp : k_implicit (k s) = false.
Hypothesis Hidle : idle s.

Local Notation run := (Lemmas_C02e.run D s).
Local Notation tweak := Lemmas_C02e.tweak.
Local Notation looked_up := (Lemmas_C02e.looked_up D s).

Lemma x3_run : forall typed, typed <> [] -> implicit_hit D s typed = false ->
  x3 (run typed) = (false, dis_cmd s, dis_grp s).
Proof.
  intros typed Hne Hh.
  pose proof (dis2_run s typed) as E. unfold dis2 in E.
  destruct (Lemmas_C02.C02_lanes D (Lemmas_C02e.sT s) typed Hn HL Hf Himp Hh) as (_ & I & _).
  rewrite <- (Lemmas_C02e.run_eq D s typed Hne) in I.
  unfold x3. rewrite I. congruence.
Qed.

(* Lemmas_E2E.finish_search_ex, with the implicit flag and the enable flags of the final state *)
Lemma finish_search_ex3 : forall typed term ty cr g q,
  typed <> [] -> implicit_hit D s typed = false ->
  exists j s2, j <= n /\ steps j (tweak ty cr g (start_search (run typed) term)) q s2 q /\
    looked_up typed term ty s2 /\
    six s2 = (g, gS s, gR s, cr, k_hold (k s), length (cbuf s)) /\
    x3 s2 = (false, dis_cmd s, dis_grp s).
Proof.
  intros typed term ty cr g q Hne Hh.
  set (r := run typed). set (X := start_search r term).
  set (s2 := search_run D n X).
  destruct (Lemmas_C02e.run_good D s Hn HL Hf Himp Hidle typed Hh) as [_ [_ [_ [_ [Hi [Hu Hm]]]]]].
  fold r in Hi, Hu, Hm.
  pose proof (Lemmas_C02.C02_resolve D (Lemmas_C02e.sT s) typed term Hn HL Hf Himp Hne Hh) as R.
  cbv zeta in R. rewrite <- (Lemmas_C02e.run_eq D s typed Hne) in R. fold r X s2 in R. destruct R as [F R].
  change (enabled D (Lemmas_C02e.sT s)) with (enabled D s) in R.
  destruct (Lemmas_C02e.search_run_frame D n X) as [A [B [C E]]]. fold s2 in A, B, C, E.
  assert (Hend : k_state (k (search_run D n (tweak ty cr g X))) <> CS_SEARCH_COMMAND).
  { rewrite Lemmas_C02e.search_run_tweak. fold s2.
    change (k_state (k (tweak ty cr g s2))) with (k_state (k s2)).
    destruct (resolve typed (enabled D s) (cmds D)) as [i|].
    - destruct R as [R _]. rewrite R. discriminate.
    - rewrite R. destruct (term =? ch_LF)%N; discriminate. }
  destruct (Lemmas_C02e.search_steps D Hmx n (tweak ty cr g X) q) as [j [Hj Hst']];
    [exact Hi | reflexivity | exact Hend |].
  exists j, (tweak ty cr g s2). split; [exact Hj|]. split.
  { rewrite Lemmas_C02e.search_run_tweak in Hst'. exact Hst'. }
  split; [|split].
  - unfold Lemmas_C02e.looked_up. split; [change (mem s2 = mem s); rewrite B; exact Hm|]. split; [exact F|].
    split; [change (u s2 = u s); rewrite A; exact Hu|].
    destruct (resolve typed (enabled D s) (cmds D)) as [i|].
    + destruct R as [R1 R2]. split; [exact R1|]. split; [exact R2|]. split; [reflexivity|].
      change (k_char (k (tweak ty cr g s2))) with (k_char (k s2)). rewrite C. reflexivity.
    + exact R.
  - rewrite Lemmas_E2E.six_tweak.
    assert (E6 : six s2 = six s).
    { unfold s2. rewrite Lemmas_E2E.six_search_run. change (six X) with (six r). apply Lemmas_E2E.six_run. }
    unfold Lemmas_E2E.six in E6. congruence.
  - change (x3 (tweak ty cr g s2)) with (x3 s2). unfold s2. rewrite x3_search_run.
    change (x3 X) with (x3 r). exact (x3_run typed Hne Hh).
Qed.

(* "AT" name "?" LF *)
Lemma dispatch_read_ex3 : forall name rest,
  name_ok name = true -> implicit_hit D s (upper name) = false ->
  exists calls s2, steps calls s ([ch_A; ch_T] ++ name ++ [ch_QM; ch_LF] ++ rest) s2 rest /\
    looked_up (upper name) ch_LF T_READ s2 /\
    six s2 = (S (gL s), gS s, gR s, k_cr (k s), k_hold (k s), length (cbuf s)) /\
    x3 s2 = (false, dis_cmd s, dis_grp s).
Proof.
  intros name rest Hok Hh.
  destruct (Lemmas_C02e.name_ok_split name Hok) as [Hne Hc].
  pose proof (Lemmas_E2E.upper_ne name Hne) as Hne'.
  destruct (Lemmas_E2E.six_run_parts D s (upper name)) as [G C].
  destruct (finish_search_ex3 (upper name) ch_LF T_READ (k_cr (k (run (upper name))))
              (S (gL (run (upper name)))) rest Hne' Hh) as [j [s2 [Hj [H6 [HR [H7 H8]]]]]].
  exists (2 + (length name * S n + (1 + (1 + j)))), s2. split; [|split; [exact HR|split; [|exact H8]]].
  - simpl app.
    eapply Lemmas_C02e.steps_trans; [apply (Lemmas_C02e.at_steps D Hmx s Hst Hidle)|].
    eapply Lemmas_C02e.steps_trans;
      [apply (Lemmas_C02e.name_steps D Hmx s Hn HL Hf Himp Hidle name (ch_QM :: ch_LF :: rest) Hc Hh)|].
    eapply Lemmas_C02e.steps_trans;
      [apply (Lemmas_C02e.qm_step D Hmx s Hn HL Hf Himp Hidle (upper name) (ch_LF :: rest) Hne' Hh)|].
    eapply Lemmas_C02e.steps_trans;
      [apply (Lemmas_C02e.lf_step D Hmx s Hn HL Hf Himp Hidle (upper name) Hh) | exact H6].
  - rewrite H7, G, C. reflexivity.
Qed.

End Line.


(* ================= 2. the READ formatting loop, read-only variables allowed, with the frame x3 ================= *)
Ltac brk := repeat (cbv beta iota zeta; match goal with
  | |- context [match ?x with _ => _ end] =>
      lazymatch x with
      | context [match _ with _ => _ end] => fail
      | _ => destruct x
      end
  end).

Lemma x3_put_cur : forall c1 s, x3 (put_cur ATCMD c1 s) = x3 s.
Proof. intros c1 s. unfold put_cur. destruct (cu_fault c1); reflexivity. Qed.

Lemma x3_print_string : forall s t, x3 (fst (print_string ATCMD s t)) = x3 s.
Proof.
  intros s t. unfold print_string. destruct (print_nstring (get_cur ATCMD s) t) as [c1 ok].
  cbn [fst]. apply x3_put_cur.
Qed.

Lemma x3_fra_state : forall c v s, x3 (Lemmas_C07e.fra_state D c v s) = x3 s.
Proof.
  intros c v s. unfold Lemmas_C07e.fra_state.
  destruct (nth_error (mem s) (v_slot v)) as [data|]; [|reflexivity].
  destruct (fmt_var v data (get_cur ATCMD s)) as [c1 ok].
  pose proof (x3_put_cur c1 s) as E. set (s1 := put_cur ATCMD c1 s) in *. clearbody s1. rewrite <- E.
  destruct ok; cbn [negb]; [|reflexivity].
  unfold Lemmas_C07e.fra_rest, next_format_var, cmd_of. brk; reflexivity.
Qed.

Lemma x3_spfra : forall s, x3 (start_processing_format_read_args D ATCMD s) = x3 s.
Proof.
  intros s. unfold start_processing_format_read_args. cbv zeta.
  change (x3 s) with (x3 (setg_pos ATCMD 0 s)).
  set (s0 := setg_pos ATCMD 0 s). clearbody s0.
  destruct (cmd_of D ATCMD s0) as [c|]; [|reflexivity].
  pose proof (x3_print_string s0 (c_name c)) as E1.
  destruct (print_string ATCMD s0 (c_name c)) as [s1 ok1]. cbn [fst] in E1. rewrite <- E1.
  destruct ok1; cbn [negb]; [|reflexivity].
  pose proof (x3_print_string s1 [ch_EQ]) as E2.
  destruct (print_string ATCMD s1 [ch_EQ]) as [s2 ok2]. cbn [fst] in E2. rewrite <- E2.
  destruct ok2; cbn [negb]; [|reflexivity].
  brk; reflexivity.
Qed.

Lemma var_facts' : forall m v txt, rt_var_ok' m v -> slot_text m v = Some txt ->
  exists data, nth_error m (v_slot v) = Some data /\ var_text v data = Some txt /\
               length data = v_size v /\ (v_type v = VBufHex -> 0 < v_size v) /\
               Forall (fun b => (b < 256)%N) data /\ (v_type v = VBufStr -> In 0%N data).
Proof.
  intros m v txt (_ & _ & _ & data & Hd & Hl & Hb & Hs & Hh & _) Ht.
  unfold Lemmas_C07e.slot_text in Ht. rewrite Hd in Ht. exists data. auto 10.
Qed.

(* every variable is readable: the READ response is served from the variables *)
Lemma vap_ro : forall m c, c_vars c <> [] -> Forall (rt_var_ok' m) (c_vars c) ->
  vars_access_possible c RO = true.
Proof.
  intros m c Hne Hok. unfold vars_access_possible.
  destruct (c_vars c) as [|v vs]; [congruence|]. inversion Hok as [|? ? ([A|A] & _) _]; subst;
    cbn [existsb]; rewrite A; reflexivity.
Qed.

(* Lemmas_C07e.read_start_ok for any command that serves READ from its variables *)
Lemma read_start_ok' : forall s ci c,
  g_cmd ATCMD s = Some ci -> nth_error (pool D) ci = Some c -> fault s = false ->
  vars_access_possible c RO = true ->
  length (c_name c) + 1 < length (cbuf s) ->
  exists r, Lemmas_C07e.RInv D c (mem s) (start_processing_format_read_args D ATCMD s) 0
                 (c_name c ++ [ch_EQ]) (0%N :: r) (nl_chars s) (length (cbuf s)) /\
            length (c_name c) + 1 + S (length r) = length (cbuf s).
Proof.
  intros s ci c Hg Hc Hf Hvap Hl.
  pose proof (Lemmas_C19.BInv_start D ATCMD s ci c Hg Hc Hf) as HB0.
  unfold start_processing_format_read_args. cbv zeta.
  set (s0 := setg_pos ATCMD 0 s) in *. set (nl := nl_chars s) in *.
  cbn [g_buf] in HB0. set (bsz := length (cbuf s)) in *.
  pose proof HB0 as (_ & H2 & H3 & H4 & _). rewrite H2.
  rewrite Lemmas_C19.print_string_as_strings.
  destruct (Lemmas_C19.ps_ok ATCMD s0 [] (cbuf s) (c_name c) [] H3 H4) as [r1 [E1 L1]].
  { cbn [concat]. rewrite app_nil_r. lia. }
  rewrite E1. cbn [negb]. cbn [concat app] in E1, L1 |- *. rewrite app_nil_r in *.
  assert (HB1 : Lemmas_C19.BInv D ATCMD c (setg_pos ATCMD (length (c_name c))
                                  (setg_buf ATCMD (c_name c ++ 0%N :: r1) s0))
                     (c_name c) (0%N :: r1) nl bsz).
  { apply (Lemmas_C19.BInv_set D ATCMD c s0 [] (cbuf s)); [exact HB0|]. cbn [length] in *. lia. }
  set (s1 := setg_pos ATCMD (length (c_name c)) (setg_buf ATCMD (c_name c ++ 0%N :: r1) s0)) in *.
  pose proof HB1 as (_ & H2' & H3' & H4' & _).
  rewrite Lemmas_C19.print_string_as_strings.
  destruct (Lemmas_C19.ps_ok ATCMD s1 (c_name c) (0%N :: r1) [ch_EQ] [] H3' H4') as [r2 [E2 L2]].
  { cbn [concat app length] in *. lia. }
  rewrite E2. cbn [negb]. cbn [concat app] in E2, L2 |- *.
  assert (HB2 : Lemmas_C19.BInv D ATCMD c (setg_pos ATCMD (length (c_name c ++ [ch_EQ]))
                            (setg_buf ATCMD ((c_name c ++ [ch_EQ]) ++ 0%N :: r2) s1))
                     (c_name c ++ [ch_EQ]) (0%N :: r2) nl bsz).
  { apply (Lemmas_C19.BInv_set D ATCMD c s1 (c_name c) (0%N :: r1)); [exact HB1|].
    rewrite app_length. cbn [length] in *. lia. }
  rewrite Hvap.
  exists r2. split; [|cbn [length] in *; lia].
  unfold Lemmas_C07e.RInv. split; [|cbn; auto].
  destruct HB2 as (B1 & B2 & B3 & B4 & B5 & B6).
  unfold Lemmas_C19.BInv. repeat split; assumption.
Qed.

(* Lemmas_E2E.rloop_steps for rt_var_ok', with the frame x3 *)
Lemma rloop_steps' : forall c m nl bsz q, c_hread c = false ->
  forall vs v pre0 s t rest txts,
  c_vars c = pre0 ++ v :: vs -> Forall (rt_var_ok' m) (v :: vs) ->
  Lemmas_C07e.RInv D c m s (length pre0) t rest nl bsz -> idle s ->
  all_some (map (slot_text m) (v :: vs)) = Some txts ->
  length (join_comma txts) < length rest ->
  exists s', steps (length (v :: vs)) s q s' q /\
    Lemmas_C07e.RDone m s' (t ++ join_comma txts) bsz /\ post s s' /\ x3 s' = x3 s.
Proof.
  intros c m nl bsz q Hrd.
  induction vs as [|v2 vs IH]; intros v pre0 s t rest txts Hc Hok HR Hidl Ha Hl;
    destruct (Lemmas_C07e.all_some_cons_st _ _ _ _ Ha) as (txt & txts' & -> & Hi & Ha');
    inversion Hok as [|? ? Hokv Hokvs]; subst;
    destruct (var_facts' m v txt Hokv Hi) as (data & Hd & Ht & Hdl & Hhex & _);
    destruct Hokv as (_ & Hnr & _);
    pose proof (Lemmas_C19.nth_mid _ pre0 v) as Hn;
    pose proof HR as (HB & Hv & _ & Hst & _);
    pose proof HB as (_ & Hcmd & _);
    assert (Hnf : k_state (k s) <> CS_FLUSH_WAIT) by (rewrite Hst; discriminate).
  - specialize (Hn []). rewrite <- Hc, <- Hv in Hn.
    cbn [map all_some] in Ha'. injection Ha' as <-.
    rewrite Lemmas_C07e.join_comma_one in *.
    exists (Lemmas_C07e.fra_state D c v s). split; [apply (Lemmas_E2E.fra_one D Hmx); assumption|]. split; [|split].
    + apply (Lemmas_C07e.fra_last_ok D c m s (length pre0) t rest nl bsz v data txt); try assumption.
      rewrite Hc, app_length. cbn [length]. lia.
    + apply Lemmas_E2E.post_fra_state. exact Hnf.
    + apply x3_fra_state.
  - specialize (Hn (v2 :: vs)). rewrite <- Hc, <- Hv in Hn.
    destruct (Lemmas_C07e.all_some_cons_st _ _ _ _ Ha') as (txt2 & txts2 & -> & Hi2 & Ha2).
    rewrite Lemmas_C07e.join_comma_cons2 in *. rewrite app_length in Hl. cbn [length] in Hl.
    destruct (Lemmas_C07e.fra_more D c m s (length pre0) t rest nl bsz v data txt HR Hd Ht Hdl Hhex)
      as (r' & HR' & L); [lia| rewrite Hc, app_length; cbn [length]; lia |].
    pose proof (Lemmas_E2E.post_fra_state D c v s Hnf) as HP1.
    assert (Hst1 : k_state (k (Lemmas_C07e.fra_state D c v s)) <> CS_FLUSH_WAIT).
    { destruct HR' as (_ & _ & _ & E & _). rewrite E. discriminate. }
    specialize (IH v2 (pre0 ++ [v]) (Lemmas_C07e.fra_state D c v s)
                   (t ++ txt ++ [ch_COMMA]) r' (txt2 :: txts2)).
    replace (length (pre0 ++ [v])) with (S (length pre0)) in IH
      by (rewrite app_length; cbn [length]; lia).
    destruct IH as (s' & E & HD & HP2 & HX).
    + rewrite Hc, <- app_assoc. reflexivity.
    + exact Hokvs.
    + exact HR'.
    + apply (Lemmas_C02e.idle_of_u s); [apply HP1 | exact Hidl].
    + exact Ha'.
    + lia.
    + exists s'. split; [|split; [|split]].
      * change (length (v :: v2 :: vs)) with (1 + length (v2 :: vs)).
        eapply Lemmas_C02e.steps_trans; [apply (Lemmas_E2E.fra_one D Hmx); eassumption | exact E].
      * replace (t ++ txt ++ ch_COMMA :: join_comma (txt2 :: txts2))
          with ((t ++ txt ++ [ch_COMMA]) ++ join_comma (txt2 :: txts2))
          by (rewrite <- !app_assoc; reflexivity).
        exact HD.
      * exact (Lemmas_E2E.post_chain _ _ _ HP1 Hst1 HP2).
      * rewrite HX. apply x3_fra_state.
Qed.

Lemma slot_text_fold : forall m c, read_args_text m c =
  match all_some (map (slot_text m) (c_vars c)) with Some ts => Some (join_comma ts) | None => None end.
Proof. reflexivity. Qed.

(* the whole automatic READ response, from CS_COMMAND_FOUND to the start of the flush *)
Lemma read_steps' : forall s q ci c args, idle s -> k_state (k s) = CS_COMMAND_FOUND ->
  k_cmd (k s) = Some ci -> cmd_at D ci = Some c -> k_type (k s) = T_READ ->
  rt_cmd_ok' (mem s) c -> fault s = false ->
  read_args_text (mem s) c = Some args ->
  length (c_name c ++ [ch_EQ] ++ args) < length (cbuf s) ->
  exists s', steps (1 + length (c_vars c)) s q s' q /\
    Lemmas_C07e.RDone (mem s) s' (c_name c ++ [ch_EQ] ++ args) (length (cbuf s)) /\ post s s' /\
    x3 s' = x3 s.
Proof.
  intros s q ci c args Hidl Hs Hk Hc Hty (Hne & Hok & _ & Hrd & _ & Hot & _) Hf Ha Hfit.
  assert (Hnf : k_state (k s) <> CS_FLUSH_WAIT) by (rewrite Hs; discriminate).
  pose proof (Lemmas_E2E.found_read_step D Hmx s q ci c Hidl Hs Hk Hc Hty Hot) as H1.
  pose proof (vap_ro (mem s) c Hne Hok) as Hvap.
  unfold cmd_at in Hc. rewrite slot_text_fold in Ha.
  destruct (all_some (map (slot_text (mem s)) (c_vars c))) as [txts|] eqn:Hall; [|discriminate].
  injection Ha as <-.
  destruct (c_vars c) as [|v vs] eqn:Hvs; [congruence|].
  rewrite !app_length in Hfit. cbn [length] in Hfit.
  destruct (read_start_ok' s ci c Hk Hc Hf Hvap) as (r & HR & L); [lia|].
  pose proof (Lemmas_E2E.post_spfra D s Hnf) as HP1.
  pose proof (x3_spfra s) as HX1.
  set (s1 := start_processing_format_read_args D ATCMD s) in *.
  assert (Hst1 : k_state (k s1) <> CS_FLUSH_WAIT).
  { destruct HR as (_ & _ & _ & E & _). rewrite E. discriminate. }
  assert (Hi1 : idle s1) by (apply (Lemmas_C02e.idle_of_u s); [apply HP1 | exact Hidl]).
  destruct (rloop_steps' c (mem s) (nl_chars s) (length (cbuf s)) q Hrd vs v [] s1
              (c_name c ++ [ch_EQ]) (0%N :: r) txts Hvs Hok HR Hi1 Hall) as (s' & E & HD & HP2 & HX2).
  { cbn [length]. lia. }
  exists s'. split; [eapply Lemmas_C02e.steps_trans; [exact H1 | exact E]|]. split; [|split].
  - rewrite <- app_assoc in HD. exact HD.
  - exact (Lemmas_E2E.post_chain _ _ _ HP1 Hst1 HP2).
  - rewrite HX2. exact HX1.
Qed.

(* the response text contains no NUL *)
Lemma texts_no_nul' : forall m vs txts, Forall (rt_var_ok' m) vs ->
  all_some (map (slot_text m) vs) = Some txts -> Forall (fun t => ~ In 0%N t) txts.
Proof.
  intros m. induction vs as [|v vs IH]; intros txts Hok Ha.
  - cbn [map all_some] in Ha. injection Ha as <-. constructor.
  - destruct (Lemmas_C07e.all_some_cons_st _ _ _ _ Ha) as (txt & txts' & -> & Hi & Ha').
    inversion Hok as [|? ? Hokv Hokvs]; subst.
    destruct (var_facts' m v txt Hokv Hi) as (data & _ & Ht & Hdl & _ & Hb & _).
    constructor; [|exact (IH _ Hokvs Ha')].
    destruct (Lemmas_C07.C07_no_delim v data txt Hb ltac:(lia) Ht) as (A & _). exact A.
Qed.

Lemma txt_no_nul' : forall m c args, rt_cmd_ok' m c ->
  read_args_text m c = Some args -> ~ In 0%N (c_name c ++ [ch_EQ] ++ args).
Proof.
  intros m c args (_ & Hokv & _ & _ & _ & _ & Hname) Ha.
  rewrite slot_text_fold in Ha.
  destruct (all_some (map (slot_text m) (c_vars c))) as [txts|] eqn:Hall; [|discriminate].
  injection Ha as <-.
  pose proof (Lemmas_C07e.notin0_join txts (texts_no_nul' _ _ _ Hokv Hall)) as Hj.
  intro Hin. apply in_app_or in Hin. destruct Hin as [Hin|Hin]; [exact (Hname Hin)|].
  destruct Hin as [Hin|Hin]; [discriminate Hin|exact (Hj Hin)].
Qed.


(* ================= 3. the flush, the result code and the reset, with the frame x3 ================= *)
Lemma x3_flush_step : forall s, x3 (fst (Lemmas_C11.flush_step_c s)) = x3 s.
Proof.
  intros s. unfold Lemmas_C11.flush_step_c, Lemmas_C11.phase_switch_c. Lemmas_E2E.destr_all; reflexivity.
Qed.

Lemma x3_run_flush : forall m s, x3 (fst (Lemmas_C11.run_flush_c m s)) = x3 s.
Proof.
  induction m as [|m IH]; intros s; [reflexivity|].
  rewrite Lemmas_E2E.run_flush_S. cbn [fst]. rewrite IH. apply x3_flush_step.
Qed.

Lemma emit_unit3 : forall s q txt, idle s -> fresh s -> k_cr (k s) = false ->
  In 0%N (cbuf s) -> text_of (cbuf s) = txt ->
  exists s3, osteps (6 + length txt) s q s3 q ([ch_LF] ++ txt ++ [ch_LF]) /\ keep s s3 /\
    k_state (k s3) = k_wafter (k s) /\
    gR s3 = (if cstate_beq (k_wafter (k s)) CS_AFTER_RESET then S (gR s) else gR s) /\
    x3 s3 = x3 s.
Proof.
  intros s q txt Hi (Hs & Hp & Hw & Hb) Hcr H0 HT.
  assert (H1 : osteps 1 s q (setk_state CS_FLUSH s) q []).
  { apply (Lemmas_E2E.ostep_pure D Hmx s q (setk_state CS_FLUSH) Hi). intros h t. unfold cmd_service.
    cbn [Fsm.st mkw]. rewrite Hs. unfold busy, upd_st, process_io_write_wait. cbn [Fsm.st mkw].
    destruct Hi as [U _]. rewrite U. reflexivity. }
  set (sF := setk_state CS_FLUSH s) in *.
  destruct (Lemmas_E2E.unit_run D sF txt Hp Hw Hb H0 HT) as (s3 & R & K & A & G & Hall).
  cbv zeta in *. change (k_cr (k sF)) with (k_cr (k s)) in *. rewrite Hcr in *.
  change (3 + 2 * length (Lemmas_C11.nl_text false) + length txt) with (5 + length txt) in *.
  pose proof (Lemmas_E2E.flush_osteps D Hmx (5 + length txt) sF q Hi) as F.
  pose proof (x3_run_flush (5 + length txt) sF) as HX.
  rewrite R in F, HX. cbn [fst snd] in F, HX.
  exists s3. split; [|split; [exact K|split; [exact A|split; [exact G|exact HX]]]].
  change (6 + length txt) with (1 + (5 + length txt)).
  refine (Lemmas_E2E.osteps_trans D _ _ _ _ _ _ _ _ _ _ H1 _).
  apply F. intros j Hj. rewrite (Hall j Hj). reflexivity.
Qed.

Lemma result_tail3 : forall s q txt, idle s -> fresh s -> k_wafter (k s) = CS_AFTER_RESET ->
  k_cr (k s) = false -> k_hold (k s) = false -> In 0%N (cbuf s) -> text_of (cbuf s) = txt ->
  exists s4, osteps (7 + length txt) s q s4 q ([ch_LF] ++ txt ++ [ch_LF]) /\
    k_state (k s4) = CS_IDLE /\ mem s4 = mem s /\ fault s4 = fault s /\ u s4 = u s /\
    gL s4 = gL s /\ gS s4 = gS s /\ gR s4 = S (gR s) /\
    k_cr (k s4) = false /\ k_hold (k s4) = false /\ k_cmd (k s4) = None /\ cbuf s4 = cbuf s /\
    x3 s4 = x3 s.
Proof.
  intros s q txt Hi Hfr Haf Hcr Hh H0 HT.
  destruct (emit_unit3 s q txt Hi Hfr Hcr H0 HT) as (s3 & O & K & A & G & HX).
  rewrite Haf in A, G. cbn [cstate_beq] in G.
  pose proof K as (K1 & K2 & K3 & K4 & K5 & K6 & K7 & K8).
  assert (H2 : osteps 1 s3 q (reset_state s3) q []).
  { apply (Lemmas_E2E.ostep_pure D Hmx s3 q reset_state (Lemmas_E2E.idle_keep s s3 K Hi)). intros h t.
    unfold cmd_service. cbn [Fsm.st mkw]. rewrite A. reflexivity. }
  exists (reset_state s3). split.
  - replace (7 + length txt) with ((6 + length txt) + 1) by lia.
    eapply Lemmas_E2E.osteps_cast;
      [exact (Lemmas_E2E.osteps_trans D _ _ _ _ _ _ _ _ _ _ O H2) | reflexivity | apply app_nil_r].
  - assert (HX' : x3 (reset_state s3) = x3 s3).
    { unfold reset_state. destruct (k_hold (k s3)); reflexivity. }
    rewrite HX'. unfold reset_state. rewrite K7, Hh. Lemmas_C11.scbn. repeat split; congruence.
Qed.


Lemma ok_tail3 : forall s q, idle s -> k_state (k s) = CS_AFTER_OK ->
  k_cr (k s) = false -> k_hold (k s) = false -> 6 <= length (cbuf s) ->
  exists s4, osteps 10 s q s4 q ([ch_LF] ++ txt_OK ++ [ch_LF]) /\
    k_state (k s4) = CS_IDLE /\ mem s4 = mem s /\ fault s4 = fault s /\ u s4 = u s /\
    gL s4 = gL s /\ gS s4 = S (gS s) /\ gR s4 = S (gR s) /\
    k_cr (k s4) = false /\ k_hold (k s4) = false /\ k_cmd (k s4) = None /\
    length (cbuf s4) = length (cbuf s) /\ x3 s4 = x3 s.
Proof.
  intros s q Hi Hs Hcr Hh H6.
  assert (H1 : osteps 1 s q (ack_ok s) q []).
  { apply (Lemmas_E2E.ostep_pure D Hmx s q ack_ok Hi). intros h t. unfold cmd_service. cbn [Fsm.st mkw].
    rewrite Hs. reflexivity. }
  destruct (Lemmas_C19.ack_ok_props s H6) as (_ & _ & _ & HT).
  assert (Hfr : fresh (ack_ok s)) by (repeat split; reflexivity).
  assert (H0 : In 0%N (cbuf (ack_ok s))).
  { change (In 0%N (strncpy_buf (asz s) txt_OK)). apply (Lemmas_E2E.In0_strncpy D). unfold asz.
    cbn [length txt_OK]. lia. }
  destruct (result_tail3 (ack_ok s) q txt_OK Hi Hfr eq_refl Hcr Hh H0 HT) as (s4 & O & R).
  exists s4. split; [exact (Lemmas_E2E.osteps_trans D _ _ _ _ _ _ _ _ _ _ H1 O)|].
  destruct R as (R1 & R2 & R3 & R4 & R5 & R6 & R7 & R8 & R9 & R10 & R11 & R12).
  repeat (split; [assumption|]). split; [|exact R12].
  rewrite R11. change (cbuf (ack_ok s)) with (strncpy_buf (asz s) txt_OK). apply strncpy_len.
Qed.

(* ================= 4. the READ line, with everything the next line needs ================= *)
(* what a finished line leaves behind: Lemmas_E2E.line_done, and the parser is re-entrant: implicit flag
   clear, enable flags and buffer size those of the start *)
Definition line_done3 (s s4 : state) : Prop :=
  k_state (k s4) = CS_IDLE /\ mem s4 = mem s /\ fault s4 = false /\ u s4 = u s /\
  gL s4 = S (gL s) /\ gS s4 = S (gS s) /\ gR s4 = S (gR s) /\
  k_cr (k s4) = false /\ k_hold (k s4) = false /\ k_cmd (k s4) = None /\
  k_implicit (k s4) = false /\ dis_cmd s4 = dis_cmd s /\ dis_grp s4 = dis_grp s /\
  length (cbuf s4) = length (cbuf s).

Section Lines.
Variable s : state.
Hypothesis Hn : 0 < n.
Hypothesis HL : n <= 4 * length (cbuf s).
Hypothesis H6 : 6 <= length (cbuf s).
Hypothesis Hf : fault s = false.
Hypothesis Hst : k_state (k s) = CS_IDLE.
Hypothesis Hcr : k_cr (k s) = false.
Hypothesis Himp : k_implicit (k s) = false.
Hypothesis Hhold : k_hold (k s) = false.
Hypothesis Hidle : idle s.

Lemma read_line_osteps3 : forall name rest i c args,
  name_ok name = true -> implicit_hit D s (upper name) = false ->
  resolve (upper name) (enabled D s) (cmds D) = Some i -> nth_error (cmds D) i = Some c ->
  rt_cmd_ok' (mem s) c -> read_args_text (mem s) c = Some args ->
  length (c_name c ++ [ch_EQ] ++ args) < length (cbuf s) ->
  exists calls s4,
    osteps calls s ([ch_A; ch_T] ++ name ++ [ch_QM; ch_LF] ++ rest) s4 rest
      ([ch_LF] ++ c_name c ++ [ch_EQ] ++ args ++ [ch_LF] ++ [ch_LF] ++ txt_OK ++ [ch_LF]) /\
    line_done3 s s4.
Proof.
  intros name rest i c args Hok Hh Hres Hc Hrt Ha Hfit.
  destruct (dispatch_read_ex3 s Hn HL Hf Hst Himp Hidle name rest Hok Hh)
    as (c1 & s2 & H1 & (M2 & F2 & U2 & R2) & S2 & X2).
  rewrite Hres in R2. destruct R2 as (A1 & A2 & A3 & A4).
  unfold Lemmas_E2E.six in S2.
  assert (G2 : gL s2 = S (gL s) /\ gS s2 = gS s /\ gR s2 = gR s /\ k_cr (k s2) = false /\
               k_hold (k s2) = false /\ length (cbuf s2) = length (cbuf s)).
  { repeat split; congruence. }
  destruct G2 as (gl2 & gs2 & gr2 & cr2 & ho2 & len2).
  pose proof (Lemmas_E2E.cmd_at_of_cmds D i c Hc) as Hc'.
  assert (Hi2 : idle s2) by (apply (Lemmas_C02e.idle_of_u s); assumption).
  rewrite <- M2 in Hrt, Ha. rewrite <- len2 in Hfit.
  destruct (read_steps' s2 rest i c args Hi2 A1 A2 Hc' A3 Hrt F2 Ha Hfit)
    as (s3 & H2 & (D1 & (r & D2) & D3 & D4 & D5 & D6) & (KF & FL & _) & X3).
  destruct (FL D4) as (P1 & P2 & P3 & P4 & _). specialize (P4 D5).
  destruct KF as (u3 & gl3 & gr3 & cr3 & ho3).
  assert (Hi3 : idle s3) by (apply (Lemmas_C02e.idle_of_u s2); assumption).
  assert (Hcr3 : k_cr (k s3) = false) by congruence.
  set (txt := c_name c ++ [ch_EQ] ++ args) in *.
  assert (HT3 : text_of (cbuf s3) = txt).
  { rewrite D2. apply Lemmas_C19.text_of_app0. exact (txt_no_nul' _ c args Hrt Ha). }
  assert (H03 : In 0%N (cbuf s3)) by (rewrite D2; apply in_or_app; right; left; reflexivity).
  destruct (emit_unit3 s3 rest txt Hi3 (conj D4 (conj P1 (conj P2 P3))) Hcr3 H03 HT3)
    as (s5 & O3 & K3 & A5 & G5 & X5).
  rewrite D5 in A5, G5. cbn [cstate_beq] in G5.
  destruct K3 as (K1 & K2 & K3 & K4 & K5 & K6 & K7 & K8).
  assert (Hi5 : idle s5) by (apply (Lemmas_C02e.idle_of_u s3); assumption).
  destruct (ok_tail3 s5 rest Hi5 A5) as (s6 & O4 & R1 & R2 & R3 & R4 & R5 & R6 & R7 & R8 & R9 & R10 & R11 & X6);
    [congruence | congruence | rewrite K8; lia |].
  exists (c1 + ((1 + length (c_vars c)) + ((6 + length txt) + 10))), s6. split.
  - eapply Lemmas_E2E.osteps_cast;
      [exact (Lemmas_E2E.osteps_trans D _ _ _ _ _ _ _ _ _ _ (Lemmas_E2E.osteps_of_steps D _ _ _ _ _ H1)
               (Lemmas_E2E.osteps_trans D _ _ _ _ _ _ _ _ _ _ (Lemmas_E2E.osteps_of_steps D _ _ _ _ _ H2)
                  (Lemmas_E2E.osteps_trans D _ _ _ _ _ _ _ _ _ _ O3 O4))) | reflexivity |].
    unfold txt. cbn [app]. rewrite <- !app_assoc. reflexivity.
  - assert (X : x3 s6 = (false, dis_cmd s, dis_grp s)) by (rewrite X6, X5, X3; exact X2).
    unfold x3 in X. unfold line_done3.
    repeat (split; [congruence|]). congruence.
Qed.

End Lines.


(* ================= 5. READ line, then the WRITE line that feeds the echoed text back ================= *)

End P5.

(* a later state in which the same table can be used again: idle parser with clear flags, idle event
   machine, the same buffer size, no fault, variables of the same shape *)
Definition ready_like (s s' : state) : Prop :=
  length (cbuf s') = length (cbuf s) /\ fault s' = false /\
  k_state (k s') = CS_IDLE /\ k_cr (k s') = false /\ k_implicit (k s') = false /\ k_hold (k s') = false /\
  u_state (u s') = US_IDLE /\ u_count (u s') = 0 /\ same_shape (mem s) (mem s').

(* ---------- A1. the READ line (read-only variables allowed), with the re-entrancy facts ---------- *)
Theorem E2E_read_line_re_proof : forall D s name rest h i c args,
  d_mutex D = false -> 0 < ncmds D -> ncmds D <= 4 * length (cbuf s) -> 6 <= length (cbuf s) ->
  fault s = false ->
  k_state (k s) = CS_IDLE -> k_cr (k s) = false -> k_implicit (k s) = false -> k_hold (k s) = false ->
  u_state (u s) = US_IDLE -> u_count (u s) = 0 ->
  name_ok name = true -> implicit_hit D s (upper name) = false ->
  resolve (upper name) (enabled D s) (cmds D) = Some i -> nth_error (cmds D) i = Some c ->
  rt_cmd_ok' (mem s) c -> read_args_text (mem s) c = Some args ->
  length (c_name c ++ [ch_EQ] ++ args) < length (cbuf s) ->
  let w0 := mkw s ([ch_A; ch_T] ++ name ++ [ch_QM; ch_LF] ++ rest) h [] in
  exists calls, let w := nsvc D calls w0 in
    w = mkw (wst w) rest h (wtr w) /\ calls_of (wtr w) = [] /\
    output_of (wtr w) = [ch_LF] ++ c_name c ++ [ch_EQ] ++ args ++ [ch_LF] ++ [ch_LF] ++ txt_OK ++ [ch_LF] /\
    mem (wst w) = mem s /\ ready_like s (wst w) /\ u (wst w) = u s /\ k_cmd (k (wst w)) = None /\
    dis_cmd (wst w) = dis_cmd s /\ dis_grp (wst w) = dis_grp s /\
    gL (wst w) = S (gL s) /\ gS (wst w) = S (gS s) /\ gR (wst w) = S (gR s).
Proof.
  intros D s name rest h i c args Hmx Hn HL H6 Hf Hst Hcr Himp Hhold Hu1 Hu2 Hok Hh Hres Hc Hrt Ha Hfit w0.
  destruct (read_line_osteps3 D Hmx s Hn HL H6 Hf Hst Hcr Himp Hhold (conj Hu1 Hu2)
              name rest i c args Hok Hh Hres Hc Hrt Ha Hfit)
    as (calls & s4 & O & (L1 & L2 & L3 & L4 & L5 & L6 & L7 & L8 & L9 & L10 & L11 & L12 & L13 & L14)).
  exists calls. intros w. destruct (O h []) as (t' & C & Out & E). rewrite app_nil_r in E.
  unfold w, w0. rewrite E. cbn [Fsm.st Fsm.io Fsm.hs Fsm.tr mkw inq].
  split; [reflexivity|]. split; [exact C|]. split; [exact Out|]. split; [exact L2|].
  split.
  { unfold ready_like. rewrite L4, L2. repeat (split; [assumption|]). reflexivity. }
  repeat (split; [assumption|]). assumption.
Qed.

(* ---------- A2. round trip, two-world form: the READ line's response, fed back to any later state ---------- *)
Theorem C07_roundtrip_line_proof : forall D s name rest h i c args,
  d_mutex D = false -> 0 < ncmds D -> ncmds D <= 4 * length (cbuf s) -> 6 <= length (cbuf s) ->
  fault s = false ->
  k_state (k s) = CS_IDLE -> k_cr (k s) = false -> k_implicit (k s) = false -> k_hold (k s) = false ->
  u_state (u s) = US_IDLE -> u_count (u s) = 0 ->
  name_ok name = true -> implicit_hit D s (upper name) = false ->
  resolve (upper name) (enabled D s) (cmds D) = Some i -> nth_error (cmds D) i = Some c ->
  Lemmas_C07e.rt_cmd_ok (mem s) c -> read_args_text (mem s) c = Some args ->
  length (c_name c ++ [ch_EQ] ++ args) < length (cbuf s) -> ~ In ch_CR args ->
  exists calls1 resp,
    let w1 := nsvc D calls1 (mkw s ([ch_A; ch_T] ++ name ++ [ch_QM; ch_LF] ++ rest) h []) in
    (* line 1: the response *)
    output_of (wtr w1) = [ch_LF] ++ resp ++ [ch_LF] ++ [ch_LF] ++ txt_OK ++ [ch_LF] /\
    resp = c_name c ++ [ch_EQ] ++ args /\
    w1 = mkw (wst w1) rest h (wtr w1) /\ calls_of (wtr w1) = [] /\ mem (wst w1) = mem s /\
    (* the state after line 1 is such a later state, with the same enabled commands *)
    ready_like s (wst w1) /\ enabled D (wst w1) = enabled D s /\
    (forall t, implicit_hit D (wst w1) t = implicit_hit D s t) /\
    (* line 2, in any later state s2 (any spelling name2 that resolves to the same command) *)
    forall s2 name2 rest2 h2 i2,
      ready_like s s2 ->
      name_ok name2 = true -> implicit_hit D s2 (upper name2) = false ->
      resolve (upper name2) (enabled D s2) (cmds D) = Some i2 -> nth_error (cmds D) i2 = Some c ->
      exists calls2,
        let w2 := nsvc D calls2
                    (mkw s2 ([ch_A; ch_T] ++ name2 ++ [ch_EQ] ++ skipn (S (length (c_name c))) resp ++ [ch_LF] ++ rest2)
                         h2 []) in
        k_state (k (wst w2)) = CS_IDLE /\ inq (wio w2) = rest2 /\ whs w2 = h2 /\ calls_of (wtr w2) = [] /\
        fault (wst w2) = false /\
        output_of (wtr w2) = [ch_LF] ++ txt_OK ++ [ch_LF] /\
        (forall v d0, In v (c_vars c) -> nth_error (mem s) (v_slot v) = Some d0 ->
           exists d1, nth_error (mem (wst w2)) (v_slot v) = Some d1 /\ same_value v d1 d0) /\
        (forall sl, ~ In sl (map v_slot (c_vars c)) -> nth_error (mem (wst w2)) sl = nth_error (mem s2) sl) /\
        gL (wst w2) = S (gL s2) /\ gS (wst w2) = S (gS s2) /\ gR (wst w2) = S (gR s2).
Proof.
  intros D s name rest h i c args Hmx Hn HL H6 Hf Hst Hcr Himp Hhold Hu1 Hu2 Hok Hh Hres Hc Hrt Ha Hfit Hncr.
  destruct (E2E_read_line_re_proof D s name rest h i c args Hmx Hn HL H6 Hf Hst Hcr Himp Hhold Hu1 Hu2
              Hok Hh Hres Hc (rt_cmd_ok_weaken _ _ Hrt) Ha Hfit)
    as (calls1 & E1 & E2 & E3 & E4 & E5 & _ & _ & E8 & E9 & _).
  exists calls1, (c_name c ++ [ch_EQ] ++ args). cbv zeta.
  split; [rewrite E3, <- !app_assoc; reflexivity|]. split; [reflexivity|].
  split; [exact E1|]. split; [exact E2|]. split; [exact E4|]. split; [exact E5|].
  split; [exact (enabled_dis D s _ E8 E9)|]. split; [intros t; exact (implicit_hit_dis D s _ t E8 E9)|].
  intros s2 name2 rest2 h2 i2 (R1 & R2 & R3 & R4 & R5 & R6 & R7 & R8 & R9) Hok2 Hh2 Hres2 Hc2.
  rewrite echo_args.
  assert (Hfit2 : length args < length (cbuf s2)).
  { rewrite R1. rewrite !app_length in Hfit. cbn [length] in Hfit. lia. }
  assert (HL2 : ncmds D <= 4 * length (cbuf s2)) by (rewrite R1; exact HL).
  assert (H62 : 6 <= length (cbuf s2)) by (rewrite R1; exact H6).
  exact (Lemmas_E2E.E2E_write_line_proof D s2 name2 rest2 h2 i2 c (mem s) args Hmx Hn
           HL2 H62 R2 R3 R4 R5 R6 R7 R8 Hok2 Hh2 Hres2 Hc2 Hrt Ha R9 Hncr Hfit2).
Qed.

(* ---------- A3. round trip, both lines in one input queue ---------- *)
Theorem C07_roundtrip_queue_proof : forall D s name name2 rest h i i2 c args,
  d_mutex D = false -> 0 < ncmds D -> ncmds D <= 4 * length (cbuf s) -> 6 <= length (cbuf s) ->
  fault s = false ->
  k_state (k s) = CS_IDLE -> k_cr (k s) = false -> k_implicit (k s) = false -> k_hold (k s) = false ->
  u_state (u s) = US_IDLE -> u_count (u s) = 0 ->
  name_ok name = true -> implicit_hit D s (upper name) = false ->
  resolve (upper name) (enabled D s) (cmds D) = Some i -> nth_error (cmds D) i = Some c ->
  name_ok name2 = true -> implicit_hit D s (upper name2) = false ->
  resolve (upper name2) (enabled D s) (cmds D) = Some i2 -> nth_error (cmds D) i2 = Some c ->
  Lemmas_C07e.rt_cmd_ok (mem s) c -> read_args_text (mem s) c = Some args ->
  length (c_name c ++ [ch_EQ] ++ args) < length (cbuf s) -> ~ In ch_CR args ->
  let resp := c_name c ++ [ch_EQ] ++ args in
  let line2 := [ch_A; ch_T] ++ name2 ++ [ch_EQ] ++ skipn (S (length (c_name c))) resp ++ [ch_LF] ++ rest in
  let w0 := mkw s ([ch_A; ch_T] ++ name ++ [ch_QM; ch_LF] ++ line2) h [] in
  exists calls1 calls2,
    let w1 := nsvc D calls1 w0 in
    let w2 := nsvc D (calls1 + calls2) w0 in
    (* after line 1: the response has been emitted, line 2 is still queued, memory unchanged *)
    output_of (wtr w1) = [ch_LF] ++ resp ++ [ch_LF] ++ [ch_LF] ++ txt_OK ++ [ch_LF] /\
    inq (wio w1) = line2 /\ k_state (k (wst w1)) = CS_IDLE /\ mem (wst w1) = mem s /\
    (* after line 2 *)
    k_state (k (wst w2)) = CS_IDLE /\ inq (wio w2) = rest /\ whs w2 = h /\ calls_of (wtr w2) = [] /\
    fault (wst w2) = false /\
    output_of (wtr w2) = ([ch_LF] ++ resp ++ [ch_LF] ++ [ch_LF] ++ txt_OK ++ [ch_LF]) ++ [ch_LF] ++ txt_OK ++ [ch_LF] /\
    (forall v d0, In v (c_vars c) -> nth_error (mem s) (v_slot v) = Some d0 ->
       exists d1, nth_error (mem (wst w2)) (v_slot v) = Some d1 /\ same_value v d1 d0) /\
    (forall sl, ~ In sl (map v_slot (c_vars c)) -> nth_error (mem (wst w2)) sl = nth_error (mem s) sl) /\
    gL (wst w2) = S (S (gL s)) /\ gS (wst w2) = S (S (gS s)) /\ gR (wst w2) = S (S (gR s)).
Proof.
  intros D s name name2 rest h i i2 c args Hmx Hn HL H6 Hf Hst Hcr Himp Hhold Hu1 Hu2 Hok Hh Hres Hc
         Hok2 Hh2 Hres2 Hc2 Hrt Ha Hfit Hncr resp line2 w0.
  assert (Eecho : skipn (S (length (c_name c))) resp = args) by apply echo_args.
  subst line2 w0. rewrite Eecho. clear Eecho.
  set (line2 := [ch_A; ch_T] ++ name2 ++ [ch_EQ] ++ args ++ [ch_LF] ++ rest).
  destruct (read_line_osteps3 D Hmx s Hn HL H6 Hf Hst Hcr Himp Hhold (conj Hu1 Hu2)
              name line2 i c args Hok Hh Hres Hc (rt_cmd_ok_weaken _ _ Hrt) Ha Hfit)
    as (calls1 & s4 & O1 & (L1 & L2 & L3 & L4 & L5 & L6 & L7 & L8 & L9 & L10 & L11 & L12 & L13 & L14)).
  assert (Hfit2 : length args < length (cbuf s4)).
  { rewrite L14. rewrite !app_length in Hfit. cbn [length] in Hfit. lia. }
  assert (Hi4 : idle s4) by (apply (Lemmas_C02e.idle_of_u s); [exact L4 | exact (conj Hu1 Hu2)]).
  assert (Hsh : same_shape (mem s) (mem s4)) by (rewrite L2; reflexivity).
  assert (HL4 : ncmds D <= 4 * length (cbuf s4)) by (rewrite L14; exact HL).
  assert (H64 : 6 <= length (cbuf s4)) by (rewrite L14; exact H6).
  assert (Hh4 : implicit_hit D s4 (upper name2) = false)
    by (rewrite (implicit_hit_dis D s s4 _ L12 L13); exact Hh2).
  assert (Hres4 : resolve (upper name2) (enabled D s4) (cmds D) = Some i2)
    by (rewrite (enabled_dis D s s4 L12 L13); exact Hres2).
  destruct (Lemmas_E2E.write_line_osteps D Hmx s4 Hn HL4 H64
              L3 L1 L8 L11 L9 Hi4 name2 rest i2 c (mem s) args Hok2 Hh4 Hres4 Hc2 Hrt Ha Hsh Hncr Hfit2)
    as (calls2 & s8 & O2 & W1 & W2 & W3 & W4 & W5 & W6 & W7 & W8 & W9 & W10).
  fold line2 in O2.
  exists calls1, calls2. intros w1 w2.
  destruct (O1 h []) as (t1 & C1 & Out1 & E1). rewrite app_nil_r in E1.
  pose proof (Lemmas_E2E.osteps_trans D _ _ _ _ _ _ _ _ _ _ O1 O2) as O12.
  destruct (O12 h []) as (t2 & C2 & Out2 & E2). rewrite app_nil_r in E2.
  unfold w1, w2. rewrite E1, E2. cbn [Fsm.st Fsm.io Fsm.hs Fsm.tr mkw inq].
  split; [rewrite Out1; unfold resp; rewrite <- !app_assoc; reflexivity|].
  split; [reflexivity|].
  split; [exact L1|]. split; [exact L2|]. split; [exact W1|]. split; [reflexivity|]. split; [reflexivity|].
  split; [exact C2|]. split; [exact W2|].
  split; [rewrite Out2; unfold resp; rewrite <- !app_assoc; reflexivity|].
  split; [exact W9|]. split; [intros sl Hsl; rewrite (W10 sl Hsl), L2; reflexivity|].
  repeat split; congruence.
Qed.

(* ======================================================================================== *)
(* B. read-only variables                                                                    *)
(* ======================================================================================== *)

(* ================= B1. codec level: the field of a read-only variable is parsed and validated,
   nothing is stored ================= *)
Local Open Scope N_scope.

(* the buffer decoders in read-only mode follow the storing run as long as that one succeeds *)
Lemma bufhex_ro : forall l byte st size d d0 dsz n c d' ws n',
  parse_bufhex_go l byte st size d false dsz n = mkBres (SOk c) d' ws n' ->
  parse_bufhex_go l byte st size d0 true dsz n = mkBres (SOk c) d0 0%nat n'.
Proof.
  induction l as [|ch0 l IH]; intros byte st size d d0 dsz n c d' ws n' H; cbn [parse_bufhex_go] in *;
    [discriminate|].
  destruct ((0 <? size)%nat && negb st && is_term (to_upper ch0)).
  - injection H as <- _ _ <-. reflexivity.
  - destruct (negb (is_hex (to_upper ch0))); [discriminate|].
    destruct st.
    + destruct (dsz <=? size)%nat; [discriminate|].
      destruct (size <? length d)%nat; [|discriminate].
      exact (IH _ _ _ _ d0 _ _ _ _ _ _ H).
    + exact (IH _ _ _ _ d0 _ _ _ _ _ _ H).
Qed.

Lemma bufstr_ro : forall l st size d d0 dsz n c d' ws n',
  parse_bufstr_go l st size d false dsz n = mkBres (SOk c) d' ws n' ->
  parse_bufstr_go l st size d0 true dsz n = mkBres (SOk c) d0 0%nat n'.
Proof.
  induction l as [|ch l IH]; intros st size d d0 dsz n c d' ws n' H; cbn [parse_bufstr_go] in *;
    [discriminate|].
  destruct st as [|[|[|st]]].
  - destruct (ch =? ch_QUOTE); [|discriminate]. exact (IH _ _ _ d0 _ _ _ _ _ _ H).
  - destruct (ch =? 0); [discriminate|].
    destruct (ch =? ch_BSL); [exact (IH _ _ _ d0 _ _ _ _ _ _ H)|].
    destruct (ch =? ch_QUOTE); [exact (IH _ _ _ d0 _ _ _ _ _ _ H)|].
    destruct (dsz <=? size)%nat; [discriminate|].
    destruct (size <? length d)%nat; [|discriminate]. exact (IH _ _ _ d0 _ _ _ _ _ _ H).
  - destruct (if ch =? ch_BSL then Some ch_BSL
              else if ch =? ch_QUOTE then Some ch_QUOTE else if ch =? ch_n then Some ch_LF else None)
      as [x|]; [|discriminate].
    destruct (dsz <=? size)%nat; [discriminate|].
    destruct (size <? length d)%nat; [|discriminate]. exact (IH _ _ _ d0 _ _ _ _ _ _ H).
  - destruct (is_term ch); [|discriminate].
    destruct (dsz <=? size)%nat; [discriminate|].
    destruct (size <? length d)%nat; [|discriminate].
    injection H as <- _ _ <-. reflexivity.
Qed.

(* the same variable, read-write *)
Definition as_rw (v : var) : var :=
  mkVar (v_name v) (v_type v) (v_size v) RW (v_hread v) (v_hwrite v) (v_slot v).

Lemma var_text_as_rw : forall v data, v_access v = RO -> var_text (as_rw v) data = var_text v data.
Proof.
  intros v data H.
  unfold var_text, fmt_num_text, fmt_int_text, fmt_uint_text, fmt_hex_text, fmt_bufhex_pieces,
         fmt_bufstr_pieces.
  cbn [as_rw v_type v_size v_access]. rewrite H. reflexivity.
Qed.

(* whatever text the read-write variable accepts, the read-only one accepts: same status, same number of
   characters consumed, storage untouched, write size 0 *)
Lemma decode_ro_of_rw : forall v rest data c d ws n, v_access v = RO ->
  decode_var (as_rw v) rest data = (SOk c, d, ws, n) ->
  decode_var v rest data = (SOk c, data, 0%nat, n).
Proof.
  intros v rest data c d ws n Hro H. unfold decode_var in *.
  cbn [as_rw v_type v_size v_access] in H. rewrite Hro.
  change (vaccess_beq RW RO) with false in H. change (vaccess_beq RO RO) with true.
  destruct (v_type v).
  - destruct (parse_int rest) as [[pst val] n0]. destruct pst as [| |cm]; try discriminate.
    destruct (validate_int false (v_size v) val data); try discriminate.
    injection H as <- _ _ <-. reflexivity.
  - destruct (parse_uint rest) as [[pst val] n0]. destruct pst as [| |cm]; try discriminate.
    destruct (validate_uint false (v_size v) val data); try discriminate.
    injection H as <- _ _ <-. reflexivity.
  - destruct (parse_hex rest) as [[pst val] n0]. destruct pst as [| |cm]; try discriminate.
    destruct (validate_uint false (v_size v) val data); try discriminate.
    injection H as <- _ _ <-. reflexivity.
  - unfold parse_bufhex in *.
    destruct (parse_bufhex_go rest 0 false 0 data false (v_size v) 0) as [st0 d1 w1 n1] eqn:E.
    cbn [b_st b_data b_wsize b_n] in H. injection H as -> _ _ ->.
    rewrite (bufhex_ro _ _ _ _ _ data _ _ _ _ _ _ E). reflexivity.
  - unfold parse_bufstr in *.
    destruct (parse_bufstr_go rest 0 0 data false (v_size v) 0) as [st0 d1 w1 n1] eqn:E.
    cbn [b_st b_data b_wsize b_n] in H. injection H as -> _ _ ->.
    rewrite (bufstr_ro _ _ _ _ data _ _ _ _ _ _ E). reflexivity.
Qed.

(* C07 for a read-only variable: the text READ prints for it is accepted as a WRITE field (SOk, the
   whole text and its terminator consumed), the storage is returned unchanged, write size 0 *)
Theorem C07_var_roundtrip_ro_proof : forall v data data' txt t tail,
  v_access v = RO ->
  Forall (fun b => b < 256) data -> length data = v_size v -> length data' = v_size v ->
  (v_type v = VBufStr -> In 0 data) ->
  (v_type v = VBufHex -> (0 < v_size v)%nat) ->
  var_text v data = Some txt -> is_term t = true ->
  decode_var v (txt ++ t :: tail) data' = (SOk (t =? ch_COMMA), data', 0%nat, S (length txt)).
Proof.
  intros v data data' txt t tail Hro Hb Hl Hl' Hstr Hhex Htxt Ht.
  rewrite <- (var_text_as_rw v data Hro) in Htxt.
  destruct (Lemmas_C07.C07_var_roundtrip (as_rw v) data data' txt t tail eq_refl Hb Hl Hl' Hstr Hhex Htxt Ht)
    as (d & ws & E & _).
  exact (decode_ro_of_rw v _ data' _ d ws _ Hro E).
Qed.
Local Close Scope N_scope.

(* ================= B2. command level: the WRITE parsing loop with read-only variables ================= *)
(* the WRITE request is served from the variables iff some variable is writable; with variables that are
   read-write or read-only: iff some variable is read-write *)
Lemma vap_wo_iff : forall m c, Forall (rt_var_ok' m) (c_vars c) ->
  (vars_access_possible c WO = true <-> exists v, In v (c_vars c) /\ v_access v = RW).
Proof.
  intros m c Hok. unfold vars_access_possible. rewrite existsb_exists. split.
  - intros (v & Hin & Hv). exists v. split; [exact Hin|].
    rewrite Forall_forall in Hok. destruct (Hok v Hin) as ([A|A] & _); [exact A|].
    rewrite A in Hv. discriminate.
  - intros (v & Hin & Hv). exists v. split; [exact Hin|]. rewrite Hv. reflexivity.
Qed.

Section WriteRO.
Variable D : desc.
Local Notation pwa_next := Lemmas_C07e.pwa_next.
Local Notation pwa_store := Lemmas_C07e.pwa_store.
Local Notation frame_ok := Lemmas_C07e.frame_ok.

(* the variables already parsed: a read-write one holds the value it had in m, the slot of a read-only
   one is what it was in m0 (the memory at the start of the WRITE) *)
Definition vals_ok' (m m0 : list (list N)) (s : state) (vs : list var) : Prop :=
  forall v, In v vs ->
    (v_access v = RW -> forall d0, nth_error m (v_slot v) = Some d0 ->
       exists d1, nth_error (mem s) (v_slot v) = Some d1 /\ same_value v d1 d0) /\
    (v_access v = RO -> nth_error (mem s) (v_slot v) = nth_error m0 (v_slot v)).

Definition WInv' (c : cmd) (m m0 : list (list N)) (cb : list N) (s : state) (pre : list var)
           (p : nat) : Prop :=
  fault s = false /\ k_state (k s) = CS_PARSE_WRITE_ARGS /\ cmd_of D ATCMD s = Some c /\
  k_var (k s) = length pre /\ k_index (k s) = length pre /\ cbuf s = cb /\ k_position (k s) = p /\
  same_shape m (mem s) /\ vals_ok' m m0 s pre /\ frame_ok m0 s pre.

Definition WMid' (c : cmd) (m m0 : list (list N)) (cb : list N) (s : state) (pre : list var)
           (v : var) (p : nat) : Prop :=
  fault s = false /\ k_state (k s) = CS_PARSE_WRITE_ARGS /\ cmd_of D ATCMD s = Some c /\
  k_index (k s) = length pre /\ cbuf s = cb /\ k_position (k s) = p /\
  same_shape m (mem s) /\ vals_ok' m m0 s (pre ++ [v]) /\ frame_ok m0 s (pre ++ [v]).

Definition WDone' (c : cmd) (m m0 : list (list N)) (s : state) : Prop :=
  fault s = false /\ k_state (k s) = CS_FLUSH_WAIT /\ k_wafter (k s) = CS_AFTER_RESET /\
  text_of (cbuf s) = txt_OK /\ vals_ok' m m0 s (c_vars c) /\ frame_ok m0 s (c_vars c).

Lemma wstep_decode' : forall c m m0 cb s pre p v vs txt t tail done,
  WInv' c m m0 cb s pre p -> c_vars c = pre ++ v :: vs -> NoDup (map v_slot (c_vars c)) ->
  rt_var_ok' m v -> slot_text m v = Some txt -> is_term t = true ->
  cb = done ++ txt ++ t :: tail -> p = length done ->
  exists data' d ws,
    nth_error (c_vars c) (k_var (k s)) = Some v /\
    nth_error (mem s) (v_slot v) = Some data' /\
    decode_var v (skipn (k_position (k s)) (cbuf s)) data'
      = (SOk (t =? ch_COMMA)%N, d, ws, S (length txt)) /\
    WMid' c m m0 cb (pwa_store v d ws (S (length txt)) s) pre v (length (done ++ txt ++ [t])).
Proof.
  intros c m m0 cb s pre p v vs txt t tail done
         (W1 & W2 & W3 & W4 & W5 & W6 & W7 & W8 & W9 & W10) Hc Hnd Hok Ht Hterm Hcb Hp.
  destruct (var_facts' m v txt Hok Ht) as (data & Hd & Hvt & Hdl & Hhex & Hb & Hs).
  destruct Hok as (Hacc & _).
  destruct (Lemmas_C07e.same_shape_nth m (mem s) (v_slot v) data W8 Hd) as (data' & Hd' & Hl').
  assert (Hslots : forall v', In v' pre -> v_slot v' <> v_slot v).
  { intros v' Hin E. rewrite Hc, map_app in Hnd. cbn [map] in Hnd.
    apply NoDup_remove_2 in Hnd. apply Hnd. apply in_or_app. left.
    rewrite <- E. apply in_map. exact Hin. }
  assert (Hnotin : ~ In (v_slot v) (map v_slot pre)).
  { intro Hin. apply in_map_iff in Hin. destruct Hin as (v' & E & Hin). exact (Hslots v' Hin E). }
  (* the decoder's answer, and what it means for the slot *)
  assert (Hdec : exists d ws,
            decode_var v (txt ++ t :: tail) data' = (SOk (t =? ch_COMMA)%N, d, ws, S (length txt)) /\
            length d = length data' /\
            (v_access v = RW -> same_value v d data) /\ (v_access v = RO -> d = data')).
  { destruct Hacc as [Hrw|Hro].
    - destruct (Lemmas_C07.C07_var_roundtrip v data data' txt t tail Hrw Hb Hdl ltac:(lia) Hs Hhex Hvt Hterm)
        as (d & ws & Hdec & Hsame).
      exists d, ws. split; [exact Hdec|]. split; [rewrite (Lemmas_C07e.same_value_length v d data Hsame); lia|].
      split; [intros _; exact Hsame|]. intros E. rewrite Hrw in E. discriminate.
    - exists data', 0. split.
      + exact (C07_var_roundtrip_ro_proof v data data' txt t tail Hro Hb Hdl ltac:(lia) Hs Hhex Hvt Hterm).
      + split; [reflexivity|]. split; [|intros _; reflexivity]. intros E. rewrite Hro in E. discriminate. }
  destruct Hdec as (d & ws & Hdec & Hlen & Hrwv & Hrov).
  exists data', d, ws.
  split; [rewrite W4, Hc; apply Lemmas_C19.nth_mid|].
  split; [exact Hd'|].
  split.
  { rewrite W6, W7, Hcb, Hp, Lemmas_C07e.skipn_app_len. exact Hdec. }
  unfold WMid', vals_ok', frame_ok, Lemmas_C07e.pwa_store in *. cbn.
  repeat split; try assumption.
  - rewrite W7, Hp, !app_length. cbn [length]. lia.
  - unfold Lemmas_C07e.same_shape in *. rewrite W8. symmetry.
    apply (Lemmas_C07e.map_length_upd (mem s) (v_slot v) d data' Hd'). exact Hlen.
  - apply in_app_or in H. destruct H as [Hin|[<-|[]]].
    + intros Hrw d0 Hn0. destruct (proj1 (W9 v0 Hin) Hrw d0 Hn0) as (d1 & Hn1 & Hs1). exists d1.
      split; [|exact Hs1].
      rewrite Lemmas_C07e.nth_error_upd_other; [exact Hn1|]. intro E. exact (Hslots v0 Hin (eq_sym E)).
    + intros Hrw d0 Hn0. exists d. split; [apply (Lemmas_C07e.nth_error_upd_same _ _ _ _ _ Hd')|].
      rewrite Hd in Hn0. injection Hn0 as <-. exact (Hrwv Hrw).
  - apply in_app_or in H. destruct H as [Hin|[<-|[]]].
    + intros Hro. rewrite Lemmas_C07e.nth_error_upd_other; [exact (proj2 (W9 v0 Hin) Hro)|].
      intro E. exact (Hslots v0 Hin (eq_sym E)).
    + intros Hro. rewrite (Lemmas_C07e.nth_error_upd_same _ _ _ _ _ Hd'), (Hrov Hro), <- Hd'.
      exact (W10 _ Hnotin).
  - intros sl Hsl. rewrite map_app in Hsl. cbn [map] in Hsl.
    rewrite Lemmas_C07e.nth_error_upd_other.
    + apply W10. intro H. apply Hsl. apply in_or_app. left. exact H.
    + intro E. apply Hsl. apply in_or_app. right. left. exact E.
Qed.

Lemma wmid_more' : forall c m m0 cb s pre v p,
  WMid' c m m0 cb s pre v p -> S (length pre) < length (c_vars c) ->
  WInv' c m m0 cb (pwa_next c true s) (pre ++ [v]) p.
Proof.
  intros c m m0 cb s pre v p (W1 & W2 & W3 & W5 & W6 & W7 & W8 & W9 & W10) Hlt.
  unfold Lemmas_C07e.pwa_next. cbv zeta. rewrite W5.
  replace (S (length pre) <? length (c_vars c)) with true by (symmetry; apply Nat.ltb_lt; lia).
  cbn [andb]. unfold WInv'. rewrite app_length. cbn [length].
  replace (length pre + 1) with (S (length pre)) by lia.
  split; [exact W1|]. split; [exact W2|]. split; [exact W3|]. split; [reflexivity|]. split; [reflexivity|].
  split; [exact W6|]. split; [exact W7|]. split; [exact W8|]. split; [exact W9 | exact W10].
Qed.

Lemma wmid_last' : forall c m m0 cb s pre v p,
  WMid' c m m0 cb s pre v p -> c_vars c = pre ++ [v] -> c_hwrite c = false -> 2 <= length cb ->
  WDone' c m m0 (pwa_next c false s) /\ (3 <= length cb -> In 0%N (cbuf (pwa_next c false s))).
Proof.
  intros c m m0 cb s pre v p (W1 & W2 & W3 & W5 & W6 & W7 & W8 & W9 & W10) Hc Hw H2.
  unfold Lemmas_C07e.pwa_next. cbv zeta. rewrite W5, Hw, andb_false_r.
  replace (S (length pre) =? length (c_vars c)) with true.
  2:{ symmetry. apply Nat.eqb_eq. rewrite Hc, app_length. cbn [length]. lia. }
  cbn [negb]. rewrite andb_false_r. split.
  - unfold WDone'. rewrite Hc.
    split; [exact W1|]. split; [reflexivity|]. split; [reflexivity|].
    split; [|split; [exact W9 | exact W10]].
    cbn. unfold asz. cbn. rewrite W6. apply Lemmas_C07e.text_of_OK. exact H2.
  - intros H3. change (In 0%N (strncpy_buf (length (cbuf s)) txt_OK)).
    apply (Lemmas_E2E.In0_strncpy D). rewrite W6. cbn [length txt_OK]. lia.
Qed.

End WriteRO.

(* ---- the loop on worlds with arbitrary oracles (after Lemmas_C07e.wloop / C07_write_back) ---- *)
Section WriteBackRO.
Variable D : desc.
Variables ioS muS hS : Type.
Variable mu_lock : muS -> muS * bool.
Variable mu_unlock : muS -> muS * bool.
Variable h_call : hS -> hreq -> hS * hres.
Local Notation world := (Fsm.world ioS muS hS).
Local Notation st := (Fsm.st ioS muS hS).
Local Notation tr := (Fsm.tr ioS muS hS).
Local Notation hs := (Fsm.hs ioS muS hS).
Local Notation set_st := (Fsm.set_st ioS muS hS).
Local Notation pwa_step := (Lemmas_C07e.pwa_step D ioS muS hS mu_lock mu_unlock h_call).
Local Notation pwa_run := (Lemmas_C07e.pwa_run D ioS muS hS mu_lock mu_unlock h_call).
Local Notation write_back := (Lemmas_C07e.write_back D ioS muS hS mu_lock mu_unlock h_call).
Local Notation pwa_next := Lemmas_C07e.pwa_next.
Local Notation pwa_store := Lemmas_C07e.pwa_store.

Lemma wloop' : forall c m m0 cb, c_hwrite c = false -> NoDup (map v_slot (c_vars c)) ->
  2 <= length cb ->
  forall vs v pre (w : world) done txts tl,
  c_vars c = pre ++ v :: vs -> Forall (rt_var_ok' m) (v :: vs) ->
  WInv' D c m m0 cb (st w) pre (length done) ->
  all_some (map (slot_text m) (v :: vs)) = Some txts ->
  cb = done ++ join_comma txts ++ 0%N :: tl ->
  exists s', pwa_run (length (v :: vs)) w = set_st s' w /\ WDone' c m m0 s'.
Proof.
  intros c m m0 cb Hw Hnd H3.
  induction vs as [|v2 vs IH]; intros v pre w done txts tl Hc Hok HW Ha Hcb;
    destruct (Lemmas_C07e.all_some_cons_st _ _ _ _ Ha) as (txt & txts' & -> & Hi & Ha');
    inversion Hok as [|? ? Hokv Hokvs]; subst x l;
    pose proof Hokv as (_ & _ & Hnw & _);
    pose proof HW as (_ & Hst & Hcmd & _);
    match goal with |- context [pwa_run (length (?a :: ?b)) _] =>
      change (length (a :: b)) with (S (length b)) end;
    rewrite Lemmas_C07e.pwa_run_S, Hst; cbn [cstate_beq].
  - cbn [map all_some] in Ha'. injection Ha' as <-.
    rewrite Lemmas_C07e.join_comma_one in Hcb. cbn [length Lemmas_C07e.pwa_run].
    destruct (wstep_decode' D c m m0 cb (st w) pre (length done) v [] txt 0%N tl done
                HW Hc Hnd Hokv Hi eq_refl Hcb eq_refl) as (data' & d & ws & Hn & Hd' & Hdec & HM).
    rewrite (Lemmas_C07e.pwa_step_eq D ioS muS hS mu_lock mu_unlock h_call w c v data' _ d ws _
               Hcmd Hn Hd' Hnw Hdec).
    eexists. split; [reflexivity|].
    change (0 =? ch_COMMA)%N with false.
    exact (proj1 (wmid_last' D _ _ _ _ _ _ _ _ HM Hc Hw H3)).
  - destruct (Lemmas_C07e.all_some_cons_st _ _ _ _ Ha') as (txt2 & txts2 & -> & Hi2 & Ha2).
    rewrite Lemmas_C07e.join_comma_cons2 in Hcb.
    destruct (wstep_decode' D c m m0 cb (st w) pre (length done) v (v2 :: vs) txt ch_COMMA
                (join_comma (txt2 :: txts2) ++ 0%N :: tl) done
                HW Hc Hnd Hokv Hi eq_refl) as (data' & d & ws & Hn & Hd' & Hdec & HM).
    { rewrite Hcb, <- !app_assoc. reflexivity. }
    { reflexivity. }
    rewrite (Lemmas_C07e.pwa_step_eq D ioS muS hS mu_lock mu_unlock h_call w c v data' _ d ws _
               Hcmd Hn Hd' Hnw Hdec).
    change (ch_COMMA =? ch_COMMA)%N with true.
    pose proof (wmid_more' D _ _ _ _ _ _ _ _ HM) as HW'.
    specialize (HW' ltac:(rewrite Hc, app_length; cbn [length]; lia)).
    specialize (IH v2 (pre ++ [v])
                   (set_st (pwa_next c true (pwa_store v d ws (S (length txt)) (st w))) w)
                   (done ++ txt ++ [ch_COMMA]) (txt2 :: txts2) tl).
    destruct IH as (s' & E & HD).
    + rewrite Hc, <- app_assoc. reflexivity.
    + exact Hokvs.
    + exact HW'.
    + exact Ha'.
    + rewrite Hcb, <- !app_assoc. reflexivity.
    + exists s'. rewrite E, Lemmas_C07e.set_st_set_st. split; [reflexivity|exact HD].
Qed.

(* Lemmas_C07e.C07_write_back with read-only variables: from CS_PARSE_WRITE_ARGS with the argument text
   READ prints for memory m collected in the buffer, every field is accepted, the machine answers OK;
   read-write variables hold the value they had in m, the slots of read-only variables and all other
   slots are what they were before the WRITE; no callback.  (Not needed here: a read-write variable —
   the machine reaches CS_PARSE_WRITE_ARGS only if there is one, see E2E_write_line_ro.) *)
Theorem C07_write_back_ro_proof : forall (w : world) ci c m args,
  rt_cmd_ok' m c -> read_args_text m c = Some args -> same_shape m (mem (st w)) ->
  k_state (k (st w)) = CS_PARSE_WRITE_ARGS ->
  g_cmd ATCMD (st w) = Some ci -> cmd_at D ci = Some c ->
  k_position (k (st w)) = 0 -> k_index (k (st w)) = 0 -> k_var (k (st w)) = 0 ->
  firstn (S (length args)) (cbuf (st w)) = args ++ [0%N] -> fault (st w) = false ->
  let w' := write_back c w in
  fault (st w') = false /\ tr w' = tr w /\ hs w' = hs w /\
  k_state (k (st w')) = CS_FLUSH_WAIT /\ k_wafter (k (st w')) = CS_AFTER_RESET /\
  text_of (cbuf (st w')) = txt_OK /\
  (forall v d0, In v (c_vars c) -> v_access v = RW -> nth_error m (v_slot v) = Some d0 ->
     exists d1, nth_error (mem (st w')) (v_slot v) = Some d1 /\ same_value v d1 d0) /\
  (forall v, In v (c_vars c) -> v_access v = RO ->
     nth_error (mem (st w')) (v_slot v) = nth_error (mem (st w)) (v_slot v)) /\
  (forall sl, ~ In sl (map v_slot (c_vars c)) ->
     nth_error (mem (st w')) sl = nth_error (mem (st w)) sl).
Proof.
  intros w ci c m args (Hne & Hok & Hnd & _ & Hw & _) Ha Hsh Hst Hg Hc Hp Hi Hv Hbuf Hf w'.
  subst w'. unfold cmd_at in Hc. rewrite slot_text_fold in Ha.
  destruct (all_some (map (slot_text m) (c_vars c))) as [txts|] eqn:Hall; [|discriminate].
  injection Ha as <-.
  destruct (c_vars c) as [|v vs] eqn:Hvs; [congruence|].
  apply Lemmas_C07e.firstn_app_nul in Hbuf.
  set (tl := skipn (S (length (join_comma txts))) (cbuf (st w))) in Hbuf.
  assert (H3 : 2 <= length (cbuf (st w))).
  { destruct (Lemmas_C07e.all_some_cons_st _ _ _ _ Hall) as (txt & txts' & -> & Hi1 & _).
    inversion Hok as [|? ? Hokv _]; subst.
    destruct (var_facts' m v txt Hokv Hi1) as (data & _ & Ht & Hdl & Hhex & _).
    pose proof (Lemmas_C07e.var_text_nonempty v data txt Ht Hdl Hhex) as Hnz.
    rewrite Hbuf. cbn [join_comma]. rewrite !app_length. cbn [length].
    destruct txt; [congruence|]. cbn [length]. lia. }
  assert (HW : WInv' D c m (mem (st w)) (cbuf (st w)) (st w) [] (length (@nil N))).
  { unfold WInv', vals_ok', Lemmas_C07e.frame_ok, cmd_of. rewrite Hg.
    split; [exact Hf|]. split; [exact Hst|]. split; [exact Hc|]. split; [exact Hv|]. split; [exact Hi|].
    split; [reflexivity|]. split; [exact Hp|]. split; [exact Hsh|].
    split; [intros v' [] | intros sl _; reflexivity]. }
  unfold Lemmas_C07e.write_back. rewrite Hvs.
  destruct (wloop' c m (mem (st w)) (cbuf (st w)) Hw ltac:(rewrite Hvs; exact Hnd) H3
                  vs v [] w [] txts tl Hvs Hok HW Hall Hbuf) as (s' & E & HD).
  rewrite E. cbn [Fsm.st Fsm.tr Fsm.hs Fsm.set_st].
  destruct HD as (D1 & D2 & D3 & D4 & D5 & D6). rewrite Hvs in D5, D6.
  split; [exact D1|]. split; [reflexivity|]. split; [reflexivity|]. split; [exact D2|].
  split; [exact D3|]. split; [exact D4|].
  split; [intros v' d0 Hin Hrw Hn0; exact (proj1 (D5 v' Hin) Hrw d0 Hn0)|].
  split; [intros v' Hin Hro; exact (proj2 (D5 v' Hin) Hro) | exact D6].
Qed.
End WriteBackRO.

(* ================= B3. whole lines with read-only variables ================= *)
Section P5b.
Variable D : desc.
Hypothesis Hmx : d_mutex D = false.
Local Notation n := (ncmds D).
Local Notation steps := (Lemmas_C02e.steps D).
Local Notation osteps := (Lemmas_E2E.osteps D).
Local Notation post := Lemmas_E2E.post.
Local Notation pwa_next := Lemmas_C07e.pwa_next.
Local Notation pwa_store := Lemmas_C07e.pwa_store.

(* the argument text contains no line feed and does not start with '?' *)
Lemma texts_no_lf' : forall m vs txts, Forall (rt_var_ok' m) vs ->
  all_some (map (slot_text m) vs) = Some txts ->
  Forall (fun t => ~ In ch_LF t) txts /\
  match txts with t :: _ => match t with q :: _ => q <> ch_QM | [] => False end | [] => True end.
Proof.
  intros m. induction vs as [|v vs IH]; intros txts Hok Ha.
  - cbn [map all_some] in Ha. injection Ha as <-. split; [constructor | exact I].
  - destruct (Lemmas_C07e.all_some_cons_st _ _ _ _ Ha) as (txt & txts' & -> & Hi & Ha').
    inversion Hok as [|? ? Hokv Hokvs]; subst.
    destruct (var_facts' m v txt Hokv Hi) as (data & _ & Ht & Hdl & Hhex & Hb & _).
    destruct (Lemmas_C07.C07_no_delim v data txt Hb ltac:(lia) Ht) as (_ & B & _ & Q).
    pose proof (Lemmas_C07e.var_text_nonempty v data txt Ht Hdl Hhex) as Hne.
    split; [constructor; [exact B | exact (proj1 (IH _ Hokvs Ha'))]|].
    destruct txt; [congruence | exact Q].
Qed.

Lemma args_no_lf' : forall m c args, rt_cmd_ok' m c ->
  read_args_text m c = Some args ->
  ~ In ch_LF args /\ match args with q :: _ => q <> ch_QM | [] => True end.
Proof.
  intros m c args (_ & Hokv & _) Ha. rewrite slot_text_fold in Ha.
  destruct (all_some (map (slot_text m) (c_vars c))) as [txts|] eqn:Hall; [|discriminate].
  injection Ha as <-.
  destruct (texts_no_lf' m _ _ Hokv Hall) as [A B]. split.
  - apply Lemmas_E2E.notin_join; [discriminate | exact A].
  - destruct txts as [|t r]; [exact I|]. destruct t as [|q t]; [destruct B|]. exact B.
Qed.

(* the line feed that ends the arguments: on to the variable parser, when some variable is writable *)
Lemma pca_lf_step' : forall s q c, idle s -> k_state (k s) = CS_PARSE_COMMAND_ARGS ->
  cmd_of D ATCMD s = Some c -> c_only_test c = false -> vars_access_possible c WO = true ->
  steps 1 s (ch_LF :: q) (Lemmas_E2E.pwa_entry s) q.
Proof.
  intros s q c Hi Hs Hc Hot Hvap.
  pose proof (Lemmas_E2E.pca_step D Hmx s ch_LF q Hi Hs) as S1.
  assert (Hrd : Lemmas_C02e.rd_state s ch_LF = set_gL (S (gL s)) (setk_char ch_LF s)).
  { unfold Lemmas_C02e.rd_state. rewrite Hs. reflexivity. }
  rewrite Hrd in S1. change (k_char (k (set_gL (S (gL s)) (setk_char ch_LF s)))) with ch_LF in S1.
  assert (E : pca_body D ch_LF (set_gL (S (gL s)) (setk_char ch_LF s)) = Lemmas_E2E.pwa_entry s).
  { unfold pca_body.
    change (cmd_of D ATCMD (set_gL (S (gL s)) (setk_char ch_LF s))) with (cmd_of D ATCMD s).
    rewrite Hc. change (ch_LF =? ch_LF)%N with true. cbv iota.
    rewrite Hot, Hvap. reflexivity. }
  rewrite E in S1. exact S1.
Qed.

(* Lemmas_E2E.wloop_steps with read-only variables *)
Lemma wloop_steps' : forall c m m0 cb q, c_hwrite c = false -> NoDup (map v_slot (c_vars c)) ->
  3 <= length cb ->
  forall vs v pre0 s done txts tl,
  c_vars c = pre0 ++ v :: vs -> Forall (rt_var_ok' m) (v :: vs) ->
  WInv' D c m m0 cb s pre0 (length done) -> idle s ->
  all_some (map (slot_text m) (v :: vs)) = Some txts ->
  cb = done ++ join_comma txts ++ 0%N :: tl ->
  exists s', steps (length (v :: vs)) s q s' q /\ WDone' c m m0 s' /\ post s s' /\
             In 0%N (cbuf s').
Proof.
  intros c m m0 cb q Hw Hnd H3.
  induction vs as [|v2 vs IH]; intros v pre0 s done txts tl Hc Hok HW Hidl Ha Hcb;
    destruct (Lemmas_C07e.all_some_cons_st _ _ _ _ Ha) as (txt & txts' & -> & Hi & Ha');
    inversion Hok as [|? ? Hokv Hokvs]; subst x l;
    pose proof Hokv as (_ & _ & Hnw & _);
    pose proof HW as (_ & Hst & Hcmd & _);
    assert (Hnf : k_state (k s) <> CS_FLUSH_WAIT) by (rewrite Hst; discriminate).
  - cbn [map all_some] in Ha'. injection Ha' as <-.
    rewrite Lemmas_C07e.join_comma_one in Hcb.
    destruct (wstep_decode' D c m m0 cb s pre0 (length done) v [] txt 0%N tl done
                HW Hc Hnd Hokv Hi eq_refl Hcb eq_refl) as (data' & d & ws & Hn & Hd' & Hdec & HM).
    change (0 =? ch_COMMA)%N with false in Hdec.
    exists (pwa_next c false (pwa_store v d ws (S (length txt)) s)).
    split; [exact (Lemmas_E2E.pwa_one D Hmx s q c v data' false d ws _ Hidl Hst Hcmd Hn Hd' Hnw Hdec)|].
    destruct (wmid_last' D _ _ _ _ _ _ _ _ HM Hc Hw ltac:(lia)) as (HD & HI).
    split; [exact HD|]. split; [apply Lemmas_E2E.post_pwa; exact Hnf | exact (HI H3)].
  - destruct (Lemmas_C07e.all_some_cons_st _ _ _ _ Ha') as (txt2 & txts2 & -> & Hi2 & Ha2).
    rewrite Lemmas_C07e.join_comma_cons2 in Hcb.
    destruct (wstep_decode' D c m m0 cb s pre0 (length done) v (v2 :: vs) txt ch_COMMA
                (join_comma (txt2 :: txts2) ++ 0%N :: tl) done
                HW Hc Hnd Hokv Hi eq_refl) as (data' & d & ws & Hn & Hd' & Hdec & HM).
    { rewrite Hcb, <- !app_assoc. reflexivity. }
    { reflexivity. }
    change (ch_COMMA =? ch_COMMA)%N with true in Hdec.
    pose proof (Lemmas_E2E.pwa_one D Hmx s q c v data' true d ws _ Hidl Hst Hcmd Hn Hd' Hnw Hdec) as S1.
    pose proof (Lemmas_E2E.post_pwa c true v d ws (S (length txt)) s Hnf) as HP1.
    pose proof (wmid_more' D _ _ _ _ _ _ _ _ HM) as HW'.
    specialize (HW' ltac:(rewrite Hc, app_length; cbn [length]; lia)).
    set (s1 := pwa_next c true (pwa_store v d ws (S (length txt)) s)) in *.
    assert (Hst1 : k_state (k s1) <> CS_FLUSH_WAIT).
    { destruct HW' as (_ & E & _). rewrite E. discriminate. }
    specialize (IH v2 (pre0 ++ [v]) s1 (done ++ txt ++ [ch_COMMA]) (txt2 :: txts2) tl).
    destruct IH as (s' & E & HD & HP2 & HI).
    + rewrite Hc, <- app_assoc. reflexivity.
    + exact Hokvs.
    + exact HW'.
    + apply (Lemmas_C02e.idle_of_u s); [apply HP1 | exact Hidl].
    + exact Ha'.
    + rewrite Hcb, <- !app_assoc. reflexivity.
    + exists s'. split; [|split; [exact HD | split; [exact (Lemmas_E2E.post_chain _ _ _ HP1 Hst1 HP2) | exact HI]]].
      change (length (v :: v2 :: vs)) with (1 + length (v2 :: vs)).
      exact (Lemmas_C02e.steps_trans D _ _ _ _ _ _ _ _ S1 E).
Qed.

Section Lines.
Variable s : state.
Hypothesis Hn : 0 < n.
Hypothesis HL : n <= 4 * length (cbuf s).
Hypothesis H6 : 6 <= length (cbuf s).
Hypothesis Hf : fault s = false.
Hypothesis Hst : k_state (k s) = CS_IDLE.
Hypothesis Hcr : k_cr (k s) = false.
Hypothesis Himp : k_implicit (k s) = false.
Hypothesis Hhold : k_hold (k s) = false.
Hypothesis Hidle : idle s.

(* a WRITE line to variables, some of them read-only:  "AT" name "=" args LF  where args is the text READ
   prints for memory m *)
Lemma write_line_osteps' : forall name rest i c m args,
  name_ok name = true -> implicit_hit D s (upper name) = false ->
  resolve (upper name) (enabled D s) (cmds D) = Some i -> nth_error (cmds D) i = Some c ->
  rt_cmd_ok' m c -> vars_access_possible c WO = true -> read_args_text m c = Some args ->
  same_shape m (mem s) -> ~ In ch_CR args -> length args < length (cbuf s) ->
  exists calls s4,
    osteps calls s ([ch_A; ch_T] ++ name ++ [ch_EQ] ++ args ++ [ch_LF] ++ rest) s4 rest
      ([ch_LF] ++ txt_OK ++ [ch_LF]) /\
    k_state (k s4) = CS_IDLE /\ fault s4 = false /\ u s4 = u s /\
    gL s4 = S (gL s) /\ gS s4 = S (gS s) /\ gR s4 = S (gR s) /\
    k_cr (k s4) = false /\ k_hold (k s4) = false /\
    vals_ok' m (mem s) s4 (c_vars c) /\
    (forall sl, ~ In sl (map v_slot (c_vars c)) -> nth_error (mem s4) sl = nth_error (mem s) sl).
Proof.
  intros name rest i c m args Hok Hh Hres Hc Hrt Hvap Ha Hsh Hncr Hfit.
  (* 1. dispatch *)
  destruct (Lemmas_E2E.dispatch_eq_ex D Hmx s Hn HL Hf Hst Himp Hidle name (args ++ [ch_LF] ++ rest) Hok Hh)
    as (c1 & s2 & H1 & (M2 & F2 & U2 & R2) & S2).
  rewrite Hres in R2. destruct R2 as (A1 & A2 & A3 & A4).
  unfold Lemmas_E2E.six in S2.
  assert (G2 : gL s2 = gL s /\ gS s2 = gS s /\ gR s2 = gR s /\ k_cr (k s2) = false /\
               k_hold (k s2) = false /\ length (cbuf s2) = length (cbuf s)).
  { repeat split; congruence. }
  destruct G2 as (gl2 & gs2 & gr2 & cr2 & ho2 & len2).
  pose proof (Lemmas_E2E.cmd_at_of_cmds D i c Hc) as Hc'.
  assert (Hi2 : idle s2) by (apply (Lemmas_C02e.idle_of_u s); assumption).
  assert (Hcmd2 : cmd_of D ATCMD s2 = Some c) by (unfold cmd_of, g_cmd; rewrite A2; exact Hc').
  pose proof Hrt as (Hne & Hokv & Hnd & _ & Hw & Hot & _).
  destruct (args_no_lf' m c args Hrt Ha) as (Hnlf & Hq).
  (* 2. the call in CS_COMMAND_FOUND *)
  pose proof (Lemmas_E2E.found_write_step D Hmx s2 (args ++ [ch_LF] ++ rest) Hi2 A1) as H2.
  destruct (Lemmas_C06.C06_entry D s2 c Hcmd2 A3 ltac:(unfold asz; lia)) as (E1 & E2 & E3 & E4 & E5 & E6 & E7 & E8).
  destruct (Lemmas_E2E.found_write_pre D s2 c Hcmd2 A3) as (K3 & gs3 & _).
  set (s3 := command_found D s2) in *.
  assert (Hi3 : idle s3) by (apply (Lemmas_C02e.idle_of_u s2); [apply K3 | exact Hi2]).
  unfold asz in E5.
  (* 3. the argument bytes *)
  destruct (Lemmas_E2E.args_steps D Hmx c args s3 ([ch_LF] ++ rest) Hi3 E1 E2 E3 ltac:(unfold asz; lia)
              ltac:(congruence) E4 Hnlf Hncr (fun _ => Hq) ltac:(unfold asz; lia)) as (H3 & K5 & gs5).
  pose proof (Lemmas_C06.C06_collect D s3 c args E1 E2 E3 ltac:(unfold asz; lia) ltac:(congruence) E4 Hnlf) as HC.
  rewrite (Lemmas_E2E.no_cr_id args Hncr) in HC. specialize (HC (fun _ => Hq)). cbv zeta in HC.
  destruct HC as (F5 & M5 & C5 & HC).
  replace (length args <? asz s3) with true in HC by (symmetry; apply Nat.ltb_lt; unfold asz; lia).
  destruct HC as (S5 & _ & B5 & L5 & _).
  set (s5 := args_feed D s3 args) in *.
  assert (Hi5 : idle s5) by (apply (Lemmas_C02e.idle_of_u s3); [apply K5 | exact Hi3]).
  (* 4. the line feed *)
  pose proof (pca_lf_step' s5 rest c Hi5 S5 C5 Hot Hvap) as H4.
  set (s6 := Lemmas_E2E.pwa_entry s5) in *.
  (* 5. the variable parser *)
  rewrite slot_text_fold in Ha.
  destruct (c_vars c) as [|v vs] eqn:Hvs; [congruence|].
  destruct (all_some (map (slot_text m) (v :: vs))) as [txts|] eqn:Hall; [|discriminate].
  injection Ha as <-.
  apply Lemmas_C07e.firstn_app_nul in B5.
  set (tl := skipn (S (length (join_comma txts))) (cbuf s5)) in B5.
  assert (HW : WInv' D c m (mem s6) (cbuf s6) s6 [] (length (@nil N))).
  { unfold WInv', vals_ok', Lemmas_C07e.frame_ok.
    split; [exact F5|]. split; [reflexivity|]. split; [exact C5|].
    split; [reflexivity|]. split; [reflexivity|]. split; [reflexivity|]. split; [reflexivity|].
    split; [change (mem s6) with (mem s5); rewrite M5, E7, M2; exact Hsh|].
    split; [intros v' [] | intros sl _; reflexivity]. }
  assert (Hi6 : idle s6) by exact Hi5.
  destruct (wloop_steps' c m (mem s6) (cbuf s6) rest Hw ltac:(rewrite Hvs; exact Hnd)
              ltac:(change (cbuf s6) with (cbuf s5); lia)
              vs v [] s6 [] txts tl Hvs Hokv HW Hi6 Hall B5)
    as (s7 & H5 & (D1 & D2 & D3 & D4 & D5 & D6) & (K7 & FL7 & _) & I7).
  destruct (FL7 D2) as (P1 & P2 & P3 & _ & P5). specialize (P5 D3).
  rewrite Hvs in D5, D6.
  destruct K3 as (u3 & gl3 & gr3 & cr3 & ho3). destruct K5 as (u5 & gl5 & gr5 & cr5 & ho5).
  destruct K7 as (u7 & gl7 & gr7 & cr7 & ho7).
  change (u s6) with (u s5) in u7. change (gL s6) with (S (gL s5)) in gl7. change (gR s6) with (gR s5) in gr7.
  change (k_cr (k s6)) with (k_cr (k s5)) in cr7. change (k_hold (k s6)) with (k_hold (k s5)) in ho7.
  change (gS s6) with (gS s5) in P5.
  assert (Hi7 : idle s7) by (apply (Lemmas_C02e.idle_of_u s5); assumption).
  (* 6. OK, reset *)
  destruct (Lemmas_E2E.result_tail D Hmx s7 rest txt_OK Hi7 (conj D2 (conj P1 (conj P2 P3))) D3
              ltac:(congruence) ltac:(congruence) I7 D4)
    as (s8 & O6 & R1 & R2 & R3 & R4 & R5 & R6 & R7 & R8 & R9 & _).
  assert (Em : mem s6 = mem s) by (change (mem s6) with (mem s5); rewrite M5, E7, M2; reflexivity).
  exists (c1 + (1 + (length (join_comma txts) + (1 + (length (v :: vs) + (7 + length txt_OK)))))), s8.
  split.
  - eapply Lemmas_E2E.osteps_cast;
      [exact (Lemmas_E2E.osteps_trans D _ _ _ _ _ _ _ _ _ _ (Lemmas_E2E.osteps_of_steps D _ _ _ _ _ H1)
               (Lemmas_E2E.osteps_trans D _ _ _ _ _ _ _ _ _ _ (Lemmas_E2E.osteps_of_steps D _ _ _ _ _ H2)
                 (Lemmas_E2E.osteps_trans D _ _ _ _ _ _ _ _ _ _ (Lemmas_E2E.osteps_of_steps D _ _ _ _ _ H3)
                   (Lemmas_E2E.osteps_trans D _ _ _ _ _ _ _ _ _ _ (Lemmas_E2E.osteps_of_steps D _ _ _ _ _ H4)
                     (Lemmas_E2E.osteps_trans D _ _ _ _ _ _ _ _ _ _ (Lemmas_E2E.osteps_of_steps D _ _ _ _ _ H5) O6)))))
      | reflexivity | reflexivity].
  - split; [exact R1|]. split; [congruence|]. split; [congruence|].
    split; [congruence|]. split; [congruence|]. split; [congruence|].
    split; [exact R8|]. split; [exact R9|]. split.
    + unfold vals_ok' in *. rewrite R2, <- Em. exact D5.
    + intros sl Hsl. rewrite R2, (D6 sl Hsl). exact (f_equal (fun x => nth_error x sl) Em).
Qed.

End Lines.
End P5b.

(* ---------- B3a. a WRITE line to variables some of which are read-only ---------- *)
Theorem E2E_write_line_ro_proof : forall D s name rest h i c m args,
  d_mutex D = false -> 0 < ncmds D -> ncmds D <= 4 * length (cbuf s) -> 6 <= length (cbuf s) ->
  fault s = false ->
  k_state (k s) = CS_IDLE -> k_cr (k s) = false -> k_implicit (k s) = false -> k_hold (k s) = false ->
  u_state (u s) = US_IDLE -> u_count (u s) = 0 ->
  name_ok name = true -> implicit_hit D s (upper name) = false ->
  resolve (upper name) (enabled D s) (cmds D) = Some i -> nth_error (cmds D) i = Some c ->
  rt_cmd_ok' m c -> vars_access_possible c WO = true -> read_args_text m c = Some args ->
  same_shape m (mem s) -> ~ In ch_CR args -> length args < length (cbuf s) ->
  let w0 := mkw s ([ch_A; ch_T] ++ name ++ [ch_EQ] ++ args ++ [ch_LF] ++ rest) h [] in
  exists calls, let w := nsvc D calls w0 in
    k_state (k (wst w)) = CS_IDLE /\ inq (wio w) = rest /\ whs w = h /\ calls_of (wtr w) = [] /\
    fault (wst w) = false /\
    output_of (wtr w) = [ch_LF] ++ txt_OK ++ [ch_LF] /\
    (forall v d0, In v (c_vars c) -> v_access v = RW -> nth_error m (v_slot v) = Some d0 ->
       exists d1, nth_error (mem (wst w)) (v_slot v) = Some d1 /\ same_value v d1 d0) /\
    (forall v, In v (c_vars c) -> v_access v = RO ->
       nth_error (mem (wst w)) (v_slot v) = nth_error (mem s) (v_slot v)) /\
    (forall sl, ~ In sl (map v_slot (c_vars c)) -> nth_error (mem (wst w)) sl = nth_error (mem s) sl) /\
    gL (wst w) = S (gL s) /\ gS (wst w) = S (gS s) /\ gR (wst w) = S (gR s).
Proof.
  intros D s name rest h i c m args Hmx Hn HL H6 Hf Hst Hcr Himp Hhold Hu1 Hu2 Hok Hh Hres Hc Hrt Hvap Ha
         Hsh Hncr Hfit w0.
  destruct (write_line_osteps' D Hmx s Hn HL H6 Hf Hst Hcr Himp Hhold (conj Hu1 Hu2)
              name rest i c m args Hok Hh Hres Hc Hrt Hvap Ha Hsh Hncr Hfit)
    as (calls & s4 & O & L1 & L2 & _ & L4 & L5 & L6 & _ & _ & L9 & L10).
  exists calls. intros w.
  destruct (Lemmas_E2E.osteps_world D calls s _ s4 rest _ h O) as (E1 & E2 & E3 & E4 & E5).
  fold w0 in E1, E2, E3, E4, E5. fold w in E1, E2, E3, E4, E5. rewrite E1.
  repeat (split; [assumption|]).
  split; [intros v d0 Hin Hrw Hn0; exact (proj1 (L9 v Hin) Hrw d0 Hn0)|].
  split; [intros v Hin Hro; exact (proj2 (L9 v Hin) Hro)|].
  repeat (split; [assumption|]). assumption.
Qed.

(* ---------- B3b. round trip with read-only variables, two-world form ---------- *)
Theorem C07_roundtrip_line_ro_proof : forall D s name rest h i c args,
  d_mutex D = false -> 0 < ncmds D -> ncmds D <= 4 * length (cbuf s) -> 6 <= length (cbuf s) ->
  fault s = false ->
  k_state (k s) = CS_IDLE -> k_cr (k s) = false -> k_implicit (k s) = false -> k_hold (k s) = false ->
  u_state (u s) = US_IDLE -> u_count (u s) = 0 ->
  name_ok name = true -> implicit_hit D s (upper name) = false ->
  resolve (upper name) (enabled D s) (cmds D) = Some i -> nth_error (cmds D) i = Some c ->
  rt_cmd_ok' (mem s) c -> vars_access_possible c WO = true -> read_args_text (mem s) c = Some args ->
  length (c_name c ++ [ch_EQ] ++ args) < length (cbuf s) -> ~ In ch_CR args ->
  exists calls1 resp,
    let w1 := nsvc D calls1 (mkw s ([ch_A; ch_T] ++ name ++ [ch_QM; ch_LF] ++ rest) h []) in
    output_of (wtr w1) = [ch_LF] ++ resp ++ [ch_LF] ++ [ch_LF] ++ txt_OK ++ [ch_LF] /\
    resp = c_name c ++ [ch_EQ] ++ args /\
    w1 = mkw (wst w1) rest h (wtr w1) /\ calls_of (wtr w1) = [] /\ mem (wst w1) = mem s /\
    ready_like s (wst w1) /\ enabled D (wst w1) = enabled D s /\
    (forall t, implicit_hit D (wst w1) t = implicit_hit D s t) /\
    forall s2 name2 rest2 h2 i2,
      ready_like s s2 ->
      name_ok name2 = true -> implicit_hit D s2 (upper name2) = false ->
      resolve (upper name2) (enabled D s2) (cmds D) = Some i2 -> nth_error (cmds D) i2 = Some c ->
      exists calls2,
        let w2 := nsvc D calls2
                    (mkw s2 ([ch_A; ch_T] ++ name2 ++ [ch_EQ] ++ skipn (S (length (c_name c))) resp ++ [ch_LF] ++ rest2)
                         h2 []) in
        k_state (k (wst w2)) = CS_IDLE /\ inq (wio w2) = rest2 /\ whs w2 = h2 /\ calls_of (wtr w2) = [] /\
        fault (wst w2) = false /\
        output_of (wtr w2) = [ch_LF] ++ txt_OK ++ [ch_LF] /\
        (* read-write variables: the value they had in mem s when line 1 read them *)
        (forall v d0, In v (c_vars c) -> v_access v = RW -> nth_error (mem s) (v_slot v) = Some d0 ->
           exists d1, nth_error (mem (wst w2)) (v_slot v) = Some d1 /\ same_value v d1 d0) /\
        (* read-only variables: untouched, i.e. the CURRENT content (of s2), not the one that was read *)
        (forall v, In v (c_vars c) -> v_access v = RO ->
           nth_error (mem (wst w2)) (v_slot v) = nth_error (mem s2) (v_slot v)) /\
        (forall sl, ~ In sl (map v_slot (c_vars c)) -> nth_error (mem (wst w2)) sl = nth_error (mem s2) sl) /\
        gL (wst w2) = S (gL s2) /\ gS (wst w2) = S (gS s2) /\ gR (wst w2) = S (gR s2).
Proof.
  intros D s name rest h i c args Hmx Hn HL H6 Hf Hst Hcr Himp Hhold Hu1 Hu2 Hok Hh Hres Hc Hrt Hvap Ha Hfit Hncr.
  destruct (E2E_read_line_re_proof D s name rest h i c args Hmx Hn HL H6 Hf Hst Hcr Himp Hhold Hu1 Hu2
              Hok Hh Hres Hc Hrt Ha Hfit)
    as (calls1 & E1 & E2 & E3 & E4 & E5 & _ & _ & E8 & E9 & _).
  exists calls1, (c_name c ++ [ch_EQ] ++ args). cbv zeta.
  split; [rewrite E3, <- !app_assoc; reflexivity|]. split; [reflexivity|].
  split; [exact E1|]. split; [exact E2|]. split; [exact E4|]. split; [exact E5|].
  split; [exact (enabled_dis D s _ E8 E9)|]. split; [intros t; exact (implicit_hit_dis D s _ t E8 E9)|].
  intros s2 name2 rest2 h2 i2 (R1 & R2 & R3 & R4 & R5 & R6 & R7 & R8 & R9) Hok2 Hh2 Hres2 Hc2.
  rewrite echo_args.
  assert (Hfit2 : length args < length (cbuf s2)).
  { rewrite R1. rewrite !app_length in Hfit. cbn [length] in Hfit. lia. }
  assert (HL2 : ncmds D <= 4 * length (cbuf s2)) by (rewrite R1; exact HL).
  assert (H62 : 6 <= length (cbuf s2)) by (rewrite R1; exact H6).
  exact (E2E_write_line_ro_proof D s2 name2 rest2 h2 i2 c (mem s) args Hmx Hn
           HL2 H62 R2 R3 R4 R5 R6 R7 R8 Hok2 Hh2 Hres2 Hc2 Hrt Hvap Ha R9 Hncr Hfit2).
Qed.

(* ---------- B3c. round trip with read-only variables, both lines in one input queue ---------- *)
Theorem C07_roundtrip_queue_ro_proof : forall D s name name2 rest h i i2 c args,
  d_mutex D = false -> 0 < ncmds D -> ncmds D <= 4 * length (cbuf s) -> 6 <= length (cbuf s) ->
  fault s = false ->
  k_state (k s) = CS_IDLE -> k_cr (k s) = false -> k_implicit (k s) = false -> k_hold (k s) = false ->
  u_state (u s) = US_IDLE -> u_count (u s) = 0 ->
  name_ok name = true -> implicit_hit D s (upper name) = false ->
  resolve (upper name) (enabled D s) (cmds D) = Some i -> nth_error (cmds D) i = Some c ->
  name_ok name2 = true -> implicit_hit D s (upper name2) = false ->
  resolve (upper name2) (enabled D s) (cmds D) = Some i2 -> nth_error (cmds D) i2 = Some c ->
  rt_cmd_ok' (mem s) c -> vars_access_possible c WO = true -> read_args_text (mem s) c = Some args ->
  length (c_name c ++ [ch_EQ] ++ args) < length (cbuf s) -> ~ In ch_CR args ->
  let resp := c_name c ++ [ch_EQ] ++ args in
  let line2 := [ch_A; ch_T] ++ name2 ++ [ch_EQ] ++ skipn (S (length (c_name c))) resp ++ [ch_LF] ++ rest in
  let w0 := mkw s ([ch_A; ch_T] ++ name ++ [ch_QM; ch_LF] ++ line2) h [] in
  exists calls1 calls2,
    let w1 := nsvc D calls1 w0 in
    let w2 := nsvc D (calls1 + calls2) w0 in
    output_of (wtr w1) = [ch_LF] ++ resp ++ [ch_LF] ++ [ch_LF] ++ txt_OK ++ [ch_LF] /\
    inq (wio w1) = line2 /\ k_state (k (wst w1)) = CS_IDLE /\ mem (wst w1) = mem s /\
    k_state (k (wst w2)) = CS_IDLE /\ inq (wio w2) = rest /\ whs w2 = h /\ calls_of (wtr w2) = [] /\
    fault (wst w2) = false /\
    output_of (wtr w2) = ([ch_LF] ++ resp ++ [ch_LF] ++ [ch_LF] ++ txt_OK ++ [ch_LF]) ++ [ch_LF] ++ txt_OK ++ [ch_LF] /\
    (forall v d0, In v (c_vars c) -> v_access v = RW -> nth_error (mem s) (v_slot v) = Some d0 ->
       exists d1, nth_error (mem (wst w2)) (v_slot v) = Some d1 /\ same_value v d1 d0) /\
    (forall v, In v (c_vars c) -> v_access v = RO ->
       nth_error (mem (wst w2)) (v_slot v) = nth_error (mem s) (v_slot v)) /\
    (forall sl, ~ In sl (map v_slot (c_vars c)) -> nth_error (mem (wst w2)) sl = nth_error (mem s) sl) /\
    gL (wst w2) = S (S (gL s)) /\ gS (wst w2) = S (S (gS s)) /\ gR (wst w2) = S (S (gR s)).
Proof.
  intros D s name name2 rest h i i2 c args Hmx Hn HL H6 Hf Hst Hcr Himp Hhold Hu1 Hu2 Hok Hh Hres Hc
         Hok2 Hh2 Hres2 Hc2 Hrt Hvap Ha Hfit Hncr resp line2 w0.
  assert (Eecho : skipn (S (length (c_name c))) resp = args) by apply echo_args.
  subst line2 w0. rewrite Eecho. clear Eecho.
  set (line2 := [ch_A; ch_T] ++ name2 ++ [ch_EQ] ++ args ++ [ch_LF] ++ rest).
  destruct (read_line_osteps3 D Hmx s Hn HL H6 Hf Hst Hcr Himp Hhold (conj Hu1 Hu2)
              name line2 i c args Hok Hh Hres Hc Hrt Ha Hfit)
    as (calls1 & s4 & O1 & (L1 & L2 & L3 & L4 & L5 & L6 & L7 & L8 & L9 & L10 & L11 & L12 & L13 & L14)).
  assert (Hfit2 : length args < length (cbuf s4)).
  { rewrite L14. rewrite !app_length in Hfit. cbn [length] in Hfit. lia. }
  assert (Hi4 : idle s4) by (apply (Lemmas_C02e.idle_of_u s); [exact L4 | exact (conj Hu1 Hu2)]).
  assert (Hsh : same_shape (mem s) (mem s4)) by (rewrite L2; reflexivity).
  assert (HL4 : ncmds D <= 4 * length (cbuf s4)) by (rewrite L14; exact HL).
  assert (H64 : 6 <= length (cbuf s4)) by (rewrite L14; exact H6).
  assert (Hh4 : implicit_hit D s4 (upper name2) = false)
    by (rewrite (implicit_hit_dis D s s4 _ L12 L13); exact Hh2).
  assert (Hres4 : resolve (upper name2) (enabled D s4) (cmds D) = Some i2)
    by (rewrite (enabled_dis D s s4 L12 L13); exact Hres2).
  destruct (write_line_osteps' D Hmx s4 Hn HL4 H64
              L3 L1 L8 L11 L9 Hi4 name2 rest i2 c (mem s) args Hok2 Hh4 Hres4 Hc2 Hrt Hvap Ha Hsh Hncr Hfit2)
    as (calls2 & s8 & O2 & W1 & W2 & W3 & W4 & W5 & W6 & W7 & W8 & W9 & W10).
  fold line2 in O2.
  exists calls1, calls2. intros w1 w2.
  destruct (O1 h []) as (t1 & C1 & Out1 & E1). rewrite app_nil_r in E1.
  pose proof (Lemmas_E2E.osteps_trans D _ _ _ _ _ _ _ _ _ _ O1 O2) as O12.
  destruct (O12 h []) as (t2 & C2 & Out2 & E2). rewrite app_nil_r in E2.
  unfold w1, w2. rewrite E1, E2. cbn [Fsm.st Fsm.io Fsm.hs Fsm.tr mkw inq].
  split; [rewrite Out1; unfold resp; rewrite <- !app_assoc; reflexivity|].
  split; [reflexivity|].
  split; [exact L1|]. split; [exact L2|]. split; [exact W1|]. split; [reflexivity|]. split; [reflexivity|].
  split; [exact C2|]. split; [exact W2|].
  split; [rewrite Out2; unfold resp; rewrite <- !app_assoc; reflexivity|].
  split; [intros v d0 Hin Hrw Hn0; exact (proj1 (W9 v Hin) Hrw d0 Hn0)|].
  split; [intros v Hin Hro; rewrite (proj2 (W9 v Hin) Hro), L2; reflexivity|].
  split; [intros sl Hsl; rewrite (W10 sl Hsl), L2; reflexivity|].
  repeat split; congruence.
Qed.
End P5.

