(* Properties_C11.v — property C11: the output byte stream is a concatenation of complete units
   (newline ++ text ++ newline; the bare text for a line of the command list), each emitted by
   exactly one producer (the command machine, tag ATCMD, or the event machine, tag UNSOL); bytes of
   an event line never appear inside a command-response unit or vice versa; no unit is lost,
   duplicated or truncated — under all patterns of write refusals and all interleavings.
   Proofs are in Lemmas_C11.v. *)
From Coq Require Import List NArith ZArith Bool Arith.
From CatV Require Import Bytes Defs Codec Fsm Script ResolveDefs TextDefs TraceDefs Lemmas_C11.
Import ListNotations.
Local Open Scope nat_scope.

(* ------------------------------------------------------------------ *)
(* definitions needed to read the statements: they live in Lemmas_C11.v  *)
(* and are restated here as checked equations (all by reflexivity)       *)
(* ------------------------------------------------------------------ *)

(* TextDefs.text_of l : the NUL-terminated text at the start of the buffer l *)

Example def_nl_text : forall cr, nl_text cr = if cr then [ch_CR; ch_LF] else [ch_LF].
Proof. reflexivity. Qed.

(* the NUL-terminated C string selected by the write-buffer pointer *)
Example def_wb_text : forall wb main,
  wb_text wb main = match wb with WB_NL cr => nl_text cr ++ [0%N] | WB_MAIN => main end.
Proof. reflexivity. Qed.

(* bytes the CURRENT phase still has to send: from the cursor to the NUL of the selected text *)
Example def_phase_rest : forall wb main pos,
  phase_rest wb main pos = text_of (skipn pos (wb_text wb main)).
Proof. reflexivity. Qed.

(* what the flush engine does when the cursor is on the terminating NUL (gR: ghost counter) *)
Example def_phase_switch_c : forall s,
  phase_switch_c s =
  match k_wstate (k s) with
  | WS_BEFORE => s |> setk_position 0 |> setk_wbuf WB_MAIN |> setk_wstate WS_MAIN
  | WS_MAIN => s |> setk_position 0 |> setk_wbuf (WB_NL (k_cr (k s))) |> setk_wstate WS_AFTER
  | WS_AFTER =>
    let s1 := setk_state (k_wafter (k s)) s in
    if cstate_beq (k_wafter (k s)) CS_AFTER_RESET then set_gR (S (gR s1)) s1 else s1
  end.
Proof. reflexivity. Qed.
Example def_phase_switch_u : forall s,
  phase_switch_u s =
  match u_wstate (u s) with
  | WS_BEFORE => s |> setu_position 0 |> setu_wbuf WB_MAIN |> setu_wstate WS_MAIN
  | WS_MAIN => s |> setu_position 0 |> setu_wbuf (WB_NL (k_cr (k s))) |> setu_wstate WS_AFTER
  | WS_AFTER => setu_state (u_wafter (u s)) s
  end.
Proof. reflexivity. Qed.

(* one step of the flush engine when the write (if any) is accepted, with the emitted byte *)
Example def_flush_step_c : forall s,
  flush_step_c s =
  match wbuf_char (k_wbuf (k s)) (cbuf s) (k_position (k s)) with
  | None => (set_fault_flag s, None)
  | Some ch => if (ch =? 0)%N then (phase_switch_c s, None)
               else (setk_position (S (k_position (k s))) s, Some ch)
  end.
Proof. reflexivity. Qed.
Example def_flush_step_u : forall s,
  flush_step_u s =
  match wbuf_char (u_wbuf (u s)) (ubuf s) (u_position (u s)) with
  | None => (set_fault_flag s, None)
  | Some ch => if (ch =? 0)%N then (phase_switch_u s, None)
               else (setu_position (S (u_position (u s))) s, Some ch)
  end.
Proof. reflexivity. Qed.

(* n accepted steps, collecting the emitted bytes *)
Example def_run_flush_c : forall s n,
  run_flush_c 0 s = (s, []) /\
  run_flush_c (S n) s =
    (let (s1, o) := flush_step_c s in
     let (s2, out) := run_flush_c n s1 in
     (s2, match o with Some c => c :: out | None => out end)).
Proof. split; reflexivity. Qed.
Example def_run_flush_u : forall s n,
  run_flush_u 0 s = (s, []) /\
  run_flush_u (S n) s =
    (let (s1, o) := flush_step_u s in
     let (s2, out) := run_flush_u n s1 in
     (s2, match o with Some c => c :: out | None => out end)).
Proof. split; reflexivity. Qed.

(* write attempts (producer, byte, accepted) of a list of events, in the order of the list *)
Example def_writes : forall evs,
  writes evs = flat_map (fun e => match e with EWr f ch ok => [(f, ch, ok)] | _ => [] end) evs.
Proof. reflexivity. Qed.
(* accepted bytes with their producer *)
Example def_accepted_wr : forall h,
  accepted_wr h = flat_map (fun e => match e with EWr f ch true => [(f, ch)] | _ => [] end) h.
Proof. reflexivity. Qed.

(* the flush exclusion (a conjunct of the control invariant J of SkelInv.v) *)
Example def_excl : forall s,
  excl s = ~ (k_state (k s) = CS_FLUSH /\ u_state (u s) = US_FLUSH).
Proof. reflexivity. Qed.

(* the event machine's registers and buffer, without its queue (ring, tail, head, count) *)
Example def_upart : forall s,
  upart s =
  (u_state (u s), u_index (u s), u_position (u s), u_cmd (u s), u_var (u s), u_type (u s),
   u_wbuf (u s), u_wstate (u s), u_wafter (u s), ubuf s).
Proof. reflexivity. Qed.
(* the command machine's registers and buffer, without k_state, k_hold, k_hold_exit *)
Example def_kpart : forall s,
  kpart s =
  (cbuf s, k_index (k s), k_partial (k s), k_length (k s), k_position (k s), k_write_size (k s),
   k_cmd (k s), k_var (k s), k_type (k s), k_char (k s), k_cr (k s), k_wbuf (k s), k_wstate (k s),
   k_wafter (k s), k_implicit (k s)).
Proof. reflexivity. Qed.

(* what the command machine still has to send to complete the unit in flight, computed from
   (write-state, cursor, buffer, k_cr) *)
Example def_remaining : forall s,
  remaining s =
  (let r := phase_rest (k_wbuf (k s)) (cbuf s) (k_position (k s)) in
   match k_wstate (k s) with
   | WS_BEFORE => r ++ text_of (cbuf s) ++ nl_text (k_cr (k s))
   | WS_MAIN => r ++ nl_text (k_cr (k s))
   | WS_AFTER => r
   end).
Proof. reflexivity. Qed.
(* same for the event machine, up to the closing newline, whose text is only chosen (from k_cr) when
   the payload has been sent *)
Example def_remaining_u : forall s,
  remaining_u s =
  (let r := phase_rest (u_wbuf (u s)) (ubuf s) (u_position (u s)) in
   match u_wstate (u s) with
   | WS_BEFORE => r ++ text_of (ubuf s)
   | WS_MAIN => r
   | WS_AFTER => r
   end).
Proof. reflexivity. Qed.

(* event-side read/test handler requests *)
Example def_uns_req : forall q,
  uns_req q = match q with HRead UNSOL _ _ _ _ | HTest UNSOL _ _ _ _ => true | _ => false end.
Proof. reflexivity. Qed.

(* ------------------------------------------------------------------ *)
(* 2. a whole unit, by pure iteration of the accepting step             *)
(*    (unbounded text length; exact number of steps)                    *)
(* ------------------------------------------------------------------ *)

(* command response: newline ++ text ++ newline, in exactly |unit| + 3 steps; the machine stays in
   CS_FLUSH before that and is in the continuation state after; buffer, k_cr and the whole event
   machine are untouched *)
Theorem C11_unit_cmd : forall s after, In 0%N (cbuf s) ->
  let s0 := setk_state CS_FLUSH (start_flush_c after s) in
  let nl := nl_text (k_cr (k s)) in
  let n := 3 + 2 * length nl + length (text_of (cbuf s)) in
  snd (run_flush_c n s0) = nl ++ text_of (cbuf s) ++ nl /\
  k_state (k (fst (run_flush_c n s0))) = after /\
  cbuf (fst (run_flush_c n s0)) = cbuf s /\ ubuf (fst (run_flush_c n s0)) = ubuf s /\
  u (fst (run_flush_c n s0)) = u s /\ k_cr (k (fst (run_flush_c n s0))) = k_cr (k s) /\
  (forall m, m < n -> k_state (k (fst (run_flush_c m s0))) = CS_FLUSH).
Proof. exact Lemmas_C11.C11_unit_cmd_proof. Qed.
Print Assumptions C11_unit_cmd.

(* a raw line of the command list: the text of the buffer only, in |text| + 1 steps *)
Theorem C11_unit_raw : forall s after, In 0%N (cbuf s) ->
  let s0 := setk_state CS_FLUSH (start_flush_raw_c after s) in
  let n := 1 + length (text_of (cbuf s)) in
  snd (run_flush_c n s0) = text_of (cbuf s) /\
  k_state (k (fst (run_flush_c n s0))) = after /\
  cbuf (fst (run_flush_c n s0)) = cbuf s /\ ubuf (fst (run_flush_c n s0)) = ubuf s /\
  u (fst (run_flush_c n s0)) = u s /\ k_cr (k (fst (run_flush_c n s0))) = k_cr (k s) /\
  (forall m, m < n -> k_state (k (fst (run_flush_c m s0))) = CS_FLUSH).
Proof. exact Lemmas_C11.C11_unit_raw_proof. Qed.
Print Assumptions C11_unit_raw.

(* an event line.  In the iteration of the event machine ALONE the command machine's record, hence
   k_cr, is constant (k s' = k s), so the closing newline cr1 equals the opening one cr0; in the
   interleaved system it is the value of k_cr when the payload has been sent: see
   C11_session_uns_run and the example C11_ex_event_unit_mixed_newlines *)
Theorem C11_unit_uns : forall s after, In 0%N (ubuf s) ->
  let s0 := setu_state US_FLUSH (start_flush_u after s) in
  let nl := nl_text (k_cr (k s)) in
  let n := 3 + 2 * length nl + length (text_of (ubuf s)) in
  snd (run_flush_u n s0) = nl ++ text_of (ubuf s) ++ nl /\
  u_state (u (fst (run_flush_u n s0))) = after /\
  ubuf (fst (run_flush_u n s0)) = ubuf s /\ cbuf (fst (run_flush_u n s0)) = cbuf s /\
  k (fst (run_flush_u n s0)) = k s /\
  (forall m, m < n -> u_state (u (fst (run_flush_u m s0))) = US_FLUSH).
Proof. exact Lemmas_C11.C11_unit_uns_proof. Qed.
Print Assumptions C11_unit_uns.

(* what remains to be sent right after the flush has been entered with a fresh cursor is the unit *)
Theorem C11_remaining_fresh : forall s after uafter,
  remaining (setk_state CS_FLUSH (start_flush_c after s)) =
    nl_text (k_cr (k s)) ++ text_of (cbuf s) ++ nl_text (k_cr (k s)) /\
  remaining (setk_state CS_FLUSH (start_flush_raw_c after s)) = text_of (cbuf s) /\
  remaining_u (setu_state US_FLUSH (start_flush_u uafter s)) = nl_text (k_cr (k s)) ++ text_of (ubuf s).
Proof. exact Lemmas_C11.C11_remaining_fresh_proof. Qed.
Print Assumptions C11_remaining_fresh.

(* ------------------------------------------------------------------ *)
(* 3a. the two wait states (pure)                                       *)
(* ------------------------------------------------------------------ *)

(* the command machine enters CS_FLUSH iff the event machine is not in US_FLUSH; otherwise nothing
   changes *)
Theorem C11_wait_cmd : forall s, k_state (k s) = CS_FLUSH_WAIT ->
  (k_state (k (process_io_write_wait s)) = CS_FLUSH <-> u_state (u s) <> US_FLUSH) /\
  (u_state (u s) <> US_FLUSH -> process_io_write_wait s = setk_state CS_FLUSH s) /\
  (u_state (u s) = US_FLUSH -> process_io_write_wait s = s).
Proof. exact Lemmas_C11.C11_wait_cmd_proof. Qed.
Print Assumptions C11_wait_cmd.

Theorem C11_wait_uns : forall s, u_state (u s) = US_FLUSH_WAIT ->
  (u_state (u (unsolicited_process_io_write_wait s)) = US_FLUSH <-> k_state (k s) <> CS_FLUSH) /\
  (k_state (k s) <> CS_FLUSH -> unsolicited_process_io_write_wait s = setu_state US_FLUSH s) /\
  (k_state (k s) = CS_FLUSH -> unsolicited_process_io_write_wait s = s).
Proof. exact Lemmas_C11.C11_wait_uns_proof. Qed.
Print Assumptions C11_wait_uns.

(* ------------------------------------------------------------------ *)
(* worlds: arbitrary io, mutex and handler oracles                      *)
(* ------------------------------------------------------------------ *)
Section C11.
Variable D : desc.
Variables ioS muS hS : Type.
Variable io_read : ioS -> ioS * option N.
Variable io_write : ioS -> N -> ioS * bool.
Variable mu_lock : muS -> muS * bool.
Variable mu_unlock : muS -> muS * bool.
Variable h_call : hS -> hreq -> hS * hres.

Local Notation world := (Fsm.world ioS muS hS).
Local Notation mkWorld := (Fsm.mkWorld ioS muS hS).
Local Notation st := (Fsm.st ioS muS hS).
Local Notation tr := (Fsm.tr ioS muS hS).
Local Notation io := (Fsm.io ioS muS hS).
Local Notation mu := (Fsm.mu ioS muS hS).
Local Notation hs := (Fsm.hs ioS muS hS).
Local Notation set_st := (Fsm.set_st ioS muS hS).
Local Notation unsolicited_events_service :=
  (Fsm.unsolicited_events_service D ioS muS hS io_write mu_lock mu_unlock h_call).
Local Notation cmd_service :=
  (Fsm.cmd_service D ioS muS hS io_read io_write mu_lock mu_unlock h_call).
Local Notation service_body :=
  (Fsm.service_body D ioS muS hS io_read io_write mu_lock mu_unlock h_call).
Local Notation run := (Fsm.run D ioS muS hS io_read io_write mu_lock mu_unlock h_call).

(* the application never answers HOLD from an event-side handler (scope decision D3: out of
   contract; such an answer forces the command machine to CS_HOLD and would truncate its unit) *)
Local Notation no_uns_hold := (Lemmas_C11.no_uns_hold hS h_call).
Example def_no_uns_hold :
  no_uns_hold = (forall h q, uns_req q = true -> r_code (snd (h_call h q)) <> RC_HOLD).
Proof. reflexivity. Qed.

(* n calls of cat_service's body *)
Local Notation svc_n := (Lemmas_C11.svc_n D ioS muS hS io_read io_write mu_lock mu_unlock h_call).
Example def_svc_n : forall n w, svc_n n w = iter n (fun w => fst (service_body w)) w.
Proof. reflexivity. Qed.

(* ---- 1. the one-step laws of the flush engines, ANY world in CS_FLUSH / US_FLUSH ---- *)

(* a byte remains in the current phase: exactly one io_write, of that byte; accepted: the event
   EWr ATCMD ch true, the cursor advances, nothing else changes, phase_rest becomes rest;
   refused: the event EWr ATCMD ch false and the state is unchanged *)
Theorem C11_step_cmd_char : forall w ch rest,
  k_state (k (st w)) = CS_FLUSH ->
  phase_rest (k_wbuf (k (st w))) (cbuf (st w)) (k_position (k (st w))) = ch :: rest ->
  cmd_service w =
    (let (io', ok) := io_write (io w) ch in
     if ok then mkWorld (setk_position (S (k_position (k (st w)))) (st w)) io' (mu w) (hs w)
                        (EWr ATCMD ch true :: tr w)
     else mkWorld (st w) io' (mu w) (hs w) (EWr ATCMD ch false :: tr w), ST_BUSY)
  /\ phase_rest (k_wbuf (k (st w))) (cbuf (st w)) (S (k_position (k (st w)))) = rest.
Proof.
  exact (Lemmas_C11.C11_step_cmd_char_proof D ioS muS hS io_read io_write mu_lock mu_unlock h_call).
Qed.

Theorem C11_step_uns_char : forall w ch rest,
  u_state (u (st w)) = US_FLUSH ->
  phase_rest (u_wbuf (u (st w))) (ubuf (st w)) (u_position (u (st w))) = ch :: rest ->
  unsolicited_events_service w =
    (let (io', ok) := io_write (io w) ch in
     if ok then mkWorld (setu_position (S (u_position (u (st w)))) (st w)) io' (mu w) (hs w)
                        (EWr UNSOL ch true :: tr w)
     else mkWorld (st w) io' (mu w) (hs w) (EWr UNSOL ch false :: tr w), ST_BUSY)
  /\ phase_rest (u_wbuf (u (st w))) (ubuf (st w)) (S (u_position (u (st w)))) = rest.
Proof.
  exact (Lemmas_C11.C11_step_uns_char_proof D ioS muS hS io_write mu_lock mu_unlock h_call).
Qed.

(* the cursor is on the terminating NUL: nothing remains in the phase; no io, no event; the phase
   switch (see phase_switch_c); the buffer is unchanged *)
Theorem C11_step_cmd_phase : forall w,
  k_state (k (st w)) = CS_FLUSH ->
  wbuf_char (k_wbuf (k (st w))) (cbuf (st w)) (k_position (k (st w))) = Some 0%N ->
  phase_rest (k_wbuf (k (st w))) (cbuf (st w)) (k_position (k (st w))) = [] /\
  cmd_service w = (set_st (phase_switch_c (st w)) w, ST_BUSY) /\
  cbuf (phase_switch_c (st w)) = cbuf (st w).
Proof.
  exact (Lemmas_C11.C11_step_cmd_phase_proof D ioS muS hS io_read io_write mu_lock mu_unlock h_call).
Qed.

Theorem C11_step_uns_phase : forall w,
  u_state (u (st w)) = US_FLUSH ->
  wbuf_char (u_wbuf (u (st w))) (ubuf (st w)) (u_position (u (st w))) = Some 0%N ->
  phase_rest (u_wbuf (u (st w))) (ubuf (st w)) (u_position (u (st w))) = [] /\
  unsolicited_events_service w = (set_st (phase_switch_u (st w)) w, ST_BUSY) /\
  ubuf (phase_switch_u (st w)) = ubuf (st w).
Proof.
  exact (Lemmas_C11.C11_step_uns_phase_proof D ioS muS hS io_write mu_lock mu_unlock h_call).
Qed.

(* ---- 2'. the pure step IS the machine's step whenever io_write accepts ---- *)
Theorem C11_flush_step_c_agrees : forall w,
  k_state (k (st w)) = CS_FLUSH ->
  (forall ch, snd (io_write (io w) ch) = true) ->
  st (fst (cmd_service w)) = fst (flush_step_c (st w)) /\
  tr (fst (cmd_service w)) =
    match snd (flush_step_c (st w)) with Some ch => EWr ATCMD ch true :: tr w | None => tr w end.
Proof.
  exact (Lemmas_C11.C11_flush_step_c_agrees_proof D ioS muS hS io_read io_write mu_lock mu_unlock h_call).
Qed.

Theorem C11_flush_step_u_agrees : forall w,
  u_state (u (st w)) = US_FLUSH ->
  (forall ch, snd (io_write (io w) ch) = true) ->
  st (fst (unsolicited_events_service w)) = fst (flush_step_u (st w)) /\
  tr (fst (unsolicited_events_service w)) =
    match snd (flush_step_u (st w)) with Some ch => EWr UNSOL ch true :: tr w | None => tr w end.
Proof.
  exact (Lemmas_C11.C11_flush_step_u_agrees_proof D ioS muS hS io_write mu_lock mu_unlock h_call).
Qed.

(* ---- 3b. exclusion, ownership and frames for one service call, ARBITRARY handlers ---- *)

(* the exclusion is preserved by a service call whatever the handlers answer (HOLD from an
   event-side handler included) *)
Theorem C11_exclusion_preserved : forall w, excl (st w) -> excl (st (fst (service_body w))).
Proof.
  exact (Lemmas_C11.C11_exclusion_preserved_proof D ioS muS hS io_read io_write mu_lock mu_unlock h_call).
Qed.

(* with the exclusion, one service call makes AT MOST ONE write attempt, by the machine that was in
   its FLUSH state when the call started, of the next byte of its current phase (so all write events
   of a call carry the same producer tag) *)
Theorem C11_one_writer : forall w, excl (st w) ->
  exists evs, tr (fst (service_body w)) = evs ++ tr w /\
  (writes evs = [] \/
   (exists ch ok rest, writes evs = [(UNSOL, ch, ok)] /\ u_state (u (st w)) = US_FLUSH /\
      phase_rest (u_wbuf (u (st w))) (ubuf (st w)) (u_position (u (st w))) = ch :: rest) \/
   (exists ch ok rest, writes evs = [(ATCMD, ch, ok)] /\ k_state (k (st w)) = CS_FLUSH /\
      phase_rest (k_wbuf (k (st w))) (cbuf (st w)) (k_position (k (st w))) = ch :: rest)).
Proof.
  exact (Lemmas_C11.C11_one_writer_proof D ioS muS hS io_read io_write mu_lock mu_unlock h_call).
Qed.

(* the command machine's step (any state) never touches the event machine's state, flush cursor,
   registers or buffer; only its queue can change (inner trigger calls of a handler) *)
Theorem C11_frame_cmd : forall w, upart (st (fst (cmd_service w))) = upart (st w).
Proof.
  exact (Lemmas_C11.C11_frame_cmd_proof D ioS muS hS io_read io_write mu_lock mu_unlock h_call).
Qed.

(* the event machine's step (any state) never touches the command machine's buffer, flush cursor,
   k_cr or other registers; k_state can only be forced to CS_HOLD (HOLD answered on the event side) *)
Theorem C11_frame_uns : forall w,
  let s := st w in let s' := st (fst (unsolicited_events_service w)) in
  kpart s' = kpart s /\ (k_state (k s') = k_state (k s) \/ k_state (k s') = CS_HOLD).
Proof.
  exact (Lemmas_C11.C11_frame_uns_proof D ioS muS hS io_write mu_lock mu_unlock h_call).
Qed.

Theorem C11_frame_uns_nohold : no_uns_hold -> forall w,
  let s := st w in let s' := st (fst (unsolicited_events_service w)) in
  kpart s' = kpart s /\ k_state (k s') = k_state (k s) /\ k_hold (k s') = k_hold (k s).
Proof.
  exact (Lemmas_C11.C11_frame_uns_nohold_proof D ioS muS hS io_write mu_lock mu_unlock h_call).
Qed.

(* ---- 4. a command-response unit in flight, on the trace, arbitrary oracles ---- *)

(* From ANY world where the command machine is in CS_FLUSH and the event machine is not in US_FLUSH,
   over any number n of service calls during which the command machine has stayed in CS_FLUSH
   (arbitrary refusals, the event machine doing whatever it does): all bytes accepted since then
   were written by the command machine, sent ++ remaining = the unit (what remained at the start;
   for a fresh cursor see C11_remaining_fresh), the event machine has not entered US_FLUSH; and when
   the command machine has left CS_FLUSH, it is in the continuation state and sent = the whole unit *)
Theorem C11_session : no_uns_hold -> forall w0,
  k_state (k (st w0)) = CS_FLUSH -> u_state (u (st w0)) <> US_FLUSH ->
  forall n, (forall m, m < n -> k_state (k (st (svc_n m w0))) = CS_FLUSH) ->
  exists evs bytes,
    tr (svc_n n w0) = evs ++ tr w0 /\
    accepted_wr (rev evs) = map (pair ATCMD) bytes /\
    bytes ++ remaining (st (svc_n n w0)) = remaining (st w0) /\
    u_state (u (st (svc_n n w0))) <> US_FLUSH /\
    (k_state (k (st (svc_n n w0))) <> CS_FLUSH ->
       bytes = remaining (st w0) /\ k_state (k (st (svc_n n w0))) = k_wafter (k (st w0))).
Proof.
  exact (Lemmas_C11.C11_session_proof D ioS muS hS io_read io_write mu_lock mu_unlock h_call).
Qed.

(* the same over ANY sequence of API operations (service calls with a mutex that may fail, trigger,
   hold_exit, queries, enable/disable) *)
Theorem C11_session_run : no_uns_hold -> forall w0,
  k_state (k (st w0)) = CS_FLUSH -> u_state (u (st w0)) <> US_FLUSH ->
  forall ops,
  (forall m, m < length ops -> k_state (k (st (run w0 (firstn m ops)))) = CS_FLUSH) ->
  exists evs bytes,
    tr (run w0 ops) = evs ++ tr w0 /\
    accepted_wr (rev evs) = map (pair ATCMD) bytes /\
    bytes ++ remaining (st (run w0 ops)) = remaining (st w0) /\
    u_state (u (st (run w0 ops))) <> US_FLUSH /\
    (k_state (k (st (run w0 ops))) <> CS_FLUSH ->
       bytes = remaining (st w0) /\ k_state (k (st (run w0 ops))) = k_wafter (k (st w0))).
Proof.
  exact (Lemmas_C11.C11_session_run_proof D ioS muS hS io_read io_write mu_lock mu_unlock h_call).
Qed.

(* an event unit in flight, NO assumption on the handlers: from any world where the event machine
   is in US_FLUSH before its closing newline and the command machine is not in CS_FLUSH, over any
   sequence of API operations during which the event machine has stayed in US_FLUSH: all accepted
   bytes were written by the event machine; the command machine has not entered CS_FLUSH; sent ++
   remaining = opening newline ++ text (++ closing newline nl_text cr1 once it has been selected,
   cr1 = k_cr at that moment); when the event machine has left US_FLUSH, sent = the whole unit *)
Theorem C11_session_uns_run : forall w0,
  u_state (u (st w0)) = US_FLUSH -> k_state (k (st w0)) <> CS_FLUSH ->
  u_wstate (u (st w0)) <> WS_AFTER ->
  forall ops,
  (forall m, m < length ops -> u_state (u (st (run w0 (firstn m ops)))) = US_FLUSH) ->
  let w := run w0 ops in
  exists evs bytes,
    tr w = evs ++ tr w0 /\
    accepted_wr (rev evs) = map (pair UNSOL) bytes /\
    (u_state (u (st w)) = US_FLUSH ->
       k_state (k (st w)) <> CS_FLUSH /\
       if wstate_beq (u_wstate (u (st w))) WS_AFTER
       then exists cr1, bytes ++ remaining_u (st w) = remaining_u (st w0) ++ nl_text cr1
       else bytes ++ remaining_u (st w) = remaining_u (st w0)) /\
    (u_state (u (st w)) <> US_FLUSH ->
       u_state (u (st w)) = u_wafter (u (st w0)) /\
       exists cr1, bytes = remaining_u (st w0) ++ nl_text cr1).
Proof.
  exact (Lemmas_C11.C11_session_uns_run_proof D ioS muS hS io_read io_write mu_lock mu_unlock h_call).
Qed.

End C11.

Print Assumptions C11_step_cmd_char.
Print Assumptions C11_step_uns_char.
Print Assumptions C11_step_cmd_phase.
Print Assumptions C11_step_uns_phase.
Print Assumptions C11_flush_step_c_agrees.
Print Assumptions C11_flush_step_u_agrees.
Print Assumptions C11_exclusion_preserved.
Print Assumptions C11_one_writer.
Print Assumptions C11_frame_cmd.
Print Assumptions C11_frame_uns.
Print Assumptions C11_frame_uns_nohold.
Print Assumptions C11_session.
Print Assumptions C11_session_run.
Print Assumptions C11_session_uns_run.

(* ------------------------------------------------------------------ *)
(* non-vacuity: computed examples                                       *)
(* ------------------------------------------------------------------ *)

(* one command "+X" with run and read handlers, no mutex, queue capacity 2 *)
Definition exD : desc :=
  mkDesc [[mkCmd [43; 88]%N None false true true false [] false false false]] [] 16 None 0%N 2 false.

(* the buffer holds "+X=5" NUL garbage, a CR has been seen *)
Definition ex_s : state :=
  init_state exD [] |> set_cbuf [43; 88; 61; 53; 0; 7; 7]%N |> setk_cr true.

(* the unit is "\r\n+X=5\r\n", emitted in exactly 8 + 3 steps *)
Example C11_ex_unit :
  let s0 := setk_state CS_FLUSH (start_flush_c CS_AFTER_OK ex_s) in
  snd (run_flush_c 11 s0) = [13; 10; 43; 88; 61; 53; 13; 10]%N /\
  k_state (k (fst (run_flush_c 11 s0))) = CS_AFTER_OK /\
  k_state (k (fst (run_flush_c 10 s0))) = CS_FLUSH /\
  remaining s0 = [13; 10; 43; 88; 61; 53; 13; 10]%N.
Proof. vm_compute. repeat split; reflexivity. Qed.

(* a raw list line: the text only *)
Example C11_ex_unit_raw :
  snd (run_flush_c 5 (setk_state CS_FLUSH (start_flush_raw_c CS_PRINT_CMD ex_s))) = [43; 88; 61; 53]%N.
Proof. vm_compute. reflexivity. Qed.

(* a scripted run: input "AT+X\r\n", an event (read of +X, handler answers DATA_OK) triggered first;
   ws = the schedule of write refusals *)
Definition exW (ws : list bool) (n : nat) : sworld :=
  srun exD
       (sinit exD [] (mkSio [65; 84; 43; 88; 13; 10]%N [] ws) (mkSmu [] [])
              [((1, 0, 0), [mkHres RC_DATA_OK None [] []])])
       ([SOp (OTrigger 0 T_READ)] ++ repeat (SOp OService) n).

(* the stream: the complete event unit "\n+X=" + "\r\n", then the complete response "\r\nOK\r\n";
   the command machine waits in CS_FLUSH_WAIT while the event line is being sent *)
Example C11_ex_stream :
  accepted_wr (hist _ _ _ (exW [] 40)) =
  [(UNSOL, 10); (UNSOL, 43); (UNSOL, 88); (UNSOL, 61); (UNSOL, 13); (UNSOL, 10);
   (ATCMD, 13); (ATCMD, 10); (ATCMD, 79); (ATCMD, 75); (ATCMD, 13); (ATCMD, 10)]%N.
Proof. vm_compute. reflexivity. Qed.

(* the same stream under a pattern of refusals *)
Example C11_ex_stream_refusals :
  accepted_wr (hist _ _ _ (exW [false; true; false; false; true; true; false; true; false; true;
                                false; false; false; true] 60)) =
  accepted_wr (hist _ _ _ (exW [] 40)).
Proof. vm_compute. reflexivity. Qed.

(* the event unit above opens with "\n" (k_cr = false when the flush was prepared) and closes with
   "\r\n" (the command machine has consumed the CR of its line meanwhile): cr1 <> cr0 does happen in
   the interleaved system, exactly as C11_session_uns_run allows *)
Example C11_ex_event_unit_mixed_newlines :
  firstn 6 (accepted_wr (hist _ _ _ (exW [] 40))) =
  map (pair UNSOL) (nl_text false ++ [43; 88; 61]%N ++ nl_text true).
Proof. vm_compute. reflexivity. Qed.

(* the two machines are never in their FLUSH states together; the command machine waits *)
Example C11_ex_states :
  map (fun n => (k_state (k (st _ _ _ (exW [] n))), u_state (u (st _ _ _ (exW [] n))))) (seq 10 4) =
  [(CS_RUN_LOOP, US_FLUSH); (CS_FLUSH_WAIT, US_FLUSH); (CS_FLUSH, US_AFTER_OK); (CS_FLUSH, US_IDLE)].
Proof. vm_compute. reflexivity. Qed.
