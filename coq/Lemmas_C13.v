(* Lemmas_C13.v — property C13 (and the functional part of C17): the unsolicited-event queue of
   cat.c is a bounded FIFO queue without loss, duplication or reordering, for every history of
   public operations, every environment (io, mutex, handlers with inner API calls) and every
   capacity > 0.

   Structure:
     0. arithmetic / list facts
     1. the ring (u_ring,u_head,u_tail,u_count) refines the list ring_items: push = snoc, pop = head
     2. frame lemmas `ringpart (f s) = ringpart s` for every state-level function of Fsm.v
     3. world level: every public operation is a sequence of atomic "moves"
        (frame | neutral log | trigger call + its logged status | pop + its EPop), relation `move`
     4. the invariants `ring_inv` (accepted = popped ++ queued) and `ring_inv_gen`
        (pushed = popped ++ queued) are preserved by every move, hence by every history.

   MODELLING OBSERVATION (found while proving, confirmed by vm_compute in Properties_C13.v):
   with a mutex configured, cat_trigger_unsolicited_* returns CAT_STATUS_ERROR_MUTEX_UNLOCK when
   the unlock fails, although the push has already been executed inside the critical section.
   Such an event is queued and later delivered but was never reported as accepted (status OK), so
   `accepted = popped ++ queued` is FALSE in general.  It holds under `unlock_ok`
   (no mutex configured, or the unlock never fails) — theorem C13_exactly_once — and the general
   theorem C13_exactly_once_general replaces `accepted` by `pushed`: a trigger that returned
   MUTEX_UNLOCK counts as pushed iff the queue was not full at that moment (a status of
   MUTEX_UNLOCK alone does not tell: the push may also have been refused, BUFFER_FULL being
   overwritten by MUTEX_UNLOCK). *)
From Coq Require Import List NArith ZArith Bool Arith Lia.
From CatV Require Import Bytes Defs Codec Fsm TraceDefs.
Import ListNotations.
Local Open Scope nat_scope.

(* ------------------------------------------------------------------ *)
(* 0. small arithmetic and list facts                                   *)
(* ------------------------------------------------------------------ *)

Lemma mod_wrap : forall a c, 0 < c -> a < 2 * c -> a mod c = if a <? c then a else a - c.
Proof.
  intros a c Hc Ha. destruct (Nat.ltb_spec a c) as [H|H].
  - apply Nat.mod_small; exact H.
  - symmetry. apply Nat.mod_unique with (q := 1); lia.
Qed.

Lemma nth_error_upd_eq : forall (A : Type) (l : list A) i v, i < length l -> nth_error (upd l i v) i = Some v.
Proof.
  induction l as [|x l IH]; intros [|i] v H; cbn [length upd nth_error] in *; try lia; auto.
  apply IH. lia.
Qed.

Lemma nth_error_upd_neq : forall (A : Type) (l : list A) i j v, i <> j -> nth_error (upd l i v) j = nth_error l j.
Proof.
  induction l as [|x l IH]; intros [|i] [|j] v H; cbn [upd nth_error]; auto; try congruence.
Qed.

Lemma upd_length : forall (A : Type) (l : list A) i v, length (upd l i v) = length l.
Proof. induction l as [|x l IH]; intros [|i] v; cbn [upd length]; auto. Qed.

(* ------------------------------------------------------------------ *)
(* 1. the ring buffer refines a list                                    *)
(* ------------------------------------------------------------------ *)

Definition ring_wf (D : desc) (s : state) : Prop :=
  0 < d_cap D /\ length (u_ring (u s)) = d_cap D /\ u_head (u s) < d_cap D /\ u_tail (u s) < d_cap D /\
  u_count (u s) <= d_cap D /\ u_tail (u s) = (u_head (u s) + u_count (u s)) mod d_cap D.

(* the part of the object state the queue lives in *)
Definition ringpart (s : state) : list (nat * ctype) * nat * nat * nat :=
  (u_ring (u s), u_head (u s), u_tail (u s), u_count (u s)).

Section Ring.
Variable D : desc.

Definition nxt (i : nat) : nat := if cap D <=? S i then 0 else S i.
Definition wrap (a : nat) : nat := if a <? cap D then a else a - cap D.

Lemma ring_items_rp : forall s s', ringpart s' = ringpart s -> ring_items D s' = ring_items D s.
Proof. intros s s' H. unfold ringpart in H. injection H as H1 H2 H3 H4. unfold ring_items. congruence. Qed.

Lemma ring_wf_rp : forall s s', ringpart s' = ringpart s -> ring_wf D s -> ring_wf D s'.
Proof. intros s s' H. unfold ringpart in H. injection H as H1 H2 H3 H4. unfold ring_wf. rewrite H1, H2, H3, H4. auto. Qed.

Lemma ring_full_rp : forall s s', ringpart s' = ringpart s -> ring_full D s' = ring_full D s.
Proof. intros s s' H. unfold ringpart in H. injection H as H1 H2 H3 H4. unfold ring_full. congruence. Qed.

Lemma go_length : forall ring num idx, length ring = cap D -> 0 < cap D -> idx < cap D ->
  length (ring_items_go D ring idx num) = num.
Proof.
  intros ring num. induction num as [|n IH]; intros idx HL Hc Hi; cbn [ring_items_go length]; auto.
  destruct (nth_error ring idx) as [it|] eqn:E.
  - cbn [length]. f_equal. apply IH; auto. destruct (Nat.leb_spec (cap D) (S idx)); lia.
  - apply nth_error_None in E. lia.
Qed.

Lemma go_snoc : forall ring x n hd, length ring = cap D -> hd < cap D -> n < cap D ->
  ring_items_go D (upd ring (wrap (hd + n)) x) hd (S n) = ring_items_go D ring hd n ++ [x].
Proof.
  intros ring x n. induction n as [|n IH]; intros hd HL Hh Hn.
  - unfold wrap. rewrite Nat.add_0_r. destruct (Nat.ltb_spec hd (cap D)); [|lia].
    cbn [ring_items_go app]. rewrite nth_error_upd_eq by lia. reflexivity.
  - remember (S n) as n1. cbn [ring_items_go]. subst n1.
    assert (Hne : wrap (hd + S n) <> hd).
    { unfold wrap. destruct (Nat.ltb_spec (hd + S n) (cap D)); lia. }
    rewrite nth_error_upd_neq by exact Hne.
    destruct (nth_error ring hd) as [it|] eqn:E.
    2:{ apply nth_error_None in E. lia. }
    cbn [ring_items_go]. rewrite E. cbn [app]. f_equal.
    assert (Hw : wrap (hd + S n) = wrap ((if cap D <=? S hd then 0 else S hd) + n)).
    { unfold wrap. destruct (Nat.leb_spec (cap D) (S hd));
        destruct (Nat.ltb_spec (hd + S n) (cap D)); 
        match goal with |- context[?a + n <? cap D] => destruct (Nat.ltb_spec (a + n) (cap D)) end; lia. }
    rewrite Hw. apply IH; auto; try lia.
    destruct (Nat.leb_spec (cap D) (S hd)); lia.
Qed.

Lemma wf_tail : forall s, ring_wf D s -> u_tail (u s) = wrap (u_head (u s) + u_count (u s)).
Proof.
  intros s (Hc & HL & Hh & Ht & Hn & Hm). rewrite Hm. unfold wrap, cap. apply mod_wrap; lia.
Qed.

Theorem C13_items_length : forall s, ring_wf D s -> length (ring_items D s) = u_count (u s).
Proof. intros s (Hc & HL & Hh & Ht & Hn & Hm). unfold ring_items. apply go_length; auto. Qed.

Theorem C13_full : forall s, ring_wf D s -> ring_full D s = (length (ring_items D s) =? d_cap D).
Proof. intros s H. rewrite C13_items_length by exact H. reflexivity. Qed.

Theorem C13_push : forall s ci t, ring_wf D s ->
  let (s', r) := push_unsolicited_cmd D s ci t in
  if length (ring_items D s) <? d_cap D
  then r = ST_OK /\ ring_wf D s' /\ ring_items D s' = ring_items D s ++ [(ci, t)] /\ fault s' = fault s
  else r = ST_BUFFER_FULL /\ s' = s.
Proof.
  intros s ci t H. rewrite C13_items_length by exact H.
  pose proof (wf_tail s H) as HT. destruct H as (Hc & HL & Hh & Ht & Hn & Hm).
  unfold push_unsolicited_cmd, ring_full, cap.
  destruct (Nat.ltb_spec (u_count (u s)) (d_cap D)) as [Hlt|Hge].
  - destruct (Nat.eqb_spec (u_count (u s)) (d_cap D)) as [He|_]; [lia|].
    destruct (Nat.ltb_spec (u_tail (u s)) (length (u_ring (u s)))) as [_|Hx]; [|lia].
    split; [reflexivity|]. split; [|split; [|reflexivity]].
    + unfold ring_wf. cbn. rewrite upd_length.
      assert (Hn' : (if d_cap D <=? S (u_tail (u s)) then 0 else S (u_tail (u s))) =
                    wrap (u_head (u s) + S (u_count (u s)))).
      { rewrite HT. unfold wrap, cap.
        destruct (Nat.ltb_spec (u_head (u s) + u_count (u s)) (d_cap D));
        destruct (Nat.ltb_spec (u_head (u s) + S (u_count (u s))) (d_cap D));
        match goal with |- context[d_cap D <=? S ?a] => destruct (Nat.leb_spec (d_cap D) (S a)) end; lia. }
      repeat split; auto; try lia.
      * destruct (Nat.leb_spec (d_cap D) (S (u_tail (u s)))); lia.
      * rewrite Hn'. unfold wrap, cap. symmetry. apply mod_wrap; lia.
    + unfold ring_items. cbn. rewrite HT. apply go_snoc; auto.
  - destruct (Nat.eqb_spec (u_count (u s)) (d_cap D)) as [_|Hne]; [|lia]. auto.
Qed.

Theorem C13_pop : forall s, ring_wf D s ->
  match ring_items D s with
  | [] => pop_unsolicited_cmd D s = (s, None)
  | it :: rest => exists s', pop_unsolicited_cmd D s = (s', Some it) /\ ring_wf D s' /\
                             ring_items D s' = rest /\ fault s' = fault s
  end.
Proof.
  intros s H. pose proof (C13_items_length s H) as HLn. pose proof (wf_tail s H) as HT.
  destruct H as (Hc & HL & Hh & Ht & Hn & Hm).
  unfold pop_unsolicited_cmd, ring_empty. unfold ring_items in *.
  destruct (u_count (u s)) as [|n] eqn:En.
  - cbn [ring_items_go]. reflexivity.
  - cbn [ring_items_go] in *. destruct (nth_error (u_ring (u s)) (u_head (u s))) as [it|] eqn:E.
    2:{ cbn [length] in HLn. discriminate. }
    cbn [Nat.eqb]. eexists. split; [reflexivity|]. split; [|split; [|reflexivity]].
    + unfold ring_wf. cbn. rewrite Nat.sub_0_r.
      assert (Hn' : u_tail (u s) = wrap ((if cap D <=? S (u_head (u s)) then 0 else S (u_head (u s))) + n)).
      { rewrite HT. unfold wrap, cap.
        destruct (Nat.leb_spec (d_cap D) (S (u_head (u s))));
        destruct (Nat.ltb_spec (u_head (u s) + S n) (d_cap D));
        match goal with |- context[?a + n <? d_cap D] => destruct (Nat.ltb_spec (a + n) (d_cap D)) end; lia. }
      repeat split; auto; try lia.
      * unfold cap. destruct (Nat.leb_spec (d_cap D) (S (u_head (u s)))); lia.
      * rewrite Hn'. unfold wrap, cap. symmetry. apply mod_wrap; try lia.
        destruct (Nat.leb_spec (d_cap D) (S (u_head (u s)))); lia.
    + cbn. rewrite Nat.sub_0_r. reflexivity.
Qed.

Theorem C13_is_buffered : forall s ci t,
  is_event_buffered D s ci t = ST_BUSY <->
  (exists c, u_cmd (u s) = Some c /\ ev_match ci t (c, u_type (u s)) = true) \/
  (exists it, In it (ring_items D s) /\ ev_match ci t it = true).
Proof.
  intros s ci t. unfold is_event_buffered.
  destruct (u_cmd (u s)) as [c|].
  - destruct (ev_match ci t (c, u_type (u s))) eqn:E1; cbn [orb].
    + split; [|reflexivity]. intros _. left. exists c. auto.
    + destruct (existsb (ev_match ci t) (ring_items D s)) eqn:E2.
      * split; [|reflexivity]. intros _. right. apply existsb_exists in E2. exact E2.
      * split; [discriminate|]. intros [(c' & Hc & Hm)|Hx].
        -- injection Hc as <-. congruence.
        -- apply existsb_exists in Hx. congruence.
  - cbn [orb]. destruct (existsb (ev_match ci t) (ring_items D s)) eqn:E2.
    + split; [|reflexivity]. intros _. right. apply existsb_exists in E2. exact E2.
    + split; [discriminate|]. intros [(c' & Hc & Hm)|Hx]; [discriminate|].
      apply existsb_exists in Hx. congruence.
Qed.

End Ring.

(* ------------------------------------------------------------------ *)
(* 2. frame lemmas: everything except push/pop leaves the ring alone    *)
(* ------------------------------------------------------------------ *)

Lemma rp_setk_index : forall v s, ringpart (setk_index v s) = ringpart s. Proof. reflexivity. Qed.
Lemma rp_setk_partial : forall v s, ringpart (setk_partial v s) = ringpart s. Proof. reflexivity. Qed.
Lemma rp_setk_length : forall v s, ringpart (setk_length v s) = ringpart s. Proof. reflexivity. Qed.
Lemma rp_setk_position : forall v s, ringpart (setk_position v s) = ringpart s. Proof. reflexivity. Qed.
Lemma rp_setk_write_size : forall v s, ringpart (setk_write_size v s) = ringpart s. Proof. reflexivity. Qed.
Lemma rp_setk_cmd : forall v s, ringpart (setk_cmd v s) = ringpart s. Proof. reflexivity. Qed.
Lemma rp_setk_var : forall v s, ringpart (setk_var v s) = ringpart s. Proof. reflexivity. Qed.
Lemma rp_setk_type : forall v s, ringpart (setk_type v s) = ringpart s. Proof. reflexivity. Qed.
Lemma rp_setk_char : forall v s, ringpart (setk_char v s) = ringpart s. Proof. reflexivity. Qed.
Lemma rp_setk_state : forall v s, ringpart (setk_state v s) = ringpart s. Proof. reflexivity. Qed.
Lemma rp_setk_cr : forall v s, ringpart (setk_cr v s) = ringpart s. Proof. reflexivity. Qed.
Lemma rp_setk_hold : forall v s, ringpart (setk_hold v s) = ringpart s. Proof. reflexivity. Qed.
Lemma rp_setk_hold_exit : forall v s, ringpart (setk_hold_exit v s) = ringpart s. Proof. reflexivity. Qed.
Lemma rp_setk_wbuf : forall v s, ringpart (setk_wbuf v s) = ringpart s. Proof. reflexivity. Qed.
Lemma rp_setk_wstate : forall v s, ringpart (setk_wstate v s) = ringpart s. Proof. reflexivity. Qed.
Lemma rp_setk_wafter : forall v s, ringpart (setk_wafter v s) = ringpart s. Proof. reflexivity. Qed.
Lemma rp_setk_implicit : forall v s, ringpart (setk_implicit v s) = ringpart s. Proof. reflexivity. Qed.
Lemma rp_setu_state : forall v s, ringpart (setu_state v s) = ringpart s. Proof. reflexivity. Qed.
Lemma rp_setu_index : forall v s, ringpart (setu_index v s) = ringpart s. Proof. reflexivity. Qed.
Lemma rp_setu_position : forall v s, ringpart (setu_position v s) = ringpart s. Proof. reflexivity. Qed.
Lemma rp_setu_cmd : forall v s, ringpart (setu_cmd v s) = ringpart s. Proof. reflexivity. Qed.
Lemma rp_setu_var : forall v s, ringpart (setu_var v s) = ringpart s. Proof. reflexivity. Qed.
Lemma rp_setu_type : forall v s, ringpart (setu_type v s) = ringpart s. Proof. reflexivity. Qed.
Lemma rp_setu_wbuf : forall v s, ringpart (setu_wbuf v s) = ringpart s. Proof. reflexivity. Qed.
Lemma rp_setu_wstate : forall v s, ringpart (setu_wstate v s) = ringpart s. Proof. reflexivity. Qed.
Lemma rp_setu_wafter : forall v s, ringpart (setu_wafter v s) = ringpart s. Proof. reflexivity. Qed.
Lemma rp_set_cbuf : forall v s, ringpart (set_cbuf v s) = ringpart s. Proof. reflexivity. Qed.
Lemma rp_set_ubuf : forall v s, ringpart (set_ubuf v s) = ringpart s. Proof. reflexivity. Qed.
Lemma rp_set_mem : forall v s, ringpart (set_mem v s) = ringpart s. Proof. reflexivity. Qed.
Lemma rp_set_dis_cmd : forall v s, ringpart (set_dis_cmd v s) = ringpart s. Proof. reflexivity. Qed.
Lemma rp_set_dis_grp : forall v s, ringpart (set_dis_grp v s) = ringpart s. Proof. reflexivity. Qed.
Lemma rp_set_fault : forall v s, ringpart (set_fault v s) = ringpart s. Proof. reflexivity. Qed.
Lemma rp_set_gL : forall v s, ringpart (set_gL v s) = ringpart s. Proof. reflexivity. Qed.
Lemma rp_set_gS : forall v s, ringpart (set_gS v s) = ringpart s. Proof. reflexivity. Qed.
Lemma rp_set_gR : forall v s, ringpart (set_gR v s) = ringpart s. Proof. reflexivity. Qed.
Lemma rp_set_fault_flag : forall s, ringpart (set_fault_flag s) = ringpart s. Proof. reflexivity. Qed.
Lemma rp_setg_pos : forall f v s, ringpart (setg_pos f v s) = ringpart s. Proof. intros [|] v s; reflexivity. Qed.
Lemma rp_setg_buf : forall f v s, ringpart (setg_buf f v s) = ringpart s. Proof. intros [|] v s; reflexivity. Qed.
Lemma rp_setg_var : forall f v s, ringpart (setg_var f v s) = ringpart s. Proof. intros [|] v s; reflexivity. Qed.
Lemma rp_setg_index : forall f v s, ringpart (setg_index f v s) = ringpart s. Proof. intros [|] v s; reflexivity. Qed.
Global Hint Rewrite rp_setk_index rp_setk_partial rp_setk_length rp_setk_position rp_setk_write_size rp_setk_cmd rp_setk_var rp_setk_type rp_setk_char rp_setk_state rp_setk_cr rp_setk_hold rp_setk_hold_exit rp_setk_wbuf rp_setk_wstate rp_setk_wafter rp_setk_implicit rp_setu_state rp_setu_index rp_setu_position rp_setu_cmd rp_setu_var rp_setu_type rp_setu_wbuf rp_setu_wstate rp_setu_wafter rp_set_cbuf rp_set_ubuf rp_set_mem rp_set_dis_cmd rp_set_dis_grp rp_set_fault rp_set_gL rp_set_gS rp_set_gR rp_setg_pos rp_setg_buf rp_setg_var rp_setg_index rp_set_fault_flag : rp.

(* generic tactic: case-split every stuck match; results of pair-returning helpers are kept
   as `fst (helper ..)` so that the helper's own frame lemma applies *)
Ltac rp_step :=
  match goal with
  | |- context[match ?x with _ => _ end] =>
    lazymatch type of x with
    | prod state _ =>
      let E := fresh "E" in let s0 := fresh "s" in let b0 := fresh "b" in
      destruct x as [s0 b0] eqn:E; apply (f_equal fst) in E; cbn [fst] in E; subst s0
    | _ => destruct x eqn:?
    end
  end.
Ltac rp_solve := cbv beta zeta; repeat (rp_step; cbn [fst snd]); autorewrite with rp; reflexivity.

Lemma rp_reset_state : forall s, ringpart (reset_state s) = ringpart s.
Proof. intros. unfold reset_state. rp_solve. Qed.
Lemma rp_unsolicited_reset_state : forall s, ringpart (unsolicited_reset_state s) = ringpart s.
Proof. reflexivity. Qed.
Lemma rp_start_flush_c : forall a s, ringpart (start_flush_c a s) = ringpart s.
Proof. reflexivity. Qed.
Lemma rp_start_flush_u : forall a s, ringpart (start_flush_u a s) = ringpart s.
Proof. reflexivity. Qed.
Lemma rp_start_flush_raw_c : forall a s, ringpart (start_flush_raw_c a s) = ringpart s.
Proof. reflexivity. Qed.
Lemma rp_ack_error : forall s, ringpart (ack_error s) = ringpart s.
Proof. reflexivity. Qed.
Lemma rp_ack_ok : forall s, ringpart (ack_ok s) = ringpart s.
Proof. reflexivity. Qed.
Lemma rp_put_cur : forall f c s, ringpart (put_cur f c s) = ringpart s.
Proof. intros. unfold put_cur. rp_solve. Qed.
Global Hint Rewrite rp_reset_state rp_unsolicited_reset_state rp_start_flush_c rp_start_flush_u
  rp_start_flush_raw_c rp_ack_error rp_ack_ok rp_put_cur : rp.

Lemma rp_print_string : forall f s t, ringpart (fst (print_string f s t)) = ringpart s.
Proof. intros. unfold print_string. rp_solve. Qed.
Lemma rp_print_strings : forall f s ts, ringpart (fst (print_strings f s ts)) = ringpart s.
Proof. intros. unfold print_strings. rp_solve. Qed.
Lemma rp_end_with_error : forall f s, ringpart (end_with_error f s) = ringpart s.
Proof. intros. unfold end_with_error. rp_solve. Qed.
Lemma rp_end_with_ok : forall f s, ringpart (end_with_ok f s) = ringpart s.
Proof. intros. unfold end_with_ok. rp_solve. Qed.
Lemma rp_set_loop_state : forall f rd s, ringpart (set_loop_state f rd s) = ringpart s.
Proof. intros. unfold set_loop_state. rp_solve. Qed.
Lemma rp_start_flush_after_ok : forall f s, ringpart (start_flush_after_ok f s) = ringpart s.
Proof. intros. unfold start_flush_after_ok. rp_solve. Qed.
Lemma rp_start_flush_after : forall f a b s, ringpart (start_flush_after f a b s) = ringpart s.
Proof. intros. unfold start_flush_after. rp_solve. Qed.
Global Hint Rewrite rp_print_string rp_print_strings rp_end_with_error rp_end_with_ok rp_set_loop_state
  rp_start_flush_after_ok rp_start_flush_after : rp.

Lemma rp_print_response_test : forall D f s, ringpart (fst (print_response_test D f s)) = ringpart s.
Proof. intros. unfold print_response_test. rp_solve. Qed.
Global Hint Rewrite rp_print_response_test : rp.
Lemma rp_start_processing_format_test_args : forall D f s,
  ringpart (start_processing_format_test_args D f s) = ringpart s.
Proof. intros. unfold start_processing_format_test_args. rp_solve. Qed.
Lemma rp_start_processing_format_read_args : forall D f s,
  ringpart (start_processing_format_read_args D f s) = ringpart s.
Proof. intros. unfold start_processing_format_read_args. rp_solve. Qed.
Lemma rp_next_format_var : forall D f s, ringpart (fst (next_format_var D f s)) = ringpart s.
Proof. intros. unfold next_format_var. rp_solve. Qed.
Lemma rp_set_cmd_state : forall s i v, ringpart (set_cmd_state s i v) = ringpart s.
Proof. intros. unfold set_cmd_state. rp_solve. Qed.
Lemma rp_prepare_search_command : forall s, ringpart (prepare_search_command s) = ringpart s.
Proof. reflexivity. Qed.
Lemma rp_prepare_parse_command : forall s, ringpart (prepare_parse_command s) = ringpart s.
Proof. reflexivity. Qed.
Global Hint Rewrite rp_start_processing_format_test_args rp_start_processing_format_read_args
  rp_next_format_var rp_set_cmd_state rp_prepare_search_command rp_prepare_parse_command : rp.

Lemma rp_update_command : forall D s, ringpart (update_command D s) = ringpart s.
Proof. intros. unfold update_command. rp_solve. Qed.
Lemma rp_search_command : forall D s, ringpart (search_command D s) = ringpart s.
Proof. intros. unfold search_command. rp_solve. Qed.
Lemma rp_command_found : forall D s, ringpart (command_found D s) = ringpart s.
Proof. intros. unfold command_found. rp_solve. Qed.
Lemma rp_start_print_cmd_list : forall D s, ringpart (start_print_cmd_list D s) = ringpart s.
Proof. intros. unfold start_print_cmd_list. rp_solve. Qed.
Lemma rp_cmd_list_next_cmd : forall D s, ringpart (fst (cmd_list_next_cmd D s)) = ringpart s.
Proof. intros. unfold cmd_list_next_cmd. rp_solve. Qed.
Lemma rp_print_current_cmd_full_name : forall s c sf,
  ringpart (fst (print_current_cmd_full_name s c sf)) = ringpart s.
Proof. intros. unfold print_current_cmd_full_name. rp_solve. Qed.
Global Hint Rewrite rp_update_command rp_search_command rp_command_found rp_start_print_cmd_list
  rp_cmd_list_next_cmd rp_print_current_cmd_full_name : rp.
Lemma rp_print_cmd_form : forall s c a sf n, ringpart (print_cmd_form s c a sf n) = ringpart s.
Proof. intros. unfold print_cmd_form. rp_solve. Qed.
Global Hint Rewrite rp_print_cmd_form : rp.
Lemma rp_print_cmd_list : forall D s, ringpart (print_cmd_list D s) = ringpart s.
Proof. intros. unfold print_cmd_list. rp_solve. Qed.
Lemma rp_enable_hold_state : forall s, ringpart (enable_hold_state s) = ringpart s.
Proof. reflexivity. Qed.
Lemma rp_hold_exit : forall s st, ringpart (fst (hold_exit s st)) = ringpart s.
Proof. intros. unfold hold_exit. rp_solve. Qed.
Lemma rp_process_hold_state : forall s, ringpart (process_hold_state s) = ringpart s.
Proof. intros. unfold process_hold_state. rp_solve. Qed.
Lemma rp_process_io_write_wait : forall s, ringpart (process_io_write_wait s) = ringpart s.
Proof. intros. unfold process_io_write_wait. rp_solve. Qed.
Lemma rp_unsolicited_process_io_write_wait : forall s, ringpart (unsolicited_process_io_write_wait s) = ringpart s.
Proof. intros. unfold unsolicited_process_io_write_wait. rp_solve. Qed.
Lemma rp_apply_poke : forall s p, ringpart (apply_poke s p) = ringpart s.
Proof. intros. unfold apply_poke. rp_solve. Qed.
Lemma rp_apply_pokes : forall ps s, ringpart (fold_left apply_poke ps s) = ringpart s.
Proof. induction ps as [|p ps IH]; intros s; cbn [fold_left]; [reflexivity|]. rewrite IH. apply rp_apply_poke. Qed.
Lemma rp_apply_edit : forall f e s, ringpart (apply_edit f e s) = ringpart s.
Proof. intros. unfold apply_edit. rp_solve. Qed.
Global Hint Rewrite rp_print_cmd_list rp_enable_hold_state rp_hold_exit rp_process_hold_state
  rp_process_io_write_wait rp_unsolicited_process_io_write_wait rp_apply_poke rp_apply_pokes rp_apply_edit : rp.
Lemma rp_format_test_args : forall D f s, ringpart (format_test_args D f s) = ringpart s.
Proof. intros. unfold format_test_args. rp_solve. Qed.
Global Hint Rewrite rp_format_test_args : rp.

(* ------------------------------------------------------------------ *)
(* 3. the world level: every operation is a sequence of queue moves      *)
(* ------------------------------------------------------------------ *)

(* events that are neither a trigger result nor a pop *)
Definition neutralb (e : event) : bool :=
  match e with
  | EPop _ _ => false
  | ERet (OTrigger _ _) _ => false
  | EInner (ITrigger _ _) _ => false
  | _ => true
  end.

(* C13 (general form): the events whose push was really executed.  The history is scanned oldest
   first, tracking the queue length n: a trigger that returned OK was pushed; a trigger that
   returned MUTEX_UNLOCK was pushed iff the queue was not full at that moment (the push ran
   inside the critical section and only the unlock failed). *)
Definition pushed_step (c : nat) (acc : nat * list (nat * ctype)) (e : event) : nat * list (nat * ctype) :=
  let (n, l) := acc in
  match e with
  | EPop _ _ => (pred n, l)
  | ERet (OTrigger ci t) r | EInner (ITrigger ci t) r =>
    if (r =? ST_OK)%Z || ((r =? ST_MUTEX_UNLOCK)%Z && (n <? c)) then (S n, l ++ [(ci, t)]) else (n, l)
  | _ => (n, l)
  end.
Definition pushed (c : nat) (h : list event) : list (nat * ctype) := snd (fold_left (pushed_step c) h (0, [])).

Lemma neutral_accepted : forall e, neutralb e = true -> accepted_of e = [].
Proof. intros [| | | | |[]|[]|] H; try reflexivity; discriminate H. Qed.
Lemma neutral_popped : forall e, neutralb e = true -> popped_of e = [].
Proof. intros [| | | | |[]|[]|] H; try reflexivity; discriminate H. Qed.
Lemma neutral_pushed : forall c acc e, neutralb e = true -> pushed_step c acc e = acc.
Proof. intros c [n l] [| | | | |[]|[]|] H; try reflexivity; discriminate H. Qed.

Lemma flat_map_neutral : forall (proj : event -> list (nat * ctype)) evs,
  (forall e, neutralb e = true -> proj e = []) -> forallb neutralb evs = true -> flat_map proj evs = [].
Proof.
  intros proj evs Hp. induction evs as [|e evs IH]; intros H; cbn [flat_map forallb] in *; auto.
  apply andb_true_iff in H. destruct H as [H1 H2]. rewrite (Hp e H1), IH; auto.
Qed.

Lemma forallb_rev : forall (A : Type) (f : A -> bool) l, forallb f l = true -> forallb f (rev l) = true.
Proof.
  intros A f l H. apply forallb_forall. intros x Hx. apply in_rev in Hx.
  rewrite forallb_forall in H. auto.
Qed.

Lemma fold_neutral : forall c evs acc, forallb neutralb evs = true -> fold_left (pushed_step c) evs acc = acc.
Proof.
  intros c evs. induction evs as [|e evs IH]; intros acc H; cbn [fold_left forallb] in *; auto.
  apply andb_true_iff in H. destruct H as [H1 H2]. rewrite neutral_pushed by exact H1. auto.
Qed.

Section World.
Variable D : desc.
Variables ioS muS hS : Type.
Variable io_read : ioS -> ioS * option N.
Variable io_write : ioS -> N -> ioS * bool.
Variable mu_lock : muS -> muS * bool.
Variable mu_unlock : muS -> muS * bool.
Variable h_call : hS -> hreq -> hS * hres.

Local Notation world := (Fsm.world ioS muS hS).
Local Notation mkWorld := (Fsm.mkWorld ioS muS hS).
Local Notation st := (Fsm.st ioS muS hS).
Local Notation tr := (Fsm.tr ioS muS hS).
Local Notation io := (Fsm.io ioS muS hS).
Local Notation mu := (Fsm.mu ioS muS hS).
Local Notation hs := (Fsm.hs ioS muS hS).
Local Notation logw := (Fsm.logw ioS muS hS).
Local Notation upd_st := (Fsm.upd_st ioS muS hS).
Local Notation set_st := (Fsm.set_st ioS muS hS).
Local Notation set_io := (Fsm.set_io ioS muS hS).
Local Notation set_mu := (Fsm.set_mu ioS muS hS).
Local Notation set_hs := (Fsm.set_hs ioS muS hS).
Local Notation busy := (Fsm.busy ioS muS hS).
Local Notation hist := (TraceDefs.hist ioS muS hS).
Local Notation bracket := (Fsm.bracket D ioS muS hS mu_lock mu_unlock).
Local Notation api_trigger := (Fsm.api_trigger D ioS muS hS mu_lock mu_unlock).
Local Notation api_hold_exit := (Fsm.api_hold_exit D ioS muS hS mu_lock mu_unlock).
Local Notation apply_icall := (Fsm.apply_icall D ioS muS hS mu_lock mu_unlock).
Local Notation call_h := (Fsm.call_h D ioS muS hS mu_lock mu_unlock h_call).
Local Notation read_cmd_char := (Fsm.read_cmd_char ioS muS hS io_read).
Local Notation reading := (Fsm.reading ioS muS hS io_read).
Local Notation do_op := (Fsm.do_op D ioS muS hS io_read io_write mu_lock mu_unlock h_call).
Local Notation step := (Fsm.step D ioS muS hS io_read io_write mu_lock mu_unlock h_call).
Local Notation run := (Fsm.run D ioS muS hS io_read io_write mu_lock mu_unlock h_call).

Ltac wsimpl := cbn [Fsm.st Fsm.tr Fsm.io Fsm.mu Fsm.hs Fsm.set_st Fsm.set_io Fsm.set_mu Fsm.set_hs
                    Fsm.logw Fsm.upd_st Fsm.busy fst snd].

(* one atomic thing that can happen to the queue and to the trigger/pop part of the trace *)
Inductive move : world -> world -> Prop :=
  | mv_frame : forall w w', ringpart (st w') = ringpart (st w) -> tr w' = tr w -> move w w'
  | mv_log : forall w w' e, ringpart (st w') = ringpart (st w) -> tr w' = e :: tr w ->
                            neutralb e = true -> move w w'
  | mv_trig : forall w ci t (mk : Z -> event),
      mk = ERet (OTrigger ci t) \/ mk = EInner (ITrigger ci t) ->
      move w (logw (mk (snd (api_trigger w ci t))) (fst (api_trigger w ci t)))
  | mv_pop : forall w w' it rest, ring_items D (st w) = it :: rest ->
      ringpart (st w') = ringpart (fst (pop_unsolicited_cmd D (st w))) ->
      tr w' = EPop (fst it) (snd it) :: tr w -> move w w'
  | mv_trans : forall w1 w2 w3, move w1 w2 -> move w2 w3 -> move w1 w3.

Lemma mv_refl : forall w, move w w.
Proof. intros. apply mv_frame; reflexivity. Qed.

Lemma move_upd_st : forall g w, ringpart (g (st w)) = ringpart (st w) -> move w (upd_st g w).
Proof. intros g w H. apply mv_frame; [exact H | reflexivity]. Qed.
Lemma move_set_st : forall s w, ringpart s = ringpart (st w) -> move w (set_st s w).
Proof. intros s w H. apply mv_frame; [exact H | reflexivity]. Qed.
Lemma move_logw : forall e w, neutralb e = true -> move w (logw e w).
Proof. intros e w H. apply mv_log with (e := e); auto. Qed.

Lemma move_then_upd : forall g w w1, move w w1 -> ringpart (g (st w1)) = ringpart (st w1) -> move w (upd_st g w1).
Proof. intros g w w1 H1 H2. eapply mv_trans; [exact H1 | apply move_upd_st; exact H2]. Qed.

Lemma bracket_move : forall w body, (forall w0, move w0 (fst (body w0))) -> move w (fst (bracket w body)).
Proof.
  intros w body H. unfold Fsm.bracket. destruct (d_mutex D); [|apply H].
  destruct (mu_lock (mu w)) as [m1 ok]. destruct ok; cbn [negb].
  - pose proof (H (logw (ELock true) (set_mu m1 w))) as H1.
    destruct (body (logw (ELock true) (set_mu m1 w))) as [w2 s]. cbn [fst] in H1.
    destruct (mu_unlock (mu w2)) as [m2 ok2].
    assert (move w (logw (EUnlock ok2) (set_mu m2 w2))).
    { apply mv_trans with (w2 := logw (ELock true) (set_mu m1 w)).
      { apply mv_log with (e := ELock true); reflexivity. }
      eapply mv_trans; [exact H1|]. apply mv_log with (e := EUnlock ok2); reflexivity. }
    destruct ok2; exact H0.
  - apply mv_log with (e := ELock false); reflexivity.
Qed.

Lemma api_hold_exit_move : forall w status, move w (fst (api_hold_exit w status)).
Proof.
  intros. unfold Fsm.api_hold_exit. apply bracket_move. intros w0.
  destruct (hold_exit (Fsm.st _ _ _ w0) status) as [s' r] eqn:E. cbn [fst].
  apply move_set_st. apply (f_equal fst) in E. cbn [fst] in E. subst s'. apply rp_hold_exit.
Qed.

Lemma apply_icall_move : forall w c, move w (apply_icall w c).
Proof.
  intros w [ci t|status]; unfold Fsm.apply_icall.
  - pose proof (mv_trig w ci t (EInner (ITrigger ci t)) (or_intror eq_refl)) as H.
    destruct (api_trigger w ci t) as [w' r]. exact H.
  - pose proof (api_hold_exit_move w status) as H.
    destruct (api_hold_exit w status) as [w' r]. cbn [fst] in H.
    eapply mv_trans; [exact H | apply move_logw; reflexivity].
Qed.

Lemma icalls_move : forall cs w, move w (fold_left apply_icall cs w).
Proof.
  induction cs as [|c cs IH]; intros w; cbn [fold_left]; [apply mv_refl|].
  eapply mv_trans; [apply apply_icall_move | apply IH].
Qed.

Lemma call_h_move : forall w q, move w (fst (call_h w q)).
Proof.
  intros. unfold Fsm.call_h. destruct (h_call (hs w) q) as [hs' r]. cbn [fst].
  eapply mv_trans; [|apply icalls_move].
  apply move_then_upd; [|apply rp_apply_pokes].
  apply mv_log with (e := ECall q (r_code r)); reflexivity.
Qed.

Lemma call_h_move' : forall w0 w q w1 r, move w0 w -> call_h w q = (w1, r) -> move w0 w1.
Proof.
  intros w0 w q w1 r H E. eapply mv_trans; [exact H|].
  pose proof (call_h_move w q) as H1. rewrite E in H1. exact H1.
Qed.

Lemma read_cmd_char_move : forall w, move w (fst (read_cmd_char w)).
Proof.
  intros. unfold Fsm.read_cmd_char. destruct (io_read (io w)) as [io' r]. destruct r as [ch|]; cbn [fst].
  - apply mv_log with (e := ERd (Some ch)); [|reflexivity|reflexivity]. wsimpl. rp_solve.
  - apply mv_log with (e := ERd None); reflexivity.
Qed.

Lemma reading_move : forall w body, (forall ch s, ringpart (body ch s) = ringpart s) ->
  move w (fst (reading w body)).
Proof.
  intros w body H. unfold Fsm.reading. pose proof (read_cmd_char_move w) as H1.
  destruct (read_cmd_char w) as [w1 got]. cbn [fst] in H1. destruct got; cbn [negb Fsm.busy fst]; [|exact H1].
  apply move_then_upd; [exact H1 | apply H].
Qed.

Lemma error_state_move : forall w, move w (fst (error_state ioS muS hS io_read w)).
Proof. intros. unfold error_state. apply reading_move. intros. rp_solve. Qed.
Lemma process_idle_state_move : forall w, move w (fst (process_idle_state ioS muS hS io_read w)).
Proof. intros. unfold process_idle_state. apply reading_move. intros. rp_solve. Qed.
Lemma parse_prefix_move : forall w, move w (fst (parse_prefix ioS muS hS io_read w)).
Proof. intros. unfold parse_prefix. apply reading_move. intros. rp_solve. Qed.
Lemma parse_command_move : forall w, move w (fst (parse_command ioS muS hS io_read w)).
Proof. intros. unfold parse_command. apply reading_move. intros. rp_solve. Qed.
Lemma wait_read_acknowledge_move : forall w, move w (fst (wait_read_acknowledge ioS muS hS io_read w)).
Proof. intros. unfold wait_read_acknowledge. apply reading_move. intros. rp_solve. Qed.
Lemma wait_test_acknowledge_move : forall w, move w (fst (wait_test_acknowledge D ioS muS hS io_read w)).
Proof. intros. unfold wait_test_acknowledge. apply reading_move. intros. rp_solve. Qed.
Lemma parse_command_args_move : forall w, move w (fst (parse_command_args D ioS muS hS io_read w)).
Proof. intros. unfold parse_command_args. apply reading_move. intros. rp_solve. Qed.

Ltac mv_upd := wsimpl; first [apply move_upd_st | apply move_set_st]; wsimpl; rp_solve.

Lemma parse_write_args_move : forall w, move w (fst (parse_write_args D ioS muS hS mu_lock mu_unlock h_call w)).
Proof.
  intros. unfold parse_write_args. cbv zeta.
  destruct (g_cmd ATCMD (st w)) as [ci|]; [|mv_upd].
  destruct (cmd_of D ATCMD (st w)) as [c|]; [|mv_upd].
  destruct (nth_error (c_vars c) (k_var (k (st w)))) as [v|]; [|mv_upd].
  destruct (nth_error (mem (st w)) (v_slot v)) as [data|]; [|mv_upd].
  destruct (decode_var v (skipn (k_position (k (st w))) (cbuf (st w))) data) as [[[pst data'] wsz] n].
  destruct pst as [| |comma]; [mv_upd|mv_upd|].
  destruct (v_hwrite v).
  - destruct (call_h _ _) as [w' r] eqn:E.
    assert (H : move w w').
    { eapply call_h_move'; [|exact E]. apply move_set_st. wsimpl. rp_solve. }
    destruct (negb (r_code r =? 0)%Z); wsimpl; (apply move_then_upd; [exact H|rp_solve]).
  - wsimpl. apply move_then_upd; [apply move_set_st; wsimpl; rp_solve | rp_solve].
Qed.

Lemma format_read_args_move : forall f w, move w (fst (format_read_args D ioS muS hS mu_lock mu_unlock h_call f w)).
Proof.
  intros. unfold format_read_args. cbv zeta.
  destruct (g_cmd f (st w)) as [ci|]; [|mv_upd].
  destruct (cmd_of D f (st w)) as [c|]; [|mv_upd].
  destruct (nth_error (c_vars c) (g_var f (st w))) as [v|]; [|mv_upd].
  destruct (v_hread v).
  - destruct (call_h _ _) as [w' r] eqn:E.
    assert (H : move w w') by (eapply call_h_move'; [apply mv_refl|exact E]).
    destruct (negb (r_code r =? 0)%Z); wsimpl; (apply move_then_upd; [exact H|rp_solve]).
  - wsimpl. apply move_upd_st. rp_solve.
Qed.

Lemma process_write_loop_move : forall w, move w (fst (process_write_loop D ioS muS hS mu_lock mu_unlock h_call w)).
Proof.
  intros. unfold process_write_loop. cbv zeta.
  destruct (g_cmd ATCMD (st w)) as [ci|]; [|mv_upd].
  destruct (call_h _ _) as [w' r] eqn:E.
  assert (H : move w w') by (eapply call_h_move'; [apply mv_refl|exact E]).
  wsimpl. apply move_then_upd; [exact H|rp_solve].
Qed.

Lemma process_run_loop_move : forall w, move w (fst (process_run_loop D ioS muS hS mu_lock mu_unlock h_call w)).
Proof.
  intros. unfold process_run_loop. cbv zeta.
  destruct (g_cmd ATCMD (st w)) as [ci|]; [|mv_upd].
  destruct (call_h _ _) as [w' r] eqn:E.
  assert (H : move w w') by (eapply call_h_move'; [apply mv_refl|exact E]).
  wsimpl. apply move_then_upd; [exact H|rp_solve].
Qed.

Lemma process_rt_loop_move : forall rd f w,
  move w (fst (process_rt_loop D ioS muS hS mu_lock mu_unlock h_call rd f w)).
Proof.
  intros. unfold process_rt_loop. cbv zeta.
  destruct (g_cmd f (st w)) as [ci|]; [|mv_upd].
  destruct (call_h _ _) as [w' r] eqn:E.
  assert (H : move w w') by (eapply call_h_move'; [apply mv_refl|exact E]).
  wsimpl. apply move_then_upd; [exact H|rp_solve].
Qed.

Lemma process_io_write_move : forall w, move w (fst (process_io_write ioS muS hS io_write w)).
Proof.
  intros. unfold process_io_write. cbv zeta.
  destruct (wbuf_char _ _ _) as [ch|]; [|mv_upd].
  destruct (ch =? 0)%N; [mv_upd|].
  destruct (io_write (io w) ch) as [io' ok].
  assert (H : move w (logw (EWr ATCMD ch ok) (set_io io' w))) by (apply mv_log with (e := EWr ATCMD ch ok); reflexivity).
  destruct ok; wsimpl; [|exact H]. apply move_then_upd; [exact H|rp_solve].
Qed.

Lemma unsolicited_process_io_write_move : forall w, move w (fst (unsolicited_process_io_write ioS muS hS io_write w)).
Proof.
  intros. unfold unsolicited_process_io_write. cbv zeta.
  destruct (wbuf_char _ _ _) as [ch|]; [|mv_upd].
  destruct (ch =? 0)%N; [mv_upd|].
  destruct (io_write (io w) ch) as [io' ok].
  assert (H : move w (logw (EWr UNSOL ch ok) (set_io io' w))) by (apply mv_log with (e := EWr UNSOL ch ok); reflexivity).
  destruct ok; wsimpl; [|exact H]. apply move_then_upd; [exact H|rp_solve].
Qed.

(* the only place where the queue is read *)
Lemma rp_check : forall s, ringpart (check_unsolicited_buffers D s) = ringpart (fst (pop_unsolicited_cmd D s)).
Proof.
  intros. unfold check_unsolicited_buffers. destruct (pop_unsolicited_cmd D s) as [s1 [[ci t]|]]; cbn [fst]; [|reflexivity].
  destruct t; autorewrite with rp; reflexivity.
Qed.

Lemma check_nil : forall s, ring_empty s = false -> ring_items D s = [] ->
  ringpart (check_unsolicited_buffers D s) = ringpart s.
Proof.
  intros s He Hi. rewrite rp_check. unfold pop_unsolicited_cmd. rewrite He.
  unfold ring_items, ring_empty in *. destruct (u_count (u s)) as [|n]; [discriminate He|].
  cbn [ring_items_go] in Hi. destruct (nth_error (u_ring (u s)) (u_head (u s))); [discriminate Hi|reflexivity].
Qed.

Lemma unsolicited_events_service_move : forall w,
  move w (fst (unsolicited_events_service D ioS muS hS io_write mu_lock mu_unlock h_call w)).
Proof.
  intros. unfold unsolicited_events_service.
  destruct (u_state (u (st w))); try mv_upd.
  - destruct (ring_empty (st w)) eqn:Ee; cbn [negb]; [apply mv_refl|].
    destruct (ring_items D (st w)) as [|it rest] eqn:Ei.
    + wsimpl. apply move_upd_st. apply check_nil; assumption.
    + wsimpl. eapply mv_pop; [exact Ei | | reflexivity]. wsimpl. apply rp_check.
  - apply format_read_args_move.
  - apply process_rt_loop_move.
  - apply process_rt_loop_move.
  - apply unsolicited_process_io_write_move.
Qed.

Lemma cmd_service_move : forall w,
  move w (fst (cmd_service D ioS muS hS io_read io_write mu_lock mu_unlock h_call w)).
Proof.
  intros. unfold cmd_service.
  destruct (k_state (k (st w))); try mv_upd.
  - apply error_state_move.
  - apply process_idle_state_move.
  - apply parse_prefix_move.
  - apply parse_command_move.
  - apply wait_read_acknowledge_move.
  - apply parse_command_args_move.
  - apply parse_write_args_move.
  - apply format_read_args_move.
  - apply wait_test_acknowledge_move.
  - apply process_write_loop_move.
  - apply process_rt_loop_move.
  - apply process_rt_loop_move.
  - apply process_run_loop_move.
  - apply process_io_write_move.
Qed.

Lemma service_body_move : forall w,
  move w (fst (service_body D ioS muS hS io_read io_write mu_lock mu_unlock h_call w)).
Proof.
  intros. unfold service_body.
  pose proof (unsolicited_events_service_move w) as H1.
  destruct (unsolicited_events_service _ _ _ _ _ _ _ _ w) as [w1 us]. cbn [fst] in H1.
  pose proof (cmd_service_move w1) as H2.
  destruct (cmd_service _ _ _ _ _ _ _ _ _ w1) as [w2 s]. cbn [fst] in H2.
  assert (H : move w w2) by (eapply mv_trans; eassumption).
  destruct (_ || _); exact H.
Qed.

Lemma step_move : forall w o, move w (step w o).
Proof.
  intros w o. unfold Fsm.step.
  destruct o as [|ci t|status| | | |ci t|f|i b|g b];
    try (match goal with |- context[do_op w ?o] =>
           assert (H : move w (fst (do_op w o)));
           [| destruct (do_op w o) as [w' r]; cbn [fst] in H;
              eapply mv_trans; [exact H | apply move_logw; reflexivity]] end).
  - cbn [Fsm.do_op]. unfold api_service. apply bracket_move. apply service_body_move.
  - cbn [Fsm.do_op].
    pose proof (mv_trig w ci t (ERet (OTrigger ci t)) (or_introl eq_refl)) as H.
    destruct (api_trigger w ci t) as [w' r]. exact H.
  - cbn [Fsm.do_op]. apply api_hold_exit_move.
  - cbn [Fsm.do_op]. unfold api_is_busy. apply bracket_move. intros; apply mv_refl.
  - cbn [Fsm.do_op]. unfold api_is_hold. apply bracket_move. intros; apply mv_refl.
  - cbn [Fsm.do_op]. unfold api_is_full. apply bracket_move. intros; apply mv_refl.
  - cbn [Fsm.do_op fst]. apply mv_refl.
  - cbn [Fsm.do_op fst]. apply mv_refl.
  - cbn [Fsm.do_op fst]. apply move_upd_st. reflexivity.
  - cbn [Fsm.do_op fst]. apply move_upd_st. reflexivity.
Qed.

(* any predicate preserved by the four kinds of atomic move is preserved by every operation *)
Lemma move_inv : forall (I : world -> Prop),
  (forall w w', ringpart (st w') = ringpart (st w) -> tr w' = tr w -> I w -> I w') ->
  (forall w w' e, ringpart (st w') = ringpart (st w) -> tr w' = e :: tr w -> neutralb e = true -> I w -> I w') ->
  (forall w ci t (mk : Z -> event), mk = ERet (OTrigger ci t) \/ mk = EInner (ITrigger ci t) ->
      I w -> I (logw (mk (snd (api_trigger w ci t))) (fst (api_trigger w ci t)))) ->
  (forall w w' it rest, ring_items D (st w) = it :: rest ->
      ringpart (st w') = ringpart (fst (pop_unsolicited_cmd D (st w))) ->
      tr w' = EPop (fst it) (snd it) :: tr w -> I w -> I w') ->
  forall w w', move w w' -> I w -> I w'.
Proof.
  intros I H1 H2 H3 H4 w w' Hm. induction Hm; intros HI; eauto.
Qed.

Lemma run_inv : forall (I : world -> Prop),
  (forall w w', move w w' -> I w -> I w') -> forall ops w, I w -> I (run w ops).
Proof.
  intros I H. induction ops as [|o ops IH]; intros w HI; cbn [Fsm.run fold_left]; [exact HI|].
  apply IH. apply (H w); [apply step_move | exact HI].
Qed.

(* ------------------------------------------------------------------ *)
(* 4. the invariants                                                    *)
(* ------------------------------------------------------------------ *)

Lemma hist_same : forall w w', tr w' = tr w -> hist w' = hist w.
Proof. intros w w' H. unfold TraceDefs.hist. rewrite H. reflexivity. Qed.

Lemma hist_cons : forall w w' e, tr w' = e :: tr w -> hist w' = hist w ++ [e].
Proof. intros w w' e H. unfold TraceDefs.hist. rewrite H. reflexivity. Qed.

Lemma hist_app : forall w w' evs, tr w' = evs ++ tr w -> hist w' = hist w ++ rev evs.
Proof. intros w w' evs H. unfold TraceDefs.hist. rewrite H. apply rev_app_distr. Qed.

Lemma accepted_snoc : forall h e, accepted (h ++ [e]) = accepted h ++ accepted_of e.
Proof. intros. unfold accepted. rewrite flat_map_app. cbn [flat_map]. rewrite app_nil_r. reflexivity. Qed.
Lemma popped_snoc : forall h e, popped (h ++ [e]) = popped h ++ popped_of e.
Proof. intros. unfold popped. rewrite flat_map_app. cbn [flat_map]. rewrite app_nil_r. reflexivity. Qed.
Lemma accepted_neutral : forall h evs, forallb neutralb evs = true -> accepted (h ++ evs) = accepted h.
Proof.
  intros. unfold accepted. rewrite flat_map_app.
  rewrite (flat_map_neutral accepted_of evs neutral_accepted H). apply app_nil_r.
Qed.
Lemma popped_neutral : forall h evs, forallb neutralb evs = true -> popped (h ++ evs) = popped h.
Proof.
  intros. unfold popped. rewrite flat_map_app.
  rewrite (flat_map_neutral popped_of evs neutral_popped H). apply app_nil_r.
Qed.

(* what api_trigger does: some lock/unlock events, and either nothing (lock refused) or the push,
   whose status is returned unless the unlock fails *)
Lemma api_trigger_spec : forall w ci t,
  exists evs, tr (fst (api_trigger w ci t)) = evs ++ tr w /\ forallb neutralb evs = true /\
   ((snd (api_trigger w ci t) = ST_MUTEX_LOCK /\ st (fst (api_trigger w ci t)) = st w) \/
    (st (fst (api_trigger w ci t)) = fst (push_unsolicited_cmd D (st w) ci t) /\
      (snd (api_trigger w ci t) = snd (push_unsolicited_cmd D (st w) ci t) \/
       (snd (api_trigger w ci t) = ST_MUTEX_UNLOCK /\ d_mutex D = true /\
        exists m, snd (mu_unlock m) = false)))).
Proof.
  intros. unfold Fsm.api_trigger, Fsm.bracket. destruct (d_mutex D) eqn:Em.
  - destruct (mu_lock (mu w)) as [m1 ok]. destruct ok; cbn [negb].
    + wsimpl. destruct (push_unsolicited_cmd D (st w) ci t) as [s' r]. wsimpl.
      destruct (mu_unlock m1) as [m2 ok2] eqn:Eu. destruct ok2; cbn [negb]; wsimpl.
      * exists [EUnlock true; ELock true]. split; [reflexivity|]. split; [reflexivity|]. right. auto.
      * exists [EUnlock false; ELock true]. split; [reflexivity|]. split; [reflexivity|]. right.
        split; [reflexivity|]. right. split; [reflexivity|]. split; [reflexivity|].
        exists m1. rewrite Eu. reflexivity.
    + wsimpl. exists [ELock false]. split; [reflexivity|]. split; [reflexivity|]. left. auto.
  - destruct (push_unsolicited_cmd D (st w) ci t) as [s' r]. wsimpl.
    exists []. split; [reflexivity|]. split; [reflexivity|]. right. auto.
Qed.

Definition ring_inv (w : world) : Prop :=
  ring_wf D (st w) /\ accepted (hist w) = popped (hist w) ++ ring_items D (st w).

(* the general invariant: also tracks the queue length along the history *)
Definition ring_inv_gen (w : world) : Prop :=
  ring_wf D (st w) /\
  fold_left (pushed_step (d_cap D)) (hist w) (0, []) =
    (u_count (u (st w)), popped (hist w) ++ ring_items D (st w)).

(* the unlock never fails (or no mutex is configured) *)
Definition unlock_ok : Prop := d_mutex D = false \/ (forall m, snd (mu_unlock m) = true).

Lemma mk_accepted : forall ci t (mk : Z -> event) r,
  mk = ERet (OTrigger ci t) \/ mk = EInner (ITrigger ci t) ->
  accepted_of (mk r) = (if (r =? ST_OK)%Z then [(ci, t)] else []) /\ popped_of (mk r) = [] /\
  forall c n l, pushed_step c (n, l) (mk r) =
    if (r =? ST_OK)%Z || ((r =? ST_MUTEX_UNLOCK)%Z && (n <? c)) then (S n, l ++ [(ci, t)]) else (n, l).
Proof. intros ci t mk r [H|H]; subst mk; repeat split. Qed.

Lemma ring_inv_move : unlock_ok -> forall w w', move w w' -> ring_inv w -> ring_inv w'.
Proof.
  intros Hun. apply move_inv.
  - intros w w' Hr Ht [Hw Ha]. split; [eapply ring_wf_rp; eauto|].
    rewrite (hist_same w w' Ht), (ring_items_rp D _ _ Hr). exact Ha.
  - intros w w' e Hr Ht Hn [Hw Ha]. split; [eapply ring_wf_rp; eauto|].
    rewrite (hist_cons w w' e Ht), (ring_items_rp D _ _ Hr), accepted_snoc, popped_snoc.
    rewrite neutral_accepted, neutral_popped by exact Hn. rewrite !app_nil_r. exact Ha.
  - intros w ci t mk Hmk [Hw Ha].
    destruct (api_trigger_spec w ci t) as (evs & Ht & Hn & Hc).
    destruct (mk_accepted ci t mk (snd (api_trigger w ci t)) Hmk) as (Hacc & Hpop & _).
    set (p := api_trigger w ci t) in *.
    assert (Hh : hist (logw (mk (snd p)) (fst p)) = (hist w ++ rev evs) ++ [mk (snd p)]).
    { rewrite (hist_cons (fst p) (logw (mk (snd p)) (fst p)) (mk (snd p)) eq_refl). rewrite (hist_app w (fst p) evs Ht). reflexivity. }
    unfold ring_inv. rewrite Hh, accepted_snoc, popped_snoc, Hacc, Hpop, app_nil_r.
    rewrite accepted_neutral, popped_neutral by (apply forallb_rev; exact Hn).
    change (st (logw (mk (snd p)) (fst p))) with (st (fst p)).
    destruct Hc as [[Hr Hs]|[Hs Hr]].
    + rewrite Hr, Hs. cbn [Z.eqb ST_MUTEX_LOCK ST_OK]. rewrite app_nil_r. auto.
    + pose proof (C13_push D (st w) ci t Hw) as Hp.
      destruct (push_unsolicited_cmd D (st w) ci t) as [s' r0]. cbn [fst snd] in Hs, Hr.
      assert (Hr' : snd p = r0).
      { destruct Hr as [Hr|(_ & Hm & m & Hf)]; [exact Hr|].
        destruct Hun as [Hun|Hun]; [congruence | rewrite Hun in Hf; discriminate]. }
      rewrite Hr', Hs.
      destruct (length (ring_items D (st w)) <? d_cap D).
      * destruct Hp as (-> & Hw' & Hi & _). split; [exact Hw'|].
        rewrite Hi, Ha. cbn [Z.eqb ST_OK]. rewrite app_assoc. reflexivity.
      * destruct Hp as (-> & ->). cbn [Z.eqb ST_BUFFER_FULL ST_OK]. rewrite app_nil_r. auto.
  - intros w w' it rest Hi Hr Ht [Hw Ha].
    pose proof (C13_pop D (st w) Hw) as Hp. rewrite Hi in Hp. destruct Hp as (s' & Hp & Hw' & Hi' & _).
    rewrite Hp in Hr. cbn [fst] in Hr.
    split; [eapply ring_wf_rp; eauto|].
    rewrite (hist_cons w w' _ Ht), (ring_items_rp D _ _ Hr), accepted_snoc, popped_snoc, Hi'.
    cbn [accepted_of popped_of]. rewrite app_nil_r, Ha, Hi. rewrite <- app_assoc. destruct it; reflexivity.
Qed.

Lemma ring_inv_gen_move : forall w w', move w w' -> ring_inv_gen w -> ring_inv_gen w'.
Proof.
  apply move_inv.
  - intros w w' Hr Ht [Hw Ha]. split; [eapply ring_wf_rp; eauto|].
    rewrite (hist_same w w' Ht), (ring_items_rp D _ _ Hr). rewrite Ha.
    unfold ringpart in Hr. injection Hr as _ _ _ Hc. rewrite Hc. reflexivity.
  - intros w w' e Hr Ht Hn [Hw Ha]. split; [eapply ring_wf_rp; eauto|].
    rewrite (hist_cons w w' e Ht), (ring_items_rp D _ _ Hr), fold_left_app, popped_snoc.
    cbn [fold_left]. rewrite neutral_pushed, neutral_popped by exact Hn. rewrite app_nil_r, Ha.
    unfold ringpart in Hr. injection Hr as _ _ _ Hc. rewrite Hc. reflexivity.
  - intros w ci t mk Hmk [Hw Ha].
    destruct (api_trigger_spec w ci t) as (evs & Ht & Hn & Hc).
    destruct (mk_accepted ci t mk (snd (api_trigger w ci t)) Hmk) as (_ & Hpop & Hpu).
    set (p := api_trigger w ci t) in *.
    assert (Hh : hist (logw (mk (snd p)) (fst p)) = (hist w ++ rev evs) ++ [mk (snd p)]).
    { rewrite (hist_cons (fst p) (logw (mk (snd p)) (fst p)) (mk (snd p)) eq_refl). rewrite (hist_app w (fst p) evs Ht). reflexivity. }
    unfold ring_inv_gen. rewrite Hh, !fold_left_app, popped_snoc, Hpop, app_nil_r.
    rewrite popped_neutral by (apply forallb_rev; exact Hn).
    rewrite (fold_neutral _ (rev evs)) by (apply forallb_rev; exact Hn).
    rewrite Ha. cbn [fold_left]. rewrite Hpu.
    change (st (logw (mk (snd p)) (fst p))) with (st (fst p)).
    destruct Hc as [[Hr Hs]|[Hs Hr]].
    + rewrite Hr, Hs. cbn [Z.eqb ST_MUTEX_LOCK ST_OK ST_MUTEX_UNLOCK orb andb]. auto.
    + pose proof (C13_push D (st w) ci t Hw) as Hp.
      pose proof (C13_items_length D (st w) Hw) as HL.
      destruct (push_unsolicited_cmd D (st w) ci t) as [s' r0]. cbn [fst snd] in Hs, Hr.
      rewrite Hs. rewrite HL in Hp.
      destruct (u_count (u (st w)) <? d_cap D).
      * destruct Hp as (-> & Hw' & Hi & _). split; [exact Hw'|].
        pose proof (C13_items_length D s' Hw') as HL'. rewrite Hi, app_length, HL in HL'. cbn [length] in HL'.
        assert (Hcnt : u_count (u s') = S (u_count (u (st w)))) by lia.
        rewrite Hi, Hcnt, app_assoc.
        destruct Hr as [->|(-> & _)]; reflexivity.
      * destruct Hp as (-> & ->).
        destruct Hr as [->|(-> & _)]; cbn [Z.eqb ST_BUFFER_FULL ST_OK ST_MUTEX_UNLOCK orb andb]; auto.
  - intros w w' it rest Hi Hr Ht [Hw Ha].
    pose proof (C13_pop D (st w) Hw) as Hp. rewrite Hi in Hp. destruct Hp as (s' & Hp & Hw' & Hi' & _).
    rewrite Hp in Hr. cbn [fst] in Hr.
    split; [eapply ring_wf_rp; eauto|].
    rewrite (hist_cons w w' _ Ht), (ring_items_rp D _ _ Hr), fold_left_app, popped_snoc, Hi', Ha.
    cbn [fold_left pushed_step popped_of].
    pose proof (C13_items_length D (st w) Hw) as HL. pose proof (C13_items_length D s' Hw') as HL'.
    rewrite Hi in HL. rewrite Hi' in HL'. cbn [length] in HL.
    unfold ringpart in Hr. injection Hr as _ _ _ Hc. rewrite Hc, <- HL', <- HL. cbn [pred].
    rewrite Hi, <- app_assoc. destruct it; reflexivity.
Qed.

Lemma init_wf : forall m, 0 < d_cap D -> ring_wf D (init_state D m).
Proof.
  intros m Hc. unfold ring_wf. cbn [init_state init_ufsm u u_ring u_head u_tail u_count].
  rewrite repeat_length. repeat split; auto; try lia.
  cbn [Nat.add]. symmetry. apply Nat.mod_0_l. lia.
Qed.

Theorem C13_exactly_once : forall m x mx h ops,
  0 < d_cap D -> unlock_ok ->
  ring_inv (run (mkWorld (init_state D m) x mx h []) ops).
Proof.
  intros m x mx h ops Hc Hun. apply run_inv.
  - apply ring_inv_move. exact Hun.
  - split; [apply init_wf; exact Hc | reflexivity].
Qed.

Theorem C13_exactly_once_general : forall m x mx h ops,
  0 < d_cap D ->
  let w := run (mkWorld (init_state D m) x mx h []) ops in
  ring_wf D (st w) /\ pushed (d_cap D) (hist w) = popped (hist w) ++ ring_items D (st w).
Proof.
  intros m x mx h ops Hc w.
  assert (H : ring_inv_gen w).
  { apply run_inv; [apply ring_inv_gen_move|]. split; [apply init_wf; exact Hc | reflexivity]. }
  destruct H as [Hw Ha]. split; [exact Hw|]. unfold pushed. rewrite Ha. reflexivity.
Qed.

Theorem C13_trigger_api : forall w ci t, ring_wf D (st w) -> d_mutex D = false ->
  let (w', r) := api_trigger w ci t in
  (r = ST_OK /\ length (ring_items D (st w)) < d_cap D /\ ring_items D (st w') = ring_items D (st w) ++ [(ci, t)]) \/
  (r = ST_BUFFER_FULL /\ length (ring_items D (st w)) = d_cap D /\ w' = w).
Proof.
  intros w ci t Hw Hm. unfold Fsm.api_trigger, Fsm.bracket. rewrite Hm.
  pose proof (C13_push D (st w) ci t Hw) as Hp.
  pose proof (C13_items_length D (st w) Hw) as HL.
  destruct (push_unsolicited_cmd D (st w) ci t) as [s' r].
  destruct (Nat.ltb_spec (length (ring_items D (st w))) (d_cap D)) as [Hlt|Hge].
  - destruct Hp as (-> & _ & Hi & _). left. auto.
  - destruct Hp as (-> & ->). right. split; [reflexivity|]. split.
    + destruct Hw as (_ & _ & _ & _ & Hn & _). lia.
    + destruct w; reflexivity.
Qed.

Theorem C17_per_producer : forall (P : nat * ctype -> bool) m x mx h ops,
  0 < d_cap D -> unlock_ok ->
  let w := run (mkWorld (init_state D m) x mx h []) ops in
  filter P (accepted (hist w)) = filter P (popped (hist w)) ++ filter P (ring_items D (st w)).
Proof.
  intros P m x mx h ops Hc Hun w.
  destruct (C13_exactly_once m x mx h ops Hc Hun) as [_ Ha]. fold w in Ha.
  rewrite Ha. apply filter_app.
Qed.

Theorem C17_per_producer_general : forall (P : nat * ctype -> bool) m x mx h ops,
  0 < d_cap D ->
  let w := run (mkWorld (init_state D m) x mx h []) ops in
  filter P (pushed (d_cap D) (hist w)) = filter P (popped (hist w)) ++ filter P (ring_items D (st w)).
Proof.
  intros P m x mx h ops Hc w.
  destruct (C13_exactly_once_general m x mx h ops Hc) as [_ Ha]. fold w in Ha.
  rewrite Ha. apply filter_app.
Qed.

End World.
