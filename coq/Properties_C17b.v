(* Properties_C17b.v -- property C17, the bridge  threads + real lock  ==>  sequential history.

   Properties_C17.v proves the exactly-once guarantee for EVERY list of public operations executed
   one after the other (run w ops).  This file proves that a set of threads calling the locking API
   concurrently, the mutex interface being backed by a real blocking lock, produces exactly the
   effect of such a list: the operations ordered by the moment they acquired the lock.

   Definitions (Lemmas_C17b.v, section LockSerializes; Sh = shared state, Op = operations,
   body o : Sh -> Sh = effect of the critical section of o):
     phase   := Idle | Holding o | Done' o         before acquire / lock held, body not yet run /
                                                   body run, lock not yet released
     conf    := { shared : Sh; holder : option nat; threads : list (list Op * phase) }
                a thread = (operations not yet started, phase of the current operation)
     lstep c l c'   one micro-step of some thread i (l = label):
        ACQUIRE  holder c = None, thread i = (o :: rest, Idle)   ~> holder := Some i,
                 thread i := (rest, Holding o);  l = [(i,o)]
        BODY     holder c = Some i, thread i = (rest, Holding o) ~> shared := body o (shared c),
                 thread i := (rest, Done' o);    l = []
        RELEASE  holder c = Some i, thread i = (rest, Done' o)   ~> holder := None,
                 thread i := (rest, Idle);       l = []
     mstep c c'     := exists l, lstep c l c'
     msteps c0 lin c   reflexive-transitive closure, lin = concatenation of the labels
                       = the (thread, operation) pairs in ACQUIRE order = the linearisation
     all_idle c     := Forall (fun t => snd t = Idle) (threads c)       no operation in flight
     quiescent c    := holder c = None /\ all_idle c                    (initial configurations)
     start s tl     := {| shared := s; holder := None; threads := map (fun l => (l, Idle)) tl |}
     exec lin s     := fold_left (fun s io => body (snd io) s) lin s    sequential semantics
     proj i lin     := map snd (filter (fun io => fst io =? i) lin)     operations of thread i in lin
     remaining c i  := operations thread i has not started ([] if there is no thread i)
     tstep, sched   executable scheduler (sound: sched_sound), used for the example only

   Scope: the micro-step system describes the operations that take the lock (do_op = bracket ...:
   service, trigger, hold_exit, is_busy, is_hold, is_full).  C17_threads_exactly_once quantifies
   over all operation lists, but for the model operations that do not lock (OIsBuffered,
   OGetProcessed, OSet*Disable) atomicity is then an assumption, not a consequence of the lock. *)
From Coq Require Import List NArith ZArith Bool Arith.
From CatV Require Import Bytes Defs Codec Fsm TraceDefs Lemmas_C13 Lemmas_C17b.
Import ListNotations.
Local Open Scope nat_scope.

Section Generic.
Variables (Sh : Type) (Op : Type).
Variable body : Op -> Sh -> Sh.

(* 1. at most one thread is inside a critical section, and it is the holder of the lock *)
Theorem C17_mutual_exclusion : forall (c0 : conf Sh Op) lin c,
  quiescent c0 -> msteps body c0 lin c ->
  (forall i rest ph, nth_error (threads c) i = Some (rest, ph) -> ph <> Idle -> holder c = Some i) /\
  (forall i, holder c = Some i ->
     exists rest ph, nth_error (threads c) i = Some (rest, ph) /\ ph <> Idle) /\
  (forall i j ri pi rj pj,
     nth_error (threads c) i = Some (ri, pi) -> nth_error (threads c) j = Some (rj, pj) ->
     pi <> Idle -> pj <> Idle -> i = j).
Proof. exact (Lemmas_C17b.C17_mutual_exclusion Sh Op body). Qed.

(* 2. the shared state is the sequential fold of the bodies along the linearisation:
      exactly, when no operation is in flight or the one in flight has run its body (Done');
      minus the last element of the linearisation, when the one in flight has not (Holding) *)
Theorem C17_lock_serializes : forall (c0 : conf Sh Op) lin c,
  quiescent c0 -> msteps body c0 lin c ->
  (all_idle c ->
     shared c = fold_left (fun s (io : nat * Op) => body (snd io) s) lin (shared c0)) /\
  (forall i rest o, nth_error (threads c) i = Some (rest, Done' o) ->
     shared c = fold_left (fun s (io : nat * Op) => body (snd io) s) lin (shared c0)) /\
  (forall i rest o, nth_error (threads c) i = Some (rest, Holding o) ->
     exists lin', lin = lin' ++ [(i, o)] /\
       shared c = fold_left (fun s (io : nat * Op) => body (snd io) s) lin' (shared c0)).
Proof. exact (Lemmas_C17b.C17_lock_serializes Sh Op body). Qed.

(* 3. per thread, the linearisation is the started prefix of its original operation list
      (no hypothesis on c0); it mentions existing threads only *)
Theorem C17_linearisation_respects_program_order : forall (c0 : conf Sh Op) lin c,
  msteps body c0 lin c ->
  length (threads c) = length (threads c0) /\
  (forall io, In io lin -> fst io < length (threads c0)) /\
  (forall i rest ph, nth_error (threads c) i = Some (rest, ph) ->
     exists ph0, nth_error (threads c0) i =
                 Some (map snd (filter (fun io => fst io =? i) lin) ++ rest, ph0)).
Proof. exact (Lemmas_C17b.C17_linearisation_respects_program_order Sh Op body). Qed.

(* 4. conversely: every list of (thread, operation) pairs whose projection on each thread is a
      prefix of that thread's operation list is the linearisation of an execution (which ends in
      a quiescent configuration, each thread having consumed exactly its projection) *)
Theorem C17_every_interleaving : forall lin (c0 : conf Sh Op),
  quiescent c0 ->
  (forall i, exists rest, remaining c0 i = proj i lin ++ rest) ->
  exists c, msteps body c0 lin c /\ quiescent c /\ shared c = exec body lin (shared c0) /\
            forall i, remaining c0 i = proj i lin ++ remaining c i.
Proof. exact (Lemmas_C17b.C17_every_interleaving Sh Op body). Qed.

(* 4'. the special case of complete interleavings of thread programs tl *)
Theorem C17_every_complete_interleaving : forall s0 (tl : list (list Op)) lin,
  (forall i, nth i tl [] = proj i lin) ->
  exists c, msteps body (start s0 tl) lin c /\ quiescent c /\ shared c = exec body lin s0 /\
            forall i, remaining c i = [].
Proof. exact (Lemmas_C17b.every_complete_interleaving Sh Op body). Qed.

End Generic.

Section Instance.
Variable D : desc.
Variables ioS muS hS : Type.
Variable io_read : ioS -> ioS * option N.
Variable io_write : ioS -> N -> ioS * bool.
Variable mu_lock : muS -> muS * bool.
Variable mu_unlock : muS -> muS * bool.
Variable h_call : hS -> hreq -> hS * hres.

(* 5. any number of threads, each running any list of public operations (one thread the service
      loop and the queries, the others the triggers, or any other split), critical section of
      operation o := one model step (do_op, then the return status is logged).  At every
      configuration without operation in flight the shared world is the sequential run of the
      linearisation, and every accepted event (trigger returned OK) satisfying P has been popped
      exactly once, in order, or is still queued.  Hypotheses of C17_per_producer: capacity > 0,
      the unlock never fails (a real lock). *)
Theorem C17_threads_exactly_once :
  forall (P : nat * ctype -> bool) m x mx h (tl : list (list op)) lin
         (c : conf (world ioS muS hS) op),
  0 < d_cap D -> (forall m, snd (mu_unlock m) = true) ->
  let w0 := mkWorld ioS muS hS (init_state D m) x mx h [] in
  msteps (fun o w => step D ioS muS hS io_read io_write mu_lock mu_unlock h_call w o)
         (start w0 tl) lin c ->
  all_idle c ->
  let w := shared c in
  w = run D ioS muS hS io_read io_write mu_lock mu_unlock h_call w0 (map snd lin) /\
  filter P (accepted (hist ioS muS hS w)) =
  filter P (popped (hist ioS muS hS w)) ++ filter P (ring_items D (st ioS muS hS w)).
Proof.
  exact (Lemmas_C17b.C17_threads_exactly_once D ioS muS hS io_read io_write mu_lock mu_unlock h_call).
Qed.

End Instance.

Print Assumptions C17_mutual_exclusion.
Print Assumptions C17_lock_serializes.
Print Assumptions C17_linearisation_respects_program_order.
Print Assumptions C17_every_interleaving.
Print Assumptions C17_every_complete_interleaving.
Print Assumptions C17_threads_exactly_once.

(* non-vacuity: two threads adding numbers to a shared counter.  Thread 0 runs [1; 2], thread 1
   runs [10].  Schedule (thread chosen at each tick; a blocked or finished thread does nothing):
   0 acquires; 1 is blocked (twice, also after 0 ran its body); 0 releases; 1 acquires; 0 is
   blocked; 1 runs and releases; 0 runs its second operation. *)
Definition ex_c0 : conf nat nat := start 0 [[1; 2]; [10]].
Definition ex_sched : list nat := [0; 1; 0; 1; 0; 1; 0; 1; 1; 0; 0; 0].

Example C17b_ex :
  exists c, msteps Nat.add ex_c0 [(0, 1); (1, 10); (0, 2)] c /\
            quiescent c /\ shared c = 13 /\ remaining c 0 = [] /\ remaining c 1 = [].
Proof.
  exists (fst (sched Nat.add ex_c0 ex_sched)). split.
  - exact (sched_sound nat nat Nat.add ex_sched ex_c0).
  - vm_compute. repeat split; repeat constructor.
Qed.

(* while thread 0 holds the lock, thread 1 cannot step (the lock blocks) *)
Example C17b_ex_blocked :
  let c := fst (sched Nat.add ex_c0 [0]) in
  holder c = Some 0 /\ tstep Nat.add c 1 = None /\
  tstep Nat.add (fst (sched Nat.add ex_c0 [0; 0])) 1 = None.
Proof. vm_compute. auto. Qed.
