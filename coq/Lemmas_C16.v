(* Lemmas_C16.v — property C16: the lock/unlock discipline of the locking API functions.
   Every locking public function is `bracket w body`; nothing else in Fsm.v logs ELock/EUnlock
   or changes the mutex oracle state `mu`.  All the work for Properties_C16.v is here. *)
From Coq Require Import List NArith ZArith Bool Arith Lia.
From CatV Require Import Bytes Defs Codec Fsm TraceDefs.
Import ListNotations.
Local Open Scope nat_scope.

(* ------------------------------------------------------------------ *)
(* small definitions (restated in Properties_C16.v through these names) *)
(* ------------------------------------------------------------------ *)

Definition locking_op (o : op) : bool :=
  match o with
  | OService | OTrigger _ _ | OHoldExit _ | OIsBusy | OIsHold | OIsFull => true
  | _ => false
  end.

Definition is_lock_ev (e : event) : bool :=
  match e with ELock _ | EUnlock _ => true | _ => false end.

(* no lock/unlock event in a list of events *)
Definition nolock (evs : list event) : bool := forallb (fun e => negb (is_lock_ev e)) evs.

(* ------------------------------------------------------------------ *)
(* pure list facts                                                      *)
(* ------------------------------------------------------------------ *)

Lemma nolock_app : forall a b, nolock (a ++ b) = nolock a && nolock b.
Proof. intros a b. unfold nolock. apply forallb_app. Qed.

Lemma locks_app : forall a b, locks (a ++ b) = locks a ++ locks b.
Proof. intros a b. unfold locks. apply flat_map_app. Qed.

Lemma lock_of_quiet : forall e, is_lock_ev e = false -> lock_of e = [].
Proof. intros e H. destruct e; try reflexivity; discriminate H. Qed.

Lemma nolock_locks_rev : forall evs, nolock evs = true -> locks (rev evs) = [].
Proof.
  induction evs as [|e t IH]; intros H.
  - reflexivity.
  - cbn [nolock forallb] in H. apply andb_true_iff in H. destruct H as [He Ht].
    cbn [rev]. rewrite locks_app. rewrite (IH Ht). cbn [app locks flat_map].
    rewrite lock_of_quiet; [reflexivity|].
    destruct (is_lock_ev e); [discriminate He | reflexivity].
Qed.

(* the state of the lock discipline automaton at the end of a list (None = violated) *)
Fixpoint lk_end (held : bool) (l : list (bool * bool)) : option bool :=
  match l with
  | [] => Some held
  | (true, ok) :: r => if held then None else lk_end ok r
  | (false, _) :: r => if held then lk_end false r else None
  end.

Lemma lk_end_ok : forall l held b, lk_end held l = Some b -> locks_ok held l = true.
Proof.
  induction l as [|[[|] ok] r IH]; intros held b H.
  - reflexivity.
  - cbn [lk_end] in H. cbn [locks_ok]. destruct held; [discriminate H|].
    cbn [negb andb]. eapply IH; eassumption.
  - cbn [lk_end] in H. cbn [locks_ok]. destruct held; [|discriminate H].
    cbn [andb]. eapply IH; eassumption.
Qed.

Lemma lk_end_app : forall a b held,
  lk_end held (a ++ b) = match lk_end held a with Some h' => lk_end h' b | None => None end.
Proof.
  induction a as [|[[|] ok] r IH]; intros b held.
  - reflexivity.
  - cbn [app lk_end]. destruct held; [reflexivity | apply IH].
  - cbn [app lk_end]. destruct held; [apply IH | reflexivity].
Qed.

(* the facts asked for in the task, on the oldest-first list: a complete bracket or a failed
   lock appended to a well-formed closed prefix keeps it well-formed and closed *)
Lemma lk_end_bracket : forall l b,
  lk_end false l = Some false -> lk_end false (l ++ [(true, true)] ++ [(false, b)]) = Some false.
Proof. intros l b H. rewrite lk_end_app, H. reflexivity. Qed.

Lemma lk_end_failed_lock : forall l,
  lk_end false l = Some false -> lk_end false (l ++ [(true, false)]) = Some false.
Proof. intros l H. rewrite lk_end_app, H. reflexivity. Qed.

(* ------------------------------------------------------------------ *)
Section C16.
Variable D : desc.
Variables ioS muS hS : Type.
Variable io_read : ioS -> ioS * option N.
Variable io_write : ioS -> N -> ioS * bool.
Variable mu_lock : muS -> muS * bool.
Variable mu_unlock : muS -> muS * bool.
Variable h_call : hS -> hreq -> hS * hres.

(* with a mutex configured, handlers make no inner API calls (it would self-deadlock in C) *)
Hypothesis no_inner : d_mutex D = true -> forall hs q, r_calls (snd (h_call hs q)) = [].

Local Notation world := (Fsm.world ioS muS hS).
Local Notation st := (Fsm.st ioS muS hS).
Local Notation io := (Fsm.io ioS muS hS).
Local Notation mu := (Fsm.mu ioS muS hS).
Local Notation hs := (Fsm.hs ioS muS hS).
Local Notation tr := (Fsm.tr ioS muS hS).
Local Notation mkWorld := (Fsm.mkWorld ioS muS hS).
Local Notation set_st := (Fsm.set_st ioS muS hS).
Local Notation set_io := (Fsm.set_io ioS muS hS).
Local Notation set_mu := (Fsm.set_mu ioS muS hS).
Local Notation set_hs := (Fsm.set_hs ioS muS hS).
Local Notation logw := (Fsm.logw ioS muS hS).
Local Notation upd_st := (Fsm.upd_st ioS muS hS).
Local Notation busy := (Fsm.busy ioS muS hS).
Local Notation bracket := (Fsm.bracket D ioS muS hS mu_lock mu_unlock).
Local Notation api_trigger := (Fsm.api_trigger D ioS muS hS mu_lock mu_unlock).
Local Notation api_hold_exit := (Fsm.api_hold_exit D ioS muS hS mu_lock mu_unlock).
Local Notation apply_icall := (Fsm.apply_icall D ioS muS hS mu_lock mu_unlock).
Local Notation call_h := (Fsm.call_h D ioS muS hS mu_lock mu_unlock h_call).
Local Notation read_cmd_char := (Fsm.read_cmd_char ioS muS hS io_read).
Local Notation reading := (Fsm.reading ioS muS hS io_read).
Local Notation parse_write_args := (Fsm.parse_write_args D ioS muS hS mu_lock mu_unlock h_call).
Local Notation format_read_args := (Fsm.format_read_args D ioS muS hS mu_lock mu_unlock h_call).
Local Notation process_write_loop := (Fsm.process_write_loop D ioS muS hS mu_lock mu_unlock h_call).
Local Notation process_run_loop := (Fsm.process_run_loop D ioS muS hS mu_lock mu_unlock h_call).
Local Notation process_rt_loop := (Fsm.process_rt_loop D ioS muS hS mu_lock mu_unlock h_call).
Local Notation process_io_write := (Fsm.process_io_write ioS muS hS io_write).
Local Notation unsolicited_process_io_write := (Fsm.unsolicited_process_io_write ioS muS hS io_write).
Local Notation unsolicited_events_service :=
  (Fsm.unsolicited_events_service D ioS muS hS io_write mu_lock mu_unlock h_call).
Local Notation cmd_service :=
  (Fsm.cmd_service D ioS muS hS io_read io_write mu_lock mu_unlock h_call).
Local Notation service_body :=
  (Fsm.service_body D ioS muS hS io_read io_write mu_lock mu_unlock h_call).
Local Notation do_op := (Fsm.do_op D ioS muS hS io_read io_write mu_lock mu_unlock h_call).
Local Notation step := (Fsm.step D ioS muS hS io_read io_write mu_lock mu_unlock h_call).
Local Notation run := (Fsm.run D ioS muS hS io_read io_write mu_lock mu_unlock h_call).
Local Notation hist := (TraceDefs.hist ioS muS hS).

(* ------------------------------------------------------------------ *)
(* the frame predicate                                                  *)
(* ------------------------------------------------------------------ *)

(* w' was reached from w without touching the mutex: same oracle state, only non-lock events logged *)
Definition quiet (w w' : world) : Prop :=
  mu w' = mu w /\ exists evs, tr w' = evs ++ tr w /\ nolock evs = true.

(* the statuses of the service state functions *)
Definition okb (r : Z) : Prop := r = ST_OK \/ r = ST_BUSY.
Definition qres (w0 : world) (p : world * Z) : Prop := quiet w0 (fst p) /\ okb (snd p).

Lemma quiet_refl : forall w, quiet w w.
Proof. intros w. split; [reflexivity|]. exists []. split; reflexivity. Qed.

Lemma quiet_trans : forall w1 w2 w3, quiet w1 w2 -> quiet w2 w3 -> quiet w1 w3.
Proof.
  intros w1 w2 w3 [M1 [e1 [T1 N1]]] [M2 [e2 [T2 N2]]]. split.
  - rewrite M2. exact M1.
  - exists (e2 ++ e1). split.
    + rewrite T2, T1. apply app_assoc.
    + rewrite nolock_app, N1, N2. reflexivity.
Qed.

Lemma quiet_set_st : forall w0 w v, quiet w0 w -> quiet w0 (set_st v w).
Proof. intros w0 w v H. exact H. Qed.
Lemma quiet_set_io : forall w0 w v, quiet w0 w -> quiet w0 (set_io v w).
Proof. intros w0 w v H. exact H. Qed.
Lemma quiet_set_hs : forall w0 w v, quiet w0 w -> quiet w0 (set_hs v w).
Proof. intros w0 w v H. exact H. Qed.
Lemma quiet_upd_st : forall w0 w g, quiet w0 w -> quiet w0 (upd_st g w).
Proof. intros w0 w g H. exact H. Qed.

Lemma quiet_logw : forall w0 w e, is_lock_ev e = false -> quiet w0 w -> quiet w0 (logw e w).
Proof.
  intros w0 w e He [M [evs [T Nl]]]. split; [exact M|].
  exists (e :: evs). split.
  - cbn [Fsm.logw Fsm.tr]. rewrite T. reflexivity.
  - cbn [nolock forallb]. rewrite He. exact Nl.
Qed.

Lemma qres_busy : forall w0 w, quiet w0 w -> qres w0 (busy w).
Proof. intros w0 w H. split; [exact H | right; reflexivity]. Qed.

Lemma qres_pair : forall w0 w r, quiet w0 w -> okb r -> qres w0 (w, r).
Proof. intros w0 w r H H2. split; assumption. Qed.

Ltac qs :=
  repeat first
    [ assumption
    | apply quiet_refl
    | apply quiet_upd_st | apply quiet_set_st | apply quiet_set_io | apply quiet_set_hs
    | apply quiet_logw; [reflexivity|]
    | apply qres_busy
    | apply qres_pair; [ | first [left; reflexivity | right; reflexivity] ] ].

(* ------------------------------------------------------------------ *)
(* bracket                                                              *)
(* ------------------------------------------------------------------ *)

Lemma bracket_nomutex : forall w body, d_mutex D = false -> bracket w body = body w.
Proof. intros w body H. unfold Fsm.bracket. rewrite H. reflexivity. Qed.

Theorem C16_bracket : forall (w : world) (body : world -> world * Z), d_mutex D = true ->
  let (m1, ok) := mu_lock (mu w) in
  if ok then
    let w1 := logw (ELock true) (set_mu m1 w) in
    let (w2, s) := body w1 in
    let (m2, ok2) := mu_unlock (mu w2) in
    bracket w body = (logw (EUnlock ok2) (set_mu m2 w2), if ok2 then s else ST_MUTEX_UNLOCK)
  else bracket w body = (logw (ELock false) (set_mu m1 w), ST_MUTEX_LOCK).
Proof.
  intros w body H. unfold Fsm.bracket. rewrite H.
  destruct (mu_lock (mu w)) as [m1 ok]. destruct ok; cbn [negb].
  - cbv zeta. destruct (body (logw (ELock true) (set_mu m1 w))) as [w2 s].
    destruct (mu_unlock (mu w2)) as [m2 ok2]. destruct ok2; reflexivity.
  - reflexivity.
Qed.

(* ------------------------------------------------------------------ *)
(* callbacks into the application                                       *)
(* ------------------------------------------------------------------ *)

Lemma apply_icall_q : forall w0 w c, d_mutex D = false -> quiet w0 w -> quiet w0 (apply_icall w c).
Proof.
  intros w0 w c M H. unfold Fsm.apply_icall, Fsm.api_trigger, Fsm.api_hold_exit.
  destruct c as [ci t | status]; rewrite (bracket_nomutex _ _ M).
  - destruct (push_unsolicited_cmd D (st w) ci t) as [s' r]. qs.
  - destruct (hold_exit (st w) status) as [s' r]. qs.
Qed.

Lemma fold_icall_q : forall w0 l w, d_mutex D = false -> quiet w0 w ->
  quiet w0 (fold_left apply_icall l w).
Proof.
  intros w0 l. induction l as [|c l IH]; intros w M H.
  - exact H.
  - cbn [fold_left]. apply IH; [exact M|]. apply apply_icall_q; assumption.
Qed.

Lemma call_h_q : forall w0 w q, quiet w0 w -> quiet w0 (fst (call_h w q)).
Proof.
  intros w0 w q H. unfold Fsm.call_h.
  destruct (h_call (hs w) q) as [hs' r] eqn:E. cbv zeta. cbn [fst].
  destruct (Bool.bool_dec (d_mutex D) true) as [M|M]; [|apply not_true_is_false in M].
  - pose proof (no_inner M (hs w) q) as N. rewrite E in N. cbn [snd] in N. rewrite N.
    cbn [fold_left]. qs.
  - apply fold_icall_q; [exact M|]. qs.
Qed.

(* ------------------------------------------------------------------ *)
(* the state functions                                                  *)
(* ------------------------------------------------------------------ *)

Ltac qcall :=
  match goal with
  | |- context [call_h ?w ?q] =>
    let H := fresh "Hq" in
    match goal with |- qres ?w0 _ =>
      assert (H : quiet w0 (fst (call_h w q))) by (apply call_h_q; qs)
    end;
    destruct (call_h w q) eqn:?; cbn [fst] in H
  end.

Ltac qmatch :=
  match goal with
  | |- qres _ (match (match ?x with _ => _ end) with _ => _ end) => destruct x eqn:?
  | |- qres _ (match ?x with _ => _ end) => destruct x eqn:?
  | |- quiet _ (match ?x with _ => _ end) => destruct x eqn:?
  | |- quiet _ (fst (match ?x with _ => _ end)) => destruct x eqn:?
  | |- quiet _ (fst (_, _)) => cbn [fst]
  end.

Ltac qgo := repeat (cbv beta iota zeta; first [qcall | qmatch | progress qs]).

Lemma read_cmd_char_q : forall w0 w, quiet w0 w -> quiet w0 (fst (read_cmd_char w)).
Proof. intros w0 w H. unfold Fsm.read_cmd_char. qgo. Qed.

Lemma reading_q : forall w0 w body, quiet w0 w -> qres w0 (reading w body).
Proof.
  intros w0 w body H. unfold Fsm.reading.
  pose proof (read_cmd_char_q w0 w H) as R.
  destruct (read_cmd_char w) as [w1 got]. cbn [fst] in R. qgo.
Qed.

Lemma parse_write_args_q : forall w0 w, quiet w0 w -> qres w0 (parse_write_args w).
Proof. intros w0 w H. unfold Fsm.parse_write_args. qgo. Qed.

Lemma format_read_args_q : forall w0 f w, quiet w0 w -> qres w0 (format_read_args f w).
Proof. intros w0 f w H. unfold Fsm.format_read_args. qgo. Qed.

Lemma process_write_loop_q : forall w0 w, quiet w0 w -> qres w0 (process_write_loop w).
Proof. intros w0 w H. unfold Fsm.process_write_loop. qgo. Qed.

Lemma process_run_loop_q : forall w0 w, quiet w0 w -> qres w0 (process_run_loop w).
Proof. intros w0 w H. unfold Fsm.process_run_loop. qgo. Qed.

Lemma process_rt_loop_q : forall w0 rd f w, quiet w0 w -> qres w0 (process_rt_loop rd f w).
Proof. intros w0 rd f w H. unfold Fsm.process_rt_loop. qgo. Qed.

Lemma process_io_write_q : forall w0 w, quiet w0 w -> qres w0 (process_io_write w).
Proof. intros w0 w H. unfold Fsm.process_io_write. qgo. Qed.

Lemma unsolicited_process_io_write_q : forall w0 w, quiet w0 w ->
  qres w0 (unsolicited_process_io_write w).
Proof. intros w0 w H. unfold Fsm.unsolicited_process_io_write. qgo. Qed.

Lemma unsolicited_events_service_q : forall w0 w, quiet w0 w ->
  qres w0 (unsolicited_events_service w).
Proof.
  intros w0 w H. unfold Fsm.unsolicited_events_service.
  destruct (u_state (u (st w)));
    first [ apply format_read_args_q; exact H
          | apply process_rt_loop_q; exact H
          | apply unsolicited_process_io_write_q; exact H
          | qgo ].
Qed.

Lemma cmd_service_q : forall w0 w, quiet w0 w -> qres w0 (cmd_service w).
Proof.
  intros w0 w H. unfold Fsm.cmd_service.
  destruct (k_state (k (st w)));
    first [ apply reading_q; exact H
          | apply parse_write_args_q; exact H
          | apply format_read_args_q; exact H
          | apply process_write_loop_q; exact H
          | apply process_run_loop_q; exact H
          | apply process_rt_loop_q; exact H
          | apply process_io_write_q; exact H
          | qgo ].
Qed.

Lemma service_body_q : forall w0 w, quiet w0 w -> qres w0 (service_body w).
Proof.
  intros w0 w H. unfold Fsm.service_body.
  pose proof (unsolicited_events_service_q w0 w H) as U.
  destruct (unsolicited_events_service w) as [w1 us]. destruct U as [U1 U2]. cbn [fst snd] in U1, U2.
  pose proof (cmd_service_q w0 w1 U1) as C.
  destruct (cmd_service w1) as [w2 s]. destruct C as [C1 C2]. cbn [fst snd] in C1, C2.
  destruct (negb (us =? ST_OK)%Z || negb (ustate_beq (u_state (u (st w2))) US_IDLE)).
  - qs.
  - split; assumption.
Qed.

(* ------------------------------------------------------------------ *)
(* the bodies of the six locking operations                             *)
(* ------------------------------------------------------------------ *)

Definition op_body (o : op) : world -> world * Z :=
  match o with
  | OService => service_body
  | OTrigger ci t => fun w => let (s', r) := push_unsolicited_cmd D (st w) ci t in (set_st s' w, r)
  | OHoldExit status => fun w => let (s', r) := hold_exit (st w) status in (set_st s' w, r)
  | OIsBusy => fun w => (w, is_busy (st w))
  | OIsHold => fun w => (w, is_hold (st w))
  | OIsFull => fun w => (w, if ring_full D (st w) then ST_BUFFER_FULL else ST_OK)
  | _ => fun w => (w, 0%Z)
  end.

Lemma do_op_bracket : forall w o, locking_op o = true -> do_op w o = bracket w (op_body o).
Proof. intros w o H. destruct o; try discriminate H; reflexivity. Qed.

Definition goodst (r : Z) : Prop := r <> ST_MUTEX_UNLOCK /\ r <> ST_MUTEX_LOCK.

Lemma okb_goodst : forall r, okb r -> goodst r.
Proof. intros r [H|H]; rewrite H; split; discriminate. Qed.

Lemma op_body_q : forall w0 w o, locking_op o = true -> quiet w0 w ->
  quiet w0 (fst (op_body o w)) /\ goodst (snd (op_body o w)).
Proof.
  intros w0 w o L H. destruct o; try discriminate L; cbn [op_body].
  - destruct (service_body_q w0 w H) as [A B]. split; [exact A | apply okb_goodst; exact B].
  - unfold push_unsolicited_cmd. destruct (ring_full D (st w)); cbn [fst snd].
    + split; [qs | split; discriminate].
    + split; [qs | split; discriminate].
  - unfold hold_exit. destruct (negb (k_hold (k (st w)))); cbn [fst snd].
    + split; [qs | split; discriminate].
    + split; [qs | split; discriminate].
  - cbn [fst snd]. split; [qs|]. unfold is_busy.
    destruct (negb (cstate_beq (k_state (k (st w))) CS_IDLE)
              || negb (ustate_beq (u_state (u (st w))) US_IDLE)); split; discriminate.
  - cbn [fst snd]. split; [qs|]. unfold is_hold.
    destruct (k_hold (k (st w))); split; discriminate.
  - cbn [fst snd]. split; [qs|]. destruct (ring_full D (st w)); split; discriminate.
Qed.

(* ------------------------------------------------------------------ *)
(* theorems 2, 3, 4                                                     *)
(* ------------------------------------------------------------------ *)

Theorem C16_lock_failure : forall w o, d_mutex D = true -> locking_op o = true ->
  snd (mu_lock (mu w)) = false ->
  let (w', r) := do_op w o in
  r = ST_MUTEX_LOCK /\ st w' = st w /\ io w' = io w /\ hs w' = hs w /\
  tr w' = ELock false :: tr w /\ mu w' = fst (mu_lock (mu w)).
Proof.
  intros w o M L F. rewrite (do_op_bracket w o L).
  pose proof (C16_bracket w (op_body o) M) as B.
  destruct (mu_lock (mu w)) as [m1 ok]. cbn [snd] in F. subst ok.
  rewrite B. cbn. repeat split; reflexivity.
Qed.

Theorem C16_lock_success : forall w o, d_mutex D = true -> locking_op o = true ->
  snd (mu_lock (mu w)) = true ->
  let (w', r) := do_op w o in
  exists body ok2, tr w' = EUnlock ok2 :: body ++ ELock true :: tr w /\
                   forallb (fun e => negb (is_lock_ev e)) body = true /\
                   (ok2 = false -> r = ST_MUTEX_UNLOCK) /\
                   (ok2 = true -> r <> ST_MUTEX_UNLOCK /\ r <> ST_MUTEX_LOCK).
Proof.
  intros w o M L F. rewrite (do_op_bracket w o L).
  pose proof (C16_bracket w (op_body o) M) as B.
  destruct (mu_lock (mu w)) as [m1 ok]. cbn [snd] in F. subst ok.
  cbv zeta in B.
  pose proof (op_body_q _ (logw (ELock true) (set_mu m1 w)) o L (quiet_refl _)) as Q.
  destruct (op_body o (logw (ELock true) (set_mu m1 w))) as [w2 s].
  cbn [fst snd] in Q. destruct Q as [[Qm [evs [Qt Qn]]] Qs].
  destruct (mu_unlock (mu w2)) as [m2 ok2]. rewrite B.
  exists evs, ok2. split; [|split; [|split]].
  - cbn [Fsm.logw Fsm.set_mu Fsm.tr]. rewrite Qt. reflexivity.
  - exact Qn.
  - intros E. rewrite E. reflexivity.
  - intros E. rewrite E. exact Qs.
Qed.

Lemma do_op_nonlocking_q : forall w o, locking_op o = false -> quiet w (fst (do_op w o)).
Proof. intros w o L. destruct o; try discriminate L; cbn [Fsm.do_op fst]; qs. Qed.

Theorem C16_nonlocking : forall w o, locking_op o = false ->
  mu (fst (do_op w o)) = mu w /\
  exists evs, tr (fst (do_op w o)) = evs ++ tr w /\
              forallb (fun e => negb (is_lock_ev e)) evs = true.
Proof. intros w o L. exact (do_op_nonlocking_q w o L). Qed.

(* for these operations nothing at all is logged *)
Lemma C16_nonlocking_tr : forall w o, locking_op o = false -> tr (fst (do_op w o)) = tr w.
Proof. intros w o L. destruct o; try discriminate L; reflexivity. Qed.

(* without a mutex every operation is quiet *)
Lemma do_op_nomutex_q : forall w o, d_mutex D = false -> quiet w (fst (do_op w o)).
Proof.
  intros w o M. destruct (locking_op o) eqn:L.
  - rewrite (do_op_bracket w o L), (bracket_nomutex _ _ M).
    exact (proj1 (op_body_q w w o L (quiet_refl w))).
  - apply do_op_nonlocking_q; exact L.
Qed.

(* ------------------------------------------------------------------ *)
(* theorem 5: whole histories                                           *)
(* ------------------------------------------------------------------ *)

(* every completed operation leaves the discipline automaton in state "not held" *)
Definition linv (w : world) : Prop := lk_end false (locks (rev (tr w))) = Some false.

Lemma locks_rev_quiet : forall w w', quiet w w' -> locks (rev (tr w')) = locks (rev (tr w)).
Proof.
  intros w w' [_ [evs [T Nl]]]. rewrite T, rev_app_distr, locks_app.
  rewrite (nolock_locks_rev evs Nl). apply app_nil_r.
Qed.

Lemma locks_rev_cons : forall e t, locks (rev (e :: t)) = locks (rev t) ++ lock_of e.
Proof. intros e t. cbn [rev]. rewrite locks_app. cbn [locks flat_map]. rewrite app_nil_r. reflexivity. Qed.

Lemma do_op_linv : forall w o, linv w -> linv (fst (do_op w o)).
Proof.
  intros w o I. unfold linv in *.
  destruct (Bool.bool_dec (d_mutex D) true) as [M|M];
    [destruct (locking_op o) eqn:L | apply not_true_is_false in M].
  - destruct (snd (mu_lock (mu w))) eqn:F.
    + pose proof (C16_lock_success w o M L F) as S.
      destruct (do_op w o) as [w' r]. destruct S as [body [ok2 [T [Nl _]]]]. cbn [fst].
      rewrite T. rewrite locks_rev_cons. rewrite rev_app_distr. cbn [rev].
      rewrite !locks_app. rewrite (nolock_locks_rev body Nl).
      cbn [locks flat_map lock_of]. rewrite !app_nil_r, <- app_assoc.
      apply (lk_end_bracket _ ok2 I).
    + pose proof (C16_lock_failure w o M L F) as S.
      destruct (do_op w o) as [w' r]. destruct S as [_ [_ [_ [_ [T _]]]]]. cbn [fst].
      rewrite T, locks_rev_cons. cbn [lock_of]. apply (lk_end_failed_lock _ I).
  - rewrite (locks_rev_quiet w _ (do_op_nonlocking_q w o L)). exact I.
  - rewrite (locks_rev_quiet w _ (do_op_nomutex_q w o M)). exact I.
Qed.

Lemma step_tr : forall w o, tr (step w o) = ERet o (snd (do_op w o)) :: tr (fst (do_op w o)).
Proof. intros w o. unfold Fsm.step. destruct (do_op w o) as [w' r]. reflexivity. Qed.

Lemma step_linv : forall w o, linv w -> linv (step w o).
Proof.
  intros w o I. unfold linv. rewrite step_tr, locks_rev_cons. cbn [lock_of].
  rewrite app_nil_r. apply do_op_linv. exact I.
Qed.

Lemma run_linv : forall ops w, linv w -> linv (run w ops).
Proof.
  induction ops as [|o ops IH]; intros w I.
  - exact I.
  - unfold Fsm.run. cbn [fold_left]. apply IH. apply step_linv. exact I.
Qed.

Theorem C16_history : forall m x mx h ops,
  locks_ok false (locks (hist (run (mkWorld (init_state D m) x mx h []) ops))) = true.
Proof.
  intros m x mx h ops. unfold TraceDefs.hist.
  apply lk_end_ok with (b := false). apply run_linv. reflexivity.
Qed.

(* the stronger fact actually proved: after every complete run the bracket is closed *)
Theorem C16_history_closed : forall m x mx h ops,
  lk_end false (locks (hist (run (mkWorld (init_state D m) x mx h []) ops))) = Some false.
Proof. intros m x mx h ops. unfold TraceDefs.hist. apply run_linv. reflexivity. Qed.

(* no mutex configured: no lock event is ever logged *)
Lemma step_nomutex_locks : forall w o, d_mutex D = false ->
  locks (rev (tr (step w o))) = locks (rev (tr w)).
Proof.
  intros w o M. rewrite step_tr, locks_rev_cons. cbn [lock_of]. rewrite app_nil_r.
  apply locks_rev_quiet. apply do_op_nomutex_q. exact M.
Qed.

Lemma run_nomutex_locks : forall ops w, d_mutex D = false ->
  locks (rev (tr (run w ops))) = locks (rev (tr w)).
Proof.
  induction ops as [|o ops IH]; intros w M.
  - reflexivity.
  - unfold Fsm.run. cbn [fold_left]. unfold Fsm.run in IH. rewrite (IH _ M).
    apply step_nomutex_locks. exact M.
Qed.

Theorem C16_no_mutex_no_events : forall m x mx h ops, d_mutex D = false ->
  locks (hist (run (mkWorld (init_state D m) x mx h []) ops)) = [].
Proof.
  intros m x mx h ops M. unfold TraceDefs.hist. rewrite (run_nomutex_locks ops _ M). reflexivity.
Qed.

End C16.

(* when no mutex is configured the hypothesis no_inner is vacuous: the statement holds for
   arbitrary handlers, inner calls included *)
Theorem C16_no_mutex_no_events_any_handler :
  forall (D : desc) (ioS muS hS : Type) (io_read : ioS -> ioS * option N)
         (io_write : ioS -> N -> ioS * bool) (mu_lock mu_unlock : muS -> muS * bool)
         (h_call : hS -> hreq -> hS * hres) m x mx h ops,
  d_mutex D = false ->
  locks (hist ioS muS hS (run D ioS muS hS io_read io_write mu_lock mu_unlock h_call
                              (mkWorld ioS muS hS (init_state D m) x mx h []) ops)) = [].
Proof.
  intros D ioS muS hS io_read io_write mu_lock mu_unlock h_call m x mx h ops M.
  apply C16_no_mutex_no_events; [|exact M].
  intros T. rewrite M in T. discriminate T.
Qed.
