(* Properties_C06r.v — property C06, read handlers of commands WITH readable variables: "read handlers
   receive the text formatted so far, its length and the true capacity".

   C06_rt_handler_args (Properties_C06.v) says the handler gets the buffer up to the cursor; C07_read_response
   (Properties_C07e.v) describes the automatic text but only for commands WITHOUT a read handler.  Here: a
   command c with a read handler (c_hread c = true) whose READ is served from its variables
   (vars_access_possible c RO = true: some variable is RW or RO; then EVERY variable is formatted, a
   write-only one as 0 / 00.. / "" — that is Spec.var_text, see the Examples).  From the service call that runs
   start_processing_format_read_args (CS_COMMAND_FOUND of a READ line, CS_AFTER_FMT_READ after a unit, and
   on the event machine the pop of a READ event / US_AFTER_FMT_READ), one service call per variable:

     * the machine reaches its READ_LOOP state and the next step calls the read handler exactly once with
           text = name ++ "=" ++ text_1 ++ "," ++ ... ++ "," ++ text_N ++ NUL     (text_i = Spec.var_text)
           pos  = length of that text (without the NUL)
           cap  = length of THAT machine's buffer (cbuf for the command machine, ubuf for the event machine)
       when length text < cap;
     * otherwise (text does not fit, or a numeric variable has an unsupported width: read_args_text = None)
       the handler is NOT called: the command machine starts the ERROR result code, the event machine drops
       the event (u_state = US_IDLE, u_cmd = None) — never a truncated text.

   Theorems 1/2: no variable has a read callback; memory, trace, oracle states untouched before the handler.
   Theorem 3: variables with read callbacks (VRead): each is called exactly once, in variable order, before
   its variable is formatted and before the handler; its stores (r_pokes) are visible in the text; described
   by the function rd_spec of the handler oracle.  A callback answering non-zero aborts (C10_var_read_fails).
   Hypothesis of 3: the callbacks make no inner API calls (r_calls = []).
   Arbitrary oracles, ANY world (no reachability assumption).  Both machines: the proofs are parametric in f.
   Proofs: Lemmas_C06r.v.

   Definitions (Lemmas_C06r.v), repeated for the reader:
     rd_var_ok m v  :=  exists data, nth_error m (v_slot v) = Some data /\ v_size v <= length data /\
                        (v_type v = VBufHex -> 0 < v_size v)
     no_vread c     :=  Forall (fun v => v_hread v = false) (c_vars c)
     in_fra f s     :=  machine f is in CS_FORMAT_READ_ARGS / US_FORMAT_READ_ARGS
     rd_failed f bsz s := ATCMD: k_state = CS_FLUSH_WAIT /\ k_wafter = CS_AFTER_RESET /\ (6 <= bsz -> text_of cbuf = ERROR)
                          UNSOL: u_state = US_IDLE /\ u_cmd = None
     gfra_step f w  :=  fst (format_read_args D .. f w)
     gfra_run f n w :=  n steps while in_fra f
     gread_response f c w := gfra_run f (length (c_vars c)) (upd_st (start_processing_format_read_args D f) w)
     read_args_text m c (Lemmas_C07e) := join_comma of var_text v (slot of v), None if some text is None
     rd_spec, vread_reqs: see the checked equations below. *)
From Coq Require Import List NArith ZArith Bool Arith.
From CatV Require Import Bytes Defs Codec Spec Fsm Script ResolveDefs SchedDefs GlueDefs TextDefs RespDefs.
From CatV Require Lemmas_C07e Lemmas_C10 Lemmas_E2E Lemmas_E2Ec Lemmas_C06r.
Import ListNotations.
Local Open Scope nat_scope.

Local Notation rd_var_ok := Lemmas_C06r.rd_var_ok.
Local Notation no_vread := Lemmas_C06r.no_vread.
Local Notation in_fra := Lemmas_C06r.in_fra.
Local Notation rd_failed := Lemmas_C06r.rd_failed.
Local Notation nocall := Lemmas_C06r.nocall.
Local Notation ecall := Lemmas_C06r.ecall.
Local Notation read_args_text := Lemmas_C07e.read_args_text.
Local Notation slot_text := Lemmas_C07e.slot_text.
Local Notation in_rt_loop := Lemmas_C10.in_rt_loop.
Local Notation pokes_mem := Lemmas_E2Ec.P3.pokes_mem.

Section C06r.
Variable D : desc.
Variables ioS muS hS : Type.
Variable mu_lock : muS -> muS * bool.
Variable mu_unlock : muS -> muS * bool.
Variable h_call : hS -> hreq -> hS * hres.

Local Notation world := (Fsm.world ioS muS hS).
Local Notation st := (Fsm.st ioS muS hS).
Local Notation tr := (Fsm.tr ioS muS hS).
Local Notation hs := (Fsm.hs ioS muS hS).
Local Notation io := (Fsm.io ioS muS hS).
Local Notation mu := (Fsm.mu ioS muS hS).
Local Notation process_rt_loop := (Fsm.process_rt_loop D ioS muS hS mu_lock mu_unlock h_call).
Local Notation gread_response := (Lemmas_C06r.gread_response D ioS muS hS mu_lock mu_unlock h_call).
Local Notation read_response := (Lemmas_C07e.read_response D ioS muS hS mu_lock mu_unlock h_call).
Local Notation rd_spec := (Lemmas_C06r.rd_spec hS h_call).
Local Notation vread_reqs := Lemmas_C06r.vread_reqs.

(* the checked equations of the run functions and of the callback specification *)
Example def_gread_response : forall f c w,
  gread_response f c w =
  Lemmas_C06r.gfra_run D ioS muS hS mu_lock mu_unlock h_call f (length (c_vars c))
    (Fsm.upd_st ioS muS hS (start_processing_format_read_args D f) w).
Proof. reflexivity. Qed.
Example def_gfra_run : forall f n w,
  Lemmas_C06r.gfra_run D ioS muS hS mu_lock mu_unlock h_call f 0 w = w /\
  Lemmas_C06r.gfra_run D ioS muS hS mu_lock mu_unlock h_call f (S n) w =
    if in_fra f (st w)
    then Lemmas_C06r.gfra_run D ioS muS hS mu_lock mu_unlock h_call f n
           (fst (format_read_args D ioS muS hS mu_lock mu_unlock h_call f w))
    else w.
Proof. split; reflexivity. Qed.
(* on the command machine gread_response is the read_response of Properties_C07e *)
Example def_gread_response_c : forall c w, gread_response ATCMD c w = read_response c w.
Proof. exact (Lemmas_C06r.gread_response_c D ioS muS hS mu_lock mu_unlock h_call). Qed.
(* the variables vs (numbered from vi), in order: a variable with a read callback first has it called
   (handler state advanced, its stores applied, a non-zero answer stops everything); then its text is taken
   from the memory as it is at that moment.  Result: handler state, memory, callback calls oldest first,
   the texts (None: stopped) *)
Example def_rd_spec : forall f ci v r vi h m,
  rd_spec f ci [] vi h m = (h, m, [], Some []) /\
  rd_spec f ci (v :: r) vi h m =
    let '(h1, m1, cl1, ok) :=
      if v_hread v then
        let (h', res) := h_call h (VRead f ci vi) in
        (h', pokes_mem (r_pokes res) m, [(VRead f ci vi, r_code res)], (r_code res =? 0)%Z)
      else (h, m, [], true) in
    if ok then
      match slot_text m1 v with
      | Some t =>
        let '(h2, m2, cl2, ts) := rd_spec f ci r (S vi) h1 m1 in
        (h2, m2, cl1 ++ cl2, match ts with Some l => Some (t :: l) | None => None end)
      | None => (h1, m1, cl1, None)
      end
    else (h1, m1, cl1, None).
Proof. split; reflexivity. Qed.
Example def_vread_reqs : forall f ci v r vi,
  vread_reqs f ci [] vi = [] /\
  vread_reqs f ci (v :: r) vi = (if v_hread v then [VRead f ci vi] else []) ++ vread_reqs f ci r (S vi).
Proof. split; reflexivity. Qed.

(* 1. the command machine, no variable callbacks; read_response as in C07_read_response *)
Theorem C06_read_handler_text : forall (w : world) ci c,
  k_cmd (k (st w)) = Some ci -> cmd_at D ci = Some c -> fault (st w) = false ->
  c_hread c = true -> vars_access_possible c RO = true -> no_vread c ->
  Forall (rd_var_ok (mem (st w))) (c_vars c) ->
  let bsz := length (cbuf (st w)) in
  let w' := read_response c w in
  mem (st w') = mem (st w) /\ tr w' = tr w /\ hs w' = hs w /\ io w' = io w /\ mu w' = mu w /\
  fault (st w') = false /\
  match read_args_text (mem (st w)) c with
  | Some args =>
    let txt := c_name c ++ [ch_EQ] ++ args in
    if length txt <? bsz then
      k_state (k (st w')) = CS_READ_LOOP /\ k_cmd (k (st w')) = Some ci /\
      firstn (S (length txt)) (cbuf (st w')) = txt ++ [0%N] /\ k_position (k (st w')) = length txt /\
      length (cbuf (st w')) = bsz /\
      exists code rest,
        tr (fst (process_rt_loop true ATCMD w')) =
          rest ++ ECall (HRead ATCMD ci (txt ++ [0%N]) (length txt) bsz) code :: tr w /\
        nocall rest = true
    else k_state (k (st w')) = CS_FLUSH_WAIT /\ k_wafter (k (st w')) = CS_AFTER_RESET /\
         (6 <= bsz -> text_of (cbuf (st w')) = txt_ERROR)
  | None => k_state (k (st w')) = CS_FLUSH_WAIT /\ k_wafter (k (st w')) = CS_AFTER_RESET /\
            (6 <= bsz -> text_of (cbuf (st w')) = txt_ERROR)
  end.
Proof. exact (Lemmas_C06r.C06_read_handler_text_proof D ioS muS hS mu_lock mu_unlock h_call). Qed.

(* 2. either machine, no variable callbacks: f = ATCMD is 1.; f = UNSOL is a READ event (text in ubuf,
      capacity of ubuf; no result code: a text that does not fit drops the event) *)
Theorem C06_read_handler_text_g : forall f (w : world) ci c,
  g_cmd f (st w) = Some ci -> cmd_at D ci = Some c -> fault (st w) = false ->
  c_hread c = true -> vars_access_possible c RO = true -> no_vread c ->
  Forall (rd_var_ok (mem (st w))) (c_vars c) ->
  let bsz := length (g_buf f (st w)) in
  let w' := gread_response f c w in
  mem (st w') = mem (st w) /\ tr w' = tr w /\ hs w' = hs w /\ io w' = io w /\ mu w' = mu w /\
  fault (st w') = false /\
  match read_args_text (mem (st w)) c with
  | Some args =>
    let txt := c_name c ++ [ch_EQ] ++ args in
    if length txt <? bsz then
      in_rt_loop true f (st w') /\ g_cmd f (st w') = Some ci /\
      firstn (S (length txt)) (g_buf f (st w')) = txt ++ [0%N] /\ g_pos f (st w') = length txt /\
      length (g_buf f (st w')) = bsz /\
      exists code rest,
        tr (fst (process_rt_loop true f w')) =
          rest ++ ECall (HRead f ci (txt ++ [0%N]) (length txt) bsz) code :: tr w /\
        nocall rest = true
    else in_fra f (st w') = false /\ ~ in_rt_loop true f (st w') /\ rd_failed f bsz (st w')
  | None => in_fra f (st w') = false /\ ~ in_rt_loop true f (st w') /\ rd_failed f bsz (st w')
  end.
Proof. exact (Lemmas_C06r.C06_read_handler_text_g_proof D ioS muS hS mu_lock mu_unlock h_call). Qed.

(* 3. either machine, variables with read callbacks: the callbacks are exactly cl (one per variable that has
      one, in order: vread_reqs; all answered 0), they come before the handler call in the trace, the
      handler oracle and the memory are where rd_spec says, and the handler's text is made of the values
      the variables hold when they are formatted (after their own callback's stores) *)
Theorem C06_read_handler_text_cb : forall f (w : world) ci c h' m' cl txts,
  g_cmd f (st w) = Some ci -> cmd_at D ci = Some c -> fault (st w) = false ->
  c_hread c = true -> vars_access_possible c RO = true ->
  (forall h vi v, nth_error (c_vars c) vi = Some v -> v_hread v = true ->
     r_calls (snd (h_call h (VRead f ci vi))) = []) ->
  Forall (rd_var_ok (mem (st w))) (c_vars c) ->
  rd_spec f ci (c_vars c) 0 (hs w) (mem (st w)) = (h', m', cl, Some txts) ->
  let txt := c_name c ++ [ch_EQ] ++ join_comma txts in
  let bsz := length (g_buf f (st w)) in
  length txt < bsz ->
  let w' := gread_response f c w in
  hs w' = h' /\ mem (st w') = m' /\ tr w' = rev (map ecall cl) ++ tr w /\ io w' = io w /\ mu w' = mu w /\
  fault (st w') = false /\
  map fst cl = vread_reqs f ci (c_vars c) 0 /\ Forall (fun p => snd p = 0%Z) cl /\
  length txts = length (c_vars c) /\
  in_rt_loop true f (st w') /\ g_cmd f (st w') = Some ci /\
  firstn (S (length txt)) (g_buf f (st w')) = txt ++ [0%N] /\ g_pos f (st w') = length txt /\
  length (g_buf f (st w')) = bsz /\
  exists code rest,
    tr (fst (process_rt_loop true f w')) =
      rest ++ ECall (HRead f ci (txt ++ [0%N]) (length txt) bsz) code :: tr w' /\
    nocall rest = true.
Proof. exact (Lemmas_C06r.C06_read_handler_text_cb_proof D ioS muS hS mu_lock mu_unlock h_call). Qed.

(* 3a. without callbacks rd_spec calls nothing, moves nothing, and its texts are those of read_args_text *)
Theorem rd_spec_plain : forall f ci vs vi h m, Forall (fun v => v_hread v = false) vs ->
  rd_spec f ci vs vi h m = (h, m, [], all_some (map (slot_text m) vs)).
Proof. exact (Lemmas_C06r.rd_spec_plain hS h_call). Qed.

End C06r.

Print Assumptions C06_read_handler_text.
Print Assumptions C06_read_handler_text_g.
Print Assumptions C06_read_handler_text_cb.
Print Assumptions rd_spec_plain.

(* ---------- non-vacuity: command +R with a read handler and five variables ----------
   int16 RW, string[4] RO, uint8 WO, hexbuf[2] WO, string[4] WO;  memory: -2, "A", 200, 0A FF, "zz" *)
Module C06r_examples.
Definition v1 := mkVar None VInt 2 RW false false 0.
Definition v2 := mkVar None VBufStr 4 RO false false 1.
Definition v3 := mkVar None VUint 1 WO false false 2.
Definition v4 := mkVar None VBufHex 2 WO false false 3.
Definition v5 := mkVar None VBufStr 4 WO false false 4.
Definition c0 := mkCmd [43; 82]%N None false true false false [v1; v2; v3; v4; v5] false false false.
Definition D0 := mkDesc [[c0]] [] 40 (Some 30) 85%N 2 false.
Definition m0 : list (list N) := [[254; 255]; [65; 0; 7; 7]; [200]; [10; 255]; [122; 122; 0; 0]]%N.
(* the text  +R= -2 , "A" , 0 , 0000 , ""   (19 characters) *)
Definition txt0 : list N :=
  [43; 82; 61; 45; 50; 44; 34; 65; 34; 44; 48; 44; 48; 48; 48; 48; 44; 34; 34]%N.

(* write-only variables print 0 / 00.. / "" whatever they hold: that is Spec.var_text *)
Example ex_var_texts :
  map (fun v => Lemmas_C07e.slot_text m0 v) [v1; v2; v3; v4; v5] =
  [Some [45; 50]; Some [34; 65; 34]; Some [48]; Some [48; 48; 48; 48]; Some [34; 34]]%N /\
  read_args_text m0 c0 = Some (skipn 3 txt0) /\ length txt0 = 19.
Proof. vm_compute. repeat split; reflexivity. Qed.

(* an oracle that counts its calls (it would be visible if consulted earlier) and answers OK *)
Definition hc (h : nat) (q : hreq) : nat * hres := (S h, mkHres RC_OK None [] []).
Definition lk (u : unit) : unit * bool := (tt, true).
Definition base (cb ub : nat) (m : list (list N)) : state :=
  mkState init_cfsm (init_ufsm D0) (repeat 85%N cb) (repeat 85%N ub) m [false] [false] false 0 0 0.
Definition wC (cb : nat) : Fsm.world unit unit nat :=
  mkWorld unit unit nat (setk_cmd (Some 0) (base cb 30 m0)) tt tt 0 [].
Definition wU (ub : nat) : Fsm.world unit unit nat :=
  mkWorld unit unit nat (setu_cmd (Some 0) (base 40 ub m0)) tt tt 0 [].
Definition rrC (cb : nat) := Lemmas_C07e.read_response D0 unit unit nat lk lk hc c0 (wC cb).
Definition rrU (ub : nat) := Lemmas_C06r.gread_response D0 unit unit nat lk lk hc UNSOL c0 (wU ub).
Definition nextC (w : Fsm.world unit unit nat) := fst (process_rt_loop D0 unit unit nat lk lk hc true ATCMD w).
Definition nextU (w : Fsm.world unit unit nat) := fst (process_rt_loop D0 unit unit nat lk lk hc true UNSOL w).

Example ex_hyps :
  cmd_at D0 0 = Some c0 /\ c_hread c0 = true /\ vars_access_possible c0 RO = true /\ no_vread c0 /\
  Forall (rd_var_ok m0) (c_vars c0).
Proof.
  split; [reflexivity|]. split; [reflexivity|]. split; [reflexivity|]. split.
  - repeat constructor.
  - repeat constructor; eexists; (split; [reflexivity|]); (split; [cbn; auto 10|]); intros; try discriminate; cbn; auto.
Qed.

(* command machine, 20-byte buffer (the smallest that fits): READ_LOOP, nothing called yet; the next step
   calls the handler with the 19 characters, NUL, 19, 20 *)
Example ex_cmd_fits :
  k_state (k (st _ _ _ (rrC 20))) = CS_READ_LOOP /\ tr _ _ _ (rrC 20) = [] /\ hs _ _ _ (rrC 20) = 0 /\
  tr _ _ _ (nextC (rrC 20)) = [ECall (HRead ATCMD 0 (txt0 ++ [0%N]) 19 20) RC_OK].
Proof. vm_compute. repeat split; reflexivity. Qed.
(* one byte less: ERROR, the handler is not asked *)
Example ex_cmd_too_long :
  k_state (k (st _ _ _ (rrC 19))) = CS_FLUSH_WAIT /\ k_wafter (k (st _ _ _ (rrC 19))) = CS_AFTER_RESET /\
  text_of (cbuf (st _ _ _ (rrC 19))) = txt_ERROR /\ tr _ _ _ (rrC 19) = [] /\ hs _ _ _ (rrC 19) = 0.
Proof. vm_compute. repeat split; reflexivity. Qed.
(* event machine: text in ubuf, capacity of ubuf (30), the command buffer (40) plays no role *)
Example ex_uns_fits :
  u_state (u (st _ _ _ (rrU 30))) = US_READ_LOOP /\ tr _ _ _ (rrU 30) = [] /\
  tr _ _ _ (nextU (rrU 30)) = [ECall (HRead UNSOL 0 (txt0 ++ [0%N]) 19 30) RC_OK] /\
  cbuf (st _ _ _ (rrU 30)) = repeat 85%N 40.
Proof. vm_compute. repeat split; reflexivity. Qed.
Example ex_uns_too_long :
  u_state (u (st _ _ _ (rrU 19))) = US_IDLE /\ u_cmd (u (st _ _ _ (rrU 19))) = None /\ tr _ _ _ (rrU 19) = [].
Proof. vm_compute. repeat split; reflexivity. Qed.

(* the general theorem applied to the instance *)
Example ex_apply :
  exists code rest,
    tr _ _ _ (nextC (rrC 20)) = rest ++ ECall (HRead ATCMD 0 (txt0 ++ [0%N]) 19 20) code :: [] /\
    nocall rest = true.
Proof.
  destruct ex_hyps as (H1 & H2 & H3 & H4 & H5).
  pose proof (C06_read_handler_text D0 unit unit nat lk lk hc (wC 20) 0 c0 eq_refl H1 eq_refl H2 H3 H4 H5) as H.
  cbv zeta in H. destruct H as (_ & _ & _ & _ & _ & _ & H).
  change (read_args_text (mem (st _ _ _ (wC 20))) c0) with (Some (skipn 3 txt0)) in H.
  cbv zeta in H.
  change (length (c_name c0 ++ [ch_EQ] ++ skipn 3 txt0) <? length (cbuf (st _ _ _ (wC 20)))) with true in H.
  destruct H as (_ & _ & _ & _ & _ & H). exact H.
Qed.

(* ---- read callbacks: +S, int16 RW with a callback that stores 7 into it, uint8 RW without, string RO
        with a callback that changes nothing; the oracle counts its calls ---- *)
Definition u1 := mkVar None VInt 2 RW true false 0.
Definition u2 := mkVar None VUint 1 RW false false 2.
Definition u3 := mkVar None VBufStr 4 RO true false 1.
Definition c1 := mkCmd [43; 83]%N None false true false false [u1; u2; u3] false false false.
Definition D1 := mkDesc [[c1]] [] 40 (Some 30) 85%N 2 false.
Definition hc1 (h : nat) (q : hreq) : nat * hres :=
  (S h, match q with
        | VRead _ _ 0 => mkHres 0 None [(0, [7; 0]%N)] []
        | VRead _ _ _ => mkHres 0 None [] []
        | _ => mkHres RC_OK None [] []
        end).
Definition w1 : Fsm.world unit unit nat :=
  mkWorld unit unit nat
    (setk_cmd (Some 0) (mkState init_cfsm (init_ufsm D1) (repeat 85%N 40) (repeat 85%N 30) m0 [false] [false] false 0 0 0))
    tt tt 0 [].
Definition rr1 := Lemmas_C06r.gread_response D1 unit unit nat lk lk hc1 ATCMD c1 w1.
(* +S=7,200,"A" *)
Definition txt1 : list N := [43; 83; 61; 55; 44; 50; 48; 48; 44; 34; 65; 34]%N.

Example ex_cb_spec :
  Lemmas_C06r.rd_spec nat hc1 ATCMD 0 (c_vars c1) 0 0 m0 =
    (2, [[7; 0]; [65; 0; 7; 7]; [200]; [10; 255]; [122; 122; 0; 0]]%N,
     [(VRead ATCMD 0 0, 0%Z); (VRead ATCMD 0 2, 0%Z)],
     Some [[55]; [50; 48; 48]; [34; 65; 34]]%N).
Proof. vm_compute. reflexivity. Qed.

(* the run: the two callbacks, oldest first variable 0 then variable 2, then the handler on the NEW value *)
Example ex_cb_run :
  k_state (k (st _ _ _ rr1)) = CS_READ_LOOP /\ hs _ _ _ rr1 = 2 /\
  tr _ _ _ rr1 = [ECall (VRead ATCMD 0 2) 0; ECall (VRead ATCMD 0 0) 0] /\
  tr _ _ _ (fst (process_rt_loop D1 unit unit nat lk lk hc1 true ATCMD rr1)) =
    [ECall (HRead ATCMD 0 (txt1 ++ [0%N]) 12 40) RC_OK; ECall (VRead ATCMD 0 2) 0; ECall (VRead ATCMD 0 0) 0].
Proof. vm_compute. repeat split; reflexivity. Qed.

Example ex_cb_apply :
  tr _ _ _ rr1 = rev (map ecall [(VRead ATCMD 0 0, 0%Z); (VRead ATCMD 0 2, 0%Z)]) ++ [] /\
  exists code rest,
    tr _ _ _ (fst (process_rt_loop D1 unit unit nat lk lk hc1 true ATCMD rr1)) =
      rest ++ ECall (HRead ATCMD 0 (txt1 ++ [0%N]) 12 40) code :: tr _ _ _ rr1 /\ nocall rest = true.
Proof.
  assert (Hok : Forall (rd_var_ok m0) (c_vars c1)).
  { repeat constructor; eexists; (split; [reflexivity|]); (split; [cbn; auto 10|]); intros; discriminate. }
  assert (Hq : forall h vi v, nth_error (c_vars c1) vi = Some v -> v_hread v = true ->
                 r_calls (snd (hc1 h (VRead ATCMD 0 vi))) = []).
  { intros h [|[|[|vi]]] v _ _; reflexivity. }
  pose proof (C06_read_handler_text_cb D1 unit unit nat lk lk hc1 ATCMD w1 0 c1 _ _ _ _
                eq_refl eq_refl eq_refl eq_refl eq_refl Hq Hok ex_cb_spec) as H.
  cbv zeta in H. specialize (H ltac:(apply Nat.ltb_lt; reflexivity)).
  destruct H as (_ & _ & A & _ & _ & _ & _ & _ & _ & _ & _ & _ & _ & _ & B).
  split; [exact A | exact B].
Qed.

(* the hypothesis on hex buffers is needed: an empty one after a comma leaves the text without its NUL
   (the fill byte 85 shows through in what the handler is given) *)
Definition vz := mkVar None VBufHex 0 RW false false 3.
Definition cz := mkCmd [88]%N None false true false false [v3; vz] false false false.
Definition Dz := mkDesc [[cz]] [] 40 (Some 30) 85%N 2 false.
Example ex_empty_hexbuf :
  let w := Lemmas_C07e.read_response Dz unit unit nat lk lk hc cz
             (mkWorld unit unit nat (setk_cmd (Some 0) (base 8 30 m0)) tt tt 0 []) in
  read_args_text m0 cz = Some [48; 44]%N /\
  tr _ _ _ (fst (process_rt_loop Dz unit unit nat lk lk hc true ATCMD w)) =
    [ECall (HRead ATCMD 0 [88; 61; 48; 44; 85]%N 4 8) RC_OK].
Proof. vm_compute. split; reflexivity. Qed.
End C06r_examples.

(* ====================================================================================== *)
(* 4. END TO END: the BYTES of a whole READ line  AT<name>? LF  of a command with readable variables AND a
   read handler, on the scripted always-ready world of Script.v (event machine idle with an empty queue, no
   mutex; cf. E2E_read_handler_line in Properties_C10e.v for a command WITHOUT readable variables, where the
   fresh text is always `name=`).  The handler's script answers rs ++ [rn] (rs continue: DATA_NEXT / NEXT; rn
   ends, not HOLD; no inner API calls; stores r_pokes and edits r_edit allowed).  Every call is made on the
   text name=args FRESHLY formatted from the memory of that moment — the stores of one result are visible
   in the text of the next call — with its length and the capacity of the command buffer; that text must
   fit each time (rvh_spec = Some ..; otherwise the line ends in ERROR earlier, C06_read_handler_text).
   A DATA_NEXT / DATA_OK result emits one unit: its edit up to the first NUL, or the text it was given.
     rd_fresh c m     = Some (name ++ "=" ++ args)  when read_args_text m c = Some args
     rvh_spec c i bsz m rs = the calls and the units, see the checked equation. *)
Local Notation wst := (Fsm.st sio smu shs).
Local Notation wio := (Fsm.io sio smu shs).
Local Notation whs := (Fsm.hs sio smu shs).
Local Notation wtr := (Fsm.tr sio smu shs).
Local Notation script_of := Lemmas_C10.script_of.
Local Notation unit_of := Lemmas_C10.unit_of.
Local Notation units_of := Lemmas_C10.units_of.
Local Notation drop_script := Lemmas_E2Ec.P3.drop_script.
Local Notation rd_fresh := Lemmas_C06r.E2E.rd_fresh.
Local Notation rvh_spec := Lemmas_C06r.E2E.rvh_spec.

Example def_rd_fresh : forall c m,
  rd_fresh c m = match read_args_text m c with Some args => Some (c_name c ++ [ch_EQ] ++ args) | None => None end.
Proof. reflexivity. Qed.
Example def_rvh_spec : forall c i bsz m r rs,
  rvh_spec c i bsz m [] = Some ([], []) /\
  rvh_spec c i bsz m (r :: rs) =
    match rd_fresh c m with
    | Some txt =>
      if length txt <? bsz then
        match rvh_spec c i bsz (pokes_mem (r_pokes r) m) rs with
        | Some (cl, us) =>
          Some ((HRead ATCMD i (txt ++ [0%N]) (length txt) bsz, r_code r) :: cl,
                unit_of bsz (text_of txt) r ++ us)
        | None => None
        end
      else None
    | None => None
    end.
Proof. split; reflexivity. Qed.

Theorem E2E_read_vars_handler_line : forall D s name rest h i c rs rn more cl us,
  d_mutex D = false -> 0 < ncmds D -> ncmds D <= 4 * length (cbuf s) -> 6 <= length (cbuf s) ->
  fault s = false ->
  k_state (k s) = CS_IDLE -> k_cr (k s) = false -> k_implicit (k s) = false -> k_hold (k s) = false ->
  u_state (u s) = US_IDLE -> u_count (u s) = 0 ->
  name_ok name = true -> implicit_hit D s (upper name) = false ->
  resolve (upper name) (enabled D s) (cmds D) = Some i -> nth_error (cmds D) i = Some c ->
  c_hread c = true -> vars_access_possible c RO = true -> no_vread c -> c_only_test c = false ->
  Forall (rd_var_ok (mem s)) (c_vars c) ->
  script_of h (1, i, 0) = rs ++ rn :: more ->
  (forall r, In r rs -> terminal (spec_action K_READ ATCMD (r_code r)) = false) ->
  terminal (spec_action K_READ ATCMD (r_code rn)) = true -> r_code rn <> RC_HOLD ->
  (forall r, In r (rs ++ [rn]) -> r_calls r = []) ->
  rvh_spec c i (length (cbuf s)) (mem s) (rs ++ [rn]) = Some (cl, us) ->
  let w0 := mkw s ([ch_A; ch_T] ++ name ++ [ch_QM; ch_LF] ++ rest) h [] in
  exists calls, let w := nsvc D calls w0 in
    k_state (k (wst w)) = CS_IDLE /\ inq (wio w) = rest /\
    whs w = drop_script h (1, i, 0) (S (length rs)) /\
    calls_of (wtr w) = cl /\
    mem (wst w) = pokes_mem (flat_map r_pokes (rs ++ [rn])) (mem s) /\ fault (wst w) = false /\
    output_of (wtr w) =
      concat (map (fun u => [ch_LF] ++ u ++ [ch_LF]) us) ++
      [ch_LF] ++ match spec_action K_READ ATCMD (r_code rn) with
                 | A_OK | A_EMIT_OK | A_RELEASE_OK => txt_OK
                 | _ => txt_ERROR
                 end ++ [ch_LF] /\
    gL (wst w) = S (gL s) /\ gS (wst w) = S (gS s) /\ gR (wst w) = S (gR s).
Proof. exact Lemmas_C06r.E2E.E2E_read_vars_handler_line_proof. Qed.
Print Assumptions E2E_read_vars_handler_line.

(* 4a. when no result stores anything the fresh text is the same every time, and the calls and units are
       those of E2E_read_handler_line with hdr := the text *)
Theorem rvh_spec_nopokes : forall c i bsz m txt rs,
  (forall r, In r rs -> r_pokes r = []) -> rd_fresh c m = Some txt -> length txt < bsz ->
  rvh_spec c i bsz m rs =
    Some (map (fun r => (HRead ATCMD i (txt ++ [0%N]) (length txt) bsz, r_code r)) rs,
          units_of bsz (text_of txt) (text_of txt) rs).
Proof. exact Lemmas_C06r.E2E.rvh_spec_nopokes. Qed.
Print Assumptions rvh_spec_nopokes.

(* ---------- non-vacuity: +R of C06r_examples through the line reader, 40-byte buffer ----------
   script: DATA_NEXT (no edit: the unit is the text itself), NEXT storing 7 into the int16 variable,
   DATA_OK with the edit "c"; one more result stays.  Line: AT+r? LF 1 2 3 *)
Module C06r_e2e_examples.
Import C06r_examples.
Definition s0 := init_state D0 m0.
Definition rr (code : Z) (e : option (list N)) (p : list (nat * list N)) : hres := mkHres code e p [].
Definition rs0 : list hres := [rr RC_DATA_NEXT None []; rr RC_NEXT None [(0, [7; 0]%N)]].
Definition rn0 : hres := rr RC_DATA_OK (Some [99]%N) [].
Definition more0 : list hres := [rr RC_ERROR None []].
Definition h0 : shs := [((1, 0, 0), rs0 ++ rn0 :: more0)].
Definition line0 : list N := [65; 84; 43; 114; 63; 10; 1; 2; 3]%N.
(* +R=7,"A",0,0000,"" *)
Definition txt7 : list N := [43; 82; 61; 55; 44; 34; 65; 34; 44; 48; 44; 48; 48; 48; 48; 44; 34; 34]%N.
Definition m7 : list (list N) := [[7; 0]; [65; 0; 7; 7]; [200]; [10; 255]; [122; 122; 0; 0]]%N.
Definition obs (w : sworld) :=
  (k_state (k (wst w)), inq (wio w), whs w, calls_of (wtr w), output_of (wtr w), mem (wst w), fault (wst w),
   (gL (wst w), gS (wst w), gR (wst w))).

Definition cl0 : list (hreq * Z) :=
  [(HRead ATCMD 0 (txt0 ++ [0%N]) 19 40, 1%Z); (HRead ATCMD 0 (txt0 ++ [0%N]) 19 40, 2%Z);
   (HRead ATCMD 0 (txt7 ++ [0%N]) 18 40, 0%Z)].
Definition us0 : list (list N) := [txt0; [99]%N].
Example ex_spec : rvh_spec c0 0 40 m0 (rs0 ++ [rn0]) = Some (cl0, us0).
Proof. vm_compute. reflexivity. Qed.

(* exactly 71 service calls: idle, 1 2 3 queued, the ERROR result still scripted; two calls on the text with
   -2 and one on the text with 7; output LF +R=-2,.. LF  LF c LF  LF OK LF; the variable holds 7 *)
Example ex_run :
  obs (nsvc D0 71 (mkw s0 line0 h0 [])) =
    (CS_IDLE, [1; 2; 3]%N, [((1, 0, 0), more0)],
     [(HRead ATCMD 0 (txt0 ++ [0%N]) 19 40, 1%Z); (HRead ATCMD 0 (txt0 ++ [0%N]) 19 40, 2%Z);
      (HRead ATCMD 0 (txt7 ++ [0%N]) 18 40, 0%Z)],
     [10%N] ++ txt0 ++ [10; 10; 99; 10; 10; 79; 75; 10]%N, m7, false, (1, 1, 1)).
Proof. vm_compute. reflexivity. Qed.
Example ex_run_before :
  k_state (k (wst (nsvc D0 70 (mkw s0 line0 h0 [])))) = CS_AFTER_RESET.
Proof. vm_compute. reflexivity. Qed.

Example ex_e2e_hyps :
  Lemmas_E2E.E2E_examples.hyps_ok D0 s0 = true /\ name_ok [43; 114]%N = true /\
  implicit_hit D0 s0 (upper [43; 114]%N) = false /\
  resolve (upper [43; 114]%N) (enabled D0 s0) (cmds D0) = Some 0 /\ nth_error (cmds D0) 0 = Some c0 /\
  script_of h0 (1, 0, 0) = rs0 ++ rn0 :: more0 /\
  forallb (fun r => negb (terminal (spec_action K_READ ATCMD (r_code r)))) rs0 = true /\
  terminal (spec_action K_READ ATCMD (r_code rn0)) = true.
Proof. vm_compute. repeat split; reflexivity. Qed.

(* the general theorem applied to the instance *)
Example ex_e2e_apply :
  exists calls, let w := nsvc D0 calls (mkw s0 line0 h0 []) in
    k_state (k (wst w)) = CS_IDLE /\ inq (wio w) = [1; 2; 3]%N /\
    whs w = [((1, 0, 0), more0)] /\
    calls_of (wtr w) =
      [(HRead ATCMD 0 (txt0 ++ [0%N]) 19 40, 1%Z); (HRead ATCMD 0 (txt0 ++ [0%N]) 19 40, 2%Z);
       (HRead ATCMD 0 (txt7 ++ [0%N]) 18 40, 0%Z)] /\
    mem (wst w) = m7 /\
    output_of (wtr w) = [10%N] ++ txt0 ++ [10; 10; 99; 10; 10; 79; 75; 10]%N.
Proof.
  destruct ex_hyps as (_ & _ & _ & Hnv & Hok).
  destruct (E2E_read_vars_handler_line D0 s0 [43; 114]%N [1; 2; 3]%N h0 0 c0 rs0 rn0 more0 cl0 us0
              eq_refl ltac:(apply Nat.ltb_lt; reflexivity) ltac:(apply Nat.leb_le; reflexivity)
              ltac:(apply Nat.leb_le; reflexivity)
              eq_refl eq_refl eq_refl eq_refl eq_refl eq_refl eq_refl eq_refl eq_refl eq_refl eq_refl
              eq_refl eq_refl Hnv eq_refl Hok eq_refl)
    as (calls & A & B & C & E & F & _ & G & _).
  - intros r [X|[X|[]]]; subst r; reflexivity.
  - reflexivity.
  - discriminate.
  - intros r [X|[X|[X|[]]]]; subst r; reflexivity.
  - exact ex_spec.
  - exists calls. cbv zeta.
    split; [exact A|]. split; [exact B|]. split; [exact C|]. split; [exact E|]. split; [exact F | exact G].
Qed.

(* a store that makes the text too long for the buffer: the line ends in ERROR at the re-format, the
   handler is not called again (rvh_spec = None: outside the theorem; C06_read_handler_text says ERROR).
   22-byte buffer; after NEXT the int16 holds -12345: the text needs 23 characters *)
Definition D22 := mkDesc [[c0]] [] 22 (Some 30) 85%N 2 false.
Example ex_overflow :
  let h := [((1, 0, 0), [rr RC_NEXT None [(0, [199; 207]%N)]; rr RC_OK None []])] in
  let w := nsvc D22 80 (mkw (init_state D22 m0) [65; 84; 43; 114; 63; 10]%N h []) in
  rvh_spec c0 0 22 m0 [rr RC_NEXT None [(0, [199; 207]%N)]; rr RC_OK None []] = None /\
  k_state (k (wst w)) = CS_IDLE /\
  calls_of (wtr w) = [(HRead ATCMD 0 (txt0 ++ [0%N]) 19 22, 2%Z)] /\
  output_of (wtr w) = [10; 69; 82; 82; 79; 82; 10]%N.
Proof. vm_compute. repeat split; reflexivity. Qed.
End C06r_e2e_examples.
