(* Properties_C12c.v — property C12 (independence from io scheduling), P12-a for WHOLE RUNS:
   the FINAL output and the sequence of handler calls do not depend on the readiness schedules.

   Properties_C12.v (part B) shows that a run of the scripted environment under arbitrary
   readiness schedules passes through the same `core` values (object state, handler scripts,
   unconsumed input, visible events) as the always-ready run `eager w`, only later.  Here this is
   turned into statements about what a user observes:
     output_of t  = the accepted output bytes of the trace t, oldest first      (GlueDefs.v)
     calls_of t   = the handler calls (request with its arguments, return code), oldest first
   (both take the newest-first trace `tr w`, as everywhere else, and reverse it themselves), and
   about the point where the run is over: cat_service answers OK with the input consumed
   (quiescence, property C15).

     1./2.  if the scheduled run is quiescent after n calls, the always-ready run was quiescent
            after some m <= n calls with the same output, the same handler calls, the same object
            state and the same handler scripts                       (command-only / event-only);
     3.     a quiescent point is final: further calls add no output and no handler call;
     4./5.  conversely, under every finite schedule quiescence IS reached (C15, bound
            C15_bound D w + sched_left w), and every output the always-ready run ever shows
            (after any number j of calls) is a chronological prefix of that final output, and
            equal to it from its own quiescent point m <= n on: every byte the always-ready run
            emits is emitted under any finite schedule, and nothing else.

   Proofs: Lemmas_C12c.v. *)
From Coq Require Import List NArith ZArith Bool Arith Lia.
From CatV Require Import Bytes Defs Codec Fsm Script TraceDefs Skel SkelInv ResolveDefs SchedDefs
                         TermDefs GlueDefs.
From CatV Require Import Lemmas_C03 Lemmas_C15c.
From CatV Require Lemmas_C12c.
Import ListNotations.
Local Open Scope nat_scope.

Local Notation st := (Fsm.st sio smu shs).
Local Notation io := (Fsm.io sio smu shs).
Local Notation hs := (Fsm.hs sio smu shs).
Local Notation tr := (Fsm.tr sio smu shs).

(* 1. command-only runs (the event machine idle with an empty queue, no handler triggers) *)
Theorem C12_same_final_output_cmd : forall D (w : sworld) n,
  d_mutex D = false ->
  u_state (u (st w)) = US_IDLE -> u_count (u (st w)) = 0 ->
  script_ok res_no_trigger (hs w) = true ->
  inq (io (nsvc D n w)) = [] ->
  snd (do_op D sio smu shs s_read s_write s_lock s_unlock s_call (nsvc D n w) OService) = ST_OK ->
  exists m, m <= n /\
    inq (io (nsvc D m (eager w))) = [] /\
    snd (do_op D sio smu shs s_read s_write s_lock s_unlock s_call (nsvc D m (eager w)) OService) = ST_OK /\
    output_of (tr (nsvc D n w)) = output_of (tr (nsvc D m (eager w))) /\
    calls_of (tr (nsvc D n w)) = calls_of (tr (nsvc D m (eager w))) /\
    st (nsvc D n w) = st (nsvc D m (eager w)) /\ hs (nsvc D n w) = hs (nsvc D m (eager w)).
Proof. exact Lemmas_C12c.C12_same_final_output_cmd. Qed.
Print Assumptions C12_same_final_output_cmd.

(* 2. event-only runs (the command machine idle, no input, no event-side handler returns HOLD) *)
Theorem C12_same_final_output_uns : forall D (w : sworld) n,
  d_mutex D = false ->
  k_state (k (st w)) = CS_IDLE -> inq (io w) = [] ->
  script_ok (fun r => negb (r_code r =? RC_HOLD)%Z) (hs w) = true ->
  inq (io (nsvc D n w)) = [] ->
  snd (do_op D sio smu shs s_read s_write s_lock s_unlock s_call (nsvc D n w) OService) = ST_OK ->
  exists m, m <= n /\
    inq (io (nsvc D m (eager w))) = [] /\
    snd (do_op D sio smu shs s_read s_write s_lock s_unlock s_call (nsvc D m (eager w)) OService) = ST_OK /\
    output_of (tr (nsvc D n w)) = output_of (tr (nsvc D m (eager w))) /\
    calls_of (tr (nsvc D n w)) = calls_of (tr (nsvc D m (eager w))) /\
    st (nsvc D n w) = st (nsvc D m (eager w)) /\ hs (nsvc D n w) = hs (nsvc D m (eager w)).
Proof. exact Lemmas_C12c.C12_same_final_output_uns. Qed.
Print Assumptions C12_same_final_output_uns.

(* 3. "final" is meaningful: once cat_service answers OK with the input consumed, no further call
   adds an output byte or a handler call (ANY world, any schedules, both machines) *)
Theorem C12_final_output_stable : forall D (w : sworld) n j,
  d_mutex D = false ->
  inq (io (nsvc D n w)) = [] ->
  snd (do_op D sio smu shs s_read s_write s_lock s_unlock s_call (nsvc D n w) OService) = ST_OK ->
  output_of (tr (nsvc D (n + j) w)) = output_of (tr (nsvc D n w)) /\
  calls_of (tr (nsvc D (n + j) w)) = calls_of (tr (nsvc D n w)) /\
  st (nsvc D (n + j) w) = st (nsvc D n w) /\ hs (nsvc D (n + j) w) = hs (nsvc D n w) /\
  inq (io (nsvc D (n + j) w)) = [] /\
  snd (do_op D sio smu shs s_read s_write s_lock s_unlock s_call (nsvc D (n + j) w) OService) = ST_OK.
Proof. exact Lemmas_C12c.C12_final_output_stable. Qed.
Print Assumptions C12_final_output_stable.

(* 3'. before that point outputs and handler calls only grow (ANY world): the earlier output is a
   chronological prefix of the later one *)
Theorem C12_output_monotone : forall D (w : sworld) j k,
  d_mutex D = false -> j <= k ->
  (exists rest, output_of (tr (nsvc D k w)) = output_of (tr (nsvc D j w)) ++ rest) /\
  (exists rest, calls_of (tr (nsvc D k w)) = calls_of (tr (nsvc D j w)) ++ rest).
Proof. exact Lemmas_C12c.C12_output_monotone. Qed.
Print Assumptions C12_output_monotone.

(* 4. converse direction, command-only: the hypotheses of theorem 1 (without the quiescence
   hypotheses) and those of Properties_C15c.C15_reaches_quiescence_fair (its hypothesis
   u_count <= d_cap D follows from u_count = 0).  The scheduled run is quiescent after some
   n <= C15_bound D w + sched_left w calls, and whatever the always-ready run has shown after ANY
   number j of calls is a prefix of the scheduled run's final output and handler calls — and equal
   to them for all j >= m, for some m <= n *)
Theorem C12_eager_output_eventually_cmd : forall D mm (w : sworld),
  d_mutex D = false ->
  u_state (u (st w)) = US_IDLE -> u_count (u (st w)) = 0 ->
  script_ok res_no_trigger (hs w) = true ->
  wf_desc D mm -> Safe D mm (st w) -> J (ctl_of (st w)) ->
  script_ok no_hold_res (hs w) = true -> k_state (k (st w)) <> CS_HOLD ->
  script_ok (res_calls_ok D) (hs w) = true ->
  exists n, n <= C15_bound D w + sched_left w /\
    inq (io (nsvc D n w)) = [] /\
    snd (do_op D sio smu shs s_read s_write s_lock s_unlock s_call (nsvc D n w) OService) = ST_OK /\
    exists m, m <= n /\
      forall j,
        (exists rest, output_of (tr (nsvc D n w)) = output_of (tr (nsvc D j (eager w))) ++ rest) /\
        (exists rest, calls_of (tr (nsvc D n w)) = calls_of (tr (nsvc D j (eager w))) ++ rest) /\
        (m <= j -> output_of (tr (nsvc D j (eager w))) = output_of (tr (nsvc D n w)) /\
                   calls_of (tr (nsvc D j (eager w))) = calls_of (tr (nsvc D n w))).
Proof. exact Lemmas_C12c.C12_eager_output_eventually_cmd. Qed.
Print Assumptions C12_eager_output_eventually_cmd.

(* 5. the same for event-only runs (k_state = CS_IDLE makes "not held" automatic; the script
   hypothesis of theorem 2 is script_ok no_hold_res) *)
Theorem C12_eager_output_eventually_uns : forall D mm (w : sworld),
  d_mutex D = false ->
  k_state (k (st w)) = CS_IDLE -> inq (io w) = [] ->
  script_ok no_hold_res (hs w) = true ->
  wf_desc D mm -> Safe D mm (st w) -> J (ctl_of (st w)) ->
  script_ok (res_calls_ok D) (hs w) = true -> u_count (u (st w)) <= d_cap D ->
  exists n, n <= C15_bound D w + sched_left w /\
    inq (io (nsvc D n w)) = [] /\
    snd (do_op D sio smu shs s_read s_write s_lock s_unlock s_call (nsvc D n w) OService) = ST_OK /\
    exists m, m <= n /\
      forall j,
        (exists rest, output_of (tr (nsvc D n w)) = output_of (tr (nsvc D j (eager w))) ++ rest) /\
        (exists rest, calls_of (tr (nsvc D n w)) = calls_of (tr (nsvc D j (eager w))) ++ rest) /\
        (m <= j -> output_of (tr (nsvc D j (eager w))) = output_of (tr (nsvc D n w)) /\
                   calls_of (tr (nsvc D j (eager w))) = calls_of (tr (nsvc D n w))).
Proof. exact Lemmas_C12c.C12_eager_output_eventually_uns. Qed.
Print Assumptions C12_eager_output_eventually_uns.

(* ================================================================== *)
(* non-vacuity: the scripted runs of Properties_C15c.v                  *)
(* ================================================================== *)

(* one command "+X" with read and run handlers, no mutex, queue capacity 2 *)
Definition exD : desc :=
  mkDesc [[mkCmd [43; 88]%N None false true true false [] false false false]] [] 16 None 0%N 2 false.
Local Notation exdo := (do_op exD sio smu shs s_read s_write s_lock s_unlock s_call).

Definition ex_rd : list bool := [false; true; false; false; true].
Definition ex_wr : list bool := [true; false; false; true; false; true; true; false].
Definition ex_script : shs :=
  [((1, 0, 0), [mkHres RC_DATA_OK (Some [43; 88; 61; 49]%N) [] [];
                mkHres RC_DATA_OK (Some [43; 88; 61; 50]%N) [] [];
                mkHres RC_DATA_OK (Some [43; 88; 61; 51]%N) [] []])].

Lemma ex_wf : wf_desc exD [].
Proof. unfold wf_desc. cbn. repeat split; try lia; repeat (apply Forall_cons; [apply Forall_nil|]); apply Forall_nil. Qed.

(* ---- command-only: input "AT+X?\n", refusing read and write schedules ---- *)
Definition exWg : sworld :=
  sinit exD [] (mkSio [65; 84; 43; 88; 63; 10]%N ex_rd [true; false; false; true; false])
        (mkSmu [] []) ex_script.

(* the hypotheses of theorems 1 and 4 *)
Example C12c_ex_cmd_hyps :
  d_mutex exD = false /\
  u_state (u (st exWg)) = US_IDLE /\ u_count (u (st exWg)) = 0 /\
  script_ok res_no_trigger (hs exWg) = true /\
  wf_desc exD [] /\ Safe exD [] (st exWg) /\ J (ctl_of (st exWg)) /\
  script_ok no_hold_res (hs exWg) = true /\ k_state (k (st exWg)) <> CS_HOLD /\
  script_ok (res_calls_ok exD) (hs exWg) = true.
Proof.
  split; [reflexivity|]. split; [reflexivity|]. split; [reflexivity|]. split; [reflexivity|].
  split; [exact ex_wf|]. split.
  { unfold Safe, Base, KS, US, ring_ok, cmd_wk. cbn. repeat split; try lia.
    repeat (apply Forall_cons; [cbn; lia|]). apply Forall_nil. }
  split; [exact J_init|]. split; [reflexivity|]. split; [cbn; discriminate|]. reflexivity.
Qed.

(* the scheduled run is quiescent after n = 37 calls (not after 36), the always-ready run after
   m = 31 (not after 30); same non-empty output "\n+X=1\n\nOK\n", same non-empty handler calls (the
   read handler of "+X", once), same state and scripts *)
Example C12c_ex_cmd_final :
  inq (io (nsvc exD 37 exWg)) = [] /\ snd (exdo (nsvc exD 37 exWg) OService) = ST_OK /\
  snd (exdo (nsvc exD 36 exWg) OService) = ST_BUSY /\
  inq (io (nsvc exD 31 (eager exWg))) = [] /\ snd (exdo (nsvc exD 31 (eager exWg)) OService) = ST_OK /\
  snd (exdo (nsvc exD 30 (eager exWg)) OService) = ST_BUSY /\
  output_of (tr (nsvc exD 37 exWg)) = [10; 43; 88; 61; 49; 10; 10; 79; 75; 10]%N /\
  output_of (tr (nsvc exD 31 (eager exWg))) = [10; 43; 88; 61; 49; 10; 10; 79; 75; 10]%N /\
  calls_of (tr (nsvc exD 37 exWg)) = [(HRead ATCMD 0 [43; 88; 61; 0]%N 3 8, RC_DATA_OK)] /\
  calls_of (tr (nsvc exD 31 (eager exWg))) = [(HRead ATCMD 0 [43; 88; 61; 0]%N 3 8, RC_DATA_OK)] /\
  st (nsvc exD 37 exWg) = st (nsvc exD 31 (eager exWg)) /\
  hs (nsvc exD 37 exWg) = hs (nsvc exD 31 (eager exWg)).
Proof. vm_compute. repeat split; reflexivity. Qed.

(* theorem 1 applies to it *)
Example C12c_ex_cmd_applies :
  exists m, m <= 37 /\
    output_of (tr (nsvc exD m (eager exWg))) = [10; 43; 88; 61; 49; 10; 10; 79; 75; 10]%N /\
    calls_of (tr (nsvc exD m (eager exWg))) = [(HRead ATCMD 0 [43; 88; 61; 0]%N 3 8, RC_DATA_OK)].
Proof.
  destruct C12c_ex_cmd_hyps as (H1 & H2 & H3 & H4 & _).
  destruct C12c_ex_cmd_final as (F1 & F2 & _ & _ & _ & _ & F3 & _ & F4 & _).
  destruct (C12_same_final_output_cmd exD exWg 37 H1 H2 H3 H4 F1 F2) as (m & Hm & _ & _ & O & C & _).
  exists m. split; [exact Hm|]. rewrite <- O, <- C. split; assumption.
Qed.

Fixpoint nlist_eqb (a b : list N) : bool :=
  match a, b with
  | [], [] => true
  | x :: a', y :: b' => (x =? y)%N && nlist_eqb a' b'
  | _, _ => false
  end.

(* stability (theorem 3) and the prefixes of theorem 4: the always-ready run has written
   0,...,10 bytes after j = 0..34 calls, each a prefix of the final 10 bytes *)
Example C12c_ex_cmd_stable_and_prefixes :
  output_of (tr (nsvc exD (37 + 20) exWg)) = output_of (tr (nsvc exD 37 exWg)) /\
  calls_of (tr (nsvc exD (37 + 20) exWg)) = calls_of (tr (nsvc exD 37 exWg)) /\
  map (fun j => length (output_of (tr (nsvc exD j (eager exWg))))) (seq 0 35) =
    [0; 0; 0; 0; 0; 0; 0; 0; 0; 0; 0; 0; 0; 1; 1; 2; 3; 4; 5; 5; 6; 6; 6; 6; 7; 7; 8; 9; 9; 10;
     10; 10; 10; 10; 10] /\
  forallb (fun j => let o := output_of (tr (nsvc exD j (eager exWg))) in
                    nlist_eqb (firstn (length o) (output_of (tr (nsvc exD 37 exWg)))) o)
          (seq 0 35) = true.
Proof. vm_compute. repeat split; reflexivity. Qed.

Example C12c_ex_cmd_converse_applies :
  exists n, inq (io (nsvc exD n exWg)) = [] /\ snd (exdo (nsvc exD n exWg) OService) = ST_OK /\
    forall j, exists rest,
      output_of (tr (nsvc exD n exWg)) = output_of (tr (nsvc exD j (eager exWg))) ++ rest.
Proof.
  destruct C12c_ex_cmd_hyps as (H1 & H2 & H3 & H4 & H5 & H6 & H7 & H8 & H9 & H10).
  destruct (C12_eager_output_eventually_cmd exD [] exWg H1 H2 H3 H4 H5 H6 H7 H8 H9 H10)
    as (n & _ & Hq & Hok & m & _ & P).
  exists n. split; [exact Hq|]. split; [exact Hok|]. intros j. destruct (P j) as (P1 & _). exact P1.
Qed.

(* ---- event-only: no input, two read events of "+X" queued, refusing schedules ---- *)
Definition exWu : sworld :=
  srun exD (sinit exD [] (mkSio [] ex_rd ex_wr) (mkSmu [] []) ex_script)
       [SOp (OTrigger 0 T_READ); SOp (OTrigger 0 T_READ)].

(* the hypotheses of theorems 2 and 5 *)
Example C12c_ex_uns_hyps :
  d_mutex exD = false /\
  k_state (k (st exWu)) = CS_IDLE /\ inq (io exWu) = [] /\
  script_ok no_hold_res (hs exWu) = true /\
  wf_desc exD [] /\ Safe exD [] (st exWu) /\ J (ctl_of (st exWu)) /\
  script_ok (res_calls_ok exD) (hs exWu) = true /\ u_count (u (st exWu)) <= d_cap exD.
Proof.
  split; [reflexivity|]. split; [reflexivity|]. split; [reflexivity|]. split; [reflexivity|].
  split; [exact ex_wf|]. split.
  { unfold Safe, Base, KS, US, ring_ok, cmd_wk. cbn. repeat split; try lia.
    repeat (apply Forall_cons; [cbn; lia|]). apply Forall_nil. }
  split.
  { replace (ctl_of (st exWu)) with init_ctl by (vm_compute; reflexivity). exact J_init. }
  split; [reflexivity|]. cbn; lia.
Qed.

(* scheduled: quiescent after 30 calls; always ready: after 26; both wrote "\n+X=1\n\n+X=2\n" and
   called the read handler twice *)
Example C12c_ex_uns_final :
  inq (io (nsvc exD 30 exWu)) = [] /\ snd (exdo (nsvc exD 30 exWu) OService) = ST_OK /\
  snd (exdo (nsvc exD 29 exWu) OService) = ST_BUSY /\
  snd (exdo (nsvc exD 26 (eager exWu)) OService) = ST_OK /\
  snd (exdo (nsvc exD 25 (eager exWu)) OService) = ST_BUSY /\
  output_of (tr (nsvc exD 30 exWu)) = [10; 43; 88; 61; 49; 10; 10; 43; 88; 61; 50; 10]%N /\
  output_of (tr (nsvc exD 26 (eager exWu))) = output_of (tr (nsvc exD 30 exWu)) /\
  length (calls_of (tr (nsvc exD 30 exWu))) = 2 /\
  calls_of (tr (nsvc exD 26 (eager exWu))) = calls_of (tr (nsvc exD 30 exWu)).
Proof. vm_compute. repeat split; reflexivity. Qed.

Example C12c_ex_uns_applies :
  exists m, m <= 30 /\
    output_of (tr (nsvc exD m (eager exWu))) = [10; 43; 88; 61; 49; 10; 10; 43; 88; 61; 50; 10]%N /\
    length (calls_of (tr (nsvc exD m (eager exWu)))) = 2.
Proof.
  destruct C12c_ex_uns_hyps as (H1 & H2 & H3 & H4 & _).
  destruct C12c_ex_uns_final as (F1 & F2 & _ & _ & _ & F3 & _ & F4 & _).
  destruct (C12_same_final_output_uns exD exWu 30 H1 H2 H3 H4 F1 F2) as (m & Hm & _ & _ & O & C & _).
  exists m. split; [exact Hm|]. rewrite <- O, <- C. split; assumption.
Qed.

Example C12c_ex_uns_converse_applies :
  exists n, inq (io (nsvc exD n exWu)) = [] /\ snd (exdo (nsvc exD n exWu) OService) = ST_OK /\
    forall j, exists rest,
      output_of (tr (nsvc exD n exWu)) = output_of (tr (nsvc exD j (eager exWu))) ++ rest.
Proof.
  destruct C12c_ex_uns_hyps as (H1 & H2 & H3 & H4 & H5 & H6 & H7 & H8 & H9).
  destruct (C12_eager_output_eventually_uns exD [] exWu H1 H2 H3 H4 H5 H6 H7 H8 H9)
    as (n & _ & Hq & Hok & m & _ & P).
  exists n. split; [exact Hq|]. split; [exact Hok|]. intros j. destruct (P j) as (P1 & _). exact P1.
Qed.
