(* Properties_C03.v — property C03 (memory safety, here: of the model's index arithmetic).
   Every memory access of cat.c is modelled in Fsm.v / Codec.v by a CHECKED accessor: an
   out-of-range buffer index, a store beyond a variable's storage, a missing command or
   variable, a cursor beyond its buffer, a ring index out of range, signed overflow ... sets
   the sticky flag `fault` of the state.  C03: for every descriptor of the supported domain,
   every environment and every operation history the flag is never raised.
   Proofs are in Lemmas_C03.v (parts Lemmas_C03a.v, Lemmas_C03b.v, Lemmas_C03f.v). *)
From Coq Require Import List NArith ZArith Bool Arith Lia.
From CatV Require Import Bytes Defs Codec Fsm Script Lemmas_C03.
Import ListNotations.
Local Open Scope nat_scope.

Section C03.
Variable D : desc.
Variables ioS muS hS : Type.
Variable io_read : ioS -> ioS * option N.
Variable io_write : ioS -> N -> ioS * bool.
Variable mu_lock : muS -> muS * bool.
Variable mu_unlock : muS -> muS * bool.
Variable h_call : hS -> hreq -> hS * hres.

(* supported domain: what cat_init asserts + buffers large enough for the fixed texts + every
   variable's data_size fits its storage + (found by experiment, see counter-example 2 below)
   no hex-buffer variable of size 0 after the first position *)
Definition wf_var (m : list (list N)) (v : var) : Prop :=
  exists data, nth_error m (v_slot v) = Some data /\ v_size v <= length data.
Definition hexbuf_nonempty (v : var) : Prop := v_type v = VBufHex -> 0 < v_size v.
Definition wf_desc (m : list (list N)) : Prop :=
  0 < d_cap D /\ 0 < ncmds D /\ ncmds D <= 4 * asz_of D /\ 6 <= asz_of D /\
  Forall (fun c => Forall (wf_var m) (c_vars c)) (pool D) /\
  Forall (fun c => Forall hexbuf_nonempty (tl (c_vars c))) (pool D).

(* events may only name commands of the pool, with type READ or TEST (the C API takes a command
   pointer and the two trigger functions fix the type) *)
Definition valid_trigger (ci : nat) (t : ctype) : Prop :=
  ci < length (pool D) /\ (t = T_READ \/ t = T_TEST).
Definition valid_op (o : op) : Prop :=
  match o with OTrigger ci t => valid_trigger ci t | _ => True end.
Definition valid_icall (c : icall) : Prop :=
  match c with ITrigger ci t => valid_trigger ci t | _ => True end.
Hypothesis handlers_valid : forall hs q, Forall valid_icall (r_calls (snd (h_call hs q))).

Theorem C03_no_fault : forall m x mx h ops,
  wf_desc m -> Forall valid_op ops ->
  fault (st ioS muS hS
           (run D ioS muS hS io_read io_write mu_lock mu_unlock h_call
                (mkWorld ioS muS hS (init_state D m) x mx h []) ops)) = false.
Proof.
  exact (Lemmas_C03.C03_no_fault D ioS muS hS io_read io_write mu_lock mu_unlock h_call handlers_valid).
Qed.

(* frame: for ANY state (no invariant) and arbitrary oracles, a step of the command machine never
   changes the event machine's buffer and a step of the event machine never changes the command
   machine's buffer *)
Theorem C03_frame : forall w : world ioS muS hS,
  ubuf (st ioS muS hS (fst (cmd_service D ioS muS hS io_read io_write mu_lock mu_unlock h_call w)))
    = ubuf (st ioS muS hS w) /\
  cbuf (st ioS muS hS (fst (unsolicited_events_service D ioS muS hS io_write mu_lock mu_unlock h_call w)))
    = cbuf (st ioS muS hS w).
Proof.
  exact (Lemmas_C03.C03_frame D ioS muS hS io_read io_write mu_lock mu_unlock h_call).
Qed.

End C03.

Print Assumptions C03_no_fault.
Print Assumptions C03_frame.

(* The type restriction on events is not needed for memory safety: the same holds when events
   merely name a command of the pool (icall_ok / op_ok of Lemmas_C03b.v). *)
Theorem C03_no_fault_any_type : forall (D : desc) (ioS muS hS : Type)
  (io_read : ioS -> ioS * option N) (io_write : ioS -> N -> ioS * bool)
  (mu_lock mu_unlock : muS -> muS * bool) (h_call : hS -> hreq -> hS * hres),
  (forall hs q, Forall (fun c => match c with ITrigger ci _ => ci < length (pool D) | IHoldExit _ => True end)
                       (r_calls (snd (h_call hs q)))) ->
  forall m x mx h ops, wf_desc D m ->
  Forall (fun o => match o with OTrigger ci _ => ci < length (pool D) | _ => True end) ops ->
  fault (st ioS muS hS (run D ioS muS hS io_read io_write mu_lock mu_unlock h_call
                            (mkWorld ioS muS hS (init_state D m) x mx h []) ops)) = false.
Proof. exact Lemmas_C03.C03_no_fault_any_type. Qed.
Print Assumptions C03_no_fault_any_type.

(* ------------------------------------------------------------------ *)
(* non-vacuity: a concrete descriptor of the domain, a scripted run     *)
(* ------------------------------------------------------------------ *)
Module Examples.

Definition v_int := mkVar None VInt 1 RW false false 0.
Definition v_hex := mkVar (Some [120]%N) VBufHex 2 RW true true 1.
Definition v_str := mkVar None VBufStr 4 RW false false 2.
Definition v_bh0 := mkVar None VBufHex 0 RW false false 3.      (* hex buffer of size 0 *)
(* +X: three variables, write/read/test handlers, a description; +Y: run and test handlers;
   +E: used only for events *)
Definition cX := mkCmd [43;88]%N (Some [100]%N) true true false true [v_int; v_hex; v_str] false false false.
Definition cY := mkCmd [43;89]%N None false false true true [] false false false.
Definition cE := mkCmd [43;69]%N None false true false false [v_int] false false false.
Definition D1 := mkDesc [[cX]; [cY]] [cE] 16 (Some 12) 120%N 2 true.
Definition m1 : list (list N) := [[5]; [1; 2]; [65; 0; 0; 0]; []]%N.

Example ex_wf : wf_desc D1 m1.
Proof.
  unfold wf_desc. cbn. repeat split; try lia;
    repeat constructor; unfold wf_var, hexbuf_nonempty; cbn; eauto; try discriminate; try lia.
Qed.

Definition txt (l : list nat) : list N := map N.of_nat l.
(* AT+X=7,0A0B,"hi"  AT+X?  AT+Y  AT+Y=?  AT+Q  AT+X=? *)
Definition inp1 : list N := txt
  [65;84;43;88;61;55;44;48;65;48;66;44;34;104;105;34;10;
   65;84;43;88;63;10;  65;84;43;89;10;  65;84;43;89;61;63;10;  65;84;43;81;10;
   65;84;43;88;61;63;10].
(* handlers: a write handler that pokes a variable and triggers an event; read handlers that edit
   the text, hold, ask for more; a run handler asking for the command list; an event handler
   leaving the hold state *)
Definition hs1 : shs :=
  [ ((0,0,0), [mkHres RC_OK None [(0,[9%N])] [ITrigger 2 T_READ]]);
    ((1,0,0), [mkHres RC_DATA_NEXT (Some [111;107]%N) [] []; mkHres RC_HOLD None [] [ITrigger 0 T_TEST];
               mkHres RC_OK None [] []]);
    ((2,1,0), [mkHres RC_PRINT_CMD_LIST_OK None [] []]);
    ((1,2,0), [mkHres RC_HOLD_EXIT_OK None [] [IHoldExit 0%Z]]) ].
Definition w1 := sinit D1 m1 (mkSio inp1 [] [true;false;true]) (mkSmu [true;false] []) hs1.
Definition ops1 :=
  [SOp (OTrigger 2 T_READ); SOp (OTrigger 0 T_TEST); SOp (OTrigger 1 T_READ)] ++
  repeat (SOp OService) 600 ++ [SOp (OHoldExit 0%Z)] ++ repeat (SOp OService) 400.
Definition r1 := srun D1 w1 ops1.

(* the whole input is consumed, six result codes are sent, the three variables hold 9, 0A 0B and
   "hi", both machines are idle again, and no fault *)
Example ex_run :
  (fault (st _ _ _ r1), k_state (k (st _ _ _ r1)), u_state (u (st _ _ _ r1)),
   gR (st _ _ _ r1), inq (io _ _ _ r1), mem (st _ _ _ r1))
  = (false, CS_IDLE, US_IDLE, 6, [], [[9]; [10; 11]; [104; 105; 0; 0]; []]%N).
Proof. vm_compute. reflexivity. Qed.

Definition run_services (D : desc) (m : list (list N)) (input : list N) (n : nat) : sworld :=
  srun D (sinit D m (mkSio input [] []) (mkSmu [] []) []) (repeat (SOp OService) n).

(* counter-example 1: 6 <= asz is needed and tight.  With a 5-byte working buffer the text
   "ERROR" is copied without its NUL and the flush reads past the end of the buffer *)
Definition D_small := mkDesc [[cX]; [cY]] [cE] 5 (Some 12) 120%N 2 true.
Example cex_small_buffer :
  asz_of D_small = 5 /\
  fault (st _ _ _ (run_services D_small m1 (txt [65;84;43;81;10]) 40)) = true.
Proof. vm_compute. split; reflexivity. Qed.

(* counter-example 2: a hex-buffer variable of size 0 in second position.  The read response
   "+Z=5," is not terminated after the comma (the formatter prints nothing), and the flush runs
   through the rest of the buffer and beyond.  Not excluded by any assert of cat_init *)
Definition cZ := mkCmd [43;90]%N None false false false false [v_int; v_bh0] false false false.
Definition D_hex0 := mkDesc [[cZ]] [] 16 (Some 12) 120%N 2 false.
Example cex_hexbuf0 :
  fault (st _ _ _ (run_services D_hex0 m1 (txt [65;84;43;90;63;10]) 60)) = true.
Proof. vm_compute. reflexivity. Qed.
(* ... while in first position it is harmless, so the domain only restricts tl (c_vars c) *)
Definition cZ' := mkCmd [43;90]%N None false false false false [v_bh0; v_int] false false false.
Definition D_hex0' := mkDesc [[cZ']] [] 16 (Some 12) 120%N 2 false.
Example ex_hexbuf0_first : wf_desc D_hex0' m1 /\
  fault (st _ _ _ (run_services D_hex0' m1 (txt [65;84;43;90;63;10]) 60)) = false.
Proof.
  split; [|vm_compute; reflexivity].
  unfold wf_desc. cbn. repeat split; try lia;
    repeat constructor; unfold wf_var, hexbuf_nonempty; cbn; eauto; try discriminate; try lia.
Qed.

(* counter-example 3: an event naming a command outside the pool is dereferenced *)
Example cex_bad_trigger :
  fault (st _ _ _ (srun D1 (sinit D1 m1 (mkSio [] [] []) (mkSmu [] []) [])
                        (SOp (OTrigger 7 T_READ) :: repeat (SOp OService) 5))) = true.
Proof. vm_compute. reflexivity. Qed.

(* counter-example 4: a variable whose data_size exceeds its storage is read out of bounds *)
Definition v_big := mkVar None VInt 4 RW false false 0.
Definition cB := mkCmd [43;66]%N None false false false false [v_big] false false false.
Definition D_big := mkDesc [[cB]] [] 16 (Some 12) 120%N 2 false.
Example cex_short_storage :
  fault (st _ _ _ (run_services D_big m1 (txt [65;84;43;66;63;10]) 40)) = true.
Proof. vm_compute. reflexivity. Qed.

End Examples.
