(* Lemmas_C20.v -- property C20: (1) the per-line scratch of the command machine is dead between
   lines (relational, two-run theorem for arbitrary oracles); (2) the line ending mirrors the request.

   Method.  [mask_at] is a liveness table: for every command-machine state the scratch fields that
   are live there.  [norm sc s] overwrites the dead fields of [s] (and dead buffer contents) with
   fixed values; two states are related when their normal forms are equal.  During a flush the row
   of the continuation state [k_wafter] applies, plus the flush cursor.  [k_hold_exit] is live
   exactly in CS_HOLD or while [k_hold] is set.  The flag [sc] decides whether [k_cmd] is always
   compared ([sc = true]; it is observable through cat_get_processed) or follows the table.

   For every step function g of the command machine and its state X we prove the one-run fact
   [norm (g s) = norm (g (norm s))] ("g factors through norm in X"), which gives the two-run
   preservation.  Functions that only touch the event machine commute with any replacement of the
   command-machine record and working buffer ([uleaf]).  The world-level lemmas thread the oracles. *)
From Coq Require Import List NArith ZArith Bool Arith Lia.
From CatV Require Import Bytes Defs Codec Fsm Script.
Import ListNotations.
Local Open Scope nat_scope.

(* ---------------- liveness table ---------------- *)
Record mask := mkMask { m_index : bool; m_partial : bool; m_length : bool; m_position : bool;
                        m_cmd : bool; m_var : bool; m_type : bool; m_char : bool; m_he : bool; m_buf : bool }.

Definition mask_at (x : cstate) : mask :=
  match x with
  (*                               idx   part  len   pos   cmd   var   type  char  he    buf *)
  | CS_PARSE_COMMAND_CHAR   => mkMask true  false true  false false false true  false false true
  | CS_UPDATE_COMMAND_STATE => mkMask true  false true  false false false true  true  false true
  | CS_WAIT_READ_ACK        => mkMask false false false false false false true  false false true
  | CS_SEARCH_COMMAND       => mkMask true  true  false false true  false true  true  false true
  | CS_COMMAND_FOUND        => mkMask false false false false true  false true  false false true
  | CS_PARSE_COMMAND_ARGS   => mkMask false false true  false true  false false false false true
  | CS_PARSE_WRITE_ARGS     => mkMask true  false true  true  true  true  false false false true
  | CS_FORMAT_READ_ARGS     => mkMask true  false false true  true  true  false false false true
  | CS_WAIT_TEST_ACK        => mkMask false false false false true  false false false false true
  | CS_FORMAT_TEST_ARGS     => mkMask true  false false true  true  true  false false false true
  | CS_WRITE_LOOP           => mkMask true  false true  false true  false false false false true
  | CS_READ_LOOP            => mkMask false false false true  true  false false false false true
  | CS_TEST_LOOP            => mkMask false false false true  true  false false false false true
  | CS_RUN_LOOP             => mkMask false false false false true  false false false false true
  | CS_HOLD                 => mkMask false false false false false false false false true  false
  | CS_AFTER_FMT_READ       => mkMask false false false false true  false false false false true
  | CS_AFTER_FMT_TEST       => mkMask false false false false true  false false false false true
  | CS_PRINT_CMD            => mkMask true  false true  false false false true  false false true
  | _                       => mkMask false false false false false false false false false false
  end.

Definition in_flush (x : cstate) : bool :=
  match x with CS_FLUSH | CS_FLUSH_WAIT => true | _ => false end.

(* the state whose liveness row applies: during a flush, the continuation *)
Definition effk (kk : cfsm) : cstate := if in_flush (k_state kk) then k_wafter kk else k_state kk.

(* sc = true: k_cmd is always kept (it is observable through cat_get_processed) *)
Definition normk (sc : bool) (kk : cfsm) : cfsm :=
  let fl := in_flush (k_state kk) in
  let m := mask_at (effk kk) in
  mkCfsm (if m_index m then k_index kk else 0)
         (if m_partial m then k_partial kk else 0)
         (if m_length m then k_length kk else 0)
         (if fl || m_position m then k_position kk else 0)
         0
         (if m_cmd m || sc then k_cmd kk else None)
         (if m_var m then k_var kk else 0)
         (if m_type m then k_type kk else T_NONE)
         (if m_char m then k_char kk else 0%N)
         (k_state kk) (k_cr kk) (k_hold kk)
         (if k_hold kk || m_he m then k_hold_exit kk else 0%Z)
         (if fl then k_wbuf kk else WB_MAIN)
         (if fl then k_wstate kk else WS_BEFORE)
         (if fl then k_wafter kk else CS_IDLE)
         (k_implicit kk).

Definition buf_live (kk : cfsm) : bool := in_flush (k_state kk) || m_buf (mask_at (effk kk)).
Definition normb (kk : cfsm) (b : list N) : list N := if buf_live kk then b else repeat 0%N (length b).

Definition kswap (kk : cfsm) (b : list N) (s : state) : state :=
  mkState kk (u s) b (ubuf s) (mem s) (dis_cmd s) (dis_grp s) (fault s) (gL s) (gS s) (gR s).

Definition norm (sc : bool) (s : state) : state := kswap (normk sc (k s)) (normb (k s) (cbuf s)) s.


Ltac rs := cbv beta iota zeta delta [
  k u cbuf ubuf mem dis_cmd dis_grp fault gL gS gR
  k_index k_partial k_length k_position k_write_size k_cmd k_var k_type k_char k_state k_cr k_hold
  k_hold_exit k_wbuf k_wstate k_wafter k_implicit
  u_state u_index u_position u_cmd u_var u_type u_wbuf u_wstate u_wafter u_ring u_tail u_head u_count
  set_k set_u set_cbuf set_ubuf set_mem set_dis_cmd set_dis_grp set_fault set_gL set_gS set_gR
  set_k_index set_k_partial set_k_length set_k_position set_k_write_size set_k_cmd set_k_var set_k_type
  set_k_char set_k_state set_k_cr set_k_hold set_k_hold_exit set_k_wbuf set_k_wstate set_k_wafter set_k_implicit
  set_u_state set_u_index set_u_position set_u_cmd set_u_var set_u_type set_u_wbuf set_u_wstate set_u_wafter
  set_u_ring set_u_tail set_u_head set_u_count
  setk_index setk_partial setk_length setk_position setk_write_size setk_cmd setk_var setk_type
  setk_char setk_state setk_cr setk_hold setk_hold_exit setk_wbuf setk_wstate setk_wafter setk_implicit
  setu_state setu_index setu_position setu_cmd setu_var setu_type setu_wbuf setu_wstate setu_wafter
  setu_ring setu_tail setu_head setu_count
  g_pos setg_pos g_buf setg_buf g_cmd g_var setg_var g_index setg_index g_bsz asz usz set_fault_flag
  kswap norm normk normb buf_live effk in_flush mask_at
  m_index m_partial m_length m_position m_cmd m_var m_type m_char m_he m_buf
  fst snd cstate_beq ustate_beq ctype_beq fsm_beq wstate_beq cu_buf cu_pos cu_fault orb andb negb
  get_cur put_cur cur_set_pos cur_fault
  st io mu hs tr].

Ltac rs0 := cbv beta iota zeta delta [
  k u cbuf ubuf mem dis_cmd dis_grp fault gL gS gR
  k_index k_partial k_length k_position k_write_size k_cmd k_var k_type k_char k_state k_cr k_hold
  k_hold_exit k_wbuf k_wstate k_wafter k_implicit
  u_state u_index u_position u_cmd u_var u_type u_wbuf u_wstate u_wafter u_ring u_tail u_head u_count
  set_k set_u set_cbuf set_ubuf set_mem set_dis_cmd set_dis_grp set_fault set_gL set_gS set_gR
  set_k_index set_k_partial set_k_length set_k_position set_k_write_size set_k_cmd set_k_var set_k_type
  set_k_char set_k_state set_k_cr set_k_hold set_k_hold_exit set_k_wbuf set_k_wstate set_k_wafter set_k_implicit
  set_u_state set_u_index set_u_position set_u_cmd set_u_var set_u_type set_u_wbuf set_u_wstate set_u_wafter
  set_u_ring set_u_tail set_u_head set_u_count
  setk_index setk_partial setk_length setk_position setk_write_size setk_cmd setk_var setk_type
  setk_char setk_state setk_cr setk_hold setk_hold_exit setk_wbuf setk_wstate setk_wafter setk_implicit
  setu_state setu_index setu_position setu_cmd setu_var setu_type setu_wbuf setu_wstate setu_wafter
  setu_ring setu_tail setu_head setu_count
  g_pos setg_pos g_buf setg_buf g_cmd g_var setg_var g_index setg_index g_bsz asz usz set_fault_flag
      fst snd cstate_beq ustate_beq ctype_beq fsm_beq wstate_beq cu_buf cu_pos cu_fault orb andb negb
  get_cur put_cur cur_set_pos cur_fault
  st io mu hs tr].

Tactic Notation "rs" "in" hyp(H) := cbv beta iota zeta delta [
  k u cbuf ubuf mem dis_cmd dis_grp fault gL gS gR
  k_index k_partial k_length k_position k_write_size k_cmd k_var k_type k_char k_state k_cr k_hold
  k_hold_exit k_wbuf k_wstate k_wafter k_implicit
  u_state u_index u_position u_cmd u_var u_type u_wbuf u_wstate u_wafter u_ring u_tail u_head u_count
  set_k set_u set_cbuf set_ubuf set_mem set_dis_cmd set_dis_grp set_fault set_gL set_gS set_gR
  set_k_index set_k_partial set_k_length set_k_position set_k_write_size set_k_cmd set_k_var set_k_type
  set_k_char set_k_state set_k_cr set_k_hold set_k_hold_exit set_k_wbuf set_k_wstate set_k_wafter set_k_implicit
  set_u_state set_u_index set_u_position set_u_cmd set_u_var set_u_type set_u_wbuf set_u_wstate set_u_wafter
  set_u_ring set_u_tail set_u_head set_u_count
  setk_index setk_partial setk_length setk_position setk_write_size setk_cmd setk_var setk_type
  setk_char setk_state setk_cr setk_hold setk_hold_exit setk_wbuf setk_wstate setk_wafter setk_implicit
  setu_state setu_index setu_position setu_cmd setu_var setu_type setu_wbuf setu_wstate setu_wafter
  setu_ring setu_tail setu_head setu_count
  g_pos setg_pos g_buf setg_buf g_cmd g_var setg_var g_index setg_index g_bsz asz usz set_fault_flag
  kswap norm normk normb buf_live effk in_flush mask_at
  m_index m_partial m_length m_position m_cmd m_var m_type m_char m_he m_buf
  fst snd cstate_beq ustate_beq ctype_beq fsm_beq wstate_beq cu_buf cu_pos cu_fault orb andb negb
  get_cur put_cur cur_set_pos cur_fault
  st io mu hs tr] in H.

Tactic Notation "rs0" "in" hyp(H) := cbv beta iota zeta delta [
  k u cbuf ubuf mem dis_cmd dis_grp fault gL gS gR
  k_index k_partial k_length k_position k_write_size k_cmd k_var k_type k_char k_state k_cr k_hold
  k_hold_exit k_wbuf k_wstate k_wafter k_implicit
  u_state u_index u_position u_cmd u_var u_type u_wbuf u_wstate u_wafter u_ring u_tail u_head u_count
  set_k set_u set_cbuf set_ubuf set_mem set_dis_cmd set_dis_grp set_fault set_gL set_gS set_gR
  set_k_index set_k_partial set_k_length set_k_position set_k_write_size set_k_cmd set_k_var set_k_type
  set_k_char set_k_state set_k_cr set_k_hold set_k_hold_exit set_k_wbuf set_k_wstate set_k_wafter set_k_implicit
  set_u_state set_u_index set_u_position set_u_cmd set_u_var set_u_type set_u_wbuf set_u_wstate set_u_wafter
  set_u_ring set_u_tail set_u_head set_u_count
  setk_index setk_partial setk_length setk_position setk_write_size setk_cmd setk_var setk_type
  setk_char setk_state setk_cr setk_hold setk_hold_exit setk_wbuf setk_wstate setk_wafter setk_implicit
  setu_state setu_index setu_position setu_cmd setu_var setu_type setu_wbuf setu_wstate setu_wafter
  setu_ring setu_tail setu_head setu_count
  g_pos setg_pos g_buf setg_buf g_cmd g_var setg_var g_index setg_index g_bsz asz usz set_fault_flag
      fst snd cstate_beq ustate_beq ctype_beq fsm_beq wstate_beq cu_buf cu_pos cu_fault orb andb negb
  get_cur put_cur cur_set_pos cur_fault
  st io mu hs tr] in H.

Ltac smatch :=
  match goal with
  | |- context [match ?x with _ => _ end] =>
    lazymatch x with
    | context [match _ with _ => _ end] => fail
    | _ => destruct x
    end
  end.


(* ---------------- the relations ---------------- *)
Definition scratch_eq_gen (sc : bool) (s1 s2 : state) : Prop := norm sc s1 = norm sc s2.
(* the relation asked for: k_cmd is dead where the table says so *)
Definition scratch_eq : state -> state -> Prop := scratch_eq_gen false.
(* the variant in which k_cmd (observable through cat_get_processed) is always compared *)
Definition scratch_eq_cmd : state -> state -> Prop := scratch_eq_gen true.

Ltac fin := rs; rewrite ?repeat_length;
  repeat (match goal with |- context [match ?x with _ => _ end] => is_var x; destruct x end);
  reflexivity.

Ltac dstate s := destruct s as [[?i ?p ?l ?po ?ws ?c ?v ?t ?ch ?x ?cr ?h ?he ?wb ?wst ?wa ?im] ?uu ?b ?ub ?m ?dc ?dg ?f ?gl ?gs ?gr].

(* ---------------- generic facts about norm ---------------- *)
Lemma norm_idem sc s : norm sc (norm sc s) = norm sc s.
Proof.
  destruct s as [[i p l po ws c v t ch x cr h he wb wst wa im] uu b ub m dc dg f gl gs gr].
  destruct sc, h; destruct x; try (rs; rewrite ?repeat_length; reflexivity);
  destruct wa; rs; rewrite ?repeat_length; reflexivity.
Qed.

Lemma norm_kstate sc s : k_state (k (norm sc s)) = k_state (k s). Proof. reflexivity. Qed.
Lemma norm_kcr sc s : k_cr (k (norm sc s)) = k_cr (k s). Proof. reflexivity. Qed.
Lemma norm_khold sc s : k_hold (k (norm sc s)) = k_hold (k s). Proof. reflexivity. Qed.
Lemma norm_kimplicit sc s : k_implicit (k (norm sc s)) = k_implicit (k s). Proof. reflexivity. Qed.
Lemma norm_u sc s : u (norm sc s) = u s. Proof. reflexivity. Qed.
Lemma norm_ubuf sc s : ubuf (norm sc s) = ubuf s. Proof. reflexivity. Qed.
Lemma norm_mem sc s : mem (norm sc s) = mem s. Proof. reflexivity. Qed.
Lemma norm_dis_cmd sc s : dis_cmd (norm sc s) = dis_cmd s. Proof. reflexivity. Qed.
Lemma norm_dis_grp sc s : dis_grp (norm sc s) = dis_grp s. Proof. reflexivity. Qed.
Lemma norm_fault sc s : fault (norm sc s) = fault s. Proof. reflexivity. Qed.
Lemma norm_gL sc s : gL (norm sc s) = gL s. Proof. reflexivity. Qed.
Lemma norm_gS sc s : gS (norm sc s) = gS s. Proof. reflexivity. Qed.
Lemma norm_gR sc s : gR (norm sc s) = gR s. Proof. reflexivity. Qed.
Lemma norm_kcmd_true s : k_cmd (k (norm true s)) = k_cmd (k s).
Proof. unfold norm, kswap, normk. cbn [k k_cmd]. rewrite orb_true_r. reflexivity. Qed.
Lemma norm_cbuf_length sc s : length (cbuf (norm sc s)) = length (cbuf s).
Proof.
  unfold norm, kswap, normb. cbn [cbuf]. destruct (buf_live (k s)); [reflexivity | apply repeat_length].
Qed.

Lemma sq_refl sc s : scratch_eq_gen sc s s. Proof. reflexivity. Qed.
Lemma sq_sym sc s1 s2 : scratch_eq_gen sc s1 s2 -> scratch_eq_gen sc s2 s1.
Proof. unfold scratch_eq_gen; intros H; symmetry; exact H. Qed.
Lemma sq_trans sc s1 s2 s3 : scratch_eq_gen sc s1 s2 -> scratch_eq_gen sc s2 s3 -> scratch_eq_gen sc s1 s3.
Proof. unfold scratch_eq_gen; intros H1 H2; rewrite H1; exact H2. Qed.
Lemma sq_norm sc s : scratch_eq_gen sc s (norm sc s).
Proof. unfold scratch_eq_gen. symmetry. apply norm_idem. Qed.

Lemma sq_kstate sc s1 s2 : scratch_eq_gen sc s1 s2 -> k_state (k s1) = k_state (k s2).
Proof. intros H. rewrite <- (norm_kstate sc s1), <- (norm_kstate sc s2), H. reflexivity. Qed.
Lemma sq_u sc s1 s2 : scratch_eq_gen sc s1 s2 -> u s1 = u s2.
Proof. intros H. rewrite <- (norm_u sc s1), <- (norm_u sc s2), H. reflexivity. Qed.
Lemma sq_ubuf sc s1 s2 : scratch_eq_gen sc s1 s2 -> ubuf s1 = ubuf s2.
Proof. intros H. rewrite <- (norm_ubuf sc s1), <- (norm_ubuf sc s2), H. reflexivity. Qed.
Lemma sq_mem sc s1 s2 : scratch_eq_gen sc s1 s2 -> mem s1 = mem s2.
Proof. intros H. rewrite <- (norm_mem sc s1), <- (norm_mem sc s2), H. reflexivity. Qed.
Lemma sq_khold sc s1 s2 : scratch_eq_gen sc s1 s2 -> k_hold (k s1) = k_hold (k s2).
Proof. intros H. rewrite <- (norm_khold sc s1), <- (norm_khold sc s2), H. reflexivity. Qed.
Lemma sq_kcr sc s1 s2 : scratch_eq_gen sc s1 s2 -> k_cr (k s1) = k_cr (k s2).
Proof. intros H. rewrite <- (norm_kcr sc s1), <- (norm_kcr sc s2), H. reflexivity. Qed.
Lemma sq_kcmd_true s1 s2 : scratch_eq_gen true s1 s2 -> k_cmd (k s1) = k_cmd (k s2).
Proof. intros H. rewrite <- (norm_kcmd_true s1), <- (norm_kcmd_true s2), H. reflexivity. Qed.
Lemma sq_normk sc s1 s2 : scratch_eq_gen sc s1 s2 -> normk sc (k s1) = normk sc (k s2).
Proof. intros H. apply (f_equal k) in H. exact H. Qed.
Lemma sq_normb sc s1 s2 : scratch_eq_gen sc s1 s2 -> normb (k s1) (cbuf s1) = normb (k s2) (cbuf s2).
Proof. intros H. apply (f_equal cbuf) in H. exact H. Qed.

(* a step function that factors through norm in state X preserves the relation there *)
Definition factors_at (sc : bool) (X : cstate) (g : state -> state) : Prop :=
  forall s, k_state (k s) = X -> norm sc (g s) = norm sc (g (norm sc s)).
Definition sim_at (sc : bool) (X : cstate) (g : state -> state) : Prop :=
  forall s1 s2, scratch_eq_gen sc s1 s2 -> k_state (k s1) = X -> scratch_eq_gen sc (g s1) (g s2).
Definition factors (sc : bool) (g : state -> state) : Prop :=
  forall s, norm sc (g s) = norm sc (g (norm sc s)).
Definition sim (sc : bool) (g : state -> state) : Prop :=
  forall s1 s2, scratch_eq_gen sc s1 s2 -> scratch_eq_gen sc (g s1) (g s2).

Lemma sim_of_factors_at sc X g : factors_at sc X g -> sim_at sc X g.
Proof.
  intros F s1 s2 H HX. unfold scratch_eq_gen.
  rewrite (F s1 HX). rewrite (F s2); [| rewrite <- (sq_kstate _ _ _ H); exact HX].
  rewrite H. reflexivity.
Qed.
Lemma sim_of_factors sc g : factors sc g -> sim sc g.
Proof. intros F s1 s2 H. unfold scratch_eq_gen. rewrite (F s1), (F s2), H. reflexivity. Qed.
Lemma sim_at_of_sim sc X g : sim sc g -> sim_at sc X g.
Proof. intros F s1 s2 H _. apply F, H. Qed.

Lemma leaf_intro sc (g : state -> state) s :
  (forall s', s' = norm sc s -> norm sc (g s) = norm sc (g s')) -> norm sc (g s) = norm sc (g (norm sc s)).
Proof. intros H; apply H; reflexivity. Qed.

(* ---------------- functions that only touch the event-machine side ---------------- *)
Definition uleaf (g : state -> state) : Prop :=
  forall kk b s, k_cr kk = k_cr (k s) -> k_state kk = k_state (k s) ->
                 g (kswap kk b s) = kswap kk b (g s).

Lemma kswap_self s : kswap (k s) (cbuf s) s = s.
Proof. destruct s; reflexivity. Qed.

Lemma uleaf_k g s : uleaf g -> k (g s) = k s.
Proof.
  intros U. pose proof (U (k s) (cbuf s) s eq_refl eq_refl) as H. rewrite kswap_self in H.
  rewrite H at 1. reflexivity.
Qed.
Lemma uleaf_cbuf g s : uleaf g -> cbuf (g s) = cbuf s.
Proof.
  intros U. pose proof (U (k s) (cbuf s) s eq_refl eq_refl) as H. rewrite kswap_self in H.
  rewrite H at 1. reflexivity.
Qed.

Lemma uleaf_norm sc g : uleaf g -> forall s, norm sc (g s) = g (norm sc s).
Proof.
  intros U s. unfold norm. rewrite (uleaf_k g s U), (uleaf_cbuf g s U).
  symmetry. apply U; reflexivity.
Qed.

Lemma uleaf_sim sc g : uleaf g -> sim sc g.
Proof.
  intros U s1 s2 H. unfold scratch_eq_gen. rewrite !(uleaf_norm sc g U), H. reflexivity.
Qed.

Lemma uleaf_comp g1 g2 : uleaf g1 -> uleaf g2 -> uleaf (fun s => g2 (g1 s)).
Proof.
  intros U1 U2 kk b s Hc Hs. rewrite (U1 kk b s Hc Hs).
  apply U2; rewrite (uleaf_k g1 s U1); assumption.
Qed.

(* generic proof script for uleaf facts *)
Ltac uleaf_start :=
  let kk := fresh "kk" in let b := fresh "b" in let s := fresh "s" in
  let Hc := fresh "Hc" in let Hs := fresh "Hs" in
  intros kk b s Hc Hs;
  destruct s as [[?i ?p ?l ?po ?ws ?c ?v ?t ?ch ?x ?cr ?h ?he ?wb ?wst ?wa ?im] uu b0 ub m dc dg f gl gs gr];
  destruct kk as [?i ?p ?l ?po ?ws ?c ?v ?t ?ch ?x ?cr ?h ?he ?wb ?wst ?wa ?im];
  cbn [k k_cr k_state] in Hc, Hs; subst;
  match goal with
  | |- context [kswap ?K ?B (mkState ?a1 ?a2 ?a3 ?a4 ?a5 ?a6 ?a7 ?a8 ?a9 ?a10 ?a11)] =>
    change (kswap K B (mkState a1 a2 a3 a4 a5 a6 a7 a8 a9 a10 a11))
      with (mkState K a2 B a4 a5 a6 a7 a8 a9 a10 a11)
  end; cbv beta.

Ltac uleaf_go := rs0;
  repeat (smatch; rs0); unfold kswap; rs0; reflexivity.

Section C20.
Variable D : desc.
Variables ioS muS hS : Type.
Variable io_read : ioS -> ioS * option N.
Variable io_write : ioS -> N -> ioS * bool.
Variable mu_lock : muS -> muS * bool.
Variable mu_unlock : muS -> muS * bool.
Variable h_call : hS -> hreq -> hS * hres.

Notation world := (world ioS muS hS).
Notation step := (step D ioS muS hS io_read io_write mu_lock mu_unlock h_call).
Notation run := (run D ioS muS hS io_read io_write mu_lock mu_unlock h_call).
Notation do_op := (do_op D ioS muS hS io_read io_write mu_lock mu_unlock h_call).
Notation cmd_service := (cmd_service D ioS muS hS io_read io_write mu_lock mu_unlock h_call).
Notation service_body := (service_body D ioS muS hS io_read io_write mu_lock mu_unlock h_call).
Notation unsolicited_events_service := (unsolicited_events_service D ioS muS hS io_write mu_lock mu_unlock h_call).
Notation bracket := (bracket D ioS muS hS mu_lock mu_unlock).
Notation api_trigger := (api_trigger D ioS muS hS mu_lock mu_unlock).
Notation api_hold_exit := (api_hold_exit D ioS muS hS mu_lock mu_unlock).
Notation apply_icall := (apply_icall D ioS muS hS mu_lock mu_unlock).
Notation call_h := (call_h D ioS muS hS mu_lock mu_unlock h_call).
Notation busy := (busy ioS muS hS).
Notation upd_st := (upd_st ioS muS hS).
Notation logw := (logw ioS muS hS).
Notation set_st := (set_st ioS muS hS).
Notation set_io := (set_io ioS muS hS).
Notation set_mu := (set_mu ioS muS hS).
Notation set_hs := (set_hs ioS muS hS).
Notation reading := (reading ioS muS hS io_read).

(* ---------- event-side leaves ---------- *)
Lemma ul_set_fault_flag : uleaf set_fault_flag.
Proof. uleaf_start. uleaf_go. Qed.

Lemma ul_unsolicited_reset_state : uleaf unsolicited_reset_state.
Proof. uleaf_start. unfold unsolicited_reset_state. uleaf_go. Qed.

Lemma ul_spfra : uleaf (start_processing_format_read_args D UNSOL).
Proof.
  uleaf_start.
  unfold start_processing_format_read_args, cmd_of, print_string, end_with_error, set_loop_state,
    unsolicited_reset_state.
  uleaf_go.
Qed.

Lemma ul_spfta : uleaf (start_processing_format_test_args D UNSOL).
Proof.
  uleaf_start.
  unfold start_processing_format_test_args, print_response_test, cmd_of, print_string, print_strings,
    end_with_error, set_loop_state, start_flush_after_ok, start_flush_u, nl_chars, unsolicited_reset_state.
  uleaf_go.
Qed.

Lemma ul_format_test_args : uleaf (format_test_args D UNSOL).
Proof.
  uleaf_start.
  unfold format_test_args, next_format_var, print_response_test, cmd_of, print_string, print_strings,
    end_with_error, set_loop_state, start_flush_after_ok, start_flush_u, nl_chars, unsolicited_reset_state.
  uleaf_go.
Qed.

Lemma ul_pop_set hd n ci t :
  uleaf (fun s => setu_type t (setu_cmd (Some ci) (setu_count n (setu_head hd s)))).
Proof. uleaf_start. uleaf_go. Qed.

Lemma ul_check_unsolicited_buffers : uleaf (check_unsolicited_buffers D).
Proof.
  intros kk b s Hc Hs.
  unfold check_unsolicited_buffers, pop_unsolicited_cmd, ring_empty.
  change (u (kswap kk b s)) with (u s).
  destruct (u_count (u s) =? 0).
  - reflexivity.
  - destruct (nth_error (u_ring (u s)) (u_head (u s))) as [[ci t]|].
    + set (hd := if cap D <=? S (u_head (u s)) then 0 else S (u_head (u s))).
      set (n := u_count (u s) - 1).
      destruct t;
      try exact (ul_pop_set hd n ci _ kk b s Hc Hs).
      * exact (uleaf_comp _ _ (ul_pop_set hd n ci T_READ) ul_spfra kk b s Hc Hs).
      * exact (uleaf_comp _ _ (ul_pop_set hd n ci T_TEST) ul_spfta kk b s Hc Hs).
    + exact (ul_set_fault_flag kk b s Hc Hs).
Qed.

Lemma ul_upiww : uleaf unsolicited_process_io_write_wait.
Proof. uleaf_start. unfold unsolicited_process_io_write_wait. uleaf_go. Qed.

Lemma ul_apply_poke p : uleaf (fun s => apply_poke s p).
Proof. uleaf_start. unfold apply_poke. uleaf_go. Qed.

Lemma ul_fold_pokes ps : uleaf (fun s => fold_left apply_poke ps s).
Proof.
  induction ps as [|p r IH].
  - intros kk b s _ _. reflexivity.
  - cbn [fold_left]. apply (uleaf_comp (fun s => apply_poke s p) (fun s => fold_left apply_poke r s)).
    + apply ul_apply_poke.
    + exact IH.
Qed.

Lemma ul_push ci t : uleaf (fun s => fst (push_unsolicited_cmd D s ci t)).
Proof. uleaf_start. unfold push_unsolicited_cmd, ring_full. uleaf_go. Qed.
Lemma push_snd_kswap ci t kk b s :
  snd (push_unsolicited_cmd D (kswap kk b s) ci t) = snd (push_unsolicited_cmd D s ci t).
Proof. unfold push_unsolicited_cmd, ring_full. change (u (kswap kk b s)) with (u s). destruct (u_count (u s) =? cap D); reflexivity. Qed.

Lemma ul_apply_edit e : uleaf (apply_edit UNSOL e).
Proof. uleaf_start. unfold apply_edit. uleaf_go. Qed.

Lemma ul_set_dis_cmd i bb : uleaf (fun s => set_dis_cmd (set_flag (dis_cmd s) i bb) s).
Proof. uleaf_start. uleaf_go. Qed.
Lemma ul_set_dis_grp i bb : uleaf (fun s => set_dis_grp (set_flag (dis_grp s) i bb) s).
Proof. uleaf_start. uleaf_go. Qed.

(* ---------- facts that hold in every command-machine state ---------- *)
Ltac any_state_leaf unf :=
  let s := fresh "s" in
  intros s; dstate s;
  match goal with |- context [norm ?sc (mkState ?a1 ?a2 ?a3 ?a4 ?a5 ?a6 ?a7 ?a8 ?a9 ?a10 ?a11)] =>
    let s' := fresh "s'" in let E := fresh "E" in
    remember (norm sc (mkState a1 a2 a3 a4 a5 a6 a7 a8 a9 a10 a11)) as s' eqn:E;
    match goal with x : cstate, wa : cstate |- _ =>
      destruct x; try (rs in E; subst s'; unf; rs0; repeat (smatch; rs0); fin);
      destruct wa; rs in E; subst s'; unf; rs0; repeat (smatch; rs0); fin
    end
  end.

Lemma fc_ack_error sc : factors sc ack_error.
Proof. any_state_leaf ltac:(unfold ack_error, start_flush_c, strncpy_buf). Qed.
Lemma fc_ack_ok sc : factors sc ack_ok.
Proof. any_state_leaf ltac:(unfold ack_ok, start_flush_c, strncpy_buf). Qed.
Lemma fc_enable_hold_state sc : factors sc enable_hold_state.
Proof. any_state_leaf ltac:(unfold enable_hold_state). Qed.

Lemma hold_exit_norm sc st0 s :
  norm sc (fst (hold_exit s st0)) = fst (hold_exit (norm sc s) st0) /\
  snd (hold_exit (norm sc s) st0) = snd (hold_exit s st0).
Proof.
  dstate s. unfold hold_exit. rs0. destruct h; rs0; split; reflexivity.
Qed.

Lemma sim_hold_exit sc st0 : sim sc (fun s => fst (hold_exit s st0)).
Proof.
  intros s1 s2 H. unfold scratch_eq_gen.
  rewrite (proj1 (hold_exit_norm sc st0 s1)), (proj1 (hold_exit_norm sc st0 s2)), H. reflexivity.
Qed.
Lemma hold_exit_snd_eq sc st0 s1 s2 : scratch_eq_gen sc s1 s2 ->
  snd (hold_exit s1 st0) = snd (hold_exit s2 st0).
Proof.
  intros H. rewrite <- (proj2 (hold_exit_norm sc st0 s1)), <- (proj2 (hold_exit_norm sc st0 s2)), H.
  reflexivity.
Qed.
Lemma hold_exit_kstate s st0 : k_state (k (fst (hold_exit s st0))) = k_state (k s).
Proof. unfold hold_exit. destruct (negb (k_hold (k s))); reflexivity. Qed.

Lemma sim_comp sc g1 g2 : sim sc g1 -> sim sc g2 -> sim sc (fun s => g2 (g1 s)).
Proof. intros S1 S2 s1 s2 H. apply S2, S1, H. Qed.

End C20.

(* ---------- command-machine leaves, state by state ---------- *)
Definition rd_step (body : N -> state -> state) (ch : N) (s : state) : state :=
  let ch' := if cstate_beq (k_state (k s)) CS_PARSE_COMMAND_ARGS then ch else to_upper ch in
  let s1 := setk_char ch' s in
  let s2 := if (ch' =? ch_LF)%N && negb (cstate_beq (k_state (k s)) CS_IDLE)
            then set_gL (S (gL s1)) s1 else s1 in
  body ch' s2.

Definition body_error (ch : N) (s : state) : state :=
  if (ch =? ch_LF)%N then ack_error s
  else if (ch =? ch_CR)%N then setk_cr true s
  else s.
Definition body_idle (ch : N) (s : state) : state :=
  if (ch =? ch_A)%N then setk_state CS_PARSE_PREFIX s
  else if (ch =? ch_LF)%N || (ch =? ch_CR)%N then s
  else setk_state CS_ERROR s.
Definition body_prefix (ch : N) (s : state) : state :=
  if (ch =? ch_T)%N then s |> prepare_parse_command |> setk_state CS_PARSE_COMMAND_CHAR
  else if (ch =? ch_LF)%N then ack_error s
  else if (ch =? ch_CR)%N then setk_cr true s
  else setk_state CS_ERROR s.
Definition body_parse_command (ch : N) (s : state) : state :=
  if (ch =? ch_LF)%N then
    if negb (k_length (k s) =? 0) then s |> prepare_search_command |> setk_state CS_SEARCH_COMMAND
    else ack_ok s
  else if (ch =? ch_CR)%N then setk_cr true s
  else if (ch =? ch_QM)%N then
    if k_length (k s) =? 0 then setk_state CS_ERROR s
    else s |> setk_type T_READ |> setk_state CS_WAIT_READ_ACK
  else if (ch =? ch_EQ)%N then
    if k_length (k s) =? 0 then setk_state CS_ERROR s
    else s |> setk_type T_WRITE |> prepare_search_command |> setk_state CS_SEARCH_COMMAND
  else if is_name_char ch then
    s |> setk_length (S (k_length (k s))) |> setk_state CS_UPDATE_COMMAND_STATE
  else setk_state CS_ERROR s.
Definition body_wait_read (ch : N) (s : state) : state :=
  if (ch =? ch_LF)%N then s |> prepare_search_command |> setk_state CS_SEARCH_COMMAND
  else if (ch =? ch_CR)%N then setk_cr true s
  else setk_state CS_ERROR s.

Ltac cleaf unf :=
  let s := fresh "s" in let HX := fresh "HX" in
  intros s HX; dstate s; cbn [k k_state] in HX; subst;
  match goal with |- context [norm ?sc (mkState ?a1 ?a2 ?a3 ?a4 ?a5 ?a6 ?a7 ?a8 ?a9 ?a10 ?a11)] =>
    let s' := fresh "s'" in let E := fresh "E" in
    remember (norm sc (mkState a1 a2 a3 a4 a5 a6 a7 a8 a9 a10 a11)) as s' eqn:E;
    rs in E; subst s'; unf; rs0; repeat (smatch; rs0); fin
  end.

Section C20b.
Variable D : desc.
Variables ioS muS hS : Type.
Variable io_read : ioS -> ioS * option N.
Variable io_write : ioS -> N -> ioS * bool.
Variable mu_lock : muS -> muS * bool.
Variable mu_unlock : muS -> muS * bool.
Variable h_call : hS -> hreq -> hS * hres.

Notation world := (world ioS muS hS).
Notation step := (step D ioS muS hS io_read io_write mu_lock mu_unlock h_call).
Notation run := (run D ioS muS hS io_read io_write mu_lock mu_unlock h_call).
Notation do_op := (do_op D ioS muS hS io_read io_write mu_lock mu_unlock h_call).
Notation cmd_service := (cmd_service D ioS muS hS io_read io_write mu_lock mu_unlock h_call).
Notation service_body := (service_body D ioS muS hS io_read io_write mu_lock mu_unlock h_call).
Notation unsolicited_events_service := (unsolicited_events_service D ioS muS hS io_write mu_lock mu_unlock h_call).
Notation bracket := (bracket D ioS muS hS mu_lock mu_unlock).
Notation api_trigger := (api_trigger D ioS muS hS mu_lock mu_unlock).
Notation api_hold_exit := (api_hold_exit D ioS muS hS mu_lock mu_unlock).
Notation apply_icall := (apply_icall D ioS muS hS mu_lock mu_unlock).
Notation call_h := (call_h D ioS muS hS mu_lock mu_unlock h_call).
Notation busy := (busy ioS muS hS).
Notation upd_st := (upd_st ioS muS hS).
Notation logw := (logw ioS muS hS).
Notation set_st := (set_st ioS muS hS).
Notation set_io := (set_io ioS muS hS).
Notation set_mu := (set_mu ioS muS hS).
Notation set_hs := (set_hs ioS muS hS).
Notation reading := (reading ioS muS hS io_read).
Notation st := (Fsm.st ioS muS hS).
Notation io := (Fsm.io ioS muS hS).
Notation mu := (Fsm.mu ioS muS hS).
Notation hs := (Fsm.hs ioS muS hS).
Notation tr := (Fsm.tr ioS muS hS).
Notation mkWorld := (Fsm.mkWorld ioS muS hS).

Definition body_wait_test (ch : N) (s : state) : state :=
  if (ch =? ch_LF)%N then start_processing_format_test_args D ATCMD s
  else if (ch =? ch_CR)%N then setk_cr true s
  else setk_state CS_ERROR s.
Definition body_parse_args (ch : N) (s : state) : state :=
  match cmd_of D ATCMD s with
  | None => set_fault_flag s
  | Some c =>
    if (ch =? ch_LF)%N then
      if c_only_test c then ack_error s
      else if vars_access_possible c WO then
        s |> setk_state CS_PARSE_WRITE_ARGS |> setk_position 0 |> setk_index 0 |> setk_var 0
      else if negb (c_hwrite c) then ack_error s
      else s |> setk_index 0 |> setk_state CS_WRITE_LOOP
    else if (ch =? ch_CR)%N then setk_cr true s
    else if (k_length (k s) =? 0) && (ch =? ch_QM)%N
            && (c_htest c || match c_vars c with [] => false | _ => true end)
            && negb (c_implicit c)
    then s |> setk_type T_TEST |> setk_state CS_WAIT_TEST_ACK
    else
      let len := k_length (k s) in
      if asz s <=? len then setk_state CS_ERROR s
      else
        let s1 := s |> set_cbuf (upd (cbuf s) len ch) |> setk_length (S len) in
        if S len <? asz s1 then set_cbuf (upd (cbuf s1) (S len) 0%N) s1
        else setk_state CS_ERROR s1
  end.

Lemma lf_error sc ch : factors_at sc CS_ERROR (rd_step body_error ch).
Proof. cleaf ltac:(unfold rd_step, body_error, ack_error, start_flush_c, strncpy_buf). Qed.
Lemma lf_idle sc ch : factors_at sc CS_IDLE (rd_step body_idle ch).
Proof. cleaf ltac:(unfold rd_step, body_idle). Qed.
Lemma lf_prefix sc ch : factors_at sc CS_PARSE_PREFIX (rd_step body_prefix ch).
Proof. cleaf ltac:(unfold rd_step, body_prefix, prepare_parse_command, ack_error, start_flush_c, strncpy_buf). Qed.
Lemma lf_parse_command sc ch : factors_at sc CS_PARSE_COMMAND_CHAR (rd_step body_parse_command ch).
Proof. cleaf ltac:(unfold rd_step, body_parse_command, prepare_search_command, ack_ok, start_flush_c, strncpy_buf). Qed.
Lemma lf_wait_read sc ch : factors_at sc CS_WAIT_READ_ACK (rd_step body_wait_read ch).
Proof. cleaf ltac:(unfold rd_step, body_wait_read, prepare_search_command). Qed.

Ltac unf_spft := unfold start_processing_format_test_args, print_response_test, cmd_of, cmd_at, print_string, print_strings,
    end_with_error, set_loop_state, start_flush_after_ok, start_flush_c, nl_chars, ack_error, strncpy_buf.
Ltac unf_spfr := unfold start_processing_format_read_args, cmd_of, cmd_at, print_string, end_with_error, set_loop_state,
    ack_error, start_flush_c, strncpy_buf.

Lemma lf_wait_test sc ch : factors_at sc CS_WAIT_TEST_ACK (rd_step body_wait_test ch).
Proof. cleaf ltac:(unfold rd_step, body_wait_test; unf_spft). Qed.
Lemma lf_parse_args sc ch : factors_at sc CS_PARSE_COMMAND_ARGS (rd_step body_parse_args ch).
Proof. cleaf ltac:(unfold rd_step, body_parse_args, cmd_of, cmd_at, ack_error, start_flush_c, strncpy_buf). Qed.

End C20b.

Ltac cleaf_flush unf :=
  let s := fresh "s" in let HX := fresh "HX" in
  intros s HX; dstate s; cbn [k k_state] in HX; subst;
  match goal with |- context [norm ?sc (mkState ?a1 ?a2 ?a3 ?a4 ?a5 ?a6 ?a7 ?a8 ?a9 ?a10 ?a11)] =>
    let s' := fresh "s'" in let E := fresh "E" in
    remember (norm sc (mkState a1 a2 a3 a4 a5 a6 a7 a8 a9 a10 a11)) as s' eqn:E;
    match goal with wa : cstate |- _ => destruct wa end;
    rs in E; subst s'; unf; rs0; repeat (smatch; rs0); fin
  end.

Ltac cleaf_pre pre unf :=
  let s := fresh "s" in let HX := fresh "HX" in
  intros s HX; dstate s; cbn [k k_state] in HX; subst; pre;
  match goal with |- context [norm ?sc (mkState ?a1 ?a2 ?a3 ?a4 ?a5 ?a6 ?a7 ?a8 ?a9 ?a10 ?a11)] =>
    let s' := fresh "s'" in let E := fresh "E" in
    remember (norm sc (mkState a1 a2 a3 a4 a5 a6 a7 a8 a9 a10 a11)) as s' eqn:E;
    rs in E; subst s'; unf; rs0; repeat (smatch; rs0); fin
  end.

Section C20c.
Variable D : desc.
Variables ioS muS hS : Type.
Variable io_read : ioS -> ioS * option N.
Variable io_write : ioS -> N -> ioS * bool.
Variable mu_lock : muS -> muS * bool.
Variable mu_unlock : muS -> muS * bool.
Variable h_call : hS -> hreq -> hS * hres.

Notation world := (world ioS muS hS).
Notation step := (step D ioS muS hS io_read io_write mu_lock mu_unlock h_call).
Notation run := (run D ioS muS hS io_read io_write mu_lock mu_unlock h_call).
Notation do_op := (do_op D ioS muS hS io_read io_write mu_lock mu_unlock h_call).
Notation cmd_service := (cmd_service D ioS muS hS io_read io_write mu_lock mu_unlock h_call).
Notation service_body := (service_body D ioS muS hS io_read io_write mu_lock mu_unlock h_call).
Notation unsolicited_events_service := (unsolicited_events_service D ioS muS hS io_write mu_lock mu_unlock h_call).
Notation bracket := (bracket D ioS muS hS mu_lock mu_unlock).
Notation api_trigger := (api_trigger D ioS muS hS mu_lock mu_unlock).
Notation api_hold_exit := (api_hold_exit D ioS muS hS mu_lock mu_unlock).
Notation apply_icall := (apply_icall D ioS muS hS mu_lock mu_unlock).
Notation call_h := (call_h D ioS muS hS mu_lock mu_unlock h_call).
Notation busy := (busy ioS muS hS).
Notation upd_st := (upd_st ioS muS hS).
Notation logw := (logw ioS muS hS).
Notation set_st := (set_st ioS muS hS).
Notation set_io := (set_io ioS muS hS).
Notation set_mu := (set_mu ioS muS hS).
Notation set_hs := (set_hs ioS muS hS).
Notation reading := (reading ioS muS hS io_read).
Notation st := (Fsm.st ioS muS hS).
Notation io := (Fsm.io ioS muS hS).
Notation mu := (Fsm.mu ioS muS hS).
Notation hs := (Fsm.hs ioS muS hS).
Notation tr := (Fsm.tr ioS muS hS).
Notation mkWorld := (Fsm.mkWorld ioS muS hS).

Ltac unf_spft := unfold start_processing_format_test_args, print_response_test, cmd_of, cmd_at, print_string, print_strings,
    end_with_error, set_loop_state, start_flush_after_ok, start_flush_c, nl_chars, ack_error, strncpy_buf.
Ltac unf_spfr := unfold start_processing_format_read_args, cmd_of, cmd_at, print_string, end_with_error, set_loop_state,
    ack_error, start_flush_c, strncpy_buf.

Definition uc_mark (c : cmd) (cs : N) (s : state) : state :=
  let i := k_index (k s) in
  if negb (cs =? CMD_NOT_MATCH)%N then
    let nlen := length (c_name c) in
    if nlen <? k_length (k s) then set_cmd_state s i CMD_NOT_MATCH
    else match k_length (k s) with
         | O => set_fault_flag s
         | S l1 =>
           match nth_error (c_name c) l1 with
           | None => set_fault_flag s
           | Some nc =>
             if negb (to_upper nc =? k_char (k s))%N then set_cmd_state s i CMD_NOT_MATCH
             else if k_length (k s) =? nlen then
               let s' := set_cmd_state s i CMD_FULL in
               if c_implicit c then setk_implicit true s' else s'
             else s
           end
         end
  else s.

Definition uc_tail (i : nat) (s1 : state) : state :=
  let i' := S i in
  if ncmds D <=? i' then
    let s2 := setk_index 0 s1 in
    if negb (k_implicit (k s2)) then setk_state CS_PARSE_COMMAND_CHAR s2
    else s2 |> setk_type T_WRITE |> prepare_search_command
            |> setk_state CS_SEARCH_COMMAND |> setk_implicit false
  else setk_index i' s1.

Lemma update_command_eq s :
  update_command D s =
  match cmd_by_index (d_groups D) (k_index (k s)) with
  | None => set_fault_flag s
  | Some c => match get_cmd_state D s (k_index (k s)) with
              | None => set_fault_flag s
              | Some cs => uc_tail (k_index (k s)) (uc_mark c cs s)
              end
  end.
Proof. reflexivity. Qed.

Lemma lf_uc_mark sc c cs : factors_at sc CS_UPDATE_COMMAND_STATE (uc_mark c cs).
Proof. cleaf ltac:(unfold uc_mark, set_cmd_state). Qed.
Lemma lf_uc_tail sc i : factors_at sc CS_UPDATE_COMMAND_STATE (uc_tail i).
Proof. cleaf ltac:(unfold uc_tail, prepare_search_command). Qed.
Lemma uc_mark_kstate c cs s : k_state (k (uc_mark c cs s)) = k_state (k s).
Proof.
  unfold uc_mark, set_cmd_state, set_fault_flag.
  repeat smatch; reflexivity.
Qed.

Lemma factors_at_comp sc X g1 g2 :
  factors_at sc X g1 -> (forall s, k_state (k (g1 s)) = k_state (k s)) -> factors_at sc X g2 ->
  factors_at sc X (fun s => g2 (g1 s)).
Proof.
  intros F1 K1 F2 s HX.
  rewrite (F2 (g1 s)) by (rewrite K1; exact HX).
  rewrite (F1 s HX).
  rewrite <- (F2 (g1 (norm sc s))) by (rewrite K1; exact HX).
  reflexivity.
Qed.

Lemma factors_fault sc : factors sc set_fault_flag.
Proof. intros s. rewrite !(uleaf_norm sc _ ul_set_fault_flag), norm_idem. reflexivity. Qed.

Lemma lf_update_command sc : factors_at sc CS_UPDATE_COMMAND_STATE (update_command D).
Proof.
  intros s HX.
  assert (Hi : k_index (k (norm sc s)) = k_index (k s))
    by (dstate s; cbn [k k_state] in HX; subst; reflexivity).
  assert (Hg : forall j, get_cmd_state D (norm sc s) j = get_cmd_state D s j)
    by (intros j; dstate s; cbn [k k_state] in HX; subst; reflexivity).
  rewrite (update_command_eq s), (update_command_eq (norm sc s)), Hi, Hg.
  destruct (cmd_by_index (d_groups D) (k_index (k s))) as [c|]; [| apply factors_fault].
  destruct (get_cmd_state D s (k_index (k s))) as [cs|]; [| apply factors_fault].
  apply (factors_at_comp sc CS_UPDATE_COMMAND_STATE (uc_mark c cs) (uc_tail (k_index (k s)))).
  - apply lf_uc_mark.
  - apply uc_mark_kstate.
  - apply lf_uc_tail.
  - exact HX.
Qed.

Lemma lf_search_command sc : factors_at sc CS_SEARCH_COMMAND (search_command D).
Proof.
  cleaf ltac:(unfold search_command, get_cmd_state, is_command_disable).
Qed.

Lemma lf_command_found sc : factors_at sc CS_COMMAND_FOUND (command_found D).
Proof.
  cleaf ltac:(unfold command_found; unf_spfr).
Qed.

Lemma lf_format_test_args sc : factors_at sc CS_FORMAT_TEST_ARGS (format_test_args D ATCMD).
Proof.
  cleaf ltac:(unfold format_test_args, next_format_var, print_response_test, cmd_of, cmd_at, print_string, print_strings,
    end_with_error, set_loop_state, start_flush_after_ok, start_flush_c, nl_chars, ack_error, strncpy_buf).
Qed.

Lemma lf_process_hold_state sc : factors_at sc CS_HOLD process_hold_state.
Proof. cleaf_pre ltac:(destruct h) ltac:(unfold process_hold_state, ack_error, ack_ok, start_flush_c, strncpy_buf). Qed.

Lemma lf_process_io_write_wait sc : factors_at sc CS_FLUSH_WAIT process_io_write_wait.
Proof. cleaf_flush ltac:(unfold process_io_write_wait). Qed.

Lemma lf_reset_state sc : factors_at sc CS_AFTER_RESET reset_state.
Proof. cleaf ltac:(unfold reset_state). Qed.

Lemma lf_after_fmt_read sc : factors_at sc CS_AFTER_FMT_READ (start_processing_format_read_args D ATCMD).
Proof. cleaf ltac:(unf_spfr). Qed.
Lemma lf_after_fmt_test sc : factors_at sc CS_AFTER_FMT_TEST (start_processing_format_test_args D ATCMD).
Proof. cleaf ltac:(unf_spft). Qed.

Definition pcl_next (s : state) : state :=
  let (s1, more) := cmd_list_next_cmd D s in if more then s1 else ack_ok s1.
Definition pcl_none (i : nat) (c : cmd) (s : state) : state :=
  if is_command_disable D s i then pcl_next s
  else setk_type (if c_only_test c then T_TEST else T_RUN) s.
Definition pcl_form (c : cmd) (avail : bool) (suffix : list N) (next : ctype) (s : state) : state :=
  print_cmd_form s c avail suffix next.
Definition pcl_body (i : nat) (c : cmd) (s : state) : state :=
  match k_type (k s) with
  | T_NONE => pcl_none i c s
  | T_RUN => pcl_form c (c_hrun c) [] T_READ s
  | T_READ => pcl_form c (c_hread c || vars_access_possible c RO) [ch_QM] T_WRITE s
  | T_WRITE => pcl_form c (c_hwrite c || vars_access_possible c WO) [ch_EQ] T_TEST s
  | T_TEST => pcl_form c (c_htest c || match c_vars c with [] => false | _ => true end) [ch_EQ; ch_QM] T_TOTAL s
  | T_TOTAL => pcl_next s
  end.

Lemma print_cmd_list_eq s :
  print_cmd_list D s =
  match cmd_by_index (d_groups D) (k_index (k s)) with
  | None => set_fault_flag s
  | Some c => pcl_body (k_index (k s)) c (setk_cmd (Some (k_index (k s))) s)
  end.
Proof. reflexivity. Qed.

Lemma lf_pcl_setcmd sc j : factors_at sc CS_PRINT_CMD (setk_cmd (Some j)).
Proof. cleaf ltac:(idtac). Qed.
Lemma lf_pcl_next sc : factors_at sc CS_PRINT_CMD pcl_next.
Proof. cleaf ltac:(unfold pcl_next, cmd_list_next_cmd, ack_ok, start_flush_c, strncpy_buf). Qed.
Lemma lf_pcl_none sc i c : factors_at sc CS_PRINT_CMD (pcl_none i c).
Proof. cleaf ltac:(unfold pcl_none, is_command_disable, pcl_next, cmd_list_next_cmd, ack_ok, start_flush_c, strncpy_buf). Qed.
Lemma lf_pcl_form sc c avail suffix next : factors_at sc CS_PRINT_CMD (pcl_form c avail suffix next).
Proof.
  cleaf ltac:(unfold pcl_form, print_cmd_form, print_current_cmd_full_name,
    print_string, print_strings, nl_chars, start_flush_raw_c, ack_error, start_flush_c, strncpy_buf).
Qed.

Lemma lf_pcl_body sc i c : factors_at sc CS_PRINT_CMD (pcl_body i c).
Proof.
  intros s HX. unfold pcl_body.
  assert (Ht : k_type (k (norm sc s)) = k_type (k s))
    by (dstate s; cbn [k k_state] in HX; subst; reflexivity).
  rewrite Ht. destruct (k_type (k s)).
  - apply lf_pcl_none, HX.
  - apply lf_pcl_form, HX.
  - apply lf_pcl_form, HX.
  - apply lf_pcl_form, HX.
  - apply lf_pcl_form, HX.
  - apply lf_pcl_next, HX.
Qed.

Lemma lf_print_cmd_list sc : factors_at sc CS_PRINT_CMD (print_cmd_list D).
Proof.
  intros s HX.
  assert (Hi : k_index (k (norm sc s)) = k_index (k s))
    by (dstate s; cbn [k k_state] in HX; subst; reflexivity).
  rewrite (print_cmd_list_eq s), (print_cmd_list_eq (norm sc s)), Hi.
  destruct (cmd_by_index (d_groups D) (k_index (k s))) as [c|]; [| apply factors_fault].
  apply (factors_at_comp sc CS_PRINT_CMD (setk_cmd (Some (k_index (k s)))) (pcl_body (k_index (k s)) c)).
  - apply lf_pcl_setcmd.
  - reflexivity.
  - apply lf_pcl_body.
  - exact HX.
Qed.

End C20c.

Section C20d.
Variable D : desc.
Variables ioS muS hS : Type.
Variable io_read : ioS -> ioS * option N.
Variable io_write : ioS -> N -> ioS * bool.
Variable mu_lock : muS -> muS * bool.
Variable mu_unlock : muS -> muS * bool.
Variable h_call : hS -> hreq -> hS * hres.

Notation world := (world ioS muS hS).
Notation step := (step D ioS muS hS io_read io_write mu_lock mu_unlock h_call).
Notation run := (run D ioS muS hS io_read io_write mu_lock mu_unlock h_call).
Notation do_op := (do_op D ioS muS hS io_read io_write mu_lock mu_unlock h_call).
Notation cmd_service := (cmd_service D ioS muS hS io_read io_write mu_lock mu_unlock h_call).
Notation service_body := (service_body D ioS muS hS io_read io_write mu_lock mu_unlock h_call).
Notation unsolicited_events_service := (unsolicited_events_service D ioS muS hS io_write mu_lock mu_unlock h_call).
Notation bracket := (bracket D ioS muS hS mu_lock mu_unlock).
Notation api_trigger := (api_trigger D ioS muS hS mu_lock mu_unlock).
Notation api_hold_exit := (api_hold_exit D ioS muS hS mu_lock mu_unlock).
Notation apply_icall := (apply_icall D ioS muS hS mu_lock mu_unlock).
Notation call_h := (call_h D ioS muS hS mu_lock mu_unlock h_call).
Notation busy := (busy ioS muS hS).
Notation upd_st := (upd_st ioS muS hS).
Notation logw := (logw ioS muS hS).
Notation set_st := (set_st ioS muS hS).
Notation set_io := (set_io ioS muS hS).
Notation set_mu := (set_mu ioS muS hS).
Notation set_hs := (set_hs ioS muS hS).
Notation reading := (reading ioS muS hS io_read).
Notation st := (Fsm.st ioS muS hS).
Notation io := (Fsm.io ioS muS hS).
Notation mu := (Fsm.mu ioS muS hS).
Notation hs := (Fsm.hs ioS muS hS).
Notation tr := (Fsm.tr ioS muS hS).
Notation mkWorld := (Fsm.mkWorld ioS muS hS).

(* ---- the pieces of the states that call handlers ---- *)
Definition pwa_pre (p : nat) (m' : list (list N)) (s : state) : state :=
  s |> setk_position p |> set_mem m'.
Definition pwa_post (c : cmd) (comma : bool) (s : state) : state :=
  let idx := S (k_index (k s)) in
  let s := setk_index idx s in
  if (idx <? length (c_vars c)) && comma then setk_var idx s
  else if comma then ack_error s
  else if c_need_all c && negb (idx =? length (c_vars c)) then ack_error s
  else if negb (c_hwrite c) then ack_ok s
  else setk_state CS_WRITE_LOOP s.

Definition fra_post (f : fsm) (v : var) (c : cmd) (s : state) : state :=
  match nth_error (mem s) (v_slot v) with
  | None => set_fault_flag s
  | Some data =>
    let (c1, ok) := fmt_var v data (get_cur f s) in
    let s1 := put_cur f c1 s in
    if negb ok then end_with_error f s1
    else
      let (s2, handled) := next_format_var D f s1 in
      if handled then s2
      else if c_hread c then set_loop_state f true s2
      else start_flush_after_ok f s2
  end.

Definition post_write_loop (code : Z) (s : state) : state :=
  if (code =? RC_OK)%Z || (code =? RC_DATA_OK)%Z then ack_ok s
  else if (code =? RC_DATA_NEXT)%Z || (code =? RC_NEXT)%Z then s
  else if (code =? RC_HOLD)%Z then enable_hold_state s
  else ack_error s.
Definition post_run_loop (code : Z) (s : state) : state :=
  if (code =? RC_OK)%Z || (code =? RC_DATA_OK)%Z then ack_ok s
  else if (code =? RC_DATA_NEXT)%Z || (code =? RC_NEXT)%Z then s
  else if (code =? RC_HOLD)%Z then enable_hold_state s
  else if (code =? RC_PRINT_CMD_LIST_OK)%Z then start_print_cmd_list D s
  else ack_error s.
Definition rt_post (rd : bool) (f : fsm) (e : option (list N)) (code : Z) (s : state) : state :=
  let s := apply_edit f e s in
  if (code =? RC_OK)%Z then end_with_ok f s
  else if (code =? RC_DATA_OK)%Z then start_flush_after f CS_AFTER_OK US_AFTER_OK s
  else if (code =? RC_DATA_NEXT)%Z then
    (if rd then start_flush_after f CS_AFTER_FMT_READ US_AFTER_FMT_READ s
     else start_flush_after f CS_AFTER_FMT_TEST US_AFTER_FMT_TEST s)
  else if (code =? RC_NEXT)%Z then
    (if rd then start_processing_format_read_args D f s
     else start_processing_format_test_args D f s)
  else if (code =? RC_HOLD)%Z then enable_hold_state s
  else if (code =? RC_HOLD_EXIT_OK)%Z then end_with_ok f (fst (hold_exit s ST_OK))
  else if (code =? RC_HOLD_EXIT_ERROR)%Z then end_with_error f (fst (hold_exit s ST_ERROR))
  else if (code =? RC_PRINT_CMD_LIST_OK)%Z && negb rd then
    match f with ATCMD => start_print_cmd_list D s | UNSOL => end_with_ok f s end
  else end_with_error f s.

Definition iow_done (s : state) : state :=
  match k_wstate (k s) with
  | WS_BEFORE => s |> setk_position 0 |> setk_wbuf WB_MAIN |> setk_wstate WS_MAIN
  | WS_MAIN => s |> setk_position 0 |> setk_wbuf (WB_NL (k_cr (k s))) |> setk_wstate WS_AFTER
  | WS_AFTER =>
    let s1 := setk_state (k_wafter (k s)) s in
    if cstate_beq (k_wafter (k s)) CS_AFTER_RESET then set_gR (S (gR s1)) s1 else s1
  end.
Definition iow_adv (s : state) : state := setk_position (S (k_position (k s))) s.
Definition uiow_done (s : state) : state :=
  match u_wstate (u s) with
  | WS_BEFORE => s |> setu_position 0 |> setu_wbuf WB_MAIN |> setu_wstate WS_MAIN
  | WS_MAIN => s |> setu_position 0 |> setu_wbuf (WB_NL (k_cr (k s))) |> setu_wstate WS_AFTER
  | WS_AFTER => setu_state (u_wafter (u s)) s
  end.
Definition uiow_adv (s : state) : state := setu_position (S (u_position (u s))) s.

Ltac unf_spft := unfold start_processing_format_test_args, print_response_test, cmd_of, cmd_at, print_string, print_strings,
    end_with_error, set_loop_state, start_flush_after_ok, start_flush_c, nl_chars, ack_error, strncpy_buf.
Ltac unf_spfr := unfold start_processing_format_read_args, cmd_of, cmd_at, print_string, end_with_error, set_loop_state,
    ack_error, start_flush_c, strncpy_buf.

Lemma lf_pwa_pre sc p m' : factors_at sc CS_PARSE_WRITE_ARGS (pwa_pre p m').
Proof. cleaf ltac:(unfold pwa_pre). Qed.
Lemma pwa_pre_kstate p m' s : k_state (k (pwa_pre p m' s)) = k_state (k s).
Proof. reflexivity. Qed.
Lemma lf_pwa_ws sc wsz : factors_at sc CS_PARSE_WRITE_ARGS (setk_write_size wsz).
Proof. cleaf ltac:(idtac). Qed.
Lemma lf_pwa_post sc c comma : factors_at sc CS_PARSE_WRITE_ARGS (pwa_post c comma).
Proof. cleaf ltac:(unfold pwa_post, ack_error, ack_ok, start_flush_c, strncpy_buf). Qed.

Lemma lf_fra_post sc v c : factors_at sc CS_FORMAT_READ_ARGS (fra_post ATCMD v c).
Proof.
  cleaf ltac:(unfold fra_post, next_format_var, cmd_of, cmd_at, end_with_error, set_loop_state,
     start_flush_after_ok, start_flush_c, ack_error, strncpy_buf).
Qed.
Lemma ul_fra_post v c : uleaf (fra_post UNSOL v c).
Proof.
  uleaf_start.
  unfold fra_post, next_format_var, cmd_of, cmd_at, end_with_error, set_loop_state,
     start_flush_after_ok, start_flush_u, unsolicited_reset_state.
  uleaf_go.
Qed.

Lemma lf_post_write_loop sc code : factors_at sc CS_WRITE_LOOP (post_write_loop code).
Proof. cleaf ltac:(unfold post_write_loop, enable_hold_state, ack_error, ack_ok, start_flush_c, strncpy_buf). Qed.
Lemma lf_post_run_loop sc code : factors_at sc CS_RUN_LOOP (post_run_loop code).
Proof. cleaf ltac:(unfold post_run_loop, start_print_cmd_list, enable_hold_state, ack_error, ack_ok, start_flush_c, strncpy_buf). Qed.

Definition rt_branch (rd : bool) (f : fsm) (code : Z) (s : state) : state :=
  if (code =? RC_OK)%Z then end_with_ok f s
  else if (code =? RC_DATA_OK)%Z then start_flush_after f CS_AFTER_OK US_AFTER_OK s
  else if (code =? RC_DATA_NEXT)%Z then
    (if rd then start_flush_after f CS_AFTER_FMT_READ US_AFTER_FMT_READ s
     else start_flush_after f CS_AFTER_FMT_TEST US_AFTER_FMT_TEST s)
  else if (code =? RC_NEXT)%Z then
    (if rd then start_processing_format_read_args D f s
     else start_processing_format_test_args D f s)
  else if (code =? RC_HOLD)%Z then enable_hold_state s
  else if (code =? RC_HOLD_EXIT_OK)%Z then end_with_ok f (fst (hold_exit s ST_OK))
  else if (code =? RC_HOLD_EXIT_ERROR)%Z then end_with_error f (fst (hold_exit s ST_ERROR))
  else if (code =? RC_PRINT_CMD_LIST_OK)%Z && negb rd then
    match f with ATCMD => start_print_cmd_list D s | UNSOL => end_with_ok f s end
  else end_with_error f s.

Lemma rt_post_eq rd f e code s : rt_post rd f e code s = rt_branch rd f code (apply_edit f e s).
Proof. reflexivity. Qed.

Lemma apply_edit_kstate f e s : k_state (k (apply_edit f e s)) = k_state (k s).
Proof.
  unfold apply_edit. destruct e as [t|]; [|reflexivity].
  destruct (length t <? g_bsz f s); [|reflexivity].
  unfold put_cur. destruct (cu_fault _); destruct f; reflexivity.
Qed.

Lemma lf_apply_edit_read sc e : factors_at sc CS_READ_LOOP (apply_edit ATCMD e).
Proof. cleaf ltac:(unfold apply_edit). Qed.
Lemma lf_apply_edit_test sc e : factors_at sc CS_TEST_LOOP (apply_edit ATCMD e).
Proof. cleaf ltac:(unfold apply_edit). Qed.

Lemma lf_rt_branch_read sc code : factors_at sc CS_READ_LOOP (rt_branch true ATCMD code).
Proof.
  cleaf ltac:(unfold rt_branch, end_with_ok, start_flush_after, hold_exit, enable_hold_state, ack_ok; unf_spfr).
Qed.
Lemma lf_rt_branch_test sc code : factors_at sc CS_TEST_LOOP (rt_branch false ATCMD code).
Proof.
  cleaf ltac:(unfold rt_branch, end_with_ok, start_flush_after, hold_exit, enable_hold_state,
    start_print_cmd_list, ack_ok; unf_spft).
Qed.

Lemma lf_rt_post_read sc e code : factors_at sc CS_READ_LOOP (rt_post true ATCMD e code).
Proof.
  apply (factors_at_comp sc CS_READ_LOOP (apply_edit ATCMD e) (rt_branch true ATCMD code)).
  - apply lf_apply_edit_read.
  - apply apply_edit_kstate.
  - apply lf_rt_branch_read.
Qed.
Lemma lf_rt_post_test sc e code : factors_at sc CS_TEST_LOOP (rt_post false ATCMD e code).
Proof.
  apply (factors_at_comp sc CS_TEST_LOOP (apply_edit ATCMD e) (rt_branch false ATCMD code)).
  - apply lf_apply_edit_test.
  - apply apply_edit_kstate.
  - apply lf_rt_branch_test.
Qed.

Lemma lf_iow_done sc : factors_at sc CS_FLUSH iow_done.
Proof. cleaf_flush ltac:(unfold iow_done). Qed.
Lemma lf_iow_adv sc : factors_at sc CS_FLUSH iow_adv.
Proof. cleaf_flush ltac:(unfold iow_adv). Qed.
Lemma ul_uiow_done : uleaf uiow_done.
Proof. uleaf_start. unfold uiow_done. uleaf_go. Qed.
Lemma ul_uiow_adv : uleaf uiow_adv.
Proof. uleaf_start. unfold uiow_adv. uleaf_go. Qed.

End C20d.

Section C20e.
Variable D : desc.
Variables ioS muS hS : Type.
Variable io_read : ioS -> ioS * option N.
Variable io_write : ioS -> N -> ioS * bool.
Variable mu_lock : muS -> muS * bool.
Variable mu_unlock : muS -> muS * bool.
Variable h_call : hS -> hreq -> hS * hres.

Notation world := (world ioS muS hS).
Notation step := (step D ioS muS hS io_read io_write mu_lock mu_unlock h_call).
Notation run := (run D ioS muS hS io_read io_write mu_lock mu_unlock h_call).
Notation do_op := (do_op D ioS muS hS io_read io_write mu_lock mu_unlock h_call).
Notation cmd_service := (cmd_service D ioS muS hS io_read io_write mu_lock mu_unlock h_call).
Notation service_body := (service_body D ioS muS hS io_read io_write mu_lock mu_unlock h_call).
Notation unsolicited_events_service := (unsolicited_events_service D ioS muS hS io_write mu_lock mu_unlock h_call).
Notation bracket := (bracket D ioS muS hS mu_lock mu_unlock).
Notation api_trigger := (api_trigger D ioS muS hS mu_lock mu_unlock).
Notation api_hold_exit := (api_hold_exit D ioS muS hS mu_lock mu_unlock).
Notation apply_icall := (apply_icall D ioS muS hS mu_lock mu_unlock).
Notation call_h := (call_h D ioS muS hS mu_lock mu_unlock h_call).
Notation busy := (busy ioS muS hS).
Notation upd_st := (upd_st ioS muS hS).
Notation logw := (logw ioS muS hS).
Notation set_st := (set_st ioS muS hS).
Notation set_io := (set_io ioS muS hS).
Notation set_mu := (set_mu ioS muS hS).
Notation set_hs := (set_hs ioS muS hS).
Notation reading := (reading ioS muS hS io_read).
Notation st := (Fsm.st ioS muS hS).
Notation io := (Fsm.io ioS muS hS).
Notation mu := (Fsm.mu ioS muS hS).
Notation hs := (Fsm.hs ioS muS hS).
Notation tr := (Fsm.tr ioS muS hS).
Notation mkWorld := (Fsm.mkWorld ioS muS hS).
Notation parse_write_args := (parse_write_args D ioS muS hS mu_lock mu_unlock h_call).
Notation format_read_args := (format_read_args D ioS muS hS mu_lock mu_unlock h_call).
Notation process_write_loop := (process_write_loop D ioS muS hS mu_lock mu_unlock h_call).
Notation process_run_loop := (process_run_loop D ioS muS hS mu_lock mu_unlock h_call).
Notation process_rt_loop := (process_rt_loop D ioS muS hS mu_lock mu_unlock h_call).
Notation process_io_write := (process_io_write ioS muS hS io_write).
Notation unsolicited_process_io_write := (unsolicited_process_io_write ioS muS hS io_write).

(* ---------- worlds ---------- *)
Definition world_eq_gen (sc : bool) (w1 w2 : world) : Prop :=
  scratch_eq_gen sc (st w1) (st w2) /\ io w1 = io w2 /\ mu w1 = mu w2 /\ hs w1 = hs w2 /\ tr w1 = tr w2.
Definition res_eq (sc : bool) {A : Type} (r1 r2 : world * A) : Prop :=
  world_eq_gen sc (fst r1) (fst r2) /\ snd r1 = snd r2.

Lemma weq_refl sc w : world_eq_gen sc w w.
Proof. repeat split. Qed.
Lemma weq_sq sc w1 w2 : world_eq_gen sc w1 w2 -> scratch_eq_gen sc (st w1) (st w2).
Proof. intros H; apply H. Qed.
Lemma weq_logw sc e w1 w2 : world_eq_gen sc w1 w2 -> world_eq_gen sc (logw e w1) (logw e w2).
Proof. intros (Hs & Hio & Hmu & Hhs & Htr). repeat split; cbn; congruence. Qed.
Lemma weq_set_st sc s1 s2 w1 w2 : scratch_eq_gen sc s1 s2 -> world_eq_gen sc w1 w2 ->
  world_eq_gen sc (set_st s1 w1) (set_st s2 w2).
Proof. intros H (Hs & Hio & Hmu & Hhs & Htr). repeat split; cbn; congruence. Qed.
Lemma weq_set_io sc v w1 w2 : world_eq_gen sc w1 w2 -> world_eq_gen sc (set_io v w1) (set_io v w2).
Proof. intros (Hs & Hio & Hmu & Hhs & Htr). repeat split; cbn; congruence. Qed.
Lemma weq_set_mu sc v w1 w2 : world_eq_gen sc w1 w2 -> world_eq_gen sc (set_mu v w1) (set_mu v w2).
Proof. intros (Hs & Hio & Hmu & Hhs & Htr). repeat split; cbn; congruence. Qed.
Lemma weq_set_hs sc v w1 w2 : world_eq_gen sc w1 w2 -> world_eq_gen sc (set_hs v w1) (set_hs v w2).
Proof. intros (Hs & Hio & Hmu & Hhs & Htr). repeat split; cbn; congruence. Qed.
Lemma weq_upd_st sc g w1 w2 : scratch_eq_gen sc (g (st w1)) (g (st w2)) -> world_eq_gen sc w1 w2 ->
  world_eq_gen sc (upd_st g w1) (upd_st g w2).
Proof. intros H Hw. apply weq_set_st; assumption. Qed.

Lemma busy_sim sc w1 w2 : world_eq_gen sc w1 w2 -> res_eq sc (busy w1) (busy w2).
Proof. intros H. split; [exact H | reflexivity]. Qed.
Lemma busy_upd_sim sc X g w1 w2 : sim_at sc X g -> world_eq_gen sc w1 w2 -> k_state (k (st w1)) = X ->
  res_eq sc (busy (upd_st g w1)) (busy (upd_st g w2)).
Proof. intros S Hw HX. apply busy_sim, weq_upd_st; [apply S; [apply Hw | exact HX] | exact Hw]. Qed.
Lemma busy_upd_sim' sc g w1 w2 : sim sc g -> world_eq_gen sc w1 w2 ->
  res_eq sc (busy (upd_st g w1)) (busy (upd_st g w2)).
Proof. intros S Hw. apply busy_sim, weq_upd_st; [apply S; apply Hw | exact Hw]. Qed.

Lemma sim_fault sc : sim sc set_fault_flag.
Proof. apply uleaf_sim, ul_set_fault_flag. Qed.

(* ---------- the bracket and the inner API calls ---------- *)
Lemma bracket_sim sc body w1 w2 :
  (forall a b, world_eq_gen sc a b -> res_eq sc (body a) (body b)) ->
  world_eq_gen sc w1 w2 -> res_eq sc (bracket w1 body) (bracket w2 body).
Proof.
  intros Hb Hw. unfold Fsm.bracket. destruct (d_mutex D); [| apply Hb, Hw].
  assert (Hmu : mu w1 = mu w2) by apply Hw. rewrite <- Hmu.
  destruct (mu_lock (mu w1)) as [m1 ok].
  assert (Hw1 : world_eq_gen sc (logw (ELock ok) (set_mu m1 w1)) (logw (ELock ok) (set_mu m1 w2)))
    by (apply weq_logw, weq_set_mu, Hw).
  destruct ok; cbn [negb].
  - pose proof (Hb _ _ Hw1) as [Hw2 Hr].
    destruct (body (logw (ELock true) (set_mu m1 w1))) as [w1' r1].
    destruct (body (logw (ELock true) (set_mu m1 w2))) as [w2' r2].
    cbn [fst snd] in Hw2, Hr. subst r2.
    assert (Hmu2 : mu w1' = mu w2') by apply Hw2. rewrite <- Hmu2.
    destruct (mu_unlock (mu w1')) as [m2 ok2].
    assert (Hw3 : world_eq_gen sc (logw (EUnlock ok2) (set_mu m2 w1')) (logw (EUnlock ok2) (set_mu m2 w2')))
      by (apply weq_logw, weq_set_mu, Hw2).
    destruct ok2; cbn [negb]; split; cbn [fst snd]; try exact Hw3; reflexivity.
  - split; cbn [fst snd]; [exact Hw1 | reflexivity].
Qed.

Definition kpres (w w' : world) : Prop := k_state (k (st w')) = k_state (k (st w)).

Lemma bracket_kpres body w :
  (forall a, kpres a (fst (body a))) -> kpres w (fst (bracket w body)).
Proof.
  intros Hb. unfold Fsm.bracket, kpres. destruct (d_mutex D); [| apply Hb].
  destruct (mu_lock (mu w)) as [m1 ok]. destruct ok; cbn [negb]; [| reflexivity].
  pose proof (Hb (logw (ELock true) (set_mu m1 w))) as H. unfold kpres in H.
  destruct (body (logw (ELock true) (set_mu m1 w))) as [w' r]. cbn [fst] in H.
  destruct (mu_unlock (mu w')) as [m2 ok2]. destruct ok2; cbn [negb fst]; exact H.
Qed.

Lemma push_sim sc ci t s1 s2 : scratch_eq_gen sc s1 s2 ->
  scratch_eq_gen sc (fst (push_unsolicited_cmd D s1 ci t)) (fst (push_unsolicited_cmd D s2 ci t)) /\
  snd (push_unsolicited_cmd D s1 ci t) = snd (push_unsolicited_cmd D s2 ci t).
Proof.
  intros H. split.
  - apply (uleaf_sim sc _ (ul_push D ci t)), H.
  - unfold push_unsolicited_cmd, ring_full. rewrite (sq_u _ _ _ H).
    destruct (u_count (u s2) =? cap D); reflexivity.
Qed.

Lemma api_trigger_sim sc ci t w1 w2 : world_eq_gen sc w1 w2 ->
  res_eq sc (api_trigger w1 ci t) (api_trigger w2 ci t).
Proof.
  intros Hw. unfold Fsm.api_trigger. apply bracket_sim; [| exact Hw].
  intros a b Hab. pose proof (push_sim sc ci t _ _ (weq_sq _ _ _ Hab)) as [H1 H2].
  destruct (push_unsolicited_cmd D (st a) ci t) as [sa ra], (push_unsolicited_cmd D (st b) ci t) as [sb rb].
  cbn [fst snd] in *. split; cbn [fst snd]; [apply weq_set_st; assumption | exact H2].
Qed.
Lemma api_trigger_kpres ci t w : kpres w (fst (api_trigger w ci t)).
Proof.
  unfold Fsm.api_trigger. apply bracket_kpres. intros a. unfold kpres.
  pose proof (uleaf_k _ (st a) (ul_push D ci t)) as H. cbv beta in H.
  destruct (push_unsolicited_cmd D (st a) ci t) as [sa ra]. cbn [fst] in H. cbn. rewrite H. reflexivity.
Qed.

Lemma api_hold_exit_sim sc status w1 w2 : world_eq_gen sc w1 w2 ->
  res_eq sc (api_hold_exit w1 status) (api_hold_exit w2 status).
Proof.
  intros Hw. unfold Fsm.api_hold_exit. apply bracket_sim; [| exact Hw].
  intros a b Hab.
  pose proof (sim_hold_exit sc status _ _ (weq_sq _ _ _ Hab)) as H1. cbv beta in H1.
  pose proof (hold_exit_snd_eq sc status _ _ (weq_sq _ _ _ Hab)) as H2.
  destruct (hold_exit (st a) status) as [sa ra], (hold_exit (st b) status) as [sb rb].
  cbn [fst snd] in *. split; cbn [fst snd]; [apply weq_set_st; assumption | exact H2].
Qed.
Lemma api_hold_exit_kpres status w : kpres w (fst (api_hold_exit w status)).
Proof.
  unfold Fsm.api_hold_exit. apply bracket_kpres. intros a. unfold kpres.
  pose proof (hold_exit_kstate (st a) status) as H.
  destruct (hold_exit (st a) status) as [sa ra]. cbn [fst] in *. cbn. exact H.
Qed.

Lemma apply_icall_sim sc c w1 w2 : world_eq_gen sc w1 w2 ->
  world_eq_gen sc (apply_icall w1 c) (apply_icall w2 c).
Proof.
  intros Hw. unfold Fsm.apply_icall. destruct c as [ci t | status].
  - pose proof (api_trigger_sim sc ci t _ _ Hw) as [H1 H2].
    destruct (api_trigger w1 ci t) as [a ra], (api_trigger w2 ci t) as [b rb]. cbn [fst snd] in *.
    subst rb. apply weq_logw, H1.
  - pose proof (api_hold_exit_sim sc status _ _ Hw) as [H1 H2].
    destruct (api_hold_exit w1 status) as [a ra], (api_hold_exit w2 status) as [b rb]. cbn [fst snd] in *.
    subst rb. apply weq_logw, H1.
Qed.
Lemma apply_icall_kpres c w : kpres w (apply_icall w c).
Proof.
  unfold Fsm.apply_icall. destruct c as [ci t | status].
  - pose proof (api_trigger_kpres ci t w) as H. destruct (api_trigger w ci t) as [a ra]. exact H.
  - pose proof (api_hold_exit_kpres status w) as H. destruct (api_hold_exit w status) as [a ra]. exact H.
Qed.

Lemma fold_icalls_sim sc cs : forall w1 w2, world_eq_gen sc w1 w2 ->
  world_eq_gen sc (fold_left apply_icall cs w1) (fold_left apply_icall cs w2).
Proof.
  induction cs as [|c r IH]; intros w1 w2 Hw; cbn [fold_left]; [exact Hw|].
  apply IH, apply_icall_sim, Hw.
Qed.
Lemma fold_icalls_kpres cs : forall w, kpres w (fold_left apply_icall cs w).
Proof.
  induction cs as [|c r IH]; intros w; cbn [fold_left]; [reflexivity|].
  unfold kpres in *. rewrite IH. apply apply_icall_kpres.
Qed.

Lemma call_h_sim sc q w1 w2 : world_eq_gen sc w1 w2 -> res_eq sc (call_h w1 q) (call_h w2 q).
Proof.
  intros Hw. unfold Fsm.call_h.
  assert (Hhs : hs w1 = hs w2) by apply Hw. rewrite <- Hhs.
  destruct (h_call (hs w1) q) as [hs' r].
  split; cbn [fst snd]; [| reflexivity].
  apply fold_icalls_sim, weq_upd_st.
  - apply (uleaf_sim sc _ (ul_fold_pokes (r_pokes r))). cbn. apply Hw.
  - apply weq_logw, weq_set_hs, Hw.
Qed.
Lemma call_h_kpres q w : kpres w (fst (call_h w q)).
Proof.
  unfold Fsm.call_h. destruct (h_call (hs w) q) as [hs' r]. cbn [fst].
  unfold kpres. rewrite fold_icalls_kpres. cbn.
  rewrite (uleaf_k _ _ (ul_fold_pokes (r_pokes r))). reflexivity.
Qed.

End C20e.

Ltac live_eqs Hs HX1 :=
  let HX2 := fresh "HX2" in let Hk := fresh "Hk" in let Hb := fresh "Hb" in
  pose proof (sq_kstate _ _ _ Hs) as HX2; rewrite HX1 in HX2; symmetry in HX2;
  pose proof (sq_normk _ _ _ Hs) as Hk; pose proof (sq_normb _ _ _ Hs) as Hb;
  unfold normk, effk in Hk; unfold normb, buf_live, effk in Hb;
  rewrite HX1, HX2 in Hk; rewrite HX1, HX2 in Hb;
  cbv beta iota zeta delta [in_flush mask_at m_index m_partial m_length m_position m_cmd m_var m_type
                            m_char m_he m_buf orb] in Hk, Hb;
  injection Hk; clear Hk; intros.

Ltac rew_live :=
  repeat match goal with
         | H : ?f (k ?a) = ?f (k ?b) |- _ => try rewrite <- H; clear H
         | H : cbuf ?a = cbuf ?b |- _ => try rewrite <- H; clear H
         end.

Section C20f.
Variable D : desc.
Variables ioS muS hS : Type.
Variable io_read : ioS -> ioS * option N.
Variable io_write : ioS -> N -> ioS * bool.
Variable mu_lock : muS -> muS * bool.
Variable mu_unlock : muS -> muS * bool.
Variable h_call : hS -> hreq -> hS * hres.

Notation world := (world ioS muS hS).
Notation step := (step D ioS muS hS io_read io_write mu_lock mu_unlock h_call).
Notation run := (run D ioS muS hS io_read io_write mu_lock mu_unlock h_call).
Notation do_op := (do_op D ioS muS hS io_read io_write mu_lock mu_unlock h_call).
Notation cmd_service := (cmd_service D ioS muS hS io_read io_write mu_lock mu_unlock h_call).
Notation service_body := (service_body D ioS muS hS io_read io_write mu_lock mu_unlock h_call).
Notation unsolicited_events_service := (unsolicited_events_service D ioS muS hS io_write mu_lock mu_unlock h_call).
Notation bracket := (bracket D ioS muS hS mu_lock mu_unlock).
Notation api_trigger := (api_trigger D ioS muS hS mu_lock mu_unlock).
Notation api_hold_exit := (api_hold_exit D ioS muS hS mu_lock mu_unlock).
Notation apply_icall := (apply_icall D ioS muS hS mu_lock mu_unlock).
Notation call_h := (call_h D ioS muS hS mu_lock mu_unlock h_call).
Notation busy := (busy ioS muS hS).
Notation upd_st := (upd_st ioS muS hS).
Notation logw := (logw ioS muS hS).
Notation set_st := (set_st ioS muS hS).
Notation set_io := (set_io ioS muS hS).
Notation set_mu := (set_mu ioS muS hS).
Notation set_hs := (set_hs ioS muS hS).
Notation reading := (reading ioS muS hS io_read).
Notation st := (Fsm.st ioS muS hS).
Notation io := (Fsm.io ioS muS hS).
Notation mu := (Fsm.mu ioS muS hS).
Notation hs := (Fsm.hs ioS muS hS).
Notation tr := (Fsm.tr ioS muS hS).
Notation mkWorld := (Fsm.mkWorld ioS muS hS).
Notation parse_write_args := (parse_write_args D ioS muS hS mu_lock mu_unlock h_call).
Notation format_read_args := (format_read_args D ioS muS hS mu_lock mu_unlock h_call).
Notation process_write_loop := (process_write_loop D ioS muS hS mu_lock mu_unlock h_call).
Notation process_run_loop := (process_run_loop D ioS muS hS mu_lock mu_unlock h_call).
Notation process_rt_loop := (process_rt_loop D ioS muS hS mu_lock mu_unlock h_call).
Notation process_io_write := (process_io_write ioS muS hS io_write).
Notation unsolicited_process_io_write := (unsolicited_process_io_write ioS muS hS io_write).
Notation world_eq_gen := (world_eq_gen ioS muS hS).
Notation res_eq := (res_eq ioS muS hS).
Notation kpres := (kpres ioS muS hS).

Lemma sim_at_comp sc X g1 g2 :
  sim_at sc X g1 -> (forall s, k_state (k (g1 s)) = k_state (k s)) -> sim_at sc X g2 ->
  sim_at sc X (fun s => g2 (g1 s)).
Proof.
  intros S1 K1 S2 s1 s2 H HX. apply S2; [apply S1; assumption | rewrite K1; exact HX].
Qed.

(* ---------- reading states ---------- *)
Lemma reading_eq w body :
  reading w body =
  let (io', r) := io_read (io w) in
  let w1 := logw (ERd r) (set_io io' w) in
  match r with
  | None => (w1, ST_OK)
  | Some ch => (set_st (rd_step body ch (st w)) w1, ST_BUSY)
  end.
Proof.
  unfold Fsm.reading, Fsm.read_cmd_char, rd_step.
  destruct (io_read (io w)) as [io' [ch|]]; [| reflexivity].
  cbn [Fsm.st Fsm.logw Fsm.set_io].
  destruct ((_ =? ch_LF)%N && _); reflexivity.
Qed.

Lemma reading_sim sc X body w1 w2 :
  (forall ch, sim_at sc X (rd_step body ch)) ->
  world_eq_gen sc w1 w2 -> k_state (k (st w1)) = X ->
  res_eq sc (reading w1 body) (reading w2 body).
Proof.
  intros S Hw HX. rewrite !reading_eq.
  assert (Hio : io w1 = io w2) by apply Hw. rewrite <- Hio.
  destruct (io_read (io w1)) as [io' [ch|]].
  - split; cbn [fst snd]; [| reflexivity].
    apply weq_set_st; [apply S; [apply Hw | exact HX] | apply weq_logw, weq_set_io, Hw].
  - split; cbn [fst snd]; [| reflexivity]. apply weq_logw, weq_set_io, Hw.
Qed.

Lemma error_state_sim sc w1 w2 : world_eq_gen sc w1 w2 -> k_state (k (st w1)) = CS_ERROR ->
  res_eq sc (error_state ioS muS hS io_read w1) (error_state ioS muS hS io_read w2).
Proof.
  intros Hw HX. apply (reading_sim sc CS_ERROR body_error); [| exact Hw | exact HX].
  intros ch. apply sim_of_factors_at, lf_error.
Qed.
Lemma idle_state_sim sc w1 w2 : world_eq_gen sc w1 w2 -> k_state (k (st w1)) = CS_IDLE ->
  res_eq sc (process_idle_state ioS muS hS io_read w1) (process_idle_state ioS muS hS io_read w2).
Proof.
  intros Hw HX. apply (reading_sim sc CS_IDLE body_idle); [| exact Hw | exact HX].
  intros ch. apply sim_of_factors_at, lf_idle.
Qed.
Lemma parse_prefix_sim sc w1 w2 : world_eq_gen sc w1 w2 -> k_state (k (st w1)) = CS_PARSE_PREFIX ->
  res_eq sc (parse_prefix ioS muS hS io_read w1) (parse_prefix ioS muS hS io_read w2).
Proof.
  intros Hw HX. apply (reading_sim sc CS_PARSE_PREFIX body_prefix); [| exact Hw | exact HX].
  intros ch. apply sim_of_factors_at, lf_prefix.
Qed.
Lemma parse_command_sim sc w1 w2 : world_eq_gen sc w1 w2 -> k_state (k (st w1)) = CS_PARSE_COMMAND_CHAR ->
  res_eq sc (parse_command ioS muS hS io_read w1) (parse_command ioS muS hS io_read w2).
Proof.
  intros Hw HX. apply (reading_sim sc CS_PARSE_COMMAND_CHAR body_parse_command); [| exact Hw | exact HX].
  intros ch. apply sim_of_factors_at, lf_parse_command.
Qed.
Lemma wait_read_sim sc w1 w2 : world_eq_gen sc w1 w2 -> k_state (k (st w1)) = CS_WAIT_READ_ACK ->
  res_eq sc (wait_read_acknowledge ioS muS hS io_read w1) (wait_read_acknowledge ioS muS hS io_read w2).
Proof.
  intros Hw HX. apply (reading_sim sc CS_WAIT_READ_ACK body_wait_read); [| exact Hw | exact HX].
  intros ch. apply sim_of_factors_at, lf_wait_read.
Qed.
Lemma wait_test_sim sc w1 w2 : world_eq_gen sc w1 w2 -> k_state (k (st w1)) = CS_WAIT_TEST_ACK ->
  res_eq sc (wait_test_acknowledge D ioS muS hS io_read w1) (wait_test_acknowledge D ioS muS hS io_read w2).
Proof.
  intros Hw HX. apply (reading_sim sc CS_WAIT_TEST_ACK (body_wait_test D)); [| exact Hw | exact HX].
  intros ch. apply sim_of_factors_at, lf_wait_test.
Qed.
Lemma parse_args_sim sc w1 w2 : world_eq_gen sc w1 w2 -> k_state (k (st w1)) = CS_PARSE_COMMAND_ARGS ->
  res_eq sc (parse_command_args D ioS muS hS io_read w1) (parse_command_args D ioS muS hS io_read w2).
Proof.
  intros Hw HX. apply (reading_sim sc CS_PARSE_COMMAND_ARGS (body_parse_args D)); [| exact Hw | exact HX].
  intros ch. apply sim_of_factors_at, lf_parse_args.
Qed.

(* ---------- states that call handlers ---------- *)
Lemma process_write_loop_sim sc w1 w2 : world_eq_gen sc w1 w2 -> k_state (k (st w1)) = CS_WRITE_LOOP ->
  res_eq sc (process_write_loop w1) (process_write_loop w2).
Proof.
  intros Hw HX. pose proof Hw as (Hs & _). live_eqs Hs HX.
  unfold Fsm.process_write_loop, g_cmd. cbv zeta. rew_live.
  destruct (k_cmd (k (st w1))) as [ci|]; [| apply busy_upd_sim'; [apply sim_fault | exact Hw]].
  match goal with |- context [call_h w1 ?q] =>
    assert (Hcs : res_eq sc (call_h _ q) (call_h _ q)) by (apply call_h_sim; exact Hw); destruct Hcs as [Hw' Hr];
    assert (Hk' : kpres w1 (fst (call_h w1 q))) by apply call_h_kpres;
    destruct (call_h w1 q) as [w1' r1]; destruct (call_h w2 q) as [w2' r2] end.
  cbn [fst snd] in Hw', Hr, Hk'. subst r2.
  apply busy_upd_sim with (X := CS_WRITE_LOOP) (g := (post_write_loop (r_code r1)));
    [apply sim_of_factors_at, lf_post_write_loop | exact Hw' | rewrite Hk'; exact HX].
Qed.

Lemma process_run_loop_sim sc w1 w2 : world_eq_gen sc w1 w2 -> k_state (k (st w1)) = CS_RUN_LOOP ->
  res_eq sc (process_run_loop w1) (process_run_loop w2).
Proof.
  intros Hw HX. pose proof Hw as (Hs & _). live_eqs Hs HX.
  unfold Fsm.process_run_loop, g_cmd. cbv zeta. rew_live.
  destruct (k_cmd (k (st w1))) as [ci|]; [| apply busy_upd_sim'; [apply sim_fault | exact Hw]].
  match goal with |- context [call_h w1 ?q] =>
    assert (Hcs : res_eq sc (call_h _ q) (call_h _ q)) by (apply call_h_sim; exact Hw); destruct Hcs as [Hw' Hr];
    assert (Hk' : kpres w1 (fst (call_h w1 q))) by apply call_h_kpres;
    destruct (call_h w1 q) as [w1' r1]; destruct (call_h w2 q) as [w2' r2] end.
  cbn [fst snd] in Hw', Hr, Hk'. subst r2.
  apply busy_upd_sim with (X := CS_RUN_LOOP) (g := (post_run_loop D (r_code r1)));
    [apply sim_of_factors_at, lf_post_run_loop | exact Hw' | rewrite Hk'; exact HX].
Qed.

Lemma process_rt_loop_sim sc X rd f w1 w2 :
  world_eq_gen sc w1 w2 -> k_state (k (st w1)) = X ->
  g_cmd f (st w1) = g_cmd f (st w2) -> g_pos f (st w1) = g_pos f (st w2) ->
  g_buf f (st w1) = g_buf f (st w2) ->
  (forall e code, sim_at sc X (rt_post D rd f e code)) ->
  res_eq sc (process_rt_loop rd f w1) (process_rt_loop rd f w2).
Proof.
  intros Hw HX Hc Hp Hbf Sp.
  unfold Fsm.process_rt_loop, g_bsz. cbv zeta. rewrite <- Hc, <- Hp, <- Hbf.
  destruct (g_cmd f (st w1)) as [ci|]; [| apply busy_upd_sim'; [apply sim_fault | exact Hw]].
  match goal with |- context [call_h w1 ?q] =>
    assert (Hcs : res_eq sc (call_h _ q) (call_h _ q)) by (apply call_h_sim; exact Hw); destruct Hcs as [Hw' Hr];
    assert (Hk' : kpres w1 (fst (call_h w1 q))) by apply call_h_kpres;
    destruct (call_h w1 q) as [w1' r1]; destruct (call_h w2 q) as [w2' r2] end.
  cbn [fst snd] in Hw', Hr, Hk'. subst r2.
  apply busy_upd_sim with (X := X) (g := (rt_post D rd f (r_edit r1) (r_code r1)));
    [apply Sp | exact Hw' | rewrite Hk'; exact HX].
Qed.

Lemma format_read_args_sim sc X f w1 w2 :
  world_eq_gen sc w1 w2 -> k_state (k (st w1)) = X ->
  g_cmd f (st w1) = g_cmd f (st w2) -> g_var f (st w1) = g_var f (st w2) ->
  sim_at sc X (end_with_error f) -> (forall v c, sim_at sc X (fra_post D f v c)) ->
  res_eq sc (format_read_args f w1) (format_read_args f w2).
Proof.
  intros Hw HX Hc Hv Se Sp.
  unfold Fsm.format_read_args, cmd_of. cbv zeta. rewrite <- Hc, <- Hv.
  destruct (g_cmd f (st w1)) as [ci|]; [| apply busy_upd_sim'; [apply sim_fault | exact Hw]].
  destruct (cmd_at D ci) as [c|]; [| apply busy_upd_sim'; [apply sim_fault | exact Hw]].
  destruct (nth_error (c_vars c) (g_var f (st w1))) as [v|];
    [| apply busy_upd_sim'; [apply sim_fault | exact Hw]].
  destruct (v_hread v).
  - match goal with |- context [call_h w1 ?q] =>
      assert (Hcs : res_eq sc (call_h _ q) (call_h _ q)) by (apply call_h_sim; exact Hw); destruct Hcs as [Hw' Hr];
      assert (Hk' : kpres w1 (fst (call_h w1 q))) by apply call_h_kpres;
      destruct (call_h w1 q) as [w1' r1]; destruct (call_h w2 q) as [w2' r2] end.
    cbn [fst snd] in Hw', Hr, Hk'. subst r2.
    destruct (negb (r_code r1 =? 0)%Z).
    + apply busy_upd_sim with (X := X) (g := (end_with_error f)); [apply Se | exact Hw' | rewrite Hk'; exact HX].
    + apply busy_upd_sim with (X := X) (g := (fra_post D f v c)); [apply Sp | exact Hw' | rewrite Hk'; exact HX].
  - apply busy_upd_sim with (X := X) (g := (fra_post D f v c)); [apply Sp | exact Hw | exact HX].
Qed.

Lemma sim_at_ack_error sc X : sim_at sc X ack_error.
Proof. apply sim_at_of_sim, sim_of_factors, fc_ack_error. Qed.

Lemma parse_write_args_sim sc w1 w2 : world_eq_gen sc w1 w2 -> k_state (k (st w1)) = CS_PARSE_WRITE_ARGS ->
  res_eq sc (parse_write_args w1) (parse_write_args w2).
Proof.
  intros Hw HX. pose proof Hw as (Hs & _). live_eqs Hs HX.
  pose proof (sq_mem _ _ _ Hs) as Hm.
  unfold Fsm.parse_write_args, cmd_of, g_cmd. cbv zeta. rew_live. rewrite <- Hm.
  destruct (k_cmd (k (st w1))) as [ci|]; [| apply busy_upd_sim'; [apply sim_fault | exact Hw]].
  destruct (cmd_at D ci) as [c|]; [| apply busy_upd_sim'; [apply sim_fault | exact Hw]].
  destruct (nth_error (c_vars c) (k_var (k (st w1)))) as [v|];
    [| apply busy_upd_sim'; [apply sim_fault | exact Hw]].
  destruct (nth_error (mem (st w1)) (v_slot v)) as [data|];
    [| apply busy_upd_sim'; [apply sim_fault | exact Hw]].
  destruct (decode_var v (skipn (k_position (k (st w1))) (cbuf (st w1))) data) as [[[pst data'] wsz] n].
  set (pp := k_position (k (st w1)) + n). set (mm := upd (mem (st w1)) (v_slot v) data').
  assert (Spre : sim_at sc CS_PARSE_WRITE_ARGS (pwa_pre pp mm))
    by apply sim_of_factors_at, lf_pwa_pre.
  destruct pst as [| | comma].
  - apply busy_upd_sim with (X := CS_PARSE_WRITE_ARGS) (g := (fun s => set_fault_flag (pwa_pre pp mm s)));
      [| exact Hw | exact HX].
    apply sim_at_comp; [exact Spre | reflexivity | apply sim_at_of_sim, sim_fault].
  - apply busy_upd_sim with (X := CS_PARSE_WRITE_ARGS) (g := (fun s => ack_error (pwa_pre pp mm s)));
      [| exact Hw | exact HX].
    apply sim_at_comp; [exact Spre | reflexivity | apply sim_at_ack_error].
  - assert (Hw2 : world_eq_gen sc
        (upd_st (fun s => setk_write_size wsz (pwa_pre pp mm s)) w1)
        (upd_st (fun s => setk_write_size wsz (pwa_pre pp mm s)) w2)).
    { apply weq_upd_st; [| exact Hw].
      apply (sim_at_comp sc CS_PARSE_WRITE_ARGS _ (setk_write_size wsz));
        [exact Spre | reflexivity | apply sim_of_factors_at, lf_pwa_ws | exact Hs | exact HX]. }
    assert (HX2' : k_state (k (st (upd_st (fun s => setk_write_size wsz (pwa_pre pp mm s)) w1)))
                   = CS_PARSE_WRITE_ARGS) by exact HX.
    change (set_st (setk_write_size wsz (set_mem mm (setk_position pp (st w1)))) w1)
      with (upd_st (fun s => setk_write_size wsz (pwa_pre pp mm s)) w1).
    change (set_st (setk_write_size wsz (set_mem mm (setk_position pp (st w2)))) w2)
      with (upd_st (fun s => setk_write_size wsz (pwa_pre pp mm s)) w2).
    set (wa := upd_st (fun s => setk_write_size wsz (pwa_pre pp mm s)) w1) in *.
    set (wb := upd_st (fun s => setk_write_size wsz (pwa_pre pp mm s)) w2) in *.
    destruct (v_hwrite v).
    + match goal with |- context [call_h wa ?q] =>
        assert (Hcs : res_eq sc (call_h _ q) (call_h _ q)) by (apply call_h_sim; exact Hw2); destruct Hcs as [Hw' Hr];
        assert (Hk' : kpres wa (fst (call_h wa q))) by apply call_h_kpres;
        destruct (call_h wa q) as [w1' r1]; destruct (call_h wb q) as [w2' r2] end.
      cbn [fst snd] in Hw', Hr, Hk'. subst r2.
      destruct (negb (r_code r1 =? 0)%Z).
      * apply busy_upd_sim with (X := CS_PARSE_WRITE_ARGS) (g := ack_error);
          [apply sim_at_ack_error | exact Hw' | rewrite Hk'; exact HX2'].
      * apply busy_upd_sim with (X := CS_PARSE_WRITE_ARGS) (g := (pwa_post c comma));
          [apply sim_of_factors_at, lf_pwa_post | exact Hw' | rewrite Hk'; exact HX2'].
    + apply busy_upd_sim with (X := CS_PARSE_WRITE_ARGS) (g := (pwa_post c comma));
        [apply sim_of_factors_at, lf_pwa_post | exact Hw2 | exact HX2'].
Qed.

(* ---------- the two writers ---------- *)
Lemma process_io_write_sim sc w1 w2 : world_eq_gen sc w1 w2 -> k_state (k (st w1)) = CS_FLUSH ->
  res_eq sc (process_io_write w1) (process_io_write w2).
Proof.
  intros Hw HX. pose proof Hw as (Hs & Hio & _). live_eqs Hs HX.
  unfold Fsm.process_io_write. cbv zeta. rew_live.
  destruct (wbuf_char (k_wbuf (k (st w1))) (cbuf (st w1)) (k_position (k (st w1)))) as [ch|];
    [| apply busy_upd_sim'; [apply sim_fault | exact Hw]].
  destruct (ch =? 0)%N.
  - apply busy_upd_sim with (X := CS_FLUSH) (g := iow_done);
      [apply sim_of_factors_at, lf_iow_done | exact Hw | exact HX].
  - rewrite <- Hio. destruct (io_write (io w1) ch) as [io' ok].
    assert (Hw1 : world_eq_gen sc (logw (EWr ATCMD ch ok) (set_io io' w1)) (logw (EWr ATCMD ch ok) (set_io io' w2)))
      by (apply weq_logw, weq_set_io, Hw).
    destruct ok.
    + apply busy_upd_sim with (X := CS_FLUSH) (g := iow_adv);
        [apply sim_of_factors_at, lf_iow_adv | exact Hw1 | exact HX].
    + apply busy_sim, Hw1.
Qed.

Lemma unsolicited_process_io_write_sim sc w1 w2 : world_eq_gen sc w1 w2 ->
  res_eq sc (unsolicited_process_io_write w1) (unsolicited_process_io_write w2).
Proof.
  intros Hw. pose proof Hw as (Hs & Hio & _).
  unfold Fsm.unsolicited_process_io_write. cbv zeta.
  rewrite <- (sq_u _ _ _ Hs), <- (sq_ubuf _ _ _ Hs).
  destruct (wbuf_char (u_wbuf (u (st w1))) (ubuf (st w1)) (u_position (u (st w1)))) as [ch|];
    [| apply busy_upd_sim'; [apply sim_fault | exact Hw]].
  destruct (ch =? 0)%N.
  - apply busy_upd_sim' with (g := uiow_done); [apply uleaf_sim, ul_uiow_done | exact Hw].
  - rewrite <- Hio. destruct (io_write (io w1) ch) as [io' ok].
    assert (Hw1 : world_eq_gen sc (logw (EWr UNSOL ch ok) (set_io io' w1)) (logw (EWr UNSOL ch ok) (set_io io' w2)))
      by (apply weq_logw, weq_set_io, Hw).
    destruct ok.
    + apply busy_upd_sim' with (g := uiow_adv); [apply uleaf_sim, ul_uiow_adv | exact Hw1].
    + apply busy_sim, Hw1.
Qed.

(* ---------- the event machine ---------- *)
Lemma ul_start_flush_u after : uleaf (start_flush_u after).
Proof. uleaf_start. unfold start_flush_u. uleaf_go. Qed.

Lemma sim_rt_branch_u sc rd code : sim sc (rt_branch D rd UNSOL code).
Proof.
  unfold rt_branch, end_with_ok, end_with_error, start_flush_after.
  destruct (code =? RC_OK)%Z; [apply uleaf_sim, ul_unsolicited_reset_state|].
  destruct (code =? RC_DATA_OK)%Z; [apply uleaf_sim, ul_start_flush_u|].
  destruct (code =? RC_DATA_NEXT)%Z; [destruct rd; apply uleaf_sim, ul_start_flush_u|].
  destruct (code =? RC_NEXT)%Z; [destruct rd; apply uleaf_sim; [apply ul_spfra | apply ul_spfta]|].
  destruct (code =? RC_HOLD)%Z; [apply sim_of_factors, fc_enable_hold_state|].
  destruct (code =? RC_HOLD_EXIT_OK)%Z.
  { apply (sim_comp sc (fun s => fst (hold_exit s ST_OK)) unsolicited_reset_state);
      [apply sim_hold_exit | apply uleaf_sim, ul_unsolicited_reset_state]. }
  destruct (code =? RC_HOLD_EXIT_ERROR)%Z.
  { apply (sim_comp sc (fun s => fst (hold_exit s ST_ERROR)) unsolicited_reset_state);
      [apply sim_hold_exit | apply uleaf_sim, ul_unsolicited_reset_state]. }
  destruct ((code =? RC_PRINT_CMD_LIST_OK)%Z && negb rd); apply uleaf_sim, ul_unsolicited_reset_state.
Qed.

Lemma sim_rt_post_u sc rd e code : sim sc (rt_post D rd UNSOL e code).
Proof.
  apply (sim_comp sc (apply_edit UNSOL e) (rt_branch D rd UNSOL code)).
  - apply uleaf_sim, ul_apply_edit.
  - apply sim_rt_branch_u.
Qed.

Lemma ues_sim sc w1 w2 : world_eq_gen sc w1 w2 ->
  res_eq sc (unsolicited_events_service w1) (unsolicited_events_service w2).
Proof.
  intros Hw. pose proof Hw as (Hs & _).
  pose proof (sq_u _ _ _ Hs) as Hu. pose proof (sq_ubuf _ _ _ Hs) as Hub.
  unfold Fsm.unsolicited_events_service. rewrite <- Hu.
  destruct (u_state (u (st w1))) eqn:HU.
  - unfold ring_empty, ring_items. rewrite <- Hu.
    destruct (negb (u_count (u (st w1)) =? 0)); [| split; [exact Hw | reflexivity]].
    apply busy_upd_sim'; [apply uleaf_sim, ul_check_unsolicited_buffers|].
    destruct (ring_items_go D (u_ring (u (st w1))) (u_head (u (st w1))) (u_count (u (st w1))));
      [exact Hw | apply weq_logw, Hw].
  - apply format_read_args_sim with (X := k_state (k (st w1))); try assumption; try reflexivity.
    + unfold g_cmd. rewrite Hu. reflexivity.
    + unfold g_var. rewrite Hu. reflexivity.
    + apply sim_at_of_sim, uleaf_sim, ul_unsolicited_reset_state.
    + intros v c. apply sim_at_of_sim, uleaf_sim, ul_fra_post.
  - apply busy_upd_sim'; [apply uleaf_sim, ul_format_test_args | exact Hw].
  - apply process_rt_loop_sim with (X := k_state (k (st w1))); try assumption; try reflexivity.
    + unfold g_cmd. rewrite Hu. reflexivity.
    + unfold g_pos. rewrite Hu. reflexivity.
    + intros e code. apply sim_at_of_sim, sim_rt_post_u.
  - apply process_rt_loop_sim with (X := k_state (k (st w1))); try assumption; try reflexivity.
    + unfold g_cmd. rewrite Hu. reflexivity.
    + unfold g_pos. rewrite Hu. reflexivity.
    + intros e code. apply sim_at_of_sim, sim_rt_post_u.
  - apply busy_upd_sim'; [apply uleaf_sim, ul_upiww | exact Hw].
  - apply unsolicited_process_io_write_sim, Hw.
  - apply busy_upd_sim'; [apply uleaf_sim, ul_unsolicited_reset_state | exact Hw].
  - apply busy_upd_sim' with (g := unsolicited_reset_state); [apply uleaf_sim, ul_unsolicited_reset_state | exact Hw].
  - apply busy_upd_sim'; [apply uleaf_sim, ul_spfra | exact Hw].
  - apply busy_upd_sim'; [apply uleaf_sim, ul_spfta | exact Hw].
Qed.

(* ---------- the command machine ---------- *)
Lemma cmd_service_sim sc w1 w2 : world_eq_gen sc w1 w2 ->
  res_eq sc (cmd_service w1) (cmd_service w2).
Proof.
  intros Hw. pose proof Hw as (Hs & _). pose proof (sq_kstate _ _ _ Hs) as HK.
  unfold Fsm.cmd_service. rewrite <- HK.
  destruct (k_state (k (st w1))) eqn:HX.
  - apply error_state_sim; assumption.
  - apply idle_state_sim; assumption.
  - apply parse_prefix_sim; assumption.
  - apply parse_command_sim; assumption.
  - apply busy_upd_sim with (X := CS_UPDATE_COMMAND_STATE); [apply sim_of_factors_at, lf_update_command | exact Hw | exact HX].
  - apply wait_read_sim; assumption.
  - apply busy_upd_sim with (X := CS_SEARCH_COMMAND); [apply sim_of_factors_at, lf_search_command | exact Hw | exact HX].
  - apply busy_upd_sim with (X := CS_COMMAND_FOUND); [apply sim_of_factors_at, lf_command_found | exact Hw | exact HX].
  - apply busy_upd_sim'; [apply sim_of_factors, fc_ack_error | exact Hw].
  - apply parse_args_sim; assumption.
  - apply parse_write_args_sim; assumption.
  - pose proof HX as HX'. live_eqs Hs HX'.
    apply format_read_args_sim with (X := CS_FORMAT_READ_ARGS); try assumption.
    + apply sim_at_ack_error.
    + intros v c. apply sim_of_factors_at, lf_fra_post.
  - apply wait_test_sim; assumption.
  - apply busy_upd_sim with (X := CS_FORMAT_TEST_ARGS); [apply sim_of_factors_at, lf_format_test_args | exact Hw | exact HX].
  - apply process_write_loop_sim; assumption.
  - pose proof HX as HX'. live_eqs Hs HX'.
    apply process_rt_loop_sim with (X := CS_READ_LOOP); try assumption.
    intros e code. apply sim_of_factors_at, lf_rt_post_read.
  - pose proof HX as HX'. live_eqs Hs HX'.
    apply process_rt_loop_sim with (X := CS_TEST_LOOP); try assumption.
    intros e code. apply sim_of_factors_at, lf_rt_post_test.
  - apply process_run_loop_sim; assumption.
  - apply busy_upd_sim with (X := CS_HOLD); [apply sim_of_factors_at, lf_process_hold_state | exact Hw | exact HX].
  - apply busy_upd_sim with (X := CS_FLUSH_WAIT); [apply sim_of_factors_at, lf_process_io_write_wait | exact Hw | exact HX].
  - apply process_io_write_sim; assumption.
  - apply busy_upd_sim with (X := CS_AFTER_RESET); [apply sim_of_factors_at, lf_reset_state | exact Hw | exact HX].
  - apply busy_upd_sim'; [apply sim_of_factors, fc_ack_ok | exact Hw].
  - apply busy_upd_sim with (X := CS_AFTER_FMT_READ); [apply sim_of_factors_at, lf_after_fmt_read | exact Hw | exact HX].
  - apply busy_upd_sim with (X := CS_AFTER_FMT_TEST); [apply sim_of_factors_at, lf_after_fmt_test | exact Hw | exact HX].
  - apply busy_upd_sim with (X := CS_PRINT_CMD); [apply sim_of_factors_at, lf_print_cmd_list | exact Hw | exact HX].
Qed.

Lemma service_body_sim sc w1 w2 : world_eq_gen sc w1 w2 ->
  res_eq sc (service_body w1) (service_body w2).
Proof.
  intros Hw. unfold Fsm.service_body.
  pose proof (ues_sim sc _ _ Hw) as [Ha Hra].
  destruct (unsolicited_events_service w1) as [a ra], (unsolicited_events_service w2) as [b rb].
  cbn [fst snd] in Ha, Hra. subst rb.
  pose proof (cmd_service_sim sc _ _ Ha) as [Hc Hrc].
  destruct (cmd_service a) as [a' ra'], (cmd_service b) as [b' rb'].
  cbn [fst snd] in Hc, Hrc. subst rb'.
  pose proof Hc as (Hs & _). rewrite <- (sq_u _ _ _ Hs).
  destruct (negb (ra =? ST_OK)%Z || negb (ustate_beq (u_state (u (st a'))) US_IDLE));
    split; cbn [fst snd]; try exact Hc; reflexivity.
Qed.

(* ---------- public operations ---------- *)
Lemma pure_bracket_sim sc (q : state -> Z) w1 w2 :
  (forall s1 s2, scratch_eq_gen sc s1 s2 -> q s1 = q s2) ->
  world_eq_gen sc w1 w2 ->
  res_eq sc (bracket w1 (fun w => (w, q (st w)))) (bracket w2 (fun w => (w, q (st w)))).
Proof.
  intros Hq Hw. apply bracket_sim; [| exact Hw].
  intros a b Hab. split; cbn [fst snd]; [exact Hab | apply Hq, Hab].
Qed.

Definition op_ok (sc : bool) (o : op) : Prop := sc = true \/ o <> OGetProcessed ATCMD.

Lemma do_op_sim sc o w1 w2 : op_ok sc o -> world_eq_gen sc w1 w2 ->
  res_eq sc (do_op w1 o) (do_op w2 o).
Proof.
  intros Hok Hw. pose proof Hw as (Hs & _).
  destruct o as [| ci t | status | | | | ci t | f | i b | g b]; cbn [Fsm.do_op].
  - unfold Fsm.api_service. apply bracket_sim; [| exact Hw]. intros a b. apply service_body_sim.
  - apply api_trigger_sim, Hw.
  - apply api_hold_exit_sim, Hw.
  - unfold Fsm.api_is_busy. apply (pure_bracket_sim sc is_busy); [| exact Hw].
    intros s1 s2 H. unfold is_busy. rewrite (sq_kstate _ _ _ H), (sq_u _ _ _ H). reflexivity.
  - unfold Fsm.api_is_hold. apply (pure_bracket_sim sc is_hold); [| exact Hw].
    intros s1 s2 H. unfold is_hold. rewrite (sq_khold _ _ _ H). reflexivity.
  - unfold Fsm.api_is_full.
    apply (pure_bracket_sim sc (fun s => if ring_full D s then ST_BUFFER_FULL else ST_OK)); [| exact Hw].
    intros s1 s2 H. unfold ring_full. rewrite (sq_u _ _ _ H). reflexivity.
  - split; cbn [fst snd]; [exact Hw|].
    unfold is_event_buffered, ring_items. rewrite (sq_u _ _ _ Hs). reflexivity.
  - split; cbn [fst snd]; [exact Hw|].
    unfold get_processed, g_cmd. destruct f.
    + destruct Hok as [-> | Hne]; [| exfalso; apply Hne; reflexivity].
      rewrite (sq_kcmd_true _ _ Hs). reflexivity.
    + rewrite (sq_u _ _ _ Hs). reflexivity.
  - split; cbn [fst snd]; [| reflexivity].
    apply weq_upd_st; [| exact Hw]. apply (uleaf_sim sc _ (ul_set_dis_cmd i b)), Hs.
  - split; cbn [fst snd]; [| reflexivity].
    apply weq_upd_st; [| exact Hw]. apply (uleaf_sim sc _ (ul_set_dis_grp g b)), Hs.
Qed.

Lemma step_sim sc o w1 w2 : op_ok sc o -> world_eq_gen sc w1 w2 ->
  world_eq_gen sc (step w1 o) (step w2 o).
Proof.
  intros Hok Hw. unfold Fsm.step.
  pose proof (do_op_sim sc o _ _ Hok Hw) as [H Hr].
  destruct (do_op w1 o) as [a ra], (do_op w2 o) as [b rb]. cbn [fst snd] in H, Hr. subst rb.
  apply weq_logw, H.
Qed.

Lemma run_sim sc ops : forall w1 w2, Forall (op_ok sc) ops -> world_eq_gen sc w1 w2 ->
  world_eq_gen sc (run w1 ops) (run w2 ops).
Proof.
  unfold Fsm.run. induction ops as [|o r IH]; intros w1 w2 Hok Hw; cbn [fold_left]; [exact Hw|].
  inversion Hok; subst. apply IH; [assumption | apply step_sim; assumption].
Qed.

End C20f.

(* ================================================================== *)
(*                        the C20 statements                          *)
(* ================================================================== *)

(* the CS_IDLE row of the relation, spelled out *)
Definition idle_row (sc : bool) (s1 s2 : state) : Prop :=
  k_state (k s2) = CS_IDLE /\
  k_cr (k s1) = k_cr (k s2) /\ k_hold (k s1) = k_hold (k s2) /\ k_implicit (k s1) = k_implicit (k s2) /\
  (k_hold (k s1) = true -> k_hold_exit (k s1) = k_hold_exit (k s2)) /\
  (sc = true -> k_cmd (k s1) = k_cmd (k s2)) /\
  u s1 = u s2 /\ ubuf s1 = ubuf s2 /\ mem s1 = mem s2 /\ dis_cmd s1 = dis_cmd s2 /\ dis_grp s1 = dis_grp s2 /\
  fault s1 = fault s2 /\ gL s1 = gL s2 /\ gS s1 = gS s2 /\ gR s1 = gR s2 /\
  length (cbuf s1) = length (cbuf s2).

Lemma idle_row_exact sc s1 s2 : k_state (k s1) = CS_IDLE ->
  (scratch_eq_gen sc s1 s2 <-> idle_row sc s1 s2).
Proof.
  intros HX. split.
  - intros H. pose proof (sq_kstate _ _ _ H) as HK. rewrite HX in HK. symmetry in HK.
    pose proof H as H'. unfold scratch_eq_gen in H'.
    assert (Hlen : length (cbuf s1) = length (cbuf s2))
      by (rewrite <- (norm_cbuf_length sc s1), <- (norm_cbuf_length sc s2), H'; reflexivity).
    destruct s1 as [[i1 p1 l1 po1 ws1 c1 v1 t1 ch1 x1 cr1 h1 he1 wb1 wst1 wa1 im1] uu1 b1 ub1 m1 dc1 dg1 f1 gl1 gs1 gr1].
    destruct s2 as [[i2 p2 l2 po2 ws2 c2 v2 t2 ch2 x2 cr2 h2 he2 wb2 wst2 wa2 im2] uu2 b2 ub2 m2 dc2 dg2 f2 gl2 gs2 gr2].
    cbn [k k_state] in HX, HK. subst x1 x2. rs in H'. injection H'; intros; subst.
    unfold idle_row. rs0.
    repeat split; try reflexivity; try assumption.
    + intros ->. assumption.
    + intros ->. assumption.
  - intros (HK & Hcr & Hh & Him & Hhe & Hcmd & Hu & Hub & Hm & Hdc & Hdg & Hf & Hgl & Hgs & Hgr & Hlen).
    destruct s1 as [[i1 p1 l1 po1 ws1 c1 v1 t1 ch1 x1 cr1 h1 he1 wb1 wst1 wa1 im1] uu1 b1 ub1 m1 dc1 dg1 f1 gl1 gs1 gr1].
    destruct s2 as [[i2 p2 l2 po2 ws2 c2 v2 t2 ch2 x2 cr2 h2 he2 wb2 wst2 wa2 im2] uu2 b2 ub2 m2 dc2 dg2 f2 gl2 gs2 gr2].
    rs0 in Hlen. cbn [k k_state k_cr k_hold k_implicit k_hold_exit k_cmd u ubuf mem dis_cmd dis_grp fault gL gS gR] in *.
    subst. unfold scratch_eq_gen. rs. rewrite Hlen.
    destruct h2; [rewrite (Hhe eq_refl) |]; (destruct sc; [rewrite (Hcmd eq_refl) |]); reflexivity.
Qed.

(* re-initialisation facts *)
Lemma prepare_parse_command_agree s1 s2 : length (cbuf s1) = length (cbuf s2) ->
  cbuf (prepare_parse_command s1) = cbuf (prepare_parse_command s2) /\
  k_index (k (prepare_parse_command s1)) = k_index (k (prepare_parse_command s2)) /\
  k_length (k (prepare_parse_command s1)) = k_length (k (prepare_parse_command s2)) /\
  k_type (k (prepare_parse_command s1)) = k_type (k (prepare_parse_command s2)).
Proof. intros H. unfold prepare_parse_command, asz. cbn. rewrite H. repeat split. Qed.

Lemma prepare_parse_command_values s :
  cbuf (prepare_parse_command s) = repeat 85%N (length (cbuf s)) /\
  k_index (k (prepare_parse_command s)) = 0 /\ k_length (k (prepare_parse_command s)) = 0 /\
  k_type (k (prepare_parse_command s)) = T_RUN.
Proof. repeat split. Qed.

Lemma prepare_search_command_resets s :
  k_index (k (prepare_search_command s)) = 0 /\ k_partial (k (prepare_search_command s)) = 0 /\
  k_cmd (k (prepare_search_command s)) = None.
Proof. repeat split. Qed.

Lemma reset_state_clears s : k_hold (k s) = false ->
  k_state (k (reset_state s)) = CS_IDLE /\ k_cr (k (reset_state s)) = false /\
  k_cmd (k (reset_state s)) = None /\ k_type (k (reset_state s)) = T_NONE.
Proof. intros H. unfold reset_state. rewrite H. repeat split. Qed.

Lemma reset_state_held s : k_hold (k s) = true ->
  k_state (k (reset_state s)) = CS_HOLD /\ k_cr (k (reset_state s)) = k_cr (k s) /\
  k_cmd (k (reset_state s)) = None /\ k_type (k (reset_state s)) = T_NONE.
Proof. intros H. unfold reset_state. rewrite H. repeat split. Qed.

Theorem newline_choice : forall after s, k_wbuf (k (start_flush_c after s)) = WB_NL (k_cr (k s)).
Proof. reflexivity. Qed.
Theorem newline_choice_u : forall after s, u_wbuf (u (start_flush_u after s)) = WB_NL (k_cr (k s)).
Proof. reflexivity. Qed.

Section C20g.
Variable D : desc.
Variables ioS muS hS : Type.
Variable io_read : ioS -> ioS * option N.
Variable io_write : ioS -> N -> ioS * bool.
Variable mu_lock : muS -> muS * bool.
Variable mu_unlock : muS -> muS * bool.
Variable h_call : hS -> hreq -> hS * hres.

Notation world := (world ioS muS hS).
Notation step := (step D ioS muS hS io_read io_write mu_lock mu_unlock h_call).
Notation run := (run D ioS muS hS io_read io_write mu_lock mu_unlock h_call).
Notation do_op := (do_op D ioS muS hS io_read io_write mu_lock mu_unlock h_call).
Notation cmd_service := (cmd_service D ioS muS hS io_read io_write mu_lock mu_unlock h_call).
Notation service_body := (service_body D ioS muS hS io_read io_write mu_lock mu_unlock h_call).
Notation unsolicited_events_service := (unsolicited_events_service D ioS muS hS io_write mu_lock mu_unlock h_call).
Notation bracket := (bracket D ioS muS hS mu_lock mu_unlock).
Notation api_trigger := (api_trigger D ioS muS hS mu_lock mu_unlock).
Notation api_hold_exit := (api_hold_exit D ioS muS hS mu_lock mu_unlock).
Notation apply_icall := (apply_icall D ioS muS hS mu_lock mu_unlock).
Notation call_h := (call_h D ioS muS hS mu_lock mu_unlock h_call).
Notation busy := (busy ioS muS hS).
Notation upd_st := (upd_st ioS muS hS).
Notation logw := (logw ioS muS hS).
Notation set_st := (set_st ioS muS hS).
Notation set_io := (set_io ioS muS hS).
Notation set_mu := (set_mu ioS muS hS).
Notation set_hs := (set_hs ioS muS hS).
Notation reading := (reading ioS muS hS io_read).
Notation st := (Fsm.st ioS muS hS).
Notation io := (Fsm.io ioS muS hS).
Notation mu := (Fsm.mu ioS muS hS).
Notation hs := (Fsm.hs ioS muS hS).
Notation tr := (Fsm.tr ioS muS hS).
Notation mkWorld := (Fsm.mkWorld ioS muS hS).
Notation world_eq_gen := (world_eq_gen ioS muS hS).

Lemma update_command_clears_implicit s :
  k_state (k (update_command D s)) = CS_SEARCH_COMMAND -> k_state (k s) <> CS_SEARCH_COMMAND ->
  k_implicit (k (update_command D s)) = false /\ k_type (k (update_command D s)) = T_WRITE /\
  k_index (k (update_command D s)) = 0 /\ k_partial (k (update_command D s)) = 0 /\
  k_cmd (k (update_command D s)) = None.
Proof.
  rewrite update_command_eq. intros H Hne.
  destruct (cmd_by_index (d_groups D) (k_index (k s))) as [c|]; [| exfalso; apply Hne; exact H].
  destruct (get_cmd_state D s (k_index (k s))) as [cs|]; [| exfalso; apply Hne; exact H].
  pose proof (uc_mark_kstate c cs s) as HK.
  revert H. unfold uc_tail. cbv zeta.
  destruct (ncmds D <=? S (k_index (k s))).
  - destruct (negb (k_implicit (k (setk_index 0 (uc_mark c cs s))))).
    + cbn. intros H; discriminate H.
    + intros _. repeat split.
  - cbn. rewrite HK. intros H. exfalso. apply Hne, H.
Qed.

(* the requested relation and its variant *)
Definition world_eq (w1 w2 : world) : Prop :=
  scratch_eq (st w1) (st w2) /\ io w1 = io w2 /\ mu w1 = mu w2 /\ hs w1 = hs w2 /\ tr w1 = tr w2.
Definition world_eq_cmd (w1 w2 : world) : Prop :=
  scratch_eq_cmd (st w1) (st w2) /\ io w1 = io w2 /\ mu w1 = mu w2 /\ hs w1 = hs w2 /\ tr w1 = tr w2.

Theorem scratch_dead_step_partial : forall w1 w2 o, o <> OGetProcessed ATCMD ->
  world_eq w1 w2 -> world_eq (step w1 o) (step w2 o).
Proof. intros w1 w2 o Ho H. apply (step_sim D _ _ _ io_read io_write mu_lock mu_unlock h_call false); [right; exact Ho | exact H]. Qed.

Theorem scratch_dead_partial : forall ops w1 w2, Forall (fun o => o <> OGetProcessed ATCMD) ops ->
  world_eq w1 w2 -> world_eq (run w1 ops) (run w2 ops).
Proof.
  intros ops w1 w2 Ho H. apply (run_sim D _ _ _ io_read io_write mu_lock mu_unlock h_call false); [| exact H].
  eapply Forall_impl; [| exact Ho]. intros o Hne. right. exact Hne.
Qed.

Theorem scratch_dead_step_cmd : forall w1 w2 o, world_eq_cmd w1 w2 -> world_eq_cmd (step w1 o) (step w2 o).
Proof. intros w1 w2 o H. apply (step_sim D _ _ _ io_read io_write mu_lock mu_unlock h_call true); [left; reflexivity | exact H]. Qed.

Theorem scratch_dead_cmd : forall ops w1 w2, world_eq_cmd w1 w2 -> world_eq_cmd (run w1 ops) (run w2 ops).
Proof.
  intros ops w1 w2 H. apply (run_sim D _ _ _ io_read io_write mu_lock mu_unlock h_call true); [| exact H].
  apply Forall_forall. intros o _. left. reflexivity.
Qed.

(* the unrestricted statement is false: cat_get_processed shows a stale k_cmd *)
Theorem scratch_dead_step_counterexample : forall w : world,
  k_state (k (st w)) = CS_IDLE -> k_cmd (k (st w)) = None ->
  let w' := upd_st (setk_cmd (Some 0)) w in
  world_eq w w' /\ ~ world_eq (step w (OGetProcessed ATCMD)) (step w' (OGetProcessed ATCMD)).
Proof.
  intros w HX HC w'. split.
  - repeat split. apply (proj2 (idle_row_exact false _ _ HX)).
    unfold idle_row. repeat split; try reflexivity; try exact HX. intros H; discriminate H.
  - intros (_ & _ & _ & _ & Htr). unfold Fsm.step in Htr. cbn in Htr.
    unfold get_processed, g_cmd in Htr. cbn in Htr. rewrite HC in Htr. discriminate Htr.
Qed.

Theorem idle_characterisation_partial : forall s1 s2,
  k_state (k s1) = CS_IDLE -> k_state (k s2) = CS_IDLE ->
  k_cr (k s1) = k_cr (k s2) -> k_hold (k s1) = k_hold (k s2) -> k_implicit (k s1) = k_implicit (k s2) ->
  (k_hold (k s1) = true -> k_hold_exit (k s1) = k_hold_exit (k s2)) ->
  u s1 = u s2 -> ubuf s1 = ubuf s2 -> mem s1 = mem s2 -> dis_cmd s1 = dis_cmd s2 -> dis_grp s1 = dis_grp s2 ->
  fault s1 = fault s2 -> gL s1 = gL s2 -> gS s1 = gS s2 -> gR s1 = gR s2 -> length (cbuf s1) = length (cbuf s2) ->
  scratch_eq s1 s2.
Proof.
  intros. apply (proj2 (idle_row_exact false s1 s2 H)). unfold idle_row.
  repeat split; try assumption. intros E; discriminate E.
Qed.

Theorem idle_characterisation_cmd : forall s1 s2,
  k_state (k s1) = CS_IDLE -> k_state (k s2) = CS_IDLE ->
  k_cr (k s1) = k_cr (k s2) -> k_hold (k s1) = k_hold (k s2) -> k_implicit (k s1) = k_implicit (k s2) ->
  (k_hold (k s1) = true -> k_hold_exit (k s1) = k_hold_exit (k s2)) -> k_cmd (k s1) = k_cmd (k s2) ->
  u s1 = u s2 -> ubuf s1 = ubuf s2 -> mem s1 = mem s2 -> dis_cmd s1 = dis_cmd s2 -> dis_grp s1 = dis_grp s2 ->
  fault s1 = fault s2 -> gL s1 = gL s2 -> gS s1 = gS s2 -> gR s1 = gR s2 -> length (cbuf s1) = length (cbuf s2) ->
  scratch_eq_cmd s1 s2.
Proof.
  intros. apply (proj2 (idle_row_exact true s1 s2 H)). unfold idle_row.
  repeat split; try assumption. intros _; assumption.
Qed.

Definition fresh_of (s : state) : state := set_k init_cfsm (set_cbuf (repeat (d_fill D) (asz_of D)) s).

Corollary fresh_vs_used : forall (w : world),
  k_state (k (st w)) = CS_IDLE -> k_cr (k (st w)) = false -> k_hold (k (st w)) = false ->
  k_implicit (k (st w)) = false -> k_cmd (k (st w)) = None -> length (cbuf (st w)) = asz_of D ->
  forall ops, tr (run w ops) = tr (run (set_st (fresh_of (st w)) w) ops).
Proof.
  intros w HX Hcr Hh Him Hc Hlen ops.
  assert (H : world_eq_cmd w (set_st (fresh_of (st w)) w)).
  { repeat split. apply idle_characterisation_cmd; try reflexivity; try assumption.
    - cbn. rewrite Hh. intros E; discriminate E.
    - cbn. rewrite repeat_length. exact Hlen. }
  apply (scratch_dead_cmd ops) in H. apply H.
Qed.

Corollary fresh_vs_used_partial : forall (w : world),
  k_state (k (st w)) = CS_IDLE -> k_cr (k (st w)) = false -> k_hold (k (st w)) = false ->
  k_implicit (k (st w)) = false -> length (cbuf (st w)) = asz_of D ->
  forall ops, Forall (fun o => o <> OGetProcessed ATCMD) ops ->
  tr (run w ops) = tr (run (set_st (fresh_of (st w)) w) ops).
Proof.
  intros w HX Hcr Hh Him Hlen ops Hops.
  assert (H : world_eq w (set_st (fresh_of (st w)) w)).
  { repeat split. apply idle_characterisation_partial; try reflexivity; try assumption.
    - cbn. rewrite Hh. intros E; discriminate E.
    - cbn. rewrite repeat_length. exact Hlen. }
  apply (scratch_dead_partial ops _ _ Hops) in H. apply H.
Qed.

End C20g.

(* ---------- second half: the line ending mirrors the request ---------- *)
Section C20h.
Variable D : desc.
Variables ioS muS hS : Type.
Variable io_read : ioS -> ioS * option N.
Variable io_write : ioS -> N -> ioS * bool.
Variable mu_lock : muS -> muS * bool.
Variable mu_unlock : muS -> muS * bool.
Variable h_call : hS -> hreq -> hS * hres.

Notation world := (world ioS muS hS).
Notation step := (step D ioS muS hS io_read io_write mu_lock mu_unlock h_call).
Notation run := (run D ioS muS hS io_read io_write mu_lock mu_unlock h_call).
Notation do_op := (do_op D ioS muS hS io_read io_write mu_lock mu_unlock h_call).
Notation cmd_service := (cmd_service D ioS muS hS io_read io_write mu_lock mu_unlock h_call).
Notation service_body := (service_body D ioS muS hS io_read io_write mu_lock mu_unlock h_call).
Notation unsolicited_events_service := (unsolicited_events_service D ioS muS hS io_write mu_lock mu_unlock h_call).
Notation bracket := (bracket D ioS muS hS mu_lock mu_unlock).
Notation api_trigger := (api_trigger D ioS muS hS mu_lock mu_unlock).
Notation api_hold_exit := (api_hold_exit D ioS muS hS mu_lock mu_unlock).
Notation apply_icall := (apply_icall D ioS muS hS mu_lock mu_unlock).
Notation call_h := (call_h D ioS muS hS mu_lock mu_unlock h_call).
Notation busy := (busy ioS muS hS).
Notation upd_st := (upd_st ioS muS hS).
Notation logw := (logw ioS muS hS).
Notation set_st := (set_st ioS muS hS).
Notation set_io := (set_io ioS muS hS).
Notation set_mu := (set_mu ioS muS hS).
Notation set_hs := (set_hs ioS muS hS).
Notation reading := (reading ioS muS hS io_read).
Notation st := (Fsm.st ioS muS hS).
Notation io := (Fsm.io ioS muS hS).
Notation mu := (Fsm.mu ioS muS hS).
Notation hs := (Fsm.hs ioS muS hS).
Notation tr := (Fsm.tr ioS muS hS).
Notation mkWorld := (Fsm.mkWorld ioS muS hS).

Theorem cr_in_idle_ignored : forall (w : world) io' ch,
  k_state (k (st w)) = CS_IDLE -> io_read (io w) = (io', Some ch) -> (ch = ch_CR \/ ch = ch_LF) ->
  cmd_service w =
  (mkWorld (setk_char ch (st w)) io' (mu w) (hs w) (ERd (Some ch) :: tr w), ST_BUSY).
Proof.
  intros w io' ch HX Hr Hch.
  unfold Fsm.cmd_service. rewrite HX. unfold Fsm.process_idle_state.
  rewrite (reading_eq ioS muS hS io_read). rewrite Hr.
  unfold rd_step. rewrite HX.
  destruct Hch as [-> | ->]; reflexivity.
Qed.

Definition cr_reading_states : list cstate :=
  [CS_ERROR; CS_PARSE_PREFIX; CS_PARSE_COMMAND_CHAR; CS_WAIT_READ_ACK; CS_WAIT_TEST_ACK; CS_PARSE_COMMAND_ARGS].

Theorem cr_recorded : forall (w : world) io',
  In (k_state (k (st w))) cr_reading_states ->
  (k_state (k (st w)) = CS_PARSE_COMMAND_ARGS -> cmd_of D ATCMD (st w) <> None) ->
  io_read (io w) = (io', Some ch_CR) ->
  cmd_service w =
  (mkWorld (setk_cr true (setk_char ch_CR (st w))) io' (mu w) (hs w) (ERd (Some ch_CR) :: tr w), ST_BUSY).
Proof.
  intros w io' Hin Hargs Hr.
  unfold cr_reading_states in Hin. cbn [In] in Hin.
  destruct Hin as [HX | [HX | [HX | [HX | [HX | [HX | []]]]]]]; symmetry in HX;
    unfold Fsm.cmd_service; rewrite HX.
  - unfold Fsm.error_state. rewrite (reading_eq ioS muS hS io_read), Hr. unfold rd_step. rewrite HX. reflexivity.
  - unfold Fsm.parse_prefix. rewrite (reading_eq ioS muS hS io_read), Hr. unfold rd_step. rewrite HX. reflexivity.
  - unfold Fsm.parse_command. rewrite (reading_eq ioS muS hS io_read), Hr. unfold rd_step. rewrite HX. reflexivity.
  - unfold Fsm.wait_read_acknowledge. rewrite (reading_eq ioS muS hS io_read), Hr. unfold rd_step. rewrite HX. reflexivity.
  - unfold Fsm.wait_test_acknowledge. rewrite (reading_eq ioS muS hS io_read), Hr. unfold rd_step. rewrite HX. reflexivity.
  - specialize (Hargs HX).
    unfold Fsm.parse_command_args. rewrite (reading_eq ioS muS hS io_read), Hr. unfold rd_step. rewrite HX.
    cbn [cstate_beq negb]. change ((ch_CR =? ch_LF)%N) with false. cbn [andb].
    change (cmd_of D ATCMD (setk_char ch_CR (st w))) with (cmd_of D ATCMD (st w)).
    destruct (cmd_of D ATCMD (st w)) as [c|]; [reflexivity | exfalso; apply Hargs; reflexivity].
Qed.

End C20h.

(* ---------- the requested CS_IDLE row is too weak when k_hold is set: a concrete run ---------- *)
Definition cexD : desc := mkDesc [] [] 16 (Some 8) 0%N 1 false.
Definition cex_s (he : Z) : state :=
  set_k (set_k_hold_exit he (set_k_hold true init_cfsm)) (init_state cexD []).
Definition cex_w (he : Z) : world sio smu shs :=
  mkWorld sio smu shs (cex_s he) (mkSio [88%N; 10%N] [] []) (mkSmu [] []) [] [].
Definition cex_run (he : Z) : world sio smu shs :=
  run cexD sio smu shs s_read s_write s_lock s_unlock s_call (cex_w he) (repeat OService 24).

Theorem idle_characterisation_requested_false :
  let s1 := cex_s 0%Z in let s2 := cex_s 1%Z in
  (k_state (k s1) = CS_IDLE /\ k_state (k s2) = CS_IDLE /\
   k_cr (k s1) = k_cr (k s2) /\ k_hold (k s1) = k_hold (k s2) /\ k_implicit (k s1) = k_implicit (k s2) /\
   u s1 = u s2 /\ ubuf s1 = ubuf s2 /\ mem s1 = mem s2 /\ dis_cmd s1 = dis_cmd s2 /\ dis_grp s1 = dis_grp s2 /\
   fault s1 = fault s2 /\ gL s1 = gL s2 /\ gS s1 = gS s2 /\ gR s1 = gR s2 /\
   length (cbuf s1) = length (cbuf s2) /\ cbuf s1 = cbuf s2) /\
  tr _ _ _ (cex_run 0%Z) <> tr _ _ _ (cex_run 1%Z).
Proof.
  split; [repeat split |].
  intros H. apply (f_equal (@length event)) in H. vm_compute in H. discriminate H.
Qed.

(* ---------- k_cr changes only by a CR read in a non-IDLE reading state and by reset_state ---------- *)
Ltac kcr_go := intros; repeat smatch; reflexivity.

Section C20i.
Variable D : desc.
Variables ioS muS hS : Type.
Variable io_read : ioS -> ioS * option N.
Variable io_write : ioS -> N -> ioS * bool.
Variable mu_lock : muS -> muS * bool.
Variable mu_unlock : muS -> muS * bool.
Variable h_call : hS -> hreq -> hS * hres.

Notation world := (world ioS muS hS).
Notation step := (step D ioS muS hS io_read io_write mu_lock mu_unlock h_call).
Notation run := (run D ioS muS hS io_read io_write mu_lock mu_unlock h_call).
Notation do_op := (do_op D ioS muS hS io_read io_write mu_lock mu_unlock h_call).
Notation cmd_service := (cmd_service D ioS muS hS io_read io_write mu_lock mu_unlock h_call).
Notation service_body := (service_body D ioS muS hS io_read io_write mu_lock mu_unlock h_call).
Notation unsolicited_events_service := (unsolicited_events_service D ioS muS hS io_write mu_lock mu_unlock h_call).
Notation bracket := (bracket D ioS muS hS mu_lock mu_unlock).
Notation api_trigger := (api_trigger D ioS muS hS mu_lock mu_unlock).
Notation api_hold_exit := (api_hold_exit D ioS muS hS mu_lock mu_unlock).
Notation apply_icall := (apply_icall D ioS muS hS mu_lock mu_unlock).
Notation call_h := (call_h D ioS muS hS mu_lock mu_unlock h_call).
Notation busy := (busy ioS muS hS).
Notation upd_st := (upd_st ioS muS hS).
Notation logw := (logw ioS muS hS).
Notation set_st := (set_st ioS muS hS).
Notation set_io := (set_io ioS muS hS).
Notation set_mu := (set_mu ioS muS hS).
Notation set_hs := (set_hs ioS muS hS).
Notation reading := (reading ioS muS hS io_read).
Notation st := (Fsm.st ioS muS hS).
Notation io := (Fsm.io ioS muS hS).
Notation mu := (Fsm.mu ioS muS hS).
Notation hs := (Fsm.hs ioS muS hS).
Notation tr := (Fsm.tr ioS muS hS).
Notation mkWorld := (Fsm.mkWorld ioS muS hS).
Notation parse_write_args := (parse_write_args D ioS muS hS mu_lock mu_unlock h_call).
Notation format_read_args := (format_read_args D ioS muS hS mu_lock mu_unlock h_call).
Notation process_write_loop := (process_write_loop D ioS muS hS mu_lock mu_unlock h_call).
Notation process_run_loop := (process_run_loop D ioS muS hS mu_lock mu_unlock h_call).
Notation process_rt_loop := (process_rt_loop D ioS muS hS mu_lock mu_unlock h_call).
Notation process_io_write := (process_io_write ioS muS hS io_write).
Notation unsolicited_process_io_write := (unsolicited_process_io_write ioS muS hS io_write).

Definition crp (g : state -> state) : Prop := forall s, k_cr (k (g s)) = k_cr (k s).

Lemma crp_uleaf g : uleaf g -> crp g.
Proof. intros U s. rewrite (uleaf_k g s U). reflexivity. Qed.
Lemma crp_comp g1 g2 : crp g1 -> crp g2 -> crp (fun s => g2 (g1 s)).
Proof. intros C1 C2 s. rewrite C2, C1. reflexivity. Qed.

Lemma crp_ack_error : crp ack_error. Proof. intros s; reflexivity. Qed.
Lemma crp_ack_ok : crp ack_ok. Proof. intros s; reflexivity. Qed.
Lemma crp_enable_hold : crp enable_hold_state. Proof. intros s; reflexivity. Qed.
Lemma crp_hold_exit st0 : crp (fun s => fst (hold_exit s st0)).
Proof. intros s. unfold hold_exit. destruct (negb (k_hold (k s))); reflexivity. Qed.
Lemma crp_fault : crp set_fault_flag. Proof. intros s; reflexivity. Qed.

Lemma crp_print_string f t s : k_cr (k (fst (print_string f s t))) = k_cr (k s).
Proof.
  unfold print_string. destruct (print_nstring (get_cur f s) t) as [c ok]. cbn [fst].
  unfold put_cur. destruct (cu_fault c); destruct f; reflexivity.
Qed.
Lemma crp_print_strings f ts s : k_cr (k (fst (print_strings f s ts))) = k_cr (k s).
Proof.
  unfold print_strings. destruct (print_pieces (get_cur f s) ts) as [c ok]. cbn [fst].
  unfold put_cur. destruct (cu_fault c); destruct f; reflexivity.
Qed.
Lemma crp_put_cur f c : crp (put_cur f c).
Proof. intros s. unfold put_cur. destruct (cu_fault c); destruct f; reflexivity. Qed.

Lemma crp_end_with_error f : crp (end_with_error f).
Proof. intros s. destruct f; reflexivity. Qed.
Lemma crp_end_with_ok f : crp (end_with_ok f).
Proof. intros s. destruct f; reflexivity. Qed.

Lemma crp_print_response_test f s : k_cr (k (fst (print_response_test D f s))) = k_cr (k s).
Proof.
  unfold print_response_test. destruct (cmd_of D f s) as [c|]; [| reflexivity].
  destruct (c_descr c) as [d|].
  - pose proof (crp_print_strings f [nl_chars s; d] s) as H.
    destruct (print_strings f s [nl_chars s; d]) as [s1 ok]. cbn [fst] in H.
    destruct ok; cbn [negb fst]; [| exact H].
    destruct (c_htest c); cbn [fst]; destruct f; exact H.
  - cbn [negb]. destruct (c_htest c); cbn [fst]; destruct f; reflexivity.
Qed.

Lemma crp_spft f : crp (start_processing_format_test_args D f).
Proof.
  intros s. unfold start_processing_format_test_args.
  set (s0 := setg_pos f 0 s). assert (H0 : k_cr (k s0) = k_cr (k s)) by (destruct f; reflexivity).
  destruct (cmd_of D f s0) as [c|]; [| exact H0].
  pose proof (crp_print_string f (c_name c) s0) as H1.
  destruct (print_string f s0 (c_name c)) as [s1 ok1]. cbn [fst] in H1.
  destruct ok1; cbn [negb]; [| rewrite crp_end_with_error, H1; exact H0].
  pose proof (crp_print_string f [ch_EQ] s1) as H2.
  destruct (print_string f s1 [ch_EQ]) as [s2 ok2]. cbn [fst] in H2.
  destruct ok2; cbn [negb]; [| rewrite crp_end_with_error, H2, H1; exact H0].
  destruct (c_vars c).
  - pose proof (crp_print_response_test f s2) as H3.
    destruct (print_response_test D f s2) as [s3 ok3]. cbn [fst] in H3.
    destruct ok3; [| rewrite crp_end_with_error]; rewrite H3, H2, H1; exact H0.
  - destruct f; cbn; rewrite H2, H1; exact H0.
Qed.

Lemma crp_spfr f : crp (start_processing_format_read_args D f).
Proof.
  intros s. unfold start_processing_format_read_args.
  set (s0 := setg_pos f 0 s). assert (H0 : k_cr (k s0) = k_cr (k s)) by (destruct f; reflexivity).
  destruct (cmd_of D f s0) as [c|]; [| exact H0].
  pose proof (crp_print_string f (c_name c) s0) as H1.
  destruct (print_string f s0 (c_name c)) as [s1 ok1]. cbn [fst] in H1.
  destruct ok1; cbn [negb]; [| rewrite crp_end_with_error, H1; exact H0].
  pose proof (crp_print_string f [ch_EQ] s1) as H2.
  destruct (print_string f s1 [ch_EQ]) as [s2 ok2]. cbn [fst] in H2.
  destruct ok2; cbn [negb]; [| rewrite crp_end_with_error, H2, H1; exact H0].
  destruct (vars_access_possible c RO).
  - destruct f; cbn; rewrite H2, H1; exact H0.
  - destruct (negb (c_hread c)); [rewrite crp_end_with_error | destruct f; cbn]; rewrite H2, H1; exact H0.
Qed.

Lemma crp_next_format_var f s : k_cr (k (fst (next_format_var D f s))) = k_cr (k s).
Proof.
  unfold next_format_var. destruct (cmd_of D f s) as [c|]; [| reflexivity].
  set (s1 := setg_index f (S (g_index f s)) s).
  assert (H1 : k_cr (k s1) = k_cr (k s)) by (destruct f; reflexivity).
  destruct (S (g_index f s) <? length (c_vars c)); [| exact H1].
  destruct (g_bsz f s1 <=? g_pos f s1); cbn [fst].
  - rewrite crp_end_with_error. exact H1.
  - destruct f; cbn; exact H1.
Qed.

Lemma crp_format_test_args f : crp (format_test_args D f).
Proof.
  intros s. unfold format_test_args. destruct (cmd_of D f s) as [c|]; [| reflexivity].
  destruct (nth_error (c_vars c) (g_var f s)) as [v|]; [| reflexivity].
  destruct (fmt_info v (get_cur f s)) as [c1 ok].
  pose proof (crp_put_cur f c1 s) as H1. set (s1 := put_cur f c1 s) in *.
  destruct ok; cbn [negb]; [| rewrite crp_end_with_error; exact H1].
  pose proof (crp_next_format_var f s1) as H2.
  destruct (next_format_var D f s1) as [s2 handled]. cbn [fst] in H2.
  destruct handled; [rewrite H2; exact H1|].
  pose proof (crp_print_response_test f s2) as H3.
  destruct (print_response_test D f s2) as [s3 ok3]. cbn [fst] in H3.
  destruct ok3; [| rewrite crp_end_with_error]; rewrite H3, H2; exact H1.
Qed.

Lemma crp_fra_post f v c : crp (fra_post D f v c).
Proof.
  intros s. unfold fra_post. destruct (nth_error (mem s) (v_slot v)) as [data|]; [| reflexivity].
  destruct (fmt_var v data (get_cur f s)) as [c1 ok].
  pose proof (crp_put_cur f c1 s) as H1. set (s1 := put_cur f c1 s) in *.
  destruct ok; cbn [negb]; [| rewrite crp_end_with_error; exact H1].
  pose proof (crp_next_format_var f s1) as H2.
  destruct (next_format_var D f s1) as [s2 handled]. cbn [fst] in H2.
  destruct handled; [rewrite H2; exact H1|].
  destruct (c_hread c); destruct f; cbn; rewrite H2; exact H1.
Qed.

Lemma crp_start_print_cmd_list : crp (start_print_cmd_list D).
Proof. intros s. unfold start_print_cmd_list. destruct (ncmds D =? 0); reflexivity. Qed.

Lemma crp_apply_edit f e : crp (apply_edit f e).
Proof.
  intros s. unfold apply_edit. destruct e as [t|]; [| reflexivity].
  destruct (length t <? g_bsz f s); [| reflexivity]. apply crp_put_cur.
Qed.

Lemma crp_rt_branch rd f code : crp (rt_branch D rd f code).
Proof.
  intros s. unfold rt_branch.
  destruct (code =? RC_OK)%Z; [apply crp_end_with_ok|].
  destruct (code =? RC_DATA_OK)%Z; [destruct f; reflexivity|].
  destruct (code =? RC_DATA_NEXT)%Z; [destruct rd, f; reflexivity|].
  destruct (code =? RC_NEXT)%Z; [destruct rd; [apply crp_spfr | apply crp_spft]|].
  destruct (code =? RC_HOLD)%Z; [reflexivity|].
  destruct (code =? RC_HOLD_EXIT_OK)%Z; [rewrite crp_end_with_ok; apply (crp_hold_exit ST_OK)|].
  destruct (code =? RC_HOLD_EXIT_ERROR)%Z; [rewrite crp_end_with_error; apply (crp_hold_exit ST_ERROR)|].
  destruct ((code =? RC_PRINT_CMD_LIST_OK)%Z && negb rd).
  - destruct f; [apply crp_start_print_cmd_list | apply crp_end_with_ok].
  - apply crp_end_with_error.
Qed.
Lemma crp_rt_post rd f e code : crp (rt_post D rd f e code).
Proof. intros s. rewrite rt_post_eq, crp_rt_branch. apply crp_apply_edit. Qed.

Lemma crp_post_write_loop code : crp (post_write_loop code).
Proof. intros s. unfold post_write_loop. repeat smatch; reflexivity. Qed.
Lemma crp_post_run_loop code : crp (post_run_loop D code).
Proof.
  intros s. unfold post_run_loop.
  destruct ((code =? RC_OK)%Z || (code =? RC_DATA_OK)%Z); [reflexivity|].
  destruct ((code =? RC_DATA_NEXT)%Z || (code =? RC_NEXT)%Z); [reflexivity|].
  destruct (code =? RC_HOLD)%Z; [reflexivity|].
  destruct (code =? RC_PRINT_CMD_LIST_OK)%Z; [apply crp_start_print_cmd_list | reflexivity].
Qed.
Lemma crp_pwa_post c comma : crp (pwa_post c comma).
Proof. intros s. unfold pwa_post. cbv zeta. repeat smatch; reflexivity. Qed.

Lemma crp_set_cmd_state i v : crp (fun s => set_cmd_state s i v).
Proof. intros s. unfold set_cmd_state. destruct (nth_error (cbuf s) (i / 4)); reflexivity. Qed.

Lemma crp_uc_mark c cs : crp (uc_mark c cs).
Proof.
  intros s. unfold uc_mark. cbv zeta.
  repeat smatch; try reflexivity; try exact (crp_set_cmd_state _ _ s).
Qed.
Lemma crp_update_command : crp (update_command D).
Proof.
  intros s. rewrite update_command_eq.
  destruct (cmd_by_index (d_groups D) (k_index (k s))) as [c|]; [| reflexivity].
  destruct (get_cmd_state D s (k_index (k s))) as [cs|]; [| reflexivity].
  rewrite <- (crp_uc_mark c cs s). unfold uc_tail. cbv zeta. repeat smatch; reflexivity.
Qed.
Lemma crp_search_command : crp (search_command D).
Proof.
  intros s. unfold search_command. cbv zeta.
  destruct (get_cmd_state D s (k_index (k s))) as [cs|]; [| reflexivity].
  repeat smatch; reflexivity.
Qed.
Lemma crp_command_found : crp (command_found D).
Proof.
  intros s. unfold command_found. destruct (cmd_of D ATCMD s) as [c|]; [| reflexivity].
  destruct (k_type (k s)); try reflexivity.
  - repeat smatch; reflexivity.
  - destruct (c_only_test c); [reflexivity | apply crp_spfr].
  - cbv zeta. destruct (cbuf (setk_length 0 s)); reflexivity.
Qed.
Lemma crp_process_hold_state : crp process_hold_state.
Proof. intros s. unfold process_hold_state. repeat smatch; reflexivity. Qed.
Lemma crp_process_io_write_wait : crp process_io_write_wait.
Proof. intros s. unfold process_io_write_wait. repeat smatch; reflexivity. Qed.
Lemma crp_iow_done : crp iow_done.
Proof. intros s. unfold iow_done. cbv zeta. repeat smatch; reflexivity. Qed.

Lemma crp_pcl_next : crp (pcl_next D).
Proof. intros s. unfold pcl_next, cmd_list_next_cmd. cbv zeta. repeat smatch; reflexivity. Qed.
Lemma crp_pcl_form c avail suffix next : crp (pcl_form c avail suffix next).
Proof.
  intros s. unfold pcl_form, print_cmd_form. destruct avail; [| reflexivity].
  set (s1 := setk_position 0 s). unfold print_current_cmd_full_name.
  destruct (k_length (k s1) =? 0).
  - pose proof (crp_print_string ATCMD (nl_chars s1) s1) as H1.
    destruct (print_string ATCMD s1 (nl_chars s1)) as [s' ok]. cbn [fst] in H1.
    destruct ok; cbn [negb].
    + set (s2 := setk_length 1 s').
      pose proof (crp_print_strings ATCMD [txt_AT; c_name c; suffix; nl_chars s2] s2) as H2.
      destruct (print_strings ATCMD s2 [txt_AT; c_name c; suffix; nl_chars s2]) as [s3 ok3]. cbn [fst] in H2.
      destruct ok3; cbn [negb]; cbn; rewrite H2; exact H1.
    + cbn. exact H1.
  - cbn [negb].
    pose proof (crp_print_strings ATCMD [txt_AT; c_name c; suffix; nl_chars s1] s1) as H2.
    destruct (print_strings ATCMD s1 [txt_AT; c_name c; suffix; nl_chars s1]) as [s3 ok3]. cbn [fst] in H2.
    destruct ok3; cbn [negb]; cbn; rewrite H2; reflexivity.
Qed.
Lemma crp_print_cmd_list : crp (print_cmd_list D).
Proof.
  intros s. rewrite print_cmd_list_eq.
  destruct (cmd_by_index (d_groups D) (k_index (k s))) as [c|]; [| reflexivity].
  set (s1 := setk_cmd (Some (k_index (k s))) s). change (k_cr (k s)) with (k_cr (k s1)).
  unfold pcl_body. destruct (k_type (k s1)); try apply crp_pcl_form; try apply crp_pcl_next.
  unfold pcl_none. destruct (is_command_disable D s1 (k_index (k s))); [apply crp_pcl_next | reflexivity].
Qed.

Notation kst w := (k_state (k (st w))).
Notation kcr w := (k_cr (k (st w))).

Definition crw (w w' : world) : Prop := kcr w' = kcr w.

Lemma bracket_crw body w : (forall a, crw a (fst (body a))) -> crw w (fst (bracket w body)).
Proof.
  intros Hb. unfold Fsm.bracket, crw. destruct (d_mutex D); [| apply Hb].
  destruct (mu_lock (mu w)) as [m1 ok]. destruct ok; cbn [negb]; [| reflexivity].
  pose proof (Hb (logw (ELock true) (set_mu m1 w))) as H. unfold crw in H.
  destruct (body (logw (ELock true) (set_mu m1 w))) as [w' r]. cbn [fst] in H.
  destruct (mu_unlock (mu w')) as [m2 ok2]. destruct ok2; cbn [negb fst]; exact H.
Qed.
Lemma api_trigger_crw ci t w : crw w (fst (api_trigger w ci t)).
Proof.
  unfold Fsm.api_trigger. apply bracket_crw. intros a. unfold crw.
  pose proof (uleaf_k _ (st a) (ul_push D ci t)) as H. cbv beta in H.
  destruct (push_unsolicited_cmd D (st a) ci t) as [sa ra]. cbn [fst] in H. cbn. rewrite H. reflexivity.
Qed.
Lemma api_hold_exit_crw status w : crw w (fst (api_hold_exit w status)).
Proof.
  unfold Fsm.api_hold_exit. apply bracket_crw. intros a. unfold crw.
  pose proof (crp_hold_exit status (st a)) as H. cbv beta in H.
  destruct (hold_exit (st a) status) as [sa ra]. cbn [fst] in H. cbn. exact H.
Qed.
Lemma apply_icall_crw c w : crw w (apply_icall w c).
Proof.
  unfold Fsm.apply_icall. destruct c as [ci t | status].
  - pose proof (api_trigger_crw ci t w) as H. destruct (api_trigger w ci t) as [a ra]. exact H.
  - pose proof (api_hold_exit_crw status w) as H. destruct (api_hold_exit w status) as [a ra]. exact H.
Qed.
Lemma fold_icalls_crw cs : forall w, crw w (fold_left apply_icall cs w).
Proof.
  induction cs as [|c r IH]; intros w; cbn [fold_left]; [reflexivity|].
  unfold crw in *. rewrite IH. apply apply_icall_crw.
Qed.
Lemma call_h_crw q w : crw w (fst (call_h w q)).
Proof.
  unfold Fsm.call_h. destruct (h_call (hs w) q) as [hs' r]. cbn [fst].
  unfold crw. rewrite fold_icalls_crw. cbn.
  rewrite (uleaf_k _ _ (ul_fold_pokes (r_pokes r))). reflexivity.
Qed.

Lemma busy_upd_crw g w : crp g -> crw w (fst (busy (upd_st g w))).
Proof. intros C. unfold crw. cbn. apply C. Qed.

Lemma process_rt_loop_crw rd f w : crw w (fst (process_rt_loop rd f w)).
Proof.
  unfold Fsm.process_rt_loop. cbv zeta.
  destruct (g_cmd f (st w)) as [ci|]; [| apply busy_upd_crw, crp_fault].
  match goal with |- context [call_h w ?q] =>
    pose proof (call_h_crw q w) as H; destruct (call_h w q) as [w1 r] end.
  cbn [fst] in H. unfold crw in *. rewrite <- H.
  apply (busy_upd_crw (rt_post D rd f (r_edit r) (r_code r))), crp_rt_post.
Qed.

Lemma format_read_args_crw f w : crw w (fst (format_read_args f w)).
Proof.
  unfold Fsm.format_read_args. cbv zeta.
  destruct (g_cmd f (st w)) as [ci|]; [| apply busy_upd_crw, crp_fault].
  destruct (cmd_of D f (st w)) as [c|]; [| apply busy_upd_crw, crp_fault].
  destruct (nth_error (c_vars c) (g_var f (st w))) as [v|]; [| apply busy_upd_crw, crp_fault].
  destruct (v_hread v).
  - match goal with |- context [call_h w ?q] =>
      pose proof (call_h_crw q w) as H; destruct (call_h w q) as [w1 r] end.
    cbn [fst] in H. unfold crw in *. rewrite <- H.
    destruct (negb (r_code r =? 0)%Z).
    + apply (busy_upd_crw (end_with_error f)), crp_end_with_error.
    + apply (busy_upd_crw (fra_post D f v c)), crp_fra_post.
  - apply (busy_upd_crw (fra_post D f v c)), crp_fra_post.
Qed.

Lemma unsolicited_process_io_write_crw w : crw w (fst (unsolicited_process_io_write w)).
Proof.
  unfold Fsm.unsolicited_process_io_write. cbv zeta.
  destruct (wbuf_char _ _ _) as [ch|]; [| apply busy_upd_crw, crp_fault].
  destruct (ch =? 0)%N.
  - apply (busy_upd_crw uiow_done), crp_uleaf, ul_uiow_done.
  - destruct (io_write (io w) ch) as [io' ok]. destruct ok; reflexivity.
Qed.

(* (A) the event machine never changes k_cr *)
Theorem ues_cr : forall w, kcr (fst (unsolicited_events_service w)) = kcr w.
Proof.
  intros w. unfold Fsm.unsolicited_events_service.
  destruct (u_state (u (st w))).
  - destruct (negb (ring_empty (st w))); [| reflexivity].
    destruct (ring_items D (st w)); unfold Fsm.busy, Fsm.upd_st, Fsm.set_st, Fsm.logw; cbn [fst Fsm.st];
      apply (crp_uleaf _ (ul_check_unsolicited_buffers D)).
  - apply format_read_args_crw.
  - apply (busy_upd_crw (format_test_args D UNSOL)), crp_format_test_args.
  - apply process_rt_loop_crw.
  - apply process_rt_loop_crw.
  - apply (busy_upd_crw unsolicited_process_io_write_wait), crp_uleaf, ul_upiww.
  - apply unsolicited_process_io_write_crw.
  - apply (busy_upd_crw unsolicited_reset_state), crp_uleaf, ul_unsolicited_reset_state.
  - apply (busy_upd_crw (end_with_ok UNSOL)), crp_end_with_ok.
  - apply (busy_upd_crw (start_processing_format_read_args D UNSOL)), crp_spfr.
  - apply (busy_upd_crw (start_processing_format_test_args D UNSOL)), crp_spft.
Qed.

(* the byte as the command machine sees it *)
Definition rd_char (X : cstate) (c : N) : N :=
  if cstate_beq X CS_PARSE_COMMAND_ARGS then c else to_upper c.

Definition cr_event (w : world) : Prop :=
  In (kst w) cr_reading_states /\
  exists io' c, io_read (io w) = (io', Some c) /\ rd_char (kst w) c = ch_CR.

Ltac smatch_eqn :=
  match goal with
  | |- context [match ?x with _ => _ end] =>
    lazymatch x with
    | context [match _ with _ => _ end] => fail
    | _ => destruct x eqn:?
    end
  end.

Ltac rd_cr_fin :=
  first [ left; reflexivity
        | right; split; [reflexivity | apply N.eqb_eq; assumption] ].

Lemma rd_step_cr_error ch s : k_state (k s) = CS_ERROR ->
  k_cr (k (rd_step body_error ch s)) = k_cr (k s) \/
  (k_cr (k (rd_step body_error ch s)) = true /\ rd_char CS_ERROR ch = ch_CR).
Proof.
  intros HX. unfold rd_step, rd_char, body_error. rewrite HX. cbn [cstate_beq negb].
  repeat smatch_eqn; rd_cr_fin.
Qed.
Lemma rd_step_cr_idle ch s : k_state (k s) = CS_IDLE ->
  k_cr (k (rd_step body_idle ch s)) = k_cr (k s).
Proof.
  intros HX. unfold rd_step, body_idle. rewrite HX. cbn [cstate_beq negb].
  repeat smatch; reflexivity.
Qed.
Lemma rd_step_cr_prefix ch s : k_state (k s) = CS_PARSE_PREFIX ->
  k_cr (k (rd_step body_prefix ch s)) = k_cr (k s) \/
  (k_cr (k (rd_step body_prefix ch s)) = true /\ rd_char CS_PARSE_PREFIX ch = ch_CR).
Proof.
  intros HX. unfold rd_step, rd_char, body_prefix. rewrite HX. cbn [cstate_beq negb].
  repeat smatch_eqn; rd_cr_fin.
Qed.
Lemma rd_step_cr_parse_command ch s : k_state (k s) = CS_PARSE_COMMAND_CHAR ->
  k_cr (k (rd_step body_parse_command ch s)) = k_cr (k s) \/
  (k_cr (k (rd_step body_parse_command ch s)) = true /\ rd_char CS_PARSE_COMMAND_CHAR ch = ch_CR).
Proof.
  intros HX. unfold rd_step, rd_char, body_parse_command. rewrite HX. cbn [cstate_beq negb].
  repeat smatch_eqn; rd_cr_fin.
Qed.
Lemma rd_step_cr_wait_read ch s : k_state (k s) = CS_WAIT_READ_ACK ->
  k_cr (k (rd_step body_wait_read ch s)) = k_cr (k s) \/
  (k_cr (k (rd_step body_wait_read ch s)) = true /\ rd_char CS_WAIT_READ_ACK ch = ch_CR).
Proof.
  intros HX. unfold rd_step, rd_char, body_wait_read. rewrite HX. cbn [cstate_beq negb].
  repeat smatch_eqn; rd_cr_fin.
Qed.
Lemma rd_step_cr_wait_test ch s : k_state (k s) = CS_WAIT_TEST_ACK ->
  k_cr (k (rd_step (body_wait_test D) ch s)) = k_cr (k s) \/
  (k_cr (k (rd_step (body_wait_test D) ch s)) = true /\ rd_char CS_WAIT_TEST_ACK ch = ch_CR).
Proof.
  intros HX. unfold rd_step, rd_char, body_wait_test. rewrite HX. cbn [cstate_beq negb].
  destruct (to_upper ch =? ch_LF)%N eqn:E1.
  - left. rewrite crp_spft. cbn [andb]. reflexivity.
  - cbn [andb]. destruct (to_upper ch =? ch_CR)%N eqn:E2; rd_cr_fin.
Qed.
Lemma rd_step_cr_parse_args ch s : k_state (k s) = CS_PARSE_COMMAND_ARGS ->
  k_cr (k (rd_step (body_parse_args D) ch s)) = k_cr (k s) \/
  (k_cr (k (rd_step (body_parse_args D) ch s)) = true /\ rd_char CS_PARSE_COMMAND_ARGS ch = ch_CR).
Proof.
  intros HX. unfold rd_step, rd_char, body_parse_args. rewrite HX. cbn [cstate_beq negb].
  cbv zeta. unfold asz.
  destruct (ch =? ch_LF)%N eqn:E1; cbn [andb].
  - left. repeat smatch; reflexivity.
  - destruct (cmd_of D ATCMD (setk_char ch s)) as [c|]; [| left; reflexivity].
    destruct (ch =? ch_CR)%N eqn:E2; [rd_cr_fin|].
    left. repeat smatch; reflexivity.
Qed.

Lemma reading_cr X body w :
  kst w = X -> In X cr_reading_states ->
  (forall ch s, k_state (k s) = X ->
     k_cr (k (rd_step body ch s)) = k_cr (k s) \/
     (k_cr (k (rd_step body ch s)) = true /\ rd_char X ch = ch_CR)) ->
  kcr (fst (reading w body)) = kcr w \/ (kcr (fst (reading w body)) = true /\ cr_event w).
Proof.
  intros HX Hin Hb. rewrite (reading_eq ioS muS hS io_read).
  destruct (io_read (io w)) as [io' [c|]] eqn:Hr; [| left; reflexivity].
  cbn [fst]. destruct (Hb c (st w) HX) as [H | [H1 H2]].
  - left. exact H.
  - right. split; [exact H1|]. split; [rewrite HX; exact Hin|].
    exists io', c. split; [exact Hr | rewrite HX; exact H2].
Qed.

(* (B) the command machine: k_cr is set only by a CR read in a non-IDLE reading state, and
   cleared only by reset_state on the way to CS_IDLE *)
Theorem cmd_service_cr : forall w,
  let w' := fst (cmd_service w) in
  kcr w' = kcr w \/
  (kcr w' = true /\ cr_event w) \/
  (kcr w' = false /\ kst w = CS_AFTER_RESET /\ kst w' = CS_IDLE).
Proof.
  intros w. cbv zeta. unfold Fsm.cmd_service.
  destruct (kst w) eqn:HX.
  - destruct (reading_cr CS_ERROR body_error w HX) as [H | H];
      [cbn; tauto | apply rd_step_cr_error | left; exact H | right; left; exact H].
  - left. unfold Fsm.process_idle_state. rewrite (reading_eq ioS muS hS io_read).
    destruct (io_read (io w)) as [io' [c|]]; [| reflexivity]. cbn [fst]. apply rd_step_cr_idle, HX.
  - destruct (reading_cr CS_PARSE_PREFIX body_prefix w HX) as [H | H];
      [cbn; tauto | apply rd_step_cr_prefix | left; exact H | right; left; exact H].
  - destruct (reading_cr CS_PARSE_COMMAND_CHAR body_parse_command w HX) as [H | H];
      [cbn; tauto | apply rd_step_cr_parse_command | left; exact H | right; left; exact H].
  - left. apply (busy_upd_crw (update_command D)), crp_update_command.
  - destruct (reading_cr CS_WAIT_READ_ACK body_wait_read w HX) as [H | H];
      [cbn; tauto | apply rd_step_cr_wait_read | left; exact H | right; left; exact H].
  - left. apply (busy_upd_crw (search_command D)), crp_search_command.
  - left. apply (busy_upd_crw (command_found D)), crp_command_found.
  - left. apply (busy_upd_crw ack_error), crp_ack_error.
  - destruct (reading_cr CS_PARSE_COMMAND_ARGS (body_parse_args D) w HX) as [H | H];
      [cbn; tauto | apply rd_step_cr_parse_args | left; exact H | right; left; exact H].
  - left. unfold Fsm.parse_write_args. cbv zeta.
    destruct (g_cmd ATCMD (st w)) as [ci|]; [| apply busy_upd_crw, crp_fault].
    destruct (cmd_of D ATCMD (st w)) as [c|]; [| apply busy_upd_crw, crp_fault].
    destruct (nth_error (c_vars c) (k_var (k (st w)))) as [v|]; [| apply busy_upd_crw, crp_fault].
    destruct (nth_error (mem (st w)) (v_slot v)) as [data|]; [| apply busy_upd_crw, crp_fault].
    destruct (decode_var v _ data) as [[[pst data'] wsz] n].
    destruct pst as [| | comma]; [reflexivity | reflexivity |].
    destruct (v_hwrite v).
    + match goal with |- context [call_h ?w0 ?q] =>
        pose proof (call_h_crw q w0) as H; destruct (call_h w0 q) as [w1 r] end.
      cbn [fst] in H. unfold crw in H. cbn in H.
      destruct (negb (r_code r =? 0)%Z).
      * change (kcr (fst (busy (upd_st ack_error w1))) = kcr w). rewrite <- H.
        apply (busy_upd_crw ack_error), crp_ack_error.
      * change (kcr (fst (busy (upd_st (pwa_post c comma) w1))) = kcr w). rewrite <- H.
        apply (busy_upd_crw (pwa_post c comma)), crp_pwa_post.
    + match goal with |- context [busy (upd_st _ ?w0)] =>
        change (kcr (fst (busy (upd_st (pwa_post c comma) w0))) = kcr w);
        rewrite (busy_upd_crw (pwa_post c comma) w0 (crp_pwa_post c comma)) end.
      reflexivity.
  - left. apply format_read_args_crw.
  - destruct (reading_cr CS_WAIT_TEST_ACK (body_wait_test D) w HX) as [H | H];
      [cbn; tauto | apply rd_step_cr_wait_test | left; exact H | right; left; exact H].
  - left. apply (busy_upd_crw (format_test_args D ATCMD)), crp_format_test_args.
  - left. unfold Fsm.process_write_loop. cbv zeta.
    destruct (g_cmd ATCMD (st w)) as [ci|]; [| apply busy_upd_crw, crp_fault].
    match goal with |- context [call_h w ?q] =>
      pose proof (call_h_crw q w) as H; destruct (call_h w q) as [w1 r] end.
    cbn [fst] in H. unfold crw in H. rewrite <- H.
    apply (busy_upd_crw (post_write_loop (r_code r))), crp_post_write_loop.
  - left. apply process_rt_loop_crw.
  - left. apply process_rt_loop_crw.
  - left. unfold Fsm.process_run_loop. cbv zeta.
    destruct (g_cmd ATCMD (st w)) as [ci|]; [| apply busy_upd_crw, crp_fault].
    match goal with |- context [call_h w ?q] =>
      pose proof (call_h_crw q w) as H; destruct (call_h w q) as [w1 r] end.
    cbn [fst] in H. unfold crw in H. rewrite <- H.
    apply (busy_upd_crw (post_run_loop D (r_code r))), crp_post_run_loop.
  - left. apply (busy_upd_crw process_hold_state), crp_process_hold_state.
  - left. apply (busy_upd_crw process_io_write_wait), crp_process_io_write_wait.
  - left. unfold Fsm.process_io_write. cbv zeta.
    destruct (wbuf_char _ _ _) as [ch|]; [| apply busy_upd_crw, crp_fault].
    destruct (ch =? 0)%N.
    + apply (busy_upd_crw iow_done), crp_iow_done.
    + destruct (io_write (io w) ch) as [io' ok]. destruct ok; reflexivity.
  - cbn. unfold reset_state. destruct (k_hold (k (st w))).
    + left. reflexivity.
    + right. right. repeat split.
  - left. apply (busy_upd_crw ack_ok), crp_ack_ok.
  - left. apply (busy_upd_crw (start_processing_format_read_args D ATCMD)), crp_spfr.
  - left. apply (busy_upd_crw (start_processing_format_test_args D ATCMD)), crp_spft.
  - left. apply (busy_upd_crw (print_cmd_list D)), crp_print_cmd_list.
Qed.

(* (C) no other public operation changes k_cr *)
Theorem other_ops_cr : forall w o, o <> OService -> kcr (fst (do_op w o)) = kcr w.
Proof.
  intros w o Ho. destruct o as [| ci t | status | | | | ci t | f | i b | g b]; cbn [Fsm.do_op];
    try reflexivity.
  - exfalso. apply Ho. reflexivity.
  - apply api_trigger_crw.
  - apply api_hold_exit_crw.
  - unfold Fsm.api_is_busy. apply bracket_crw. intros a. reflexivity.
  - unfold Fsm.api_is_hold. apply bracket_crw. intros a. reflexivity.
  - unfold Fsm.api_is_full. apply bracket_crw. intros a. reflexivity.
Qed.

End C20i.
