(* Lemmas_C19u.v - property C19, three extras (statements: Properties_C19u.v).
   PART A (top level): the command list end to end when a line does not fit the command buffer
     (E2E_list_too_long_line, E2E_list_line_total), after Lemmas_E2Eb.L_list_line_world with the ERROR
     branch of Lemmas_C19.C19_list_strong_proof.
   PART B (Module B): the request forms served for the fully typed name of an implicit-write command
     are exactly WRITE (C19_implicit_forms, C19_implicit_write_call, E2E_implicit_write_line).
   PART C (Module C): the command list when a disable flag changes during the listing: the flag of a
     command is sampled once, when its block is begun (C19_list_flags_sched, C19_list_flags_constant, ...). *)
From Coq Require Import List NArith ZArith Bool Arith Lia.
From CatV Require Import Bytes Defs Codec Spec Fsm Script ResolveDefs SchedDefs GlueDefs TextDefs CollectDefs.
From CatV Require Lemmas_C02 Lemmas_C02e Lemmas_C06 Lemmas_C11 Lemmas_C19 Lemmas_E2E Lemmas_E2Eb Lemmas_E2Ec.
Import ListNotations.
Local Open Scope nat_scope.

(* ====================================================================================== *)
(* PART A - the command list, end to end, when a line does not fit the buffer: the lines before the
   first one that does not fit, then LF ERROR LF.  Same composition as Lemmas_E2Eb.L_list_line_world,
   with the ERROR branch of Lemmas_C19.C19_list_strong_proof. *)

Local Notation wst := (Fsm.st sio smu shs).
Local Notation wio := (Fsm.io sio smu shs).
Local Notation whs := (Fsm.hs sio smu shs).
Local Notation wtr := (Fsm.tr sio smu shs).
Local Notation idle := Lemmas_C02e.idle.

(* ---- pure list facts: the first element that fails a test ---- *)
Lemma A_nth_firstn : forall (A : Type) (l : list A) j n, n < j -> nth_error (firstn j l) n = nth_error l n.
Proof.
  intros A. induction l as [|x l IH]; intros j n H.
  - destruct j; destruct n; reflexivity.
  - destruct j; [lia|]. destruct n; [reflexivity|]. cbn [firstn nth_error]. apply IH. lia.
Qed.

Lemma A_first_fail_unique : forall (A : Type) (P : A -> bool) (ls : list A) n j a b,
  nth_error ls n = Some a -> P a = false -> forallb P (firstn n ls) = true ->
  nth_error ls j = Some b -> P b = false -> forallb P (firstn j ls) = true -> n = j.
Proof.
  intros A P ls n j a b Hn Ha Fn Hj Hb Fj.
  destruct (Nat.lt_trichotomy n j) as [H|[H|H]]; [|exact H|]; exfalso.
  - rewrite forallb_forall in Fj. assert (X : P a = true).
    { apply Fj. apply (nth_error_In _ n). rewrite A_nth_firstn by exact H. exact Hn. }
    rewrite Ha in X. discriminate X.
  - rewrite forallb_forall in Fn. assert (X : P b = true).
    { apply Fn. apply (nth_error_In _ j). rewrite A_nth_firstn by exact H. exact Hj. }
    rewrite Hb in X. discriminate X.
Qed.

Lemma A_forallb_false : forall (A : Type) (P : A -> bool) (ls : list A) j a,
  nth_error ls j = Some a -> P a = false -> forallb P ls = false.
Proof.
  intros A P ls j a Hj Ha. destruct (forallb P ls) eqn:E; [|reflexivity].
  rewrite forallb_forall in E. rewrite (E a (nth_error_In _ _ Hj)) in Ha. discriminate Ha.
Qed.

(* the longest prefix of elements that pass the test *)
Fixpoint fit_prefix (A : Type) (P : A -> bool) (ls : list A) : list A :=
  match ls with
  | [] => []
  | x :: r => if P x then x :: fit_prefix A P r else []
  end.
Arguments fit_prefix {A} P ls.

Lemma A_fit_prefix_all : forall (A : Type) (P : A -> bool) (ls : list A),
  forallb P ls = true -> fit_prefix P ls = ls.
Proof.
  intros A P. induction ls as [|x r IH]; intros H; [reflexivity|].
  cbn [forallb] in H. apply andb_true_iff in H. destruct H as [H1 H2].
  cbn [fit_prefix]. rewrite H1, (IH H2). reflexivity.
Qed.

Lemma A_fit_prefix_firstn : forall (A : Type) (P : A -> bool) (ls : list A) j a,
  nth_error ls j = Some a -> P a = false -> forallb P (firstn j ls) = true ->
  fit_prefix P ls = firstn j ls.
Proof.
  intros A P. induction ls as [|x r IH]; intros j a Hj Ha F.
  - destruct j; discriminate Hj.
  - destruct j.
    + cbn [nth_error] in Hj. injection Hj as ->. cbn [fit_prefix firstn]. rewrite Ha. reflexivity.
    + cbn [nth_error] in Hj. cbn [firstn forallb] in F. apply andb_true_iff in F. destruct F as [F1 F2].
      cbn [fit_prefix firstn]. rewrite F1, (IH j a Hj Ha F2). reflexivity.
Qed.

(* either every element passes, or there is a first one that does not *)
Lemma A_first_fail_exists : forall (A : Type) (P : A -> bool) (ls : list A),
  forallb P ls = false ->
  exists j a, nth_error ls j = Some a /\ P a = false /\ forallb P (firstn j ls) = true.
Proof.
  intros A P. induction ls as [|x r IH]; intros H; [discriminate H|].
  cbn [forallb] in H. destruct (P x) eqn:E.
  - cbn [andb] in H. destruct (IH H) as (j & a & H1 & H2 & H3).
    exists (S j), a. cbn [nth_error firstn forallb]. rewrite E, H3. auto.
  - exists 0, x. cbn [nth_error firstn forallb]. auto.
Qed.

Section ListErr.
Variable D : desc.
Hypothesis Hmx : d_mutex D = false.
Local Notation n := (ncmds D).
Local Notation osteps := (Lemmas_E2E.osteps D).

Variable s : state.
Hypothesis Hn : 0 < n.
Hypothesis HL : n <= 4 * length (cbuf s).
Hypothesis H6 : 6 <= length (cbuf s).
Hypothesis Hf : fault s = false.
Hypothesis Hst : k_state (k s) = CS_IDLE.
Hypothesis Hcr : k_cr (k s) = false.
Hypothesis Himp : k_implicit (k s) = false.
Hypothesis Hhold : k_hold (k s) = false.
Hypothesis Hidle : idle s.

Lemma A_list_err_world : forall name rest h h' i c r0 j l,
  name_ok name = true -> implicit_hit D s (upper name) = false ->
  resolve (upper name) (enabled D s) (cmds D) = Some i -> nth_error (cmds D) i = Some c ->
  c_hrun c = true -> c_only_test c = false ->
  s_call h (HRun i) = (h', r0) -> r_code r0 = RC_PRINT_CMD_LIST_OK -> r_pokes r0 = [] -> r_calls r0 = [] ->
  (forall c', In c' (cmds D) -> ~ In 0%N (c_name c')) ->
  nth_error (spec_cmd_list D (enabled D s) [ch_LF]) j = Some l -> length (cbuf s) <= length l ->
  forallb (fun l => length l <? length (cbuf s)) (firstn j (spec_cmd_list D (enabled D s) [ch_LF])) = true ->
  exists calls s6, let w := nsvc D calls (mkw s ([ch_A; ch_T] ++ name ++ [ch_LF] ++ rest) h []) in
    wst w = s6 /\ inq (wio w) = rest /\ whs w = h' /\
    calls_of (wtr w) = [(HRun i, RC_PRINT_CMD_LIST_OK)] /\
    output_of (wtr w) = concat (firstn j (spec_cmd_list D (enabled D s) [ch_LF])) ++
                        [ch_LF] ++ txt_ERROR ++ [ch_LF] /\
    k_state (k s6) = CS_IDLE /\ mem s6 = mem s /\ fault s6 = false /\ u s6 = u s /\
    k_cr (k s6) = false /\ k_hold (k s6) = false /\ k_cmd (k s6) = None.
Proof.
  intros name rest h h' i c r0 j l Hok Hh Hres Hc Hrun Hot Hcall Hcode Hpk Hcl Hnames Hj Hlj Hfj.
  (* 1. dispatch *)
  destruct (Lemmas_E2Eb.L_dispatch_lf_ex D Hmx s Hn HL Hf Hst Himp Hidle name rest Hok Hh)
    as (c1 & s2 & H1 & (M2 & F2 & U2 & R2) & S2 & Dc & Dg).
  rewrite Hres in R2. destruct R2 as (A1 & A2 & A3 & A4).
  unfold Lemmas_E2E.six in S2.
  assert (G2 : k_cr (k s2) = false /\ k_hold (k s2) = false /\ length (cbuf s2) = length (cbuf s)).
  { repeat split; congruence. }
  destruct G2 as (cr2 & ho2 & len2).
  pose proof (Lemmas_E2E.cmd_at_of_cmds D i c Hc) as Hc'.
  assert (Hi2 : idle s2) by (apply (Lemmas_C02e.idle_of_u s); assumption).
  (* 2. CS_COMMAND_FOUND *)
  pose proof (Lemmas_E2Eb.L_found_run_step D Hmx s2 rest i c Hi2 A1 A2 Hc' A3 Hot Hrun) as O2.
  set (s3 := setk_state CS_RUN_LOOP s2) in *.
  assert (Hi3 : idle s3) by exact Hi2.
  (* 3. the handler *)
  assert (Hsvc : forall t, svc D (mkw s3 rest h t) =
            mkw (start_print_cmd_list D s3) rest h'
                (ERet OService ST_BUSY :: ECall (HRun i) RC_PRINT_CMD_LIST_OK :: t)).
  { intros t. exact (Lemmas_E2Eb.L_run_call D Hmx s3 rest h h' t i r0 Hi3 eq_refl A2 Hcall Hcode Hpk Hcl). }
  (* 4. the list, in the model: the ERROR branch *)
  assert (Hf3 : fault s3 = false) by exact F2.
  assert (H63 : 6 <= length (cbuf s3)) by (change (cbuf s3) with (cbuf s2); lia).
  pose proof (Lemmas_C19.C19_list_strong_proof D s3 Hf3 H63 Hnames (6 * n + 1) (le_n _)) as HC.
  cbv zeta in HC.
  assert (Elines : spec_cmd_list D (fun j => negb (is_command_disable D s3 j)) (nl_chars s3)
                   = spec_cmd_list D (enabled D s) [ch_LF]).
  { unfold nl_chars. change (k_cr (k s3)) with (k_cr (k s2)). rewrite cr2.
    unfold enabled, is_command_disable. change (dis_grp s3) with (dis_grp s2).
    change (dis_cmd s3) with (dis_cmd s2). rewrite Dc, Dg. reflexivity. }
  rewrite Elines in HC. change (cbuf s3) with (cbuf s2) in HC. rewrite len2 in HC.
  set (lines := spec_cmd_list D (enabled D s) [ch_LF]) in *.
  set (fit := fun l : list N => length l <? length (cbuf s)) in *.
  assert (Hlf : fit l = false) by (apply Nat.ltb_ge; exact Hlj).
  assert (Hnf : forallb fit lines = false) by exact (A_forallb_false _ fit lines j l Hj Hlf).
  set (s4 := start_print_cmd_list D s3) in *.
  destruct (list_run D (6 * n + 1) s4 []) as [out af] eqn:Erun.
  destruct HC as (Ff & Sf & Wf & HC). rewrite Hnf in HC.
  destruct HC as [(n0 & l0 & Eout & Hn0 & Hl0 & Hfo) HT].
  assert (Hl0f : fit l0 = false) by (apply Nat.ltb_ge; exact Hl0).
  assert (Ej : n0 = j).
  { apply (A_first_fail_unique _ fit lines n0 j l0 l Hn0 Hl0f); [rewrite <- Eout; exact Hfo | exact Hj | exact Hlf | exact Hfj]. }
  subst n0.
  (* 5. the state after the handler call *)
  assert (E4 : s4 = s3 |> setk_index 0 |> setk_length 0 |> setk_type T_NONE |> setk_state CS_PRINT_CMD).
  { unfold s4, start_print_cmd_list. destruct (n =? 0) eqn:E; [apply Nat.eqb_eq in E; lia | reflexivity]. }
  assert (P4 : k_state (k s4) = CS_PRINT_CMD /\ u s4 = u s2 /\ cbuf s4 = cbuf s2 /\ mem s4 = mem s2 /\
               k_cr (k s4) = k_cr (k s2) /\ k_hold (k s4) = k_hold (k s2)).
  { rewrite E4. repeat split; reflexivity. }
  destruct P4 as (st4 & u4 & cb4 & m4 & cr4 & ho4).
  assert (Hi4 : idle s4) by (apply (Lemmas_C02e.idle_of_u s2); assumption).
  (* 6. the printed lines, as service calls *)
  destruct (Lemmas_E2Eb.L_list_osteps D Hmx (length (cbuf s)) rest (6 * n + 1) s4 s4 [] out af out
              (Lemmas_E2Eb.L_R_refl s4) Hi4)
    as (c2 & bf & O3 & Rf & (fu & fm & fcr & fho & flen) & Gf).
  { rewrite cb4. exact len2. }
  { apply Lemmas_E2Eb.L_G_not. rewrite st4. discriminate. }
  { exact Erun. }
  { exact Sf. }
  { reflexivity. }
  { exact Hfo. }
  pose proof (Lemmas_E2Eb.L_R_same _ _ Rf) as Sfb.
  assert (Sb : k_state (k bf) = CS_FLUSH_WAIT) by (rewrite <- (Lemmas_E2Eb.ls_state _ _ Sfb); exact Sf).
  assert (Wb : k_wafter (k bf) = CS_AFTER_RESET) by (rewrite <- (Lemmas_E2Eb.ls_wafter _ _ Sfb); exact Wf).
  destruct (Gf Sb) as (Pb & [(Hx & _) | (_ & Wsb & Wbb)]); [rewrite Hx in Wb; discriminate|].
  assert (Hib : idle bf) by (apply (Lemmas_C02e.idle_of_u s4); assumption).
  assert (Hcrb : k_cr (k bf) = false) by congruence.
  assert (Hhob : k_hold (k bf) = false) by congruence.
  assert (HTb : text_of (cbuf bf) = txt_ERROR) by (rewrite <- (Lemmas_E2Eb.ls_cbuf _ _ Sfb); exact HT).
  assert (H0b : In 0%N (cbuf bf)).
  { apply Lemmas_E2Eb.L_text_in0. rewrite HTb, flen, cb4, len2. cbn [length txt_ERROR]. lia. }
  (* 7. ERROR, reset *)
  destruct (Lemmas_E2E.result_tail D Hmx bf rest txt_ERROR Hib (conj Sb (conj Pb (conj Wsb Wbb))) Wb Hcrb Hhob H0b HTb)
    as (s6 & O4 & R1 & R2 & R3 & R4 & _ & _ & _ & R8 & R9 & R10 & _).
  (* 8. composition *)
  assert (O12 : osteps (c1 + 1) s ([ch_A; ch_T] ++ name ++ [ch_LF] ++ rest) s3 rest []).
  { exact (Lemmas_E2E.osteps_trans D _ _ _ _ _ _ _ _ _ _ (Lemmas_E2E.osteps_of_steps D _ _ _ _ _ H1) O2). }
  pose proof (Lemmas_E2E.osteps_trans D _ _ _ _ _ _ _ _ _ _ O3 O4) as O34.
  exists ((c1 + 1) + (1 + (c2 + (7 + length txt_ERROR)))), s6. intros w.
  destruct (Lemmas_E2Eb.L_compose D _ _ _ _ _ _ _ _ h h' i _ O12 Hsvc O34) as (W1 & W2 & W3 & W4 & W5).
  fold w in W1, W2, W3, W4, W5.
  split; [exact W1|]. split; [exact W2|]. split; [exact W3|]. split; [exact W4|].
  split; [rewrite W5, Eout; reflexivity|].
  split; [exact R1|]. split; [congruence|]. split.
  - rewrite R3, <- (Lemmas_E2Eb.ls_fault _ _ Sfb). exact Ff.
  - split; [congruence|]. split; [exact R8|]. split; [exact R9 | exact R10].
Qed.

End ListErr.
(* ================= the final statements ================= *)
Theorem E2E_list_too_long_line_proof : forall D s name rest h h' i c r0 j l,
  d_mutex D = false -> 0 < ncmds D -> ncmds D <= 4 * length (cbuf s) -> 6 <= length (cbuf s) ->
  fault s = false ->
  k_state (k s) = CS_IDLE -> k_cr (k s) = false -> k_implicit (k s) = false -> k_hold (k s) = false ->
  u_state (u s) = US_IDLE -> u_count (u s) = 0 ->
  name_ok name = true -> implicit_hit D s (upper name) = false ->
  resolve (upper name) (enabled D s) (cmds D) = Some i -> nth_error (cmds D) i = Some c ->
  c_hrun c = true -> c_only_test c = false ->
  s_call h (HRun i) = (h', r0) -> r_code r0 = RC_PRINT_CMD_LIST_OK -> r_edit r0 = None ->
  r_pokes r0 = [] -> r_calls r0 = [] ->
  (forall c', In c' (cmds D) -> ~ In 0%N (c_name c')) ->
  let lines := spec_cmd_list D (enabled D s) [ch_LF] in
  nth_error lines j = Some l -> length (cbuf s) <= length l ->
  forallb (fun l => length l <? length (cbuf s)) (firstn j lines) = true ->
  let w0 := mkw s ([ch_A; ch_T] ++ name ++ [ch_LF] ++ rest) h [] in
  exists calls, let w := nsvc D calls w0 in
    k_state (k (wst w)) = CS_IDLE /\ inq (wio w) = rest /\ whs w = h' /\
    calls_of (wtr w) = [(HRun i, RC_PRINT_CMD_LIST_OK)] /\
    mem (wst w) = mem s /\ fault (wst w) = false /\
    output_of (wtr w) = concat (firstn j lines) ++ [ch_LF] ++ txt_ERROR ++ [ch_LF].
Proof.
  intros D s name rest h h' i c r0 j l Hmx Hn HL H6 Hf Hst Hcr Himp Hhold Hu1 Hu2 Hok Hh Hres Hc Hrun Hot
         Hcall Hcode _ Hpk Hcl Hnames lines Hj Hlj Hfj w0.
  destruct (A_list_err_world D Hmx s Hn HL H6 Hf Hst Hcr Himp Hhold (conj Hu1 Hu2)
              name rest h h' i c r0 j l Hok Hh Hres Hc Hrun Hot Hcall Hcode Hpk Hcl Hnames Hj Hlj Hfj)
    as (calls & s6 & W).
  exists calls. intros w. cbv zeta in W. fold w0 in W. fold w in W.
  destruct W as (W1 & W2 & W3 & W4 & W5 & R1 & R2 & R3 & _).
  rewrite W1. repeat (split; [assumption|]). exact W5.
Qed.

(* both cases in one statement, no hypothesis on the line lengths: the output is the longest prefix of
   lines that fit, then LF, then OK if that was every line and ERROR otherwise, then LF *)
Theorem E2E_list_line_total_proof : forall D s name rest h h' i c r0,
  d_mutex D = false -> 0 < ncmds D -> ncmds D <= 4 * length (cbuf s) -> 6 <= length (cbuf s) ->
  fault s = false ->
  k_state (k s) = CS_IDLE -> k_cr (k s) = false -> k_implicit (k s) = false -> k_hold (k s) = false ->
  u_state (u s) = US_IDLE -> u_count (u s) = 0 ->
  name_ok name = true -> implicit_hit D s (upper name) = false ->
  resolve (upper name) (enabled D s) (cmds D) = Some i -> nth_error (cmds D) i = Some c ->
  c_hrun c = true -> c_only_test c = false ->
  s_call h (HRun i) = (h', r0) -> r_code r0 = RC_PRINT_CMD_LIST_OK -> r_edit r0 = None ->
  r_pokes r0 = [] -> r_calls r0 = [] ->
  (forall c', In c' (cmds D) -> ~ In 0%N (c_name c')) ->
  let lines := spec_cmd_list D (enabled D s) [ch_LF] in
  let fit := fun l : list N => length l <? length (cbuf s) in
  let w0 := mkw s ([ch_A; ch_T] ++ name ++ [ch_LF] ++ rest) h [] in
  exists calls, let w := nsvc D calls w0 in
    k_state (k (wst w)) = CS_IDLE /\ inq (wio w) = rest /\ whs w = h' /\
    calls_of (wtr w) = [(HRun i, RC_PRINT_CMD_LIST_OK)] /\
    mem (wst w) = mem s /\ fault (wst w) = false /\
    output_of (wtr w) = concat (fit_prefix fit lines) ++ [ch_LF] ++
                        (if forallb fit lines then txt_OK else txt_ERROR) ++ [ch_LF].
Proof.
  intros D s name rest h h' i c r0 Hmx Hn HL H6 Hf Hst Hcr Himp Hhold Hu1 Hu2 Hok Hh Hres Hc Hrun Hot
         Hcall Hcode Hed Hpk Hcl Hnames lines fit w0.
  destruct (forallb fit lines) eqn:E.
  - rewrite (A_fit_prefix_all _ fit lines E).
    exact (Lemmas_E2Eb.E2E_list_line_proof D s name rest h h' i c r0 Hmx Hn HL H6 Hf Hst Hcr Himp Hhold Hu1 Hu2
             Hok Hh Hres Hc Hrun Hot Hcall Hcode Hed Hpk Hcl Hnames E).
  - destruct (A_first_fail_exists _ fit lines E) as (j & l & Hj & Hl & Hfj).
    rewrite (A_fit_prefix_firstn _ fit lines j l Hj Hl Hfj).
    assert (Hlj : length (cbuf s) <= length l) by (apply Nat.ltb_ge; exact Hl).
    exact (E2E_list_too_long_line_proof D s name rest h h' i c r0 j l Hmx Hn HL H6 Hf Hst Hcr Himp Hhold Hu1 Hu2
             Hok Hh Hres Hc Hrun Hot Hcall Hcode Hed Hpk Hcl Hnames Hj Hlj Hfj).
Qed.

(* ================= a concrete instance ================= *)
Module A_example.
(* 0 "+X" (run)   1 "+XY" (run: asks for the list)   2 "+LONG" (run, test)   3 "+Z" (run);
   command buffer of 8 bytes: the lines LF AT+X LF (6) and LF AT+XY LF (7) fit, LF AT+LONG LF (9) does not *)
Definition mkr (nm : list N) (ht : bool) : cmd := mkCmd nm None false false true ht [] false false false.
Definition DA := mkDesc [[mkr [43; 88]%N false; mkr [43; 88; 89]%N false;
                          mkr [43; 76; 79; 78; 71]%N true; mkr [43; 90]%N false]] [] 8 (Some 8) 85%N 2 false.
Definition mA : list (list N) := [[7%N]].
Definition sA := init_state DA mA.
Definition hA : shs := [((2, 1, 0), [mkHres RC_PRINT_CMD_LIST_OK None [] []; mkHres RC_ERROR None [] []])].
Definition hA' : shs := [((2, 1, 0), [mkHres RC_ERROR None [] []])].
(* "AT+xy" LF and one more byte that must stay in the queue *)
Definition lineA : list N := [65; 84; 43; 120; 121; 10; 7]%N.
Definition obsA (w : sworld) :=
  (k_state (k (wst w)), inq (wio w), whs w, calls_of (wtr w), output_of (wtr w), mem (wst w), fault (wst w)).
Definition goA (calls : nat) := obsA (nsvc DA calls (mkw sA lineA hA [])).
Definition linesA := spec_cmd_list DA (enabled DA sA) [ch_LF].

(* the hypotheses of E2E_list_too_long_line_proof hold for this instance (j = 2) *)
Lemma ex_too_long :
  exists calls, let w := nsvc DA calls (mkw sA lineA hA []) in
    k_state (k (wst w)) = CS_IDLE /\ inq (wio w) = [7%N] /\ whs w = hA' /\
    calls_of (wtr w) = [(HRun 1, RC_PRINT_CMD_LIST_OK)] /\
    mem (wst w) = mA /\ fault (wst w) = false /\
    output_of (wtr w) = concat (firstn 2 (spec_cmd_list DA (enabled DA sA) [ch_LF])) ++
                        [ch_LF] ++ txt_ERROR ++ [ch_LF].
Proof.
  apply (E2E_list_too_long_line_proof DA sA [43; 120; 121]%N [7%N] hA hA' 1 (mkr [43; 88; 89]%N false)
           (mkHres RC_PRINT_CMD_LIST_OK None [] []) 2 [10; 65; 84; 43; 76; 79; 78; 71; 10]%N); try reflexivity.
  - cbn; lia.
  - cbn; lia.
  - cbn; lia.
  - intros c' Hin. cbn in Hin. destruct Hin as [<-|[<-|[<-|[<-|[]]]]]; cbn; intuition discriminate.
  - cbn; lia.
Qed.
End A_example.

(* ====================================================================================== *)
Module B.
(* C19u part B — the request forms SERVED for the fully typed name of an implicit-write command are
   exactly WRITE: whatever follows the name (nothing, a question mark, an equals sign followed by a
   question mark ...) is collected verbatim as the argument text of a WRITE request.
   Structure: (1) frames of the argument collection for an implicit command (k_cmd, k_type never move);
   (2) Lemmas_C02e.implicit_line with the final state's frame (six); (3) dispatch + command_found +
   collection as steps (B1); (4) the line feed and the service call that runs the write handler (B2);
   (5) a return code that ends the line, up to the idle state, either newline (B2'); (6) the propositional corollaries (B3). *)
Import ListNotations.
Local Open Scope nat_scope.

Local Notation wst := (Fsm.st sio smu shs).
Local Notation wio := (Fsm.io sio smu shs).
Local Notation whs := (Fsm.hs sio smu shs).
Local Notation wtr := (Fsm.tr sio smu shs).
Local Notation idle := Lemmas_C02e.idle.

Ltac destr_all := repeat match goal with
  | |- context [if ?b then _ else _] => destruct b
  | |- context [match ?x with _ => _ end] => destruct x
  end.

(* ================= 6 (first, it is pure). the propositional corollaries ================= *)
Lemma C19_implicit_test_gap_proof : forall c, c_implicit c = true ->
  (c_htest c || nonempty (c_vars c)) = true ->
  advertised c F_TEST = true /\ dispatch_accepts c F_TEST = false.
Proof.
  intros c Hi Ht. unfold advertised, dispatch_accepts. rewrite Ht, Hi. split; reflexivity.
Qed.

Lemma C19_implicit_other_forms_proof : forall c f, c_implicit c = true -> f <> F_TEST ->
  advertised c f = dispatch_accepts c f.
Proof. intros c f _ H. exact (Lemmas_C19.C19_consistent_implicit_proof c f H). Qed.

(* the shortcut test of parse_command_args is off for an implicit command *)
Lemma shortcut_off : forall c, c_implicit c = true -> test_shortcut c = false.
Proof. intros c H. unfold test_shortcut. rewrite H. apply andb_false_r. Qed.

(* ================= 1. frames of the collection ================= *)
Section ImplForms.
Variable D : desc.
Hypothesis Hmx : d_mutex D = false.
Local Notation n := (ncmds D).
Local Notation cmdsvc := (cmd_service D sio smu shs s_read s_write s_lock s_unlock s_call).
Local Notation steps := (Lemmas_C02e.steps D).
Local Notation osteps := (Lemmas_E2E.osteps D).

(* selected command and request type *)
Definition ct (s : state) : option nat * ctype := (k_cmd (k s), k_type (k s)).

Lemma pca_body_ct : forall ch s c, cmd_of D ATCMD s = Some c -> c_implicit c = true ->
  ct (pca_body D ch s) = ct s.
Proof.
  intros ch s c Hc Hi. unfold pca_body. rewrite Hc, Hi. cbn [negb]. rewrite andb_false_r.
  unfold ack_error, start_flush_c. destr_all; reflexivity.
Qed.

Lemma cmd_of_ct : forall s s', ct s' = ct s -> cmd_of D ATCMD s' = cmd_of D ATCMD s.
Proof. intros s s' H. unfold ct in H. injection H as A _. unfold cmd_of, g_cmd. rewrite A. reflexivity. Qed.

Lemma args_feed_ct : forall c bs s, cmd_of D ATCMD s = Some c -> c_implicit c = true ->
  ct (args_feed D s bs) = ct s.
Proof.
  intros c. induction bs as [|b bs IH]; intros s Hc Hi; [reflexivity|].
  unfold args_feed. cbn [fold_left]. fold (args_feed D (args_byte D s b) bs).
  assert (E : ct (args_byte D s b) = ct s).
  { unfold args_byte. destruct (cstate_beq (k_state (k s)) CS_PARSE_COMMAND_ARGS); [|reflexivity].
    rewrite (pca_body_ct b (setk_char b s) c Hc Hi). reflexivity. }
  rewrite IH; [exact E | rewrite (cmd_of_ct _ _ E); exact Hc | exact Hi].
Qed.

(* the bytes of the argument text, carriage returns allowed (Lemmas_E2E.args_steps without its CR
   hypothesis, for a command without the TEST shortcut) *)
Definition keep5 (s s' : state) : Prop :=
  u s' = u s /\ gL s' = gL s /\ gS s' = gS s /\ gR s' = gR s /\ k_hold (k s') = k_hold (k s).

Lemma keep5_trans : forall a b c, keep5 a b -> keep5 b c -> keep5 a c.
Proof.
  intros a b c (A1 & A2 & A3 & A4 & A5) (B1 & B2 & B3 & B4 & B5).
  unfold keep5. rewrite B1, B2, B3, B4, B5. repeat split; assumption.
Qed.

Lemma pca_body_keep5 : forall ch s, ch <> ch_LF -> keep5 s (pca_body D ch s).
Proof.
  intros ch s H1. apply N.eqb_neq in H1. unfold pca_body. rewrite H1.
  destr_all; unfold keep5; repeat split; reflexivity.
Qed.

Lemma no_cr_snoc : forall bs b, no_cr (bs ++ [b]) = no_cr bs ++ (if (b =? ch_CR)%N then [] else [b]).
Proof.
  intros bs b. unfold no_cr. rewrite filter_app. cbn [filter]. destruct (b =? ch_CR)%N; reflexivity.
Qed.

Lemma args_steps_cr : forall c, test_shortcut c = false ->
  forall bs s q, idle s -> k_state (k s) = CS_PARSE_COMMAND_ARGS ->
  cmd_of D ATCMD s = Some c -> k_length (k s) = 0 -> 0 < asz s -> fault s = false ->
  nth_error (cbuf s) 0 = Some 0%N -> ~ In ch_LF bs -> length (no_cr bs) < asz s ->
  steps (length bs) s (bs ++ q) (args_feed D s bs) q /\ keep5 s (args_feed D s bs).
Proof.
  intros c Hts. induction bs as [|b bs IH] using rev_ind; intros s q Hi Hs Hc Hl Ha Hf H0 Hlf Hfit.
  - split; [apply Lemmas_C02e.steps_0 | unfold keep5; repeat split; reflexivity].
  - assert (Hlf' : ~ In ch_LF bs) by (intro X; apply Hlf; apply in_or_app; left; exact X).
    assert (Hb1 : b <> ch_LF) by (intro X; apply Hlf; apply in_or_app; right; left; exact X).
    rewrite no_cr_snoc, app_length in Hfit.
    assert (Hfit' : length (no_cr bs) < asz s) by lia.
    rewrite app_length. cbn [length].
    destruct (IH s (b :: q) Hi Hs Hc Hl Ha Hf H0 Hlf' Hfit') as (S1 & K1).
    pose proof (Lemmas_C06.C06_collect D s c bs Hs Hc Hl Ha Hf H0 Hlf') as HC.
    specialize (HC ltac:(intros T; rewrite Hts in T; discriminate T)). cbv zeta in HC.
    destruct HC as (_ & _ & _ & HC).
    replace (length (no_cr bs) <? asz s) with true in HC by (symmetry; apply Nat.ltb_lt; lia).
    destruct HC as (Hs' & _).
    set (s' := args_feed D s bs) in *.
    assert (Hi' : idle s') by (apply (Lemmas_C02e.idle_of_u s); [apply K1 | exact Hi]).
    assert (E : args_feed D s (bs ++ [b]) = pca_body D b (setk_char b s')).
    { unfold args_feed. rewrite fold_left_app. cbn [fold_left]. fold (args_feed D s bs). fold s'.
      unfold args_byte. rewrite Hs'. reflexivity. }
    assert (Hrd : Lemmas_C02e.rd_state s' b = setk_char b s').
    { unfold Lemmas_C02e.rd_state. rewrite Hs'. cbn [cstate_beq].
      apply N.eqb_neq in Hb1. rewrite Hb1. reflexivity. }
    pose proof (Lemmas_E2E.pca_step D Hmx s' b q Hi' Hs') as S2. rewrite Hrd in S2.
    change (k_char (k (setk_char b s'))) with b in S2. rewrite <- E in S2.
    pose proof (pca_body_keep5 b (setk_char b s') Hb1) as K2. rewrite <- E in K2.
    split.
    + rewrite <- app_assoc. cbn [app]. exact (Lemmas_C02e.steps_trans D _ _ _ _ _ _ _ _ S1 S2).
    + eapply keep5_trans; [exact K1|]. eapply keep5_trans; [|exact K2]. unfold keep5. repeat split; reflexivity.
Qed.

(* ================= 2. the implicit-write lookup with the frame of its final state ================= *)
Section Line.
Variable s : state.
Hypothesis Hn : 0 < n.
Hypothesis HL : n <= 4 * length (cbuf s).
Hypothesis Hf : fault s = false.
Hypothesis Hst : k_state (k s) = CS_IDLE.
Hypothesis Himp : k_implicit (k s) = false.
Hypothesis Hidle : idle s.

Local Notation run := (Lemmas_C02e.run D s).

Lemma implicit_line_ex : forall name rest,
  name_ok name = true ->
  implicit_hit D s (removelast (upper name)) = false -> implicit_hit D s (upper name) = true ->
  exists calls s2, calls <= 2 + length name * S n + n /\
    steps calls s ([ch_A; ch_T] ++ name ++ rest) s2 rest /\
    mem s2 = mem s /\ fault s2 = false /\ u s2 = u s /\
    k_state (k s2) = CS_COMMAND_FOUND /\ k_cmd (k s2) = find_full (upper name) (enabled D s) (cmds D) 0 /\
    k_type (k s2) = T_WRITE /\ Lemmas_E2E.six s2 = Lemmas_E2E.six s.
Proof.
  intros name rest Hok H1 H2.
  destruct (Lemmas_C02e.name_ok_split name Hok) as [Hne Hc].
  assert (Hne' : upper name <> []) by (destruct name; [congruence | discriminate]).
  pose proof (Lemmas_C02.C02_implicit D (Lemmas_C02e.sT s) (upper name) Hn HL Hf Himp Hne' H1 H2) as R.
  cbv zeta in R. rewrite <- (Lemmas_C02e.run_eq D s _ Hne') in R.
  destruct R as [Rs [Rt [_ [F [Rf [Rc Rn]]]]]].
  change (enabled D (Lemmas_C02e.sT s)) with (enabled D s) in Rc.
  destruct (exists_last Hne) as [name' [c E]]. subst name.
  unfold Lemmas_C02e.chars_ok in Hc. rewrite forallb_app in Hc. apply andb_true_iff in Hc.
  destruct Hc as [Hc1 Hc2]. simpl in Hc2. rewrite andb_true_r in Hc2.
  unfold upper in *. rewrite map_app in *. simpl map in *. fold (upper name') in *.
  rewrite removelast_last in H1.
  destruct (Lemmas_C02e.run_good D s Hn HL Hf Himp Hidle (upper name') H1) as [_ [_ [Hx [Hs [Hi _]]]]].
  set (s1 := run (upper name' ++ [to_upper c])) in *.
  destruct (Lemmas_C02e.fold_ncs_frame D (upper name' ++ [to_upper c]) (Lemmas_C02e.P0 s)) as [A B].
  fold (run (upper name' ++ [to_upper c])) in A, B. fold s1 in A, B.
  assert (Hi1 : idle s1) by (apply (Lemmas_C02e.idle_of_u s); [rewrite A; reflexivity | exact Hidle]).
  destruct (Lemmas_C02e.search_steps D Hmx n s1 rest Hi1 Rs) as [j [Hj H4]]; [rewrite Rf; discriminate|].
  destruct (Lemmas_C02e.search_run_frame D n s1) as [A' [B' [_ E']]].
  exists (2 + (length name' * S n + (S n + j))), (search_run D n s1). split.
  { rewrite app_length. simpl length. lia. }
  split.
  { simpl app. rewrite <- app_assoc. simpl app.
    eapply Lemmas_C02e.steps_trans; [apply (Lemmas_C02e.at_steps D Hmx s Hst Hidle)|].
    eapply Lemmas_C02e.steps_trans;
      [apply (Lemmas_C02e.name_steps D Hmx s Hn HL Hf Himp Hidle name' (c :: rest) Hc1 H1)|].
    eapply Lemmas_C02e.steps_trans; [|exact H4].
    unfold s1. rewrite Lemmas_C02e.run_snoc. apply Lemmas_C02e.char_steps; assumption. }
  split; [rewrite B', B; reflexivity|]. split; [exact F|]. split; [rewrite A', A; reflexivity|].
  split; [exact Rf|]. split; [exact Rc|]. split; [rewrite E'; exact Rt|].
  rewrite Lemmas_E2E.six_search_run. unfold s1. apply Lemmas_E2E.six_run.
Qed.

(* ================= 3. name + command_found + the argument text ================= *)
(* the state in which the argument text has been collected *)
Definition has_cr (bs : list N) : bool := existsb (fun ch => (ch =? ch_CR)%N) bs.

Definition collected (i : nat) (c : cmd) (a : list N) (cr : bool) (s5 : state) : Prop :=
  idle s5 /\ mem s5 = mem s /\ fault s5 = false /\ u s5 = u s /\
  k_state (k s5) = CS_PARSE_COMMAND_ARGS /\ k_cmd (k s5) = Some i /\ cmd_of D ATCMD s5 = Some c /\
  k_type (k s5) = T_WRITE /\ k_length (k s5) = length a /\
  firstn (S (length a)) (cbuf s5) = a ++ [0%N] /\ length (cbuf s5) = length (cbuf s) /\
  gL s5 = gL s /\ gS s5 = gS s /\ gR s5 = gR s /\ k_cr (k s5) = (k_cr (k s) || cr) /\
  k_hold (k s5) = k_hold (k s).

Lemma implicit_args_steps : forall name args rest i c,
  name_ok name = true ->
  implicit_hit D s (removelast (upper name)) = false -> implicit_hit D s (upper name) = true ->
  find_full (upper name) (enabled D s) (cmds D) 0 = Some i -> nth_error (cmds D) i = Some c ->
  c_implicit c = true ->
  ~ In ch_LF args -> length (no_cr args) < length (cbuf s) ->
  exists calls s5, calls <= 3 + length name * S n + n + length args /\
    steps calls s ([ch_A; ch_T] ++ name ++ args ++ rest) s5 rest /\
    collected i c (no_cr args) (has_cr args) s5.
Proof.
  intros name args rest i c Hok H1 H2 Hfind Hc Hic Hlf Hfit.
  destruct (implicit_line_ex name (args ++ rest) Hok H1 H2)
    as (c1 & s2 & Hc1 & S1 & M2 & F2 & U2 & A1 & A2 & A3 & X2).
  rewrite Hfind in A2. unfold Lemmas_E2E.six in X2.
  assert (G2 : gL s2 = gL s /\ gS s2 = gS s /\ gR s2 = gR s /\ k_cr (k s2) = k_cr (k s) /\
               k_hold (k s2) = k_hold (k s) /\ length (cbuf s2) = length (cbuf s)).
  { repeat split; congruence. }
  destruct G2 as (gl2 & gs2 & gr2 & cr2 & ho2 & len2).
  pose proof (Lemmas_E2E.cmd_at_of_cmds D i c Hc) as Hc'.
  assert (Hi2 : idle s2) by (apply (Lemmas_C02e.idle_of_u s); assumption).
  assert (Hcmd2 : cmd_of D ATCMD s2 = Some c) by (unfold cmd_of, g_cmd; rewrite A2; exact Hc').
  pose proof (shortcut_off c Hic) as Hts.
  (* the call in CS_COMMAND_FOUND *)
  pose proof (Lemmas_E2E.found_write_step D Hmx s2 (args ++ rest) Hi2 A1) as S2.
  destruct (Lemmas_C06.C06_entry D s2 c Hcmd2 A3 ltac:(unfold asz; lia)) as (E1 & E2 & E3 & E4 & E5 & E6 & E7 & E8).
  destruct (Lemmas_E2E.found_write_pre D s2 c Hcmd2 A3) as (K3 & gs3 & ho3).
  assert (CT3 : ct (command_found D s2) = ct s2).
  { unfold command_found. rewrite Hcmd2, A3. destruct (cbuf (setk_length 0 s2)); reflexivity. }
  set (s3 := command_found D s2) in *.
  assert (Hi3 : idle s3) by (apply (Lemmas_C02e.idle_of_u s2); [apply K3 | exact Hi2]).
  unfold asz in E5.
  (* the argument bytes *)
  destruct (args_steps_cr c Hts args s3 rest Hi3 E1 E2 E3 ltac:(unfold asz; lia) ltac:(congruence)
              E4 Hlf ltac:(unfold asz; lia)) as (S3 & K5).
  pose proof (Lemmas_C06.C06_collect D s3 c args E1 E2 E3 ltac:(unfold asz; lia) ltac:(congruence) E4 Hlf) as HC.
  specialize (HC ltac:(intros T; rewrite Hts in T; discriminate T)). cbv zeta in HC.
  destruct HC as (F5 & M5 & C5 & HC).
  replace (length (no_cr args) <? asz s3) with true in HC by (symmetry; apply Nat.ltb_lt; unfold asz; lia).
  destruct HC as (S5 & L5 & B5 & N5 & R5).
  pose proof (args_feed_ct c args s3 E2 Hic) as CT5.
  set (s5 := args_feed D s3 args) in *.
  destruct K3 as (k31 & k32 & k33 & k34 & k35). destruct K5 as (k51 & k52 & k53 & k54 & k55).
  unfold ct in CT3, CT5.
  exists (c1 + (1 + length args)), s5. split; [lia|]. split.
  { eapply Lemmas_C02e.steps_trans; [exact S1|]. eapply Lemmas_C02e.steps_trans; [exact S2 | exact S3]. }
  unfold collected.
  split; [apply (Lemmas_C02e.idle_of_u s3); [exact k51 | exact Hi3]|].
  split; [congruence|]. split; [exact F5|]. split; [congruence|]. split; [exact S5|].
  split; [congruence|]. split; [exact C5|]. split; [congruence|]. split; [exact L5|].
  split; [exact B5|]. split; [congruence|]. split; [congruence|]. split; [congruence|].
  split; [congruence|]. split; [|congruence].
  rewrite R5. unfold has_cr. congruence.
Qed.

(* ================= 4. the line feed and the handler call ================= *)
Definition wl_entry (s5 : state) : state :=
  set_gL (S (gL s5)) (setk_char ch_LF s5) |> setk_index 0 |> setk_state CS_WRITE_LOOP.

Lemma pca_lf_write_step : forall s5 q c, idle s5 -> k_state (k s5) = CS_PARSE_COMMAND_ARGS ->
  cmd_of D ATCMD s5 = Some c -> c_only_test c = false -> vars_access_possible c WO = false ->
  c_hwrite c = true -> steps 1 s5 (ch_LF :: q) (wl_entry s5) q.
Proof.
  intros s5 q c Hi Hs Hc Hot Hva Hw.
  pose proof (Lemmas_E2E.pca_step D Hmx s5 ch_LF q Hi Hs) as S1.
  assert (Hrd : Lemmas_C02e.rd_state s5 ch_LF = set_gL (S (gL s5)) (setk_char ch_LF s5)).
  { unfold Lemmas_C02e.rd_state. rewrite Hs. reflexivity. }
  rewrite Hrd in S1. change (k_char (k (set_gL (S (gL s5)) (setk_char ch_LF s5)))) with ch_LF in S1.
  assert (E : pca_body D ch_LF (set_gL (S (gL s5)) (setk_char ch_LF s5)) = wl_entry s5).
  { unfold pca_body.
    change (cmd_of D ATCMD (set_gL (S (gL s5)) (setk_char ch_LF s5))) with (cmd_of D ATCMD s5).
    rewrite Hc. change (ch_LF =? ch_LF)%N with true. cbv iota.
    rewrite Hot, Hva, Hw. reflexivity. }
  rewrite E in S1. exact S1.
Qed.

(* what process_write_loop does with the return code *)
Definition wl_after (code : Z) (s6 : state) : state :=
  if (code =? RC_OK)%Z || (code =? RC_DATA_OK)%Z then ack_ok s6
  else if (code =? RC_DATA_NEXT)%Z || (code =? RC_NEXT)%Z then s6
  else if (code =? RC_HOLD)%Z then enable_hold_state s6
  else ack_error s6.

Lemma wl_after_frame : forall code s6, mem (wl_after code s6) = mem s6 /\ fault (wl_after code s6) = fault s6 /\
  u (wl_after code s6) = u s6.
Proof. intros code s6. unfold wl_after. destr_all; repeat split; reflexivity. Qed.

(* the response text of a return code that ends the line *)
Definition code_text (code : Z) : option (list N) :=
  if (code =? RC_OK)%Z || (code =? RC_DATA_OK)%Z then Some txt_OK
  else if (code =? RC_DATA_NEXT)%Z || (code =? RC_NEXT)%Z then None
  else if (code =? RC_HOLD)%Z then None
  else Some txt_ERROR.

Lemma wl_after_tail : forall code txt s6 q, code_text code = Some txt -> idle s6 ->
  k_hold (k s6) = false -> 6 <= length (cbuf s6) ->
  let nl := Lemmas_E2Ec.nl_of (k_cr (k s6)) in
  exists m s4, osteps m (wl_after code s6) q s4 q (nl ++ txt ++ nl) /\ Lemmas_E2Ec.tail_done s6 s4.
Proof.
  intros code txt s6 q H Hi Hh H6 nl. unfold code_text in H. unfold wl_after.
  destruct ((code =? RC_OK)%Z || (code =? RC_DATA_OK)%Z).
  - injection H as <-. destruct (Lemmas_E2Ec.ack_ok_tail_g D Hmx s6 q Hi Hh H6) as (s4 & O & R).
    eexists; exists s4. split; [exact O | exact R].
  - destruct ((code =? RC_DATA_NEXT)%Z || (code =? RC_NEXT)%Z); [discriminate H|].
    destruct (code =? RC_HOLD)%Z; [discriminate H|]. injection H as <-.
    destruct (Lemmas_E2Ec.ack_error_tail_g D Hmx s6 q Hi Hh H6) as (s4 & O & R).
    eexists; exists s4. split; [exact O | exact R].
Qed.

(* the service call that runs the write handler *)
Lemma write_call : forall s6 q h h' t i a r0, idle s6 -> k_state (k s6) = CS_WRITE_LOOP ->
  k_cmd (k s6) = Some i -> k_length (k s6) = length a -> firstn (S (length a)) (cbuf s6) = a ++ [0%N] ->
  s_call h (HWrite i (a ++ [0%N]) (length a) (k_index (k s6))) = (h', r0) ->
  r_pokes r0 = [] -> r_calls r0 = [] ->
  svc D (mkw s6 q h t) =
  mkw (wl_after (r_code r0) s6) q h'
      (ERet OService ST_BUSY :: ECall (HWrite i (a ++ [0%N]) (length a) (k_index (k s6))) (r_code r0) :: t).
Proof.
  intros s6 q h h' t i a r0 Hi Hs Hk Hl Hb Hcall Hp Hc.
  assert (E : cmdsvc (mkw s6 q h t) =
              (mkw (wl_after (r_code r0) s6) q h'
                   (ECall (HWrite i (a ++ [0%N]) (length a) (k_index (k s6))) (r_code r0) :: t), ST_BUSY)).
  { unfold cmd_service. cbn [Fsm.st mkw]. rewrite Hs. unfold process_write_loop. cbn [Fsm.st mkw g_cmd].
    rewrite Hk, Hl, Hb. unfold call_h. cbn [Fsm.hs mkw]. rewrite Hcall, Hp, Hc. reflexivity. }
  rewrite (Lemmas_C02e.svc_busy D Hmx (mkw s6 q h t) _ Hi E). reflexivity.
Qed.

(* the whole line up to the moment the handler has returned *)
Lemma implicit_write_call_state : forall name args rest i c h h' r0,
  name_ok name = true ->
  implicit_hit D s (removelast (upper name)) = false -> implicit_hit D s (upper name) = true ->
  find_full (upper name) (enabled D s) (cmds D) 0 = Some i -> nth_error (cmds D) i = Some c ->
  c_implicit c = true ->
  ~ In ch_LF args -> length (no_cr args) < length (cbuf s) ->
  c_only_test c = false -> vars_access_possible c WO = false -> c_hwrite c = true ->
  let a := no_cr args in
  s_call h (HWrite i (a ++ [0%N]) (length a) 0) = (h', r0) -> r_pokes r0 = [] -> r_calls r0 = [] ->
  exists calls s5, calls <= 5 + length name * S n + n + length args /\ collected i c a (has_cr args) s5 /\
    forall t0, exists t1, calls_of t1 = [] /\ output_of t1 = [] /\
    nsvc D calls (mkw s ([ch_A; ch_T] ++ name ++ args ++ [ch_LF] ++ rest) h t0) =
    mkw (wl_after (r_code r0) (wl_entry s5)) rest h'
        (ERet OService ST_BUSY :: ECall (HWrite i (a ++ [0%N]) (length a) 0) (r_code r0) :: t1 ++ t0).
Proof.
  intros name args rest i c h h' r0 Hok H1 H2 Hfind Hc Hic Hlf Hfit Hot Hva Hw a Hcall Hp Hrc.
  destruct (implicit_args_steps name args ([ch_LF] ++ rest) i c Hok H1 H2 Hfind Hc Hic Hlf Hfit)
    as (c1 & s5 & Hc1 & S1 & HC).
  fold a in HC.
  pose proof HC as (Hi5 & M5 & F5 & U5 & A1 & A2 & A3 & A4 & A5 & A6 & _).
  pose proof (pca_lf_write_step s5 rest c Hi5 A1 A3 Hot Hva Hw) as S2.
  pose proof (Lemmas_C02e.steps_trans D _ _ _ _ _ _ _ _ S1 S2) as S12.
  exists ((c1 + 1) + 1), s5. split; [lia|]. split; [exact HC|].
  intros t0. destruct (S12 h t0) as (t1 & Q1 & E1).
  destruct (Lemmas_C02e.quiet_spec t1 Q1) as (C1 & O1).
  exists t1. split; [exact C1|]. split; [exact O1|].
  unfold nsvc in *. rewrite Lemmas_C02e.iter_add. cbn [app] in E1 |- *. rewrite E1. cbn [iter].
  apply (write_call (wl_entry s5) rest h h' (t1 ++ t0) i a r0); try assumption; try reflexivity.
Qed.

(* ================= 5. a result code that ends the line: the response and back to idle ================= *)
Lemma implicit_write_line_state : forall name args rest i c h h' r0 txt,
  6 <= length (cbuf s) -> k_hold (k s) = false ->
  name_ok name = true ->
  implicit_hit D s (removelast (upper name)) = false -> implicit_hit D s (upper name) = true ->
  find_full (upper name) (enabled D s) (cmds D) 0 = Some i -> nth_error (cmds D) i = Some c ->
  c_implicit c = true ->
  ~ In ch_LF args -> length (no_cr args) < length (cbuf s) ->
  c_only_test c = false -> vars_access_possible c WO = false -> c_hwrite c = true ->
  let a := no_cr args in
  s_call h (HWrite i (a ++ [0%N]) (length a) 0) = (h', r0) -> r_pokes r0 = [] -> r_calls r0 = [] ->
  code_text (r_code r0) = Some txt ->
  let nl := Lemmas_E2Ec.nl_of (k_cr (k s) || has_cr args) in
  exists calls s7 t1, calls_of t1 = [(HWrite i (a ++ [0%N]) (length a) 0, r_code r0)] /\
    output_of t1 = nl ++ txt ++ nl /\
    nsvc D calls (mkw s ([ch_A; ch_T] ++ name ++ args ++ [ch_LF] ++ rest) h []) = mkw s7 rest h' t1 /\
    k_state (k s7) = CS_IDLE /\ mem s7 = mem s /\ fault s7 = false /\ u s7 = u s /\
    gL s7 = S (gL s) /\ gS s7 = S (gS s) /\ gR s7 = S (gR s) /\
    k_cr (k s7) = false /\ k_hold (k s7) = false /\ k_cmd (k s7) = None.
Proof.
  intros name args rest i c h h' r0 txt H6 Hho0 Hok H1 H2 Hfind Hc Hic Hlf Hfit Hot Hva Hw a Hcall Hp Hrc Hcode nl.
  destruct (implicit_write_call_state name args rest i c h h' r0
              Hok H1 H2 Hfind Hc Hic Hlf Hfit Hot Hva Hw Hcall Hp Hrc) as (c1 & s5 & _ & HC & HW).
  fold a in HC, HW.
  destruct (HW []) as (t1 & C1 & O1 & E1).
  destruct HC as (Hi5 & M5 & F5 & U5 & _ & _ & _ & _ & _ & _ & N5 & gl5 & gs5 & gr5 & cr5 & ho5).
  set (s6 := wl_entry s5) in *.
  assert (Hi6 : idle s6) by exact Hi5.
  assert (L6 : 6 <= length (cbuf s6)) by (change (cbuf s6) with (cbuf s5); lia).
  assert (Hh6 : k_hold (k s6) = false) by (change (k_hold (k s5) = false); congruence).
  destruct (wl_after_tail (r_code r0) txt s6 rest Hcode Hi6 Hh6 L6) as (m & s7 & O7 & R).
  change (k_cr (k s6)) with (k_cr (k s5)) in O7. rewrite cr5 in O7. fold nl in O7.
  destruct R as (R1 & R2 & R3 & R4 & R5 & R6 & R7 & R8 & R9 & R10).
  destruct (O7 h' (ERet OService ST_BUSY :: ECall (HWrite i (a ++ [0%N]) (length a) 0) (r_code r0) :: t1 ++ []))
    as (t2 & C2 & O2 & E2).
  exists (c1 + m), s7,
    (t2 ++ [ERet OService ST_BUSY; ECall (HWrite i (a ++ [0%N]) (length a) 0) (r_code r0)] ++ t1 ++ []).
  split.
  { rewrite !Lemmas_E2E.calls_of_app, C1, C2. reflexivity. }
  split.
  { rewrite !Lemmas_E2E.output_of_app, O1, O2. reflexivity. }
  split.
  { unfold nsvc in *. rewrite Lemmas_C02e.iter_add, E1, E2. reflexivity. }
  split; [exact R1|].
  split; [rewrite R2; change (mem s5 = mem s); exact M5|].
  split; [rewrite R3; change (fault s5 = false); exact F5|].
  split; [rewrite R4; change (u s5 = u s); exact U5|].
  split; [rewrite R5; change (S (gL s5) = S (gL s)); congruence|].
  split; [rewrite R6; change (S (gS s5) = S (gS s)); congruence|].
  split; [rewrite R7; change (S (gR s5) = S (gR s)); congruence|].
  split; [exact R8|]. split; [exact R9 | exact R10].
Qed.

End Line.
End ImplForms.

(* ================= the final statements ================= *)
Lemma C19_implicit_forms_proof : forall D s name args rest h i c,
  d_mutex D = false ->
  let n := ncmds D in
  0 < n -> n <= 4 * length (cbuf s) -> fault s = false ->
  k_state (k s) = CS_IDLE -> k_implicit (k s) = false ->
  u_state (u s) = US_IDLE -> u_count (u s) = 0 ->
  name_ok name = true ->
  let typed := upper name in
  implicit_hit D s (removelast typed) = false -> implicit_hit D s typed = true ->
  find_full typed (enabled D s) (cmds D) 0 = Some i -> nth_error (cmds D) i = Some c ->
  c_implicit c = true ->
  let a := no_cr args in
  ~ In ch_LF args -> length a < length (cbuf s) ->
  let w0 := mkw s ([ch_A; ch_T] ++ name ++ args ++ rest) h [] in
  exists calls, calls <= 3 + length name * (S n) + n + length args /\
    let w := nsvc D calls w0 in
    inq (wio w) = rest /\ whs w = h /\ calls_of (wtr w) = [] /\ output_of (wtr w) = [] /\
    mem (wst w) = mem s /\ fault (wst w) = false /\ u (wst w) = u s /\
    k_state (k (wst w)) = CS_PARSE_COMMAND_ARGS /\ k_cmd (k (wst w)) = Some i /\
    k_type (k (wst w)) = T_WRITE /\ k_length (k (wst w)) = length a /\
    firstn (S (length a)) (cbuf (wst w)) = a ++ [0%N] /\
    k_cr (k (wst w)) = (k_cr (k s) || existsb (fun ch => (ch =? ch_CR)%N) args).
Proof.
  intros D s name args rest h i c Hmx n Hn HL Hf Hst Himp Hu1 Hu2 Hok typed H1 H2 Hfind Hc Hic a Hlf Hfit w0.
  destruct (implicit_args_steps D Hmx s Hn HL Hf Hst Himp (conj Hu1 Hu2) name args rest i c
              Hok H1 H2 Hfind Hc Hic Hlf Hfit) as (calls & s5 & Hb & S1 & HC).
  exists calls. split; [exact Hb|]. intros w.
  destruct (Lemmas_C02e.steps_world D calls s _ s5 rest h S1) as (E1 & E2 & E3 & E4 & E5).
  fold w0 in E1, E2, E3, E4, E5. fold w in E1, E2, E3, E4, E5. rewrite E1.
  fold a in HC.
  destruct HC as (_ & M5 & F5 & U5 & A1 & A2 & _ & A4 & A5 & A6 & _ & _ & _ & _ & A7 & _).
  repeat (split; [assumption|]). exact A7.
Qed.

Lemma C19_implicit_write_call_proof : forall D s name args rest h h' r0 i c,
  d_mutex D = false ->
  let n := ncmds D in
  0 < n -> n <= 4 * length (cbuf s) -> fault s = false ->
  k_state (k s) = CS_IDLE -> k_implicit (k s) = false ->
  u_state (u s) = US_IDLE -> u_count (u s) = 0 ->
  name_ok name = true ->
  let typed := upper name in
  implicit_hit D s (removelast typed) = false -> implicit_hit D s typed = true ->
  find_full typed (enabled D s) (cmds D) 0 = Some i -> nth_error (cmds D) i = Some c ->
  c_implicit c = true ->
  let a := no_cr args in
  ~ In ch_LF args -> length a < length (cbuf s) ->
  c_only_test c = false -> vars_access_possible c WO = false -> c_hwrite c = true ->
  s_call h (HWrite i (a ++ [0%N]) (length a) 0) = (h', r0) -> r_pokes r0 = [] -> r_calls r0 = [] ->
  let w0 := mkw s ([ch_A; ch_T] ++ name ++ args ++ [ch_LF] ++ rest) h [] in
  exists calls, calls <= 5 + length name * (S n) + n + length args /\
    let w := nsvc D calls w0 in
    inq (wio w) = rest /\ whs w = h' /\
    calls_of (wtr w) = [(HWrite i (a ++ [0%N]) (length a) 0, r_code r0)] /\
    output_of (wtr w) = [] /\
    mem (wst w) = mem s /\ fault (wst w) = false /\ u (wst w) = u s.
Proof.
  intros D s name args rest h h' r0 i c Hmx n Hn HL Hf Hst Himp Hu1 Hu2 Hok typed H1 H2 Hfind Hc Hic a
         Hlf Hfit Hot Hva Hw Hcall Hp Hrc w0.
  destruct (implicit_write_call_state D Hmx s Hn HL Hf Hst Himp (conj Hu1 Hu2) name args rest i c h h' r0
              Hok H1 H2 Hfind Hc Hic Hlf Hfit Hot Hva Hw Hcall Hp Hrc) as (calls & s5 & Hb & HC & HW).
  exists calls. split; [exact Hb|]. intros w.
  destruct (HW []) as (t1 & C1 & O1 & E). unfold w, w0. rewrite E.
  cbn [Fsm.st Fsm.io Fsm.hs Fsm.tr mkw inq].
  destruct HC as (_ & M5 & F5 & U5 & _).
  destruct (wl_after_frame (r_code r0) (wl_entry s5)) as (W1 & W2 & W3).
  split; [reflexivity|]. split; [reflexivity|].
  fold a.
  change (ERet OService ST_BUSY :: ECall (HWrite i (a ++ [0%N]) (length a) 0) (r_code r0) :: t1 ++ [])
    with ([ERet OService ST_BUSY; ECall (HWrite i (a ++ [0%N]) (length a) 0) (r_code r0)] ++ t1 ++ []).
  rewrite app_nil_r, Lemmas_E2E.calls_of_app, Lemmas_E2E.output_of_app, C1, O1.
  split; [reflexivity|]. split; [reflexivity|].
  rewrite W1, W2, W3. split; [exact M5|]. split; [exact F5 | exact U5].
Qed.

Lemma E2E_implicit_write_line_proof : forall D s name args rest h h' r0 i c txt,
  d_mutex D = false ->
  let n := ncmds D in
  0 < n -> n <= 4 * length (cbuf s) -> 6 <= length (cbuf s) -> fault s = false ->
  k_state (k s) = CS_IDLE -> k_implicit (k s) = false -> k_hold (k s) = false ->
  u_state (u s) = US_IDLE -> u_count (u s) = 0 ->
  name_ok name = true ->
  let typed := upper name in
  implicit_hit D s (removelast typed) = false -> implicit_hit D s typed = true ->
  find_full typed (enabled D s) (cmds D) 0 = Some i -> nth_error (cmds D) i = Some c ->
  c_implicit c = true ->
  let a := no_cr args in
  ~ In ch_LF args -> length a < length (cbuf s) ->
  c_only_test c = false -> vars_access_possible c WO = false -> c_hwrite c = true ->
  s_call h (HWrite i (a ++ [0%N]) (length a) 0) = (h', r0) -> r_pokes r0 = [] -> r_calls r0 = [] ->
  code_text (r_code r0) = Some txt ->
  let nl := if k_cr (k s) || existsb (fun ch => (ch =? ch_CR)%N) args then [ch_CR; ch_LF] else [ch_LF] in
  let w0 := mkw s ([ch_A; ch_T] ++ name ++ args ++ [ch_LF] ++ rest) h [] in
  exists calls,
    let w := nsvc D calls w0 in
    inq (wio w) = rest /\ whs w = h' /\
    calls_of (wtr w) = [(HWrite i (a ++ [0%N]) (length a) 0, r_code r0)] /\
    output_of (wtr w) = nl ++ txt ++ nl /\
    k_state (k (wst w)) = CS_IDLE /\ mem (wst w) = mem s /\ fault (wst w) = false /\ u (wst w) = u s /\
    gL (wst w) = S (gL s) /\ gS (wst w) = S (gS s) /\ gR (wst w) = S (gR s) /\
    k_cr (k (wst w)) = false /\ k_hold (k (wst w)) = false /\ k_cmd (k (wst w)) = None.
Proof.
  intros D s name args rest h h' r0 i c txt Hmx n Hn HL H6 Hf Hst Himp Hho0 Hu1 Hu2 Hok typed H1 H2 Hfind Hc Hic a
         Hlf Hfit Hot Hva Hw Hcall Hp Hrc Hcode nl w0.
  destruct (implicit_write_line_state D Hmx s Hn HL Hf Hst Himp (conj Hu1 Hu2) name args rest i c h h' r0 txt
              H6 Hho0 Hok H1 H2 Hfind Hc Hic Hlf Hfit Hot Hva Hw Hcall Hp Hrc Hcode)
    as (calls & s7 & t1 & C1 & O1 & E & R).
  exists calls. intros w. unfold w, w0. rewrite E. cbn [Fsm.st Fsm.io Fsm.hs Fsm.tr mkw inq].
  split; [reflexivity|]. split; [reflexivity|]. split; [exact C1|]. split; [exact O1 | exact R].
Qed.
End B.

(* ====================================================================================== *)
Module C.
Import Lemmas_C19.
Import ListNotations.
Local Open Scope nat_scope.

(* ================= definitions ================= *)

(* any sequence of OSetCmdDisable / OSetGroupDisable operations acts on the state like this *)
Definition flag_op (fc fg : list bool -> list bool) (s : state) : state :=
  set_dis_grp (fg (dis_grp s)) (set_dis_cmd (fc (dis_cmd s)) s).

(* sch t = the flag change applied just before printer call number t *)
Definition fsched := nat -> (list bool -> list bool) * (list bool -> list bool).
Definition sch_id : fsched := fun _ => (fun x => x, fun x => x).

(* TextDefs.list_run with the scheduled flag change before every call of print_cmd_list *)
Fixpoint list_run_sch (D : desc) (sch : fsched) (t fuel : nat) (s : state) (acc : list (list N))
  : list (list N) * state :=
  match fuel with
  | O => (acc, s)
  | S n =>
    if cstate_beq (k_state (k s)) CS_PRINT_CMD then
      let s1 := print_cmd_list D (flag_op (fst (sch t)) (snd (sch t)) s) in
      if cstate_beq (k_state (k s1)) CS_FLUSH_WAIT && cstate_beq (k_wafter (k s1)) CS_PRINT_CMD
      then list_run_sch D sch (S t) n (setk_state CS_PRINT_CMD s1) (acc ++ [text_of (cbuf s1)])
      else list_run_sch D sch (S t) n s1 acc
    else (acc, s)
  end.

(* Fsm.is_command_disable as a function of the two flag lists *)
Definition cmd_disabled (D : desc) (dc dg : list bool) (i : nat) : bool :=
  match group_of_index (d_groups D) i 0 with
  | None => false
  | Some g => nthb dg g || nthb dc i
  end.

(* the flags after the changes scheduled for times t, t+1, ..., t+n-1 *)
Fixpoint sch_apply (sch : fsched) (t n : nat) (f : list bool * list bool) : list bool * list bool :=
  match n with
  | O => f
  | S m => sch_apply sch (S t) m (fst (sch t) (fst f), snd (sch t) (snd f))
  end.

(* printer calls spent on an enabled command: T_NONE, the forms (T_TEST only, or T_RUN..T_TEST), T_TOTAL *)
Definition block_calls (c : cmd) : nat := if c_only_test c then 3 else 6.

(* the specification: (dc, dg) are the flags in force just before time t, at which the block of
   command i (the head of cs) begins *)
Fixpoint spec_list_sch (D : desc) (nl : list N) (sch : fsched) (t : nat) (dc dg : list bool)
         (i : nat) (cs : list cmd) : list (list N) :=
  match cs with
  | [] => []
  | c :: r =>
    let dc1 := fst (sch t) dc in
    let dg1 := snd (sch t) dg in
    if cmd_disabled D dc1 dg1 i
    then spec_list_sch D nl sch (S t) dc1 dg1 (S i) r
    else let f2 := sch_apply sch t (block_calls c) (dc, dg) in
         spec_cmd_lines c nl ++ spec_list_sch D nl sch (t + block_calls c) (fst f2) (snd f2) (S i) r
  end.

(* start time and enabledness of every block, from the flags (dc0, dg0) at the start of the listing *)
Definition flags_at (sch : fsched) (dc0 dg0 : list bool) (t : nat) : list bool * list bool :=
  sch_apply sch 0 (S t) (dc0, dg0).
Fixpoint block_times (D : desc) (sch : fsched) (dc0 dg0 : list bool) (t i : nat) (cs : list cmd)
  : list (nat * bool) :=
  match cs with
  | [] => []
  | c :: r =>
    let f := flags_at sch dc0 dg0 t in
    let en := negb (cmd_disabled D (fst f) (snd f) i) in
    (t, en) :: block_times D sch dc0 dg0 (t + (if en then block_calls c else 1)) (S i) r
  end.

(* ================= elementary facts ================= *)

Lemma flag_op_id : forall s, flag_op (fun x => x) (fun x => x) s = s.
Proof. intros []. reflexivity. Qed.

Lemma is_command_disable_eq : forall D s i,
  is_command_disable D s i = cmd_disabled D (dis_cmd s) (dis_grp s) i.
Proof. reflexivity. Qed.

Lemma list_run_sch_id_proof : forall D sch, (forall t, sch t = (fun x => x, fun x => x)) ->
  forall fuel t s acc, list_run_sch D sch t fuel s acc = list_run D fuel s acc.
Proof.
  intros D sch H. induction fuel as [|n IH]; intros t s acc; [reflexivity|].
  cbn [list_run_sch list_run]. rewrite H. cbn [fst snd]. rewrite flag_op_id.
  destruct (cstate_beq (k_state (k s)) CS_PRINT_CMD); [|reflexivity]. cbv zeta.
  destruct (cstate_beq (k_state (k (print_cmd_list D s))) CS_FLUSH_WAIT &&
            cstate_beq (k_wafter (k (print_cmd_list D s))) CS_PRINT_CMD); apply IH.
Qed.

Lemma list_run_sch_stop : forall D sch t n s acc, k_state (k s) = CS_FLUSH_WAIT ->
  list_run_sch D sch t n s acc = (acc, s).
Proof. intros D sch t [|n] s acc H; [reflexivity|]. cbn [list_run_sch]. rewrite H. reflexivity. Qed.

(* one printer call of list_run_sch, from one call of list_run on the state after the flag change *)
Lemma sch_step : forall D sch t s acc acc' s2,
  k_state (k s) = CS_PRINT_CMD ->
  list_run D 1 (flag_op (fst (sch t)) (snd (sch t)) s) acc = (acc', s2) ->
  forall fuel, list_run_sch D sch t (S fuel) s acc = list_run_sch D sch (S t) fuel s2 acc'.
Proof.
  intros D sch t s acc acc' s2 Hst H fuel.
  cbn [list_run_sch]. cbn [list_run] in H.
  change (k (flag_op (fst (sch t)) (snd (sch t)) s)) with (k s) in H.
  rewrite Hst in *. cbn [cstate_beq] in *. cbv zeta in *.
  destruct (cstate_beq (k_state (k (print_cmd_list D (flag_op (fst (sch t)) (snd (sch t)) s)))) CS_FLUSH_WAIT &&
            cstate_beq (k_wafter (k (print_cmd_list D (flag_op (fst (sch t)) (snd (sch t)) s)))) CS_PRINT_CMD);
    injection H as <- <-; reflexivity.
Qed.

Lemma sch_apply_add : forall sch n m t f,
  sch_apply sch t (n + m) f = sch_apply sch (t + n) m (sch_apply sch t n f).
Proof.
  intros sch. induction n as [|n IH]; intros m t f.
  - rewrite Nat.add_0_r. reflexivity.
  - cbn [plus sch_apply]. rewrite IH. replace (S t + n) with (t + S n) by lia. reflexivity.
Qed.

Lemma sch_apply_pair : forall sch t n f, sch_apply sch t n f = sch_apply sch t n (fst f, snd f).
Proof. intros sch t n [a b]. reflexivity. Qed.

(* ================= the printer under a schedule ================= *)
Section Sched.
Variable D : desc.
Variable sch : fsched.

Definition nlc (cr : bool) : list N := if cr then [ch_CR; ch_LF] else [ch_LF].

(* flag-free part of Lemmas_C19.LInv plus the current flags *)
Definition JF (bsz : nat) (cr : bool) (dc dg : list bool) (s : state) (i : nat) (ty : ctype)
           (first : bool) : Prop :=
  fault s = false /\ k_state (k s) = CS_PRINT_CMD /\ k_index (k s) = i /\ k_type (k s) = ty /\
  (k_length (k s) =? 0) = first /\ length (cbuf s) = bsz /\ k_cr (k s) = cr /\
  dis_cmd s = dc /\ dis_grp s = dg.

Lemma JF_LInv : forall bsz cr dc dg s i ty first,
  JF bsz cr dc dg s i ty first -> LInv s s i ty first.
Proof.
  intros bsz cr dc dg s i ty first (H1 & H2 & H3 & H4 & H5 & _).
  unfold LInv. repeat split; assumption.
Qed.

Lemma LInv_JF : forall bsz cr dc dg s0 i0 ty0 f0 s2 i ty first,
  JF bsz cr dc dg s0 i0 ty0 f0 -> LInv s0 s2 i ty first -> JF bsz cr dc dg s2 i ty first.
Proof.
  intros bsz cr dc dg s0 i0 ty0 f0 s2 i ty first (_ & _ & _ & _ & _ & H6 & H7 & H8 & H9)
         (L1 & L2 & L3 & L4 & L5 & L6 & L7 & L8 & L9).
  unfold JF. rewrite L6, L7, L8, L9. repeat split; assumption.
Qed.

Lemma JF_flag : forall bsz cr dc dg s i ty first fc fg,
  JF bsz cr dc dg s i ty first -> JF bsz cr (fc dc) (fg dg) (flag_op fc fg s) i ty first.
Proof.
  intros bsz cr dc dg s i ty first fc fg (H1 & H2 & H3 & H4 & H5 & H6 & H7 & H8 & H9).
  unfold JF, flag_op. cbn [fault k cbuf dis_cmd dis_grp set_dis_cmd set_dis_grp].
  rewrite H8, H9. repeat split; assumption.
Qed.

Definition NextJ (bsz : nat) (cr : bool) (dc dg : list bool) (i : nat) (s2 : state) : Prop :=
  if S i <? ncmds D then JF bsz cr dc dg s2 (S i) T_NONE true else EndState txt_OK s2.

Lemma Next_JF : forall bsz cr dc dg s0 i0 ty0 f0 s2 i,
  JF bsz cr dc dg s0 i0 ty0 f0 -> NextState D s0 i s2 -> NextJ bsz cr dc dg i s2.
Proof.
  intros bsz cr dc dg s0 i0 ty0 f0 s2 i HJ HN. unfold NextState in HN. unfold NextJ.
  destruct (S i <? ncmds D); [|exact HN]. exact (LInv_JF _ _ _ _ _ _ _ _ _ _ _ _ HJ HN).
Qed.

(* --- the T_NONE call: the only one that reads the flags, AFTER the change scheduled for it --- *)
Lemma none_step : forall bsz cr dc dg s i first c t,
  JF bsz cr dc dg s i T_NONE first -> nth_error (cmds D) i = Some c -> 6 <= bsz ->
  if cmd_disabled D (fst (sch t) dc) (snd (sch t) dg) i
  then exists s2, NextJ bsz cr (fst (sch t) dc) (snd (sch t) dg) i s2 /\
         forall fuel acc, list_run_sch D sch t (S fuel) s acc = list_run_sch D sch (S t) fuel s2 acc
  else exists s2, JF bsz cr (fst (sch t) dc) (snd (sch t) dg) s2 i
                     (if c_only_test c then T_TEST else T_RUN) first /\
         forall fuel acc, list_run_sch D sch t (S fuel) s acc = list_run_sch D sch (S t) fuel s2 acc.
Proof.
  intros bsz cr dc dg s i first c t HJ Hn H6.
  pose proof (JF_flag _ _ _ _ _ _ _ _ (fst (sch t)) (snd (sch t)) HJ) as HJ'.
  assert (Hst : k_state (k s) = CS_PRINT_CMD) by apply HJ.
  assert (H6' : 6 <= length (cbuf (flag_op (fst (sch t)) (snd (sch t)) s))).
  { destruct HJ' as (_ & _ & _ & _ & _ & -> & _). exact H6. }
  pose proof (run_none D _ _ i first c (JF_LInv _ _ _ _ _ _ _ _ HJ') Hn H6') as R.
  rewrite is_command_disable_eq in R.
  assert (Edc : dis_cmd (flag_op (fst (sch t)) (snd (sch t)) s) = fst (sch t) dc) by apply HJ'.
  assert (Edg : dis_grp (flag_op (fst (sch t)) (snd (sch t)) s) = snd (sch t) dg) by apply HJ'.
  rewrite Edc, Edg in R.
  destruct (cmd_disabled D (fst (sch t) dc) (snd (sch t) dg) i).
  - destruct R as (s2 & HN & R). exists s2. split; [exact (Next_JF _ _ _ _ _ _ _ _ _ _ HJ' HN)|].
    intros fuel acc. apply sch_step; [exact Hst|]. exact (R 0 acc).
  - destruct R as (s2 & HL & R). exists s2. split; [exact (LInv_JF _ _ _ _ _ _ _ _ _ _ _ _ HJ' HL)|].
    intros fuel acc. apply sch_step; [exact Hst|]. exact (R 0 acc).
Qed.

(* --- a form call: never reads the flags --- *)
Lemma form_step : forall bsz cr dc dg s i fm first c t,
  JF bsz cr dc dg s i (ty_of fm) first -> nth_error (cmds D) i = Some c -> ~ In 0%N (c_name c) ->
  6 <= bsz ->
  (avail c fm = true -> length (cmd_line c (nlc cr) first (form_suffix fm)) < bsz) ->
  exists s2, JF bsz cr (fst (sch t) dc) (snd (sch t) dg) s2 i (next_of fm)
                (if avail c fm then false else first) /\
    forall fuel acc, list_run_sch D sch t (S fuel) s acc
      = list_run_sch D sch (S t) fuel s2
          (acc ++ if avail c fm then [cmd_line c (nlc cr) first (form_suffix fm)] else []).
Proof.
  intros bsz cr dc dg s i fm first c t HJ Hn Hn0 H6 Hfit.
  pose proof (JF_flag _ _ _ _ _ _ _ _ (fst (sch t)) (snd (sch t)) HJ) as HJ'.
  assert (Hst : k_state (k s) = CS_PRINT_CMD) by apply HJ.
  assert (Hlen : length (cbuf (flag_op (fst (sch t)) (snd (sch t)) s)) = bsz) by apply HJ'.
  assert (Hcr : nl_chars (flag_op (fst (sch t)) (snd (sch t)) s) = nlc cr).
  { destruct HJ as (_ & _ & _ & _ & _ & _ & <- & _). reflexivity. }
  assert (H6' : 6 <= length (cbuf (flag_op (fst (sch t)) (snd (sch t)) s))) by (rewrite Hlen; exact H6).
  pose proof (run_form D _ _ i fm first c (JF_LInv _ _ _ _ _ _ _ _ HJ') Hn Hn0 H6') as R.
  rewrite Hcr, Hlen in R.
  destruct (avail c fm).
  - apply Nat.ltb_lt in Hfit; [|reflexivity]. rewrite Hfit in R.
    destruct R as (s2 & HL & R). exists s2. split; [exact (LInv_JF _ _ _ _ _ _ _ _ _ _ _ _ HJ' HL)|].
    intros fuel acc. apply sch_step; [exact Hst|]. exact (R 0 acc).
  - destruct R as (s2 & HL & R). exists s2. split; [exact (LInv_JF _ _ _ _ _ _ _ _ _ _ _ _ HJ' HL)|].
    intros fuel acc. rewrite app_nil_r. apply sch_step; [exact Hst|]. exact (R 0 acc).
Qed.

(* --- the T_TOTAL call: never reads the flags --- *)
Lemma total_step : forall bsz cr dc dg s i first c t,
  JF bsz cr dc dg s i T_TOTAL first -> nth_error (cmds D) i = Some c -> 6 <= bsz ->
  exists s2, NextJ bsz cr (fst (sch t) dc) (snd (sch t) dg) i s2 /\
    forall fuel acc, list_run_sch D sch t (S fuel) s acc = list_run_sch D sch (S t) fuel s2 acc.
Proof.
  intros bsz cr dc dg s i first c t HJ Hn H6.
  pose proof (JF_flag _ _ _ _ _ _ _ _ (fst (sch t)) (snd (sch t)) HJ) as HJ'.
  assert (Hst : k_state (k s) = CS_PRINT_CMD) by apply HJ.
  assert (H6' : 6 <= length (cbuf (flag_op (fst (sch t)) (snd (sch t)) s))).
  { destruct HJ' as (_ & _ & _ & _ & _ & -> & _). exact H6. }
  destruct (run_total D _ _ i first c (JF_LInv _ _ _ _ _ _ _ _ HJ') Hn H6') as (s2 & HN & R).
  exists s2. split; [exact (Next_JF _ _ _ _ _ _ _ _ _ _ HJ' HN)|].
  intros fuel acc. apply sch_step; [exact Hst|]. exact (R 0 acc).
Qed.

(* --- the forms of one command --- *)
Lemma forms_sch : forall bsz cr i c,
  nth_error (cmds D) i = Some c -> ~ In 0%N (c_name c) -> 6 <= bsz ->
  forall fs, chain fs -> forall s first t dc dg, JF bsz cr dc dg s i (head_ty fs) first ->
  forallb (fits bsz) (form_lines c (nlc cr) first fs) = true ->
  exists s2 first',
    JF bsz cr (fst (sch_apply sch t (length fs) (dc, dg))) (snd (sch_apply sch t (length fs) (dc, dg)))
       s2 i T_TOTAL first' /\
    forall fuel acc, list_run_sch D sch t (length fs + fuel) s acc
      = list_run_sch D sch (t + length fs) fuel s2 (acc ++ form_lines c (nlc cr) first fs).
Proof.
  intros bsz cr i c Hn Hn0 H6.
  induction fs as [|fm r IH]; intros Hch s first t dc dg HJ Hfit.
  - exists s, first. cbn [length sch_apply fst snd form_lines plus]. split; [exact HJ|].
    intros fuel acc. rewrite app_nil_r, Nat.add_0_r. reflexivity.
  - destruct Hch as [Hnx Hch]. cbn [head_ty] in HJ. cbn [form_lines] in Hfit |- *.
    assert (Hf1 : avail c fm = true -> length (cmd_line c (nlc cr) first (form_suffix fm)) < bsz).
    { intros E. rewrite E in Hfit. cbn [forallb] in Hfit. apply andb_prop in Hfit.
      destruct Hfit as [Hfit _]. unfold fits in Hfit. apply Nat.ltb_lt. exact Hfit. }
    destruct (form_step bsz cr dc dg s i fm first c t HJ Hn Hn0 H6 Hf1) as (s1 & HJ1 & R1).
    rewrite Hnx in HJ1.
    assert (Hf2 : forallb (fits bsz) (form_lines c (nlc cr) (if avail c fm then false else first) r) = true).
    { destruct (avail c fm); [|exact Hfit]. cbn [forallb] in Hfit. apply andb_prop in Hfit. apply Hfit. }
    destruct (IH Hch s1 _ (S t) _ _ HJ1 Hf2) as (s2 & first' & HJ2 & R2).
    exists s2, first'. cbn [length sch_apply fst snd]. split; [exact HJ2|].
    intros fuel acc. cbn [plus]. rewrite R1, R2. replace (S t + length r) with (t + S (length r)) by lia.
    destruct (avail c fm); rewrite <- app_assoc; reflexivity.
Qed.

(* --- the block of one command --- *)
Lemma cmd_sch : forall bsz cr dc dg s i c t,
  JF bsz cr dc dg s i T_NONE true -> nth_error (cmds D) i = Some c -> ~ In 0%N (c_name c) ->
  6 <= bsz -> forallb (fits bsz) (spec_cmd_lines c (nlc cr)) = true ->
  if cmd_disabled D (fst (sch t) dc) (snd (sch t) dg) i
  then exists s2, NextJ bsz cr (fst (sch t) dc) (snd (sch t) dg) i s2 /\
         forall fuel acc, list_run_sch D sch t (S fuel) s acc = list_run_sch D sch (S t) fuel s2 acc
  else exists s2,
         NextJ bsz cr (fst (sch_apply sch t (block_calls c) (dc, dg)))
               (snd (sch_apply sch t (block_calls c) (dc, dg))) i s2 /\
         forall fuel acc, list_run_sch D sch t (block_calls c + fuel) s acc
           = list_run_sch D sch (t + block_calls c) fuel s2 (acc ++ spec_cmd_lines c (nlc cr)).
Proof.
  intros bsz cr dc dg s i c t HJ Hn Hn0 H6 Hfit.
  pose proof (none_step bsz cr dc dg s i true c t HJ Hn H6) as R0.
  destruct (cmd_disabled D (fst (sch t) dc) (snd (sch t) dg) i); [exact R0|].
  destruct R0 as (s1 & HJ1 & R0). rewrite spec_lines_eq in Hfit |- *.
  set (fs := if c_only_test c then [F_TEST] else [F_RUN; F_READ; F_WRITE; F_TEST]) in *.
  assert (Hch : chain fs) by (subst fs; destruct (c_only_test c); cbn; auto).
  assert (Hhd : head_ty fs = if c_only_test c then T_TEST else T_RUN)
    by (subst fs; destruct (c_only_test c); reflexivity).
  assert (Hlen : block_calls c = S (length fs + 1))
    by (subst fs; unfold block_calls; destruct (c_only_test c); reflexivity).
  rewrite <- Hhd in HJ1.
  destruct (forms_sch bsz cr i c Hn Hn0 H6 fs Hch s1 true (S t) _ _ HJ1 Hfit)
    as (s2 & first' & HJ2 & R2).
  destruct (total_step bsz cr _ _ s2 i first' c (S t + length fs) HJ2 Hn H6) as (s3 & HN & R3).
  exists s3. split.
  - rewrite Hlen. cbn [sch_apply fst snd]. rewrite sch_apply_add. cbn [sch_apply fst snd].
    rewrite (sch_apply_pair sch (S t) (length fs)). cbn [fst snd]. exact HN.
  - intros fuel acc. rewrite Hlen. cbn [plus]. rewrite R0.
    replace (length fs + 1 + fuel) with (length fs + S fuel) by lia.
    rewrite R2, R3. replace (t + S (length fs + 1)) with (S (S t + length fs)) by lia. reflexivity.
Qed.

(* --- all commands --- *)
Definition all_from (nl : list N) (i : nat) (cs : list cmd) : list (list N) :=
  flat_map (fun ic : nat * cmd => if (fun _ : nat => true) (fst ic) then spec_cmd_lines (snd ic) nl else [])
           (combine (seq i (length cs)) cs).

Lemma all_from_cons : forall nl i c cs,
  all_from nl i (c :: cs) = spec_cmd_lines c nl ++ all_from nl (S i) cs.
Proof. reflexivity. Qed.

Lemma cmds_sch : forall bsz cr, 6 <= bsz ->
  (forall c, In c (cmds D) -> ~ In 0%N (c_name c)) ->
  forall post c pre s t dc dg, cmds D = pre ++ c :: post ->
  JF bsz cr dc dg s (length pre) T_NONE true ->
  forallb (fits bsz) (all_from (nlc cr) (length pre) (c :: post)) = true ->
  forall fuel acc, 6 * length (c :: post) <= fuel ->
  exists s', list_run_sch D sch t fuel s acc
             = (acc ++ spec_list_sch D (nlc cr) sch t dc dg (length pre) (c :: post), s') /\
             EndState txt_OK s'.
Proof.
  intros bsz cr H6 Hnames.
  induction post as [|c2 post IH]; intros c pre s t dc dg Hc HJ Hfit fuel acc Hfuel;
    assert (Hn : nth_error (cmds D) (length pre) = Some c) by (rewrite Hc; apply nth_mid);
    assert (Hn0 : ~ In 0%N (c_name c))
      by (apply Hnames; rewrite Hc; apply in_or_app; right; left; reflexivity);
    rewrite all_from_cons, forallb_app in Hfit; apply andb_prop in Hfit; destruct Hfit as [Hf1 Hf2];
    pose proof (cmd_sch bsz cr dc dg s (length pre) c t HJ Hn Hn0 H6 Hf1) as RC;
    cbn [spec_list_sch]; cbv zeta;
    assert (Hb : block_calls c <= 6) by (unfold block_calls; destruct (c_only_test c); lia);
    cbn [length] in Hfuel.
  - assert (E : S (length pre) <? ncmds D = false).
    { apply Nat.ltb_ge. unfold ncmds. rewrite Hc, app_length. cbn [length]. lia. }
    destruct (cmd_disabled D (fst (sch t) dc) (snd (sch t) dg) (length pre)).
    + destruct RC as (s2 & HN & RC). unfold NextJ in HN. rewrite E in HN.
      replace fuel with (S (fuel - 1)) by lia. rewrite RC.
      exists s2. split; [|exact HN]. rewrite app_nil_r. apply list_run_sch_stop. apply HN.
    + destruct RC as (s2 & HN & RC). unfold NextJ in HN. rewrite E in HN.
      replace fuel with (block_calls c + (fuel - block_calls c)) by lia. rewrite RC.
      exists s2. split; [|exact HN]. rewrite app_nil_r. apply list_run_sch_stop. apply HN.
  - assert (E : S (length pre) <? ncmds D = true).
    { apply Nat.ltb_lt. unfold ncmds. rewrite Hc, app_length. cbn [length]. lia. }
    assert (Hc' : cmds D = (pre ++ [c]) ++ c2 :: post) by (rewrite Hc, <- app_assoc; reflexivity).
    assert (Hl : length (pre ++ [c]) = S (length pre)) by (rewrite app_length; cbn [length]; lia).
    specialize (IH c2 (pre ++ [c])). rewrite Hl in IH.
    destruct (cmd_disabled D (fst (sch t) dc) (snd (sch t) dg) (length pre)).
    + destruct RC as (s2 & HN & RC). unfold NextJ in HN. rewrite E in HN.
      replace fuel with (S (fuel - 1)) by lia. rewrite RC.
      destruct (IH s2 (S t) _ _ Hc' HN Hf2 (fuel - 1) acc ltac:(cbn [length]; lia)) as (s' & ER & HE).
      exists s'. split; [exact ER|exact HE].
    + destruct RC as (s2 & HN & RC). unfold NextJ in HN. rewrite E in HN.
      replace fuel with (block_calls c + (fuel - block_calls c)) by lia. rewrite RC.
      destruct (IH s2 (t + block_calls c) _ _ Hc' HN Hf2 (fuel - block_calls c)
                   (acc ++ spec_cmd_lines c (nlc cr)) ltac:(cbn [length]; lia)) as (s' & ER & HE).
      exists s'. split; [|exact HE]. rewrite ER, <- app_assoc. reflexivity.
Qed.
End Sched.

(* ================= the general theorem ================= *)
Theorem C19_list_flags_sched_proof : forall D s sch,
  fault s = false -> 6 <= length (cbuf s) ->
  (forall c, In c (cmds D) -> ~ In 0%N (c_name c)) ->
  forallb (fun l => length l <? length (cbuf s)) (spec_cmd_list D (fun _ => true) (nl_chars s)) = true ->
  forall fuel, 6 * ncmds D + 1 <= fuel ->
  let '(out, s') := list_run_sch D sch 0 fuel (start_print_cmd_list D s) [] in
  out = spec_list_sch D (nl_chars s) sch 0 (dis_cmd s) (dis_grp s) 0 (cmds D) /\
  fault s' = false /\ k_state (k s') = CS_FLUSH_WAIT /\ k_wafter (k s') = CS_AFTER_RESET /\
  text_of (cbuf s') = txt_OK.
Proof.
  intros D s sch Hf H6 Hnames Hfit fuel Hfuel.
  unfold spec_cmd_list in Hfit. unfold start_print_cmd_list, ncmds in *.
  destruct (cmds D) as [|c post] eqn:Ec.
  - cbn [length Nat.eqb]. rewrite list_run_sch_stop by reflexivity.
    destruct (ack_ok_end s Hf H6) as (A1 & A2 & A3 & A4).
    cbn [spec_list_sch]. repeat (split; [first [assumption|reflexivity]|]). assumption.
  - cbn [length Nat.eqb]. rewrite <- Ec in Hnames.
    destruct (cmds_sch D sch (length (cbuf s)) (k_cr (k s)) H6 Hnames post c []
                (s |> setk_index 0 |> setk_length 0 |> setk_type T_NONE |> setk_state CS_PRINT_CMD)
                0 (dis_cmd s) (dis_grp s) Ec) with (fuel := fuel) (acc := @nil (list N))
      as (s' & ER & A1 & A2 & A3 & A4).
    { unfold JF. repeat split; try reflexivity. exact Hf. }
    { exact Hfit. }
    { cbn [length] in *. lia. }
    rewrite ER. cbn [app length]. repeat (split; [first [assumption|reflexivity]|]). assumption.
Qed.

(* ================= corollaries on the specification ================= *)

(* one step of the recursion, uniform form: the block of command i takes n printer calls
   (1 if it is skipped), is printed iff the command is enabled under the flags in force after the change
   scheduled for its first call, and the next block starts n calls later *)
Lemma spec_list_sch_cons_proof : forall D nl sch t dc dg i c r,
  spec_list_sch D nl sch t dc dg i (c :: r) =
  let en := negb (cmd_disabled D (fst (sch t) dc) (snd (sch t) dg) i) in
  let n := if en then block_calls c else 1 in
  let f := sch_apply sch t n (dc, dg) in
  (if en then spec_cmd_lines c nl else []) ++ spec_list_sch D nl sch (t + n) (fst f) (snd f) (S i) r.
Proof.
  intros. cbn [spec_list_sch]. cbv zeta.
  destruct (cmd_disabled D (fst (sch t) dc) (snd (sch t) dg) i); cbn [negb].
  - cbn [sch_apply fst snd app]. rewrite Nat.add_1_r. reflexivity.
  - reflexivity.
Qed.

Lemma sch_apply_id : forall sch, (forall t, sch t = (fun x => x, fun x => x)) ->
  forall n t dc dg, sch_apply sch t n (dc, dg) = (dc, dg).
Proof.
  intros sch H. induction n as [|n IH]; intros t dc dg; [reflexivity|].
  cbn [sch_apply]. rewrite H. cbn [fst snd]. apply IH.
Qed.

Lemma spec_list_sch_id : forall D nl sch, (forall t, sch t = (fun x => x, fun x => x)) ->
  forall cs t dc dg i,
  spec_list_sch D nl sch t dc dg i cs
  = flat_map (fun ic : nat * cmd => if negb (cmd_disabled D dc dg (fst ic)) then spec_cmd_lines (snd ic) nl else [])
             (combine (seq i (length cs)) cs).
Proof.
  intros D nl sch H. induction cs as [|c r IH]; intros t dc dg i; [reflexivity|].
  cbn [spec_list_sch length seq combine flat_map fst snd]. cbv zeta.
  rewrite (sch_apply_id sch H), H. cbn [fst snd].
  destruct (cmd_disabled D dc dg i); cbn [negb app]; rewrite IH; reflexivity.
Qed.

(* no flag change during the listing: the whole list reflects the flags at the start *)
Theorem C19_list_flags_constant_proof : forall D s sch,
  (forall t, sch t = (fun x => x, fun x => x)) ->
  spec_list_sch D (nl_chars s) sch 0 (dis_cmd s) (dis_grp s) 0 (cmds D)
  = spec_cmd_list D (fun i => negb (is_command_disable D s i)) (nl_chars s).
Proof. intros D s sch H. rewrite (spec_list_sch_id D (nl_chars s) sch H). reflexivity. Qed.

(* each command's block is present iff the command was enabled in the state in which its block was begun *)
Lemma spec_list_sch_blocks : forall D nl sch dc0 dg0 cs t i,
  spec_list_sch D nl sch t (fst (sch_apply sch 0 t (dc0, dg0))) (snd (sch_apply sch 0 t (dc0, dg0))) i cs
  = concat (map (fun cb : cmd * (nat * bool) => if snd (snd cb) then spec_cmd_lines (fst cb) nl else [])
                (combine cs (block_times D sch dc0 dg0 t i cs))).
Proof.
  intros D nl sch dc0 dg0. induction cs as [|c r IH]; intros t i; [reflexivity|].
  rewrite spec_list_sch_cons_proof. cbv zeta. cbn [block_times combine map concat fst snd].
  unfold flags_at. replace (S t) with (t + 1) by lia. rewrite sch_apply_add. cbn [plus sch_apply].
  set (F := sch_apply sch 0 t (dc0, dg0)).
  set (en := negb (cmd_disabled D (fst (sch t) (fst F)) (snd (sch t) (snd F)) i)).
  set (n := if en then block_calls c else 1).
  f_equal. rewrite <- IH. rewrite sch_apply_add. cbn [plus]. rewrite <- (sch_apply_pair sch t n F).
  reflexivity.
Qed.

Theorem C19_list_flag_per_command_proof : forall D nl sch dc0 dg0 cs,
  spec_list_sch D nl sch 0 dc0 dg0 0 cs
  = concat (map (fun cb : cmd * (nat * bool) => if snd (snd cb) then spec_cmd_lines (fst cb) nl else [])
                (combine cs (block_times D sch dc0 dg0 0 0 cs))).
Proof. intros. exact (spec_list_sch_blocks D nl sch dc0 dg0 cs 0 0). Qed.

(* lines already printed stay: schedules that agree before time T give the same blocks up to and
   including every block begun before T *)
Lemma sch_apply_agree : forall sch1 sch2 T, (forall u, u < T -> sch1 u = sch2 u) ->
  forall n t f, t + n <= T -> sch_apply sch1 t n f = sch_apply sch2 t n f.
Proof.
  intros sch1 sch2 T H. induction n as [|n IH]; intros t f Ht; [reflexivity|].
  cbn [sch_apply]. rewrite (H t) by lia. apply IH. lia.
Qed.

Lemma block_times_ge : forall D sch dc0 dg0 cs t i j tj en,
  nth_error (block_times D sch dc0 dg0 t i cs) j = Some (tj, en) -> t <= tj.
Proof.
  intros D sch dc0 dg0. induction cs as [|c r IH]; intros t i j tj en H.
  - destruct j; discriminate H.
  - cbn [block_times] in H. destruct j as [|j]; cbn [nth_error] in H.
    + injection H as <- _. lia.
    + apply IH in H. lia.
Qed.

Lemma block_times_agree : forall D sch1 sch2 T dc0 dg0, (forall u, u < T -> sch1 u = sch2 u) ->
  forall cs t i j tj en,
  nth_error (block_times D sch1 dc0 dg0 t i cs) j = Some (tj, en) -> tj < T ->
  firstn (S j) (block_times D sch1 dc0 dg0 t i cs) = firstn (S j) (block_times D sch2 dc0 dg0 t i cs).
Proof.
  intros D sch1 sch2 T dc0 dg0 H. induction cs as [|c r IH]; intros t i j tj en Hn Htj; [reflexivity|].
  pose proof (block_times_ge _ _ _ _ _ _ _ _ _ _ Hn) as Hge.
  cbn [block_times] in Hn |- *. cbv zeta in Hn |- *.
  assert (E : flags_at sch1 dc0 dg0 t = flags_at sch2 dc0 dg0 t).
  { unfold flags_at. apply (sch_apply_agree sch1 sch2 T H). lia. }
  rewrite <- E. cbn [firstn]. f_equal.
  destruct j as [|j]; [reflexivity|]. cbn [nth_error] in Hn. exact (IH _ _ _ _ _ Hn Htj).
Qed.

Definition blocks_text (nl : list N) (cs : list cmd) (bt : list (nat * bool)) : list (list N) :=
  concat (map (fun cb : cmd * (nat * bool) => if snd (snd cb) then spec_cmd_lines (fst cb) nl else [])
              (combine cs bt)).

Lemma blocks_text_split : forall nl cs bt n,
  blocks_text nl cs bt = blocks_text nl (firstn n cs) (firstn n bt) ++ blocks_text nl (skipn n cs) (skipn n bt).
Proof.
  intros nl. induction cs as [|c r IH]; intros bt n.
  - destruct n; reflexivity.
  - destruct bt as [|b bt].
    + destruct n; [reflexivity|]. unfold blocks_text. cbn [firstn skipn combine map concat app].
      rewrite combine_nil. reflexivity.
    + destruct n as [|n]; [reflexivity|].
      unfold blocks_text in *. cbn [firstn skipn combine map concat]. rewrite <- app_assoc. f_equal. apply IH.
Qed.

Theorem C19_list_printed_lines_stay_proof : forall D nl sch1 sch2 T dc0 dg0 cs j tj en,
  (forall u, u < T -> sch1 u = sch2 u) ->
  nth_error (block_times D sch1 dc0 dg0 0 0 cs) j = Some (tj, en) -> tj < T ->
  firstn (S j) (block_times D sch1 dc0 dg0 0 0 cs) = firstn (S j) (block_times D sch2 dc0 dg0 0 0 cs) /\
  let pre := blocks_text nl (firstn (S j) cs) (firstn (S j) (block_times D sch1 dc0 dg0 0 0 cs)) in
  exists r1 r2, spec_list_sch D nl sch1 0 dc0 dg0 0 cs = pre ++ r1 /\
                spec_list_sch D nl sch2 0 dc0 dg0 0 cs = pre ++ r2.
Proof.
  intros D nl sch1 sch2 T dc0 dg0 cs j tj en H Hn Htj.
  pose proof (block_times_agree D sch1 sch2 T dc0 dg0 H cs 0 0 j tj en Hn Htj) as E.
  split; [exact E|]. cbv zeta.
  rewrite !C19_list_flag_per_command_proof. fold (blocks_text nl cs (block_times D sch1 dc0 dg0 0 0 cs)).
  fold (blocks_text nl cs (block_times D sch2 dc0 dg0 0 0 cs)).
  rewrite (blocks_text_split nl cs (block_times D sch1 dc0 dg0 0 0 cs) (S j)).
  rewrite (blocks_text_split nl cs (block_times D sch2 dc0 dg0 0 0 cs) (S j)).
  rewrite <- E. eexists. eexists. split; reflexivity.
Qed.

(* ================= C3: commutation at the level of print_cmd_list ================= *)

Lemma ps_flag : forall fc fg s ts,
  print_strings ATCMD (flag_op fc fg s) ts
  = (flag_op fc fg (fst (print_strings ATCMD s ts)), snd (print_strings ATCMD s ts)).
Proof.
  intros fc fg s ts. unfold print_strings.
  change (get_cur ATCMD (flag_op fc fg s)) with (get_cur ATCMD s).
  destruct (print_pieces (get_cur ATCMD s) ts) as [c ok]. cbn [fst snd].
  unfold put_cur. cbv zeta. destruct (cu_fault c); reflexivity.
Qed.

Lemma ps1_flag : forall fc fg s t,
  print_string ATCMD (flag_op fc fg s) t
  = (flag_op fc fg (fst (print_string ATCMD s t)), snd (print_string ATCMD s t)).
Proof.
  intros fc fg s t. unfold print_string.
  change (get_cur ATCMD (flag_op fc fg s)) with (get_cur ATCMD s).
  destruct (print_nstring (get_cur ATCMD s) t) as [c ok]. cbn [fst snd].
  unfold put_cur. cbv zeta. destruct (cu_fault c); reflexivity.
Qed.

Lemma pccfn_flag : forall fc fg s c sfx,
  print_current_cmd_full_name (flag_op fc fg s) c sfx
  = (flag_op fc fg (fst (print_current_cmd_full_name s c sfx)), snd (print_current_cmd_full_name s c sfx)).
Proof.
  intros fc fg s c sfx. unfold print_current_cmd_full_name.
  change (k_length (k (flag_op fc fg s))) with (k_length (k s)).
  destruct (k_length (k s) =? 0).
  - change (nl_chars (flag_op fc fg s)) with (nl_chars s). rewrite ps1_flag.
    destruct (print_string ATCMD s (nl_chars s)) as [s1 ok]. cbn [fst snd].
    destruct ok; cbn [negb]; [|reflexivity].
    change (setk_length 1 (flag_op fc fg s1)) with (flag_op fc fg (setk_length 1 s1)).
    change (nl_chars (flag_op fc fg (setk_length 1 s1))) with (nl_chars (setk_length 1 s1)).
    apply ps_flag.
  - cbn [negb]. change (nl_chars (flag_op fc fg s)) with (nl_chars s). apply ps_flag.
Qed.

Lemma ack_error_flag : forall fc fg s, ack_error (flag_op fc fg s) = flag_op fc fg (ack_error s).
Proof. intros fc fg []. reflexivity. Qed.
Lemma ack_ok_flag : forall fc fg s, ack_ok (flag_op fc fg s) = flag_op fc fg (ack_ok s).
Proof. intros fc fg []. reflexivity. Qed.

Lemma sfr_flag : forall fc fg s next,
  setk_type next (start_flush_raw_c CS_PRINT_CMD (flag_op fc fg s))
  = flag_op fc fg (setk_type next (start_flush_raw_c CS_PRINT_CMD s)).
Proof. intros fc fg [[]] next. vm_compute. reflexivity. Qed.

Lemma pcf_flag : forall fc fg s c av sfx next,
  print_cmd_form (flag_op fc fg s) c av sfx next = flag_op fc fg (print_cmd_form s c av sfx next).
Proof.
  intros fc fg s c av sfx next. unfold print_cmd_form. destruct av; [|reflexivity]. cbv zeta.
  change (setk_position 0 (flag_op fc fg s)) with (flag_op fc fg (setk_position 0 s)).
  rewrite pccfn_flag.
  destruct (print_current_cmd_full_name (setk_position 0 s) c sfx) as [s2 ok]. cbn [fst snd].
  destruct ok; cbn [negb]; [apply sfr_flag|apply ack_error_flag].
Qed.

Lemma next_flag : forall D fc fg s,
  (let (s1, more) := cmd_list_next_cmd D (flag_op fc fg s) in if more then s1 else ack_ok s1)
  = flag_op fc fg (let (s1, more) := cmd_list_next_cmd D s in if more then s1 else ack_ok s1).
Proof.
  intros D fc fg s. unfold cmd_list_next_cmd. cbv zeta.
  change (k_index (k (flag_op fc fg s))) with (k_index (k s)).
  destruct (ncmds D <=? S (k_index (k s))); [|reflexivity].
  change (setk_index (S (k_index (k s))) (flag_op fc fg s))
    with (flag_op fc fg (setk_index (S (k_index (k s))) s)).
  apply ack_ok_flag.
Qed.

Theorem pcl_ignores_flags_proof : forall D fc fg s, k_type (k s) <> T_NONE ->
  print_cmd_list D (flag_op fc fg s) = flag_op fc fg (print_cmd_list D s).
Proof.
  intros D fc fg s Hty. unfold print_cmd_list. cbv zeta.
  change (k_index (k (flag_op fc fg s))) with (k_index (k s)).
  destruct (cmd_by_index (d_groups D) (k_index (k s))) as [c|]; [|reflexivity].
  change (k_type (k (setk_cmd (Some (k_index (k s))) (flag_op fc fg s)))) with (k_type (k s)).
  change (k_type (k (setk_cmd (Some (k_index (k s))) s))) with (k_type (k s)).
  change (setk_cmd (Some (k_index (k s))) (flag_op fc fg s))
    with (flag_op fc fg (setk_cmd (Some (k_index (k s))) s)).
  destruct (k_type (k s)); try apply pcf_flag.
  - contradiction Hty; reflexivity.
  - apply next_flag.
Qed.

Theorem pcl_none_samples_proof : forall D s i c, k_type (k s) = T_NONE -> k_index (k s) = i ->
  nth_error (cmds D) i = Some c ->
  print_cmd_list D s =
  if is_command_disable D s i
  then (let (s1, more) := cmd_list_next_cmd D (setk_cmd (Some i) s) in if more then s1 else ack_ok s1)
  else setk_type (if c_only_test c then T_TEST else T_RUN) (setk_cmd (Some i) s).
Proof.
  intros D s i c Hty Hi Hn. unfold print_cmd_list. rewrite Hi, cmd_by_index_concat.
  change (concat (d_groups D)) with (cmds D). rewrite Hn. cbv zeta.
  change (k_type (k (setk_cmd (Some i) s))) with (k_type (k s)). rewrite Hty. reflexivity.
Qed.
End C.
