(* Lemmas_C07e.v — property C07 at command level: the automatic READ response of a command
   whose variables are all read-write is  name=text1,text2,...  (or ERROR when that does not fit),
   and the automatic WRITE of that very argument text restores every variable.
   Per-variable round trip: Lemmas_C07.  Cursor/text lemmas: Lemmas_C19. *)
From Coq Require Import List NArith ZArith Bool Arith Lia.
From CatV Require Import Bytes Defs Codec Spec Fsm ResolveDefs TextDefs Lemmas_C07 Lemmas_C19.
Import ListNotations.
Local Open Scope nat_scope.

(* ================= 0. definitions used in the statements ================= *)

(* well-formed storage for a variable: read-write, no callbacks, its slot holds exactly v_size
   bytes (< 256), strings NUL-terminated inside their storage, hex buffers non-empty, numeric
   widths supported *)
Definition rt_var_ok (m : list (list N)) (v : var) : Prop :=
  v_access v = RW /\ v_hread v = false /\ v_hwrite v = false /\
  exists data, nth_error m (v_slot v) = Some data /\ length data = v_size v /\
    Forall (fun b => (b < 256)%N) data /\
    (v_type v = VBufStr -> In 0%N data) /\ (v_type v = VBufHex -> 0 < v_size v) /\
    (is_numeric (v_type v) = true -> supported_width (v_size v) = true).

Definition rt_cmd_ok (m : list (list N)) (c : cmd) : Prop :=
  c_vars c <> [] /\ Forall (rt_var_ok m) (c_vars c) /\ NoDup (map v_slot (c_vars c)) /\
  c_hread c = false /\ c_hwrite c = false /\ c_only_test c = false /\ ~ In 0%N (c_name c).

(* the argument text of the READ response *)
Definition read_args_text (m : list (list N)) (c : cmd) : option (list N) :=
  match all_some (map (fun v => match nth_error m (v_slot v) with
                                | Some d => var_text v d | None => None end) (c_vars c)) with
  | Some ts => Some (join_comma ts) | None => None end.

(* two memories with the same number of slots and the same slot sizes *)
Definition same_shape (m m' : list (list N)) : Prop := map (@length N) m = map (@length N) m'.

Section Runs.
Variable D : desc.
Variables ioS muS hS : Type.
Variable mu_lock : muS -> muS * bool.
Variable mu_unlock : muS -> muS * bool.
Variable h_call : hS -> hreq -> hS * hres.
Local Notation world := (Fsm.world ioS muS hS).
Local Notation st := (Fsm.st ioS muS hS).
Local Notation upd_st := (Fsm.upd_st ioS muS hS).

(* the READ formatting loop: cat_service calls spent in CS_FORMAT_READ_ARGS (one variable per call)
   until the state changes; the whole automatic part of the '?' response starts with the call that
   runs start_processing_format_read_args (command_found / CS_AFTER_FMT_READ) *)
Definition fra_step (w : world) : world :=
  fst (format_read_args D ioS muS hS mu_lock mu_unlock h_call ATCMD w).
Fixpoint fra_run (fuel : nat) (w : world) : world :=
  match fuel with
  | O => w
  | S n => if cstate_beq (k_state (k (st w))) CS_FORMAT_READ_ARGS then fra_run n (fra_step w) else w
  end.
Definition read_response (c : cmd) (w : world) : world :=
  fra_run (length (c_vars c)) (upd_st (start_processing_format_read_args D ATCMD) w).

(* the WRITE parsing loop: cat_service calls spent in CS_PARSE_WRITE_ARGS (one variable per call) *)
Definition pwa_step (w : world) : world :=
  fst (parse_write_args D ioS muS hS mu_lock mu_unlock h_call w).
Fixpoint pwa_run (fuel : nat) (w : world) : world :=
  match fuel with
  | O => w
  | S n => if cstate_beq (k_state (k (st w))) CS_PARSE_WRITE_ARGS then pwa_run n (pwa_step w) else w
  end.
Definition write_back (c : cmd) (w : world) : world := pwa_run (length (c_vars c)) w.
End Runs.

(* ================= 1. the numeric printer on the cursor ================= *)

Lemma pnum_ok : forall t rest fl str, length str < length rest ->
  exists rest',
    print_num (mkCur (t ++ rest) (length t) fl) str
    = (mkCur ((t ++ str) ++ 0%N :: rest') (length (t ++ str)) fl, true)
    /\ length str + S (length rest') = length rest.
Proof.
  intros t rest fl str H.
  destruct (split_at _ rest (length str) H) as [a [y [b [E Ha]]]].
  exists b. split.
  - unfold print_num. cbn [cu_buf cu_pos].
    replace (length (t ++ rest) <? length t) with false.
    2:{ symmetry. apply Nat.ltb_ge. rewrite app_length. lia. }
    replace (length (t ++ rest) - length t) with (length rest) by (rewrite app_length; lia).
    replace (length rest =? 0) with false by (symmetry; apply Nat.eqb_neq; lia).
    replace (length rest <=? length str) with false by (symmetry; apply Nat.leb_gt; lia).
    rewrite firstn_all2 by lia.
    subst rest.
    replace (t ++ a ++ y :: b) with (t ++ (a ++ [y]) ++ b) by (rewrite <- app_assoc; reflexivity).
    rewrite (csl_ok (str ++ [0%N]) t (a ++ [y]) b) by (rewrite !app_length; cbn [length]; lia).
    unfold cur_set_pos. cbn [cu_buf cu_pos cu_fault].
    rewrite app_length. f_equal. f_equal. rewrite <- !app_assoc. reflexivity.
  - subst rest. rewrite app_length. cbn [length]. lia.
Qed.

Lemma pnum_fail : forall t rest fl str, length rest <= length str ->
  exists b pos,
    print_num (mkCur (t ++ rest) (length t) fl) str = (mkCur b pos fl, false)
    /\ length b = length (t ++ rest).
Proof.
  intros t rest fl str H. unfold print_num. cbn [cu_buf cu_pos].
  replace (length (t ++ rest) <? length t) with false.
  2:{ symmetry. apply Nat.ltb_ge. rewrite app_length. lia. }
  replace (length (t ++ rest) - length t) with (length rest) by (rewrite app_length; lia).
  replace (length rest <=? length str) with true by (symmetry; apply Nat.leb_le; lia).
  destruct (Nat.eqb_spec (length rest) 0) as [E|E].
  - exists (t ++ rest), (length t). split; reflexivity.
  - pose proof (csl_ok (firstn (length rest - 1) str ++ [0%N]) t rest [] (length t) fl) as Hc.
    rewrite app_nil_r in Hc. rewrite Hc.
    2:{ rewrite app_length, firstn_length. cbn [length]. lia. }
    eexists. eexists. split; [reflexivity|].
    rewrite !app_length, firstn_length. cbn [length]. lia.
Qed.

Lemma print_nums_cons : forall c p r,
  print_nums c (p :: r)
  = let (c1, ok) := print_num c p in if ok then print_nums c1 r else (c1, false).
Proof. reflexivity. Qed.

Lemma pnums_ok : forall ps p t rest fl, length (concat (p :: ps)) < length rest ->
  exists rest',
    print_nums (mkCur (t ++ rest) (length t) fl) (p :: ps)
    = (mkCur ((t ++ concat (p :: ps)) ++ 0%N :: rest') (length (t ++ concat (p :: ps))) fl, true)
    /\ length (concat (p :: ps)) + S (length rest') = length rest.
Proof.
  induction ps as [|q ps IH]; intros p t rest fl H.
  - cbn [concat] in *. rewrite app_nil_r in *.
    destruct (pnum_ok t rest fl p H) as [r' [E L]].
    exists r'. rewrite print_nums_cons, E. split; [reflexivity|exact L].
  - cbn [concat] in H. rewrite app_length in H.
    destruct (pnum_ok t rest fl p) as [r' [E L]]; [lia|].
    rewrite print_nums_cons, E.
    destruct (IH q (t ++ p) (0%N :: r') fl) as [r'' [E2 L2]].
    { cbn [length]. cbn [concat]. lia. }
    exists r''. rewrite E2. split.
    + cbn [concat]. rewrite <- !app_assoc. reflexivity.
    + cbn [concat length] in *. rewrite app_length. lia.
Qed.

Lemma pnums_fail : forall ps p t rest fl, length rest <= length (concat (p :: ps)) ->
  exists b pos,
    print_nums (mkCur (t ++ rest) (length t) fl) (p :: ps) = (mkCur b pos fl, false)
    /\ length b = length (t ++ rest).
Proof.
  induction ps as [|q ps IH]; intros p t rest fl H.
  - cbn [concat] in H. rewrite app_nil_r in H.
    rewrite print_nums_cons.
    destruct (pnum_fail t rest fl p H) as [b [pos [E L]]]. rewrite E.
    exists b, pos. split; [reflexivity|exact L].
  - rewrite print_nums_cons.
    destruct (Nat.lt_ge_cases (length p) (length rest)) as [Hlt|Hge].
    + destruct (pnum_ok t rest fl p Hlt) as [r' [E L]]. rewrite E.
      destruct (IH q (t ++ p) (0%N :: r') fl) as [b [pos [E2 L2]]].
      { cbn [concat length] in *. rewrite app_length in H. lia. }
      rewrite E2. exists b, pos. split; [reflexivity|].
      rewrite L2. rewrite !app_length. cbn [length]. lia.
    + destruct (pnum_fail t rest fl p Hge) as [b [pos [E L]]]. rewrite E.
      exists b, pos. split; [reflexivity|exact L].
Qed.

(* ================= 2. fmt_var appends exactly var_text, or fails ================= *)

Lemma fmt_var_cases : forall v data txt,
  var_text v data = Some txt -> length data = v_size v -> (v_type v = VBufHex -> 0 < v_size v) ->
  (forall c, fmt_var v data c = print_num c txt) \/
  (exists p ps, concat (p :: ps) = txt /\ forall c, fmt_var v data c = print_nums c (p :: ps)) \/
  (exists p ps, concat (p :: ps) = txt /\ forall c, fmt_var v data c = print_pieces c (p :: ps)).
Proof.
  intros v data txt Ht Hl Hhex.
  assert (Erf : read_fault (v_size v) data = false).
  { unfold read_fault. replace (length data <? v_size v) with false
      by (symmetry; apply Nat.ltb_ge; lia). apply andb_false_r. }
  assert (Elt : (length data <? v_size v) = false) by (apply Nat.ltb_ge; lia).
  unfold var_text, fmt_num_text in Ht. unfold fmt_var.
  destruct (v_type v) eqn:Ety.
  - left. intro c. rewrite Ht, Erf. reflexivity.
  - left. intro c. rewrite Ht, Erf. reflexivity.
  - left. intro c. rewrite Ht, Erf. reflexivity.
  - right. left. injection Ht as <-. rewrite Elt.
    specialize (Hhex eq_refl). unfold fmt_bufhex_pieces.
    destruct data as [|x data]; [cbn [length] in Hl; lia|].
    destruct (v_size v) as [|n]; [lia|]. cbn [firstn map].
    eexists. eexists. split; [reflexivity|]. intro c. reflexivity.
  - right. right. injection Ht as <-. rewrite Elt.
    unfold fmt_bufstr_pieces.
    exists [ch_QUOTE].
    exists (str_body_pieces match v_access v with WO => [] | _ => firstn (v_size v) data end
            ++ [[ch_QUOTE]]).
    split; [reflexivity|]. intro c. reflexivity.
Qed.

Lemma fmt_var_ok : forall v data txt t rest,
  var_text v data = Some txt -> length data = v_size v -> (v_type v = VBufHex -> 0 < v_size v) ->
  length txt < length rest ->
  exists rest',
    fmt_var v data (mkCur (t ++ rest) (length t) false)
    = (mkCur ((t ++ txt) ++ 0%N :: rest') (length (t ++ txt)) false, true)
    /\ length txt + S (length rest') = length rest.
Proof.
  intros v data txt t rest Ht Hl Hhex Hfit.
  destruct (fmt_var_cases v data txt Ht Hl Hhex) as [E|[(p & ps & <- & E)|(p & ps & <- & E)]];
    rewrite E.
  - apply pnum_ok. exact Hfit.
  - apply pnums_ok. exact Hfit.
  - apply pp_ok. exact Hfit.
Qed.

Lemma fmt_var_fail : forall v data txt t rest,
  var_text v data = Some txt -> length data = v_size v -> (v_type v = VBufHex -> 0 < v_size v) ->
  length rest <= length txt ->
  exists b pos,
    fmt_var v data (mkCur (t ++ rest) (length t) false) = (mkCur b pos false, false)
    /\ length b = length (t ++ rest).
Proof.
  intros v data txt t rest Ht Hl Hhex Hfit.
  destruct (fmt_var_cases v data txt Ht Hl Hhex) as [E|[(p & ps & <- & E)|(p & ps & <- & E)]];
    rewrite E.
  - apply pnum_fail. exact Hfit.
  - apply pnums_fail. exact Hfit.
  - apply pp_fail. exact Hfit.
Qed.

(* ================= 3. READ: the formatting loop at the level of the object state ================= *)

Lemma set_st_set_st : forall (ioS muS hS : Type) (a b : state) (w : world ioS muS hS),
  set_st ioS muS hS a (set_st ioS muS hS b w) = set_st ioS muS hS a w.
Proof. reflexivity. Qed.

Lemma join_comma_cons2 : forall (x y : list N) r,
  join_comma (x :: y :: r) = x ++ ch_COMMA :: join_comma (y :: r).
Proof. reflexivity. Qed.

Lemma join_comma_one : forall x : list N, join_comma [x] = x.
Proof. intro x. cbn [join_comma map concat]. apply app_nil_r. Qed.

Section C07e.
Variable D : desc.

Definition slot_text (m : list (list N)) (v : var) : option (list N) :=
  match nth_error m (v_slot v) with Some d => var_text v d | None => None end.

(* what format_read_args does to the object state for a variable without read callback *)
Definition fra_rest (c : cmd) (s1 : state) : state :=
  let (s2, handled) := next_format_var D ATCMD s1 in
  if handled then s2
  else if c_hread c then set_loop_state ATCMD true s2
  else start_flush_after_ok ATCMD s2.

Definition fra_state (c : cmd) (v : var) (s : state) : state :=
  match nth_error (mem s) (v_slot v) with
  | None => set_fault_flag s
  | Some data =>
    let (c1, ok) := fmt_var v data (get_cur ATCMD s) in
    let s1 := put_cur ATCMD c1 s in
    if negb ok then end_with_error ATCMD s1 else fra_rest c s1
  end.

Definition RInv (c : cmd) (m : list (list N)) (s : state) (i : nat) (t rest nl : list N)
           (bsz : nat) : Prop :=
  BInv D ATCMD c s t rest nl bsz /\ k_var (k s) = i /\ k_index (k s) = i /\
  k_state (k s) = CS_FORMAT_READ_ARGS /\ mem s = m.

Definition RDone (m : list (list N)) (s : state) (txt : list N) (bsz : nat) : Prop :=
  fault s = false /\ (exists r, cbuf s = txt ++ 0%N :: r) /\ length (cbuf s) = bsz /\
  k_state (k s) = CS_FLUSH_WAIT /\ k_wafter (k s) = CS_AFTER_OK /\ mem s = m.

Definition RFail (m : list (list N)) (bsz : nat) (s : state) : Prop :=
  fault s = false /\ k_state (k s) = CS_FLUSH_WAIT /\ k_wafter (k s) = CS_AFTER_RESET /\
  (6 <= bsz -> text_of (cbuf s) = txt_ERROR) /\ mem s = m.

Lemma rfail_state : forall m s b pos, fault s = false -> mem s = m ->
  length b = length (cbuf s) ->
  RFail m (length (cbuf s)) (end_with_error ATCMD (setg_pos ATCMD pos (setg_buf ATCMD b s))).
Proof.
  intros m s b pos Hf Hm Hb.
  unfold RFail, end_with_error. cbn [setg_pos setg_buf].
  repeat split; try reflexivity; try assumption.
  intro H6.
  destruct (ack_error_props (setk_position pos (set_cbuf b s))) as (A1 & A2 & A3 & A4).
  { cbn. lia. }
  exact A4.
Qed.

Lemma put_cur_nofault : forall b p s,
  put_cur ATCMD (mkCur b p false) s = setg_pos ATCMD p (setg_buf ATCMD b s).
Proof. reflexivity. Qed.

Lemma fra_print_ok : forall c m s i t rest nl bsz v data txt,
  RInv c m s i t rest nl bsz -> nth_error m (v_slot v) = Some data ->
  var_text v data = Some txt -> length data = v_size v -> (v_type v = VBufHex -> 0 < v_size v) ->
  length txt < length rest ->
  exists s1 r', RInv c m s1 i (t ++ txt) (0%N :: r') nl bsz /\
                length txt + S (length r') = length rest /\
                fra_state c v s = fra_rest c s1.
Proof.
  intros c m s i t rest nl bsz v data txt (HB & Hv & Hi & Hst & Hm) Hd Ht Hl Hhex Hfit.
  pose proof HB as (H1 & H2 & H3 & H4 & H5 & H6).
  unfold fra_state. rewrite Hm, Hd. unfold get_cur. rewrite H3, H4.
  destruct (fmt_var_ok v data txt t rest Ht Hl Hhex Hfit) as [r' [E L]]. rewrite E.
  cbn [negb]. rewrite put_cur_nofault.
  eexists. exists r'. split; [|split; [exact L|reflexivity]].
  unfold RInv. split; [apply (BInv_set D ATCMD c s t rest); [exact HB|]|].
  - rewrite app_length. cbn [length]. lia.
  - cbn. auto.
Qed.

Lemma fra_print_fail : forall c m s i t rest nl bsz v data txt,
  RInv c m s i t rest nl bsz -> nth_error m (v_slot v) = Some data ->
  var_text v data = Some txt -> length data = v_size v -> (v_type v = VBufHex -> 0 < v_size v) ->
  length rest <= length txt ->
  RFail m bsz (fra_state c v s).
Proof.
  intros c m s i t rest nl bsz v data txt (HB & Hv & Hi & Hst & Hm) Hd Ht Hl Hhex Hfit.
  pose proof HB as (H1 & H2 & H3 & H4 & H5 & H6).
  unfold fra_state. rewrite Hm, Hd. unfold get_cur. rewrite H3, H4.
  destruct (fmt_var_fail v data txt t rest Ht Hl Hhex Hfit) as [b [pos [E L]]]. rewrite E.
  cbn [negb]. rewrite put_cur_nofault.
  cbn [g_buf] in H3.
  replace bsz with (length (cbuf s)) by (rewrite H3, app_length; exact H6).
  apply rfail_state; try assumption. rewrite H3. exact L.
Qed.

Lemma fra_more : forall c m s i t rest nl bsz v data txt,
  RInv c m s i t rest nl bsz -> nth_error m (v_slot v) = Some data ->
  var_text v data = Some txt -> length data = v_size v -> (v_type v = VBufHex -> 0 < v_size v) ->
  length txt < length rest -> S i < length (c_vars c) ->
  exists r', RInv c m (fra_state c v s) (S i) (t ++ txt ++ [ch_COMMA]) r' nl bsz /\
             length txt + S (length r') = length rest.
Proof.
  intros c m s i t rest nl bsz v data txt HR Hd Ht Hl Hhex Hfit Hi.
  destruct (fra_print_ok c m s i t rest nl bsz v data txt HR Hd Ht Hl Hhex Hfit)
    as (s1 & r' & HR1 & L & E).
  rewrite E. unfold fra_rest. destruct HR1 as (HB1 & Hv1 & Hi1 & Hst1 & Hm1).
  destruct (nfv_more D ATCMD c s1 (t ++ txt) r' nl bsz HB1) as (s2 & E2 & HB2 & Hv2 & Hi2 & _).
  { cbn [g_index]. rewrite Hi1. exact Hi. }
  exists r'. split; [|exact L].
  assert (Hs2 : k_state (k s2) = CS_FORMAT_READ_ARGS /\ mem s2 = m).
  { unfold next_format_var in E2. destruct HB1 as (_ & H2 & H3 & H4 & _). rewrite H2 in E2.
    destruct (S (g_index ATCMD s1) <? length (c_vars c)); [|discriminate].
    match type of E2 with (if ?b then _ else _) = _ => destruct b eqn:Eb end.
    - exfalso. apply Nat.leb_le in Eb. unfold g_bsz in Eb. cbn in Eb, H3, H4.
      rewrite H3, H4, !app_length in Eb. cbn [length] in Eb. lia.
    - injection E2 as <-. cbn. auto. }
  rewrite E2. cbn [g_var g_index] in Hv2, Hi2.
  unfold RInv. rewrite Hv2, Hi2, Hi1, app_assoc. destruct Hs2. auto.
Qed.

Lemma fra_last_ok : forall c m s i t rest nl bsz v data txt,
  RInv c m s i t rest nl bsz -> nth_error m (v_slot v) = Some data ->
  var_text v data = Some txt -> length data = v_size v -> (v_type v = VBufHex -> 0 < v_size v) ->
  length txt < length rest -> length (c_vars c) <= S i -> c_hread c = false ->
  RDone m (fra_state c v s) (t ++ txt) bsz.
Proof.
  intros c m s i t rest nl bsz v data txt HR Hd Ht Hl Hhex Hfit Hi Hrd.
  destruct (fra_print_ok c m s i t rest nl bsz v data txt HR Hd Ht Hl Hhex Hfit)
    as (s1 & r' & HR1 & L & E).
  rewrite E. unfold fra_rest. destruct HR1 as (HB1 & Hv1 & Hi1 & Hst1 & Hm1).
  pose proof HB1 as (H1 & H2 & H3 & H4 & H5 & H6).
  rewrite (nfv_last D ATCMD c s1 H2) by (cbn [g_index]; rewrite Hi1; exact Hi).
  rewrite Hrd. cbn [g_buf] in H3. unfold RDone. cbn.
  rewrite H3. repeat split; try assumption.
  - exists r'. reflexivity.
  - rewrite !app_length in *. cbn [length] in *. lia.
Qed.

(* ---- the start: "name=" ---- *)
Lemma vap_rw : forall c v vs a, c_vars c = v :: vs -> v_access v = RW -> vars_access_possible c a = true.
Proof. intros c v vs a Hc Hv. unfold vars_access_possible. rewrite Hc. cbn [existsb]. rewrite Hv. reflexivity. Qed.

Lemma read_start_ok : forall s ci c v vs,
  g_cmd ATCMD s = Some ci -> nth_error (pool D) ci = Some c -> fault s = false ->
  c_vars c = v :: vs -> v_access v = RW ->
  length (c_name c) + 1 < length (cbuf s) ->
  exists r, RInv c (mem s) (start_processing_format_read_args D ATCMD s) 0
                 (c_name c ++ [ch_EQ]) (0%N :: r) (nl_chars s) (length (cbuf s)) /\
            length (c_name c) + 1 + S (length r) = length (cbuf s).
Proof.
  intros s ci c v vs Hg Hc Hf Hvs Hrw Hl.
  pose proof (BInv_start D ATCMD s ci c Hg Hc Hf) as HB0.
  unfold start_processing_format_read_args. cbv zeta.
  set (s0 := setg_pos ATCMD 0 s) in *. set (nl := nl_chars s) in *.
  cbn [g_buf] in HB0. set (bsz := length (cbuf s)) in *.
  pose proof HB0 as (_ & H2 & H3 & H4 & _). rewrite H2.
  rewrite print_string_as_strings.
  destruct (ps_ok ATCMD s0 [] (cbuf s) (c_name c) [] H3 H4) as [r1 [E1 L1]].
  { cbn [concat]. rewrite app_nil_r. lia. }
  rewrite E1. cbn [negb]. cbn [concat app] in E1, L1 |- *. rewrite app_nil_r in *.
  assert (HB1 : BInv D ATCMD c (setg_pos ATCMD (length (c_name c))
                                  (setg_buf ATCMD (c_name c ++ 0%N :: r1) s0))
                     (c_name c) (0%N :: r1) nl bsz).
  { apply (BInv_set D ATCMD c s0 [] (cbuf s)); [exact HB0|]. cbn [length] in *. lia. }
  set (s1 := setg_pos ATCMD (length (c_name c)) (setg_buf ATCMD (c_name c ++ 0%N :: r1) s0)) in *.
  pose proof HB1 as (_ & H2' & H3' & H4' & _).
  rewrite print_string_as_strings.
  destruct (ps_ok ATCMD s1 (c_name c) (0%N :: r1) [ch_EQ] [] H3' H4') as [r2 [E2 L2]].
  { cbn [concat app length] in *. lia. }
  rewrite E2. cbn [negb]. cbn [concat app] in E2, L2 |- *.
  assert (HB2 : BInv D ATCMD c (setg_pos ATCMD (length (c_name c ++ [ch_EQ]))
                            (setg_buf ATCMD ((c_name c ++ [ch_EQ]) ++ 0%N :: r2) s1))
                     (c_name c ++ [ch_EQ]) (0%N :: r2) nl bsz).
  { apply (BInv_set D ATCMD c s1 (c_name c) (0%N :: r1)); [exact HB1|].
    rewrite app_length. cbn [length] in *. lia. }
  rewrite (vap_rw c v vs RO Hvs Hrw).
  exists r2. split; [|cbn [length] in *; lia].
  unfold RInv. split; [|cbn; auto].
  destruct HB2 as (B1 & B2 & B3 & B4 & B5 & B6).
  unfold BInv. repeat split; assumption.
Qed.

Lemma read_start_fail : forall s ci c,
  g_cmd ATCMD s = Some ci -> nth_error (pool D) ci = Some c -> fault s = false ->
  length (cbuf s) <= length (c_name c) + 1 ->
  RFail (mem s) (length (cbuf s)) (start_processing_format_read_args D ATCMD s).
Proof.
  intros s ci c Hg Hc Hf Hl.
  pose proof (BInv_start D ATCMD s ci c Hg Hc Hf) as HB0.
  unfold start_processing_format_read_args. cbv zeta.
  set (s0 := setg_pos ATCMD 0 s) in *. set (nl := nl_chars s) in *.
  cbn [g_buf] in HB0. set (bsz := length (cbuf s)) in *.
  pose proof HB0 as (Hf0 & H2 & H3 & H4 & _). rewrite H2.
  rewrite print_string_as_strings.
  destruct (Nat.lt_ge_cases (length (c_name c)) bsz) as [Hlt|Hge].
  2:{ destruct (ps_fail ATCMD s0 [] (cbuf s) (c_name c) [] H3 H4) as [b [pos [E L]]].
      { cbn [concat]. rewrite app_nil_r. exact Hge. }
      rewrite E. cbn [negb].
      change bsz with (length (cbuf s0)). apply rfail_state; try assumption; reflexivity. }
  destruct (ps_ok ATCMD s0 [] (cbuf s) (c_name c) [] H3 H4) as [r1 [E1 L1]].
  { cbn [concat]. rewrite app_nil_r. exact Hlt. }
  rewrite E1. cbn [negb]. cbn [concat app] in E1, L1 |- *. rewrite app_nil_r in *.
  assert (HB1 : BInv D ATCMD c (setg_pos ATCMD (length (c_name c))
                                  (setg_buf ATCMD (c_name c ++ 0%N :: r1) s0))
                     (c_name c) (0%N :: r1) nl bsz).
  { apply (BInv_set D ATCMD c s0 [] (cbuf s)); [exact HB0|]. cbn [length] in *. lia. }
  set (s1 := setg_pos ATCMD (length (c_name c)) (setg_buf ATCMD (c_name c ++ 0%N :: r1) s0)) in *.
  pose proof HB1 as (Hf1 & H2' & H3' & H4' & _).
  rewrite print_string_as_strings.
  destruct (ps_fail ATCMD s1 (c_name c) (0%N :: r1) [ch_EQ] [] H3' H4') as [b [pos [E L]]].
  { cbn [concat app length] in *. lia. }
  rewrite E. cbn [negb].
  assert (Hlen1 : length (cbuf s1) = bsz).
  { cbn [g_buf] in H3'. rewrite H3', app_length. cbn [length] in *. lia. }
  rewrite <- Hlen1. apply rfail_state; try assumption; reflexivity.
Qed.

(* ---- the loop, on worlds with arbitrary oracles ---- *)
Variables ioS muS hS : Type.
Variable mu_lock : muS -> muS * bool.
Variable mu_unlock : muS -> muS * bool.
Variable h_call : hS -> hreq -> hS * hres.
Local Notation world := (Fsm.world ioS muS hS).
Local Notation st := (Fsm.st ioS muS hS).
Local Notation tr := (Fsm.tr ioS muS hS).
Local Notation hs := (Fsm.hs ioS muS hS).
Local Notation set_st := (Fsm.set_st ioS muS hS).
Local Notation upd_st := (Fsm.upd_st ioS muS hS).
Local Notation fra_step := (fra_step D ioS muS hS mu_lock mu_unlock h_call).
Local Notation fra_run := (fra_run D ioS muS hS mu_lock mu_unlock h_call).
Local Notation read_response := (read_response D ioS muS hS mu_lock mu_unlock h_call).

Lemma fra_step_eq : forall (w : world) c v,
  cmd_of D ATCMD (st w) = Some c -> nth_error (c_vars c) (k_var (k (st w))) = Some v ->
  v_hread v = false ->
  fra_step w = set_st (fra_state c v (st w)) w.
Proof.
  intros w c v Hc Hn Hr. unfold Lemmas_C07e.fra_step, format_read_args.
  unfold cmd_of in Hc |- *. destruct (g_cmd ATCMD (st w)) as [ci|] eqn:Eg; [|discriminate].
  rewrite Hc. cbn [g_var]. rewrite Hn, Hr. reflexivity.
Qed.

Lemma fra_run_S : forall n (w : world),
  fra_run (S n) w
  = if cstate_beq (k_state (k (st w))) CS_FORMAT_READ_ARGS then fra_run n (fra_step w) else w.
Proof. reflexivity. Qed.

Lemma fra_run_stop : forall n (w : world), k_state (k (st w)) = CS_FLUSH_WAIT -> fra_run n w = w.
Proof. intros [|n] w H; [reflexivity|]. rewrite fra_run_S, H. reflexivity. Qed.

Lemma all_some_cons_st : forall m v vs txts,
  all_some (map (slot_text m) (v :: vs)) = Some txts ->
  exists txt txts', txts = txt :: txts' /\ slot_text m v = Some txt /\
                    all_some (map (slot_text m) vs) = Some txts'.
Proof.
  intros m v vs txts H. cbn [map all_some] in H.
  destruct (slot_text m v) as [txt|]; [|discriminate].
  destruct (all_some (map (slot_text m) vs)) as [txts'|]; [|discriminate].
  exists txt, txts'. repeat split; congruence.
Qed.

Lemma var_facts : forall m v txt, rt_var_ok m v -> slot_text m v = Some txt ->
  exists data, nth_error m (v_slot v) = Some data /\ var_text v data = Some txt /\
               length data = v_size v /\ (v_type v = VBufHex -> 0 < v_size v) /\
               Forall (fun b => (b < 256)%N) data /\ (v_type v = VBufStr -> In 0%N data).
Proof.
  intros m v txt (_ & _ & _ & data & Hd & Hl & Hb & Hs & Hh & _) Ht.
  unfold slot_text in Ht. rewrite Hd in Ht. exists data. auto 10.
Qed.

Lemma rloop_ok : forall c m nl bsz, c_hread c = false ->
  forall vs v pre (w : world) t rest txts,
  c_vars c = pre ++ v :: vs -> Forall (rt_var_ok m) (v :: vs) ->
  RInv c m (st w) (length pre) t rest nl bsz ->
  all_some (map (slot_text m) (v :: vs)) = Some txts ->
  length (join_comma txts) < length rest ->
  exists s', fra_run (length (v :: vs)) w = set_st s' w /\ RDone m s' (t ++ join_comma txts) bsz.
Proof.
  intros c m nl bsz Hrd.
  induction vs as [|v2 vs IH]; intros v pre w t rest txts Hc Hok HR Ha Hl;
    destruct (all_some_cons_st _ _ _ _ Ha) as (txt & txts' & -> & Hi & Ha');
    inversion Hok as [|? ? Hokv Hokvs]; subst;
    destruct (var_facts m v txt Hokv Hi) as (data & Hd & Ht & Hdl & Hhex & _);
    destruct Hokv as (_ & Hnr & _);
    pose proof (nth_mid _ pre v) as Hn;
    pose proof HR as (HB & Hv & _ & Hst & _);
    pose proof HB as (_ & Hcmd & _);
    match goal with |- context [fra_run (length (?a :: ?b)) _] =>
      change (length (a :: b)) with (S (length b)) end;
    rewrite fra_run_S, Hst; cbn [cstate_beq].
  - specialize (Hn []). rewrite <- Hc, <- Hv in Hn.
    cbn [map all_some] in Ha'. injection Ha' as <-.
    rewrite join_comma_one in *. cbn [length Lemmas_C07e.fra_run].
    rewrite (fra_step_eq w c v Hcmd Hn Hnr).
    eexists. split; [reflexivity|].
    apply (fra_last_ok c m (st w) (length pre) t rest nl bsz v data txt); try assumption.
    rewrite Hc, app_length. cbn [length]. lia.
  - specialize (Hn (v2 :: vs)). rewrite <- Hc, <- Hv in Hn.
    destruct (all_some_cons_st _ _ _ _ Ha') as (txt2 & txts2 & -> & Hi2 & Ha2).
    rewrite join_comma_cons2 in *. rewrite app_length in Hl. cbn [length] in Hl.
    rewrite (fra_step_eq w c v Hcmd Hn Hnr).
    destruct (fra_more c m (st w) (length pre) t rest nl bsz v data txt HR Hd Ht Hdl Hhex)
      as (r' & HR' & L); [lia| rewrite Hc, app_length; cbn [length]; lia |].
    specialize (IH v2 (pre ++ [v]) (set_st (fra_state c v (st w)) w)
                   (t ++ txt ++ [ch_COMMA]) r' (txt2 :: txts2)).
    replace (length (pre ++ [v])) with (S (length pre)) in IH
      by (rewrite app_length; cbn [length]; lia).
    destruct IH as (s' & E & HD).
    + rewrite Hc, <- app_assoc. reflexivity.
    + exact Hokvs.
    + exact HR'.
    + exact Ha'.
    + lia.
    + exists s'. rewrite E, set_st_set_st. split; [reflexivity|].
      replace (t ++ txt ++ ch_COMMA :: join_comma (txt2 :: txts2))
        with ((t ++ txt ++ [ch_COMMA]) ++ join_comma (txt2 :: txts2))
        by (rewrite <- !app_assoc; reflexivity).
      exact HD.
Qed.

Lemma rloop_fail : forall c m nl bsz,
  forall vs v pre (w : world) t rest txts,
  c_vars c = pre ++ v :: vs -> Forall (rt_var_ok m) (v :: vs) ->
  RInv c m (st w) (length pre) t rest nl bsz ->
  all_some (map (slot_text m) (v :: vs)) = Some txts ->
  length rest <= length (join_comma txts) ->
  exists s', fra_run (length (v :: vs)) w = set_st s' w /\ RFail m bsz s'.
Proof.
  intros c m nl bsz.
  induction vs as [|v2 vs IH]; intros v pre w t rest txts Hc Hok HR Ha Hl;
    destruct (all_some_cons_st _ _ _ _ Ha) as (txt & txts' & -> & Hi & Ha');
    inversion Hok as [|? ? Hokv Hokvs]; subst;
    destruct (var_facts m v txt Hokv Hi) as (data & Hd & Ht & Hdl & Hhex & _);
    destruct Hokv as (_ & Hnr & _);
    pose proof (nth_mid _ pre v) as Hn;
    pose proof HR as (HB & Hv & _ & Hst & _);
    pose proof HB as (_ & Hcmd & _);
    match goal with |- context [fra_run (length (?a :: ?b)) _] =>
      change (length (a :: b)) with (S (length b)) end;
    rewrite fra_run_S, Hst; cbn [cstate_beq].
  - specialize (Hn []). rewrite <- Hc, <- Hv in Hn.
    cbn [map all_some] in Ha'. injection Ha' as <-.
    rewrite join_comma_one in *. cbn [length Lemmas_C07e.fra_run].
    rewrite (fra_step_eq w c v Hcmd Hn Hnr).
    eexists. split; [reflexivity|].
    apply (fra_print_fail c m (st w) (length pre) t rest nl bsz v data txt); assumption.
  - specialize (Hn (v2 :: vs)). rewrite <- Hc, <- Hv in Hn.
    destruct (all_some_cons_st _ _ _ _ Ha') as (txt2 & txts2 & -> & Hi2 & Ha2).
    rewrite join_comma_cons2 in *. rewrite app_length in Hl. cbn [length] in Hl.
    rewrite (fra_step_eq w c v Hcmd Hn Hnr).
    destruct (Nat.lt_ge_cases (length txt) (length rest)) as [Hlt|Hge].
    2:{ pose proof (fra_print_fail c m (st w) (length pre) t rest nl bsz v data txt
                      HR Hd Ht Hdl Hhex Hge) as HF.
        eexists. split; [|exact HF].
        apply fra_run_stop. destruct HF as (_ & F & _). exact F. }
    destruct (fra_more c m (st w) (length pre) t rest nl bsz v data txt HR Hd Ht Hdl Hhex Hlt)
      as (r' & HR' & L); [rewrite Hc, app_length; cbn [length]; lia |].
    specialize (IH v2 (pre ++ [v]) (set_st (fra_state c v (st w)) w)
                   (t ++ txt ++ [ch_COMMA]) r' (txt2 :: txts2)).
    replace (length (pre ++ [v])) with (S (length pre)) in IH
      by (rewrite app_length; cbn [length]; lia).
    destruct IH as (s' & E & HD).
    + rewrite Hc, <- app_assoc. reflexivity.
    + exact Hokvs.
    + exact HR'.
    + exact Ha'.
    + lia.
    + exists s'. rewrite E, set_st_set_st. split; [reflexivity|exact HD].
Qed.

(* ---- no NUL inside the response text ---- *)
Lemma notin0_join : forall txts : list (list N),
  Forall (fun t => ~ In 0%N t) txts -> ~ In 0%N (join_comma txts).
Proof.
  intros [|x r] H; [intros []|]. inversion H as [|? ? Hx Hr]; subst.
  cbn [join_comma]. intro Hin. apply in_app_or in Hin. destruct Hin as [Hin|Hin]; [exact (Hx Hin)|].
  apply in_concat in Hin. destruct Hin as (l & Hl & H0).
  apply in_map_iff in Hl. destruct Hl as (y & <- & Hy).
  destruct H0 as [H0|H0]; [discriminate H0|].
  rewrite Forall_forall in Hr. exact (Hr y Hy H0).
Qed.

Lemma texts_no_nul : forall m vs txts, Forall (rt_var_ok m) vs ->
  all_some (map (slot_text m) vs) = Some txts -> Forall (fun t => ~ In 0%N t) txts.
Proof.
  intros m. induction vs as [|v vs IH]; intros txts Hok Ha.
  - cbn [map all_some] in Ha. injection Ha as <-. constructor.
  - destruct (all_some_cons_st _ _ _ _ Ha) as (txt & txts' & -> & Hi & Ha').
    inversion Hok as [|? ? Hokv Hokvs]; subst.
    destruct (var_facts m v txt Hokv Hi) as (data & _ & Ht & Hdl & _ & Hb & _).
    constructor; [|exact (IH _ Hokvs Ha')].
    destruct (C07_no_delim v data txt Hb ltac:(lia) Ht) as (A & _). exact A.
Qed.

Lemma read_core : forall (w : world) ci c args,
  g_cmd ATCMD (st w) = Some ci -> cmd_at D ci = Some c -> rt_cmd_ok (mem (st w)) c ->
  fault (st w) = false -> read_args_text (mem (st w)) c = Some args ->
  exists s', read_response c w = set_st s' w /\
    if length (c_name c ++ [ch_EQ] ++ args) <? length (cbuf (st w))
    then RDone (mem (st w)) s' (c_name c ++ [ch_EQ] ++ args) (length (cbuf (st w)))
    else RFail (mem (st w)) (length (cbuf (st w))) s'.
Proof.
  intros w ci c args Hg Hc (Hne & Hok & _ & Hrd & _) Hf Ha.
  unfold cmd_at in Hc. unfold read_args_text in Ha.
  change (fun v : var => match nth_error (mem (st w)) (v_slot v) with
                         | Some d => var_text v d | None => None end)
    with (slot_text (mem (st w))) in Ha.
  destruct (all_some (map (slot_text (mem (st w))) (c_vars c))) as [txts|] eqn:Hall; [|discriminate].
  injection Ha as <-.
  destruct (c_vars c) as [|v vs] eqn:Hvs; [congruence|].
  assert (Hrw : v_access v = RW).
  { inversion Hok as [|? ? (A & _) _]. exact A. }
  unfold Lemmas_C07e.read_response. rewrite Hvs.
  assert (Hlen : length (c_name c ++ [ch_EQ] ++ join_comma txts)
                 = length (c_name c) + S (length (join_comma txts)))
    by (rewrite !app_length; reflexivity).
  rewrite Hlen. clear Hlen.
  set (w1 := upd_st (start_processing_format_read_args D ATCMD) w).
  assert (Hst1 : st w1 = start_processing_format_read_args D ATCMD (st w)) by reflexivity.
  assert (Hw1 : forall s', set_st s' w1 = set_st s' w) by reflexivity.
  destruct (Nat.lt_ge_cases (length (c_name c) + 1) (length (cbuf (st w)))) as [Hlt|Hge].
  - destruct (read_start_ok (st w) ci c v vs Hg Hc Hf Hvs Hrw Hlt) as (r & HR & L).
    rewrite <- Hst1 in HR.
    destruct (Nat.ltb_spec (length (c_name c) + S (length (join_comma txts)))
                           (length (cbuf (st w)))) as [Hfit|Hno].
    + destruct (rloop_ok c (mem (st w)) (nl_chars (st w)) (length (cbuf (st w))) Hrd
                         vs v [] w1 (c_name c ++ [ch_EQ]) (0%N :: r) txts Hvs Hok HR Hall)
        as (s' & E & HD).
      { cbn [length]. lia. }
      exists s'. rewrite E, Hw1. split; [reflexivity|].
      rewrite <- app_assoc in HD. exact HD.
    + destruct (rloop_fail c (mem (st w)) (nl_chars (st w)) (length (cbuf (st w)))
                         vs v [] w1 (c_name c ++ [ch_EQ]) (0%N :: r) txts Hvs Hok HR Hall)
        as (s' & E & HD).
      { cbn [length]. lia. }
      exists s'. rewrite E, Hw1. split; [reflexivity|exact HD].
  - pose proof (read_start_fail (st w) ci c Hg Hc Hf Hge) as HF.
    rewrite <- Hst1 in HF.
    exists (st w1). split.
    + rewrite fra_run_stop; [reflexivity|]. destruct HF as (_ & F & _). exact F.
    + destruct (Nat.ltb_spec (length (c_name c) + S (length (join_comma txts)))
                             (length (cbuf (st w)))) as [Hfit|Hno]; [lia|].
      exact HF.
Qed.

Theorem C07_read_response : forall (w : world) ci c args,
  g_cmd ATCMD (st w) = Some ci -> cmd_at D ci = Some c -> rt_cmd_ok (mem (st w)) c ->
  fault (st w) = false -> read_args_text (mem (st w)) c = Some args ->
  let txt := c_name c ++ [ch_EQ] ++ args in
  let w' := read_response c w in
  mem (st w') = mem (st w) /\ tr w' = tr w /\ hs w' = hs w /\ fault (st w') = false /\
  k_state (k (st w')) = CS_FLUSH_WAIT /\
  if length txt <? length (cbuf (st w))
  then text_of (cbuf (st w')) = txt /\ k_wafter (k (st w')) = CS_AFTER_OK
  else k_wafter (k (st w')) = CS_AFTER_RESET /\
       (6 <= length (cbuf (st w)) -> text_of (cbuf (st w')) = txt_ERROR).
Proof.
  intros w ci c args Hg Hc Hok Hf Ha txt w'. subst txt w'.
  destruct (read_core w ci c args Hg Hc Hok Hf Ha) as (s' & E & HD).
  rewrite E. cbn [Fsm.st Fsm.tr Fsm.hs Fsm.set_st].
  destruct (length (c_name c ++ [ch_EQ] ++ args) <? length (cbuf (st w))).
  - destruct HD as (D1 & (r & D2) & D3 & D4 & D5 & D6).
    repeat split; try assumption; try reflexivity.
    rewrite D2. apply text_of_app0.
    destruct Hok as (_ & Hokv & _ & _ & _ & _ & Hname).
    unfold read_args_text in Ha.
    change (fun v : var => match nth_error (mem (st w)) (v_slot v) with
                           | Some d => var_text v d | None => None end)
      with (slot_text (mem (st w))) in Ha.
    destruct (all_some (map (slot_text (mem (st w))) (c_vars c))) as [txts|] eqn:Hall; [|discriminate].
    injection Ha as <-.
    pose proof (notin0_join txts (texts_no_nul _ _ _ Hokv Hall)) as Hj.
    intro Hin. apply in_app_or in Hin. destruct Hin as [Hin|Hin]; [exact (Hname Hin)|].
    destruct Hin as [Hin|Hin]; [discriminate Hin|exact (Hj Hin)].
  - destruct HD as (F1 & F2 & F3 & F4 & F5).
    repeat split; assumption.
Qed.

(* ================= 4. WRITE: the parsing loop ================= *)

(* ---- list helpers ---- *)
Lemma nth_error_upd_same : forall (A : Type) (l : list A) i x y,
  nth_error l i = Some y -> nth_error (upd l i x) i = Some x.
Proof.
  induction l as [|a l IH]; intros [|i] x y H; cbn [nth_error upd] in *; try discriminate.
  - reflexivity.
  - exact (IH i x y H).
Qed.

Lemma nth_error_upd_other : forall (A : Type) (l : list A) i j x,
  i <> j -> nth_error (upd l i x) j = nth_error l j.
Proof.
  induction l as [|a l IH]; intros [|i] [|j] x H; cbn [nth_error upd]; try reflexivity.
  - congruence.
  - apply IH. congruence.
Qed.

Lemma map_length_upd : forall (l : list (list N)) i x y,
  nth_error l i = Some y -> length x = length y ->
  map (@length N) (upd l i x) = map (@length N) l.
Proof.
  induction l as [|a l IH]; intros [|i] x y H Hl; cbn [nth_error upd map] in *; try discriminate.
  - injection H as ->. rewrite Hl. reflexivity.
  - f_equal. exact (IH i x y H Hl).
Qed.

Lemma same_shape_nth : forall m m' i d, same_shape m m' -> nth_error m i = Some d ->
  exists d', nth_error m' i = Some d' /\ length d' = length d.
Proof.
  intros m m' i d Hs Hn. unfold same_shape in Hs.
  assert (E : nth_error (map (@length N) m') i = Some (length d)).
  { rewrite <- Hs, nth_error_map, Hn. reflexivity. }
  rewrite nth_error_map in E. destruct (nth_error m' i) as [d'|]; [|discriminate].
  injection E as E. exists d'. split; [reflexivity|exact E].
Qed.

Lemma skipn_app_len : forall (A : Type) (a b : list A), skipn (length a) (a ++ b) = b.
Proof. induction a as [|x a IH]; intros b; cbn [length app skipn]; [reflexivity|apply IH]. Qed.

Lemma firstn_app_nul : forall (a cb : list N),
  firstn (S (length a)) cb = a ++ [0%N] -> cb = a ++ 0%N :: skipn (S (length a)) cb.
Proof.
  intros a cb H. rewrite <- (firstn_skipn (S (length a)) cb) at 1.
  rewrite H, <- app_assoc. reflexivity.
Qed.

Lemma same_value_length : forall v d1 d2, same_value v d1 d2 -> length d1 = length d2.
Proof.
  intros v d1 d2 H. unfold same_value in H.
  destruct (v_type v); try (subst; reflexivity). destruct H as [_ H]. exact H.
Qed.

Lemma text_of_OK : forall n, 2 <= n -> text_of (strncpy_buf n txt_OK) = txt_OK.
Proof.
  intros n H. destruct n as [|[|[|n]]]; try lia.
  - reflexivity.
  - apply text_of_strncpy; [apply not_in_OK|]. cbn [length txt_OK]. lia.
Qed.

Lemma print_dec_z_nonempty : forall z, print_dec_z z <> [].
Proof.
  intros [|p|p]; unfold print_dec_z; try discriminate;
    destruct (C07_print_dec_inverse (Z.to_N 0)) as (_ & _ & A);
    destruct (C07_print_dec_inverse (Z.to_N (Z.pos p))) as (_ & _ & B); assumption.
Qed.

Lemma var_text_nonempty : forall v data txt,
  var_text v data = Some txt -> length data = v_size v -> (v_type v = VBufHex -> 0 < v_size v) ->
  txt <> [].
Proof.
  intros v data txt Ht Hl Hhex. unfold var_text, fmt_num_text in Ht.
  destruct (v_type v) eqn:Ety.
  - unfold fmt_int_text in Ht. destruct (supported_width (v_size v)); [|discriminate].
    injection Ht as <-. apply print_dec_z_nonempty.
  - unfold fmt_uint_text in Ht. destruct (supported_width (v_size v)); [|discriminate].
    injection Ht as <-.
    match goal with |- print_dec ?n <> [] => destruct (C07_print_dec_inverse n) as (_ & _ & A) end.
    exact A.
  - unfold fmt_hex_text in Ht. destruct (supported_width (v_size v)); [|discriminate].
    injection Ht as <-. discriminate.
  - injection Ht as <-. specialize (Hhex eq_refl). unfold fmt_bufhex_pieces.
    destruct data as [|x data]; [cbn [length] in Hl; lia|].
    destruct (v_size v) as [|n]; [lia|]. cbn [firstn map concat].
    match goal with |- print_hex_pad ?w ?n ++ _ <> [] =>
      destruct (print_hex_pad_spec w n) as (_ & _ & A) end.
    intro E. apply app_eq_nil in E. destruct E as [E _]. exact (A E).
  - injection Ht as <-. unfold fmt_bufstr_pieces. cbn [concat app]. discriminate.
Qed.

(* ---- one step of parse_write_args on the object state ---- *)
Definition pwa_next (c : cmd) (comma : bool) (s : state) : state :=
  let idx := S (k_index (k s)) in
  let s := setk_index idx s in
  if (idx <? length (c_vars c)) && comma then setk_var idx s
  else if comma then ack_error s
  else if c_need_all c && negb (idx =? length (c_vars c)) then ack_error s
  else if negb (c_hwrite c) then ack_ok s
  else setk_state CS_WRITE_LOOP s.

Definition pwa_store (v : var) (d : list N) (ws n : nat) (s : state) : state :=
  setk_write_size ws (set_mem (upd (mem s) (v_slot v) d) (setk_position (k_position (k s) + n) s)).

Local Notation pwa_step := (pwa_step D ioS muS hS mu_lock mu_unlock h_call).
Local Notation pwa_run := (pwa_run D ioS muS hS mu_lock mu_unlock h_call).
Local Notation write_back := (write_back D ioS muS hS mu_lock mu_unlock h_call).

Lemma pwa_step_eq : forall (w : world) c v data comma d ws n,
  cmd_of D ATCMD (st w) = Some c -> nth_error (c_vars c) (k_var (k (st w))) = Some v ->
  nth_error (mem (st w)) (v_slot v) = Some data -> v_hwrite v = false ->
  decode_var v (skipn (k_position (k (st w))) (cbuf (st w))) data = (SOk comma, d, ws, n) ->
  pwa_step w = set_st (pwa_next c comma (pwa_store v d ws n (st w))) w.
Proof.
  intros w c v data comma d ws n Hc Hn Hd Hw He.
  unfold Lemmas_C07e.pwa_step, parse_write_args. cbv zeta.
  unfold cmd_of in Hc |- *. destruct (g_cmd ATCMD (st w)) as [ci|] eqn:Eg; [|discriminate].
  rewrite Hc, Hn, Hd, He, Hw. reflexivity.
Qed.

Lemma pwa_run_S : forall n (w : world),
  pwa_run (S n) w
  = if cstate_beq (k_state (k (st w))) CS_PARSE_WRITE_ARGS then pwa_run n (pwa_step w) else w.
Proof. reflexivity. Qed.

(* ---- the invariant ---- *)
Definition vals_ok (m : list (list N)) (s : state) (vs : list var) : Prop :=
  forall v d0, In v vs -> nth_error m (v_slot v) = Some d0 ->
    exists d1, nth_error (mem s) (v_slot v) = Some d1 /\ same_value v d1 d0.
Definition frame_ok (m0 : list (list N)) (s : state) (vs : list var) : Prop :=
  forall sl, ~ In sl (map v_slot vs) -> nth_error (mem s) sl = nth_error m0 sl.

Definition WInv (c : cmd) (m m0 : list (list N)) (cb : list N) (s : state) (pre : list var)
           (p : nat) : Prop :=
  fault s = false /\ k_state (k s) = CS_PARSE_WRITE_ARGS /\ cmd_of D ATCMD s = Some c /\
  k_var (k s) = length pre /\ k_index (k s) = length pre /\ cbuf s = cb /\ k_position (k s) = p /\
  same_shape m (mem s) /\ vals_ok m s pre /\ frame_ok m0 s pre.

(* after decode + store, before the index bookkeeping *)
Definition WMid (c : cmd) (m m0 : list (list N)) (cb : list N) (s : state) (pre : list var)
           (v : var) (p : nat) : Prop :=
  fault s = false /\ k_state (k s) = CS_PARSE_WRITE_ARGS /\ cmd_of D ATCMD s = Some c /\
  k_index (k s) = length pre /\ cbuf s = cb /\ k_position (k s) = p /\
  same_shape m (mem s) /\ vals_ok m s (pre ++ [v]) /\ frame_ok m0 s (pre ++ [v]).

Definition WDone (c : cmd) (m m0 : list (list N)) (s : state) : Prop :=
  fault s = false /\ k_state (k s) = CS_FLUSH_WAIT /\ k_wafter (k s) = CS_AFTER_RESET /\
  text_of (cbuf s) = txt_OK /\ vals_ok m s (c_vars c) /\ frame_ok m0 s (c_vars c).

Lemma wstep_decode : forall c m m0 cb s pre p v vs txt t tail done,
  WInv c m m0 cb s pre p -> c_vars c = pre ++ v :: vs -> NoDup (map v_slot (c_vars c)) ->
  rt_var_ok m v -> slot_text m v = Some txt -> is_term t = true ->
  cb = done ++ txt ++ t :: tail -> p = length done ->
  exists data' d ws,
    nth_error (c_vars c) (k_var (k s)) = Some v /\
    nth_error (mem s) (v_slot v) = Some data' /\
    decode_var v (skipn (k_position (k s)) (cbuf s)) data'
      = (SOk (t =? ch_COMMA)%N, d, ws, S (length txt)) /\
    WMid c m m0 cb (pwa_store v d ws (S (length txt)) s) pre v (length (done ++ txt ++ [t])).
Proof.
  intros c m m0 cb s pre p v vs txt t tail done
         (W1 & W2 & W3 & W4 & W5 & W6 & W7 & W8 & W9 & W10) Hc Hnd Hok Ht Hterm Hcb Hp.
  destruct (var_facts m v txt Hok Ht) as (data & Hd & Hvt & Hdl & Hhex & Hb & Hs).
  destruct Hok as (Hrw & _).
  destruct (same_shape_nth m (mem s) (v_slot v) data W8 Hd) as (data' & Hd' & Hl').
  destruct (C07_var_roundtrip v data data' txt t tail Hrw Hb Hdl ltac:(lia) Hs Hhex Hvt Hterm)
    as (d & ws & Hdec & Hsame).
  exists data', d, ws.
  assert (Hslots : forall v', In v' pre -> v_slot v' <> v_slot v).
  { intros v' Hin E. rewrite Hc, map_app in Hnd. cbn [map] in Hnd.
    apply NoDup_remove_2 in Hnd. apply Hnd. apply in_or_app. left.
    rewrite <- E. apply in_map. exact Hin. }
  split; [rewrite W4, Hc; apply nth_mid|].
  split; [exact Hd'|].
  split.
  { rewrite W6, W7, Hcb, Hp, skipn_app_len. exact Hdec. }
  unfold WMid, vals_ok, frame_ok, pwa_store in *. cbn.
  repeat split; try assumption.
  - rewrite W7, Hp, !app_length. cbn [length]. lia.
  - unfold same_shape in *. rewrite W8. symmetry.
    apply (map_length_upd (mem s) (v_slot v) d data' Hd').
    rewrite (same_value_length v d data Hsame). lia.
  - intros v' d0 Hin Hn0. apply in_app_or in Hin. destruct Hin as [Hin|[<-|[]]].
    + destruct (W9 v' d0 Hin Hn0) as (d1 & Hn1 & Hs1). exists d1. split; [|exact Hs1].
      rewrite nth_error_upd_other; [exact Hn1|]. intro E. exact (Hslots v' Hin (eq_sym E)).
    + exists d. split; [apply (nth_error_upd_same _ _ _ _ _ Hd')|].
      rewrite Hd in Hn0. injection Hn0 as <-. exact Hsame.
  - intros sl Hsl. rewrite map_app in Hsl. cbn [map] in Hsl.
    rewrite nth_error_upd_other.
    + apply W10. intro H. apply Hsl. apply in_or_app. left. exact H.
    + intro E. apply Hsl. apply in_or_app. right. left. exact E.
Qed.

Lemma wmid_more : forall c m m0 cb s pre v p,
  WMid c m m0 cb s pre v p -> S (length pre) < length (c_vars c) ->
  WInv c m m0 cb (pwa_next c true s) (pre ++ [v]) p.
Proof.
  intros c m m0 cb s pre v p (W1 & W2 & W3 & W5 & W6 & W7 & W8 & W9 & W10) Hlt.
  unfold pwa_next. cbv zeta. rewrite W5.
  replace (S (length pre) <? length (c_vars c)) with true by (symmetry; apply Nat.ltb_lt; lia).
  cbn [andb]. unfold WInv. rewrite app_length. cbn [length].
  replace (length pre + 1) with (S (length pre)) by lia.
  cbn. repeat split; assumption.
Qed.

Lemma wmid_last : forall c m m0 cb s pre v p,
  WMid c m m0 cb s pre v p -> c_vars c = pre ++ [v] -> c_hwrite c = false -> 2 <= length cb ->
  WDone c m m0 (pwa_next c false s).
Proof.
  intros c m m0 cb s pre v p (W1 & W2 & W3 & W5 & W6 & W7 & W8 & W9 & W10) Hc Hw H2.
  unfold pwa_next. cbv zeta. rewrite W5, Hw, andb_false_r.
  replace (S (length pre) =? length (c_vars c)) with true.
  2:{ symmetry. apply Nat.eqb_eq. rewrite Hc, app_length. cbn [length]. lia. }
  cbn [negb]. rewrite andb_false_r.
  unfold WDone. rewrite Hc.
  repeat split; try assumption.
  cbn. unfold asz. cbn. rewrite W6. apply text_of_OK. exact H2.
Qed.

Lemma wloop : forall c m m0 cb, c_hwrite c = false -> NoDup (map v_slot (c_vars c)) ->
  2 <= length cb ->
  forall vs v pre (w : world) done txts tl,
  c_vars c = pre ++ v :: vs -> Forall (rt_var_ok m) (v :: vs) ->
  WInv c m m0 cb (st w) pre (length done) ->
  all_some (map (slot_text m) (v :: vs)) = Some txts ->
  cb = done ++ join_comma txts ++ 0%N :: tl ->
  exists s', pwa_run (length (v :: vs)) w = set_st s' w /\ WDone c m m0 s'.
Proof.
  intros c m m0 cb Hw Hnd H2.
  induction vs as [|v2 vs IH]; intros v pre w done txts tl Hc Hok HW Ha Hcb;
    destruct (all_some_cons_st _ _ _ _ Ha) as (txt & txts' & -> & Hi & Ha');
    inversion Hok as [|? ? Hokv Hokvs]; subst x l;
    pose proof Hokv as (_ & _ & Hnw & _);
    pose proof HW as (_ & Hst & Hcmd & _);
    match goal with |- context [pwa_run (length (?a :: ?b)) _] =>
      change (length (a :: b)) with (S (length b)) end;
    rewrite pwa_run_S, Hst; cbn [cstate_beq].
  - cbn [map all_some] in Ha'. injection Ha' as <-.
    rewrite join_comma_one in Hcb. cbn [length Lemmas_C07e.pwa_run].
    destruct (wstep_decode c m m0 cb (st w) pre (length done) v [] txt 0%N tl done
                HW Hc Hnd Hokv Hi eq_refl Hcb eq_refl) as (data' & d & ws & Hn & Hd' & Hdec & HM).
    rewrite (pwa_step_eq w c v data' _ d ws _ Hcmd Hn Hd' Hnw Hdec).
    eexists. split; [reflexivity|].
    change (0 =? ch_COMMA)%N with false.
    exact (wmid_last _ _ _ _ _ _ _ _ HM Hc Hw H2).
  - destruct (all_some_cons_st _ _ _ _ Ha') as (txt2 & txts2 & -> & Hi2 & Ha2).
    rewrite join_comma_cons2 in Hcb.
    destruct (wstep_decode c m m0 cb (st w) pre (length done) v (v2 :: vs) txt ch_COMMA
                (join_comma (txt2 :: txts2) ++ 0%N :: tl) done
                HW Hc Hnd Hokv Hi eq_refl) as (data' & d & ws & Hn & Hd' & Hdec & HM).
    { rewrite Hcb, <- !app_assoc. reflexivity. }
    { reflexivity. }
    rewrite (pwa_step_eq w c v data' _ d ws _ Hcmd Hn Hd' Hnw Hdec).
    change (ch_COMMA =? ch_COMMA)%N with true.
    pose proof (wmid_more _ _ _ _ _ _ _ _ HM) as HW'.
    specialize (HW' ltac:(rewrite Hc, app_length; cbn [length]; lia)).
    specialize (IH v2 (pre ++ [v])
                   (set_st (pwa_next c true (pwa_store v d ws (S (length txt)) (st w))) w)
                   (done ++ txt ++ [ch_COMMA]) (txt2 :: txts2) tl).
    destruct IH as (s' & E & HD).
    + rewrite Hc, <- app_assoc. reflexivity.
    + exact Hokvs.
    + exact HW'.
    + exact Ha'.
    + rewrite Hcb, <- !app_assoc. reflexivity.
    + exists s'. rewrite E, set_st_set_st. split; [reflexivity|exact HD].
Qed.

Theorem C07_write_back : forall (w : world) ci c m args,
  rt_cmd_ok m c -> read_args_text m c = Some args -> same_shape m (mem (st w)) ->
  k_state (k (st w)) = CS_PARSE_WRITE_ARGS ->
  g_cmd ATCMD (st w) = Some ci -> cmd_at D ci = Some c ->
  k_position (k (st w)) = 0 -> k_index (k (st w)) = 0 -> k_var (k (st w)) = 0 ->
  firstn (S (length args)) (cbuf (st w)) = args ++ [0%N] -> fault (st w) = false ->
  let w' := write_back c w in
  fault (st w') = false /\ tr w' = tr w /\ hs w' = hs w /\
  k_state (k (st w')) = CS_FLUSH_WAIT /\ k_wafter (k (st w')) = CS_AFTER_RESET /\
  text_of (cbuf (st w')) = txt_OK /\
  (forall v d0, In v (c_vars c) -> nth_error m (v_slot v) = Some d0 ->
     exists d1, nth_error (mem (st w')) (v_slot v) = Some d1 /\ same_value v d1 d0) /\
  (forall sl, ~ In sl (map v_slot (c_vars c)) ->
     nth_error (mem (st w')) sl = nth_error (mem (st w)) sl).
Proof.
  intros w ci c m args (Hne & Hok & Hnd & _ & Hw & _) Ha Hsh Hst Hg Hc Hp Hi Hv Hbuf Hf w'.
  subst w'. unfold cmd_at in Hc. unfold read_args_text in Ha.
  change (fun v : var => match nth_error m (v_slot v) with
                         | Some d => var_text v d | None => None end)
    with (slot_text m) in Ha.
  destruct (all_some (map (slot_text m) (c_vars c))) as [txts|] eqn:Hall; [|discriminate].
  injection Ha as <-.
  destruct (c_vars c) as [|v vs] eqn:Hvs; [congruence|].
  apply firstn_app_nul in Hbuf.
  set (tl := skipn (S (length (join_comma txts))) (cbuf (st w))) in Hbuf.
  assert (H2 : 2 <= length (cbuf (st w))).
  { destruct (all_some_cons_st _ _ _ _ Hall) as (txt & txts' & -> & Hi1 & _).
    inversion Hok as [|? ? Hokv _]; subst.
    destruct (var_facts m v txt Hokv Hi1) as (data & _ & Ht & Hdl & Hhex & _).
    pose proof (var_text_nonempty v data txt Ht Hdl Hhex) as Hnz.
    rewrite Hbuf. cbn [join_comma]. rewrite !app_length. cbn [length].
    destruct txt; [congruence|]. cbn [length]. lia. }
  assert (HW : WInv c m (mem (st w)) (cbuf (st w)) (st w) [] (length (@nil N))).
  { unfold WInv, vals_ok, frame_ok, cmd_of. rewrite Hg.
    repeat split; try assumption; try reflexivity.
    intros v' d0 []. }
  unfold Lemmas_C07e.write_back. rewrite Hvs.
  destruct (wloop c m (mem (st w)) (cbuf (st w)) Hw ltac:(rewrite Hvs; exact Hnd) H2
                  vs v [] w [] txts tl Hvs Hok HW Hall Hbuf) as (s' & E & HD).
  rewrite E. cbn [Fsm.st Fsm.tr Fsm.hs Fsm.set_st].
  destruct HD as (D1 & D2 & D3 & D4 & D5 & D6). rewrite Hvs in D5, D6.
  repeat split; assumption.
Qed.

Theorem C07_end_to_end : forall (w w2 : world) ci c args,
  g_cmd ATCMD (st w) = Some ci -> cmd_at D ci = Some c -> rt_cmd_ok (mem (st w)) c ->
  fault (st w) = false -> read_args_text (mem (st w)) c = Some args ->
  length (c_name c ++ [ch_EQ] ++ args) < length (cbuf (st w)) ->
  let w1 := read_response c w in
  let echoed := skipn (S (length (c_name c))) (text_of (cbuf (st w1))) in
  echoed = args /\ length echoed < length (cbuf (st w)) /\
  (same_shape (mem (st w)) (mem (st w2)) ->
   k_state (k (st w2)) = CS_PARSE_WRITE_ARGS -> g_cmd ATCMD (st w2) = Some ci ->
   k_position (k (st w2)) = 0 -> k_index (k (st w2)) = 0 -> k_var (k (st w2)) = 0 ->
   firstn (S (length echoed)) (cbuf (st w2)) = echoed ++ [0%N] -> fault (st w2) = false ->
   let w3 := write_back c w2 in
   fault (st w3) = false /\ tr w3 = tr w2 /\ hs w3 = hs w2 /\
   k_state (k (st w3)) = CS_FLUSH_WAIT /\ k_wafter (k (st w3)) = CS_AFTER_RESET /\
   text_of (cbuf (st w3)) = txt_OK /\
   (forall v d0, In v (c_vars c) -> nth_error (mem (st w)) (v_slot v) = Some d0 ->
      exists d1, nth_error (mem (st w3)) (v_slot v) = Some d1 /\ same_value v d1 d0) /\
   (forall sl, ~ In sl (map v_slot (c_vars c)) ->
      nth_error (mem (st w3)) sl = nth_error (mem (st w2)) sl)).
Proof.
  intros w w2 ci c args Hg Hc Hok Hf Ha Hfit w1 echoed.
  pose proof (C07_read_response w ci c args Hg Hc Hok Hf Ha) as HR. cbv zeta in HR.
  fold w1 in HR. destruct HR as (_ & _ & _ & _ & _ & HR).
  replace (length (c_name c ++ [ch_EQ] ++ args) <? length (cbuf (st w))) with true in HR
    by (symmetry; apply Nat.ltb_lt; exact Hfit).
  destruct HR as (Htxt & _).
  assert (He : echoed = args).
  { subst echoed. rewrite Htxt.
    replace (c_name c ++ [ch_EQ] ++ args) with ((c_name c ++ [ch_EQ]) ++ args)
      by (rewrite <- app_assoc; reflexivity).
    replace (S (length (c_name c))) with (length (c_name c ++ [ch_EQ]))
      by (rewrite app_length; cbn [length]; lia).
    apply skipn_app_len. }
  split; [exact He|]. split.
  { rewrite He. rewrite !app_length in Hfit. cbn [length] in Hfit. lia. }
  rewrite He. intros Hsh Hst2 Hg2 Hp Hi Hv Hbuf Hf2.
  exact (C07_write_back w2 ci c (mem (st w)) args Hok Ha Hsh Hst2 Hg2 Hc Hp Hi Hv Hbuf Hf2).
Qed.

End C07e.
