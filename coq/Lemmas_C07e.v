(* Lemmas_C07e.v — property C07 at command level: the automatic READ response of a command
   whose variables are all read-write is  name=text1,text2,...  (or ERROR when that does not fit),
   and the automatic WRITE of that very argument text restores every variable.
   Per-variable round trip: Lemmas_C07.  Cursor/text lemmas: Lemmas_C19. *)
From Coq Require Import List NArith ZArith Bool Arith Lia.
From CatV Require Import Bytes Defs Codec Spec Fsm ResolveDefs TextDefs Lemmas_C07 Lemmas_C19.
Import ListNotations.
Local Open Scope nat_scope.

(* ================= 0. definitions used in the statements ================= *)

(* well-formed storage for a variable: read-write, no callbacks, its slot holds exactly v_size
   bytes (< 256), strings NUL-terminated inside their storage, hex buffers non-empty, numeric
   widths supported *)
Definition rt_var_ok (m : list (list N)) (v : var) : Prop :=
  v_access v = RW /\ v_hread v = false /\ v_hwrite v = false /\
  exists data, nth_error m (v_slot v) = Some data /\ length data = v_size v /\
    Forall (fun b => (b < 256)%N) data /\
    (v_type v = VBufStr -> In 0%N data) /\ (v_type v = VBufHex -> 0 < v_size v) /\
    (is_numeric (v_type v) = true -> supported_width (v_size v) = true).

Definition rt_cmd_ok (m : list (list N)) (c : cmd) : Prop :=
  c_vars c <> [] /\ Forall (rt_var_ok m) (c_vars c) /\ NoDup (map v_slot (c_vars c)) /\
  c_hread c = false /\ c_hwrite c = false /\ c_only_test c = false /\ ~ In 0%N (c_name c).

(* the argument text of the READ response *)
Definition read_args_text (m : list (list N)) (c : cmd) : option (list N) :=
  match all_some (map (fun v => match nth_error m (v_slot v) with
                                | Some d => var_text v d | None => None end) (c_vars c)) with
  | Some ts => Some (join_comma ts) | None => None end.

(* two memories with the same number of slots and the same slot sizes *)
Definition same_shape (m m' : list (list N)) : Prop := map (@length N) m = map (@length N) m'.

Section Runs.
Variable D : desc.
Variables ioS muS hS : Type.
Variable mu_lock : muS -> muS * bool.
Variable mu_unlock : muS -> muS * bool.
Variable h_call : hS -> hreq -> hS * hres.
Local Notation world := (Fsm.world ioS muS hS).
Local Notation st := (Fsm.st ioS muS hS).
Local Notation upd_st := (Fsm.upd_st ioS muS hS).

(* the READ formatting loop: cat_service calls spent in CS_FORMAT_READ_ARGS (one variable per call)
   until the state changes; the whole automatic part of the '?' response starts with the call that
   runs start_processing_format_read_args (command_found / CS_AFTER_FMT_READ) *)
Definition fra_step (w : world) : world :=
  fst (format_read_args D ioS muS hS mu_lock mu_unlock h_call ATCMD w).
Fixpoint fra_run (fuel : nat) (w : world) : world :=
  match fuel with
  | O => w
  | S n => if cstate_beq (k_state (k (st w))) CS_FORMAT_READ_ARGS then fra_run n (fra_step w) else w
  end.
Definition read_response (c : cmd) (w : world) : world :=
  fra_run (length (c_vars c)) (upd_st (start_processing_format_read_args D ATCMD) w).

(* the WRITE parsing loop: cat_service calls spent in CS_PARSE_WRITE_ARGS (one variable per call) *)
Definition pwa_step (w : world) : world :=
  fst (parse_write_args D ioS muS hS mu_lock mu_unlock h_call w).
Fixpoint pwa_run (fuel : nat) (w : world) : world :=
  match fuel with
  | O => w
  | S n => if cstate_beq (k_state (k (st w))) CS_PARSE_WRITE_ARGS then pwa_run n (pwa_step w) else w
  end.
Definition write_back (c : cmd) (w : world) : world := pwa_run (length (c_vars c)) w.
End Runs.

(* ================= 1. the numeric printer on the cursor ================= *)

Lemma pnum_ok : forall t rest fl str, length str < length rest ->
  exists rest',
    print_num (mkCur (t ++ rest) (length t) fl) str
    = (mkCur ((t ++ str) ++ 0%N :: rest') (length (t ++ str)) fl, true)
    /\ length str + S (length rest') = length rest.
Proof.
  intros t rest fl str H.
  destruct (split_at _ rest (length str) H) as [a [y [b [E Ha]]]].
  exists b. split.
  - unfold print_num. cbn [cu_buf cu_pos].
    replace (length (t ++ rest) <? length t) with false.
    2:{ symmetry. apply Nat.ltb_ge. rewrite app_length. lia. }
    replace (length (t ++ rest) - length t) with (length rest) by (rewrite app_length; lia).
    replace (length rest =? 0) with false by (symmetry; apply Nat.eqb_neq; lia).
    replace (length rest <=? length str) with false by (symmetry; apply Nat.leb_gt; lia).
    rewrite firstn_all2 by lia.
    subst rest.
    replace (t ++ a ++ y :: b) with (t ++ (a ++ [y]) ++ b) by (rewrite <- app_assoc; reflexivity).
    rewrite (csl_ok (str ++ [0%N]) t (a ++ [y]) b) by (rewrite !app_length; cbn [length]; lia).
    unfold cur_set_pos. cbn [cu_buf cu_pos cu_fault].
    rewrite app_length. f_equal. f_equal. rewrite <- !app_assoc. reflexivity.
  - subst rest. rewrite app_length. cbn [length]. lia.
Qed.

Lemma pnum_fail : forall t rest fl str, length rest <= length str ->
  exists b pos,
    print_num (mkCur (t ++ rest) (length t) fl) str = (mkCur b pos fl, false)
    /\ length b = length (t ++ rest).
Proof.
  intros t rest fl str H. unfold print_num. cbn [cu_buf cu_pos].
  replace (length (t ++ rest) <? length t) with false.
  2:{ symmetry. apply Nat.ltb_ge. rewrite app_length. lia. }
  replace (length (t ++ rest) - length t) with (length rest) by (rewrite app_length; lia).
  replace (length rest <=? length str) with true by (symmetry; apply Nat.leb_le; lia).
  destruct (Nat.eqb_spec (length rest) 0) as [E|E].
  - exists (t ++ rest), (length t). split; reflexivity.
  - replace (t ++ rest) with (t ++ rest ++ []) at 1 by (rewrite app_nil_r; reflexivity).
    rewrite (csl_ok (firstn (length rest - 1) str ++ [0%N]) t rest []).
    2:{ rewrite app_length, firstn_length. cbn [length]. lia. }
    eexists. eexists. split; [reflexivity|].
    rewrite !app_length, firstn_length. cbn [length]. lia.
Qed.

Lemma print_nums_cons : forall c p r,
  print_nums c (p :: r)
  = let (c1, ok) := print_num c p in if ok then print_nums c1 r else (c1, false).
Proof. reflexivity. Qed.

Lemma pnums_ok : forall ps p t rest fl, length (concat (p :: ps)) < length rest ->
  exists rest',
    print_nums (mkCur (t ++ rest) (length t) fl) (p :: ps)
    = (mkCur ((t ++ concat (p :: ps)) ++ 0%N :: rest') (length (t ++ concat (p :: ps))) fl, true)
    /\ length (concat (p :: ps)) + S (length rest') = length rest.
Proof.
  induction ps as [|q ps IH]; intros p t rest fl H.
  - cbn [concat] in *. rewrite app_nil_r in *.
    destruct (pnum_ok t rest fl p H) as [r' [E L]].
    exists r'. rewrite print_nums_cons, E. split; [reflexivity|exact L].
  - cbn [concat] in H. rewrite app_length in H.
    destruct (pnum_ok t rest fl p) as [r' [E L]]; [lia|].
    rewrite print_nums_cons, E.
    destruct (IH q (t ++ p) (0%N :: r') fl) as [r'' [E2 L2]].
    { cbn [length]. cbn [concat]. lia. }
    exists r''. rewrite E2. split.
    + cbn [concat]. rewrite <- !app_assoc. reflexivity.
    + cbn [concat length] in *. rewrite app_length. lia.
Qed.

Lemma pnums_fail : forall ps p t rest fl, length rest <= length (concat (p :: ps)) ->
  exists b pos,
    print_nums (mkCur (t ++ rest) (length t) fl) (p :: ps) = (mkCur b pos fl, false)
    /\ length b = length (t ++ rest).
Proof.
  induction ps as [|q ps IH]; intros p t rest fl H.
  - cbn [concat] in H. rewrite app_nil_r in H.
    rewrite print_nums_cons.
    destruct (pnum_fail t rest fl p H) as [b [pos [E L]]]. rewrite E.
    exists b, pos. split; [reflexivity|exact L].
  - rewrite print_nums_cons.
    destruct (Nat.lt_ge_cases (length p) (length rest)) as [Hlt|Hge].
    + destruct (pnum_ok t rest fl p Hlt) as [r' [E L]]. rewrite E.
      destruct (IH q (t ++ p) (0%N :: r') fl) as [b [pos [E2 L2]]].
      { cbn [concat length] in *. rewrite app_length in H. lia. }
      rewrite E2. exists b, pos. split; [reflexivity|].
      rewrite L2. rewrite !app_length. cbn [length]. lia.
    + destruct (pnum_fail t rest fl p Hge) as [b [pos [E L]]]. rewrite E.
      exists b, pos. split; [reflexivity|exact L].
Qed.

(* ================= 2. fmt_var appends exactly var_text, or fails ================= *)

Lemma fmt_var_cases : forall v data txt,
  var_text v data = Some txt -> length data = v_size v -> (v_type v = VBufHex -> 0 < v_size v) ->
  (forall c, fmt_var v data c = print_num c txt) \/
  (exists p ps, concat (p :: ps) = txt /\ forall c, fmt_var v data c = print_nums c (p :: ps)) \/
  (exists p ps, concat (p :: ps) = txt /\ forall c, fmt_var v data c = print_pieces c (p :: ps)).
Proof.
  intros v data txt Ht Hl Hhex.
  assert (Erf : read_fault (v_size v) data = false).
  { unfold read_fault. replace (length data <? v_size v) with false
      by (symmetry; apply Nat.ltb_ge; lia). apply andb_false_r. }
  assert (Elt : (length data <? v_size v) = false) by (apply Nat.ltb_ge; lia).
  unfold var_text, fmt_num_text in Ht. unfold fmt_var.
  destruct (v_type v) eqn:Ety.
  - left. intro c. rewrite Ht, Erf. reflexivity.
  - left. intro c. rewrite Ht, Erf. reflexivity.
  - left. intro c. rewrite Ht, Erf. reflexivity.
  - right. left. injection Ht as <-. rewrite Elt.
    specialize (Hhex eq_refl). unfold fmt_bufhex_pieces.
    destruct data as [|x data]; [cbn [length] in Hl; lia|].
    destruct (v_size v) as [|n]; [lia|]. cbn [firstn map].
    eexists. eexists. split; [reflexivity|]. intro c. reflexivity.
  - right. right. injection Ht as <-. rewrite Elt.
    unfold fmt_bufstr_pieces. eexists. eexists. split; [reflexivity|]. intro c. reflexivity.
Qed.

Lemma fmt_var_ok : forall v data txt t rest,
  var_text v data = Some txt -> length data = v_size v -> (v_type v = VBufHex -> 0 < v_size v) ->
  length txt < length rest ->
  exists rest',
    fmt_var v data (mkCur (t ++ rest) (length t) false)
    = (mkCur ((t ++ txt) ++ 0%N :: rest') (length (t ++ txt)) false, true)
    /\ length txt + S (length rest') = length rest.
Proof.
  intros v data txt t rest Ht Hl Hhex Hfit.
  destruct (fmt_var_cases v data txt Ht Hl Hhex) as [E|[(p & ps & <- & E)|(p & ps & <- & E)]];
    rewrite E.
  - apply pnum_ok. exact Hfit.
  - apply pnums_ok. exact Hfit.
  - apply pp_ok. exact Hfit.
Qed.

Lemma fmt_var_fail : forall v data txt t rest,
  var_text v data = Some txt -> length data = v_size v -> (v_type v = VBufHex -> 0 < v_size v) ->
  length rest <= length txt ->
  exists b pos,
    fmt_var v data (mkCur (t ++ rest) (length t) false) = (mkCur b pos false, false)
    /\ length b = length (t ++ rest).
Proof.
  intros v data txt t rest Ht Hl Hhex Hfit.
  destruct (fmt_var_cases v data txt Ht Hl Hhex) as [E|[(p & ps & <- & E)|(p & ps & <- & E)]];
    rewrite E.
  - apply pnum_fail. exact Hfit.
  - apply pnums_fail. exact Hfit.
  - apply pp_fail. exact Hfit.
Qed.
