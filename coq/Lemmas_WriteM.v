(* Lemmas_WriteM.v - the machine step Fsm.parse_write_args (cat.c:1365) at full strength:
   reject step, accept step (with and without variable write callback), the end-of-arguments
   decision, the whole argument list as a run of the step, and what the write handler is given
   afterwards.  Statements are in Properties_C04m.v / Properties_C05m.v / Properties_C06m.v. *)
From Coq Require Import List NArith ZArith Bool Arith Lia.
From CatV Require Import Bytes Defs Codec Spec Fsm TextDefs.
From CatV Require Import CollectDefs Lemmas_C04 Lemmas_C05 Lemmas_C06 Lemmas_C10 Lemmas_C07e.
Import ListNotations.
Local Open Scope nat_scope.

(* ================================================================== *)
(* 0. definitions used by the statements                               *)
(* ================================================================== *)

(* the object state after parse_write_args has worked for a while on s0: only the cursor into the
   argument text, write_size, the argument counter, the variable index and the variable storage
   differ from s0 *)
Definition wst (s0 : state) (p ws i vi : nat) (m : list (list N)) : state :=
  set_mem m (set_k (set_k_var vi (set_k_index i (set_k_write_size ws (set_k_position p (k s0))))) s0).

(* a quoted string field, taken alone: QUOTE body QUOTE, nothing behind the closing quote *)
Definition str_field (f : list N) : option (list N) :=
  match f with
  | q :: r => if (q =? ch_QUOTE)%N then
                match str_body r with Some (bs, []) => Some bs | _ => None end
              else None
  | [] => None
  end.

(* does variable v accept the field text f (Spec.num_accepts / hexbuf_accepts / str_body), and if
   so which bytes are written at the front of its storage and which write size is reported *)
Definition field_bytes (v : var) (f : list N) : option (list N * nat) :=
  match v_type v with
  | VBufHex => match hexbuf_accepts (v_size v) f with
               | Some bs => Some (bs, length bs) | None => None end
  | VBufStr => match str_field f with
               | Some bs => if length bs <? v_size v then Some (bs ++ [0%N], length bs) else None
               | None => None end
  | _ => if num_accepts v f then Some (num_encode v f, v_size v) else None
  end.

Definition store_front (bytes data : list N) : list N := bytes ++ skipn (length bytes) data.

(* the specification of a whole accepted argument list: field i goes to variable i, in order *)
Fixpoint store_fields (vs : list var) (fs : list (list N)) (m : list (list N)) {struct fs}
  : option (list (list N)) :=
  match fs with
  | [] => Some m
  | f :: fs' =>
    match vs with
    | [] => None
    | v :: vs' =>
      match nth_error m (v_slot v), field_bytes v f with
      | Some data, Some (bytes, _) => store_fields vs' fs' (upd m (v_slot v) (store_front bytes data))
      | _, _ => None
      end
    end
  end.

(* field f, followed in the buffer by the text `after` (which starts with the terminator of f), is
   not accepted by v.  For a string the decoder does not stop at commas, so the whole remaining
   text matters *)
Definition field_rejected (v : var) (f after : list N) : Prop :=
  match v_type v with
  | VBufStr => match str_decode (f ++ after) with
               | Some (bs, _, _) => v_size v <= length bs
               | None => True
               end
  | _ => field_ok f = true /\ field_bytes v f = None
  end.

(* every variable's storage exists and is at least data_size long *)
Definition mem_fits (vs : list var) (m : list (list N)) : Prop :=
  Forall (fun v => exists data, nth_error m (v_slot v) = Some data /\ v_size v <= length data) vs.

(* the variables the whole-list theorems are about: not read-only, no write callback *)
Definition plain_wvar (v : var) : Prop := v_access v <> RO /\ v_hwrite v = false.

(* fields of non-string variables contain neither comma nor NUL *)
Definition fields_shaped (vs : list var) (fs : list (list N)) : Prop :=
  forall i v f, nth_error vs i = Some v -> nth_error fs i = Some f ->
    v_type v <> VBufStr -> field_ok f = true.

(* ================================================================== *)
(* 1. one argument against the specification (pure, from C04 / C05)   *)
(* ================================================================== *)

Lemma is_term_cases : forall t, is_term t = true -> t = 0%N \/ t = ch_COMMA.
Proof.
  intros t H. unfold is_term in H. apply orb_true_iff in H.
  destruct H as [H|H]; apply N.eqb_eq in H; auto.
Qed.

Lemma str_body_app : forall r bs t tail,
  str_body r = Some (bs, []) -> str_body (r ++ t :: tail) = Some (bs, t :: tail).
Proof.
  induction r as [r IH] using (well_founded_induction
    (Wf_nat.well_founded_ltof _ (@length N))).
  intros bs t tail H. destruct r as [|c r]; [discriminate H|].
  cbn [app]. cbn [str_body] in H |- *.
  destruct (c =? 0)%N; [discriminate|].
  destruct (c =? ch_QUOTE)%N.
  - injection H as <- ->. reflexivity.
  - destruct (c =? ch_BSL)%N.
    + destruct r as [|e r']; [discriminate|]. cbn [app].
      destruct (unescape e); [|discriminate].
      destruct (str_body r') as [[bs' rest']|] eqn:E; [|discriminate].
      injection H as <- ->.
      rewrite (IH r' ltac:(unfold ltof; cbn [length]; lia) bs' t tail E). reflexivity.
    + destruct (str_body r) as [[bs' rest']|] eqn:E; [|discriminate].
      injection H as <- ->.
      rewrite (IH r ltac:(unfold ltof; cbn [length]; lia) bs' t tail E). reflexivity.
Qed.

Lemma str_field_decode : forall f bs t tail, str_field f = Some bs -> is_term t = true ->
  str_decode (f ++ t :: tail) = Some (bs, (t =? ch_COMMA)%N, S (length f)).
Proof.
  intros f bs t tail H Ht. unfold str_field in H. destruct f as [|q r]; [discriminate|].
  destruct (q =? ch_QUOTE)%N eqn:Eq; [|discriminate].
  destruct (str_body r) as [[bs' rest]|] eqn:Eb; [|discriminate].
  destruct rest; [|discriminate]. injection H as ->.
  unfold str_decode. cbn [app]. rewrite Eq, (str_body_app r bs t tail Eb), Ht.
  f_equal. f_equal. cbn [length]. rewrite app_length. cbn [length]. lia.
Qed.

Lemma in_nul_term : forall f t tail, is_term t = true -> In 0%N tail \/ t = 0%N ->
  In 0%N (f ++ t :: tail).
Proof.
  intros f t tail _ [H| ->]; apply in_or_app; right; [right; exact H|left; reflexivity].
Qed.

(* accepted field: the decoder stores exactly the specified bytes, reports the specified size,
   consumes the field and its terminator *)
Lemma decode_accept : forall v f t tail data bytes ws,
  v_access v <> RO -> v_size v <= length data -> is_term t = true ->
  (v_type v <> VBufStr -> field_ok f = true) ->
  In 0%N (f ++ t :: tail) ->
  field_bytes v f = Some (bytes, ws) ->
  decode_var v (f ++ t :: tail) data
  = (SOk (t =? ch_COMMA)%N, store_front bytes data, ws, S (length f)).
Proof.
  intros v f t tail data bytes ws Hro Hsz Ht Hshape Hnul Hfb.
  assert (Hro' : vaccess_beq (v_access v) RO = false).
  { destruct (v_access v); try reflexivity. congruence. }
  unfold field_bytes in Hfb.
  destruct (v_type v) eqn:Ety.
  1-3: (destruct (num_accepts v f) eqn:Ea; [|discriminate]; injection Hfb as <- <-;
        pose proof (C04_numeric v f t tail data) as H; rewrite Ety, Ea in H;
        specialize (H eq_refl Hro (Hshape ltac:(discriminate)) Ht Hsz);
        rewrite H; unfold store_front;
        destruct (C04_stored_value v f [] ltac:(rewrite Ety; reflexivity) Ea) as (Hl & _);
        rewrite Hl; reflexivity).
  - destruct (hexbuf_accepts (v_size v) f) as [bs|] eqn:Ea; [|discriminate].
    injection Hfb as <- <-.
    pose proof (C05_hexbuf f t tail data (v_size v) (Hshape ltac:(discriminate)) Ht Hsz) as H.
    cbv zeta in H. rewrite Ea in H. destruct H as (H1 & H2 & H3 & H4).
    unfold decode_var. rewrite Ety, Hro', H1, H2, H3, H4. reflexivity.
  - destruct (str_field f) as [bs|] eqn:Ea; [|discriminate].
    destruct (length bs <? v_size v) eqn:El; [|discriminate].
    injection Hfb as <- <-.
    pose proof (C05_string (f ++ t :: tail) data (v_size v) Hnul Hsz) as H.
    cbv zeta in H. rewrite (str_field_decode f bs t tail Ea Ht), El in H.
    destruct H as (H1 & H2 & H3 & H4).
    unfold decode_var. rewrite Ety, Hro', H1, H2, H3, H4. unfold store_front.
    rewrite <- app_assoc, app_length. cbn [length app].
    replace (length bs + 1) with (S (length bs)) by lia. reflexivity.
Qed.

(* rejected field: ERROR status; a numeric variable is untouched, a buffer variable keeps its
   length and every byte at or beyond data_size *)
Lemma decode_reject : forall v f after data,
  v_access v <> RO -> v_size v <= length data -> In 0%N (f ++ after) ->
  (exists t tail, after = t :: tail /\ is_term t = true) ->
  field_rejected v f after ->
  exists d' ws n, decode_var v (f ++ after) data = (SErr, d', ws, n) /\
    (is_numeric (v_type v) = true -> d' = data) /\
    length d' = length data /\ skipn (v_size v) d' = skipn (v_size v) data.
Proof.
  intros v f after data Hro Hsz Hnul (t & tail & -> & Ht) Hrej.
  assert (Hro' : vaccess_beq (v_access v) RO = false).
  { destruct (v_access v); try reflexivity. congruence. }
  unfold field_rejected, field_bytes in Hrej.
  destruct (v_type v) eqn:Ety.
  1-3: (destruct Hrej as (Hok & Hrej);
        destruct (num_accepts v f) eqn:Ea; [discriminate|];
        pose proof (C04_numeric v f t tail data) as H; rewrite Ety, Ea in H;
        specialize (H eq_refl Hro Hok Ht Hsz);
        exists data, 0, (snd (decode_var v (f ++ t :: tail) data));
        split; [exact H|]; repeat split; reflexivity).
  - destruct Hrej as (Hok & Hrej).
    pose proof (C05_hexbuf f t tail data (v_size v) Hok Ht Hsz) as H. cbv zeta in H.
    destruct (hexbuf_accepts (v_size v) f); [discriminate|].
    pose proof (C05_bounds_hex (f ++ t :: tail) data false (v_size v) Hnul Hsz) as B.
    cbv zeta in B. destruct B as (_ & B2 & B3 & _).
    unfold decode_var. rewrite Ety, Hro', H.
    eexists _, _, _. split; [reflexivity|]. repeat split; try assumption. discriminate.
  - pose proof (C05_string (f ++ t :: tail) data (v_size v) Hnul Hsz) as H. cbv zeta in H.
    pose proof (C05_bounds_str (f ++ t :: tail) data false (v_size v) Hnul Hsz) as B.
    cbv zeta in B. destruct B as (_ & B2 & B3 & _).
    assert (E : b_st (parse_bufstr (f ++ t :: tail) data false (v_size v)) = SErr).
    { destruct (str_decode (f ++ t :: tail)) as [[[bs cm] n]|]; [|exact H].
      replace (length bs <? v_size v) with false in H; [exact H|].
      symmetry. apply Nat.ltb_ge. exact Hrej. }
    unfold decode_var. rewrite Ety, Hro', E.
    eexists _, _, _. split; [reflexivity|]. repeat split; try assumption. discriminate.
Qed.

(* ================================================================== *)
(* 2. the machine step                                                 *)
(* ================================================================== *)

Lemma upd_same : forall (A : Type) (l : list A) i x, nth_error l i = Some x -> upd l i x = l.
Proof.
  induction l as [|a l IH]; intros [|i] x H; cbn [nth_error upd] in *; try reflexivity.
  - injection H as ->. reflexivity.
  - f_equal. exact (IH i x H).
Qed.

Section WriteM.
Variable D : desc.
Variables ioS muS hS : Type.
Variable mu_lock : muS -> muS * bool.
Variable mu_unlock : muS -> muS * bool.
Variable h_call : hS -> hreq -> hS * hres.

Local Notation world := (Fsm.world ioS muS hS).
Local Notation st := (Fsm.st ioS muS hS).
Local Notation io := (Fsm.io ioS muS hS).
Local Notation mu := (Fsm.mu ioS muS hS).
Local Notation hs := (Fsm.hs ioS muS hS).
Local Notation tr := (Fsm.tr ioS muS hS).
Local Notation set_st := (Fsm.set_st ioS muS hS).
Local Notation upd_st := (Fsm.upd_st ioS muS hS).
Local Notation call_h := (Fsm.call_h D ioS muS hS mu_lock mu_unlock h_call).
Local Notation parse_write_args := (Fsm.parse_write_args D ioS muS hS mu_lock mu_unlock h_call).
Local Notation process_write_loop := (Fsm.process_write_loop D ioS muS hS mu_lock mu_unlock h_call).
Local Notation pwa_step := (Lemmas_C07e.pwa_step D ioS muS hS mu_lock mu_unlock h_call).
Local Notation pwa_run := (Lemmas_C07e.pwa_run D ioS muS hS mu_lock mu_unlock h_call).

(* ---- P1: the reject step ---- *)
Lemma C04_reject_step : forall (w : world) ci c v data d' ws n,
  k_cmd (k (st w)) = Some ci -> cmd_at D ci = Some c ->
  nth_error (c_vars c) (k_var (k (st w))) = Some v ->
  nth_error (mem (st w)) (v_slot v) = Some data ->
  decode_var v (skipn (k_position (k (st w))) (cbuf (st w))) data = (SErr, d', ws, n) ->
  exists w', parse_write_args w = (w', ST_BUSY) /\
    tr w' = tr w /\ hs w' = hs w /\ io w' = io w /\ mu w' = mu w /\
    st w' = ack_error (st w |> setk_position (k_position (k (st w)) + n)
                            |> set_mem (upd (mem (st w)) (v_slot v) d')).
Proof.
  intros w ci c v data d' ws n Hci Hc Hv Hd He.
  unfold Fsm.parse_write_args. cbv zeta. unfold cmd_of.
  change (g_cmd ATCMD (st w)) with (k_cmd (k (st w))).
  rewrite Hci, Hc, Hv, Hd, He.
  eexists. split; [reflexivity|]. repeat split.
Qed.

(* the same step, seen through the specification of the argument types *)
Lemma reject_step_spec : forall (w : world) ci c v data f after,
  k_cmd (k (st w)) = Some ci -> cmd_at D ci = Some c ->
  nth_error (c_vars c) (k_var (k (st w))) = Some v ->
  nth_error (mem (st w)) (v_slot v) = Some data ->
  v_access v <> RO -> v_size v <= length data ->
  skipn (k_position (k (st w))) (cbuf (st w)) = f ++ after -> In 0%N (f ++ after) ->
  (exists t tail, after = t :: tail /\ is_term t = true) ->
  field_rejected v f after ->
  exists w' d' n, parse_write_args w = (w', ST_BUSY) /\
    tr w' = tr w /\ hs w' = hs w /\ io w' = io w /\ mu w' = mu w /\
    st w' = ack_error (st w |> setk_position (k_position (k (st w)) + n)
                            |> set_mem (upd (mem (st w)) (v_slot v) d')) /\
    (is_numeric (v_type v) = true -> d' = data) /\
    length d' = length data /\ skipn (v_size v) d' = skipn (v_size v) data.
Proof.
  intros w ci c v data f after Hci Hc Hv Hd Hro Hsz Htxt Hnul Hterm Hrej.
  destruct (decode_reject v f after data Hro Hsz Hnul Hterm Hrej)
    as (d' & ws & n & Hdec & B1 & B2 & B3).
  rewrite <- Htxt in Hdec.
  destruct (C04_reject_step w ci c v data d' ws n Hci Hc Hv Hd Hdec)
    as (w' & E & T1 & T2 & T3 & T4 & T5).
  exists w', d', n. repeat split; assumption.
Qed.

Lemma C04_reject_numeric_step : forall (w : world) ci c v data f t tail,
  k_cmd (k (st w)) = Some ci -> cmd_at D ci = Some c ->
  nth_error (c_vars c) (k_var (k (st w))) = Some v ->
  nth_error (mem (st w)) (v_slot v) = Some data ->
  is_numeric (v_type v) = true -> v_access v <> RO -> v_size v <= length data ->
  skipn (k_position (k (st w))) (cbuf (st w)) = f ++ t :: tail ->
  field_ok f = true -> is_term t = true -> num_accepts v f = false ->
  exists w' n, parse_write_args w = (w', ST_BUSY) /\
    tr w' = tr w /\ hs w' = hs w /\ io w' = io w /\ mu w' = mu w /\
    st w' = ack_error (setk_position (k_position (k (st w)) + n) (st w)) /\
    mem (st w') = mem (st w).
Proof.
  intros w ci c v data f t tail Hci Hc Hv Hd Hnum Hro Hsz Htxt Hok Ht Hna.
  pose proof (C04_numeric v f t tail data Hnum Hro Hok Ht Hsz) as H. rewrite Hna in H.
  rewrite <- Htxt in H.
  destruct (C04_reject_step w ci c v data data 0 _ Hci Hc Hv Hd H)
    as (w' & E & T1 & T2 & T3 & T4 & T5).
  rewrite (upd_same _ _ _ _ Hd) in T5.
  exists w', (snd (decode_var v (skipn (k_position (k (st w))) (cbuf (st w))) data)).
  repeat split; try assumption.
  rewrite T5. reflexivity.
Qed.

(* ---- P2: the accept step ---- *)

(* without a variable write callback *)
Lemma accept_step_plain : forall (w : world) ci c v data comma d' ws n,
  k_cmd (k (st w)) = Some ci -> cmd_at D ci = Some c ->
  nth_error (c_vars c) (k_var (k (st w))) = Some v ->
  nth_error (mem (st w)) (v_slot v) = Some data ->
  decode_var v (skipn (k_position (k (st w))) (cbuf (st w))) data = (SOk comma, d', ws, n) ->
  v_hwrite v = false ->
  parse_write_args w = (set_st (pwa_next c comma (pwa_store v d' ws n (st w))) w, ST_BUSY).
Proof.
  intros w ci c v data comma d' ws n Hci Hc Hv Hd He Hw.
  unfold Fsm.parse_write_args. cbv zeta. unfold cmd_of.
  change (g_cmd ATCMD (st w)) with (k_cmd (k (st w))).
  rewrite Hci, Hc, Hv, Hd, He, Hw. reflexivity.
Qed.

(* with a variable write callback: exactly one call, told the variable index, the decoded size
   and the storage as it is after the store; code 0 continues, every other code gives ERROR *)
Lemma accept_step_callback : forall (w : world) ci c v data comma d' ws n,
  k_cmd (k (st w)) = Some ci -> cmd_at D ci = Some c ->
  nth_error (c_vars c) (k_var (k (st w))) = Some v ->
  nth_error (mem (st w)) (v_slot v) = Some data ->
  decode_var v (skipn (k_position (k (st w))) (cbuf (st w))) data = (SOk comma, d', ws, n) ->
  v_hwrite v = true ->
  let s2 := pwa_store v d' ws n (st w) in
  let q := VWrite ci (k_var (k (st w))) ws d' in
  let w1 := fst (call_h (set_st s2 w) q) in let r := snd (call_h (set_st s2 w) q) in
  nth_error (mem s2) (v_slot v) = Some d' /\
  exists w', parse_write_args w = (w', ST_BUSY) /\
    hs w' = hs w1 /\ io w' = io w1 /\ mu w' = mu w1 /\ tr w' = tr w1 /\
    calls_of (tr w') = (q, r_code r) :: calls_of (tr w) /\
    st w' = if (r_code r =? 0)%Z then pwa_next c comma (st w1) else ack_error (st w1).
Proof.
  intros w ci c v data comma d' ws n Hci Hc Hv Hd He Hw. cbv zeta.
  split.
  { unfold pwa_store. cbn. apply (nth_error_upd_same _ _ _ _ _ Hd). }
  unfold Fsm.parse_write_args. cbv zeta. unfold cmd_of.
  change (g_cmd ATCMD (st w)) with (k_cmd (k (st w))).
  rewrite Hci, Hc, Hv, Hd, He, Hw.
  change (setk_write_size ws (set_mem (upd (mem (st w)) (v_slot v) d')
            (setk_position (k_position (k (st w)) + n) (st w))))
    with (pwa_store v d' ws n (st w)).
  pose proof (call_h_calls D ioS muS hS mu_lock mu_unlock h_call
                (set_st (pwa_store v d' ws n (st w)) w)
                (VWrite ci (k_var (k (st w))) ws d')) as Hcalls.
  destruct (call_h (set_st (pwa_store v d' ws n (st w)) w) (VWrite ci (k_var (k (st w))) ws d'))
    as [w1 r].
  cbn [fst snd] in *.
  destruct (r_code r =? 0)%Z; cbn [negb].
  - eexists. split; [reflexivity|]. repeat split. exact Hcalls.
  - eexists. split; [reflexivity|]. repeat split. exact Hcalls.
Qed.

(* ---- the end-of-arguments decision ---- *)
Lemma pwa_next_cases : forall c comma s,
  let idx := S (k_index (k s)) in
  pwa_next c comma s =
    if comma then
      if idx <? length (c_vars c) then setk_var idx (setk_index idx s)   (* next variable *)
      else ack_error (setk_index idx s)                                  (* too many arguments *)
    else if c_need_all c && negb (idx =? length (c_vars c)) then ack_error (setk_index idx s)
    else if c_hwrite c then setk_state CS_WRITE_LOOP (setk_index idx s)
    else ack_ok (setk_index idx s).
Proof.
  intros c comma s. cbv zeta. unfold pwa_next. cbv zeta.
  destruct comma.
  - rewrite andb_true_r. destruct (S (k_index (k s)) <? length (c_vars c)); reflexivity.
  - rewrite andb_false_r.
    destruct (c_need_all c && negb (S (k_index (k s)) =? length (c_vars c))); [reflexivity|].
    destruct (c_hwrite c); reflexivity.
Qed.

(* what the decision leaves untouched *)
Lemma pwa_next_frame : forall c comma s,
  let s' := pwa_next c comma s in
  k_length (k s') = k_length (k s) /\ mem s' = mem s /\ fault s' = fault s /\
  k_cmd (k s') = k_cmd (k s) /\ k_index (k s') = S (k_index (k s)) /\
  (k_state (k s') = k_state (k s) \/ k_state (k s') = CS_WRITE_LOOP \/
   k_state (k s') = CS_FLUSH_WAIT) /\
  (k_state (k s') <> CS_FLUSH_WAIT -> cbuf s' = cbuf s).
Proof.
  intros c comma s. cbv zeta. rewrite pwa_next_cases. cbv zeta.
  destruct comma.
  - destruct (S (k_index (k s)) <? length (c_vars c)); cbn; repeat split; auto.
    intros H. exfalso. apply H. reflexivity.
  - destruct (c_need_all c && negb (S (k_index (k s)) =? length (c_vars c))).
    + cbn. repeat split; auto. intros H. exfalso. apply H. reflexivity.
    + destruct (c_hwrite c); cbn; repeat split; auto.
      intros H. exfalso. apply H. reflexivity.
Qed.

(* ---- C06.P1: the step keeps the collected argument text, its length and the command ---- *)
Lemma pwa_keeps_text : forall (w : world),
  let w' := fst (parse_write_args w) in
  k_length (k (st w')) = k_length (k (st w)) /\ k_cmd (k (st w')) = k_cmd (k (st w)) /\
  ubuf (st w') = ubuf (st w) /\
  (k_state (k (st w')) <> CS_FLUSH_WAIT -> cbuf (st w') = cbuf (st w)) /\
  (k_state (k (st w)) = CS_PARSE_WRITE_ARGS -> k_state (k (st w')) = CS_WRITE_LOOP ->
   k_index (k (st w')) = S (k_index (k (st w)))) /\
  (k_state (k (st w)) = CS_PARSE_WRITE_ARGS ->
   k_state (k (st w')) = CS_PARSE_WRITE_ARGS \/ k_state (k (st w')) = CS_WRITE_LOOP \/
   k_state (k (st w')) = CS_FLUSH_WAIT).
Proof.
  intros w. cbv zeta. unfold Fsm.parse_write_args. cbv zeta.
  destruct (g_cmd ATCMD (st w)) as [ci|]; [|cbn; repeat split; auto; congruence].
  destruct (cmd_of D ATCMD (st w)) as [c|]; [|cbn; repeat split; auto; congruence].
  destruct (nth_error (c_vars c) (k_var (k (st w)))) as [v|]; [|cbn; repeat split; auto; congruence].
  destruct (nth_error (mem (st w)) (v_slot v)) as [data|]; [|cbn; repeat split; auto; congruence].
  destruct (decode_var v (skipn (k_position (k (st w))) (cbuf (st w))) data) as [[[pst d'] ws] n].
  destruct pst as [| |comma].
  - cbn. repeat split; auto; congruence.
  - cbn. repeat split; auto; try congruence; try (intros H; exfalso; apply H; reflexivity).
  - change (setk_write_size ws (set_mem (upd (mem (st w)) (v_slot v) d')
              (setk_position (k_position (k (st w)) + n) (st w))))
      with (pwa_store v d' ws n (st w)).
    destruct (v_hwrite v).
    + pose proof (call_h_kframe D ioS muS hS mu_lock mu_unlock h_call
                    (set_st (pwa_store v d' ws n (st w)) w)
                    (VWrite ci (k_var (k (st w))) ws d')) as HK.
      destruct (call_h (set_st (pwa_store v d' ws n (st w)) w) (VWrite ci (k_var (k (st w))) ws d'))
        as [w1 r].
      cbn [fst] in HK. change (Fsm.st ioS muS hS (set_st (pwa_store v d' ws n (st w)) w))
        with (pwa_store v d' ws n (st w)) in HK.
      pose proof (kframe_k_length _ _ HK) as K1. pose proof (kframe_k_cmd _ _ HK) as K2.
      pose proof (kframe_cbuf _ _ HK) as K3. pose proof (kframe_ubuf _ _ HK) as K4.
      pose proof (kframe_k_index _ _ HK) as K5. pose proof (kframe_k_state _ _ HK) as K6.
      change (k_length (k (pwa_store v d' ws n (st w)))) with (k_length (k (st w))) in K1.
      change (k_cmd (k (pwa_store v d' ws n (st w)))) with (k_cmd (k (st w))) in K2.
      change (cbuf (pwa_store v d' ws n (st w))) with (cbuf (st w)) in K3.
      change (ubuf (pwa_store v d' ws n (st w))) with (ubuf (st w)) in K4.
      change (k_index (k (pwa_store v d' ws n (st w)))) with (k_index (k (st w))) in K5.
      change (k_state (k (pwa_store v d' ws n (st w)))) with (k_state (k (st w))) in K6.
      destruct (negb (r_code r =? 0)%Z).
      * cbn. repeat split; auto; try congruence; try (intros H; exfalso; apply H; reflexivity).
      * match goal with |- context [Fsm.upd_st _ _ _ ?f _] => change f with (pwa_next c comma) end.
        cbn [fst Fsm.busy Fsm.upd_st Fsm.set_st Fsm.st].
        destruct (pwa_next_frame c comma (st w1)) as (F1 & _ & _ & F4 & F5 & F6 & F7).
        assert (ubuf (pwa_next c comma (st w1)) = ubuf (st w1)) as F8.
        { rewrite pwa_next_cases. cbv zeta.
          repeat match goal with |- context [if ?b then _ else _] => destruct b end; reflexivity. }
        repeat split; try congruence;
          try (intros H; rewrite (F7 H); exact K3);
          try (intros H; rewrite H in K6; destruct F6 as [F6|[F6|F6]]; auto; left; congruence).
    + match goal with |- context [Fsm.upd_st _ _ _ ?f _] => change f with (pwa_next c comma) end.
      cbn [fst Fsm.busy Fsm.upd_st Fsm.set_st Fsm.st].
      destruct (pwa_next_frame c comma (pwa_store v d' ws n (st w))) as (F1 & _ & _ & F4 & F5 & F6 & F7).
      assert (ubuf (pwa_next c comma (pwa_store v d' ws n (st w))) = ubuf (st w)) as F8.
      { rewrite pwa_next_cases. cbv zeta.
        repeat match goal with |- context [if ?b then _ else _] => destruct b end; reflexivity. }
      repeat split; try assumption;
        try (intros H; rewrite (F7 H); reflexivity);
        try (intros _ _; exact F5);
        try (intros H; destruct F6 as [F6|[F6|F6]]; auto; left; rewrite F6; exact H).
Qed.

End WriteM.

(* ================================================================== *)
(* 3. list and text helpers for the whole argument list                *)
(* ================================================================== *)

Definition commas (pre : list (list N)) : list N := concat (map (fun f => f ++ [ch_COMMA]) pre).
Definition ccomma (post : list (list N)) : list N := concat (map (fun y => ch_COMMA :: y) post).

Lemma ccomma_mid : forall pre f post,
  ccomma (pre ++ f :: post) = ch_COMMA :: commas pre ++ f ++ ccomma post.
Proof.
  induction pre as [|x pre IH]; intros f post.
  - reflexivity.
  - unfold ccomma, commas in *. cbn [app map concat]. rewrite IH.
    cbn [app]. f_equal. rewrite <- !app_assoc. reflexivity.
Qed.

Lemma join_comma_split : forall pre f post,
  join_comma (pre ++ f :: post) = commas pre ++ f ++ ccomma post.
Proof.
  intros [|x pre] f post.
  - reflexivity.
  - cbn [app join_comma]. fold (ccomma (pre ++ f :: post)). rewrite ccomma_mid.
    unfold commas. cbn [map concat]. rewrite <- !app_assoc. reflexivity.
Qed.

Lemma ccomma_term : forall post tl, exists t tail,
  ccomma post ++ 0%N :: tl = t :: tail /\ is_term t = true.
Proof.
  intros [|y post] tl.
  - exists 0%N, tl. split; reflexivity.
  - unfold ccomma. cbn [map concat app]. eexists _, _. split; reflexivity.
Qed.

Lemma skipn_nth : forall (A : Type) (l : list A) i v vs,
  skipn i l = v :: vs -> nth_error l i = Some v /\ skipn (S i) l = vs.
Proof.
  induction l as [|a l IH]; intros [|i] v vs H; cbn [skipn nth_error] in *; try discriminate.
  - injection H as -> ->. split; reflexivity.
  - exact (IH i v vs H).
Qed.

Lemma nth_skipn : forall (A : Type) (l : list A) i v,
  nth_error l i = Some v -> skipn i l = v :: skipn (S i) l.
Proof.
  induction l as [|a l IH]; intros [|i] v H; cbn [skipn nth_error] in *; try discriminate.
  - injection H as ->. reflexivity.
  - exact (IH i v H).
Qed.

Lemma skipn_plus : forall (A : Type) (l x y : list A) p,
  skipn p l = x ++ y -> skipn (p + length x) l = y.
Proof.
  induction l as [|a l IH]; intros x y [|p] H; cbn [skipn Nat.add] in *.
  - symmetry in H. apply app_eq_nil in H. destruct H as [-> ->]. reflexivity.
  - symmetry in H. apply app_eq_nil in H. destruct H as [-> ->]. reflexivity.
  - rewrite H. apply skipn_app_len.
  - exact (IH x y p H).
Qed.

Lemma field_bytes_len : forall v f bytes ws, field_bytes v f = Some (bytes, ws) ->
  length bytes <= v_size v.
Proof.
  intros v f bytes ws H. unfold field_bytes in H. destruct (v_type v) eqn:Ety.
  1-3: (destruct (num_accepts v f) eqn:Ea; [|discriminate]; injection H as <- <-;
        destruct (C04_stored_value v f [] ltac:(rewrite Ety; reflexivity) Ea) as (Hl & _); lia).
  - unfold hexbuf_accepts in H. destruct (hexbuf_decode f) as [bs|]; [|discriminate].
    destruct (nonempty bs && (length bs <=? v_size v)) eqn:E; [|discriminate].
    injection H as <- <-. apply andb_true_iff in E. destruct E as [_ E].
    apply Nat.leb_le in E. exact E.
  - destruct (str_field f) as [bs|]; [|discriminate].
    destruct (length bs <? v_size v) eqn:E; [|discriminate]. injection H as <- <-.
    apply Nat.ltb_lt in E. rewrite app_length. cbn [length]. lia.
Qed.

Lemma store_front_length : forall bytes data, length bytes <= length data ->
  length (store_front bytes data) = length data.
Proof. intros. unfold store_front. rewrite app_length, skipn_length. lia. Qed.

Lemma mem_fits_upd : forall vs m sl data d, mem_fits vs m ->
  nth_error m sl = Some data -> length d = length data -> mem_fits vs (upd m sl d).
Proof.
  intros vs m sl data d H Hd Hl. unfold mem_fits in *. rewrite Forall_forall in *.
  intros v Hin. destruct (H v Hin) as (dv & Hn & Hs).
  destruct (Nat.eq_dec sl (v_slot v)) as [E|Hne].
  - rewrite <- E in *. exists d. split; [apply (nth_error_upd_same _ _ _ _ _ Hd)|].
    rewrite Hd in Hn. injection Hn as <-. lia.
  - exists dv. split; [rewrite nth_error_upd_other; assumption|exact Hs].
Qed.

Lemma mem_fits_at : forall vs m i v, mem_fits vs m -> nth_error vs i = Some v ->
  exists data, nth_error m (v_slot v) = Some data /\ v_size v <= length data.
Proof.
  intros vs m i v H Hn. unfold mem_fits in H. rewrite Forall_forall in H.
  apply H. apply (nth_error_In _ _ Hn).
Qed.

Lemma store_fields_snoc : forall pre vs f m m',
  store_fields vs (pre ++ [f]) m = Some m' ->
  exists mj v data bytes ws, store_fields vs pre m = Some mj /\
    nth_error vs (length pre) = Some v /\ nth_error mj (v_slot v) = Some data /\
    field_bytes v f = Some (bytes, ws) /\ m' = upd mj (v_slot v) (store_front bytes data).
Proof.
  induction pre as [|x pre IH]; intros vs f m m' H.
  - cbn [app store_fields] in H. destruct vs as [|v vs]; [discriminate|].
    destruct (nth_error m (v_slot v)) as [data|] eqn:Ed; [|discriminate].
    destruct (field_bytes v f) as [[bytes ws]|] eqn:Ef; [|discriminate].
    cbn [store_fields] in H. injection H as <-.
    exists m, v, data, bytes, ws. repeat split; assumption.
  - cbn [app store_fields] in H. destruct vs as [|v vs]; [discriminate|].
    cbn [store_fields length nth_error].
    destruct (nth_error m (v_slot v)) as [data|]; [|discriminate].
    destruct (field_bytes v x) as [[bytes ws]|]; [|discriminate].
    destruct (IH vs f _ m' H) as (mj & v' & data' & bytes' & ws' & H1 & H2 & H3 & H4 & H5).
    exists mj, v', data', bytes', ws'. repeat split; assumption.
Qed.

Lemma store_fields_length : forall fs vs m m', store_fields vs fs m = Some m' ->
  length fs <= length vs.
Proof.
  induction fs as [|f fs IH]; intros vs m m' H; cbn [length]; [lia|].
  cbn [store_fields] in H. destruct vs as [|v vs]; [discriminate|].
  destruct (nth_error m (v_slot v)); [|discriminate].
  destruct (field_bytes v f) as [[bytes ws]|]; [|discriminate].
  specialize (IH vs _ m' H). cbn [length]. lia.
Qed.

(* ---- a string argument does not look behind the NUL ---- *)
Lemma str_body_tail : forall l tl,
  match str_body (l ++ [0%N]) with
  | Some (bs, r) => str_body (l ++ 0%N :: tl) = Some (bs, r ++ tl) /\ r <> []
  | None => str_body (l ++ 0%N :: tl) = None
  end.
Proof.
  induction l as [l IH] using (well_founded_induction
    (Wf_nat.well_founded_ltof _ (@length N))).
  intros tl. destruct l as [|c r].
  - reflexivity.
  - cbn [app str_body]. destruct (c =? 0)%N; [reflexivity|].
    destruct (c =? ch_QUOTE)%N.
    { split; [rewrite <- app_assoc; reflexivity|]. destruct r; discriminate. }
    destruct (c =? ch_BSL)%N.
    + destruct r as [|e r']; cbn [app]; [reflexivity|].
      destruct (unescape e); [|reflexivity].
      specialize (IH r' ltac:(unfold ltof; cbn [length]; lia) tl).
      destruct (str_body (r' ++ [0%N])) as [[bs rest]|].
      * destruct IH as [IH1 IH2]. rewrite IH1. split; [reflexivity|exact IH2].
      * rewrite IH. reflexivity.
    + specialize (IH r ltac:(unfold ltof; cbn [length]; lia) tl).
      destruct (str_body (r ++ [0%N])) as [[bs rest]|].
      * destruct IH as [IH1 IH2]. rewrite IH1. split; [reflexivity|exact IH2].
      * rewrite IH. reflexivity.
Qed.

Lemma str_decode_tail : forall l tl,
  match str_decode (l ++ [0%N]) with
  | Some (bs, cm, _) => exists n, str_decode (l ++ 0%N :: tl) = Some (bs, cm, n)
  | None => str_decode (l ++ 0%N :: tl) = None
  end.
Proof.
  intros [|q r] tl; [reflexivity|].
  unfold str_decode. cbn [app]. destruct (q =? ch_QUOTE)%N; [|reflexivity].
  pose proof (str_body_tail r tl) as H.
  destruct (str_body (r ++ [0%N])) as [[bs rest]|].
  - destruct H as [H1 H2]. rewrite H1. destruct rest as [|t rest]; [congruence|].
    cbn [app]. destruct (is_term t); [|reflexivity]. eexists. reflexivity.
  - rewrite H. reflexivity.
Qed.

Lemma field_rejected_tail : forall v f x tl,
  field_rejected v f (x ++ [0%N]) -> field_rejected v f (x ++ 0%N :: tl).
Proof.
  intros v f x tl H. unfold field_rejected in *. destruct (v_type v); try exact H.
  rewrite app_assoc in H |- *.
  pose proof (str_decode_tail (f ++ x) tl) as T.
  destruct (str_decode ((f ++ x) ++ [0%N])) as [[[bs cm] n]|].
  - destruct T as (n' & ->). exact H.
  - rewrite T. exact I.
Qed.

(* ================================================================== *)
(* 4. the whole argument list as a run of the step                     *)
(* ================================================================== *)

Lemma wst_init : forall s0, k_position (k s0) = 0 -> k_index (k s0) = 0 -> k_var (k s0) = 0 ->
  s0 = wst s0 0 (k_write_size (k s0)) 0 0 (mem s0).
Proof.
  intros [k0 u0 cb ub m dc dg fl g1 g2 g3] H1 H2 H3. destruct k0. cbn in *. subst. reflexivity.
Qed.

Section WriteRun.
Variable D : desc.
Variables ioS muS hS : Type.
Variable mu_lock : muS -> muS * bool.
Variable mu_unlock : muS -> muS * bool.
Variable h_call : hS -> hreq -> hS * hres.

Local Notation world := (Fsm.world ioS muS hS).
Local Notation st := (Fsm.st ioS muS hS).
Local Notation io := (Fsm.io ioS muS hS).
Local Notation mu := (Fsm.mu ioS muS hS).
Local Notation hs := (Fsm.hs ioS muS hS).
Local Notation tr := (Fsm.tr ioS muS hS).
Local Notation set_st := (Fsm.set_st ioS muS hS).
Local Notation parse_write_args := (Fsm.parse_write_args D ioS muS hS mu_lock mu_unlock h_call).
Local Notation process_write_loop := (Fsm.process_write_loop D ioS muS hS mu_lock mu_unlock h_call).
Local Notation pwa_step := (Lemmas_C07e.pwa_step D ioS muS hS mu_lock mu_unlock h_call).
Local Notation pwa_run := (Lemmas_C07e.pwa_run D ioS muS hS mu_lock mu_unlock h_call).

Lemma pwa_run_stop : forall n (w : world), k_state (k (st w)) <> CS_PARSE_WRITE_ARGS ->
  pwa_run n w = w.
Proof.
  intros [|n] w H; [reflexivity|]. cbn [Lemmas_C07e.pwa_run].
  destruct (k_state (k (st w))); try reflexivity. congruence.
Qed.

(* the situation of the run: s0 is the state when CS_PARSE_WRITE_ARGS was entered *)
Section Fixed.
Variables (s0 : state) (ci : nat) (c : cmd).
Hypothesis Hstate : k_state (k s0) = CS_PARSE_WRITE_ARGS.
Hypothesis Hci : k_cmd (k s0) = Some ci.
Hypothesis Hc : cmd_at D ci = Some c.

(* one accepted field *)
Lemma wstep_accept : forall (w : world) p ws i m v data f t tail bytes ws',
  st w = wst s0 p ws i i m ->
  nth_error (c_vars c) i = Some v -> plain_wvar v ->
  nth_error m (v_slot v) = Some data -> v_size v <= length data ->
  skipn p (cbuf s0) = f ++ t :: tail -> is_term t = true -> In 0%N (f ++ t :: tail) ->
  (v_type v <> VBufStr -> field_ok f = true) ->
  field_bytes v f = Some (bytes, ws') ->
  k_state (k (st w)) = CS_PARSE_WRITE_ARGS /\
  pwa_step w = set_st (pwa_next c (t =? ch_COMMA)%N
                 (wst s0 (p + S (length f)) ws' i i (upd m (v_slot v) (store_front bytes data)))) w.
Proof.
  intros w p ws i m v data f t tail bytes ws' Hst Hv (Hro & Hw) Hd Hsz Htxt Ht Hnul Hshape Hfb.
  split; [rewrite Hst; exact Hstate|].
  unfold Lemmas_C07e.pwa_step.
  rewrite (accept_step_plain D ioS muS hS mu_lock mu_unlock h_call w ci c v data
             (t =? ch_COMMA)%N (store_front bytes data) ws' (S (length f))).
  - cbn [fst]. rewrite Hst. reflexivity.
  - rewrite Hst. exact Hci.
  - exact Hc.
  - rewrite Hst. exact Hv.
  - rewrite Hst. exact Hd.
  - rewrite Hst. change (k_position (k (wst s0 p ws i i m))) with p.
    change (cbuf (wst s0 p ws i i m)) with (cbuf s0). rewrite Htxt.
    apply decode_accept; assumption.
  - exact Hw.
Qed.

(* one rejected field *)
Lemma wstep_reject : forall (w : world) p ws i m v data f after,
  st w = wst s0 p ws i i m ->
  nth_error (c_vars c) i = Some v -> plain_wvar v ->
  nth_error m (v_slot v) = Some data -> v_size v <= length data ->
  skipn p (cbuf s0) = f ++ after -> In 0%N (f ++ after) ->
  (exists t tail, after = t :: tail /\ is_term t = true) ->
  field_rejected v f after ->
  k_state (k (st w)) = CS_PARSE_WRITE_ARGS /\
  exists d' n, pwa_step w = set_st (ack_error (wst s0 (p + n) ws i i (upd m (v_slot v) d'))) w /\
    (is_numeric (v_type v) = true -> d' = data) /\
    length d' = length data /\ skipn (v_size v) d' = skipn (v_size v) data.
Proof.
  intros w p ws i m v data f after Hst Hv (Hro & Hw) Hd Hsz Htxt Hnul Hterm Hrej.
  split; [rewrite Hst; exact Hstate|].
  destruct (reject_step_spec D ioS muS hS mu_lock mu_unlock h_call w ci c v data f after)
    as (w' & d' & n & E & T1 & T2 & T3 & T4 & T5 & B); try assumption;
    try (rewrite Hst; assumption).
  exists d', n. split; [|exact B].
  unfold Lemmas_C07e.pwa_step. rewrite E. cbn [fst].
  destruct w' as [s' i' m' h' t']. destruct w as [s1 i1 m1 h1 t1].
  cbn [Fsm.st Fsm.io Fsm.mu Fsm.hs Fsm.tr Fsm.set_st] in *. subst. reflexivity.
Qed.

(* the accepted fields that are followed by a comma and for which there is a next variable *)
Lemma run_commas : Forall plain_wvar (c_vars c) ->
  forall pre i p ws m m' rest (w : world) fuel,
  st w = wst s0 p ws i i m ->
  skipn p (cbuf s0) = commas pre ++ rest -> In 0%N rest ->
  store_fields (skipn i (c_vars c)) pre m = Some m' ->
  mem_fits (c_vars c) m -> fields_shaped (skipn i (c_vars c)) pre ->
  i + length pre < length (c_vars c) ->
  mem_fits (c_vars c) m' /\
  exists ws', pwa_run (length pre + fuel) w
    = pwa_run fuel (set_st (wst s0 (p + length (commas pre)) ws' (i + length pre) (i + length pre) m') w).
Proof.
  intros Hplain. induction pre as [|f pre IH]; intros i p ws m m' rest w fuel Hst Htxt Hnul Hsf Hfit Hsh Hlt.
  - cbn [store_fields] in Hsf. injection Hsf as <-. split; [exact Hfit|]. exists ws.
    cbn [length commas map concat Nat.add]. rewrite !Nat.add_0_r.
    destruct w as [s1 i1 m1 h1 t1]. cbn [Fsm.st] in Hst. subst s1. reflexivity.
  - cbn [store_fields] in Hsf.
    destruct (skipn i (c_vars c)) as [|v vs'] eqn:Esk; [discriminate|].
    destruct (skipn_nth _ _ _ _ _ Esk) as (Hv & Esk').
    destruct (nth_error m (v_slot v)) as [data|] eqn:Ed; [|discriminate].
    destruct (field_bytes v f) as [[bytes ws1]|] eqn:Ef; [|discriminate].
    destruct (mem_fits_at _ _ _ _ Hfit Hv) as (data0 & Ed0 & Hsz).
    rewrite Ed in Ed0. injection Ed0 as <-.
    assert (Hpv : plain_wvar v).
    { rewrite Forall_forall in Hplain. apply Hplain. apply (nth_error_In _ _ Hv). }
    unfold commas in Htxt. cbn [map concat] in Htxt. fold (commas pre) in Htxt.
    rewrite <- !app_assoc in Htxt. cbn [app] in Htxt.
    destruct (wstep_accept w p ws i m v data f ch_COMMA (commas pre ++ rest) bytes ws1
                Hst Hv Hpv Ed Hsz Htxt eq_refl) as (Hs & Hstep).
    { apply in_or_app. right. right. apply in_or_app. right. exact Hnul. }
    { intros Hty. apply (Hsh 0 v f eq_refl eq_refl Hty). }
    { exact Ef. }
    change (length (f :: pre) + fuel) with (S (length pre + fuel)).
    rewrite pwa_run_S, Hs. cbn [cstate_beq]. rewrite Hstep.
    change (ch_COMMA =? ch_COMMA)%N with true.
    rewrite pwa_next_cases. cbv zeta.
    change (k_index (k (wst s0 (p + S (length f)) ws1 i i
              (upd m (v_slot v) (store_front bytes data))))) with i.
    replace (S i <? length (c_vars c)) with true
      by (symmetry; apply Nat.ltb_lt; cbn [length] in Hlt; lia).
    set (m1 := upd m (v_slot v) (store_front bytes data)) in *.
    assert (Hfit1 : mem_fits (c_vars c) m1).
    { apply (mem_fits_upd _ _ _ data _ Hfit Ed). apply store_front_length.
      pose proof (field_bytes_len _ _ _ _ Ef). lia. }
    specialize (IH (S i) (p + S (length f)) ws1 m1 m' rest
                   (set_st (wst s0 (p + S (length f)) ws1 (S i) (S i) m1) w) fuel eq_refl).
    destruct IH as (Hfit' & ws' & IH).
    + replace (p + S (length f)) with (p + length (f ++ [ch_COMMA]))
        by (rewrite app_length; cbn [length]; lia).
      apply skipn_plus. rewrite <- app_assoc. exact Htxt.
    + exact Hnul.
    + rewrite Esk'. exact Hsf.
    + exact Hfit1.
    + rewrite Esk'. intros j v' f' H1 H2. apply (Hsh (S j) v' f' H1 H2).
    + cbn [length] in Hlt. lia.
    + split; [exact Hfit'|]. exists ws'.
      change (setk_var (S i) (setk_index (S i) (wst s0 (p + S (length f)) ws1 i i m1)))
        with (wst s0 (p + S (length f)) ws1 (S i) (S i) m1).
      rewrite IH. rewrite !set_st_set_st.
      unfold commas. cbn [map concat length]. fold (commas pre).
      rewrite !app_length. cbn [length].
      replace (p + S (length f) + length (commas pre))
        with (p + (length f + 1 + length (commas pre))) by lia.
      replace (S i + length pre) with (i + S (length pre)) by lia. reflexivity.
Qed.

End Fixed.

(* ---- the top-level statements ---- *)

(* CS_PARSE_WRITE_ARGS has just been entered (parse_command_args, LF branch) for command ci with
   the argument text args collected in the buffer (Properties_C06.C06_collect) *)
Definition args_ready (w : world) (ci : nat) (c : cmd) (args : list N) : Prop :=
  k_state (k (st w)) = CS_PARSE_WRITE_ARGS /\ k_cmd (k (st w)) = Some ci /\ cmd_at D ci = Some c /\
  k_position (k (st w)) = 0 /\ k_index (k (st w)) = 0 /\ k_var (k (st w)) = 0 /\
  firstn (S (length args)) (cbuf (st w)) = args ++ [0%N] /\
  Forall plain_wvar (c_vars c) /\ mem_fits (c_vars c) (mem (st w)).

Lemma fields_shaped_app : forall vs pre post, fields_shaped vs (pre ++ post) -> fields_shaped vs pre.
Proof.
  intros vs pre post H i v f H1 H2. apply (H i v f H1).
  rewrite nth_error_app1; [exact H2|]. apply nth_error_Some. congruence.
Qed.

(* every field accepted *)
Lemma write_args_accept : forall (w : world) ci c fields m' fuel,
  args_ready w ci c (join_comma fields) -> fields <> [] ->
  fields_shaped (c_vars c) fields ->
  store_fields (c_vars c) fields (mem (st w)) = Some m' ->
  length fields <= fuel ->
  exists ws, pwa_run fuel w = set_st
    ((if c_need_all c && negb (length fields =? length (c_vars c)) then ack_error
      else if c_hwrite c then setk_state CS_WRITE_LOOP else ack_ok)
     (wst (st w) (S (length (join_comma fields))) ws (length fields) (length fields - 1) m')) w.
Proof.
  intros w ci c fields m' fuel (R1 & R2 & R3 & R4 & R5 & R6 & R7 & R8 & R9) Hne Hsh Hsf Hfuel.
  destruct (exists_last Hne) as (pre & f & ->).
  destruct (store_fields_snoc _ _ _ _ _ Hsf) as (mj & v & data & bytes & ws1 & S1 & S2 & S3 & S4 & ->).
  apply firstn_app_nul in R7. set (tl := skipn (S (length (join_comma (pre ++ [f])))) (cbuf (st w))) in R7.
  rewrite join_comma_split in R7. unfold ccomma in R7. cbn [map concat] in R7.
  rewrite app_nil_r, <- !app_assoc in R7. cbn [app] in R7.
  assert (Hlt : length pre < length (c_vars c)) by (apply nth_error_Some; congruence).
  rewrite app_length in Hfuel |- *. cbn [length] in Hfuel |- *.
  destruct (run_commas (st w) ci c R1 R2 R3 R8 pre 0 0 (k_write_size (k (st w))) (mem (st w)) mj
              (f ++ 0%N :: tl) w (fuel - length pre)) as (Hfit & ws' & Hrun).
  - apply wst_init; assumption.
  - exact R7.
  - apply in_or_app. right. left. reflexivity.
  - exact S1.
  - exact R9.
  - apply (fields_shaped_app _ _ _ Hsh).
  - cbn [Nat.add]. exact Hlt.
  - replace (length pre + (fuel - length pre)) with fuel in Hrun by lia.
    rewrite Hrun. cbn [Nat.add].
    destruct (fuel - length pre) as [|fuel'] eqn:Ef; [lia|].
    destruct (mem_fits_at _ _ _ _ Hfit S2) as (data0 & Ed0 & Hsz).
    rewrite S3 in Ed0. injection Ed0 as <-.
    assert (Hpv : plain_wvar v).
    { rewrite Forall_forall in R8. apply R8. apply (nth_error_In _ _ S2). }
    destruct (wstep_accept (st w) ci c R1 R2 R3
                (set_st (wst (st w) (length (commas pre)) ws' (length pre) (length pre) mj) w)
                (length (commas pre)) ws' (length pre) mj v data f 0%N tl bytes ws1
                eq_refl S2 Hpv S3 Hsz) as (Hs & Hstep); try assumption; try reflexivity.
    { apply (skipn_plus _ _ _ _ 0). exact R7. }
    { apply in_or_app. right. left. reflexivity. }
    { intros Hty. apply (Hsh (length pre) v f S2); [|exact Hty].
      rewrite nth_error_app2, Nat.sub_diag; [reflexivity|lia]. }
    rewrite pwa_run_S, Hs. cbn [cstate_beq]. rewrite Hstep, set_st_set_st.
    change (0 =? ch_COMMA)%N with false.
    rewrite pwa_next_cases. cbv zeta.
    match goal with |- context [k_index (k (wst ?a ?b ?cc ?d ?e ?g))] =>
      change (k_index (k (wst a b cc d e g))) with d end.
    replace (length pre + 1) with (S (length pre)) by lia.
    replace (S (length pre) - 1) with (length pre) by lia.
    rewrite join_comma_split.
    replace (S (length (commas pre ++ f ++ ccomma []))) with (length (commas pre) + S (length f)).
    2:{ unfold ccomma. cbn [map concat]. rewrite !app_length. cbn [length]. lia. }
    exists ws1.
    destruct (c_need_all c && negb (S (length pre) =? length (c_vars c)));
      [|destruct (c_hwrite c)]; (rewrite pwa_run_stop; [reflexivity|cbn; discriminate]).
Qed.

(* the first field that is not accepted *)
Lemma write_args_reject : forall (w : world) ci c pre f post v data mj fuel,
  args_ready w ci c (join_comma (pre ++ f :: post)) ->
  fields_shaped (c_vars c) pre ->
  store_fields (c_vars c) pre (mem (st w)) = Some mj ->
  nth_error (c_vars c) (length pre) = Some v -> nth_error mj (v_slot v) = Some data ->
  field_rejected v f (ccomma post ++ [0%N]) ->
  length pre < fuel ->
  exists d' p ws,
    pwa_run fuel w = set_st (ack_error (wst (st w) p ws (length pre) (length pre)
                                            (upd mj (v_slot v) d'))) w /\
    (is_numeric (v_type v) = true -> d' = data) /\
    length d' = length data /\ skipn (v_size v) d' = skipn (v_size v) data.
Proof.
  intros w ci c pre f post v data mj fuel (R1 & R2 & R3 & R4 & R5 & R6 & R7 & R8 & R9)
         Hsh Hsf Hv Hd Hrej Hfuel.
  apply firstn_app_nul in R7.
  set (tl := skipn (S (length (join_comma (pre ++ f :: post)))) (cbuf (st w))) in R7.
  rewrite join_comma_split in R7. rewrite <- !app_assoc in R7.
  assert (Hlt : length pre < length (c_vars c)) by (apply nth_error_Some; congruence).
  destruct (run_commas (st w) ci c R1 R2 R3 R8 pre 0 0 (k_write_size (k (st w))) (mem (st w)) mj
              (f ++ ccomma post ++ 0%N :: tl) w (fuel - length pre)) as (Hfit & ws' & Hrun).
  - apply wst_init; assumption.
  - exact R7.
  - apply in_or_app. right. apply in_or_app. right. left. reflexivity.
  - exact Hsf.
  - exact R9.
  - exact Hsh.
  - cbn [Nat.add]. exact Hlt.
  - replace (length pre + (fuel - length pre)) with fuel in Hrun by lia.
    rewrite Hrun. cbn [Nat.add].
    destruct (fuel - length pre) as [|fuel'] eqn:Ef; [lia|].
    destruct (mem_fits_at _ _ _ _ Hfit Hv) as (data0 & Ed0 & Hsz).
    rewrite Hd in Ed0. injection Ed0 as <-.
    assert (Hpv : plain_wvar v).
    { rewrite Forall_forall in R8. apply R8. apply (nth_error_In _ _ Hv). }
    destruct (wstep_reject (st w) ci c R1 R2 R3
                (set_st (wst (st w) (length (commas pre)) ws' (length pre) (length pre) mj) w)
                (length (commas pre)) ws' (length pre) mj v data f (ccomma post ++ 0%N :: tl)
                eq_refl Hv Hpv Hd Hsz) as (Hs & d' & n & Hstep & B).
    { apply (skipn_plus _ _ _ _ 0). exact R7. }
    { apply in_or_app. right. apply in_or_app. right. left. reflexivity. }
    { apply ccomma_term. }
    { apply field_rejected_tail. exact Hrej. }
    rewrite pwa_run_S, Hs. cbn [cstate_beq]. rewrite Hstep, set_st_set_st.
    exists d', (length (commas pre) + n), ws'. split; [|exact B].
    apply pwa_run_stop. cbn. discriminate.
Qed.

(* more fields than variables *)
Lemma write_args_too_many : forall (w : world) ci c pre f post m' fuel,
  args_ready w ci c (join_comma (pre ++ f :: post)) ->
  fields_shaped (c_vars c) pre ->
  store_fields (c_vars c) pre (mem (st w)) = Some m' ->
  length pre = length (c_vars c) -> pre <> [] -> length pre <= fuel ->
  exists ws, pwa_run fuel w = set_st (ack_error (wst (st w) (length (commas pre)) ws
                                         (length pre) (length pre - 1) m')) w.
Proof.
  intros w ci c pre0 f post m' fuel (R1 & R2 & R3 & R4 & R5 & R6 & R7 & R8 & R9)
         Hsh Hsf Hlen Hne Hfuel.
  destruct (exists_last Hne) as (pre & fl & ->).
  destruct (store_fields_snoc _ _ _ _ _ Hsf) as (mj & v & data & bytes & ws1 & S1 & S2 & S3 & S4 & ->).
  apply firstn_app_nul in R7.
  set (tl := skipn (S (length (join_comma ((pre ++ [fl]) ++ f :: post)))) (cbuf (st w))) in R7.
  rewrite <- app_assoc in R7. cbn [app] in R7.
  rewrite join_comma_split in R7. unfold ccomma in R7. cbn [map concat] in R7.
  fold (ccomma post) in R7. rewrite <- !app_assoc in R7. cbn [app] in R7.
  assert (Hlt : length pre < length (c_vars c)) by (apply nth_error_Some; congruence).
  rewrite app_length in Hfuel, Hlen |- *. cbn [length] in Hfuel, Hlen |- *.
  destruct (run_commas (st w) ci c R1 R2 R3 R8 pre 0 0 (k_write_size (k (st w))) (mem (st w)) mj
              (fl ++ ch_COMMA :: f ++ ccomma post ++ 0%N :: tl) w (fuel - length pre))
    as (Hfit & ws' & Hrun).
  - apply wst_init; assumption.
  - exact R7.
  - apply in_or_app. right. right. apply in_or_app. right. apply in_or_app. right. left. reflexivity.
  - exact S1.
  - exact R9.
  - apply (fields_shaped_app _ _ _ Hsh).
  - cbn [Nat.add]. exact Hlt.
  - replace (length pre + (fuel - length pre)) with fuel in Hrun by lia.
    rewrite Hrun. cbn [Nat.add].
    destruct (fuel - length pre) as [|fuel'] eqn:Ef; [lia|].
    destruct (mem_fits_at _ _ _ _ Hfit S2) as (data0 & Ed0 & Hsz).
    rewrite S3 in Ed0. injection Ed0 as <-.
    assert (Hpv : plain_wvar v).
    { rewrite Forall_forall in R8. apply R8. apply (nth_error_In _ _ S2). }
    destruct (wstep_accept (st w) ci c R1 R2 R3
                (set_st (wst (st w) (length (commas pre)) ws' (length pre) (length pre) mj) w)
                (length (commas pre)) ws' (length pre) mj v data fl ch_COMMA
                (f ++ ccomma post ++ 0%N :: tl) bytes ws1
                eq_refl S2 Hpv S3 Hsz) as (Hs & Hstep); try assumption; try reflexivity.
    { apply (skipn_plus _ _ _ _ 0). exact R7. }
    { apply in_or_app. right. right. apply in_or_app. right. apply in_or_app. right. left. reflexivity. }
    { intros Hty. apply (Hsh (length pre) v fl S2); [|exact Hty].
      rewrite nth_error_app2, Nat.sub_diag; [reflexivity|lia]. }
    rewrite pwa_run_S, Hs. cbn [cstate_beq]. rewrite Hstep, set_st_set_st.
    change (ch_COMMA =? ch_COMMA)%N with true.
    rewrite pwa_next_cases. cbv zeta.
    match goal with |- context [k_index (k (wst ?a ?b ?cc ?d ?e ?g))] =>
      change (k_index (k (wst a b cc d e g))) with d end.
    replace (S (length pre) <? length (c_vars c)) with false by (symmetry; apply Nat.ltb_ge; lia).
    replace (length pre + 1) with (S (length pre)) by lia.
    replace (S (length pre) - 1) with (length pre) by lia.
    replace (length (commas (pre ++ [fl]))) with (length (commas pre) + S (length fl)).
    2:{ unfold commas. rewrite map_app, concat_app. cbn [map concat].
        rewrite !app_length. cbn [length]. lia. }
    exists ws1. rewrite pwa_run_stop; [reflexivity|cbn; discriminate].
Qed.

(* ---- P4: what the write handler is given after PARSE_WRITE_ARGS ---- *)

(* any step of parse_write_args that ends in CS_WRITE_LOOP (callbacks allowed) *)
Lemma C06_write_handler_text : forall (w : world) ci a,
  k_state (k (st w)) = CS_PARSE_WRITE_ARGS -> k_cmd (k (st w)) = Some ci ->
  k_length (k (st w)) = length a -> firstn (S (length a)) (cbuf (st w)) = a ++ [0%N] ->
  let w1 := fst (parse_write_args w) in
  k_state (k (st w1)) = CS_WRITE_LOOP ->
  exists code rest,
    tr (fst (process_write_loop w1)) =
      rest ++ ECall (HWrite ci (a ++ [0%N]) (length a) (S (k_index (k (st w))))) code :: tr w1
    /\ forallb (fun e => match e with ECall _ _ => false | _ => true end) rest = true.
Proof.
  intros w ci a Hs Hc Hl Hb w1 Hs1.
  destruct (pwa_keeps_text D ioS muS hS mu_lock mu_unlock h_call w) as (K1 & K2 & _ & K4 & K5 & _).
  fold w1 in K1, K2, K4, K5.
  rewrite <- (K5 Hs Hs1).
  apply (C06_write_handler_args D ioS muS hS mu_lock mu_unlock h_call w1 ci a Hs1).
  - rewrite K2. exact Hc.
  - rewrite K1. exact Hl.
  - rewrite K4; [exact Hb|]. rewrite Hs1. discriminate.
Qed.

(* the whole accepted argument list, then the first call of the write handler *)
Lemma C06_write_args_handler : forall (w : world) ci c fields m' fuel,
  args_ready w ci c (join_comma fields) -> fields <> [] ->
  fields_shaped (c_vars c) fields ->
  store_fields (c_vars c) fields (mem (st w)) = Some m' ->
  length fields <= fuel ->
  k_length (k (st w)) = length (join_comma fields) ->
  c_hwrite c = true -> (c_need_all c = true -> length fields = length (c_vars c)) ->
  let w1 := pwa_run fuel w in
  k_state (k (st w1)) = CS_WRITE_LOOP /\ k_index (k (st w1)) = length fields /\
  mem (st w1) = m' /\ tr w1 = tr w /\ hs w1 = hs w /\
  exists code rest,
    tr (fst (process_write_loop w1)) =
      rest ++ ECall (HWrite ci (join_comma fields ++ [0%N]) (length (join_comma fields))
                            (length fields)) code :: tr w
    /\ forallb (fun e => match e with ECall _ _ => false | _ => true end) rest = true.
Proof.
  intros w ci c fields m' fuel HR Hne Hsh Hsf Hfuel Hlen Hw Hna w1.
  destruct (write_args_accept w ci c fields m' fuel HR Hne Hsh Hsf Hfuel) as (ws & E).
  destruct HR as (R1 & R2 & R3 & R4 & R5 & R6 & R7 & R8 & R9).
  replace (c_need_all c && negb (length fields =? length (c_vars c))) with false in E.
  2:{ symmetry. destruct (c_need_all c); [|reflexivity]. rewrite (Hna eq_refl), Nat.eqb_refl.
      reflexivity. }
  rewrite Hw in E. subst w1. rewrite E.
  split; [reflexivity|]. split; [reflexivity|]. split; [reflexivity|].
  split; [reflexivity|]. split; [reflexivity|].
  match goal with |- context [process_write_loop ?ww] =>
    destruct (C06_write_handler_args D ioS muS hS mu_lock mu_unlock h_call ww ci
                (join_comma fields)) as (code & rest & T & N) end.
  - reflexivity.
  - exact R2.
  - exact Hlen.
  - exact R7.
  - exists code, rest. split; [exact T|exact N].
Qed.

End WriteRun.

(* ================================================================== *)
(* 5. the specification fold, read variable by variable                *)
(* ================================================================== *)

Lemma in_firstn : forall (A : Type) n (l : list A) x, In x (firstn n l) -> In x l.
Proof.
  induction n as [|n IH]; intros [|a l] x H; cbn [firstn] in H; try contradiction.
  destruct H as [H|H]; [left; exact H|right; exact (IH l x H)].
Qed.

Lemma store_fields_values : forall fs vs m m', NoDup (map v_slot vs) ->
  store_fields vs fs m = Some m' ->
  (forall i v f, nth_error vs i = Some v -> nth_error fs i = Some f ->
     exists data bytes ws, nth_error m (v_slot v) = Some data /\
       field_bytes v f = Some (bytes, ws) /\
       nth_error m' (v_slot v) = Some (store_front bytes data)) /\
  (forall sl, ~ In sl (map v_slot (firstn (length fs) vs)) -> nth_error m' sl = nth_error m sl).
Proof.
  induction fs as [|f fs IH]; intros vs m m' Hnd H; cbn [store_fields] in H.
  - injection H as <-. split; [intros [|i] v f' _ Hf; discriminate|reflexivity].
  - destruct vs as [|v vs]; [discriminate|].
    destruct (nth_error m (v_slot v)) as [data|] eqn:Ed; [|discriminate].
    destruct (field_bytes v f) as [[bytes ws]|] eqn:Ef; [|discriminate].
    cbn [map] in Hnd. inversion Hnd as [|? ? Hnotin Hnd']; subst.
    destruct (IH vs _ m' Hnd' H) as (IH1 & IH2).
    assert (Hnf : ~ In (v_slot v) (map v_slot (firstn (length fs) vs))).
    { intros Hin. apply Hnotin. apply in_map_iff in Hin. destruct Hin as (x & Ex & Hx).
      apply in_map_iff. exists x. split; [exact Ex|]. apply (in_firstn _ _ _ _ Hx). }
    split.
    + intros [|i] v' f' Hv Hf; cbn [nth_error] in Hv, Hf.
      * injection Hv as <-. injection Hf as <-. exists data, bytes, ws.
        split; [exact Ed|]. split; [exact Ef|].
        rewrite (IH2 _ Hnf). apply (nth_error_upd_same _ _ _ _ _ Ed).
      * destruct (IH1 i v' f' Hv Hf) as (data' & bytes' & ws' & H1 & H2 & H3).
        exists data', bytes', ws'. split; [|split; assumption].
        rewrite nth_error_upd_other in H1; [exact H1|].
        intros E. apply Hnotin. rewrite E. apply in_map. apply (nth_error_In _ _ Hv).
    + intros sl Hsl. cbn [length firstn map] in Hsl.
      rewrite IH2; [|intros Hin; apply Hsl; right; exact Hin].
      apply nth_error_upd_other. intros E. apply Hsl. left. exact E.
Qed.

Lemma upd_nth_some : forall (A : Type) (l : list A) i j x,
  nth_error l j <> None -> nth_error (upd l i x) j <> None.
Proof.
  intros A l i j x H. destruct (Nat.eq_dec i j) as [<-|Hne].
  - destruct (nth_error l i) as [y|] eqn:E; [|congruence].
    rewrite (nth_error_upd_same _ _ _ _ _ E). discriminate.
  - rewrite nth_error_upd_other; assumption.
Qed.

(* the fold succeeds exactly when every field is accepted by its variable *)
Lemma store_fields_some : forall fs vs m, length fs <= length vs ->
  (forall v, In v vs -> nth_error m (v_slot v) <> None) ->
  (forall i v f, nth_error vs i = Some v -> nth_error fs i = Some f -> field_bytes v f <> None) ->
  exists m', store_fields vs fs m = Some m'.
Proof.
  induction fs as [|f fs IH]; intros vs m Hl Hm Hf; cbn [store_fields].
  - exists m. reflexivity.
  - destruct vs as [|v vs]; [cbn [length] in Hl; lia|].
    destruct (nth_error m (v_slot v)) as [data|] eqn:Ed; [|exfalso; apply (Hm v (or_introl eq_refl) Ed)].
    destruct (field_bytes v f) as [[bytes ws]|] eqn:Ef; [|exfalso; apply (Hf 0 v f eq_refl eq_refl Ef)].
    apply IH.
    + cbn [length] in Hl. lia.
    + intros v' Hin. apply upd_nth_some. apply Hm. right. exact Hin.
    + intros i v' f' H1 H2. apply (Hf (S i) v' f' H1 H2).
Qed.

Lemma store_fields_none : forall fs vs m i v f, store_fields vs fs m <> None ->
  nth_error vs i = Some v -> nth_error fs i = Some f -> field_bytes v f <> None.
Proof.
  induction fs as [|f0 fs IH]; intros vs m i v f H Hv Hf; [destruct i; discriminate|].
  cbn [store_fields] in H. destruct vs as [|v0 vs]; [destruct i; discriminate|].
  destruct (nth_error m (v_slot v0)) as [data|]; [|congruence].
  destruct (field_bytes v0 f0) as [[bytes ws]|] eqn:Ef; [|congruence].
  destruct i as [|i]; cbn [nth_error] in Hv, Hf.
  - injection Hv as <-. injection Hf as <-. rewrite Ef. discriminate.
  - apply (IH vs _ i v f H Hv Hf).
Qed.

(* ---- field_bytes, type by type ---- *)
Lemma field_bytes_numeric : forall v f, is_numeric (v_type v) = true ->
  field_bytes v f = if num_accepts v f then Some (num_encode v f, v_size v) else None.
Proof. intros v f H. unfold field_bytes. destruct (v_type v); try discriminate; reflexivity. Qed.

Lemma field_bytes_hexbuf : forall v f, v_type v = VBufHex ->
  field_bytes v f = match hexbuf_accepts (v_size v) f with
                    | Some bs => Some (bs, length bs) | None => None end.
Proof. intros v f H. unfold field_bytes. rewrite H. reflexivity. Qed.

Lemma field_bytes_string : forall v f, v_type v = VBufStr ->
  field_bytes v f = match str_field f with
                    | Some bs => if length bs <? v_size v then Some (bs ++ [0%N], length bs) else None
                    | None => None end.
Proof. intros v f H. unfold field_bytes. rewrite H. reflexivity. Qed.

(* ================================================================== *)
(* 6. buffer types and the variable write callback (C05)               *)
(* ================================================================== *)
Section WriteC05.
Variable D : desc.
Variables ioS muS hS : Type.
Variable mu_lock : muS -> muS * bool.
Variable mu_unlock : muS -> muS * bool.
Variable h_call : hS -> hreq -> hS * hres.

Local Notation world := (Fsm.world ioS muS hS).
Local Notation st := (Fsm.st ioS muS hS).
Local Notation io := (Fsm.io ioS muS hS).
Local Notation mu := (Fsm.mu ioS muS hS).
Local Notation hs := (Fsm.hs ioS muS hS).
Local Notation tr := (Fsm.tr ioS muS hS).
Local Notation set_st := (Fsm.set_st ioS muS hS).
Local Notation call_h := (Fsm.call_h D ioS muS hS mu_lock mu_unlock h_call).
Local Notation parse_write_args := (Fsm.parse_write_args D ioS muS hS mu_lock mu_unlock h_call).

(* accepted field, variable with write callback: what the callback is told *)
Lemma accept_step_callback_spec : forall (w : world) ci c v data f t tail bytes ws,
  k_cmd (k (st w)) = Some ci -> cmd_at D ci = Some c ->
  nth_error (c_vars c) (k_var (k (st w))) = Some v ->
  nth_error (mem (st w)) (v_slot v) = Some data ->
  v_access v <> RO -> v_size v <= length data ->
  skipn (k_position (k (st w))) (cbuf (st w)) = f ++ t :: tail ->
  is_term t = true -> In 0%N (f ++ t :: tail) ->
  (v_type v <> VBufStr -> field_ok f = true) ->
  field_bytes v f = Some (bytes, ws) -> v_hwrite v = true ->
  let s2 := pwa_store v (store_front bytes data) ws (S (length f)) (st w) in
  let q := VWrite ci (k_var (k (st w))) ws (store_front bytes data) in
  let w1 := fst (call_h (set_st s2 w) q) in let r := snd (call_h (set_st s2 w) q) in
  nth_error (mem s2) (v_slot v) = Some (store_front bytes data) /\
  exists w', parse_write_args w = (w', ST_BUSY) /\
    hs w' = hs w1 /\ io w' = io w1 /\ mu w' = mu w1 /\ tr w' = tr w1 /\
    calls_of (tr w') = (q, r_code r) :: calls_of (tr w) /\
    st w' = if (r_code r =? 0)%Z then pwa_next c (t =? ch_COMMA)%N (st w1) else ack_error (st w1).
Proof.
  intros w ci c v data f t tail bytes ws Hci Hc Hv Hd Hro Hsz Htxt Ht Hnul Hsh Hfb Hw.
  apply (accept_step_callback D ioS muS hS mu_lock mu_unlock h_call w ci c v data
           (t =? ch_COMMA)%N (store_front bytes data) ws (S (length f)) Hci Hc Hv Hd); [|exact Hw].
  rewrite Htxt. apply decode_accept; assumption.
Qed.

Lemma reject_hexbuf_step : forall (w : world) ci c v data f t tail,
  k_cmd (k (st w)) = Some ci -> cmd_at D ci = Some c ->
  nth_error (c_vars c) (k_var (k (st w))) = Some v ->
  nth_error (mem (st w)) (v_slot v) = Some data ->
  v_type v = VBufHex -> v_access v <> RO -> v_size v <= length data ->
  skipn (k_position (k (st w))) (cbuf (st w)) = f ++ t :: tail -> In 0%N (f ++ t :: tail) ->
  field_ok f = true -> is_term t = true -> hexbuf_accepts (v_size v) f = None ->
  exists w' d' n, parse_write_args w = (w', ST_BUSY) /\
    tr w' = tr w /\ hs w' = hs w /\ io w' = io w /\ mu w' = mu w /\
    st w' = ack_error (st w |> setk_position (k_position (k (st w)) + n)
                            |> set_mem (upd (mem (st w)) (v_slot v) d')) /\
    length d' = length data /\ skipn (v_size v) d' = skipn (v_size v) data.
Proof.
  intros w ci c v data f t tail Hci Hc Hv Hd Hty Hro Hsz Htxt Hnul Hok Ht Hna.
  destruct (reject_step_spec D ioS muS hS mu_lock mu_unlock h_call w ci c v data f (t :: tail)
              Hci Hc Hv Hd Hro Hsz Htxt Hnul) as (w' & d' & n & E & T1 & T2 & T3 & T4 & T5 & _ & B).
  - exists t, tail. split; [reflexivity|exact Ht].
  - unfold field_rejected. rewrite Hty. split; [exact Hok|].
    rewrite (field_bytes_hexbuf v f Hty), Hna. reflexivity.
  - exists w', d', n. repeat split; try assumption; apply B.
Qed.

Lemma reject_string_step : forall (w : world) ci c v data l,
  k_cmd (k (st w)) = Some ci -> cmd_at D ci = Some c ->
  nth_error (c_vars c) (k_var (k (st w))) = Some v ->
  nth_error (mem (st w)) (v_slot v) = Some data ->
  v_type v = VBufStr -> v_access v <> RO -> v_size v <= length data ->
  skipn (k_position (k (st w))) (cbuf (st w)) = l -> In 0%N l ->
  match str_decode l with Some (bs, _, _) => v_size v <= length bs | None => True end ->
  exists w' d' n, parse_write_args w = (w', ST_BUSY) /\
    tr w' = tr w /\ hs w' = hs w /\ io w' = io w /\ mu w' = mu w /\
    st w' = ack_error (st w |> setk_position (k_position (k (st w)) + n)
                            |> set_mem (upd (mem (st w)) (v_slot v) d')) /\
    length d' = length data /\ skipn (v_size v) d' = skipn (v_size v) data.
Proof.
  intros w ci c v data l Hci Hc Hv Hd Hty Hro Hsz Htxt Hnul Hrej.
  destruct (in_split _ _ Hnul) as (f & tail & El).
  destruct (reject_step_spec D ioS muS hS mu_lock mu_unlock h_call w ci c v data f (0%N :: tail)
              Hci Hc Hv Hd Hro Hsz) as (w' & d' & n & E & T1 & T2 & T3 & T4 & T5 & _ & B).
  - rewrite Htxt. exact El.
  - rewrite <- El. exact Hnul.
  - exists 0%N, tail. split; reflexivity.
  - unfold field_rejected. rewrite Hty, <- El. exact Hrej.
  - exists w', d', n. repeat split; try assumption; apply B.
Qed.

End WriteC05.

(* ================================================================== *)
(* 7. the run keeps the collected text (callbacks allowed)             *)
(* ================================================================== *)
Section WriteC06.
Variable D : desc.
Variables ioS muS hS : Type.
Variable mu_lock : muS -> muS * bool.
Variable mu_unlock : muS -> muS * bool.
Variable h_call : hS -> hreq -> hS * hres.

Local Notation world := (Fsm.world ioS muS hS).
Local Notation st := (Fsm.st ioS muS hS).
Local Notation pwa_run := (Lemmas_C07e.pwa_run D ioS muS hS mu_lock mu_unlock h_call).

Lemma pwa_run_keeps_text : forall fuel (w : world),
  k_state (k (st w)) = CS_PARSE_WRITE_ARGS ->
  let w' := pwa_run fuel w in
  k_length (k (st w')) = k_length (k (st w)) /\ k_cmd (k (st w')) = k_cmd (k (st w)) /\
  ubuf (st w') = ubuf (st w) /\
  (k_state (k (st w')) <> CS_FLUSH_WAIT -> cbuf (st w') = cbuf (st w)) /\
  (k_state (k (st w')) = CS_PARSE_WRITE_ARGS \/ k_state (k (st w')) = CS_WRITE_LOOP \/
   k_state (k (st w')) = CS_FLUSH_WAIT).
Proof.
  induction fuel as [|fuel IH]; intros w Hs; cbv zeta.
  - cbn [Lemmas_C07e.pwa_run]. repeat split; auto.
  - rewrite pwa_run_S, Hs. cbn [cstate_beq].
    destruct (pwa_keeps_text D ioS muS hS mu_lock mu_unlock h_call w) as (K1 & K2 & K3 & K4 & _ & K6).
    fold (Lemmas_C07e.pwa_step D ioS muS hS mu_lock mu_unlock h_call w) in K1, K2, K3, K4, K6.
    set (w1 := Lemmas_C07e.pwa_step D ioS muS hS mu_lock mu_unlock h_call w) in *.
    destruct (K6 Hs) as [H1|H1].
    + destruct (IH w1 H1) as (I1 & I2 & I3 & I4 & I5). cbv zeta in *.
      repeat split; try congruence; try exact I5.
      intros H. rewrite (I4 H). apply K4. rewrite H1. discriminate.
    + rewrite (pwa_run_stop D ioS muS hS mu_lock mu_unlock h_call fuel w1).
      2:{ destruct H1 as [H1|H1]; rewrite H1; discriminate. }
      repeat split; auto.
Qed.

End WriteC06.

(* the dispatch on LF for a command with writable variables: CS_PARSE_WRITE_ARGS is entered with
   cursor, argument counter and variable index zero; the collected text is untouched *)
Lemma C06_dispatch_vars : forall D s c,
  k_state (k s) = CS_PARSE_COMMAND_ARGS -> cmd_of D ATCMD s = Some c ->
  c_only_test c = false -> vars_access_possible c WO = true ->
  let s' := CollectDefs.pca_body D ch_LF (setk_char ch_LF s) in
  k_state (k s') = CS_PARSE_WRITE_ARGS /\ cbuf s' = cbuf s /\ k_length (k s') = k_length (k s) /\
  k_position (k s') = 0 /\ k_index (k s') = 0 /\ k_var (k s') = 0 /\ mem s' = mem s /\
  k_cmd (k s') = k_cmd (k s) /\ fault s' = fault s.
Proof.
  intros D s c HS HC H1 H2. cbv zeta. unfold CollectDefs.pca_body.
  change (cmd_of D ATCMD (setk_char ch_LF s)) with (cmd_of D ATCMD s).
  rewrite HC, H1, H2. repeat split.
Qed.
