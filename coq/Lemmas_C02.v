(* Lemmas_C02.v — name resolution of the command machine (properties C02 and C09).
   The update sweeps (update_command) leave in every enabled command's 2-bit lane its match status
   for the typed text (lane_spec), and the search sweep (search_command) computes Spec.resolve;
   an enabled implicit-write command switches the sweep itself to the search.  For all descriptors,
   all typed texts and all disable flags; no axioms.
   Structure: 1 lane algebra (exhaustive) - 2 list helpers - 3 string lemmas - 4 the machine
   (Section Run: one call, one sweep, all characters, the search) - 5 C09 - 6 final statements -
   7 examples.
   NOTE: C02_lanes carries the side condition [typed <> [] \/ c_name c <> []] in its last clause;
   without it the statement is false (Example exC02_lanes_counterexample). *)
From Coq Require Import List NArith ZArith Bool Arith Lia.
From Coq Require Import ZifyBool ZifyNat ZifyN.
From CatV Require Import Bytes Defs Codec Spec Fsm ResolveDefs.
Import ListNotations.
Local Open Scope nat_scope.
Ltac Zify.zify_post_hook ::= Z.div_mod_to_equations.

(* ---------- 1. lane algebra ---------- *)
Definition Nseq (m : nat) : list N := map N.of_nat (seq 0 m).

Definition lane_chk (b : N) (j : nat) (v : N) : bool :=
  N.eqb (lane_get (lane_set b j v) j) v && N.ltb (lane_set b j v) 256 &&
  forallb (fun j' => Nat.eqb j' j || N.eqb (lane_get (lane_set b j v) j') (lane_get b j')) (seq 0 4).

Lemma lane_sweep :
  forallb (fun b => forallb (fun j => forallb (fun v => lane_chk b j v) (Nseq 4)) (seq 0 4)) (Nseq 256) = true.
Proof. vm_compute. reflexivity. Qed.

Lemma in_Nseq : forall m b, (b < N.of_nat m)%N -> In b (Nseq m).
Proof.
  intros m b H. unfold Nseq. apply in_map_iff. exists (N.to_nat b). split.
  - apply N2Nat.id.
  - apply in_seq. lia.
Qed.

Theorem C02_lane_algebra : forall b j v, (b < 256)%N -> j < 4 -> (v < 4)%N ->
  lane_get (lane_set b j v) j = v /\ (lane_set b j v < 256)%N /\
  (forall j', j' < 4 -> j' <> j -> lane_get (lane_set b j v) j' = lane_get b j').
Proof.
  intros b j v Hb Hj Hv.
  pose proof lane_sweep as H. rewrite forallb_forall in H.
  specialize (H b (in_Nseq 256 b Hb)).
  rewrite forallb_forall in H.
  assert (Hin : In j (seq 0 4)) by (apply in_seq; lia).
  specialize (H j Hin).
  rewrite forallb_forall in H. specialize (H v (in_Nseq 4 v Hv)).
  unfold lane_chk in H.
  apply andb_true_iff in H. destruct H as [H H3].
  apply andb_true_iff in H. destruct H as [H1 H2].
  apply N.eqb_eq in H1. apply N.ltb_lt in H2.
  split; [exact H1|]. split; [exact H2|].
  intros j' Hj' Hne. rewrite forallb_forall in H3.
  assert (Hin' : In j' (seq 0 4)) by (apply in_seq; lia).
  specialize (H3 j' Hin'). apply orb_true_iff in H3. destruct H3 as [E|E].
  - apply Nat.eqb_eq in E. contradiction.
  - apply N.eqb_eq in E. exact E.
Qed.

Lemma lane_get_85 : forall j, j < 4 -> lane_get 85%N j = 1%N.
Proof.
  intros j Hj. destruct j as [|[|[|[|j]]]]; try reflexivity. lia.
Qed.

(* ---------- 2. list helpers ---------- *)
Lemma nth_error_upd_eq {A} : forall (l : list A) i v, i < length l -> nth_error (upd l i v) i = Some v.
Proof.
  induction l as [|a l IH]; intros [|i] v H; simpl in *; try lia; auto.
  apply IH. lia.
Qed.

Lemma nth_error_upd_ne {A} : forall (l : list A) i j v, i <> j -> nth_error (upd l i v) j = nth_error l j.
Proof.
  induction l as [|a l IH]; intros [|i] [|j] v H; simpl; auto; try congruence.
Qed.

Lemma upd_length {A} : forall (l : list A) i v, length (upd l i v) = length l.
Proof.
  induction l as [|a l IH]; intros [|i] v; simpl; auto.
Qed.

Lemma Forall_upd {A} (P : A -> Prop) : forall l i v, Forall P l -> P v -> Forall P (upd l i v).
Proof.
  induction l as [|a l IH]; intros [|i] v H Hv; simpl; auto.
  - inversion H; subst. constructor; auto.
  - inversion H; subst. constructor; auto.
Qed.

Lemma nth_error_repeat' {A} : forall (a : A) m i, i < m -> nth_error (repeat a m) i = Some a.
Proof.
  induction m as [|m IH]; intros [|i] H; simpl; try lia; auto. apply IH. lia.
Qed.

Lemma existsb_ext_in {A} : forall (f g : A -> bool) l, (forall x, In x l -> f x = g x) -> existsb f l = existsb g l.
Proof.
  induction l as [|a l IH]; intros H; simpl; auto.
  rewrite (H a) by (left; reflexivity). rewrite IH; auto. intros x Hx. apply H. right. exact Hx.
Qed.

Lemma in_combine_seq {A} : forall (l : list A) a i c,
  In (i, c) (combine (seq a (length l)) l) <-> (a <= i /\ nth_error l (i - a) = Some c).
Proof.
  induction l as [|x l IH]; intros a i c; simpl.
  - split; [tauto|]. intros [_ H]. destruct (i - a); discriminate.
  - rewrite IH. split.
    + intros [E|[H1 H2]].
      * inversion E; subst. split; [lia|]. rewrite Nat.sub_diag. reflexivity.
      * split; [lia|]. replace (i - a) with (S (i - S a)) by lia. exact H2.
    + intros [H1 H2]. destruct (Nat.eq_dec a i) as [E|E].
      * subst. rewrite Nat.sub_diag in H2. simpl in H2. left. congruence.
      * right. split; [lia|]. replace (i - a) with (S (i - S a)) in H2 by lia. exact H2.
Qed.

Lemma cmd_by_index_nth : forall gs i, cmd_by_index gs i = nth_error (concat gs) i.
Proof.
  induction gs as [|g gs IH]; intros i; simpl.
  - destruct i; reflexivity.
  - destruct (i <? length g) eqn:E.
    + apply Nat.ltb_lt in E. rewrite nth_error_app1; auto.
    + apply Nat.ltb_ge in E. rewrite nth_error_app2; auto.
Qed.

(* ---------- 3. strings ---------- *)
Lemma list_eqb_eq : forall a b, list_eqb a b = true <-> a = b.
Proof.
  induction a as [|x a IH]; intros [|y b]; simpl; split; intros H; try discriminate; auto.
  - apply andb_true_iff in H. destruct H as [H1 H2]. apply N.eqb_eq in H1. apply IH in H2. congruence.
  - inversion H; subst. rewrite N.eqb_refl. simpl. apply IH. reflexivity.
Qed.

Lemma is_prefix_iff : forall a b, is_prefix a b = true <-> exists r, b = a ++ r.
Proof.
  induction a as [|x a IH]; intros b; simpl.
  - split; [intros _; exists b; reflexivity | auto].
  - destruct b as [|y b].
    + split; [discriminate | intros [r H]; discriminate].
    + split.
      * intros H. apply andb_true_iff in H. destruct H as [H1 H2]. apply N.eqb_eq in H1.
        apply IH in H2. destruct H2 as [r H2]. exists r. congruence.
      * intros [r H]. inversion H; subst. rewrite N.eqb_refl. simpl. apply IH. exists r. reflexivity.
Qed.

Definition st (t u : list N) : N :=
  if list_eqb u t then 2%N else if is_prefix t u then 1%N else 0%N.
Definition st' (t u : list N) : N := match t with [] => 1%N | _ => st t u end.

Lemma st_full : forall t u, st t u = 2%N <-> u = t.
Proof.
  intros t u. unfold st. destruct (list_eqb u t) eqn:E.
  - apply list_eqb_eq in E. tauto.
  - split.
    + destruct (is_prefix t u); discriminate.
    + intros H. apply list_eqb_eq in H. congruence.
Qed.

Lemma st_partial : forall t u, st t u = 1%N <-> (u <> t /\ exists r, u = t ++ r).
Proof.
  intros t u. unfold st. destruct (list_eqb u t) eqn:E.
  - apply list_eqb_eq in E. split; [discriminate | tauto].
  - assert (u <> t) by (intros H; apply list_eqb_eq in H; congruence).
    destruct (is_prefix t u) eqn:E2.
    + apply is_prefix_iff in E2. tauto.
    + split; [discriminate|]. intros [_ H2]. apply is_prefix_iff in H2. congruence.
Qed.

Lemma st_none : forall t u, st t u = 0%N <-> ~ exists r, u = t ++ r.
Proof.
  intros t u. unfold st. destruct (list_eqb u t) eqn:E.
  - apply list_eqb_eq in E. split; [discriminate|]. intros H. exfalso. apply H. exists []. rewrite app_nil_r. exact E.
  - destruct (is_prefix t u) eqn:E2.
    + apply is_prefix_iff in E2. split; [discriminate | tauto].
    + split; auto. intros _ H. apply is_prefix_iff in H. congruence.
Qed.

Lemma st'_nz : forall t u, st' t u <> 0%N <-> exists r, u = t ++ r.
Proof.
  intros t u. destruct t as [|x t].
  - simpl. split; [intros _; exists u; reflexivity | discriminate].
  - unfold st'. split.
    + intros H. destruct (is_prefix (x :: t) u) eqn:E.
      * apply is_prefix_iff in E. exact E.
      * exfalso. apply H. apply st_none. intros H2. apply is_prefix_iff in H2. congruence.
    + intros H H0. apply st_none in H0. tauto.
Qed.

Lemma st'_snoc : forall t ch u, st' (t ++ [ch]) u = st (t ++ [ch]) u.
Proof. intros t ch u. destruct t; reflexivity. Qed.

(* the five cases of the update, u = the table name (upper-cased), t' the text before ch *)
Lemma stA : forall t' ch u, st' t' u = 0%N -> st' (t' ++ [ch]) u = 0%N.
Proof.
  intros t' ch u H. rewrite st'_snoc. apply st_none. intros [r Hr].
  assert (st' t' u <> 0%N); [|congruence]. apply st'_nz. exists (ch :: r). rewrite Hr, <- app_assoc. reflexivity.
Qed.

Lemma stB : forall t' ch u, length u < S (length t') -> st' (t' ++ [ch]) u = 0%N.
Proof.
  intros t' ch u H. rewrite st'_snoc. apply st_none. intros [r Hr].
  apply (f_equal (@length N)) in Hr. rewrite !app_length in Hr. simpl in Hr. lia.
Qed.

Lemma st_split : forall t' u x, st' t' u <> 0%N -> nth_error u (length t') = Some x ->
  exists r, u = t' ++ x :: r.
Proof.
  intros t' u x H Hx. apply st'_nz in H. destruct H as [r Hr]. subst u.
  rewrite nth_error_app2 in Hx by lia. rewrite Nat.sub_diag in Hx.
  destruct r as [|y r]; simpl in Hx; [discriminate|]. inversion Hx; subst. exists r. reflexivity.
Qed.

Lemma stC : forall t' ch u x, st' t' u <> 0%N -> nth_error u (length t') = Some x -> x <> ch ->
  st' (t' ++ [ch]) u = 0%N.
Proof.
  intros t' ch u x H Hx Hne. destruct (st_split _ _ _ H Hx) as [r Hr]. subst u.
  rewrite st'_snoc. apply st_none. intros [r2 H2]. rewrite <- app_assoc in H2.
  apply app_inv_head in H2. simpl in H2. congruence.
Qed.

Lemma stD : forall t' ch u, st' t' u <> 0%N -> nth_error u (length t') = Some ch -> S (length t') = length u ->
  u = t' ++ [ch].
Proof.
  intros t' ch u H Hx Hl. destruct (st_split _ _ _ H Hx) as [r Hr]. subst u.
  rewrite app_length in Hl. simpl in Hl. destruct r; [reflexivity | simpl in Hl; lia].
Qed.

Lemma stE : forall t' ch u, st' t' u <> 0%N -> nth_error u (length t') = Some ch -> S (length t') <> length u ->
  st' (t' ++ [ch]) u = 1%N /\ st' t' u = 1%N.
Proof.
  intros t' ch u H Hx Hl. destruct (st_split _ _ _ H Hx) as [r Hr]. subst u.
  assert (Hr : r <> []) by (intros E; subst r; rewrite app_length in Hl; simpl in Hl; lia).
  split.
  - rewrite st'_snoc. apply st_partial. split.
    + intros E. apply (f_equal (@length N)) in E. rewrite !app_length in E. simpl in E.
      destruct r; [congruence | simpl in E; lia].
    + exists r. rewrite <- app_assoc. reflexivity.
  - destruct t' as [|y t']; [reflexivity|]. unfold st'. apply st_partial. split.
    + intros E. apply (f_equal (@length N)) in E. rewrite !app_length in E. simpl in E. lia.
    + exists (ch :: r). reflexivity.
Qed.

(* ---------- 4. the machine ---------- *)
Definition lane_st (t : list N) (c : cmd) : N := st' t (upper (c_name c)).

Lemma lane_spec_st : forall t c, lane_spec t c = st t (upper (c_name c)).
Proof. reflexivity. Qed.

Lemma lane_st_spec : forall t c, t <> [] -> lane_st t c = lane_spec t c.
Proof. intros t c H. destruct t; [contradiction | reflexivity]. Qed.

Lemma lane_st_lt4 : forall t c, (lane_st t c < 4)%N.
Proof.
  intros t c. unfold lane_st, st'. destruct t; [reflexivity|]. unfold st.
  destruct (list_eqb _ _); [reflexivity|]. destruct (is_prefix _ _); reflexivity.
Qed.

Lemma hit_full : forall t' ch c, upper (c_name c) = t' ++ [ch] -> lane_st (t' ++ [ch]) c = 2%N.
Proof. intros t' ch c H. unfold lane_st. rewrite st'_snoc. apply st_full. exact H. Qed.

Lemma iter_S {A} : forall m (f : A -> A) x, iter (S m) f x = iter m f (f x).
Proof. reflexivity. Qed.

Section Run.
Variable D : desc.
Variable s0 : state.
Local Notation n := (ncmds D).
Local Notation en := (enabled D s0).
Local Notation L := (length (cbuf s0)).
Hypothesis Hn : 0 < n.
Hypothesis HnL : n <= 4 * L.

Definition samedis (s : state) : Prop := dis_cmd s = dis_cmd s0 /\ dis_grp s = dis_grp s0.

Lemma enabled_same : forall s i, samedis s -> enabled D s i = en i.
Proof. intros s i [H1 H2]. unfold enabled, is_command_disable. rewrite H1, H2. reflexivity. Qed.

Lemma disable_same : forall s i, samedis s -> is_command_disable D s i = negb (en i).
Proof.
  intros s i H. rewrite <- (enabled_same s i H). unfold enabled. rewrite negb_involutive. reflexivity.
Qed.

Definition lane_of (buf : list N) (i : nat) : option N :=
  match nth_error buf (i / 4) with None => None | Some b => Some (lane_get b (i mod 4)) end.

Lemma get_cmd_state_eq : forall s i,
  get_cmd_state D s i = if is_command_disable D s i then Some 0%N else lane_of (cbuf s) i.
Proof. reflexivity. Qed.

Lemma set_cmd_state_eq : forall s i v b, nth_error (cbuf s) (i / 4) = Some b ->
  set_cmd_state s i v = set_cbuf (upd (cbuf s) (i / 4) (lane_set b (i mod 4) v)) s.
Proof. intros s i v b H. unfold set_cmd_state. rewrite H. reflexivity. Qed.

Lemma cmd_by_index_cmds : forall i, cmd_by_index (d_groups D) i = nth_error (cmds D) i.
Proof. intros i. apply cmd_by_index_nth. Qed.

Definition lanes (buf : list N) (f : nat -> cmd -> N) : Prop :=
  forall i c, nth_error (cmds D) i = Some c -> en i = true -> lane_of buf i = Some (f i c).

Definition bytes256 (buf : list N) : Prop := Forall (fun b => (b < 256)%N) buf.

Lemma lanes_ext : forall buf f g,
  (forall i c, nth_error (cmds D) i = Some c -> en i = true -> f i c = g i c) ->
  lanes buf f -> lanes buf g.
Proof. intros buf f g H HL i c Hc He. rewrite (HL i c Hc He), (H i c Hc He). reflexivity. Qed.

Lemma lanes_set : forall buf f idx b v,
  bytes256 buf -> lanes buf f -> nth_error buf (idx / 4) = Some b -> (v < 4)%N ->
  lanes (upd buf (idx / 4) (lane_set b (idx mod 4) v)) (fun i c => if i =? idx then v else f i c).
Proof.
  intros buf f idx b v HB HL Hb Hv i c Hc He.
  assert (Hlt : idx / 4 < length buf) by (apply nth_error_Some; congruence).
  assert (Hb256 : (b < 256)%N).
  { unfold bytes256 in HB. rewrite Forall_forall in HB. apply HB. eapply nth_error_In; eauto. }
  assert (Hm : idx mod 4 < 4) by (apply Nat.mod_upper_bound; lia).
  destruct (C02_lane_algebra b (idx mod 4) v Hb256 Hm Hv) as [A1 [A2 A3]].
  unfold lane_of. destruct (Nat.eq_dec (i / 4) (idx / 4)) as [E|E].
  - rewrite E, nth_error_upd_eq by exact Hlt. destruct (i =? idx) eqn:E2.
    + apply Nat.eqb_eq in E2. subst i. rewrite A1. reflexivity.
    + apply Nat.eqb_neq in E2. rewrite A3.
      * specialize (HL i c Hc He). unfold lane_of in HL. rewrite E, Hb in HL. exact HL.
      * apply Nat.mod_upper_bound; lia.
      * lia.
  - rewrite nth_error_upd_ne by auto. destruct (i =? idx) eqn:E2.
    + apply Nat.eqb_eq in E2. subst i. contradiction.
    + apply HL; auto.
Qed.

Definition hitP (t : list N) (i : nat) (c : cmd) : Prop :=
  nth_error (cmds D) i = Some c /\ en i = true /\ c_implicit c = true /\ upper (c_name c) = t.

Definition mixed (t' : list N) (ch : N) (idx : nat) (i : nat) (c : cmd) : N :=
  if i <? idx then lane_st (t' ++ [ch]) c else lane_st t' c.

(* state in the middle of the sweep for character ch, commands < idx done *)
Definition SW (t' : list N) (ch : N) (idx : nat) (s : state) : Prop :=
  fault s = false /\ k_length (k s) = S (length t') /\ k_char (k s) = ch /\ samedis s /\
  length (cbuf s) = L /\ bytes256 (cbuf s) /\ lanes (cbuf s) (mixed t' ch idx) /\
  (k_implicit (k s) = true <-> exists i c, i < idx /\ hitP (t' ++ [ch]) i c).

Lemma mixed_S_ne : forall t' ch idx i c, i <> idx -> mixed t' ch (S idx) i c = mixed t' ch idx i c.
Proof.
  intros t' ch idx i c H. unfold mixed.
  destruct (i <? idx) eqn:E1; destruct (i <? S idx) eqn:E2; try reflexivity.
  - apply Nat.ltb_lt in E1. apply Nat.ltb_ge in E2. lia.
  - apply Nat.ltb_ge in E1. apply Nat.ltb_lt in E2. lia.
Qed.

Lemma mixed_S_eq : forall t' ch idx c, mixed t' ch (S idx) idx c = lane_st (t' ++ [ch]) c.
Proof.
  intros t' ch idx c. unfold mixed.
  replace (idx <? S idx) with true; [reflexivity|]. symmetry. apply Nat.ltb_lt. lia.
Qed.

Lemma mixed_eq : forall t' ch idx c, mixed t' ch idx idx c = lane_st t' c.
Proof. intros t' ch idx c. unfold mixed. rewrite Nat.ltb_irrefl. reflexivity. Qed.

Lemma SW_next : forall t' ch s s1 idx c v' raise,
  SW t' ch idx s -> nth_error (cmds D) idx = Some c ->
  fault s1 = false -> k_length (k s1) = k_length (k s) -> k_char (k s1) = k_char (k s) ->
  dis_cmd s1 = dis_cmd s -> dis_grp s1 = dis_grp s ->
  ((cbuf s1 = cbuf s /\ (en idx = true -> lane_st (t' ++ [ch]) c = lane_st t' c)) \/
   (exists b, nth_error (cbuf s) (idx / 4) = Some b /\
              cbuf s1 = upd (cbuf s) (idx / 4) (lane_set b (idx mod 4) v') /\ (v' < 4)%N /\
              (en idx = true -> lane_st (t' ++ [ch]) c = v'))) ->
  k_implicit (k s1) = k_implicit (k s) || raise ->
  (raise = true <-> hitP (t' ++ [ch]) idx c) ->
  SW t' ch (S idx) s1.
Proof.
  intros t' ch s s1 idx c v' raise [F [Hl [Hc [[Hd1 Hd2] [HL [HB [HLn Hi]]]]]]] Hcmd F1 Hl1 Hc1 Hd1' Hd2' Hbuf Himp Hraise.
  unfold SW. split; [exact F1|]. split; [congruence|]. split; [congruence|].
  split; [split; congruence|].
  assert (Hbuf3 : length (cbuf s1) = L /\ bytes256 (cbuf s1) /\ lanes (cbuf s1) (mixed t' ch (S idx))).
  { destruct Hbuf as [[E Hsame]|[b [Hb [E [Hv Hval]]]]].
    - rewrite E. split; [exact HL|]. split; [exact HB|].
      intros i c' Hc' He. rewrite (HLn i c' Hc' He). f_equal.
      destruct (Nat.eq_dec i idx) as [->|Hne].
      + rewrite Hc' in Hcmd. inversion Hcmd; subst c'.
        rewrite mixed_S_eq, mixed_eq. symmetry. auto.
      + symmetry. apply mixed_S_ne. exact Hne.
    - rewrite E. split; [rewrite upd_length; exact HL|]. split.
      + apply Forall_upd; [exact HB|].
        assert (Hb256 : (b < 256)%N).
        { unfold bytes256 in HB. rewrite Forall_forall in HB. apply HB. eapply nth_error_In; eauto. }
        assert (Hm : idx mod 4 < 4) by (apply Nat.mod_upper_bound; lia).
        apply (C02_lane_algebra b (idx mod 4) v' Hb256 Hm Hv).
      + intros i c' Hc' He. rewrite (lanes_set _ _ idx b v' HB HLn Hb Hv i c' Hc' He). f_equal.
        destruct (i =? idx) eqn:E1.
        * apply Nat.eqb_eq in E1. subst i. rewrite Hc' in Hcmd. inversion Hcmd; subst c'.
          rewrite mixed_S_eq. symmetry. auto.
        * apply Nat.eqb_neq in E1. symmetry. apply mixed_S_ne. exact E1. }
  destruct Hbuf3 as [X1 [X2 X3]]. split; [exact X1|]. split; [exact X2|]. split; [exact X3|].
  rewrite Himp, orb_true_iff, Hi, Hraise. split.
  - intros [[i [c' [Hlt Hh]]]|Hh].
    + exists i, c'. split; [lia | exact Hh].
    + exists idx, c. split; [lia | exact Hh].
  - intros [i [c' [Hlt Hh]]]. destruct (Nat.eq_dec i idx) as [->|Hne].
    + right. destruct Hh as [Hh1 Hh2]. rewrite Hh1 in Hcmd. inversion Hcmd; subst c'. split; assumption.
    + left. exists i, c'. split; [lia | exact Hh].
Qed.

(* update_command split into the lane update and the index bookkeeping *)
Definition upd_s1 (s : state) (c : cmd) (cs : N) : state :=
  let i := k_index (k s) in
  if negb (cs =? CMD_NOT_MATCH)%N then
    let nlen := length (c_name c) in
    if nlen <? k_length (k s) then set_cmd_state s i CMD_NOT_MATCH
    else match k_length (k s) with
         | O => set_fault_flag s
         | S l1 =>
           match nth_error (c_name c) l1 with
           | None => set_fault_flag s
           | Some nc =>
             if negb (to_upper nc =? k_char (k s))%N then set_cmd_state s i CMD_NOT_MATCH
             else if k_length (k s) =? nlen then
               let s' := set_cmd_state s i CMD_FULL in
               if c_implicit c then setk_implicit true s' else s'
             else s
           end
         end
  else s.

Definition upd_fin (s1 : state) (idx : nat) : state :=
  if n <=? S idx then
    let s2 := setk_index 0 s1 in
    if negb (k_implicit (k s2)) then setk_state CS_PARSE_COMMAND_CHAR s2
    else s2 |> setk_type T_WRITE |> prepare_search_command
            |> setk_state CS_SEARCH_COMMAND |> setk_implicit false
  else setk_index (S idx) s1.

Lemma update_command_unf : forall s,
  update_command D s =
  match cmd_by_index (d_groups D) (k_index (k s)) with
  | None => set_fault_flag s
  | Some c => match get_cmd_state D s (k_index (k s)) with
              | None => set_fault_flag s
              | Some cs => upd_fin (upd_s1 s c cs) (k_index (k s))
              end
  end.
Proof. reflexivity. Qed.

Lemma update_core : forall t' ch s idx, SW t' ch idx s -> k_index (k s) = idx -> idx < n ->
  exists s1, update_command D s = upd_fin s1 idx /\ SW t' ch (S idx) s1.
Proof.
  intros t' ch s idx HSW Hidx Hlt.
  pose proof HSW as [F [Hl [Hc [Hd [HL [HB [HLn Hi]]]]]]].
  rewrite update_command_unf, cmd_by_index_cmds, Hidx.
  destruct (nth_error (cmds D) idx) as [c|] eqn:Hcmd;
    [|apply nth_error_None in Hcmd; unfold ncmds in Hlt; lia].
  assert (Hq : idx / 4 < length (cbuf s)) by (rewrite HL; lia).
  destruct (nth_error (cbuf s) (idx / 4)) as [b|] eqn:Hb; [|apply nth_error_None in Hb; lia].
  rewrite get_cmd_state_eq, (disable_same s idx Hd).
  destruct (en idx) eqn:Een; cbn [negb].
  2:{ (* disabled *)
    exists s. split; [reflexivity|].
    apply (SW_next t' ch s s idx c 0%N false HSW Hcmd); try reflexivity; try assumption.
    - left. split; [reflexivity | congruence].
    - rewrite orb_false_r. reflexivity.
    - split; [discriminate|]. intros [_ [E _]]. congruence. }
  rewrite (HLn idx c Hcmd Een), mixed_eq.
  set (u := upper (c_name c)).
  assert (Hlu : length u = length (c_name c)) by (unfold u, upper; apply map_length).
  assert (Hnohit : forall v, v <> 2%N -> lane_st (t' ++ [ch]) c = v -> (false = true <-> hitP (t' ++ [ch]) idx c)).
  { intros v Hv Hst. split; [discriminate|]. intros [_ [_ [_ E]]]. apply hit_full in E. congruence. }
  unfold upd_s1. rewrite Hidx, Hl, Hc.
  destruct (lane_st t' c =? CMD_NOT_MATCH)%N eqn:E0; cbn [negb].
  { (* already NOT_MATCH *)
    apply N.eqb_eq in E0. change CMD_NOT_MATCH with 0%N in E0.
    assert (E1 : lane_st (t' ++ [ch]) c = 0%N) by (apply stA; exact E0).
    exists s. split; [reflexivity|].
    apply (SW_next t' ch s s idx c 0%N false HSW Hcmd); try reflexivity; try assumption.
    - left. split; [reflexivity | congruence].
    - rewrite orb_false_r. reflexivity.
    - apply (Hnohit 0%N); [discriminate | exact E1]. }
  apply N.eqb_neq in E0. change CMD_NOT_MATCH with 0%N in E0.
  destruct (length (c_name c) <? S (length t')) eqn:E1.
  { (* name too short *)
    apply Nat.ltb_lt in E1.
    assert (E2 : lane_st (t' ++ [ch]) c = 0%N) by (apply stB; fold u; lia).
    rewrite (set_cmd_state_eq s idx _ b Hb).
    eexists. split; [reflexivity|].
    apply (SW_next t' ch s _ idx c 0%N false HSW Hcmd); try reflexivity; try assumption.
    - right. exists b. split; [exact Hb|]. split; [reflexivity|]. split; [reflexivity|]. intros _. exact E2.
    - rewrite orb_false_r. reflexivity.
    - apply (Hnohit 0%N); [discriminate | exact E2]. }
  apply Nat.ltb_ge in E1.
  destruct (nth_error (c_name c) (length t')) as [nc|] eqn:Hnc; [|apply nth_error_None in Hnc; lia].
  assert (Hnu : nth_error u (length t') = Some (to_upper nc)) by (unfold u, upper; apply map_nth_error; exact Hnc).
  destruct (to_upper nc =? ch)%N eqn:E2; cbn [negb].
  2:{ (* character differs *)
    apply N.eqb_neq in E2.
    assert (E3 : lane_st (t' ++ [ch]) c = 0%N) by (eapply stC; eauto).
    rewrite (set_cmd_state_eq s idx _ b Hb).
    eexists. split; [reflexivity|].
    apply (SW_next t' ch s _ idx c 0%N false HSW Hcmd); try reflexivity; try assumption.
    - right. exists b. split; [exact Hb|]. split; [reflexivity|]. split; [reflexivity|]. intros _. exact E3.
    - rewrite orb_false_r. reflexivity.
    - apply (Hnohit 0%N); [discriminate | exact E3]. }
  apply N.eqb_eq in E2. rewrite E2 in Hnu.
  destruct (S (length t') =? length (c_name c)) eqn:E3.
  { (* FULL *)
    apply Nat.eqb_eq in E3.
    assert (E4 : u = t' ++ [ch]) by (apply stD; [exact E0 | exact Hnu | lia]).
    assert (E5 : lane_st (t' ++ [ch]) c = 2%N) by (apply hit_full; exact E4).
    rewrite (set_cmd_state_eq s idx _ b Hb).
    destruct (c_implicit c) eqn:E6.
    - eexists. split; [reflexivity|].
      apply (SW_next t' ch s _ idx c 2%N true HSW Hcmd); try reflexivity; try assumption.
      + right. exists b. split; [exact Hb|]. split; [reflexivity|]. split; [reflexivity|]. intros _. exact E5.
      + cbn. rewrite orb_true_r. reflexivity.
      + split; [|reflexivity]. intros _. split; [exact Hcmd|]. split; [exact Een|]. split; [exact E6 | exact E4].
    - eexists. split; [reflexivity|].
      apply (SW_next t' ch s _ idx c 2%N false HSW Hcmd); try reflexivity; try assumption.
      + right. exists b. split; [exact Hb|]. split; [reflexivity|]. split; [reflexivity|]. intros _. exact E5.
      + rewrite orb_false_r. reflexivity.
      + split; [discriminate|]. intros [_ [_ [E _]]]. congruence. }
  (* still PARTIAL *)
  apply Nat.eqb_neq in E3.
  assert (E4 : lane_st (t' ++ [ch]) c = 1%N /\ lane_st t' c = 1%N) by (apply stE; [exact E0 | exact Hnu | fold u; lia]).
  destruct E4 as [E4 E5].
  exists s. split; [reflexivity|].
  apply (SW_next t' ch s s idx c 0%N false HSW Hcmd); try reflexivity; try assumption.
  - left. split; [reflexivity | congruence].
  - rewrite orb_false_r. reflexivity.
  - apply (Hnohit 1%N); [discriminate | exact E4].
Qed.

Lemma SW_setk_index : forall t' ch idx s v, SW t' ch idx s -> SW t' ch idx (setk_index v s).
Proof. intros t' ch idx s v H. exact H. Qed.

Lemma sweep_iter : forall t' ch m idx s,
  idx + m = n -> 0 < m -> SW t' ch idx s -> k_index (k s) = idx ->
  exists s1, iter m (update_command D) s = upd_fin s1 (n - 1) /\ SW t' ch n s1.
Proof.
  intros t' ch m. induction m as [|m IH]; intros idx s Hsum Hm HSW Hidx; [lia|].
  rewrite iter_S.
  destruct (update_core t' ch s idx HSW Hidx) as [s1 [E H1]]; [lia|].
  rewrite E. destruct m as [|m].
  - simpl iter. exists s1. assert (E2 : S idx = n) by lia. split.
    + f_equal. lia.
    + rewrite <- E2. exact H1.
  - unfold upd_fin. replace (n <=? S idx) with false by (symmetry; apply Nat.leb_gt; lia).
    apply (IH (S idx)); [lia | lia | apply SW_setk_index; exact H1 | reflexivity].
Qed.

(* state between two characters: typed text t received, no implicit command hit so far *)
Definition Good (t : list N) (s : state) : Prop :=
  fault s = false /\ k_implicit (k s) = false /\ k_length (k s) = length t /\ k_index (k s) = 0 /\
  samedis s /\ length (cbuf s) = L /\ bytes256 (cbuf s) /\ lanes (cbuf s) (fun _ c => lane_st t c).

(* state at the start of the search sweep *)
Definition Ready (t : list N) (s : state) : Prop :=
  fault s = false /\ k_index (k s) = 0 /\ k_partial (k s) = 0 /\ k_cmd (k s) = None /\
  k_state (k s) = CS_SEARCH_COMMAND /\ samedis s /\ lanes (cbuf s) (fun _ c => lane_st t c).

Lemma step_char : forall t' ch s, Good t' s ->
  exists s1, name_char_step D s ch = upd_fin s1 (n - 1) /\ SW t' ch n s1.
Proof.
  intros t' ch s [F [Hi [Hl [Hidx [Hd [HL [HB HLn]]]]]]].
  unfold name_char_step. apply (sweep_iter t' ch n 0); [lia | exact Hn | | exact Hidx].
  unfold SW. split; [exact F|]. split; [cbn; rewrite Hl; reflexivity|]. split; [reflexivity|].
  split; [exact Hd|]. split; [exact HL|]. split; [exact HB|]. split.
  - apply (lanes_ext _ _ _ (fun i c _ _ => eq_refl) HLn).
  - change (k_implicit (k s) = true <-> (exists i c, i < 0 /\ hitP (t' ++ [ch]) i c)).
    rewrite Hi. split; [discriminate|]. intros [i [c [H _]]]. lia.
Qed.

Lemma upd_fin_last : forall s1, upd_fin s1 (n - 1) =
  if negb (k_implicit (k s1)) then setk_state CS_PARSE_COMMAND_CHAR (setk_index 0 s1)
  else setk_index 0 s1 |> setk_type T_WRITE |> prepare_search_command
         |> setk_state CS_SEARCH_COMMAND |> setk_implicit false.
Proof.
  intros s1. unfold upd_fin. replace (n <=? S (n - 1)) with true by (symmetry; apply Nat.leb_le; lia).
  reflexivity.
Qed.

Lemma lanes_mixed_n : forall t' ch buf, lanes buf (mixed t' ch n) -> lanes buf (fun _ c => lane_st (t' ++ [ch]) c).
Proof.
  intros t' ch buf H. apply (lanes_ext _ _ _) with (2 := H).
  intros i c Hc _. unfold mixed. replace (i <? n) with true; [reflexivity|].
  symmetry. apply Nat.ltb_lt. unfold ncmds. apply nth_error_Some. congruence.
Qed.

Lemma after_sweep_plain : forall t' ch s1, SW t' ch n s1 -> k_implicit (k s1) = false ->
  Good (t' ++ [ch]) (upd_fin s1 (n - 1)) /\ k_state (k (upd_fin s1 (n - 1))) = CS_PARSE_COMMAND_CHAR.
Proof.
  intros t' ch s1 [F [Hl [Hc [Hd [HL [HB [HLn Hi]]]]]]] Himp.
  rewrite upd_fin_last, Himp. cbn [negb]. split; [|reflexivity].
  unfold Good. split; [exact F|]. split; [exact Himp|]. split.
  - cbn. rewrite Hl, app_length. simpl. lia.
  - split; [reflexivity|]. split; [exact Hd|]. split; [exact HL|]. split; [exact HB|].
    apply lanes_mixed_n. exact HLn.
Qed.

Lemma after_sweep_implicit : forall t' ch s1, SW t' ch n s1 -> k_implicit (k s1) = true ->
  let r := upd_fin s1 (n - 1) in
  Ready (t' ++ [ch]) r /\ k_type (k r) = T_WRITE /\ k_implicit (k r) = false /\ k_char (k r) = ch.
Proof.
  intros t' ch s1 [F [Hl [Hc [Hd [HL [HB [HLn Hi]]]]]]] Himp r. unfold r.
  rewrite upd_fin_last, Himp. cbn [negb].
  split; [|split; [reflexivity|split; [reflexivity|exact Hc]]].
  unfold Ready. split; [exact F|]. split; [reflexivity|]. split; [reflexivity|]. split; [reflexivity|].
  split; [reflexivity|]. split; [exact Hd|]. apply lanes_mixed_n. exact HLn.
Qed.

(* ---- implicit_hit ---- *)
Definition hit_now (t : list N) : bool :=
  existsb (fun ic => en (fst ic) && c_implicit (snd ic) && list_eqb (upper (c_name (snd ic))) t)
          (combine (seq 0 n) (cmds D)).

Lemma implicit_hit_unf : forall typed,
  implicit_hit D s0 typed = existsb (fun j => hit_now (firstn j typed)) (seq 1 (length typed)).
Proof. reflexivity. Qed.

Lemma hit_now_iff : forall t, hit_now t = true <-> exists i c, hitP t i c.
Proof.
  intros t. unfold hit_now. rewrite existsb_exists. split.
  - intros [[i c] [Hin H]]. unfold ncmds in Hin. apply in_combine_seq in Hin. destruct Hin as [_ Hin].
    rewrite Nat.sub_0_r in Hin. simpl in H.
    apply andb_true_iff in H. destruct H as [H H3]. apply andb_true_iff in H. destruct H as [H1 H2].
    apply list_eqb_eq in H3. exists i, c. split; [exact Hin|]. split; [exact H1|]. split; [exact H2 | exact H3].
  - intros [i [c [H1 [H2 [H3 H4]]]]]. exists (i, c). split.
    + unfold ncmds. apply in_combine_seq. split; [lia|]. rewrite Nat.sub_0_r. exact H1.
    + simpl. rewrite H2, H3. simpl. apply list_eqb_eq. exact H4.
Qed.

Lemma implicit_hit_snoc : forall t' ch,
  implicit_hit D s0 (t' ++ [ch]) = implicit_hit D s0 t' || hit_now (t' ++ [ch]).
Proof.
  intros t' ch. rewrite !implicit_hit_unf. rewrite app_length. simpl length.
  rewrite Nat.add_1_r, seq_S, existsb_app. cbn [existsb]. rewrite orb_false_r. f_equal.
  - apply existsb_ext_in. intros j Hj. apply in_seq in Hj. f_equal.
    rewrite firstn_app. replace (j - length t') with 0 by lia. simpl. apply app_nil_r.
  - f_equal. replace (1 + length t') with (length (t' ++ [ch])) by (rewrite app_length; simpl; lia).
    apply firstn_all.
Qed.

Lemma SW_implicit_hit_now : forall t' ch s1, SW t' ch n s1 -> k_implicit (k s1) = hit_now (t' ++ [ch]).
Proof.
  intros t' ch s1 [_ [_ [_ [_ [_ [_ [_ Hi]]]]]]].
  destruct (hit_now (t' ++ [ch])) eqn:E.
  - apply Hi. apply hit_now_iff in E. destruct E as [i [c Hh]]. exists i, c. split; [|exact Hh].
    destruct Hh as [H _]. unfold ncmds. apply nth_error_Some. congruence.
  - destruct (k_implicit (k s1)) eqn:E2; [|reflexivity].
    destruct Hi as [Hi _]. destruct (Hi eq_refl) as [i [c [_ Hh]]].
    assert (hit_now (t' ++ [ch]) = true) by (apply hit_now_iff; exists i, c; exact Hh). congruence.
Qed.

(* ---- all characters ---- *)
Hypothesis Hf0 : fault s0 = false.
Hypothesis Hi0 : k_implicit (k s0) = false.

Local Notation run typed := (fold_left (name_char_step D) typed (prepare_parse_command s0)).

Lemma Good_start : Good [] (prepare_parse_command s0).
Proof.
  unfold Good. split; [exact Hf0|]. split; [exact Hi0|]. split; [reflexivity|]. split; [reflexivity|].
  split; [split; reflexivity|].
  change (cbuf (prepare_parse_command s0)) with (repeat 85%N L).
  split; [apply repeat_length|]. split.
  - unfold bytes256. apply Forall_forall. intros x Hx. apply repeat_spec in Hx. subst x. reflexivity.
  - intros i c Hc _. unfold lane_of.
    assert (Hi : i < n) by (unfold ncmds; apply nth_error_Some; congruence).
    rewrite nth_error_repeat' by lia. rewrite lane_get_85 by (apply Nat.mod_upper_bound; lia). reflexivity.
Qed.

Lemma sweeps_good : forall typed, implicit_hit D s0 typed = false ->
  Good typed (run typed) /\ (typed <> [] -> k_state (k (run typed)) = CS_PARSE_COMMAND_CHAR).
Proof.
  intros typed. induction typed as [|ch t' IH] using rev_ind; intros Hh.
  - split; [apply Good_start | congruence].
  - rewrite implicit_hit_snoc in Hh. apply orb_false_iff in Hh. destruct Hh as [Hh1 Hh2].
    destruct (IH Hh1) as [HG _]. rewrite fold_left_app. simpl fold_left.
    destruct (step_char t' ch _ HG) as [s1 [E HSW]]. rewrite E.
    assert (Himp : k_implicit (k s1) = false) by (rewrite (SW_implicit_hit_now _ _ _ HSW); exact Hh2).
    destruct (after_sweep_plain t' ch s1 HSW Himp) as [A B]. split; [exact A | intros _; exact B].
Qed.

Lemma sweeps_implicit : forall t' ch, implicit_hit D s0 t' = false -> hit_now (t' ++ [ch]) = true ->
  let r := run (t' ++ [ch]) in
  Ready (t' ++ [ch]) r /\ k_type (k r) = T_WRITE /\ k_implicit (k r) = false /\ k_char (k r) = ch.
Proof.
  intros t' ch Hh1 Hh2. destruct (sweeps_good t' Hh1) as [HG _].
  rewrite fold_left_app. simpl fold_left.
  destruct (step_char t' ch _ HG) as [s1 [E HSW]]. rewrite E.
  apply after_sweep_implicit; [exact HSW|]. rewrite (SW_implicit_hit_now _ _ _ HSW). exact Hh2.
Qed.

(* ---- the search sweep ---- *)
Definition NFs (ch : N) : cstate := if (ch =? ch_LF)%N then CS_COMMAND_NOT_FOUND else CS_ERROR.

Definition s_finish (s : state) : state :=
  let lf := (k_char (k s) =? ch_LF)%N in
  let i' := S (k_index (k s)) in
  let s := setk_index i' s in
  if n <=? i' then
    match k_cmd (k s) with
    | None => setk_state (if lf then CS_COMMAND_NOT_FOUND else CS_ERROR) s
    | Some _ =>
      if k_partial (k s) =? 1 then setk_state CS_COMMAND_FOUND s
      else setk_state (if lf then CS_COMMAND_NOT_FOUND else CS_ERROR) s
    end
  else s.

Definition s_partial (s : state) : state :=
  s |> setk_cmd (Some (k_index (k s))) |> setk_partial (S (k_partial (k s))).

Lemma search_command_v0 : forall s, get_cmd_state D s (k_index (k s)) = Some 0%N ->
  search_command D s = s_finish s.
Proof. intros s H. unfold search_command. rewrite H. reflexivity. Qed.

Lemma search_command_v2 : forall s, get_cmd_state D s (k_index (k s)) = Some 2%N ->
  search_command D s = (s |> setk_cmd (Some (k_index (k s))) |> setk_state CS_COMMAND_FOUND).
Proof. intros s H. unfold search_command. rewrite H. reflexivity. Qed.

Lemma search_command_v1 : forall s, get_cmd_state D s (k_index (k s)) = Some 1%N ->
  search_command D s =
  match k_cmd (k s) with
  | Some _ => if S (k_index (k s)) =? n then setk_state (NFs (k_char (k s))) s else s_finish (s_partial s)
  | None => s_finish (s_partial s)
  end.
Proof. intros s H. unfold search_command. rewrite H. reflexivity. Qed.

Lemma s_finish_more : forall s idx, k_index (k s) = idx -> S idx < n -> s_finish s = setk_index (S idx) s.
Proof.
  intros s idx H Hlt. unfold s_finish. rewrite H. cbv zeta.
  replace (n <=? S idx) with false by (symmetry; apply Nat.leb_gt; lia). reflexivity.
Qed.

Lemma s_finish_last : forall s idx, k_index (k s) = idx -> S idx = n ->
  s_finish s =
  match k_cmd (k s) with
  | None => setk_state (NFs (k_char (k s))) (setk_index (S idx) s)
  | Some _ => if k_partial (k s) =? 1 then setk_state CS_COMMAND_FOUND (setk_index (S idx) s)
              else setk_state (NFs (k_char (k s))) (setk_index (S idx) s)
  end.
Proof.
  intros s idx H E. unfold s_finish. rewrite H. cbv zeta.
  replace (n <=? S idx) with true by (symmetry; apply Nat.leb_le; lia). reflexivity.
Qed.

Lemma search_run_S : forall f s, k_state (k s) = CS_SEARCH_COMMAND ->
  search_run D (S f) s = search_run D f (search_command D s).
Proof. intros f s H. simpl. rewrite H. reflexivity. Qed.

Lemma search_run_stop : forall f s x, k_state (k s) = x -> cstate_beq x CS_SEARCH_COMMAND = false ->
  search_run D f s = s.
Proof. intros f s x H E. destruct f; simpl; [reflexivity|]. rewrite H, E. reflexivity. Qed.

Lemma NFs_not_search : forall ch, cstate_beq (NFs ch) CS_SEARCH_COMMAND = false.
Proof. intros ch. unfold NFs. destruct (ch =? ch_LF)%N; reflexivity. Qed.

Definition Ccond (P : list nat) (kc : option nat) : Prop :=
  match P with [] => kc = None | [i] => kc = Some i | _ => kc <> None end.

Lemma Ccond_snoc : forall P kc i, Ccond P kc -> Ccond (P ++ [i]) (Some i).
Proof.
  intros P kc i _. destruct P as [|a [|b P]]; simpl; try reflexivity; discriminate.
Qed.

Lemma get_lane : forall t s i c, samedis s -> lanes (cbuf s) (fun _ c => lane_spec t c) ->
  nth_error (cmds D) i = Some c ->
  get_cmd_state D s i = Some (if en i then lane_spec t c else 0%N).
Proof.
  intros t s i c Hd HL Hc. rewrite get_cmd_state_eq, (disable_same s i Hd).
  destruct (en i) eqn:E; cbn [negb]; [apply HL; assumption | reflexivity].
Qed.

Lemma partial_longer : forall t u, list_eqb u t = false -> is_prefix t u = true -> length t < length u.
Proof.
  intros t u H1 H2. apply is_prefix_iff in H2. destruct H2 as [r Hr]. subst u.
  destruct r as [|x r].
  - rewrite app_nil_r in H1. assert (list_eqb t t = true) by (apply list_eqb_eq; reflexivity). congruence.
  - rewrite app_length. simpl. lia.
Qed.

Definition outcome (t : list N) (rest : list cmd) (idx : nat) (P : list nat) (ch : N) (s2 : state) : Prop :=
  fault s2 = false /\
  match find_full t en rest idx with
  | Some i => k_state (k s2) = CS_COMMAND_FOUND /\ k_cmd (k s2) = Some i
  | None => match P ++ proper_prefix_of t en rest idx with
            | [i] => k_state (k s2) = CS_COMMAND_FOUND /\ k_cmd (k s2) = Some i
            | _ => k_state (k s2) = NFs ch
            end
  end.

Lemma search_go : forall t rest pre idx s P,
  cmds D = pre ++ rest -> idx = length pre -> rest <> [] ->
  fault s = false -> k_index (k s) = idx -> k_state (k s) = CS_SEARCH_COMMAND -> samedis s ->
  lanes (cbuf s) (fun _ c => lane_spec t c) ->
  k_partial (k s) = length P -> Ccond P (k_cmd (k s)) ->
  outcome t rest idx P (k_char (k s)) (search_run D (length rest) s).
Proof.
  intros t rest. induction rest as [|c rest IH]; intros pre idx s P Hcm Hpre Hne F Hidx Hst Hd HL Hp HC;
    [congruence|].
  assert (Hcmd : nth_error (cmds D) idx = Some c).
  { rewrite Hcm, nth_error_app2 by lia. rewrite Hpre, Nat.sub_diag. reflexivity. }
  assert (Hnn : n = idx + S (length rest)).
  { unfold ncmds. rewrite Hcm, app_length. simpl. lia. }
  simpl length. rewrite (search_run_S _ _ Hst).
  assert (Hget : get_cmd_state D s (k_index (k s)) = Some (if en idx then lane_spec t c else 0%N)).
  { rewrite Hidx. apply get_lane; assumption. }
  (* continuing after command idx with the partial list Px *)
  assert (Hcont : forall sx Px, fault sx = false -> k_index (k sx) = idx ->
            k_state (k sx) = CS_SEARCH_COMMAND -> samedis sx -> cbuf sx = cbuf s ->
            k_char (k sx) = k_char (k s) -> k_partial (k sx) = length Px -> Ccond Px (k_cmd (k sx)) ->
            outcome t rest (S idx) Px (k_char (k s)) (search_run D (length rest) (s_finish sx))).
  { intros sx Px Fx Hix Hsx Hdx Hbx Hcx Hpx HCx. destruct rest as [|c2 rest2].
    - rewrite (s_finish_last sx idx Hix) by (simpl in Hnn; lia).
      unfold outcome. cbn [find_full proper_prefix_of length search_run]. rewrite app_nil_r.
      destruct Px as [|a [|b Px]]; simpl in HCx, Hpx.
      + rewrite HCx. split; [exact Fx|]. cbn. rewrite Hcx. reflexivity.
      + rewrite HCx, Hpx. split; [exact Fx|]. split; [reflexivity|]. exact HCx.
      + destruct (k_cmd (k sx)); [|congruence]. rewrite Hpx. split; [exact Fx|]. cbn. rewrite Hcx. reflexivity.
    - rewrite (s_finish_more sx idx Hix) by (simpl in Hnn; lia).
      rewrite <- Hcx.
      apply (IH (pre ++ [c]) (S idx) (setk_index (S idx) sx) Px).
      + rewrite Hcm, <- app_assoc. reflexivity.
      + rewrite app_length. simpl. lia.
      + discriminate.
      + exact Fx.
      + reflexivity.
      + exact Hsx.
      + exact Hdx.
      + change (cbuf (setk_index (S idx) sx)) with (cbuf sx). rewrite Hbx. exact HL.
      + exact Hpx.
      + exact HCx. }
  set (u := upper (c_name c)).
  destruct (en idx) eqn:Een.
  2:{ rewrite (search_command_v0 s Hget).
      unfold outcome. cbn [find_full proper_prefix_of]. rewrite Een. cbn [andb app].
      apply (Hcont s P); auto. }
  rewrite lane_spec_st in Hget. fold u in Hget. unfold st in Hget.
  unfold outcome. cbn [find_full proper_prefix_of]. rewrite Een. fold u. cbn [andb].
  destruct (list_eqb u t) eqn:E1.
  { (* FULL *)
    rewrite (search_command_v2 s Hget).
    rewrite (search_run_stop _ _ CS_COMMAND_FOUND) by reflexivity.
    split; [exact F|]. split; [reflexivity|]. cbn. rewrite Hidx. reflexivity. }
  destruct (is_prefix t u) eqn:E2.
  2:{ rewrite (search_command_v0 s Hget). cbn [app]. apply (Hcont s P); auto. }
  (* PARTIAL *)
  assert (Hlen : (length t <? length (c_name c)) = true).
  { apply Nat.ltb_lt. pose proof (partial_longer t u E1 E2) as Hx. unfold u, upper in Hx.
    rewrite map_length in Hx. exact Hx. }
  rewrite Hlen. rewrite (search_command_v1 s Hget).
  assert (Hnext : outcome t rest (S idx) (P ++ [idx]) (k_char (k s))
                    (search_run D (length rest) (s_finish (s_partial s)))).
  { apply (Hcont (s_partial s) (P ++ [idx])); try assumption; try reflexivity.
    - cbn. rewrite Hp, app_length. simpl. lia.
    - cbn. rewrite Hidx. apply (Ccond_snoc P (k_cmd (k s))). exact HC. }
  unfold outcome in Hnext. rewrite <- app_assoc in Hnext.
  destruct (k_cmd (k s)) as [kc|] eqn:Ek; [|exact Hnext].
  rewrite Hidx. destruct (S idx =? n) eqn:E3; [|exact Hnext].
  apply Nat.eqb_eq in E3. destruct rest as [|c2 rest2]; [|simpl in Hnn; lia].
  cbn [find_full proper_prefix_of length search_run]. rewrite app_nil_r.
  split; [exact F|].
  destruct P as [|a P]; [simpl in HC; congruence|].
  destruct P as [|b P]; reflexivity.
Qed.

Lemma find_full_none : forall t (e : nat -> bool) cs a, find_full t e cs a = None ->
  forall j c, nth_error cs j = Some c -> e (a + j) = true -> upper (c_name c) <> t.
Proof.
  intros t e cs. induction cs as [|x cs IH]; intros a H j c Hj He.
  - destruct j; discriminate.
  - simpl in H. destruct (e a && list_eqb (upper (c_name x)) t) eqn:E; [discriminate|].
    destruct j as [|j].
    + simpl in Hj. inversion Hj; subst x. rewrite Nat.add_0_r in He. rewrite He in E. simpl in E.
      intros E2. apply list_eqb_eq in E2. congruence.
    + simpl in Hj. apply (IH (S a) H j c Hj). replace (S a + j) with (a + S j) by lia. exact He.
Qed.

(* ---- the section-level results ---- *)
Lemma cmds_nonempty : cmds D <> [].
Proof. intros E. unfold ncmds in Hn. rewrite E in Hn. simpl in Hn. lia. Qed.

Lemma lane_st_spec' : forall t c, t <> [] \/ c_name c <> [] -> lane_st t c = lane_spec t c.
Proof.
  intros t c [H|H]; [apply lane_st_spec; exact H|].
  destruct t as [|x t]; [|reflexivity].
  rewrite lane_spec_st. unfold lane_st. destruct (c_name c) as [|y l]; [congruence | reflexivity].
Qed.

Lemma lanes_thm : forall typed, implicit_hit D s0 typed = false ->
  let s1 := run typed in
  fault s1 = false /\ k_implicit (k s1) = false /\ k_length (k s1) = length typed /\ k_index (k s1) = 0 /\
  (typed <> [] -> k_state (k s1) = CS_PARSE_COMMAND_CHAR) /\
  forall i c, nth_error (cmds D) i = Some c -> en i = true -> (typed <> [] \/ c_name c <> []) ->
              get_cmd_state D s1 i = Some (lane_spec typed c).
Proof.
  intros typed Hh s1. destruct (sweeps_good typed Hh) as [[F [Hi [Hl [Hidx [Hd [HL [HB HLn]]]]]]] Hs].
  fold s1 in F, Hi, Hl, Hidx, Hd, HL, HB, HLn, Hs.
  split; [exact F|]. split; [exact Hi|]. split; [exact Hl|]. split; [exact Hidx|]. split; [exact Hs|].
  intros i c Hc He Hne. rewrite get_cmd_state_eq, (disable_same s1 i Hd), He. cbn [negb].
  rewrite (HLn i c Hc He). f_equal. apply lane_st_spec'. exact Hne.
Qed.

Lemma lanes_spec_of_st : forall t buf, t <> [] -> lanes buf (fun _ c => lane_st t c) ->
  lanes buf (fun _ c => lane_spec t c).
Proof.
  intros t buf Ht H. apply (lanes_ext _ _ _) with (2 := H). intros i c _ _. apply lane_st_spec. exact Ht.
Qed.

Lemma resolve_outcome : forall typed ch s2, outcome typed (cmds D) 0 [] ch s2 ->
  fault s2 = false /\
  match resolve typed en (cmds D) with
  | Some i => k_state (k s2) = CS_COMMAND_FOUND /\ k_cmd (k s2) = Some i
  | None => k_state (k s2) = (if (ch =? ch_LF)%N then CS_COMMAND_NOT_FOUND else CS_ERROR)
  end.
Proof.
  intros typed ch s2 [F H]. split; [exact F|]. unfold resolve.
  destruct (find_full typed en (cmds D) 0) as [i|]; [exact H|].
  simpl app in H. destruct (proper_prefix_of typed en (cmds D) 0) as [|a [|b l]]; exact H.
Qed.

Lemma resolve_thm : forall typed term, typed <> [] -> implicit_hit D s0 typed = false ->
  let s1 := run typed in
  let s2 := search_run D n (start_search s1 term) in
  fault s2 = false /\
  match resolve typed en (cmds D) with
  | Some i => k_state (k s2) = CS_COMMAND_FOUND /\ k_cmd (k s2) = Some i
  | None => k_state (k s2) = (if (term =? ch_LF)%N then CS_COMMAND_NOT_FOUND else CS_ERROR)
  end.
Proof.
  intros typed term Hne Hh s1 s2.
  destruct (sweeps_good typed Hh) as [[F [Hi [Hl [Hidx [Hd [HL [HB HLn]]]]]]] _].
  fold s1 in F, Hi, Hl, Hidx, Hd, HL, HB, HLn.
  apply resolve_outcome. unfold s2.
  change term with (k_char (k (start_search s1 term))) at 1.
  apply (search_go typed (cmds D) [] 0 (start_search s1 term) []); try reflexivity.
  - exact cmds_nonempty.
  - exact F.
  - exact Hd.
  - apply lanes_spec_of_st; [exact Hne | exact HLn].
Qed.

Lemma implicit_thm : forall typed, typed <> [] ->
  implicit_hit D s0 (removelast typed) = false -> implicit_hit D s0 typed = true ->
  let s1 := run typed in
  k_state (k s1) = CS_SEARCH_COMMAND /\ k_type (k s1) = T_WRITE /\ k_implicit (k s1) = false /\
  let s2 := search_run D n s1 in
  fault s2 = false /\ k_state (k s2) = CS_COMMAND_FOUND /\
  k_cmd (k s2) = find_full typed en (cmds D) 0 /\ k_cmd (k s2) <> None.
Proof.
  intros typed Hne H1 H2.
  destruct (exists_last Hne) as [t' [ch E]]. subst typed.
  rewrite removelast_last in H1. rewrite implicit_hit_snoc, H1 in H2. simpl orb in H2.
  intros s1.
  destruct (sweeps_implicit t' ch H1 H2) as [[F [Hidx [Hp [Hc [Hs [Hd HLn]]]]]] [Ht [Hi _]]].
  fold s1 in F, Hidx, Hp, Hc, Hs, Hd, HLn, Ht, Hi.
  split; [exact Hs|]. split; [exact Ht|]. split; [exact Hi|]. intros s2.
  assert (Ho : outcome (t' ++ [ch]) (cmds D) 0 [] (k_char (k s1)) s2).
  { unfold s2. apply (search_go (t' ++ [ch]) (cmds D) [] 0 s1 []); try reflexivity; try assumption.
    - exact cmds_nonempty.
    - apply lanes_spec_of_st; [|exact HLn]. intros E. apply app_eq_nil in E. destruct E; discriminate. }
  destruct Ho as [F2 Ho]. split; [exact F2|].
  destruct (find_full (t' ++ [ch]) en (cmds D) 0) as [i|] eqn:Eff.
  - destruct Ho as [Ho1 Ho2]. split; [exact Ho1|]. split; [exact Ho2|]. rewrite Ho2. discriminate.
  - exfalso. apply hit_now_iff in H2. destruct H2 as [i [c [G1 [G2 [G3 G4]]]]].
    apply (find_full_none _ _ _ _ Eff i c G1); [exact G2 | exact G4].
Qed.

End Run.

(* ---------- 5. C09: resolve and the enable flags ---------- *)
Lemma find_full_some : forall t e cs a i, find_full t e cs a = Some i ->
  e i = true /\ a <= i < a + length cs.
Proof.
  intros t e cs. induction cs as [|c cs IH]; intros a i H; simpl in H; [discriminate|].
  destruct (e a && list_eqb (upper (c_name c)) t) eqn:E.
  - inversion H; subst i. apply andb_true_iff in E. destruct E as [E _]. simpl. split; [exact E | lia].
  - apply IH in H. simpl. destruct H as [H1 H2]. split; [exact H1 | lia].
Qed.

Lemma proper_prefix_in : forall t e cs a i, In i (proper_prefix_of t e cs a) ->
  e i = true /\ a <= i < a + length cs.
Proof.
  intros t e cs. induction cs as [|c cs IH]; intros a i H; simpl in H; [contradiction|].
  apply in_app_or in H. destruct H as [H|H].
  - destruct (e a && is_prefix t (upper (c_name c)) && (length t <? length (c_name c))) eqn:E;
      [|contradiction].
    destruct H as [H|H]; [|contradiction]. subst i.
    apply andb_true_iff in E. destruct E as [E _]. apply andb_true_iff in E. destruct E as [E _].
    simpl. split; [exact E | lia].
  - apply IH in H. simpl. destruct H as [H1 H2]. split; [exact H1 | lia].
Qed.

Theorem C09_resolve_enabled : forall typed en cs i,
  resolve typed en cs = Some i -> en i = true /\ i < length cs.
Proof.
  intros typed e cs i H. unfold resolve in H.
  destruct (find_full typed e cs 0) as [j|] eqn:E.
  - inversion H; subst j. apply find_full_some in E. destruct E as [E1 E2]. split; [exact E1 | lia].
  - destruct (proper_prefix_of typed e cs 0) as [|a [|b l]] eqn:E2; try discriminate.
    inversion H; subst a.
    assert (Hin : In i (proper_prefix_of typed e cs 0)) by (rewrite E2; left; reflexivity).
    apply proper_prefix_in in Hin. destruct Hin as [H1 H2]. split; [exact H1 | lia].
Qed.

Lemma find_full_ext : forall t e1 e2 cs a, (forall i, a <= i < a + length cs -> e1 i = e2 i) ->
  find_full t e1 cs a = find_full t e2 cs a.
Proof.
  intros t e1 e2 cs. induction cs as [|c cs IH]; intros a H; simpl; [reflexivity|].
  rewrite (H a) by (simpl; lia). rewrite (IH (S a)); [reflexivity|].
  intros i Hi. apply H. simpl. lia.
Qed.

Lemma proper_prefix_ext : forall t e1 e2 cs a, (forall i, a <= i < a + length cs -> e1 i = e2 i) ->
  proper_prefix_of t e1 cs a = proper_prefix_of t e2 cs a.
Proof.
  intros t e1 e2 cs. induction cs as [|c cs IH]; intros a H; simpl; [reflexivity|].
  rewrite (H a) by (simpl; lia). rewrite (IH (S a)); [reflexivity|].
  intros i Hi. apply H. simpl. lia.
Qed.

Theorem C09_resolve_ext : forall typed en1 en2 cs,
  (forall i, i < length cs -> en1 i = en2 i) -> resolve typed en1 cs = resolve typed en2 cs.
Proof.
  intros typed e1 e2 cs H. unfold resolve.
  rewrite (find_full_ext typed e1 e2 cs 0) by (intros i Hi; apply H; lia).
  rewrite (proper_prefix_ext typed e1 e2 cs 0) by (intros i Hi; apply H; lia).
  reflexivity.
Qed.

(* ---------- 6. the final statements ---------- *)
(* C02_lanes: the statement as first requested (without the side condition
   [typed <> [] \/ c_name c <> []]) is false: before any character is typed every lane holds
   PARTIAL, while lane_spec [] c = FULL for a command whose table name is empty
   (see Example lanes_counterexample below). *)
Theorem C02_lanes : forall D s typed,
  let n := ncmds D in
  0 < n -> n <= 4 * length (cbuf s) -> fault s = false -> k_implicit (k s) = false ->
  implicit_hit D s typed = false ->
  let s1 := fold_left (name_char_step D) typed (prepare_parse_command s) in
  fault s1 = false /\ k_implicit (k s1) = false /\ k_length (k s1) = length typed /\ k_index (k s1) = 0 /\
  (typed <> [] -> k_state (k s1) = CS_PARSE_COMMAND_CHAR) /\
  forall i c, nth_error (cmds D) i = Some c -> enabled D s i = true ->
              (typed <> [] \/ c_name c <> []) ->
              get_cmd_state D s1 i = Some (lane_spec typed c).
Proof.
  intros D s typed n H1 H2 H3 H4 H5. exact (lanes_thm D s H1 H2 H3 H4 typed H5).
Qed.

Theorem C02_resolve : forall D s typed term,
  let n := ncmds D in
  0 < n -> n <= 4 * length (cbuf s) -> fault s = false -> k_implicit (k s) = false ->
  typed <> [] -> implicit_hit D s typed = false ->
  let s1 := fold_left (name_char_step D) typed (prepare_parse_command s) in
  let s2 := search_run D n (start_search s1 term) in
  fault s2 = false /\
  match resolve typed (enabled D s) (cmds D) with
  | Some i => k_state (k s2) = CS_COMMAND_FOUND /\ k_cmd (k s2) = Some i
  | None => k_state (k s2) = (if (term =? ch_LF)%N then CS_COMMAND_NOT_FOUND else CS_ERROR)
  end.
Proof.
  intros D s typed term n H1 H2 H3 H4 H5 H6. exact (resolve_thm D s H1 H2 H3 H4 typed term H5 H6).
Qed.

Theorem C02_implicit : forall D s typed,
  let n := ncmds D in
  0 < n -> n <= 4 * length (cbuf s) -> fault s = false -> k_implicit (k s) = false ->
  typed <> [] -> implicit_hit D s (removelast typed) = false -> implicit_hit D s typed = true ->
  let s1 := fold_left (name_char_step D) typed (prepare_parse_command s) in
  k_state (k s1) = CS_SEARCH_COMMAND /\ k_type (k s1) = T_WRITE /\ k_implicit (k s1) = false /\
  let s2 := search_run D n s1 in
  fault s2 = false /\ k_state (k s2) = CS_COMMAND_FOUND /\
  k_cmd (k s2) = find_full typed (enabled D s) (cmds D) 0 /\ k_cmd (k s2) <> None.
Proof.
  intros D s typed n H1 H2 H3 H4 H5 H6 H7. exact (implicit_thm D s H1 H2 H3 H4 typed H5 H6 H7).
Qed.

(* ---------- 7. examples (non-vacuity), by computation ---------- *)
Definition exC02_mkc (nm : list N) (imp : bool) : cmd :=
  mkCmd nm None true true true false [] false false imp.
(* "+TA" "+tB" ""  |  "Z" "+T" "+TA"(implicit) "+TAB"  |  "+TC"(implicit) "+TCD" "Q" "QR"(implicit) "+z" *)
Definition exC02_D : desc :=
  mkDesc [[exC02_mkc [43;84;65]%N false; exC02_mkc [43;116;66]%N false; exC02_mkc [] false];
          [exC02_mkc [90]%N false; exC02_mkc [43;84]%N false; exC02_mkc [43;84;65]%N true;
           exC02_mkc [43;84;65;66]%N false];
          [exC02_mkc [43;84;67]%N true; exC02_mkc [43;84;67;68]%N false; exC02_mkc [81]%N false;
           exC02_mkc [81;82]%N true; exC02_mkc [43;122]%N false]]
         [] 16 None 0%N 2 false.
Definition exC02_s : state := init_state exC02_D [].
(* command 4 ("+T") disabled, group 2 disabled *)
Definition exC02_s' : state :=
  set_dis_grp [false; false; true] (set_dis_cmd [false; false; false; false; true] exC02_s).

Definition exC02_hyps (D : desc) (s : state) : bool :=
  (0 <? ncmds D) && (ncmds D <=? 4 * length (cbuf s)) && negb (fault s) && negb (k_implicit (k s)).
Definition exC02_run (D : desc) (s : state) (typed : list N) : state :=
  fold_left (name_char_step D) typed (prepare_parse_command s).

Example exC02_hyps_ok : exC02_hyps exC02_D exC02_s = true /\ exC02_hyps exC02_D exC02_s' = true /\
  ncmds exC02_D = 12 /\ length (cbuf exC02_s) = 8.
Proof. vm_compute. repeat split. Qed.

(* "+T" : exact name of command 4, although +TA, +TAB, +TC... have it as a prefix *)
Example exC02_resolve_full :
  implicit_hit exC02_D exC02_s [43;84]%N = false /\
  resolve [43;84]%N (enabled exC02_D exC02_s) (cmds exC02_D) = Some 4 /\
  k_cmd (k (search_run exC02_D 12 (start_search (exC02_run exC02_D exC02_s [43;84]%N) 10%N))) = Some 4.
Proof. vm_compute. repeat split. Qed.

(* "+" : ambiguous; "Z" unique; "+TAB" via prefix "+TAB" full; "+T" with command 4 and group 2 disabled:
   proper prefix of +TA (0), +TA (5), +TAB (6): ambiguous; "+TAB" in s' *)
Example exC02_resolve_more :
  resolve [43]%N (enabled exC02_D exC02_s) (cmds exC02_D) = None /\
  k_state (k (search_run exC02_D 12 (start_search (exC02_run exC02_D exC02_s [43]%N) 10%N)))
    = CS_COMMAND_NOT_FOUND /\
  k_state (k (search_run exC02_D 12 (start_search (exC02_run exC02_D exC02_s [43]%N) 61%N)))
    = CS_ERROR /\
  resolve [43;116]%N (enabled exC02_D exC02_s) (cmds exC02_D) = None /\
  resolve [43;84;66]%N (enabled exC02_D exC02_s) (cmds exC02_D) = Some 1 /\
  k_cmd (k (search_run exC02_D 12 (start_search (exC02_run exC02_D exC02_s [43;84;66]%N) 61%N))) = Some 1 /\
  resolve [43;84]%N (enabled exC02_D exC02_s') (cmds exC02_D) = None /\
  implicit_hit exC02_D exC02_s' [81]%N = false /\
  resolve [81]%N (enabled exC02_D exC02_s') (cmds exC02_D) = None /\
  resolve [43;84;65;66]%N (enabled exC02_D exC02_s') (cmds exC02_D) = Some 6.
Proof. vm_compute. repeat split. Qed.

(* "+TA" : command 5 is an implicit-write command; command 0 has the same name and comes first *)
Example exC02_implicit_ex :
  implicit_hit exC02_D exC02_s (removelast [43;84;65]%N) = false /\
  implicit_hit exC02_D exC02_s [43;84;65]%N = true /\
  k_state (k (exC02_run exC02_D exC02_s [43;84;65]%N)) = CS_SEARCH_COMMAND /\
  k_type (k (exC02_run exC02_D exC02_s [43;84;65]%N)) = T_WRITE /\
  find_full [43;84;65]%N (enabled exC02_D exC02_s) (cmds exC02_D) 0 = Some 0 /\
  k_cmd (k (search_run exC02_D 12 (exC02_run exC02_D exC02_s [43;84;65]%N))) = Some 0 /\
  (* "+TC": the implicit command 7 itself *)
  implicit_hit exC02_D exC02_s [43;84;67]%N = true /\
  k_cmd (k (search_run exC02_D 12 (exC02_run exC02_D exC02_s [43;84;67]%N))) = Some 7.
Proof. vm_compute. repeat split. Qed.

(* the lanes statement without the side condition fails for typed = [] and the empty table name
   (command 2): the lane holds PARTIAL (1), lane_spec says FULL (2) *)
Example exC02_lanes_counterexample :
  exC02_hyps exC02_D exC02_s = true /\ implicit_hit exC02_D exC02_s [] = false /\
  nth_error (cmds exC02_D) 2 = Some (exC02_mkc [] false) /\ enabled exC02_D exC02_s 2 = true /\
  get_cmd_state exC02_D (exC02_run exC02_D exC02_s []) 2 = Some 1%N /\
  lane_spec [] (exC02_mkc [] false) = 2%N.
Proof. vm_compute. repeat split. Qed.

(* lanes after "+T": three lane bytes are in use *)
Example exC02_lanes_ex :
  map (get_cmd_state exC02_D (exC02_run exC02_D exC02_s [43;84]%N)) (seq 0 12) =
  map (fun c => Some (lane_spec [43;84]%N c)) (cmds exC02_D) /\
  firstn 4 (cbuf (exC02_run exC02_D exC02_s [43;84]%N)) = [5; 86; 1; 85]%N.
Proof. vm_compute. repeat split. Qed.
