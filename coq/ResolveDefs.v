(* ResolveDefs.v — definitions used to state C02/C09: the name-matching sweeps of the command
   machine as iterations of the model's own step functions (update_command, search_command),
   and the lane-status specification.  No proofs. *)
From Coq Require Import List NArith ZArith Bool Arith.
From CatV Require Import Bytes Defs Codec Spec Fsm.
Import ListNotations.
Local Open Scope nat_scope.

Fixpoint iter {A} (n : nat) (f : A -> A) (x : A) : A :=
  match n with O => x | S n' => iter n' f (f x) end.

Section Resolve.
Variable D : desc.

(* command i is enabled in state s *)
Definition enabled (s : state) (i : nat) : bool := negb (is_command_disable D s i).

(* what parse_command does with a name character ch (already upper-cased by read_cmd_char),
   followed by the complete update sweep: ncmds service calls in CS_UPDATE_COMMAND_STATE *)
Definition name_char_step (s : state) (ch : N) : state :=
  iter (ncmds D) (update_command D)
       (s |> setk_char ch |> setk_length (S (k_length (k s))) |> setk_state CS_UPDATE_COMMAND_STATE).

(* the search sweep: service calls in CS_SEARCH_COMMAND until the state changes, at most fuel calls *)
Fixpoint search_run (fuel : nat) (s : state) : state :=
  match fuel with
  | O => s
  | S f => if cstate_beq (k_state (k s)) CS_SEARCH_COMMAND then search_run f (search_command D s) else s
  end.

(* what the three reading states do when the name ends (LF, '=' or LF after '?') *)
Definition start_search (s : state) (term : N) : state :=
  s |> setk_char term |> prepare_search_command |> setk_state CS_SEARCH_COMMAND.

(* status of an enabled command's lane after `typed` (upper-case) has been received *)
Definition lane_spec (typed : list N) (c : cmd) : N :=
  if list_eqb (upper (c_name c)) typed then CMD_FULL
  else if is_prefix typed (upper (c_name c)) then CMD_PARTIAL
  else CMD_NOT_MATCH.

(* an enabled implicit-write command is named exactly by some non-empty prefix of typed *)
Definition implicit_hit (s : state) (typed : list N) : bool :=
  existsb (fun k =>
    existsb (fun ic => enabled s (fst ic) && c_implicit (snd ic) &&
                       list_eqb (upper (c_name (snd ic))) (firstn k typed))
            (combine (seq 0 (ncmds D)) (cmds D)))
    (seq 1 (length typed)).

End Resolve.
