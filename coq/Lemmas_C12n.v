(* Lemmas_C12n.v -- property C12 in MIXED runs, continued: runs that contain API calls other than
   cat_service (events triggered DURING the run, status queries), and the fault flag.

   Lemmas_C12m.v proves that in runs made of service calls only (nsvc) the command machine's view
   cview moves along ONE chain  citer D j (cview w)  whatever the readiness schedules and
   whatever the (quiet) events already queued in w.  Its step theorems (cmd_step_view,
   uns_step_view) hold in any world.  Here:

   1. every API operation other than cat_service acts on the view by a function of the view only
      (nonservice_view); the operations OTrigger (ANY command, accepted or refused), OIsBusy,
      OIsHold, OIsFull, OIsBuffered, OGetProcessed leave the view unchanged (neutral_view);
      OHoldExit and the two flag setters DO change it (they store into the command machine's record
      / into the enable flags it reads), by the function  vact o ;
   2. a trigger of a quiet command keeps the event-side invariant invE provided the queue is well
      formed (Lemmas_C13.ring_wf, which holds in every world reached from cat_init; without it a
      stale ring slot can surface: witness in Properties_C12n.v);
   3. hence for every list of operations made of OService, triggers of quiet commands and the five
      queries the view after the run is  citer D j (cview w)  with j <= the number of service calls
      (ops_view); two such runs from worlds with equal views -- DIFFERENT operation lists, e.g.
      the triggers issued at different moments, different schedules -- are on one chain
      (ops_view_chain), their command-side projections are prefix-related (ops_projection_prefix)
      and equal at quiescence (ops_view_final, ops_projection_independent);
   4. the fault flag: runs from cat_init in the domain of C03 (ops_fault). *)
From Coq Require Import List NArith ZArith Bool Arith Lia.
From CatV Require Import Bytes Defs Codec Fsm Script TraceDefs ResolveDefs SchedDefs SkelInv Lemmas_C12 Lemmas_C12m.
From CatV Require Lemmas_C13 Lemmas_C13o Lemmas_C15 Lemmas_C12c Lemmas_C01s Lemmas_C03b Lemmas_Inv.
Import ListNotations.
Local Open Scope nat_scope.

(* ------------------------------------------------------------------ *)
(* 0. pushing an event                                                  *)
(* ------------------------------------------------------------------ *)

(* the transplant does not see the queue *)
Lemma xa_push : forall D a b s ci t, nx a b (fst (push_unsolicited_cmd D s ci t)) = nx a b s.
Proof.
  intros D a b s ci t. unfold push_unsolicited_cmd.
  destruct (ring_full D s); [reflexivity|]. cbn [fst].
  destruct (u_tail (u s) <? length (u_ring (u s))); reflexivity.
Qed.

Lemma forallb_app' : forall (A : Type) (f : A -> bool) l1 l2,
  forallb f (l1 ++ l2) = forallb f l1 && forallb f l2.
Proof. intros A f l1 l2. induction l1 as [|x l1 IH]; [reflexivity|]. cbn. rewrite IH, andb_assoc. reflexivity. Qed.

Lemma invE_unfold : forall D s,
  invE D s = nlb (u_state (u s)) && nlb (u_wafter (u s)) &&
             match u_cmd (u s) with Some ci => quiet_ci D ci | None => true end &&
             forallb (fun it => quiet_ci D (fst it)) (ring_items D s).
Proof. reflexivity. Qed.

(* a trigger of a quiet command keeps the event-side invariant (well-formed queue) *)
Lemma ie_push : forall D s ci t, Lemmas_C13.ring_wf D s -> quiet_ci D ci = true ->
  invE D s = true -> invE D (fst (push_unsolicited_cmd D s ci t)) = true.
Proof.
  intros D s ci t W Q I. pose proof (Lemmas_C13.C13_push D s ci t W) as P.
  destruct (push_unsolicited_cmd D s ci t) as [s' r] eqn:E. cbn [fst].
  destruct (length (ring_items D s) <? d_cap D).
  - destruct P as (_ & _ & Hi & _).
    assert (Es : (u_state (u s'), u_cmd (u s'), u_type (u s'), u_wafter (u s')) =
                 (u_state (u s), u_cmd (u s), u_type (u s), u_wafter (u s))).
    { apply (f_equal fst) in E. cbn [fst] in E. subst s'. unfold push_unsolicited_cmd.
      destruct (ring_full D s); [reflexivity|]. cbn [fst].
      destruct (u_tail (u s) <? length (u_ring (u s))); reflexivity. }
    injection Es as E1 E2 E3 E4.
    rewrite invE_unfold in *. rewrite E1, E2, E4, Hi, forallb_app'. cbn [forallb fst].
    rewrite !andb_true_iff in *. destruct I as [[[A B] C] F]. rewrite Q. repeat split; assumption.
  - destruct P as (_ & ->). exact I.
Qed.

Lemma op_eq_service : forall o : op, {o = OService} + {o <> OService}.
Proof. intros o. destruct o; first [left; reflexivity | right; discriminate]. Qed.

Section Ops.
Variable D : desc.
Hypothesis Hmx : d_mutex D = false.

Local Notation st := (Fsm.st sio smu shs).
Local Notation io := (Fsm.io sio smu shs).
Local Notation mu := (Fsm.mu sio smu shs).
Local Notation hs := (Fsm.hs sio smu shs).
Local Notation tr := (Fsm.tr sio smu shs).
Local Notation mkWorld := (Fsm.mkWorld sio smu shs).
Local Notation logw := (Fsm.logw sio smu shs).
Local Notation upd_st := (Fsm.upd_st sio smu shs).
Local Notation set_st := (Fsm.set_st sio smu shs).
Local Notation sdo := (Fsm.do_op D sio smu shs s_read s_write s_lock s_unlock s_call).
Local Notation sstep := (Fsm.step D sio smu shs s_read s_write s_lock s_unlock s_call).
Local Notation srunO := (Fsm.run D sio smu shs s_read s_write s_lock s_unlock s_call).

(* ------------------------------------------------------------------ *)
(* 1. one operation other than cat_service                              *)
(* ------------------------------------------------------------------ *)

(* what such an operation does to the object state, and the status it returns *)
Definition op_st (o : op) (s : state) : state :=
  match o with
  | OTrigger ci t => fst (push_unsolicited_cmd D s ci t)
  | OHoldExit z => fst (hold_exit s z)
  | OSetCmdDisable i b => set_dis_cmd (set_flag (dis_cmd s) i b) s
  | OSetGroupDisable g b => set_dis_grp (set_flag (dis_grp s) g b) s
  | _ => s
  end.

Lemma nonservice_step : forall o (w : sworld), o <> OService ->
  exists r, sstep w o = logw (ERet o r) (set_st (op_st o (st w)) w).
Proof.
  intros o [s x m h tt] H. unfold Fsm.step.
  destruct o as [|ci ty|z| | | |ci ty|f|i b|g b]; try congruence; cbn [Fsm.do_op];
    unfold Fsm.api_trigger, Fsm.api_hold_exit, Fsm.api_is_busy, Fsm.api_is_hold, Fsm.api_is_full,
           Fsm.bracket; rewrite ?Hmx; cbn [Fsm.st op_st].
  - destruct (push_unsolicited_cmd D s ci ty) as [s' r]. exists r. reflexivity.
  - destruct (hold_exit s z) as [s' r]. exists r. reflexivity.
  - eexists. reflexivity.
  - eexists. reflexivity.
  - eexists. reflexivity.
  - eexists. reflexivity.
  - eexists. reflexivity.
  - eexists. reflexivity.
  - eexists. reflexivity.
Qed.

(* the effect on the view *)
Definition vact (o : op) (v : cviewT) : cviewT := cview (sstep (canon v) o).

Lemma cst_op_st : forall o s, cst (op_st o (cst s)) = cst (op_st o s).
Proof.
  intros o s. destruct o; cbn [op_st]; try reflexivity.
  - unfold cst at 1 3. rewrite !xa_push. reflexivity.
  - unfold cst at 2. rewrite nx_hold_exit. unfold px. cbn [fst]. reflexivity.
Qed.

Theorem nonservice_view : forall o (w : sworld), o <> OService ->
  cview (sstep w o) = vact o (cview w).
Proof.
  intros o w H. unfold vact.
  destruct (nonservice_step o w H) as [r E]. destruct (nonservice_step o (canon (cview w)) H) as [r' E'].
  rewrite E, E'. rewrite !cview_log by reflexivity.
  destruct w as [s x m h t]. unfold cview, canon.
  cbn [Fsm.st Fsm.io Fsm.mu Fsm.hs Fsm.tr Fsm.set_st inq].
  rewrite cst_op_st, filter_idem. reflexivity.
Qed.

(* operations that do not touch the command machine *)
Definition neutral_op (o : op) : bool :=
  match o with
  | OTrigger _ _ | OIsBusy | OIsHold | OIsFull | OIsBuffered _ _ | OGetProcessed _ => true
  | _ => false
  end.

Theorem neutral_view : forall o (w : sworld), neutral_op o = true -> cview (sstep w o) = cview w.
Proof.
  intros o w H. assert (N : o <> OService) by (intros ->; discriminate H).
  destruct (nonservice_step o w N) as [r E]. rewrite E. rewrite cview_log by reflexivity.
  destruct w as [s x m h t]. unfold cview. cbn [Fsm.st Fsm.io Fsm.mu Fsm.hs Fsm.tr Fsm.set_st].
  destruct o; try discriminate H; cbn [op_st]; try reflexivity.
  unfold cst. rewrite xa_push. reflexivity.
Qed.

Lemma vact_neutral : forall o (w : sworld), neutral_op o = true -> vact o (cview w) = cview w.
Proof.
  intros o w H. rewrite <- nonservice_view by (intros ->; discriminate H). apply neutral_view. exact H.
Qed.

(* the three operations that act on the command machine keep the event machine and the scripts *)
Theorem acting_keeps : forall o (w : sworld), o <> OService -> neutral_op o = false ->
  u (st (sstep w o)) = u (st w) /\ hs (sstep w o) = hs w /\ io (sstep w o) = io w.
Proof.
  intros o w N H. destruct (nonservice_step o w N) as [r E]. rewrite E.
  destruct w as [s x m h t]. cbn [Fsm.st Fsm.io Fsm.hs Fsm.logw Fsm.set_st].
  destruct o; try discriminate H; try congruence; cbn [op_st]; repeat split.
  unfold hold_exit. destruct (negb (Defs.k_hold (k s))); reflexivity.
Qed.

(* ------------------------------------------------------------------ *)
(* 2. the invariant of runs with triggers                               *)
(* ------------------------------------------------------------------ *)

Definition InvN (w : sworld) : Prop :=
  invE D (st w) = true /\ script_ok res_no_trigger (hs w) = true /\ Lemmas_C13.ring_wf D (st w).

Lemma InvN_M : forall w, InvN w -> InvM D w.
Proof. intros w (A & B & _). split; assumption. Qed.

Lemma ring_wf_step : forall (w : sworld) o, Lemmas_C13.ring_wf D (st w) -> Lemmas_C13.ring_wf D (st (sstep w o)).
Proof.
  intros w o.
  apply (Lemmas_C13.move_inv D sio smu shs s_lock s_unlock (fun w => Lemmas_C13.ring_wf D (st w))).
  - intros w1 w2 R _ H. exact (Lemmas_C13.ring_wf_rp D _ _ R H).
  - intros w1 w2 e R _ _ H. exact (Lemmas_C13.ring_wf_rp D _ _ R H).
  - intros w1 ci t mk _ H. cbn [Fsm.logw Fsm.st].
    destruct (Lemmas_C13.api_trigger_spec D sio smu shs s_lock s_unlock w1 ci t) as (evs & _ & _ & [[_ E]|[E _]]);
      rewrite E; [exact H|].
    pose proof (Lemmas_C13.C13_push D (st w1) ci t H) as P.
    destruct (push_unsolicited_cmd D (st w1) ci t) as [s' r]. cbn [fst].
    destruct (length (ring_items D (st w1)) <? d_cap D); [apply P | destruct P as (_ & ->); exact H].
  - intros w1 w2 it rest Hi R _ H.
    pose proof (Lemmas_C13.C13_pop D (st w1) H) as P. rewrite Hi in P.
    destruct P as (s' & P & W' & _). rewrite P in R. cbn [fst] in R.
    exact (Lemmas_C13.ring_wf_rp D _ _ R W').
  - apply Lemmas_C13.step_move.
Qed.

(* operations of the runs considered: cat_service, triggers of quiet commands, the five queries *)
Definition vn_op (o : op) : bool :=
  match o with
  | OService => true
  | OTrigger ci _ => quiet_ci D ci
  | o' => neutral_op o'
  end.

Lemma vn_neutral : forall o, vn_op o = true -> o <> OService -> neutral_op o = true.
Proof. intros o H N. destruct o; try reflexivity; try discriminate H; congruence. Qed.

(* a. one view-neutral operation: the view is unchanged (whether the trigger was accepted or
   refused), the invariant is kept *)
Theorem trigger_quiet_view : forall o (w : sworld), vn_op o = true -> o <> OService -> InvN w ->
  cview (sstep w o) = cview w /\ InvN (sstep w o).
Proof.
  intros o w V N (I & S & W). split; [apply neutral_view; exact (vn_neutral o V N)|].
  split; [|split; [|apply ring_wf_step; exact W]].
  - destruct (nonservice_step o w N) as [r E]. rewrite E.
    destruct w as [s x m h t]. cbn [Fsm.st Fsm.logw Fsm.set_st] in *.
    destruct o; try discriminate V; try congruence; cbn [op_st]; try exact I.
    cbn [vn_op] in V. apply ie_push; assumption.
  - destruct (nonservice_step o w N) as [r E]. rewrite E. destruct w as [s x m h t]. exact S.
Qed.

Lemma service_view : forall w, InvN w ->
  InvN (sstep w OService) /\
  (cview (sstep w OService) = cview w \/ cview (sstep w OService) = cnext D (cview w)).
Proof.
  intros w I. destruct (svc_view D Hmx w (InvN_M w I)) as [[I1 S1] V].
  split; [|exact V]. split; [exact I1|]. split; [exact S1|]. apply ring_wf_step. apply I.
Qed.

(* ------------------------------------------------------------------ *)
(* 3. whole runs                                                        *)
(* ------------------------------------------------------------------ *)

Definition is_service (o : op) : bool := match o with OService => true | _ => false end.
Definition nserv (ops : list op) : nat := length (filter is_service ops).

Theorem ops_view : forall ops (w : sworld), forallb vn_op ops = true -> InvN w ->
  InvN (srunO w ops) /\ exists j, j <= nserv ops /\ cview (srunO w ops) = citer D j (cview w).
Proof.
  induction ops as [|o ops IH]; intros w V I.
  - split; [exact I|]. exists 0. split; [apply Nat.le_0_l | reflexivity].
  - cbn [forallb] in V. apply andb_true_iff in V. destruct V as [Vo V].
    unfold Fsm.run. cbn [fold_left]. fold (srunO (sstep w o) ops).
    destruct (op_eq_service o) as [->|N].
    + destruct (service_view w I) as [I1 [E|E]];
        destruct (IH _ V I1) as [I2 (j & Hj & Ej)]; (split; [exact I2|]); rewrite E in Ej.
      * exists j. split; [unfold nserv in *; cbn [filter is_service length]; lia | exact Ej].
      * exists (S j). split; [unfold nserv in *; cbn [filter is_service length]; lia | exact Ej].
    + destruct (trigger_quiet_view o w Vo N I) as [E I1].
      destruct (IH _ V I1) as [I2 (j & Hj & Ej)]. split; [exact I2|]. rewrite E in Ej.
      exists j. split; [|exact Ej].
      unfold nserv in *. cbn [filter]. destruct o; cbn [is_service length]; lia.
Qed.

(* b. two runs with DIFFERENT operation lists (triggers at different moments, different numbers of
   service calls, different schedules) from worlds with the same view are on one chain *)
Theorem ops_view_chain : forall (w1 w2 : sworld) ops1 ops2,
  forallb vn_op ops1 = true -> forallb vn_op ops2 = true -> InvN w1 -> InvN w2 -> cview w1 = cview w2 ->
  exists j1 j2, j1 <= nserv ops1 /\ j2 <= nserv ops2 /\
    cview (srunO w1 ops1) = citer D j1 (cview w1) /\
    cview (srunO w2 ops2) = citer D j2 (cview w1).
Proof.
  intros w1 w2 ops1 ops2 V1 V2 I1 I2 E.
  destruct (ops_view ops1 w1 V1 I1) as [_ (j1 & H1 & E1)].
  destruct (ops_view ops2 w2 V2 I2) as [_ (j2 & H2 & E2)].
  exists j1, j2. rewrite E. rewrite <- E at 1. repeat split; assumption.
Qed.

(* the command-side sub-traces are prefix-related (lists are newest first) *)
Theorem ops_trace_prefix : forall (w1 w2 : sworld) ops1 ops2,
  forallb vn_op ops1 = true -> forallb vn_op ops2 = true -> InvN w1 -> InvN w2 -> cview w1 = cview w2 ->
  exists evs, filter cvis (tr (srunO w1 ops1)) = evs ++ filter cvis (tr (srunO w2 ops2)) \/
              filter cvis (tr (srunO w2 ops2)) = evs ++ filter cvis (tr (srunO w1 ops1)).
Proof.
  intros w1 w2 ops1 ops2 V1 V2 I1 I2 E.
  destruct (ops_view_chain w1 w2 ops1 ops2 V1 V2 I1 I2 E) as (j1 & j2 & _ & _ & E1 & E2).
  destruct (Nat.le_ge_cases j1 j2) as [L|L].
  - assert (Eb : cview (srunO w2 ops2) = citer D (j2 - j1) (cview (srunO w1 ops1))).
    { rewrite E1, E2, <- citer_add. f_equal. lia. }
    destruct (citer_grows D (j2 - j1) (srunO w1 ops1)) as [evs G]. exists evs. right.
    rewrite <- G, <- Eb. reflexivity.
  - assert (Eb : cview (srunO w1 ops1) = citer D (j1 - j2) (cview (srunO w2 ops2))).
    { rewrite E1, E2, <- citer_add. f_equal. lia. }
    destruct (citer_grows D (j1 - j2) (srunO w2 ops2)) as [evs G]. exists evs. left.
    rewrite <- G, <- Eb. reflexivity.
Qed.

(* at quiescence of both runs the views are EQUAL *)
Theorem ops_view_final : forall (w1 w2 : sworld) ops1 ops2,
  forallb vn_op ops1 = true -> forallb vn_op ops2 = true -> InvN w1 -> InvN w2 -> cview w1 = cview w2 ->
  inq (io (srunO w1 ops1)) = [] -> snd (sdo (srunO w1 ops1) OService) = ST_OK ->
  inq (io (srunO w2 ops2)) = [] -> snd (sdo (srunO w2 ops2) OService) = ST_OK ->
  cview (srunO w1 ops1) = cview (srunO w2 ops2).
Proof.
  intros w1 w2 ops1 ops2 V1 V2 I1 I2 E Q1 O1 Q2 O2.
  pose proof (quiet_fix D _ (Lemmas_C12c.ok_quiet D Hmx _ Q1 O1)) as F1.
  pose proof (quiet_fix D _ (Lemmas_C12c.ok_quiet D Hmx _ Q2 O2)) as F2.
  destruct (ops_view_chain w1 w2 ops1 ops2 V1 V2 I1 I2 E) as (j1 & j2 & _ & _ & E1 & E2).
  rewrite E1, E2 in *. destruct (Nat.le_ge_cases j1 j2) as [L|L].
  - replace j2 with (j1 + (j2 - j1)) by lia. rewrite citer_add. symmetry. apply citer_fix. exact F1.
  - replace j1 with (j2 + (j1 - j2)) by lia. rewrite citer_add. apply citer_fix. exact F2.
Qed.

(* what a user observes of the command side: equal at quiescence ... *)
Theorem ops_projection_independent : forall (w1 w2 : sworld) ops1 ops2,
  forallb vn_op ops1 = true -> forallb vn_op ops2 = true -> InvN w1 -> InvN w2 -> cview w1 = cview w2 ->
  let a := srunO w1 ops1 in let b := srunO w2 ops2 in
  inq (io a) = [] -> snd (sdo a OService) = ST_OK ->
  inq (io b) = [] -> snd (sdo b OService) = ST_OK ->
  Lemmas_C01s.consumed (tr a) = Lemmas_C01s.consumed (tr b) /\
  cmd_output (tr a) = cmd_output (tr b) /\ cmd_calls (tr a) = cmd_calls (tr b) /\
  k (st a) = k (st b) /\ cbuf (st a) = cbuf (st b) /\ mem (st a) = mem (st b) /\
  hs a = hs b /\ inq (io a) = inq (io b).
Proof.
  intros w1 w2 ops1 ops2 V1 V2 I1 I2 E a b Q1 O1 Q2 O2. apply view_obs.
  apply ops_view_final; assumption.
Qed.

(* ... and prefix-related before *)
Theorem ops_projection_prefix : forall (w1 w2 : sworld) ops1 ops2,
  forallb vn_op ops1 = true -> forallb vn_op ops2 = true -> InvN w1 -> InvN w2 -> cview w1 = cview w2 ->
  let a := srunO w1 ops1 in let b := srunO w2 ops2 in
  (exists r1 r2 r3, Lemmas_C01s.consumed (tr a) = Lemmas_C01s.consumed (tr b) ++ r1 /\
                    cmd_output (tr a) = cmd_output (tr b) ++ r2 /\
                    cmd_calls (tr a) = cmd_calls (tr b) ++ r3) \/
  (exists r1 r2 r3, Lemmas_C01s.consumed (tr b) = Lemmas_C01s.consumed (tr a) ++ r1 /\
                    cmd_output (tr b) = cmd_output (tr a) ++ r2 /\
                    cmd_calls (tr b) = cmd_calls (tr a) ++ r3).
Proof.
  intros w1 w2 ops1 ops2 V1 V2 I1 I2 E a b.
  destruct (ops_trace_prefix w1 w2 ops1 ops2 V1 V2 I1 I2 E) as [evs [G|G]].
  - left. rewrite <- (consumed_cvis (tr a)), <- (cmd_output_cvis (tr a)), <- (cmd_calls_cvis (tr a)).
    rewrite <- (consumed_cvis (tr b)), <- (cmd_output_cvis (tr b)), <- (cmd_calls_cvis (tr b)).
    unfold a, b. rewrite G. unfold Lemmas_C01s.consumed, cmd_output, cmd_calls. rewrite !proj_app.
    do 3 eexists. repeat split; reflexivity.
  - right. rewrite <- (consumed_cvis (tr a)), <- (cmd_output_cvis (tr a)), <- (cmd_calls_cvis (tr a)).
    rewrite <- (consumed_cvis (tr b)), <- (cmd_output_cvis (tr b)), <- (cmd_calls_cvis (tr b)).
    unfold a, b. rewrite G. unfold Lemmas_C01s.consumed, cmd_output, cmd_calls. rewrite !proj_app.
    do 3 eexists. repeat split; reflexivity.
Qed.

(* b'. ANY operations (hold exits and flag stores included), triggers of quiet commands: the view
   evolves by functions of the view only; the schedules and the event machine decide, at each
   service call, between the stutter and the step -- nothing else *)
Definition ok_op (o : op) : bool := match o with OTrigger ci _ => quiet_ci D ci | _ => true end.

Inductive vpath : list op -> cviewT -> cviewT -> Prop :=
  | vp_nil : forall v, vpath [] v v
  | vp_stutter : forall ops v v', vpath ops v v' -> vpath (OService :: ops) v v'
  | vp_step : forall ops v v', vpath ops (cnext D v) v' -> vpath (OService :: ops) v v'
  | vp_act : forall o ops v v', o <> OService -> vpath ops (vact o v) v' -> vpath (o :: ops) v v'.

Lemma ok_op_InvN : forall o (w : sworld), ok_op o = true -> InvN w -> InvN (sstep w o).
Proof.
  intros o w K I. destruct (op_eq_service o) as [->|N]; [apply service_view; exact I|].
  destruct (neutral_op o) eqn:Ne.
  - apply trigger_quiet_view; [|exact N|exact I]. destruct o; try discriminate Ne; try reflexivity. exact K.
  - destruct (acting_keeps o w N Ne) as (U & H & _). destruct I as (I & S & W).
    split; [rewrite (invE_u D _ _ U); exact I|]. split; [rewrite H; exact S|]. apply ring_wf_step. exact W.
Qed.

Theorem ops_view_path : forall ops (w : sworld), forallb ok_op ops = true -> InvN w ->
  InvN (srunO w ops) /\ vpath ops (cview w) (cview (srunO w ops)).
Proof.
  induction ops as [|o ops IH]; intros w V I.
  - split; [exact I | constructor].
  - cbn [forallb] in V. apply andb_true_iff in V. destruct V as [Vo V].
    unfold Fsm.run. cbn [fold_left]. fold (srunO (sstep w o) ops).
    pose proof (ok_op_InvN o w Vo I) as I1. destruct (IH _ V I1) as [I2 P]. split; [exact I2|].
    destruct (op_eq_service o) as [->|N].
    + destruct (service_view w I) as [_ [E|E]]; rewrite E in P.
      * apply vp_stutter. exact P.
      * apply vp_step. exact P.
    + apply vp_act; [exact N|]. rewrite <- nonservice_view by exact N. exact P.
Qed.

(* ------------------------------------------------------------------ *)
(* 4. runs from cat_init                                                *)
(* ------------------------------------------------------------------ *)

Lemma InvN_init : forall m x mx h, 0 < d_cap D -> script_ok res_no_trigger h = true ->
  InvN (sinit D m x mx h).
Proof.
  intros m x mx h C S. unfold InvN, sinit. cbn [Fsm.st Fsm.hs]. split; [|split; [exact S|]].
  - rewrite invE_unfold. unfold ring_items. reflexivity.
  - apply Lemmas_C13.init_wf. exact C.
Qed.

Lemma cview_init : forall m x1 x2 mx h, inq x1 = inq x2 ->
  cview (sinit D m x1 mx h) = cview (sinit D m x2 mx h).
Proof. intros m x1 x2 mx h E. unfold cview, sinit. cbn [Fsm.st Fsm.io Fsm.mu Fsm.hs Fsm.tr]. rewrite E. reflexivity. Qed.

End Ops.

(* c. the fault flag.  cview masks it (nx raises it in both worlds compared): the flag is write-only
   in the model -- no function of Fsm.v reads it, which is what the commutation lemmas nx_* of
   Lemmas_C12m.v prove for the command machine -- so nothing the views determine depends on it.
   Its VALUE is settled by C03: in the domain (well-formed descriptor, triggers naming pool
   commands) it is never raised, in any run *)
Theorem ops_fault : forall D m x1 x2 mx h ops1 ops2,
  Lemmas_C03b.wf_desc D m ->
  Forall (Lemmas_C03b.valid_op D) ops1 -> Forall (Lemmas_C03b.valid_op D) ops2 ->
  Lemmas_Inv.no_rt_hold h = true -> script_ok (Lemmas_Inv.res_calls_valid D) h = true ->
  fault (Fsm.st sio smu shs (Fsm.run D sio smu shs s_read s_write s_lock s_unlock s_call (sinit D m x1 mx h) ops1)) = false /\
  fault (Fsm.st sio smu shs (Fsm.run D sio smu shs s_read s_write s_lock s_unlock s_call (sinit D m x2 mx h) ops2)) = false.
Proof.
  intros D m x1 x2 mx h ops1 ops2 W V1 V2 N S. rewrite <- !Lemmas_Inv.srun_SOp. split.
  - exact (proj1 (Lemmas_Inv.C03_safe_scripted D m x1 mx h ops1 W V1 N S)).
  - exact (proj1 (Lemmas_Inv.C03_safe_scripted D m x2 mx h ops2 W V2 N S)).
Qed.

(* MAIN, from cat_init: the same input under two pairs of readiness schedules, two operation lists
   (service calls, triggers of quiet commands at any moments, queries), both runs quiescent *)
Theorem ops_projection_independent_init : forall D m x1 x2 mx h ops1 ops2,
  d_mutex D = false -> 0 < d_cap D -> script_ok res_no_trigger h = true -> inq x1 = inq x2 ->
  forallb (vn_op D) ops1 = true -> forallb (vn_op D) ops2 = true ->
  let a := Fsm.run D sio smu shs s_read s_write s_lock s_unlock s_call (sinit D m x1 mx h) ops1 in
  let b := Fsm.run D sio smu shs s_read s_write s_lock s_unlock s_call (sinit D m x2 mx h) ops2 in
  inq (Fsm.io sio smu shs a) = [] ->
  snd (Fsm.do_op D sio smu shs s_read s_write s_lock s_unlock s_call a OService) = ST_OK ->
  inq (Fsm.io sio smu shs b) = [] ->
  snd (Fsm.do_op D sio smu shs s_read s_write s_lock s_unlock s_call b OService) = ST_OK ->
  Lemmas_C01s.consumed (Fsm.tr sio smu shs a) = Lemmas_C01s.consumed (Fsm.tr sio smu shs b) /\
  cmd_output (Fsm.tr sio smu shs a) = cmd_output (Fsm.tr sio smu shs b) /\
  cmd_calls (Fsm.tr sio smu shs a) = cmd_calls (Fsm.tr sio smu shs b) /\
  k (Fsm.st sio smu shs a) = k (Fsm.st sio smu shs b) /\
  cbuf (Fsm.st sio smu shs a) = cbuf (Fsm.st sio smu shs b) /\
  mem (Fsm.st sio smu shs a) = mem (Fsm.st sio smu shs b) /\
  Fsm.hs sio smu shs a = Fsm.hs sio smu shs b /\
  inq (Fsm.io sio smu shs a) = inq (Fsm.io sio smu shs b).
Proof.
  intros D m x1 x2 mx h ops1 ops2 M C S E V1 V2 a b.
  apply (ops_projection_independent D M (sinit D m x1 mx h) (sinit D m x2 mx h) ops1 ops2 V1 V2).
  - apply InvN_init; assumption.
  - apply InvN_init; assumption.
  - apply cview_init. exact E.
Qed.
