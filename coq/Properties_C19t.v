(* Properties_C19t.v — property C19 continued:
   (A) C19_token_table: the token the '=?' response prints for one variable, for every (type, size,
       access) of the supported domain, as literal byte strings (an independent, readable specification
       of Spec.var_info_text = Codec.info_pieces / Codec.type_name);
   (B) E2E_test_line: a whole line  AT<name>=? LF  through the real line reader is answered with exactly
       the text Spec.spec_test_text and OK, or with ERROR when the text does not fit the buffer or a
       variable has an unsupported width.   Proofs are in Lemmas_E2Ec.v.

   The table mirrors format_info_type, /repo/src/cat.c lines 1651-1752:
     lines 1661-1674  switch (var->access): accessor = RW / RO / WO            -> Codec.access_name
     lines 1676-1730  switch (var->type), inside it switch (var->data_size):
                      INT8 INT16 INT32 (1677-1691), UINT8 UINT16 UINT32 (1692-1706),
                      HEX8 HEX16 HEX32 (1707-1721), any other data_size: return -1 (no token),
                      HEXBUF (1722-1724), STRING (1725-1727), whatever the size -> Codec.type_name
     lines 1732-1749  the output, a sequence of print_string_to_buf calls, each one checked (there is
                      no snprintf format): the bracket 60; only if var->name != NULL the name and a
                      colon 58 (1734-1739); var_type; 91; accessor; 93; 62     -> Codec.info_pieces
   (the default branches of the two outer switches, for an access or a type outside the enumerations of
   cat.h, cannot be reached from the model: vaccess and vtype are exactly these enumerations). *)
From Coq Require Import List NArith ZArith Bool Arith.
From CatV Require Import Bytes Defs Codec Spec Fsm Script ResolveDefs SchedDefs GlueDefs TextDefs.
From CatV Require Properties_C19 Lemmas_E2E.
From CatV Require Lemmas_E2Ec.
Import ListNotations.
Local Open Scope nat_scope.

(* ================= A. the token table ================= *)
(* (type, data_size, access, the token of a variable without a name); ASCII in the comment.
   In the rows of the two buffer types the size 0 stands for any size (C19_token_buf_any_size). *)
Definition token_table : list (vtype * nat * vaccess * list N) := [
  (VInt, 1, RW, [60; 73; 78; 84; 56; 91; 82; 87; 93; 62]%N);                             (* <INT8[RW]> *)
  (VInt, 1, RO, [60; 73; 78; 84; 56; 91; 82; 79; 93; 62]%N);                             (* <INT8[RO]> *)
  (VInt, 1, WO, [60; 73; 78; 84; 56; 91; 87; 79; 93; 62]%N);                             (* <INT8[WO]> *)
  (VInt, 2, RW, [60; 73; 78; 84; 49; 54; 91; 82; 87; 93; 62]%N);                         (* <INT16[RW]> *)
  (VInt, 2, RO, [60; 73; 78; 84; 49; 54; 91; 82; 79; 93; 62]%N);                         (* <INT16[RO]> *)
  (VInt, 2, WO, [60; 73; 78; 84; 49; 54; 91; 87; 79; 93; 62]%N);                         (* <INT16[WO]> *)
  (VInt, 4, RW, [60; 73; 78; 84; 51; 50; 91; 82; 87; 93; 62]%N);                         (* <INT32[RW]> *)
  (VInt, 4, RO, [60; 73; 78; 84; 51; 50; 91; 82; 79; 93; 62]%N);                         (* <INT32[RO]> *)
  (VInt, 4, WO, [60; 73; 78; 84; 51; 50; 91; 87; 79; 93; 62]%N);                         (* <INT32[WO]> *)
  (VUint, 1, RW, [60; 85; 73; 78; 84; 56; 91; 82; 87; 93; 62]%N);                        (* <UINT8[RW]> *)
  (VUint, 1, RO, [60; 85; 73; 78; 84; 56; 91; 82; 79; 93; 62]%N);                        (* <UINT8[RO]> *)
  (VUint, 1, WO, [60; 85; 73; 78; 84; 56; 91; 87; 79; 93; 62]%N);                        (* <UINT8[WO]> *)
  (VUint, 2, RW, [60; 85; 73; 78; 84; 49; 54; 91; 82; 87; 93; 62]%N);                    (* <UINT16[RW]> *)
  (VUint, 2, RO, [60; 85; 73; 78; 84; 49; 54; 91; 82; 79; 93; 62]%N);                    (* <UINT16[RO]> *)
  (VUint, 2, WO, [60; 85; 73; 78; 84; 49; 54; 91; 87; 79; 93; 62]%N);                    (* <UINT16[WO]> *)
  (VUint, 4, RW, [60; 85; 73; 78; 84; 51; 50; 91; 82; 87; 93; 62]%N);                    (* <UINT32[RW]> *)
  (VUint, 4, RO, [60; 85; 73; 78; 84; 51; 50; 91; 82; 79; 93; 62]%N);                    (* <UINT32[RO]> *)
  (VUint, 4, WO, [60; 85; 73; 78; 84; 51; 50; 91; 87; 79; 93; 62]%N);                    (* <UINT32[WO]> *)
  (VHex, 1, RW, [60; 72; 69; 88; 56; 91; 82; 87; 93; 62]%N);                             (* <HEX8[RW]> *)
  (VHex, 1, RO, [60; 72; 69; 88; 56; 91; 82; 79; 93; 62]%N);                             (* <HEX8[RO]> *)
  (VHex, 1, WO, [60; 72; 69; 88; 56; 91; 87; 79; 93; 62]%N);                             (* <HEX8[WO]> *)
  (VHex, 2, RW, [60; 72; 69; 88; 49; 54; 91; 82; 87; 93; 62]%N);                         (* <HEX16[RW]> *)
  (VHex, 2, RO, [60; 72; 69; 88; 49; 54; 91; 82; 79; 93; 62]%N);                         (* <HEX16[RO]> *)
  (VHex, 2, WO, [60; 72; 69; 88; 49; 54; 91; 87; 79; 93; 62]%N);                         (* <HEX16[WO]> *)
  (VHex, 4, RW, [60; 72; 69; 88; 51; 50; 91; 82; 87; 93; 62]%N);                         (* <HEX32[RW]> *)
  (VHex, 4, RO, [60; 72; 69; 88; 51; 50; 91; 82; 79; 93; 62]%N);                         (* <HEX32[RO]> *)
  (VHex, 4, WO, [60; 72; 69; 88; 51; 50; 91; 87; 79; 93; 62]%N);                         (* <HEX32[WO]> *)
  (VBufHex, 0, RW, [60; 72; 69; 88; 66; 85; 70; 91; 82; 87; 93; 62]%N);                  (* <HEXBUF[RW]> *)
  (VBufHex, 0, RO, [60; 72; 69; 88; 66; 85; 70; 91; 82; 79; 93; 62]%N);                  (* <HEXBUF[RO]> *)
  (VBufHex, 0, WO, [60; 72; 69; 88; 66; 85; 70; 91; 87; 79; 93; 62]%N);                  (* <HEXBUF[WO]> *)
  (VBufStr, 0, RW, [60; 83; 84; 82; 73; 78; 71; 91; 82; 87; 93; 62]%N);                  (* <STRING[RW]> *)
  (VBufStr, 0, RO, [60; 83; 84; 82; 73; 78; 71; 91; 82; 79; 93; 62]%N);                  (* <STRING[RO]> *)
  (VBufStr, 0, WO, [60; 83; 84; 82; 73; 78; 71; 91; 87; 79; 93; 62]%N)                   (* <STRING[WO]> *)
].

(* the token is what Spec.var_info_text computes, row by row (no name; no callbacks, slot 0) *)
Theorem C19_token_table :
  map (fun '(t, sz, a, _) => var_info_text (mkVar None t sz a false false 0)) token_table =
  map (fun '(_, _, _, txt) => Some txt) token_table.
Proof. vm_compute. reflexivity. Qed.
Print Assumptions C19_token_table.

(* a variable with a name: the name and a colon (58) follow the opening bracket (60) *)
Theorem C19_token_table_named : forall nm : list N,
  map (fun '(t, sz, a, _) => var_info_text (mkVar (Some nm) t sz a false false 0)) token_table =
  map (fun '(_, _, _, txt) => Some ([60]%N ++ nm ++ [58]%N ++ tl txt)) token_table.
Proof. intros nm. vm_compute. reflexivity. Qed.
Print Assumptions C19_token_table_named.

(* the same, spelled out for the name x (120) *)
Definition token_table_x : list (vtype * nat * vaccess * list N) := [
  (VInt, 1, RW, [60; 120; 58; 73; 78; 84; 56; 91; 82; 87; 93; 62]%N);                            (* <x:INT8[RW]> *)
  (VInt, 1, RO, [60; 120; 58; 73; 78; 84; 56; 91; 82; 79; 93; 62]%N);                            (* <x:INT8[RO]> *)
  (VInt, 1, WO, [60; 120; 58; 73; 78; 84; 56; 91; 87; 79; 93; 62]%N);                            (* <x:INT8[WO]> *)
  (VInt, 2, RW, [60; 120; 58; 73; 78; 84; 49; 54; 91; 82; 87; 93; 62]%N);                        (* <x:INT16[RW]> *)
  (VInt, 2, RO, [60; 120; 58; 73; 78; 84; 49; 54; 91; 82; 79; 93; 62]%N);                        (* <x:INT16[RO]> *)
  (VInt, 2, WO, [60; 120; 58; 73; 78; 84; 49; 54; 91; 87; 79; 93; 62]%N);                        (* <x:INT16[WO]> *)
  (VInt, 4, RW, [60; 120; 58; 73; 78; 84; 51; 50; 91; 82; 87; 93; 62]%N);                        (* <x:INT32[RW]> *)
  (VInt, 4, RO, [60; 120; 58; 73; 78; 84; 51; 50; 91; 82; 79; 93; 62]%N);                        (* <x:INT32[RO]> *)
  (VInt, 4, WO, [60; 120; 58; 73; 78; 84; 51; 50; 91; 87; 79; 93; 62]%N);                        (* <x:INT32[WO]> *)
  (VUint, 1, RW, [60; 120; 58; 85; 73; 78; 84; 56; 91; 82; 87; 93; 62]%N);                       (* <x:UINT8[RW]> *)
  (VUint, 1, RO, [60; 120; 58; 85; 73; 78; 84; 56; 91; 82; 79; 93; 62]%N);                       (* <x:UINT8[RO]> *)
  (VUint, 1, WO, [60; 120; 58; 85; 73; 78; 84; 56; 91; 87; 79; 93; 62]%N);                       (* <x:UINT8[WO]> *)
  (VUint, 2, RW, [60; 120; 58; 85; 73; 78; 84; 49; 54; 91; 82; 87; 93; 62]%N);                   (* <x:UINT16[RW]> *)
  (VUint, 2, RO, [60; 120; 58; 85; 73; 78; 84; 49; 54; 91; 82; 79; 93; 62]%N);                   (* <x:UINT16[RO]> *)
  (VUint, 2, WO, [60; 120; 58; 85; 73; 78; 84; 49; 54; 91; 87; 79; 93; 62]%N);                   (* <x:UINT16[WO]> *)
  (VUint, 4, RW, [60; 120; 58; 85; 73; 78; 84; 51; 50; 91; 82; 87; 93; 62]%N);                   (* <x:UINT32[RW]> *)
  (VUint, 4, RO, [60; 120; 58; 85; 73; 78; 84; 51; 50; 91; 82; 79; 93; 62]%N);                   (* <x:UINT32[RO]> *)
  (VUint, 4, WO, [60; 120; 58; 85; 73; 78; 84; 51; 50; 91; 87; 79; 93; 62]%N);                   (* <x:UINT32[WO]> *)
  (VHex, 1, RW, [60; 120; 58; 72; 69; 88; 56; 91; 82; 87; 93; 62]%N);                            (* <x:HEX8[RW]> *)
  (VHex, 1, RO, [60; 120; 58; 72; 69; 88; 56; 91; 82; 79; 93; 62]%N);                            (* <x:HEX8[RO]> *)
  (VHex, 1, WO, [60; 120; 58; 72; 69; 88; 56; 91; 87; 79; 93; 62]%N);                            (* <x:HEX8[WO]> *)
  (VHex, 2, RW, [60; 120; 58; 72; 69; 88; 49; 54; 91; 82; 87; 93; 62]%N);                        (* <x:HEX16[RW]> *)
  (VHex, 2, RO, [60; 120; 58; 72; 69; 88; 49; 54; 91; 82; 79; 93; 62]%N);                        (* <x:HEX16[RO]> *)
  (VHex, 2, WO, [60; 120; 58; 72; 69; 88; 49; 54; 91; 87; 79; 93; 62]%N);                        (* <x:HEX16[WO]> *)
  (VHex, 4, RW, [60; 120; 58; 72; 69; 88; 51; 50; 91; 82; 87; 93; 62]%N);                        (* <x:HEX32[RW]> *)
  (VHex, 4, RO, [60; 120; 58; 72; 69; 88; 51; 50; 91; 82; 79; 93; 62]%N);                        (* <x:HEX32[RO]> *)
  (VHex, 4, WO, [60; 120; 58; 72; 69; 88; 51; 50; 91; 87; 79; 93; 62]%N);                        (* <x:HEX32[WO]> *)
  (VBufHex, 0, RW, [60; 120; 58; 72; 69; 88; 66; 85; 70; 91; 82; 87; 93; 62]%N);                 (* <x:HEXBUF[RW]> *)
  (VBufHex, 0, RO, [60; 120; 58; 72; 69; 88; 66; 85; 70; 91; 82; 79; 93; 62]%N);                 (* <x:HEXBUF[RO]> *)
  (VBufHex, 0, WO, [60; 120; 58; 72; 69; 88; 66; 85; 70; 91; 87; 79; 93; 62]%N);                 (* <x:HEXBUF[WO]> *)
  (VBufStr, 0, RW, [60; 120; 58; 83; 84; 82; 73; 78; 71; 91; 82; 87; 93; 62]%N);                 (* <x:STRING[RW]> *)
  (VBufStr, 0, RO, [60; 120; 58; 83; 84; 82; 73; 78; 71; 91; 82; 79; 93; 62]%N);                 (* <x:STRING[RO]> *)
  (VBufStr, 0, WO, [60; 120; 58; 83; 84; 82; 73; 78; 71; 91; 87; 79; 93; 62]%N)                  (* <x:STRING[WO]> *)
].

Theorem C19_token_table_x :
  map (fun '(t, sz, a, _) => var_info_text (mkVar (Some [120]%N) t sz a false false 0)) token_table_x =
  map (fun '(_, _, _, txt) => Some txt) token_table_x.
Proof. vm_compute. reflexivity. Qed.
Print Assumptions C19_token_table_x.

(* numeric types of any other width have no token (format_info_type returns -1) ... *)
Theorem C19_token_unsupported :
  map (fun '(t, sz, a) => var_info_text (mkVar None t sz a false false 0))
      (list_prod (list_prod [VInt; VUint; VHex] [0; 3; 5; 6; 7; 8; 16]) [RW; RO; WO]) =
  repeat None 63.
Proof. vm_compute. reflexivity. Qed.
Print Assumptions C19_token_unsupported.

(* ... in general: a token exists exactly for the buffer types and for the widths 1, 2, 4 *)
Theorem C19_token_defined : forall v,
  (exists txt, var_info_text v = Some txt) <->
  (Lemmas_E2Ec.P4.is_buf (v_type v) = true \/ supported_width (v_size v) = true).
Proof. exact Lemmas_E2Ec.P4.token_defined_proof. Qed.
Print Assumptions C19_token_defined.

(* for HEXBUF and STRING the token does not depend on the size *)
Theorem C19_token_buf_any_size : forall nm t sz sz' a r w sl, Lemmas_E2Ec.P4.is_buf t = true ->
  var_info_text (mkVar nm t sz a r w sl) = var_info_text (mkVar nm t sz' a r w sl).
Proof. exact Lemmas_E2Ec.P4.token_buf_size_proof. Qed.
Print Assumptions C19_token_buf_any_size.

(* the token does not depend on the callbacks or on where the variable is stored *)
Theorem C19_token_no_handlers : forall nm t sz a r w sl r' w' sl',
  var_info_text (mkVar nm t sz a r w sl) = var_info_text (mkVar nm t sz a r' w' sl').
Proof. exact Lemmas_E2Ec.P4.token_handlers_proof. Qed.
Print Assumptions C19_token_no_handlers.

(* the name only adds  name colon  after the opening bracket *)
Theorem C19_token_named : forall nm t sz a r w sl,
  var_info_text (mkVar (Some nm) t sz a r w sl) =
  match var_info_text (mkVar None t sz a r w sl) with
  | Some txt => Some ([ch_LT] ++ nm ++ [ch_COLON] ++ tl txt)
  | None => None
  end.
Proof. exact Lemmas_E2Ec.P4.token_named_proof. Qed.
Print Assumptions C19_token_named.

(* the table is complete: the token of ANY variable is found in it.
     Lemmas_E2Ec.P4.token_lookup tab t sz a = the text of the first row of tab with type t, access a and
                                      (t a buffer type, or size sz)
     Lemmas_E2Ec.P4.with_name (Some n) txt  = [60] ++ n ++ [58] ++ tl txt ;  Lemmas_E2Ec.P4.with_name None txt = txt *)
Theorem C19_token_complete : forall v,
  var_info_text v =
  match Lemmas_E2Ec.P4.token_lookup token_table (v_type v) (v_size v) (v_access v) with
  | Some txt => Some (Lemmas_E2Ec.P4.with_name (v_name v) txt)
  | None => None
  end.
Proof. exact Lemmas_E2Ec.P4.token_complete_proof. Qed.
Print Assumptions C19_token_complete.

(* ================= B. the TEST line, end to end ================= *)
Local Notation wst := (Fsm.st sio smu shs).
Local Notation wio := (Fsm.io sio smu shs).
Local Notation whs := (Fsm.hs sio smu shs).
Local Notation wtr := (Fsm.tr sio smu shs).

(* AT<name>=? LF for a command with variables and no test handler (c_only_test may be set or not: the
   TEST path does not look at it; an implicit-write command refuses the =? shortcut, hence
   c_implicit c = false).  On the scripted always-ready world, event machine idle, no mutex: after some
   number of cat_service calls the parser is idle again, has consumed exactly the line, has called no
   handler, has not touched the variables, and has printed
       LF <text> LF LF OK LF      if Spec.spec_test_text gives a text and it fits the buffer
                                  (length < size: room for the terminating NUL),
       LF ERROR LF                if the text does not fit or a variable has an unsupported width,
   never a part of the text; each ghost counter (lines, started and finished result codes) advanced
   by one.  The strings of the descriptor must be free of NUL bytes (C strings): see
   spec_test_text_no_nul for the hypothesis on the components, E2E_test_line_nul for the statement
   without it, and E2E_ex_test_nul for what happens otherwise. *)
Theorem E2E_test_line : forall D s name rest h i c,
  d_mutex D = false -> 0 < ncmds D -> ncmds D <= 4 * length (cbuf s) -> 6 <= length (cbuf s) ->
  fault s = false ->
  k_state (k s) = CS_IDLE -> k_cr (k s) = false -> k_implicit (k s) = false -> k_hold (k s) = false ->
  u_state (u s) = US_IDLE -> u_count (u s) = 0 ->
  name_ok name = true -> implicit_hit D s (upper name) = false ->
  resolve (upper name) (enabled D s) (cmds D) = Some i -> nth_error (cmds D) i = Some c ->
  c_vars c <> [] -> c_htest c = false -> c_implicit c = false ->
  (forall txt, spec_test_text c [ch_LF] = Some txt -> ~ In 0%N txt) ->
  let w0 := mkw s ([ch_A; ch_T] ++ name ++ [ch_EQ; ch_QM; ch_LF] ++ rest) h [] in
  exists calls, let w := nsvc D calls w0 in
    k_state (k (wst w)) = CS_IDLE /\ inq (wio w) = rest /\ whs w = h /\ calls_of (wtr w) = [] /\
    mem (wst w) = mem s /\ fault (wst w) = false /\
    output_of (wtr w) =
      match spec_test_text c [ch_LF] with
      | Some txt =>
        if length txt <? length (cbuf s)
        then [ch_LF] ++ txt ++ [ch_LF] ++ [ch_LF] ++ txt_OK ++ [ch_LF]
        else [ch_LF] ++ txt_ERROR ++ [ch_LF]
      | None => [ch_LF] ++ txt_ERROR ++ [ch_LF]
      end /\
    gL (wst w) = S (gL s) /\ gS (wst w) = S (gS s) /\ gR (wst w) = S (gR s).
Proof. exact Lemmas_E2Ec.P4.E2E_test_line_proof. Qed.
Print Assumptions E2E_test_line.

(* the NUL hypothesis from the strings of the descriptor: the command name, the variable names and
   the description contain no NUL (and neither does the newline) *)
Theorem spec_test_text_no_nul : forall c nl txt,
  ~ In 0%N (c_name c) ->
  (forall v nm, In v (c_vars c) -> v_name v = Some nm -> ~ In 0%N nm) ->
  (forall d, c_descr c = Some d -> ~ In 0%N d) ->
  ~ In 0%N nl ->
  spec_test_text c nl = Some txt -> ~ In 0%N txt.
Proof. exact Lemmas_E2Ec.P4.spec_test_text_no_nul_proof. Qed.
Print Assumptions spec_test_text_no_nul.

(* without the NUL hypothesis: the flush stops at the first NUL of the buffer, so what is printed is
   TextDefs.text_of txt, the text up to its first NUL (all of it when there is none) *)
Theorem E2E_test_line_nul : forall D s name rest h i c,
  d_mutex D = false -> 0 < ncmds D -> ncmds D <= 4 * length (cbuf s) -> 6 <= length (cbuf s) ->
  fault s = false ->
  k_state (k s) = CS_IDLE -> k_cr (k s) = false -> k_implicit (k s) = false -> k_hold (k s) = false ->
  u_state (u s) = US_IDLE -> u_count (u s) = 0 ->
  name_ok name = true -> implicit_hit D s (upper name) = false ->
  resolve (upper name) (enabled D s) (cmds D) = Some i -> nth_error (cmds D) i = Some c ->
  c_vars c <> [] -> c_htest c = false -> c_implicit c = false ->
  let w0 := mkw s ([ch_A; ch_T] ++ name ++ [ch_EQ; ch_QM; ch_LF] ++ rest) h [] in
  exists calls, let w := nsvc D calls w0 in
    k_state (k (wst w)) = CS_IDLE /\ inq (wio w) = rest /\ whs w = h /\ calls_of (wtr w) = [] /\
    mem (wst w) = mem s /\ fault (wst w) = false /\
    output_of (wtr w) =
      match spec_test_text c [ch_LF] with
      | Some txt =>
        if length txt <? length (cbuf s)
        then [ch_LF] ++ text_of txt ++ [ch_LF] ++ [ch_LF] ++ txt_OK ++ [ch_LF]
        else [ch_LF] ++ txt_ERROR ++ [ch_LF]
      | None => [ch_LF] ++ txt_ERROR ++ [ch_LF]
      end /\
    gL (wst w) = S (gL s) /\ gS (wst w) = S (gS s) /\ gR (wst w) = S (gR s).
Proof. exact Lemmas_E2Ec.P4.E2E_test_line_nul_proof. Qed.
Print Assumptions E2E_test_line_nul.

(* ---------- non-vacuity (vm_compute) ----------
   obs = (state, remaining input, handler scripts, calls, output, memory, fault, (gL, gS, gR)) *)
Definition obs (w : sworld) :=
  (k_state (k (wst w)), inq (wio w), whs w, calls_of (wtr w), output_of (wtr w), mem (wst w), fault (wst w),
   (gL (wst w), gS (wst w), gR (wst w))).
Definition hyps_ok := Lemmas_E2E.E2E_examples.hyps_ok.

(* 1. the instance of Properties_C19.C19_examples: commands +A (description de; x : INT16 RW,
      STRING RO; write, read and run handlers, no test handler), +B, +C in a shared buffer of n bytes,
      n/2 for the command machine; txt1 is the 32-character text  +A=<x:INT16[RW]>,<STRING[RO]> LF de *)
Import Properties_C19.C19_examples.
Definition goA (n : nat) (line : list N) (calls : nat) := obs (nsvc (Dn n) calls (mkw (st0 n) line [] [])).
Definition lineA : list N := [65; 84; 43; 97; 61; 63; 10; 1; 2; 3]%N.      (* at+a=? LF 1 2 3 *)

Example E2E_ex_test_hyps :
  hyps_ok (Dn 66) (st0 66) = true /\ hyps_ok (Dn 64) (st0 64) = true /\
  name_ok [43; 97]%N = true /\
  implicit_hit (Dn 66) (st0 66) (upper [43; 97]%N) = false /\
  resolve (upper [43; 97]%N) (enabled (Dn 66) (st0 66)) (cmds (Dn 66)) = Some 0 /\
  nth_error (cmds (Dn 66)) 0 = Some c1 /\
  c_htest c1 = false /\ c_implicit c1 = false /\ c_hwrite c1 = true /\
  spec_test_text c1 [ch_LF] = Some txt1 /\ length txt1 = 32 /\
  length (cbuf (st0 66)) = 33 /\ length (cbuf (st0 64)) = 32.
Proof. vm_compute. repeat split; reflexivity. Qed.

(* a buffer of 33 bytes: after exactly 65 calls the parser is idle, 1 2 3 is still queued, no handler
   was called (although +A has a write handler), the output is LF txt1 LF LF OK LF, counters (1,1,1) *)
Example E2E_ex_test_run :
  goA 66 lineA 65 =
    (CS_IDLE, [1; 2; 3]%N, [], [], [10]%N ++ txt1 ++ [10; 10; 79; 75; 10]%N,
     [[0; 0]; [0; 0; 0; 0; 0; 0; 0; 0]]%N, false, (1, 1, 1)).
Proof. vm_compute. reflexivity. Qed.

(* one byte less (32): LF ERROR LF after 29 calls, nothing of the text *)
Example E2E_ex_test_one_byte_short :
  goA 64 lineA 29 =
    (CS_IDLE, [1; 2; 3]%N, [], [], [10; 69; 82; 82; 79; 82; 10]%N,
     [[0; 0]; [0; 0; 0; 0; 0; 0; 0; 0]]%N, false, (1, 1, 1)).
Proof. vm_compute. reflexivity. Qed.

(* the strings of +A contain no NUL: by the component lemma *)
Example E2E_ex_test_no_nul : forall txt, spec_test_text c1 [ch_LF] = Some txt -> ~ In 0%N txt.
Proof.
  intros txt. apply spec_test_text_no_nul.
  - cbn. intuition discriminate.
  - intros v nm [<-|[<-|[]]] E; inversion E. cbn. intuition discriminate.
  - intros d E. inversion E. cbn. intuition discriminate.
  - cbn. intuition discriminate.
Qed.

(* the general theorem applied to this instance, both outcomes *)
Example E2E_ex_test_apply :
  (exists calls, let w := nsvc (Dn 66) calls (mkw (st0 66) lineA [] []) in
     k_state (k (wst w)) = CS_IDLE /\ inq (wio w) = [1; 2; 3]%N /\
     output_of (wtr w) = [10]%N ++ txt1 ++ [10; 10; 79; 75; 10]%N) /\
  (exists calls, let w := nsvc (Dn 64) calls (mkw (st0 64) lineA [] []) in
     k_state (k (wst w)) = CS_IDLE /\ inq (wio w) = [1; 2; 3]%N /\
     output_of (wtr w) = [10; 69; 82; 82; 79; 82; 10]%N).
Proof.
  destruct E2E_ex_test_hyps as (_ & _ & H3 & _).
  split.
  - destruct (E2E_test_line (Dn 66) (st0 66) [43; 97]%N [1; 2; 3]%N [] 0 c1
                eq_refl ltac:(apply Nat.ltb_lt; reflexivity) ltac:(apply Nat.leb_le; reflexivity)
                ltac:(apply Nat.leb_le; reflexivity)
                eq_refl eq_refl eq_refl eq_refl eq_refl eq_refl eq_refl H3 eq_refl eq_refl eq_refl
                ltac:(discriminate) eq_refl eq_refl E2E_ex_test_no_nul)
      as (calls & A & B & _ & _ & _ & _ & O & _).
    exists calls. cbv zeta. split; [exact A|]. split; [exact B|]. exact O.
  - destruct (E2E_test_line (Dn 64) (st0 64) [43; 97]%N [1; 2; 3]%N [] 0 c1
                eq_refl ltac:(apply Nat.ltb_lt; reflexivity) ltac:(apply Nat.leb_le; reflexivity)
                ltac:(apply Nat.leb_le; reflexivity)
                eq_refl eq_refl eq_refl eq_refl eq_refl eq_refl eq_refl H3 eq_refl eq_refl eq_refl
                ltac:(discriminate) eq_refl eq_refl E2E_ex_test_no_nul)
      as (calls & A & B & _ & _ & _ & _ & O & _).
    exists calls. cbv zeta. split; [exact A|]. split; [exact B|]. exact O.
Qed.

(* 2. the instance Lemmas_E2E.E2E_examples (command +X with four unnamed variables, buffer of 40
      bytes): the text  +X=<INT16[RW]>,<STRING[RW]>,<HEXBUF[RW]>,<UINT8[RW]>  has 52 characters and does
      not fit: at+x=? LF is answered LF ERROR LF in 28 calls, memory untouched *)
Example E2E_ex_test_D0_error :
  option_map (@length N) (spec_test_text Lemmas_E2E.E2E_examples.c0 [ch_LF]) = Some 52 /\
  length (cbuf Lemmas_E2E.E2E_examples.s0) = 40 /\
  Lemmas_E2E.E2E_examples.go Lemmas_E2E.E2E_examples.s0 [65; 84; 43; 120; 61; 63; 10; 1; 2; 3]%N 28 =
    (CS_IDLE, [1; 2; 3]%N, [], [], [10; 69; 82; 82; 79; 82; 10]%N, Lemmas_E2E.E2E_examples.m0, false, (1, 1, 1)).
Proof. vm_compute. repeat split; reflexivity. Qed.

(* 3. why the NUL hypothesis: a description d NUL e.  The text  +Z=<x:INT16[RW]> LF d NUL e  (20 bytes)
      fits the 40-byte buffer and is stored completely, but the flush stops at the NUL: the output is
      LF +Z=<x:INT16[RW]> LF d LF LF OK LF  (text_of of the text), not the text itself *)
Definition cz := mkCmd [43; 90]%N (Some [100; 0; 101]%N) false false false false [va] false false false.
Definition Dz := mkDesc [[cz]] [] 80 None 0%N 2 false.
Definition sz := init_state Dz [[0; 0]]%N.
Definition txtz : list N :=
  [43; 90; 61; 60; 120; 58; 73; 78; 84; 49; 54; 91; 82; 87; 93; 62; 10; 100; 0; 101]%N.

Example E2E_ex_test_nul :
  hyps_ok Dz sz = true /\ spec_test_text cz [ch_LF] = Some txtz /\ (length txtz <? length (cbuf sz)) = true /\
  text_of txtz = firstn 18 txtz /\
  obs (nsvc Dz 46 (mkw sz [65; 84; 43; 90; 61; 63; 10; 1; 2; 3]%N [] [])) =
    (CS_IDLE, [1; 2; 3]%N, [], [], [10]%N ++ firstn 18 txtz ++ [10; 10; 79; 75; 10]%N, [[0; 0]]%N, false, (1, 1, 1)) /\
  [10]%N ++ firstn 18 txtz ++ [10; 10; 79; 75; 10]%N <> [10]%N ++ txtz ++ [10; 10; 79; 75; 10]%N.
Proof. vm_compute. repeat split; try reflexivity. discriminate. Qed.
