(* Properties_C16.v — property C16: every public operation that takes the mutex acquires it first
   and releases it exactly once on every exit path; a failed lock reports the lock error without
   touching any parser state or I/O; a failed unlock reports the unlock error; either way the
   object stays usable.  Proofs are in Lemmas_C16.v. *)
From Coq Require Import List NArith ZArith Bool Arith.
From CatV Require Import Bytes Defs Codec Fsm Script TraceDefs Lemmas_C16.
Import ListNotations.

(* the operations of do_op that lock (cat_service, cat_trigger_unsolicited_*, cat_hold_exit,
   cat_is_busy, cat_is_hold, cat_is_unsolicited_buffer_full) *)
Definition locking_op (o : op) : bool :=
  match o with
  | OService | OTrigger _ _ | OHoldExit _ | OIsBusy | OIsHold | OIsFull => true
  | _ => false
  end.

Definition is_lock_ev (e : event) : bool :=
  match e with ELock _ | EUnlock _ => true | _ => false end.

Section C16.
Variable D : desc.
Variables ioS muS hS : Type.
Variable io_read : ioS -> ioS * option N.
Variable io_write : ioS -> N -> ioS * bool.
Variable mu_lock : muS -> muS * bool.
Variable mu_unlock : muS -> muS * bool.
Variable h_call : hS -> hreq -> hS * hres.

(* with a mutex configured, handlers make no inner API calls (they would self-deadlock in C) *)
Hypothesis no_inner : d_mutex D = true -> forall hs q, r_calls (snd (h_call hs q)) = [].

Local Notation world := (Fsm.world ioS muS hS).
Local Notation st := (Fsm.st ioS muS hS).
Local Notation io := (Fsm.io ioS muS hS).
Local Notation mu := (Fsm.mu ioS muS hS).
Local Notation hs := (Fsm.hs ioS muS hS).
Local Notation tr := (Fsm.tr ioS muS hS).
Local Notation mkWorld := (Fsm.mkWorld ioS muS hS).
Local Notation set_mu := (Fsm.set_mu ioS muS hS).
Local Notation logw := (Fsm.logw ioS muS hS).
Local Notation bracket := (Fsm.bracket D ioS muS hS mu_lock mu_unlock).
Local Notation do_op := (Fsm.do_op D ioS muS hS io_read io_write mu_lock mu_unlock h_call).
Local Notation run := (Fsm.run D ioS muS hS io_read io_write mu_lock mu_unlock h_call).
Local Notation hist := (TraceDefs.hist ioS muS hS).

(* 1. the generic bracket law, for ANY body (does not need no_inner) *)
Theorem C16_bracket : forall (w : world) (body : world -> world * Z), d_mutex D = true ->
  let (m1, ok) := mu_lock (mu w) in
  if ok then
    let w1 := logw (ELock true) (set_mu m1 w) in
    let (w2, s) := body w1 in
    let (m2, ok2) := mu_unlock (mu w2) in
    bracket w body = (logw (EUnlock ok2) (set_mu m2 w2), if ok2 then s else ST_MUTEX_UNLOCK)
  else bracket w body = (logw (ELock false) (set_mu m1 w), ST_MUTEX_LOCK).
Proof. exact (Lemmas_C16.C16_bracket D ioS muS hS mu_lock mu_unlock). Qed.

(* 2. a failed lock: the operation returns ST_MUTEX_LOCK and nothing but the mutex oracle state
   and the one ELock false event changes *)
Theorem C16_lock_failure : forall w o, d_mutex D = true -> locking_op o = true ->
  snd (mu_lock (mu w)) = false ->
  let (w', r) := do_op w o in
  r = ST_MUTEX_LOCK /\ st w' = st w /\ io w' = io w /\ hs w' = hs w /\
  tr w' = ELock false :: tr w /\ mu w' = fst (mu_lock (mu w)).
Proof.
  exact (Lemmas_C16.C16_lock_failure D ioS muS hS io_read io_write mu_lock mu_unlock h_call).
Qed.

(* 3. a successful lock: ELock true, then body events with no lock/unlock event, then exactly one
   EUnlock; an unlock failure yields ST_MUTEX_UNLOCK, otherwise the status is the body's and is
   neither of the two mutex error codes *)
Theorem C16_lock_success : forall w o, d_mutex D = true -> locking_op o = true ->
  snd (mu_lock (mu w)) = true ->
  let (w', r) := do_op w o in
  exists body ok2, tr w' = EUnlock ok2 :: body ++ ELock true :: tr w /\
                   forallb (fun e => negb (is_lock_ev e)) body = true /\
                   (ok2 = false -> r = ST_MUTEX_UNLOCK) /\
                   (ok2 = true -> r <> ST_MUTEX_UNLOCK /\ r <> ST_MUTEX_LOCK).
Proof.
  exact (Lemmas_C16.C16_lock_success D ioS muS hS io_read io_write mu_lock mu_unlock h_call no_inner).
Qed.

(* 4. operations that do not lock never touch the mutex *)
Theorem C16_nonlocking : forall w o, locking_op o = false ->
  mu (fst (do_op w o)) = mu w /\
  exists evs, tr (fst (do_op w o)) = evs ++ tr w /\
              forallb (fun e => negb (is_lock_ev e)) evs = true.
Proof.
  exact (Lemmas_C16.C16_nonlocking D ioS muS hS io_read io_write mu_lock mu_unlock h_call).
Qed.

(* 5. every history: lock/unlock events are balanced and never nested, whatever fails *)
Theorem C16_history : forall m x mx h ops,
  locks_ok false (locks (hist (run (mkWorld (init_state D m) x mx h []) ops))) = true.
Proof.
  exact (Lemmas_C16.C16_history D ioS muS hS io_read io_write mu_lock mu_unlock h_call no_inner).
Qed.

(* 6. no mutex configured: no lock event is ever logged *)
Theorem C16_no_mutex_no_events : forall m x mx h ops, d_mutex D = false ->
  locks (hist (run (mkWorld (init_state D m) x mx h []) ops)) = [].
Proof.
  exact (Lemmas_C16.C16_no_mutex_no_events D ioS muS hS io_read io_write mu_lock mu_unlock h_call no_inner).
Qed.

End C16.

Print Assumptions C16_bracket.
Print Assumptions C16_lock_failure.
Print Assumptions C16_lock_success.
Print Assumptions C16_nonlocking.
Print Assumptions C16_history.
Print Assumptions C16_no_mutex_no_events.

(* 6'. when no mutex is configured no_inner is vacuous: arbitrary handlers, inner calls included *)
Theorem C16_no_mutex_no_events_any_handler :
  forall (D : desc) (ioS muS hS : Type) (io_read : ioS -> ioS * option N)
         (io_write : ioS -> N -> ioS * bool) (mu_lock mu_unlock : muS -> muS * bool)
         (h_call : hS -> hreq -> hS * hres) m x mx h ops,
  d_mutex D = false ->
  locks (hist ioS muS hS (run D ioS muS hS io_read io_write mu_lock mu_unlock h_call
                              (mkWorld ioS muS hS (init_state D m) x mx h []) ops)) = [].
Proof. exact Lemmas_C16.C16_no_mutex_no_events_any_handler. Qed.
Print Assumptions C16_no_mutex_no_events_any_handler.

(* ------------------------------------------------------------------ *)
(* non-vacuity: scripted runs                                           *)
(* ------------------------------------------------------------------ *)

Definition rets (h : list event) : list Z :=
  flat_map (fun e => match e with ERet _ r => [r] | _ => [] end) h.
Definition written (h : list event) : list N :=
  flat_map (fun e => match e with EWr _ ch true => [ch] | _ => [] end) h.

(* one command "+X" with a run handler, a mutex, queue capacity 2 *)
Definition exD (mutex : bool) : desc :=
  mkDesc [[mkCmd [43; 88]%N None false false true false [] false false false]] [] 16 None 0%N 2 mutex.

(* input "AT\n"; the 2nd lock fails, the 2nd unlock fails *)
Definition exOps : list sop :=
  [SOp OService; SOp OIsBusy; SOp (OTrigger 0 T_READ); SOp OIsFull]
  ++ repeat (SOp OService) 13 ++ [SOp OIsBusy].
Definition exW : sworld :=
  srun (exD true)
       (sinit (exD true) [] (mkSio [65; 84; 10]%N [] [])
              (mkSmu [true; false; true; true] [true; false; true]) [])
       exOps.

(* the start of the history: a complete bracket, a failed lock alone, a bracket whose unlock fails *)
Example C16_ex_prefix : firstn 12 (TraceDefs.hist _ _ _ exW) =
  [ELock true; ERd (Some 65%N); EUnlock true; ERet OService 1;
   ELock false; ERet OIsBusy (-3);
   ELock true; EUnlock false; ERet (OTrigger 0 T_READ) (-2);
   ELock true; EUnlock true; ERet OIsFull 0].
Proof. vm_compute. reflexivity. Qed.

(* statuses: BUSY, MUTEX_LOCK (-3), MUTEX_UNLOCK (-2), OK, then the object keeps working:
   the line is parsed, "\nOK\n" is written, and the parser is idle again *)
Example C16_ex_rets : rets (TraceDefs.hist _ _ _ exW) =
  [1; -3; -2; 0; 1; 1; 1; 1; 1; 1; 1; 1; 1; 1; 1; 0; 0; 0]%Z.
Proof. vm_compute. reflexivity. Qed.

Example C16_ex_written : written (TraceDefs.hist _ _ _ exW) = [10; 79; 75; 10]%N.
Proof. vm_compute. reflexivity. Qed.

Example C16_ex_locks : firstn 7 (locks (TraceDefs.hist _ _ _ exW)) =
  [(true, true); (false, true); (true, false); (true, true); (false, false); (true, true); (false, true)]
  /\ locks_ok false (locks (TraceDefs.hist _ _ _ exW)) = true.
Proof. vm_compute. split; reflexivity. Qed.

(* the same run without a mutex logs no lock event at all *)
Example C16_ex_nomutex :
  locks (TraceDefs.hist _ _ _
    (srun (exD false)
          (sinit (exD false) [] (mkSio [65; 84; 10]%N [] [])
                 (mkSmu [true; false; true; true] [true; false; true]) []) exOps)) = [].
Proof. vm_compute. reflexivity. Qed.

(* the hypothesis no_inner is necessary: with a mutex, a run handler that calls
   cat_trigger_unsolicited_event from inside produces a nested lock (a self-deadlock in C) *)
Example C16_ex_inner_call_nests :
  locks_ok false (locks (TraceDefs.hist _ _ _
    (srun (exD true)
          (sinit (exD true) [] (mkSio [65; 84; 43; 88; 10]%N [] []) (mkSmu [] [])
                 [((2, 0, 0), [mkHres RC_OK None [] [ITrigger 0 T_RUN]])])
          (repeat (SOp OService) 12)))) = false.
Proof. vm_compute. reflexivity. Qed.
