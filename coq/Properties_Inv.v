(* Properties_Inv.v — the history theorems under hypotheses on the environment oracles that hold
   on an INVARIANT of the oracle states only, and their instances for the scripted oracles of
   Script.v (s_call, s_unlock), i.e. for the worlds sinit / srun used by the end-to-end theorems,
   by C12 part B, C15b / C15c, the examples, the extraction and the correspondence check.

   Background.  J_reachable, J_in_domain, C03_no_fault, C03_safe_reachable and the history theorems
   of C01, C11b, C13, C14, C16, C17, C18 assume
        no_uhold       forall hs q, unsol_req q = true -> r_code (snd (h_call hs q)) <> RC_HOLD
        handlers_valid forall hs q, Forall (valid_icall D) (r_calls (snd (h_call hs q)))
        no_inner       d_mutex D = true -> forall hs q, r_calls (snd (h_call hs q)) = []
        unlock_ok      d_mutex D = false \/ forall m, snd (mu_unlock m) = true
   for EVERY oracle state hs / m.  A scripted oracle does not satisfy that (some script state
   answers HOLD, some schedule refuses the unlock).  Below the same conclusions are obtained
   when the oracle states that are actually REACHED behave: an invariant HI of the handler state
   (MI of the mutex state) that holds initially, is preserved by every call, and implies that the
   answer of the call is good.  Nothing is proved again: Lemmas_Inv.v shows that the run driven
   by h_call equals the run driven by a sanitised oracle (which repairs the bad answers, and
   satisfies the hypotheses for all states), and applies the existing theorem to the latter.

   Definitions used in the statements (Lemmas_Inv.v; restated below as Examples):
     Good D q r            the answer r to the request q is acceptable
     valid_icallb D c      valid_icall D c, decided
     rt_kind, no_rt_hold   no HOLD answer in any read / test script
     res_calls_valid D r   all inner calls of r are valid
     res_no_calls r        r makes no inner call
     unlock_never_fails mx the unlock schedule of mx contains no `false`
     valid_sop, no_reinit  scenario steps other than SReinit *)
From Coq Require Import List NArith ZArith Bool Arith Lia.
From CatV Require Import Bytes Defs Codec Fsm Script Skel SkelInv SkelSim TraceDefs ResolveDefs SchedDefs TermDefs.
From CatV Require Import Lemmas_Ctl Lemmas_C03 Lemmas_C13 Lemmas_C16 Lemmas_C17b Lemmas_C15c Lemmas_Inv.
Import ListNotations.
Local Open Scope nat_scope.

(* ------------------------------------------------------------------ *)
(* the definitions, for the reader                                      *)
(* ------------------------------------------------------------------ *)
Example Good_def : forall D q r,
  Good D q r = ((unsol_req q = true -> r_code r <> RC_HOLD) /\ Forall (valid_icall D) (r_calls r)).
Proof. reflexivity. Qed.

Example valid_icallb_def : forall D c,
  valid_icallb D c = match c with
                     | ITrigger ci t => (ci <? length (pool D)) && (ctype_beq t T_READ || ctype_beq t T_TEST)
                     | IHoldExit _ => true
                     end.
Proof. reflexivity. Qed.

Theorem valid_icallb_spec : forall D c, valid_icallb D c = true <-> valid_icall D c.
Proof. exact Lemmas_Inv.valid_icallb_spec. Qed.
Print Assumptions valid_icallb_spec.

(* script keys (Script.key_of): kind 0 write, 1 read, 2 run, 3 test handler of a command, 4 / 5
   read / write callback of a variable.  The key does not record which machine asks, so for
   scripts `no HOLD to the event machine` is: no HOLD in ANY script of kind read or test.
   Write and run scripts may hold. *)
Example rt_kind_def : forall kind ci vi, rt_kind (kind, ci, vi) = ((kind =? 1) || (kind =? 3)).
Proof. reflexivity. Qed.
Example no_rt_hold_def : forall h,
  no_rt_hold h = forallb (fun e => negb (rt_kind (fst e)) || forallb no_hold_res (snd e)) h.
Proof. reflexivity. Qed.
Example res_calls_valid_def : forall D r, res_calls_valid D r = forallb (valid_icallb D) (r_calls r).
Proof. reflexivity. Qed.
Example res_no_calls_def : forall r, res_no_calls r = match r_calls r with [] => true | _ :: _ => false end.
Proof. reflexivity. Qed.
Example unlock_never_fails_def : forall mx, unlock_never_fails mx = forallb (fun b : bool => b) (unlock_sched mx).
Proof. reflexivity. Qed.
Example valid_sop_def : forall D o,
  valid_sop D o = match o with SOp o => valid_op D o | SReinit => False | _ => True end.
Proof. reflexivity. Qed.
Example no_reinit_def : forall o, no_reinit o = match o with SReinit => False | _ => True end.
Proof. reflexivity. Qed.

(* ================================================================== *)
(* 1. two pairs of oracles that agree on invariants give the same run   *)
(* ================================================================== *)
Theorem Inv_run_agree :
  forall (D : desc) (ioS muS hS : Type) (io_read : ioS -> ioS * option N)
         (io_write : ioS -> N -> ioS * bool) (mu_lock ul1 ul2 : muS -> muS * bool)
         (h1 h2 : hS -> hreq -> hS * hres) (HI : hS -> Prop) (MI : muS -> Prop),
  (forall hs q, HI hs -> h2 hs q = h1 hs q) ->
  (forall hs q, HI hs -> HI (fst (h1 hs q))) ->
  (forall m, MI m -> ul2 m = ul1 m) ->
  (forall m, MI m -> MI (fst (mu_lock m))) ->
  (forall m, MI m -> MI (fst (ul1 m))) ->
  forall ops (w : world ioS muS hS), HI (hs _ _ _ w) /\ MI (mu _ _ _ w) ->
  run D ioS muS hS io_read io_write mu_lock ul2 h2 w ops =
  run D ioS muS hS io_read io_write mu_lock ul1 h1 w ops /\
  (HI (hs _ _ _ (run D ioS muS hS io_read io_write mu_lock ul1 h1 w ops)) /\
   MI (mu _ _ _ (run D ioS muS hS io_read io_write mu_lock ul1 h1 w ops))).
Proof. exact Lemmas_Inv.run_agree. Qed.
Print Assumptions Inv_run_agree.

(* the sanitised handler oracle satisfies the hypotheses of the history theorems in ALL states *)
Theorem Inv_h_san_ok :
  forall (D : desc) (hS : Type) (h_call : hS -> hreq -> hS * hres),
  (forall h q, unsol_req q = true -> r_code (snd (h_san D hS h_call h q)) <> RC_HOLD) /\
  (forall h q, Forall (valid_icall D) (r_calls (snd (h_san D hS h_call h q)))).
Proof. intros D hS h_call. split; [exact (h_san_no_uhold D hS h_call) | exact (h_san_valid D hS h_call)]. Qed.
Print Assumptions Inv_h_san_ok.

(* ================================================================== *)
(* 2. theorems that need `no event-side HOLD` only                      *)
(* ================================================================== *)
Section InvH.
Variable D : desc.
Variables ioS muS hS : Type.
Variable io_read : ioS -> ioS * option N.
Variable io_write : ioS -> N -> ioS * bool.
Variable mu_lock : muS -> muS * bool.
Variable mu_unlock : muS -> muS * bool.
Variable h_call : hS -> hreq -> hS * hres.
Variable HI : hS -> Prop.
Hypothesis HI_stepH : forall h q, HI h ->
  HI (fst (h_call h q)) /\ (unsol_req q = true -> r_code (snd (h_call h q)) <> RC_HOLD).

Notation world := (Fsm.world ioS muS hS).
Notation st := (Fsm.st ioS muS hS).
Notation hs := (Fsm.hs ioS muS hS).
Notation run := (Fsm.run D ioS muS hS io_read io_write mu_lock mu_unlock h_call).
Notation step := (Fsm.step D ioS muS hS io_read io_write mu_lock mu_unlock h_call).
Notation cmd_service := (Fsm.cmd_service D ioS muS hS io_read io_write mu_lock mu_unlock h_call).
Notation reach m x mx h ops := (run (mkWorld ioS muS hS (init_state D m) x mx h []) ops).
Notation L T := (T D ioS muS hS io_read io_write mu_lock mu_unlock h_call HI HI_stepH).

Theorem HI_reachable : forall (w : world) ops, HI (hs w) -> HI (hs (run w ops)).
Proof. exact (L Lemmas_Inv.HI_reachable). Qed.

Theorem J_reachable_inv : forall m x mx h ops, HI h ->
  let w := reach m x mx h ops in
  fault (st w) = false -> J (ctl_of (st w)).
Proof. exact (L Lemmas_Inv.J_reachable_inv). Qed.

Theorem J_step_inv : forall (w : world) o, HI (hs w) ->
  J (ctl_of (st w)) -> fault (st (step w o)) = false -> J (ctl_of (st (step w o))).
Proof. exact (L Lemmas_Inv.J_step_inv). Qed.

Theorem J_run_inv : forall (w0 : world) ops, HI (hs w0) ->
  J (ctl_of (st w0)) -> fault (st (run w0 ops)) = false -> J (ctl_of (st (run w0 ops))).
Proof. exact (L Lemmas_Inv.J_run_inv). Qed.

Theorem C01_one_result_per_line_inv : forall m x mx h ops, HI h ->
  let s := st (reach m x mx h ops) in
  fault s = false ->
  gR s <= gL s <= S (gR s) /\ gR s <= gS s <= gL s.
Proof. exact (L Lemmas_Inv.C01_one_result_per_line_inv). Qed.

Theorem C01_reads_only_when_settled_inv : forall m x mx h ops, HI h ->
  let s := st (reach m x mx h ops) in
  fault s = false -> reading_state (k_state (k s)) = true ->
  gL s = gR s /\ gS s = gR s.
Proof. exact (L Lemmas_Inv.C01_reads_only_when_settled_inv). Qed.

Theorem C01_result_is_last_inv : forall m x mx h ops, HI h ->
  let s := st (reach m x mx h ops) in
  fault s = false -> gS s = S (gR s) ->
  (k_state (k s) = CS_FLUSH_WAIT \/ k_state (k s) = CS_FLUSH) /\ k_wafter (k s) = CS_AFTER_RESET.
Proof. exact (L Lemmas_Inv.C01_result_is_last_inv). Qed.

Theorem C01_blank_line_inv : forall w : world, HI (hs w) -> k_state (k (st w)) = CS_IDLE ->
  let s := st w in let s' := st (fst (cmd_service w)) in
  gL s' = gL s /\ gS s' = gS s /\ gR s' = gR s /\
  (k_state (k s') = CS_IDLE \/ k_state (k s') = CS_PARSE_PREFIX \/ k_state (k s') = CS_ERROR).
Proof. exact (L Lemmas_Inv.C01_blank_line_inv). Qed.

Theorem C01_drain_inv : forall w : world, HI (hs w) -> k_state (k (st w)) = CS_ERROR ->
  let s := st w in let s' := st (fst (cmd_service w)) in
  (k_state (k s') = CS_ERROR /\ gL s' = gL s /\ gS s' = gS s /\ gR s' = gR s) \/
  (k_state (k s') = CS_FLUSH_WAIT /\ k_wafter (k s') = CS_AFTER_RESET /\
   gL s' = S (gL s) /\ gS s' = S (gS s) /\ gR s' = gR s).
Proof. exact (L Lemmas_Inv.C01_drain_inv). Qed.

Theorem C01_lookup_exits_inv : forall w : world, HI (hs w) -> k_state (k (st w)) = CS_SEARCH_COMMAND ->
  let s := st w in let s' := st (fst (cmd_service w)) in
  gL s' = gL s /\ gS s' = gS s /\ gR s' = gR s /\
  (k_state (k s') = CS_SEARCH_COMMAND \/ k_state (k s') = CS_COMMAND_FOUND \/
   (k_state (k s') = CS_COMMAND_NOT_FOUND /\ k_char (k s) = ch_LF) \/
   (k_state (k s') = CS_ERROR /\ k_char (k s) <> ch_LF)).
Proof. exact (L Lemmas_Inv.C01_lookup_exits_inv). Qed.

Theorem C11_exclusion_history_inv : forall m x mx h ops, HI h ->
  let s := st (reach m x mx h ops) in
  fault s = false -> ~ (k_state (k s) = CS_FLUSH /\ u_state (u s) = US_FLUSH).
Proof. exact (L Lemmas_Inv.C11_exclusion_history_inv). Qed.

Theorem C14_flag_is_state_inv : forall m x mx h ops, HI h ->
  let s := st (reach m x mx h ops) in
  fault s = false ->
  (k_hold (k s) = true <-> k_state (k s) = CS_HOLD) /\
  (k_state (k s) = CS_HOLD -> gL s = S (gR s) /\ gS s = gR s).
Proof. exact (L Lemmas_Inv.C14_flag_is_state_inv). Qed.

Theorem C18_busy_sound_inv : forall m x mx h ops, HI h ->
  let s := st (reach m x mx h ops) in
  fault s = false -> is_busy s = ST_OK ->
  gL s = gR s /\ gS s = gR s /\
  k_hold (k s) = false /\ k_cr (k s) = false /\ k_implicit (k s) = false /\
  k_state (k s) <> CS_FLUSH /\ k_state (k s) <> CS_FLUSH_WAIT /\
  u_state (u s) <> US_FLUSH /\ u_state (u s) <> US_FLUSH_WAIT.
Proof. exact (L Lemmas_Inv.C18_busy_sound_inv). Qed.

Theorem C18_hold_exact_inv : forall m x mx h ops, HI h ->
  let s := st (reach m x mx h ops) in
  fault s = false -> (is_hold s = ST_HOLD <-> k_state (k s) = CS_HOLD).
Proof. exact (L Lemmas_Inv.C18_hold_exact_inv). Qed.
End InvH.

Print Assumptions HI_reachable.
Print Assumptions J_reachable_inv.
Print Assumptions J_step_inv.
Print Assumptions J_run_inv.
Print Assumptions C01_one_result_per_line_inv.
Print Assumptions C01_reads_only_when_settled_inv.
Print Assumptions C01_result_is_last_inv.
Print Assumptions C01_blank_line_inv.
Print Assumptions C01_drain_inv.
Print Assumptions C01_lookup_exits_inv.
Print Assumptions C11_exclusion_history_inv.
Print Assumptions C14_flag_is_state_inv.
Print Assumptions C18_busy_sound_inv.
Print Assumptions C18_hold_exact_inv.

(* ================================================================== *)
(* 3. theorems of the supported domain: every answer Good               *)
(* ================================================================== *)
Section InvD.
Variable D : desc.
Variables ioS muS hS : Type.
Variable io_read : ioS -> ioS * option N.
Variable io_write : ioS -> N -> ioS * bool.
Variable mu_lock : muS -> muS * bool.
Variable mu_unlock : muS -> muS * bool.
Variable h_call : hS -> hreq -> hS * hres.
Variable HI : hS -> Prop.
Hypothesis HI_step : forall h q, HI h -> HI (fst (h_call h q)) /\ Good D q (snd (h_call h q)).

Notation world := (Fsm.world ioS muS hS).
Notation st := (Fsm.st ioS muS hS).
Notation hs := (Fsm.hs ioS muS hS).
Notation run := (Fsm.run D ioS muS hS io_read io_write mu_lock mu_unlock h_call).
Notation step := (Fsm.step D ioS muS hS io_read io_write mu_lock mu_unlock h_call).
Notation reach m x mx h ops := (run (mkWorld ioS muS hS (init_state D m) x mx h []) ops).
Notation L T := (T D ioS muS hS io_read io_write mu_lock mu_unlock h_call HI HI_step).

(* the run is the run of the sanitised oracle, and the invariant holds at its end *)
Theorem Inv_run_san : forall (w : world) ops, HI (hs w) ->
  Fsm.run D ioS muS hS io_read io_write mu_lock mu_unlock (h_san D hS h_call) w ops = run w ops /\
  HI (hs (run w ops)).
Proof. exact (L Lemmas_Inv.run_san). Qed.

Theorem J_in_domain_inv : forall m x mx h ops, HI h ->
  wf_desc D m -> Forall (valid_op D) ops ->
  let s := st (reach m x mx h ops) in
  fault s = false /\ J (ctl_of s).
Proof. exact (L Lemmas_Inv.J_in_domain_inv). Qed.

Theorem C03_no_fault_inv : forall m x mx h ops, HI h ->
  wf_desc D m -> Forall (valid_op D) ops ->
  fault (st (reach m x mx h ops)) = false.
Proof. exact (L Lemmas_Inv.C03_no_fault_inv). Qed.

Theorem C03_safe_reachable_inv : forall m x mx h ops, HI h ->
  wf_desc D m -> Forall (valid_op D) ops ->
  Safe D m (st (reach m x mx h ops)).
Proof. exact (L Lemmas_Inv.C03_safe_reachable_inv). Qed.

Theorem step_safe_inv : forall m (w : world) o, HI (hs w) ->
  wf_desc D m -> valid_op D o -> Safe D m (st w) -> Safe D m (st (step w o)).
Proof. exact (L Lemmas_Inv.step_safe_inv). Qed.

Theorem run_safe_inv : forall m (w : world) ops, HI (hs w) ->
  wf_desc D m -> Forall (valid_op D) ops -> Safe D m (st w) -> Safe D m (st (run w ops)).
Proof. exact (L Lemmas_Inv.run_safe_inv). Qed.

Theorem reachable_inv : forall m x mx h ops, HI h ->
  wf_desc D m -> Forall (valid_op D) ops ->
  let w := reach m x mx h ops in
  fault (st w) = false /\ Safe D m (st w) /\ J (ctl_of (st w)) /\ HI (hs w).
Proof. exact (L Lemmas_Inv.reachable_inv). Qed.

Theorem C01_in_domain_inv : forall m x mx h ops, HI h ->
  wf_desc D m -> Forall (valid_op D) ops ->
  let s := st (reach m x mx h ops) in
  (gR s <= gL s <= S (gR s) /\ gR s <= gS s <= gL s) /\
  (reading_state (k_state (k s)) = true -> gL s = gR s /\ gS s = gR s) /\
  (gS s = S (gR s) -> (k_state (k s) = CS_FLUSH_WAIT \/ k_state (k s) = CS_FLUSH) /\ k_wafter (k s) = CS_AFTER_RESET).
Proof. exact (L Lemmas_Inv.C01_in_domain_inv). Qed.

Theorem C11_exclusion_in_domain_inv : forall m x mx h ops, HI h ->
  wf_desc D m -> Forall (valid_op D) ops ->
  let s := st (reach m x mx h ops) in
  ~ (k_state (k s) = CS_FLUSH /\ u_state (u s) = US_FLUSH).
Proof. exact (L Lemmas_Inv.C11_exclusion_in_domain_inv). Qed.

Theorem C14_in_domain_inv : forall m x mx h ops, HI h ->
  wf_desc D m -> Forall (valid_op D) ops ->
  let s := st (reach m x mx h ops) in
  (k_hold (k s) = true <-> k_state (k s) = CS_HOLD) /\
  (k_state (k s) = CS_HOLD -> gL s = S (gR s) /\ gS s = gR s).
Proof. exact (L Lemmas_Inv.C14_in_domain_inv). Qed.

Theorem C18_in_domain_inv : forall m x mx h ops, HI h ->
  wf_desc D m -> Forall (valid_op D) ops ->
  let s := st (reach m x mx h ops) in
  (is_busy s = ST_OK ->
     gL s = gR s /\ gS s = gR s /\ k_hold (k s) = false /\ k_cr (k s) = false /\ k_implicit (k s) = false /\
     k_state (k s) = CS_IDLE /\ u_state (u s) = US_IDLE) /\
  (is_hold s = ST_HOLD <-> k_state (k s) = CS_HOLD).
Proof. exact (L Lemmas_Inv.C18_in_domain_inv). Qed.
End InvD.

Print Assumptions Inv_run_san.
Print Assumptions J_in_domain_inv.
Print Assumptions C03_no_fault_inv.
Print Assumptions C03_safe_reachable_inv.
Print Assumptions step_safe_inv.
Print Assumptions run_safe_inv.
Print Assumptions reachable_inv.
Print Assumptions C01_in_domain_inv.
Print Assumptions C11_exclusion_in_domain_inv.
Print Assumptions C14_in_domain_inv.
Print Assumptions C18_in_domain_inv.

(* ================================================================== *)
(* 4. C16: no inner call from the handler states that are reached       *)
(* ================================================================== *)
Section InvC16.
Variable D : desc.
Variables ioS muS hS : Type.
Variable io_read : ioS -> ioS * option N.
Variable io_write : ioS -> N -> ioS * bool.
Variable mu_lock : muS -> muS * bool.
Variable mu_unlock : muS -> muS * bool.
Variable h_call : hS -> hreq -> hS * hres.
Variable HN : hS -> Prop.
Hypothesis HN_step : forall h q, HN h ->
  HN (fst (h_call h q)) /\ (d_mutex D = true -> r_calls (snd (h_call h q)) = []).

Notation world := (Fsm.world ioS muS hS).
Notation mu := (Fsm.mu ioS muS hS).
Notation hs := (Fsm.hs ioS muS hS).
Notation tr := (Fsm.tr ioS muS hS).
Notation hist := (TraceDefs.hist ioS muS hS).
Notation run := (Fsm.run D ioS muS hS io_read io_write mu_lock mu_unlock h_call).
Notation do_op := (Fsm.do_op D ioS muS hS io_read io_write mu_lock mu_unlock h_call).
Notation L T := (T D ioS muS hS io_read io_write mu_lock mu_unlock h_call HN HN_step).

Theorem C16_history_inv : forall m x mx h ops, HN h ->
  locks_ok false (locks (hist (run (mkWorld ioS muS hS (init_state D m) x mx h []) ops))) = true.
Proof. exact (L Lemmas_Inv.C16_history_inv). Qed.

Theorem C16_lock_success_inv : forall (w : world) o, HN (hs w) ->
  d_mutex D = true -> locking_op o = true ->
  snd (mu_lock (mu w)) = true ->
  let (w', r) := do_op w o in
  exists body ok2, tr w' = EUnlock ok2 :: body ++ ELock true :: tr w /\
                   forallb (fun e => negb (is_lock_ev e)) body = true /\
                   (ok2 = false -> r = ST_MUTEX_UNLOCK) /\
                   (ok2 = true -> r <> ST_MUTEX_UNLOCK /\ r <> ST_MUTEX_LOCK).
Proof. exact (L Lemmas_Inv.C16_lock_success_inv). Qed.
End InvC16.
Print Assumptions C16_history_inv.
Print Assumptions C16_lock_success_inv.

(* ================================================================== *)
(* 5. C13 / C17: the unlock succeeds in the mutex states that are reached *)
(* ================================================================== *)
Section InvMu.
Variable D : desc.
Variables ioS muS hS : Type.
Variable io_read : ioS -> ioS * option N.
Variable io_write : ioS -> N -> ioS * bool.
Variable mu_lock : muS -> muS * bool.
Variable mu_unlock : muS -> muS * bool.
Variable h_call : hS -> hreq -> hS * hres.
Variable MI : muS -> Prop.
Hypothesis MI_lock : forall m, MI m -> MI (fst (mu_lock m)).
Hypothesis MI_unlock : forall m, MI m -> MI (fst (mu_unlock m)) /\ snd (mu_unlock m) = true.

Notation world := (Fsm.world ioS muS hS).
Notation st := (Fsm.st ioS muS hS).
Notation mu := (Fsm.mu ioS muS hS).
Notation hist := (TraceDefs.hist ioS muS hS).
Notation run := (Fsm.run D ioS muS hS io_read io_write mu_lock mu_unlock h_call).
Notation step := (Fsm.step D ioS muS hS io_read io_write mu_lock mu_unlock h_call).
Notation reach m x mx h ops := (run (mkWorld ioS muS hS (init_state D m) x mx h []) ops).
Notation L T := (T D ioS muS hS io_read io_write mu_lock mu_unlock h_call MI MI_lock MI_unlock).

Theorem C13_exactly_once_inv : forall m x mx h ops,
  0 < d_cap D -> (d_mutex D = false \/ MI mx) ->
  let w := reach m x mx h ops in
  ring_wf D (st w) /\ accepted (hist w) = popped (hist w) ++ ring_items D (st w).
Proof. exact (L Lemmas_Inv.C13_exactly_once_inv). Qed.

Theorem C17_per_producer_inv : forall (P : nat * ctype -> bool) m x mx h ops,
  0 < d_cap D -> (d_mutex D = false \/ MI mx) ->
  let w := reach m x mx h ops in
  filter P (accepted (hist w)) = filter P (popped (hist w)) ++ filter P (ring_items D (st w)).
Proof. exact (L Lemmas_Inv.C17_per_producer_inv). Qed.

Theorem C17_threads_exactly_once_inv :
  forall (P : nat * ctype -> bool) m x mx h (tl : list (list op)) lin (c : conf world op),
  0 < d_cap D -> (d_mutex D = false \/ MI mx) ->
  let w0 := mkWorld ioS muS hS (init_state D m) x mx h [] in
  msteps (fun o w => step w o) (start w0 tl) lin c -> all_idle c ->
  let w := shared c in
  w = run w0 (map snd lin) /\
  filter P (accepted (hist w)) = filter P (popped (hist w)) ++ filter P (ring_items D (st w)).
Proof. exact (L Lemmas_Inv.C17_threads_exactly_once_inv). Qed.

(* one step from ANY world *)
Theorem ring_inv_step_inv : forall (w : world) o, (d_mutex D = false \/ MI (mu w)) ->
  (ring_wf D (st w) /\ accepted (hist w) = popped (hist w) ++ ring_items D (st w)) ->
  (ring_wf D (st (step w o)) /\
   accepted (hist (step w o)) = popped (hist (step w o)) ++ ring_items D (st (step w o))) /\
  (d_mutex D = false \/ MI (mu (step w o))).
Proof. exact (L Lemmas_Inv.ring_inv_step_inv). Qed.
End InvMu.
Print Assumptions C13_exactly_once_inv.
Print Assumptions C17_per_producer_inv.
Print Assumptions C17_threads_exactly_once_inv.
Print Assumptions ring_inv_step_inv.

(* ================================================================== *)
(* 6. the scripted oracles of Script.v                                 *)
(* ================================================================== *)

(* the invariants of the scripted oracle states: preserved by every call, and the answer of
   the call is good / makes no inner call / the unlock succeeds *)
Theorem scripted_handler_invariant : forall D h q,
  no_rt_hold h = true -> script_ok (res_calls_valid D) h = true ->
  (no_rt_hold (fst (s_call h q)) = true /\ script_ok (res_calls_valid D) (fst (s_call h q)) = true) /\
  Good D q (snd (s_call h q)).
Proof. intros D h q A B. exact (Lemmas_Inv.SI_step D h q (conj A B)). Qed.
Print Assumptions scripted_handler_invariant.

Theorem scripted_no_uhold_invariant : forall h q, no_rt_hold h = true ->
  no_rt_hold (fst (s_call h q)) = true /\
  (unsol_req q = true -> r_code (snd (s_call h q)) <> RC_HOLD).
Proof. exact Lemmas_Inv.no_rt_hold_step. Qed.
Print Assumptions scripted_no_uhold_invariant.

Theorem scripted_no_inner_invariant : forall h q, script_ok res_no_calls h = true ->
  script_ok res_no_calls (fst (s_call h q)) = true /\ r_calls (snd (s_call h q)) = [].
Proof.
  intros h q H. destruct (Lemmas_Inv.no_calls_step True h q (fun _ => H)) as [A B].
  split; [exact (A I) | exact (B I)].
Qed.
Print Assumptions scripted_no_inner_invariant.

Theorem scripted_mutex_invariant : forall mx, unlock_never_fails mx = true ->
  unlock_never_fails (fst (s_lock mx)) = true /\
  unlock_never_fails (fst (s_unlock mx)) = true /\ snd (s_unlock mx) = true.
Proof.
  intros mx H. split; [exact (Lemmas_Inv.MI_s_lock mx H) | exact (Lemmas_Inv.MI_s_unlock mx H)].
Qed.
Print Assumptions scripted_mutex_invariant.

(* a scenario made of API calls only is a run of the model *)
Theorem srun_SOp : forall D ops (w : sworld),
  srun D w (map SOp ops) = run D sio smu shs s_read s_write s_lock s_unlock s_call w ops.
Proof. exact Lemmas_Inv.srun_SOp. Qed.
Print Assumptions srun_SOp.

Section Scripted.
Variable D : desc.
Notation st := (Fsm.st sio smu shs).
Notation io := (Fsm.io sio smu shs).
Notation hs := (Fsm.hs sio smu shs).
Notation hist := (TraceDefs.hist sio smu shs).

(* ---- 6a. histories of API calls from cat_init ---- *)
Theorem J_reachable_scripted : forall m x mx h ops, no_rt_hold h = true ->
  let w := srun D (sinit D m x mx h) (map SOp ops) in
  fault (st w) = false -> J (ctl_of (st w)).
Proof. exact (Lemmas_Inv.J_reachable_scripted D). Qed.

Theorem J_in_domain_scripted : forall m x mx h ops,
  wf_desc D m -> Forall (valid_op D) ops ->
  no_rt_hold h = true -> script_ok (res_calls_valid D) h = true ->
  let s := st (srun D (sinit D m x mx h) (map SOp ops)) in
  fault s = false /\ J (ctl_of s).
Proof. exact (Lemmas_Inv.J_in_domain_scripted D). Qed.

Theorem C03_safe_scripted : forall m x mx h ops,
  wf_desc D m -> Forall (valid_op D) ops ->
  no_rt_hold h = true -> script_ok (res_calls_valid D) h = true ->
  let w := srun D (sinit D m x mx h) (map SOp ops) in
  fault (st w) = false /\ Safe D m (st w) /\ J (ctl_of (st w)).
Proof. exact (Lemmas_Inv.C03_safe_scripted D). Qed.

Theorem scripts_stay_ok : forall m x mx h ops,
  no_rt_hold h = true -> script_ok (res_calls_valid D) h = true ->
  let w := srun D (sinit D m x mx h) (map SOp ops) in
  no_rt_hold (hs w) = true /\ script_ok (res_calls_valid D) (hs w) = true.
Proof. exact (Lemmas_Inv.scripts_stay_ok D). Qed.

Theorem C13_exactly_once_scripted : forall m x mx h ops,
  0 < d_cap D -> (d_mutex D = false \/ unlock_never_fails mx = true) ->
  let w := srun D (sinit D m x mx h) (map SOp ops) in
  ring_wf D (st w) /\ accepted (hist w) = popped (hist w) ++ ring_items D (st w).
Proof. exact (Lemmas_Inv.C13_exactly_once_scripted D). Qed.

Theorem C17_per_producer_scripted : forall (P : nat * ctype -> bool) m x mx h ops,
  0 < d_cap D -> (d_mutex D = false \/ unlock_never_fails mx = true) ->
  let w := srun D (sinit D m x mx h) (map SOp ops) in
  filter P (accepted (hist w)) = filter P (popped (hist w)) ++ filter P (ring_items D (st w)).
Proof. exact (Lemmas_Inv.C17_per_producer_scripted D). Qed.

Theorem C16_history_scripted : forall m x mx h ops,
  (d_mutex D = true -> script_ok res_no_calls h = true) ->
  locks_ok false (locks (hist (srun D (sinit D m x mx h) (map SOp ops)))) = true.
Proof. exact (Lemmas_Inv.C16_history_scripted D). Qed.

Theorem C01_in_domain_scripted : forall m x mx h ops,
  wf_desc D m -> Forall (valid_op D) ops ->
  no_rt_hold h = true -> script_ok (res_calls_valid D) h = true ->
  let s := st (srun D (sinit D m x mx h) (map SOp ops)) in
  (gR s <= gL s <= S (gR s) /\ gR s <= gS s <= gL s) /\
  (reading_state (k_state (k s)) = true -> gL s = gR s /\ gS s = gR s) /\
  (gS s = S (gR s) -> (k_state (k s) = CS_FLUSH_WAIT \/ k_state (k s) = CS_FLUSH) /\ k_wafter (k s) = CS_AFTER_RESET).
Proof. exact (Lemmas_Inv.C01_in_domain_scripted D). Qed.

Theorem C11_exclusion_in_domain_scripted : forall m x mx h ops,
  wf_desc D m -> Forall (valid_op D) ops ->
  no_rt_hold h = true -> script_ok (res_calls_valid D) h = true ->
  let s := st (srun D (sinit D m x mx h) (map SOp ops)) in
  ~ (k_state (k s) = CS_FLUSH /\ u_state (u s) = US_FLUSH).
Proof. exact (Lemmas_Inv.C11_exclusion_in_domain_scripted D). Qed.

Theorem C14_in_domain_scripted : forall m x mx h ops,
  wf_desc D m -> Forall (valid_op D) ops ->
  no_rt_hold h = true -> script_ok (res_calls_valid D) h = true ->
  let s := st (srun D (sinit D m x mx h) (map SOp ops)) in
  (k_hold (k s) = true <-> k_state (k s) = CS_HOLD) /\
  (k_state (k s) = CS_HOLD -> gL s = S (gR s) /\ gS s = gR s).
Proof. exact (Lemmas_Inv.C14_in_domain_scripted D). Qed.

Theorem C18_in_domain_scripted : forall m x mx h ops,
  wf_desc D m -> Forall (valid_op D) ops ->
  no_rt_hold h = true -> script_ok (res_calls_valid D) h = true ->
  let s := st (srun D (sinit D m x mx h) (map SOp ops)) in
  (is_busy s = ST_OK ->
     gL s = gR s /\ gS s = gR s /\ k_hold (k s) = false /\ k_cr (k s) = false /\ k_implicit (k s) = false /\
     k_state (k s) = CS_IDLE /\ u_state (u s) = US_IDLE) /\
  (is_hold s = ST_HOLD <-> k_state (k s) = CS_HOLD).
Proof. exact (Lemmas_Inv.C18_in_domain_scripted D). Qed.

(* ---- 6b. scenarios: API calls, new input (SFeed) and application stores (SPoke) in any order.
        SReinit is excluded (cat_init on a live object keeps the ghost counters and drops the
        queue: neither J nor the queue equation survive it) ---- *)
Theorem scenario_inv_scripted : forall m x mx h sops,
  wf_desc D m -> Forall (valid_sop D) sops ->
  no_rt_hold h = true -> script_ok (res_calls_valid D) h = true ->
  let w := srun D (sinit D m x mx h) sops in
  fault (st w) = false /\ Safe D m (st w) /\ J (ctl_of (st w)) /\
  no_rt_hold (hs w) = true /\ script_ok (res_calls_valid D) (hs w) = true.
Proof. exact (Lemmas_Inv.scenario_inv_scripted D). Qed.

Theorem C13_exactly_once_scenario : forall m x mx h sops,
  0 < d_cap D -> (d_mutex D = false \/ unlock_never_fails mx = true) -> Forall no_reinit sops ->
  let w := srun D (sinit D m x mx h) sops in
  ring_wf D (st w) /\ accepted (hist w) = popped (hist w) ++ ring_items D (st w).
Proof. exact (Lemmas_Inv.C13_exactly_once_scenario D). Qed.

(* ---- 6c. C15 from cat_init.  Properties_C15c.C15_reaches_quiescence_fair starts from any
        world satisfying Safe, J, u_count <= d_cap and the script conditions; every scripted
        scenario delivers them.  `No HOLD any more` (last two hypotheses) is a condition on
        the world reached, not on the initial scripts: write / run scripts may have held the
        command and an OHoldExit released it before.  (k_hold = false follows from J.) ---- *)
Theorem C15_reachable_reaches_quiescence : forall m x mx h ops0,
  d_mutex D = false -> wf_desc D m -> Forall (valid_op D) ops0 ->
  no_rt_hold h = true -> script_ok (res_calls_valid D) h = true ->
  let w := srun D (sinit D m x mx h) (map SOp ops0) in
  k_state (k (st w)) <> CS_HOLD ->
  script_ok no_hold_res (hs w) = true ->
  exists n, n <= C15_bound D w + sched_left w /\
    inq (io (nsvc D n w)) = [] /\
    snd (do_op D sio smu shs s_read s_write s_lock s_unlock s_call (nsvc D n w) OService) = ST_OK.
Proof. exact (Lemmas_Inv.C15_reachable_reaches_quiescence D). Qed.

Theorem C15_scenario_reaches_quiescence : forall m x mx h sops,
  d_mutex D = false -> wf_desc D m -> Forall (valid_sop D) sops ->
  no_rt_hold h = true -> script_ok (res_calls_valid D) h = true ->
  let w := srun D (sinit D m x mx h) sops in
  k_state (k (st w)) <> CS_HOLD ->
  script_ok no_hold_res (hs w) = true ->
  exists n, n <= C15_bound D w + sched_left w /\
    inq (io (nsvc D n w)) = [] /\
    snd (do_op D sio smu shs s_read s_write s_lock s_unlock s_call (nsvc D n w) OService) = ST_OK.
Proof. exact (Lemmas_Inv.C15_scenario_reaches_quiescence D). Qed.

Theorem C15_scenario_nothing_left : forall m x mx h sops,
  d_mutex D = false -> wf_desc D m -> Forall (valid_sop D) sops ->
  no_rt_hold h = true -> script_ok (res_calls_valid D) h = true ->
  let w := srun D (sinit D m x mx h) sops in
  k_state (k (st w)) <> CS_HOLD ->
  script_ok no_hold_res (hs w) = true ->
  exists n, n <= C15_bound D w + sched_left w /\
    let w' := nsvc D n w in
    inq (io w') = [] /\
    u_count (u (st w')) = 0 /\ u_state (u (st w')) = US_IDLE /\
    reading_state (k_state (k (st w'))) = true /\ ring_items D (st w') = [] /\
    forall j,
      snd (do_op D sio smu shs s_read s_write s_lock s_unlock s_call (nsvc D j w') OService) = ST_OK /\
      st (nsvc D j w') = st w' /\ hs (nsvc D j w') = hs w'.
Proof. exact (Lemmas_Inv.C15_scenario_nothing_left D). Qed.
End Scripted.

Print Assumptions J_reachable_scripted.
Print Assumptions J_in_domain_scripted.
Print Assumptions C03_safe_scripted.
Print Assumptions scripts_stay_ok.
Print Assumptions C13_exactly_once_scripted.
Print Assumptions C17_per_producer_scripted.
Print Assumptions C16_history_scripted.
Print Assumptions C01_in_domain_scripted.
Print Assumptions C11_exclusion_in_domain_scripted.
Print Assumptions C14_in_domain_scripted.
Print Assumptions C18_in_domain_scripted.
Print Assumptions scenario_inv_scripted.
Print Assumptions C13_exactly_once_scenario.
Print Assumptions C15_reachable_reaches_quiescence.
Print Assumptions C15_scenario_reaches_quiescence.
Print Assumptions C15_scenario_nothing_left.

(* ------------------------------------------------------------------ *)
(* non-vacuity: the scripted hypotheses hold for concrete worlds and    *)
(* the theorems apply                                                   *)
(* ------------------------------------------------------------------ *)
