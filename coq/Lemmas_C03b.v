(* Lemmas_C03b.v — property C03 (no fault), part b: the supported domain, the invariant Safe,
   Safe (init_state), and preservation by the pure helpers (ring, hold, acknowledgements,
   flush, name matching, list printer). *)
From Coq Require Import List NArith ZArith Bool Arith Lia.
From CatV Require Import Bytes Defs Codec Fsm Lemmas_C03a.
Import ListNotations.
Local Open Scope nat_scope.

(* ------------------------------------------------------------------ *)
(* supported domain                                                     *)
(* ------------------------------------------------------------------ *)

Definition wf_var (m : list (list N)) (v : var) : Prop :=
  exists data, nth_error m (v_slot v) = Some data /\ v_size v <= length data.

(* a hex-buffer variable of size 0 prints nothing: harmless in first position (the text
   "NAME=" is already NUL-terminated), but after a comma the response would not be terminated *)
Definition hexbuf_nonempty (v : var) : Prop := v_type v = VBufHex -> 0 < v_size v.

Definition wf_desc (D : desc) (m : list (list N)) : Prop :=
  0 < d_cap D /\ 0 < ncmds D /\ ncmds D <= 4 * asz_of D /\ 6 <= asz_of D /\
  Forall (fun c => Forall (wf_var m) (c_vars c)) (pool D) /\
  Forall (fun c => Forall hexbuf_nonempty (tl (c_vars c))) (pool D).

Definition valid_trigger (D : desc) (ci : nat) (t : ctype) : Prop :=
  ci < length (pool D) /\ (t = T_READ \/ t = T_TEST).
Definition valid_op (D : desc) (o : op) : Prop :=
  match o with OTrigger ci t => valid_trigger D ci t | _ => True end.
Definition valid_icall (D : desc) (c : icall) : Prop :=
  match c with ITrigger ci t => valid_trigger D ci t | _ => True end.

(* ------------------------------------------------------------------ *)
(* symbolic evaluation of the record setters                            *)
(* ------------------------------------------------------------------ *)

Ltac sproj :=
  cbn [k u cbuf ubuf mem dis_cmd dis_grp fault gL gS gR k_index k_partial k_length k_position
       k_write_size k_cmd k_var k_type k_char k_state k_cr k_hold k_hold_exit k_wbuf k_wstate
       k_wafter k_implicit u_state u_index u_position u_cmd u_var u_type u_wbuf u_wstate u_wafter
       u_ring u_tail u_head u_count set_k_index set_k_partial set_k_length set_k_position
       set_k_write_size set_k_cmd set_k_var set_k_type set_k_char set_k_state set_k_cr set_k_hold
       set_k_hold_exit set_k_wbuf set_k_wstate set_k_wafter set_k_implicit set_u_state set_u_index
       set_u_position set_u_cmd set_u_var set_u_type set_u_wbuf set_u_wstate set_u_wafter
       set_u_ring set_u_tail set_u_head set_u_count set_k set_u set_cbuf set_ubuf set_mem
       set_dis_cmd set_dis_grp set_fault set_gL set_gS set_gR setk_index setk_partial setk_length
       setk_position setk_write_size setk_cmd setk_var setk_type setk_char setk_state setk_cr
       setk_hold setk_hold_exit setk_wbuf setk_wstate setk_wafter setk_implicit setu_state
       setu_index setu_position setu_cmd setu_var setu_type setu_wbuf setu_wstate setu_wafter
       setu_ring setu_tail setu_head setu_count g_pos setg_pos g_buf setg_buf g_cmd g_var setg_var
       g_index setg_index g_bsz asz usz set_fault_flag fst snd].

Ltac sproj_in H :=
  cbn [k u cbuf ubuf mem dis_cmd dis_grp fault gL gS gR k_index k_partial k_length k_position
       k_write_size k_cmd k_var k_type k_char k_state k_cr k_hold k_hold_exit k_wbuf k_wstate
       k_wafter k_implicit u_state u_index u_position u_cmd u_var u_type u_wbuf u_wstate u_wafter
       u_ring u_tail u_head u_count set_k_index set_k_partial set_k_length set_k_position
       set_k_write_size set_k_cmd set_k_var set_k_type set_k_char set_k_state set_k_cr set_k_hold
       set_k_hold_exit set_k_wbuf set_k_wstate set_k_wafter set_k_implicit set_u_state set_u_index
       set_u_position set_u_cmd set_u_var set_u_type set_u_wbuf set_u_wstate set_u_wafter
       set_u_ring set_u_tail set_u_head set_u_count set_k set_u set_cbuf set_ubuf set_mem
       set_dis_cmd set_dis_grp set_fault set_gL set_gS set_gR setk_index setk_partial setk_length
       setk_position setk_write_size setk_cmd setk_var setk_type setk_char setk_state setk_cr
       setk_hold setk_hold_exit setk_wbuf setk_wstate setk_wafter setk_implicit setu_state
       setu_index setu_position setu_cmd setu_var setu_type setu_wbuf setu_wstate setu_wafter
       setu_ring setu_tail setu_head setu_count g_pos setg_pos g_buf setg_buf g_cmd g_var setg_var
       g_index setg_index g_bsz asz usz set_fault_flag fst snd] in H.

Section Inv.
Variable D : desc.
Variable m : list (list N).
Hypothesis WF : wf_desc D m.

Local Notation npool := (length (pool D)).

(* ------------------------------------------------------------------ *)
(* the invariant                                                        *)
(* ------------------------------------------------------------------ *)

Definition cmd_wk (oc : option nat) : Prop :=
  match oc with Some ci => ci < npool | None => True end.
Definition cmd_ok (oc : option nat) : Prop :=
  match oc with Some ci => ci < npool | None => False end.
Definition var_ok (oc : option nat) (vi : nat) : Prop :=
  match oc with
  | Some ci => match nth_error (pool D) ci with
               | Some c => vi < length (c_vars c)
               | None => False
               end
  | None => False
  end.

Definition nl_max (crlf : bool) : nat := if crlf then 2 else 1.

(* a pending flush: the text being sent is terminated at or after the cursor, and the main text
   is terminated when it is still to be sent *)
Definition flush_ok (wb : wbuf) (ws : wstate) (p : nat) (b : list N) : Prop :=
  match wb with WB_NL crlf => p <= nl_max crlf | WB_MAIN => nul_from p b end /\
  match ws with WS_BEFORE => In 0%N b | _ => True end.

(* what the state entered after the flush needs *)
Definition Kafter (x : cfsm) : Prop :=
  match k_wafter x with
  | CS_AFTER_RESET | CS_AFTER_OK => True
  | CS_AFTER_FMT_READ | CS_AFTER_FMT_TEST => cmd_ok (k_cmd x)
  | CS_PRINT_CMD => k_index x < ncmds D
  | _ => False
  end.

Definition KS (x : cfsm) (b : list N) : Prop :=
  match k_state x with
  | CS_ERROR | CS_IDLE | CS_PARSE_PREFIX | CS_WAIT_READ_ACK | CS_COMMAND_NOT_FOUND
  | CS_HOLD | CS_AFTER_RESET | CS_AFTER_OK => True
  | CS_PARSE_COMMAND_CHAR | CS_SEARCH_COMMAND | CS_PRINT_CMD => k_index x < ncmds D
  | CS_UPDATE_COMMAND_STATE => k_index x < ncmds D /\ 1 <= k_length x
  | CS_COMMAND_FOUND | CS_WAIT_TEST_ACK | CS_WRITE_LOOP | CS_RUN_LOOP
  | CS_AFTER_FMT_READ | CS_AFTER_FMT_TEST => cmd_ok (k_cmd x)
  | CS_PARSE_COMMAND_ARGS => cmd_ok (k_cmd x) /\ nth_error b (k_length x) = Some 0%N
  | CS_PARSE_WRITE_ARGS => var_ok (k_cmd x) (k_var x) /\ nul_from (k_position x) b
  | CS_FORMAT_READ_ARGS =>
      var_ok (k_cmd x) (k_var x) /\ k_position x <= length b /\
      (k_var x = 0 -> nth_error b (k_position x) = Some 0%N)
  | CS_FORMAT_TEST_ARGS => var_ok (k_cmd x) (k_var x) /\ k_position x <= length b
  | CS_READ_LOOP | CS_TEST_LOOP => cmd_ok (k_cmd x) /\ In 0%N b
  | CS_FLUSH_WAIT | CS_FLUSH => flush_ok (k_wbuf x) (k_wstate x) (k_position x) b /\ Kafter x
  end.

Definition ring_ok (y : ufsm) : Prop :=
  length (u_ring y) = d_cap D /\ u_head y < d_cap D /\ u_tail y < d_cap D /\
  Forall (fun it => fst it < npool) (u_ring y).

Definition Uafter (y : ufsm) : Prop :=
  match u_wafter y with
  | US_AFTER_RESET | US_AFTER_OK => True
  | US_AFTER_FMT_READ | US_AFTER_FMT_TEST => cmd_ok (u_cmd y)
  | _ => False
  end.

Definition US (y : ufsm) (b : list N) : Prop :=
  match u_state y with
  | US_IDLE | US_AFTER_RESET | US_AFTER_OK => True
  | US_FORMAT_READ_ARGS =>
      var_ok (u_cmd y) (u_var y) /\ u_position y <= length b /\
      (u_var y = 0 -> nth_error b (u_position y) = Some 0%N)
  | US_FORMAT_TEST_ARGS => var_ok (u_cmd y) (u_var y) /\ u_position y <= length b
  | US_READ_LOOP | US_TEST_LOOP => cmd_ok (u_cmd y) /\ In 0%N b
  | US_FLUSH_WAIT | US_FLUSH => flush_ok (u_wbuf y) (u_wstate y) (u_position y) b /\ Uafter y
  | US_AFTER_FMT_READ | US_AFTER_FMT_TEST => cmd_ok (u_cmd y)
  end.

(* the part of the invariant that does not depend on the machines' states *)
Definition Base (s : state) : Prop :=
  fault s = false /\ length (cbuf s) = asz_of D /\ length (ubuf s) = usz_of D /\
  map (@length N) (mem s) = map (@length N) m /\
  cmd_wk (k_cmd (k s)) /\ cmd_wk (u_cmd (u s)) /\ ring_ok (u s).

Definition Safe (s : state) : Prop :=
  Base s /\ KS (k s) (cbuf s) /\ US (u s) (ubuf s).

(* what a function that overwrites the state of machine f needs from the rest *)
Definition Pre (f : fsm) (s : state) : Prop :=
  Base s /\ match f with ATCMD => US (u s) (ubuf s) | UNSOL => KS (k s) (cbuf s) end.

Lemma safe_pre : forall f s, Safe s -> Pre f s.
Proof. intros f s (B & HK & HU). destruct f; split; assumption. Qed.

(* domain facts *)
Lemma wf_cap : 0 < d_cap D. Proof. apply WF. Qed.
Lemma wf_ncmds : 0 < ncmds D. Proof. apply WF. Qed.
Lemma wf_lanes : ncmds D <= 4 * asz_of D. Proof. apply WF. Qed.
Lemma wf_asz : 6 <= asz_of D. Proof. apply WF. Qed.
Lemma ncmds_pool : ncmds D <= npool.
Proof. unfold pool, ncmds. rewrite app_length. lia. Qed.

Lemma cmd_ok_wk : forall oc, cmd_ok oc -> cmd_wk oc.
Proof. intros [ci|]; cbn; auto. Qed.
Lemma var_ok_cmd : forall oc vi, var_ok oc vi -> cmd_ok oc.
Proof.
  intros [ci|] vi; cbn; auto. destruct (nth_error (pool D) ci) eqn:E; [|tauto].
  intros _. apply nth_error_Some. congruence.
Qed.
Lemma cmd_ok_at : forall oc, cmd_ok oc -> exists ci c, oc = Some ci /\ nth_error (pool D) ci = Some c.
Proof.
  intros [ci|] H; cbn in H; [|tauto]. destruct (nth_error (pool D) ci) eqn:E; eauto.
  apply nth_error_None in E. lia.
Qed.

(* ------------------------------------------------------------------ *)
(* tactics                                                              *)
(* ------------------------------------------------------------------ *)

Ltac base_open H :=
  let Hf := fresh "Hf" in let Hcb := fresh "Hcb" in let Hub := fresh "Hub" in
  let Hm := fresh "Hm" in let Hkc := fresh "Hkc" in let Huc := fresh "Huc" in
  let Hr := fresh "Hr" in
  destruct H as (Hf & Hcb & Hub & Hm & Hkc & Huc & Hr).

Ltac safe_open H :=
  let HB := fresh "HB" in let HK := fresh "HK" in let HU := fresh "HU" in
  destruct H as (HB & HK & HU); base_open HB.

Ltac pre_open H :=
  let HB := fresh "HB" in let HO := fresh "HO" in
  destruct H as (HB & HO); base_open HB; sproj_in HO.

(* Base (setters s): seven parts, those that are syntactically unchanged are closed *)
Ltac base_split :=
  unfold Base; sproj;
  split; [try assumption | split; [try assumption | split; [try assumption |
  split; [try assumption | split; [try assumption | split; [try assumption | try assumption]]]]]].

Ltac safe_split :=
  unfold Safe; sproj; split; [base_split | split; [try assumption | try assumption]].

(* ------------------------------------------------------------------ *)
(* Safe (init_state)                                                    *)
(* ------------------------------------------------------------------ *)

Lemma safe_init : Safe (init_state D m).
Proof.
  unfold Safe, Base, init_state, init_cfsm, init_ufsm, KS, US, ring_ok, cmd_wk. sproj.
  rewrite !repeat_length. repeat split; auto using wf_cap.
  pose proof wf_ncmds. pose proof ncmds_pool.
  apply Forall_forall. intros it Hin. apply repeat_spec in Hin. subst it. cbn [fst]. lia.
Qed.

Lemma safe_fault : forall s, Safe s -> fault s = false.
Proof. intros s H. apply H. Qed.

(* ------------------------------------------------------------------ *)
(* acknowledgements, reset, hold                                        *)
(* ------------------------------------------------------------------ *)

Lemma txt_ok_nul : forall n, 6 <= n -> In 0%N (strncpy_buf n txt_OK).
Proof. intros n H. apply strncpy_nul. change (length txt_OK) with 2. lia. Qed.
Lemma txt_error_nul : forall n, 6 <= n -> In 0%N (strncpy_buf n txt_ERROR).
Proof. intros n H. apply strncpy_nul. change (length txt_ERROR) with 5. lia. Qed.

Lemma nl_max_0 : forall b, 0 <= nl_max b. Proof. intros; lia. Qed.

Lemma ack_error_safe : forall s, Pre ATCMD s -> Safe (ack_error s).
Proof.
  intros s H. pre_open H. unfold ack_error, start_flush_c. safe_split.
  - rewrite strncpy_len. exact Hcb.
  - unfold KS, flush_ok, Kafter. sproj.
    pose proof wf_asz. repeat split; auto using nl_max_0.
    apply txt_error_nul. unfold asz. lia.
Qed.

Lemma ack_ok_safe : forall s, Pre ATCMD s -> Safe (ack_ok s).
Proof.
  intros s H. pre_open H. unfold ack_ok, start_flush_c. safe_split.
  - rewrite strncpy_len. exact Hcb.
  - unfold KS, flush_ok, Kafter. sproj.
    pose proof wf_asz. repeat split; auto using nl_max_0.
    apply txt_ok_nul. unfold asz. lia.
Qed.

Lemma reset_state_safe : forall s, Pre ATCMD s -> Safe (reset_state s).
Proof.
  intros s H. pre_open H. unfold reset_state.
  destruct (k_hold (k s)); safe_split; unfold KS, cmd_wk; sproj; auto.
Qed.

Lemma unsolicited_reset_state_safe : forall s, Pre UNSOL s -> Safe (unsolicited_reset_state s).
Proof.
  intros s H. pre_open H. unfold unsolicited_reset_state. safe_split; unfold US, cmd_wk; sproj; auto.
Qed.

Lemma enable_hold_state_safe : forall s, Safe s -> Safe (enable_hold_state s).
Proof.
  intros s H. safe_open H. unfold enable_hold_state. safe_split. unfold KS; sproj; auto.
Qed.

Lemma hold_exit_safe : forall s z, Safe s -> Safe (fst (hold_exit s z)).
Proof.
  intros s z H. unfold hold_exit. destruct (negb (k_hold (k s))); cbn [fst]; [exact H|].
  safe_open H. safe_split.
Qed.

Lemma hold_exit_pre : forall f s z, Pre f s -> Pre f (fst (hold_exit s z)).
Proof.
  intros f s z H. unfold hold_exit. destruct (negb (k_hold (k s))); cbn [fst]; [exact H|].
  pre_open H. split; [base_split | destruct f; sproj; assumption].
Qed.

Lemma process_hold_state_safe : forall s, Safe s -> Safe (process_hold_state s).
Proof.
  intros s H. unfold process_hold_state.
  destruct (k_hold_exit (k s) =? 0)%Z; [exact H|].
  assert (H1 : Pre ATCMD (setk_hold false s)).
  { apply (safe_pre ATCMD) in H. pre_open H. split; [base_split | sproj; assumption]. }
  destruct (k_hold_exit (k s) <? 0)%Z; [apply ack_error_safe | apply ack_ok_safe]; exact H1.
Qed.

End Inv.
